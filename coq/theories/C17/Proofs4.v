(* C17/Proofs4.v -- connection accounting of the pool model: every open connection is in the pool,
   held by a connect, or queued in Close; a closed pool is empty; HandleError removes the connection
   and starts a fill; pooled connections are open unless the error callback overtook the append. *)
From GocqlV Require Import Lib.Base Gen.Consts C17.Model C17.Spec C17.Proofs1 C17.Proofs2.
From Coq Require Import Permutation.

Lemma NoDup_app_l {A} (l l' : list A) : NoDup (l ++ l') -> NoDup l.
Proof.
  induction l as [|x r IH]; simpl; intro H; [constructor|].
  inversion H; subst. constructor; [|auto]. intro Hin. apply H2. apply in_or_app. now left.
Qed.

Definition hand (tk : list (nat * (nat * tphase))) : list nat :=
  flat_map (fun e => match snd (snd e) with THave c => [c] | TDial => [] end) tk.

Lemma in_hand_hand s : in_hand s = hand (p_tasks s).
Proof. reflexivity. Qed.

Lemma hand_app a b : hand (a ++ b) = hand a ++ hand b.
Proof. unfold hand. apply flat_map_app. Qed.

Lemma hand_new_tasks t f n : hand (new_tasks t f n) = [].
Proof. revert f; induction n as [|n IH]; intro f; simpl; [reflexivity|]. apply IH. Qed.

Lemma hand_aset_have k t c tk : alookup k tk = Some (t, TDial) -> Permutation (hand (aset k (t, THave c) tk)) (c :: hand tk).
Proof.
  induction tk as [|[k' [t' ph]] r IH]; simpl; [discriminate|].
  destruct (Nat.eqb_spec k' k) as [->|Hne]; intro H.
  - inversion H; subst. simpl. apply Permutation_refl.
  - simpl. specialize (IH H). destruct ph as [|c']; simpl; [assumption|].
    eapply perm_trans; [apply perm_skip; exact IH|apply perm_swap].
Qed.

Lemma hand_aremove_have k t c tk : alookup k tk = Some (t, THave c) -> Permutation (c :: hand (aremove k tk)) (hand tk).
Proof.
  induction tk as [|[k' [t' ph]] r IH]; simpl; [discriminate|].
  destruct (Nat.eqb_spec k' k) as [->|Hne]; intro H.
  - inversion H; subst. simpl. apply Permutation_refl.
  - simpl. specialize (IH H). destruct ph as [|c']; simpl; [assumption|].
    eapply perm_trans; [apply perm_swap|apply perm_skip; exact IH].
Qed.

Lemma hand_aremove_dial k t tk : alookup k tk = Some (t, TDial) -> hand (aremove k tk) = hand tk.
Proof.
  induction tk as [|[k' [t' ph]] r IH]; simpl; [discriminate|].
  destruct (Nat.eqb_spec k' k) as [->|Hne]; intro H.
  - inversion H; subst. reflexivity.
  - simpl. now rewrite (IH H).
Qed.

Lemma alookup_have_in_hand k t c tk : alookup k tk = Some (t, THave c) -> In c (hand tk).
Proof.
  intro H. eapply Permutation_in; [apply (hand_aremove_have k t c tk H)|now left].
Qed.

Lemma hand_aset_iff k t c tk x : alookup k tk = Some (t, TDial) ->
  (In x (hand (aset k (t, THave c) tk)) <-> x = c \/ In x (hand tk)).
Proof.
  intro E. pose proof (hand_aset_have k t c tk E) as P. split; intro H.
  - apply (Permutation_in _ P) in H. destruct H; auto.
  - apply (Permutation_in _ (Permutation_sym P)). destruct H; [left; auto|right; auto].
Qed.

Lemma hand_aremove_iff k t c tk x : alookup k tk = Some (t, THave c) ->
  (In x (hand tk) <-> x = c \/ In x (hand (aremove k tk))).
Proof.
  intro E. pose proof (hand_aremove_have k t c tk E) as P. split; intro H.
  - apply (Permutation_in _ (Permutation_sym P)) in H. destruct H; auto.
  - apply (Permutation_in _ P). destruct H; [left; auto|right; auto].
Qed.

Record invB (s : pool) : Prop := {
  b_nd : NoDup (p_conns s ++ in_hand s ++ p_closing s);
  b_lt : forall c, In c (p_conns s ++ in_hand s ++ p_closing s ++ p_open s ++ p_dead s) -> (c < p_next_conn s)%nat;
  b_nd_open : NoDup (p_open s);
  b_disj : forall c, In c (p_open s) -> ~ In c (p_dead s);
  b_acc : no_leak s;
  b_closed : p_closed s = true -> p_conns s = []
}.

Lemma invB_init size : invB (pool_init size).
Proof. constructor; simpl; try constructor; unfold no_leak; simpl; tauto. Qed.

(* invB reads conns, tasks only through [hand], closing, open, dead, closed, next_conn *)
Lemma invB_ext s s' : invB s -> p_conns s' = p_conns s -> hand (p_tasks s') = hand (p_tasks s) -> p_closing s' = p_closing s ->
  p_open s' = p_open s -> p_dead s' = p_dead s -> p_closed s' = p_closed s -> p_next_conn s' = p_next_conn s -> invB s'.
Proof.
  intros I Hc Hh Hcl Ho Hd Hcd Hn. destruct I. unfold no_leak in *. rewrite in_hand_hand in *.
  constructor; unfold no_leak; rewrite ?in_hand_hand, ?Hc, ?Hh, ?Hcl, ?Ho, ?Hd, ?Hcd, ?Hn; auto.
Qed.

Ltac in_apps := repeat (rewrite in_app_iff in * ); simpl In in *.

Lemma invB_step s l s' : invA s -> invB s -> pstep s l = Some s' -> invB s'.
Proof.
  intros IA I H. destruct l as [t|t|t|t|t|k|k|k|k|c|c t| |]; cbn [pstep] in H.
  - (* FillStart *)
    destruct (memb t (akeys (p_threads s))); [discriminate|]. inv_some H. eapply invB_ext; eauto.
  - (* FillCheck *)
    destruct (alookup t (p_threads s)) as [[| | | |]|]; try discriminate.
    destruct (p_closed s || p_filling s); [inv_some H; eapply invB_ext; eauto|].
    destruct (p_size s - Z.of_nat (length (p_conns s)) <=? 0); inv_some H; eapply invB_ext; eauto.
  - (* FillDecide *)
    destruct (alookup t (p_threads s)) as [[| | | |]|]; try discriminate.
    destruct (p_closed s || p_filling s || (p_size s - Z.of_nat (length (p_conns s)) <=? 0)); [inv_some H; eapply invB_ext; eauto|].
    destruct (length (p_conns s)); inv_some H; eapply invB_ext; eauto; try reflexivity.
    all: cbn [p_tasks]; rewrite hand_app; simpl; now rewrite app_nil_r.
  - (* FillAsync *)
    destruct (alookup t (p_threads s)) as [[| | |rem|]|]; try discriminate. inv_some H. eapply invB_ext; eauto; try reflexivity.
    all: cbn [p_tasks]; rewrite hand_app, hand_new_tasks; now rewrite app_nil_r.
  - (* FillStopped *)
    destruct (alookup t (p_threads s)) as [[| | | |]|]; try discriminate.
    destruct (existsb (owns t) (p_tasks s)); [discriminate|]. inv_some H. eapply invB_ext; eauto.
  - (* DialOk *)
    destruct (alookup k (p_tasks s)) as [[t [|c]]|] eqn:E; try discriminate. inv_some H.
    pose proof (hand_aset_have k t (p_next_conn s) _ E) as P. destruct I. unfold no_leak in *. rewrite in_hand_hand in *.
    assert (Hfresh : forall x, In x (p_conns s ++ hand (p_tasks s) ++ p_closing s ++ p_open s ++ p_dead s) -> x <> p_next_conn s).
    { intros x Hx. specialize (b_lt0 x Hx). lia. }
    constructor; unfold no_leak; rewrite ?in_hand_hand; cbn [p_conns p_tasks p_closing p_open p_dead p_closed p_next_conn].
    + eapply Permutation_NoDup.
      * apply Permutation_sym. eapply perm_trans; [apply Permutation_app_head; apply Permutation_app_tail; exact P|].
        simpl. apply Permutation_sym. apply Permutation_middle.
      * constructor; [|assumption]. intro Hin. eapply Hfresh; [|reflexivity]. in_apps. intuition congruence.
    + intros c Hc. in_apps. rewrite (hand_aset_iff k t (p_next_conn s) _ c E) in Hc.
      destruct (Nat.eq_dec c (p_next_conn s)) as [->|Hne]; [lia|].
      assert (Hlt : (c < p_next_conn s)%nat) by (apply b_lt0; in_apps; intuition congruence). lia.
    + apply NoDup_snoc; [assumption|]. intro Hin. eapply Hfresh; [|reflexivity]. in_apps. intuition congruence.
    + intros c Hc. in_apps. destruct Hc as [Hc|[Hc|[]]]; [auto|]. subst c. intro Hd. eapply Hfresh; [|reflexivity]. in_apps. intuition congruence.
    + intros c Hc. in_apps. rewrite (hand_aset_iff k t (p_next_conn s) _ c E).
      destruct Hc as [Hc|[Hc|[]]]; [|subst; tauto]. destruct (b_acc0 c Hc) as [H1|[H1|H1]]; tauto.
    + assumption.
  - (* DialFail *)
    destruct (alookup k (p_tasks s)) as [[t [|c]]|] eqn:E; try discriminate. inv_some H. eapply invB_ext; eauto.
    cbn [p_tasks]. eapply hand_aremove_dial; eauto.
  - (* KsFail *)
    destruct (alookup k (p_tasks s)) as [[t [|c]]|] eqn:E; try discriminate. inv_some H.
    pose proof (hand_aremove_have k t c _ E) as P. destruct I. unfold no_leak in *. rewrite in_hand_hand in *.
    assert (Hnd' : NoDup (c :: p_conns s ++ hand (aremove k (p_tasks s)) ++ p_closing s)).
    { eapply Permutation_NoDup; [|exact b_nd0]. apply Permutation_sym. eapply perm_trans; [apply Permutation_middle|].
      apply Permutation_app_head. change (Permutation ((c :: hand (aremove k (p_tasks s))) ++ p_closing s) (hand (p_tasks s) ++ p_closing s)).
      now apply Permutation_app_tail. }
    constructor; unfold no_leak; rewrite ?in_hand_hand; cbn [p_conns p_tasks p_closing p_open p_dead p_closed p_next_conn].
    + now inversion Hnd'.
    + intros x Hx. apply b_lt0. in_apps. destruct Hx as [Hx|[Hx|[Hx|[Hx|Hx]]]]; auto.
      * right; left. apply (Permutation_in _ P). now right.
      * apply In_remn in Hx. tauto.
    + now apply NoDup_remn.
    + intros x Hx. apply In_remn in Hx. apply b_disj0. tauto.
    + intros x Hx. apply In_remn in Hx. destruct Hx as [Hx Hne]. destruct (b_acc0 x Hx) as [H1|[H1|H1]]; auto.
      apply (Permutation_in _ (Permutation_sym P)) in H1. destruct H1; [congruence|auto].
    + assumption.
  - (* ConnectAdd *)
    destruct (alookup k (p_tasks s)) as [[t [|c]]|] eqn:E; try discriminate.
    pose proof (hand_aremove_have k t c _ E) as P. destruct I. unfold no_leak in *. rewrite in_hand_hand in *.
    assert (Hnd' : NoDup (c :: p_conns s ++ hand (aremove k (p_tasks s)) ++ p_closing s)).
    { eapply Permutation_NoDup; [|exact b_nd0]. apply Permutation_sym. eapply perm_trans; [apply Permutation_middle|].
      apply Permutation_app_head. change (Permutation ((c :: hand (aremove k (p_tasks s))) ++ p_closing s) (hand (p_tasks s) ++ p_closing s)).
      now apply Permutation_app_tail. }
    destruct (p_closed s) eqn:Ecl; inv_some H;
      constructor; unfold no_leak; rewrite ?in_hand_hand; cbn [p_conns p_tasks p_closing p_open p_dead p_closed p_next_conn].
    + now inversion Hnd'.
    + intros x Hx. apply b_lt0. in_apps. destruct Hx as [Hx|[Hx|[Hx|[Hx|Hx]]]]; auto.
      * right; left. apply (Permutation_in _ P). now right.
      * apply In_remn in Hx. tauto.
    + now apply NoDup_remn.
    + intros x Hx. apply In_remn in Hx. apply b_disj0. tauto.
    + intros x Hx. apply In_remn in Hx. destruct Hx as [Hx Hne]. destruct (b_acc0 x Hx) as [H1|[H1|H1]]; auto.
      apply (Permutation_in _ (Permutation_sym P)) in H1. destruct H1; [congruence|auto].
    + auto.
    + rewrite <- app_assoc. simpl. eapply Permutation_NoDup; [|exact Hnd']. apply Permutation_middle.
    + intros x Hx. apply b_lt0. in_apps. destruct Hx as [[Hx|[Hx|[]]]|[Hx|[Hx|[Hx|Hx]]]]; auto.
      * subst x. right; left. apply (Permutation_in _ P). now left.
      * right; left. apply (Permutation_in _ P). now right.
    + assumption.
    + assumption.
    + intros x Hx. in_apps. destruct (b_acc0 x Hx) as [H1|[H1|H1]]; auto.
      apply (Permutation_in _ (Permutation_sym P)) in H1. destruct H1; [subst; auto|auto].
    + discriminate.
  - (* ConnDie *)
    destruct (memb c (p_open s)) eqn:Em; [|discriminate]. inv_some H. apply memb_In in Em.
    destruct I. unfold no_leak in *. rewrite in_hand_hand in *.
    constructor; unfold no_leak; rewrite ?in_hand_hand; cbn [p_conns p_tasks p_closing p_open p_dead p_closed p_next_conn]; auto.
    + intros x Hx. apply b_lt0. in_apps. destruct Hx as [Hx|[Hx|[Hx|[Hx|[Hx|[Hx|[]]]]]]]; auto.
      * apply In_remn in Hx. tauto.
      * subst x. tauto.
    + now apply NoDup_remn.
    + intros x Hx. apply In_remn in Hx. destruct Hx as [Hx Hne]. in_apps. intros [Hd|[Hd|[]]]; [eapply b_disj0; eauto|congruence].
    + intros x Hx. apply In_remn in Hx. apply b_acc0. tauto.
  - (* HErr *)
    destruct (memb c (p_dead s)) eqn:Ed; [|discriminate]. apply memb_In in Ed.
    destruct I. unfold no_leak in *. rewrite in_hand_hand in *.
    assert (Hnotopen : ~ In c (p_open s)) by (intro Ho; eapply b_disj0; eauto).
    destruct (p_closed s) eqn:Ecl.
    { inv_some H. constructor; unfold no_leak; rewrite ?in_hand_hand; cbn [p_conns p_tasks p_closing p_open p_dead p_closed p_next_conn]; auto.
      - intros x Hx. apply b_lt0. in_apps. destruct Hx as [Hx|[Hx|[Hx|[Hx|Hx]]]]; auto. apply In_remn in Hx. tauto.
      - intros x Hx Hd. apply In_remn in Hd. eapply b_disj0; eauto. tauto. }
    destruct (memb c (p_conns s)) eqn:Ec.
    + destruct (memb t (akeys (p_threads s))); [discriminate|]. inv_some H. apply memb_In in Ec.
      pose proof (remove_swap_perm c _ Ec) as P.
      constructor; unfold no_leak; rewrite ?in_hand_hand; cbn [p_conns p_tasks p_closing p_open p_dead p_closed p_next_conn]; auto.
      * assert (Hnd' : NoDup (c :: remove_swap c (p_conns s) ++ hand (p_tasks s) ++ p_closing s)).
        { eapply Permutation_NoDup; [|exact b_nd0]. apply Permutation_sym.
          change (Permutation ((c :: remove_swap c (p_conns s)) ++ hand (p_tasks s) ++ p_closing s) (p_conns s ++ hand (p_tasks s) ++ p_closing s)).
          now apply Permutation_app_tail. }
        now inversion Hnd'.
      * intros x Hx. apply b_lt0. in_apps. destruct Hx as [Hx|[Hx|[Hx|[Hx|Hx]]]]; auto.
        -- left. eapply remove_swap_In; eauto.
        -- apply In_remn in Hx. tauto.
      * intros x Hx Hd. apply In_remn in Hd. eapply b_disj0; eauto. tauto.
      * intros x Hx. destruct (b_acc0 x Hx) as [H1|[H1|H1]]; auto. left. apply remove_swap_In_other; [assumption|]. intro; subst. tauto.
      * discriminate.
    + inv_some H. constructor; unfold no_leak; rewrite ?in_hand_hand; cbn [p_conns p_tasks p_closing p_open p_dead p_closed p_next_conn]; auto.
      * intros x Hx. apply b_lt0. in_apps. destruct Hx as [Hx|[Hx|[Hx|[Hx|Hx]]]]; auto. apply In_remn in Hx. tauto.
      * intros x Hx Hd. apply In_remn in Hd. eapply b_disj0; eauto. tauto.
  - (* PClose *)
    destruct (p_closed s) eqn:Ecl; inv_some H; [assumption|].
    destruct I. unfold no_leak in *. rewrite in_hand_hand in *.
    constructor; unfold no_leak; rewrite ?in_hand_hand; cbn [p_conns p_tasks p_closing p_open p_dead p_closed p_next_conn]; auto.
    + simpl. eapply Permutation_NoDup; [|exact b_nd0].
      eapply perm_trans; [apply Permutation_app_comm|]. rewrite <- app_assoc. apply Permutation_refl.
    + intros x Hx. apply b_lt0. in_apps. intuition congruence.
    + intros x Hx. destruct (b_acc0 x Hx) as [H1|[H1|H1]]; in_apps; auto.
  - (* PCloseConn *)
    destruct (p_closing s) as [|c r] eqn:Ecg; [discriminate|]. inv_some H.
    destruct I. unfold no_leak in *. rewrite in_hand_hand in *. rewrite Ecg in *.
    constructor; unfold no_leak; rewrite ?in_hand_hand; cbn [p_conns p_tasks p_closing p_open p_dead p_closed p_next_conn]; auto.
    + assert (Hnd' : NoDup (c :: p_conns s ++ hand (p_tasks s) ++ r)).
      { eapply Permutation_NoDup; [|exact b_nd0]. apply Permutation_sym. eapply perm_trans; [apply Permutation_middle|].
        apply Permutation_app_head. apply Permutation_middle. }
      now inversion Hnd'.
    + intros x Hx. apply b_lt0. in_apps. destruct Hx as [Hx|[Hx|[Hx|[Hx|Hx]]]]; auto. apply In_remn in Hx. tauto.
    + now apply NoDup_remn.
    + intros x Hx. apply In_remn in Hx. apply b_disj0. tauto.
    + intros x Hx. apply In_remn in Hx. destruct Hx as [Hx Hne]. destruct (b_acc0 x Hx) as [H1|[H1|[H1|H1]]]; auto. congruence.
Qed.

Theorem invAB_run size ls s : prun (pool_init size) ls = Some s -> invA s /\ invB s.
Proof.
  assert (G : forall ls s0 s, invA s0 -> invB s0 -> prun s0 ls = Some s -> invA s /\ invB s).
  { clear. intro ls. induction ls as [|l r IH]; simpl; intros s0 s1 IA IB H; [inversion H; subst; auto|].
    destruct (pstep s0 l) eqn:E; [|discriminate].
    eapply IH; [eapply invA_step; eauto|eapply invB_step; eauto|exact H]. }
  intro H. eapply G; [apply invA_init|apply invB_init|exact H].
Qed.

(* ---- no connection survives the close of its pool ---- *)
Lemma no_conn_survives_close_lemma size ls s : prun (pool_init size) ls = Some s ->
  no_leak s /\ (p_closed s = true -> p_conns s = [] /\ (p_quiescent s = true -> p_open s = [])).
Proof.
  intro H. destruct (invAB_run _ _ _ H) as [_ IB]. split; [apply (b_acc s IB)|].
  intro Hc. split; [now apply (b_closed s IB)|].
  intro Hq. unfold p_quiescent in Hq.
  destruct (p_threads s); [|discriminate]. destruct (p_tasks s) eqn:Et; [|discriminate].
  destruct (p_closing s) eqn:Ecg; [|discriminate].
  destruct (p_open s) as [|c r] eqn:Eo; [reflexivity|exfalso].
  destruct (b_acc s IB c) as [H1|[H1|H1]]; [rewrite Eo; now left| | |].
  - rewrite (b_closed s IB Hc) in H1. destruct H1.
  - unfold in_hand in H1. rewrite Et in H1. destruct H1.
  - rewrite Ecg in H1. destruct H1.
Qed.

(* ---- HandleError removes the connection and starts a fill ---- *)
Lemma closed_conn_removed_lemma size ls s c t s' : prun (pool_init size) ls = Some s ->
  pstep s (HErr c t) = Some s' -> p_closed s = false ->
  ~ In c (p_conns s')
  /\ (forall c', In c' (p_conns s) -> c' <> c -> In c' (p_conns s'))
  /\ (In c (p_conns s) -> S (length (p_conns s')) = length (p_conns s) /\ alookup t (p_threads s') = Some F0).
Proof.
  intros Hrun H Hcl. destruct (invAB_run _ _ _ Hrun) as [IA IB]. cbn [pstep] in H.
  destruct (memb c (p_dead s)); [|discriminate]. rewrite Hcl in H.
  assert (Hndc : NoDup (p_conns s)).
  { pose proof (b_nd s IB) as Hnd. apply NoDup_app_l in Hnd. exact Hnd. }
  destruct (memb c (p_conns s)) eqn:Ec.
  - destruct (memb t (akeys (p_threads s))) eqn:Em; [discriminate|]. inv_some H. cbn [p_conns p_threads].
    apply memb_In in Ec. apply memb_false in Em. split; [|split].
    + apply (remove_swap_NoDup c _ Hndc).
    + intros c' Hc' Hne. now apply remove_swap_In_other.
    + intros _. split; [now apply remove_swap_length|].
      rewrite alookup_app_notin by assumption. simpl. now rewrite Nat.eqb_refl.
  - inv_some H. cbn [p_conns p_threads]. apply memb_false in Ec. split; [assumption|]. split; [auto|tauto].
Qed.

(* ---- pooled connections are alive unless HandleError overtook the append ---- *)
Definition invC (s : pool) : Prop := forall c, In c (p_conns s ++ in_hand s) -> In c (p_open s) \/ In c (p_dead s).

Lemma invC_step s l s' : invA s -> invB s -> invC s -> herr_in_hand s l = false -> pstep s l = Some s' -> invC s'.
Proof.
  intros IA IB IC Hg H. unfold invC in *. rewrite in_hand_hand in *.
  pose proof (b_nd s IB) as Hnd. rewrite in_hand_hand in Hnd.
  destruct l as [t|t|t|t|t|k|k|k|k|c|c t| |]; cbn [pstep] in H.
  - destruct (memb t (akeys (p_threads s))); [discriminate|]. inv_some H. exact IC.
  - destruct (alookup t (p_threads s)) as [[| | | |]|]; try discriminate.
    destruct (p_closed s || p_filling s); [inv_some H; exact IC|].
    destruct (p_size s - Z.of_nat (length (p_conns s)) <=? 0); inv_some H; exact IC.
  - destruct (alookup t (p_threads s)) as [[| | | |]|]; try discriminate.
    destruct (p_closed s || p_filling s || (p_size s - Z.of_nat (length (p_conns s)) <=? 0)); [inv_some H; exact IC|].
    destruct (length (p_conns s)); inv_some H; rewrite ?in_hand_hand; cbn [p_conns p_tasks p_open p_dead]; [|exact IC].
    rewrite hand_app. simpl. rewrite app_nil_r. exact IC.
  - destruct (alookup t (p_threads s)) as [[| | |rem|]|]; try discriminate. inv_some H.
    rewrite ?in_hand_hand; cbn [p_conns p_tasks p_open p_dead]. rewrite hand_app, hand_new_tasks, app_nil_r. exact IC.
  - destruct (alookup t (p_threads s)) as [[| | | |]|]; try discriminate.
    destruct (existsb (owns t) (p_tasks s)); [discriminate|]. inv_some H. exact IC.
  - (* DialOk *)
    destruct (alookup k (p_tasks s)) as [[t [|c]]|] eqn:E; try discriminate. inv_some H.
    rewrite ?in_hand_hand; cbn [p_conns p_tasks p_open p_dead].
    pose proof (hand_aset_have k t (p_next_conn s) _ E) as P.
    intros c Hc. in_apps. destruct Hc as [Hc|Hc].
    + destruct (IC c) as [H1|H1]; in_apps; auto.
    + apply (Permutation_in _ P) in Hc. destruct Hc as [->|Hc]; [left; in_apps; auto|].
      destruct (IC c) as [H1|H1]; in_apps; auto.
  - (* DialFail *)
    destruct (alookup k (p_tasks s)) as [[t [|c]]|] eqn:E; try discriminate. inv_some H.
    rewrite ?in_hand_hand; cbn [p_conns p_tasks p_open p_dead]. rewrite (hand_aremove_dial k t _ E). exact IC.
  - (* KsFail *)
    destruct (alookup k (p_tasks s)) as [[t [|c]]|] eqn:E; try discriminate. inv_some H.
    rewrite ?in_hand_hand; cbn [p_conns p_tasks p_open p_dead].
    pose proof (hand_aremove_have k t c _ E) as P.
    assert (Hnd' : NoDup (c :: p_conns s ++ hand (aremove k (p_tasks s)) ++ p_closing s)).
    { eapply Permutation_NoDup; [|exact Hnd]. apply Permutation_sym. eapply perm_trans; [apply Permutation_middle|].
      apply Permutation_app_head. change (Permutation ((c :: hand (aremove k (p_tasks s))) ++ p_closing s) (hand (p_tasks s) ++ p_closing s)).
      now apply Permutation_app_tail. }
    inversion Hnd' as [|? ? Hni _]; subst.
    intros x Hx. assert (x <> c) by (intro; subst; apply Hni; in_apps; intuition congruence).
    destruct (IC x) as [H1|H1]; [in_apps; destruct Hx; auto; right; apply (Permutation_in _ P); now right| |auto].
    left. apply In_remn. auto.
  - (* ConnectAdd *)
    destruct (alookup k (p_tasks s)) as [[t [|c]]|] eqn:E; try discriminate.
    pose proof (hand_aremove_have k t c _ E) as P.
    assert (Hnd' : NoDup (c :: p_conns s ++ hand (aremove k (p_tasks s)) ++ p_closing s)).
    { eapply Permutation_NoDup; [|exact Hnd]. apply Permutation_sym. eapply perm_trans; [apply Permutation_middle|].
      apply Permutation_app_head. change (Permutation ((c :: hand (aremove k (p_tasks s))) ++ p_closing s) (hand (p_tasks s) ++ p_closing s)).
      now apply Permutation_app_tail. }
    inversion Hnd' as [|? ? Hni _]; subst.
    destruct (p_closed s); inv_some H; rewrite ?in_hand_hand; cbn [p_conns p_tasks p_open p_dead].
    + intros x Hx. assert (x <> c) by (intro; subst; apply Hni; in_apps; intuition congruence).
      destruct (IC x) as [H1|H1]; [in_apps; destruct Hx; auto; right; apply (Permutation_in _ P); now right| |auto].
      left. apply In_remn. auto.
    + intros x Hx. apply IC. in_apps. destruct Hx as [[Hx|[Hx|[]]]|Hx]; auto.
      * subst x. right. apply (Permutation_in _ P). now left.
      * right. apply (Permutation_in _ P). now right.
  - (* ConnDie *)
    destruct (memb c (p_open s)); [|discriminate]. inv_some H. rewrite ?in_hand_hand; cbn [p_conns p_tasks p_open p_dead].
    intros x Hx. destruct (Nat.eq_dec x c) as [->|Hne]; [right; in_apps; auto|].
    destruct (IC x Hx) as [H1|H1]; [left; apply In_remn; auto|right; in_apps; auto].
  - (* HErr *)
    simpl in Hg. apply memb_false in Hg. rewrite in_hand_hand in Hg.
    destruct (memb c (p_dead s)); [|discriminate].
    destruct (p_closed s) eqn:Ecl.
    { inv_some H. rewrite ?in_hand_hand; cbn [p_conns p_tasks p_open p_dead].
      rewrite (b_closed s IB Ecl) in *. simpl in *. intros x Hx. assert (x <> c) by (intro; subst; tauto).
      destruct (IC x Hx) as [H1|H1]; auto. right. apply In_remn. auto. }
    assert (Hndc : NoDup (p_conns s)) by (apply NoDup_app_l in Hnd; exact Hnd).
    destruct (memb c (p_conns s)) eqn:Ec.
    + destruct (memb t (akeys (p_threads s))); [discriminate|]. inv_some H. rewrite ?in_hand_hand; cbn [p_conns p_tasks p_open p_dead].
      intros x Hx. in_apps.
      assert (x <> c). { destruct Hx as [Hx|Hx]; [|intro; subst; tauto]. intro; subst. now apply (remove_swap_NoDup c _ Hndc). }
      assert (Hold : In x (p_conns s ++ hand (p_tasks s))).
      { in_apps. destruct Hx as [Hx|Hx]; [left; eapply remove_swap_In; eauto|right; exact Hx]. }
      destruct (IC x Hold) as [H1|H1]; [left; exact H1|right; apply In_remn; split; assumption].
    + inv_some H. rewrite ?in_hand_hand; cbn [p_conns p_tasks p_open p_dead]. apply memb_false in Ec.
      intros x Hx. assert (x <> c) by (in_apps; intro; subst; tauto).
      destruct (IC x Hx) as [H1|H1]; auto. right. apply In_remn. auto.
  - (* PClose *)
    destruct (p_closed s); inv_some H; [exact IC|]. rewrite ?in_hand_hand; cbn [p_conns p_tasks p_open p_dead].
    intros x Hx. apply IC. in_apps. intuition.
  - (* PCloseConn *)
    destruct (p_closing s) as [|c r] eqn:Ecg; [discriminate|]. inv_some H. rewrite ?in_hand_hand; cbn [p_conns p_tasks p_open p_dead].
    assert (Hnd' : NoDup (c :: p_conns s ++ hand (p_tasks s) ++ r)).
    { eapply Permutation_NoDup; [|exact Hnd]. apply Permutation_sym. eapply perm_trans; [apply Permutation_middle|].
      apply Permutation_app_head. apply Permutation_middle. }
    inversion Hnd' as [|? ? Hni _]; subst.
    intros x Hx. assert (x <> c) by (intro; subst; apply Hni; in_apps; intuition congruence).
    destruct (IC x Hx) as [H1|H1]; auto. left. apply In_remn. auto.
Qed.

Lemma pool_conns_alive_lemma size ls s : prun (pool_init size) ls = Some s ->
  pavoids herr_in_hand (pool_init size) ls = true -> pooled_conns_alive s.
Proof.
  assert (G : forall ls s0 s, invA s0 -> invB s0 -> invC s0 -> prun s0 ls = Some s -> pavoids herr_in_hand s0 ls = true -> invC s).
  { clear. intro ls. induction ls as [|l r IH]; simpl; intros s0 s1 IA IB IC H Hg; [inversion H; subst; auto|].
    destruct (pstep s0 l) eqn:E; [|discriminate]. apply andb_true_iff in Hg. destruct Hg as [Hg1 Hg2].
    apply Bool.negb_true_iff in Hg1.
    eapply IH; [eapply invA_step; eauto|eapply invB_step; eauto|eapply invC_step; eauto|exact H|exact Hg2]. }
  intros H Hg c Hc. eapply (G ls (pool_init size) s); eauto using invA_init, invB_init.
  - intros x Hx. simpl in Hx. destruct Hx.
  - apply in_or_app. now left.
Qed.
