(* C17/Proofs3.v -- the pool's own goroutines always finish: a non-quiescent reachable state has an
   enabled internal label (no deadlock), and every internal label decreases a measure (no livelock),
   so every schedule of the pool's goroutines reaches quiescence once the environment stops
   starting new fills / closes / connection failures. *)
From GocqlV Require Import Lib.Base Gen.Consts C17.Model C17.Proofs1 C17.Proofs2.

(* ---- progress ---- *)
Definition fresh_tid (th : list (nat * fphase)) : nat := S (list_max (akeys th)).

Lemma fresh_tid_notin th : ~ In (fresh_tid th) (akeys th).
Proof.
  unfold fresh_tid. intro H.
  assert (Hle : (list_max (akeys th) <= list_max (akeys th))%nat) by lia.
  rewrite list_max_le in Hle. rewrite Forall_forall in Hle. specialize (Hle _ H). lia.
Qed.

Lemma pool_progress_lemma size ls s : prun (pool_init size) ls = Some s -> p_quiescent s = false ->
  exists l s', p_internal l = true /\ pstep s l = Some s'.
Proof.
  intros Hrun Hq. pose proof (invA_run _ _ _ Hrun) as I.
  destruct (p_tasks s) as [|[k [t ph]] tk] eqn:Etk.
  2:{ destruct ph as [|c].
      - exists (DialFail k). eexists. split; [reflexivity|]. cbn [pstep]. rewrite Etk. simpl. rewrite Nat.eqb_refl. reflexivity.
      - exists (ConnectAdd k). cbn [pstep]. rewrite Etk. simpl. rewrite Nat.eqb_refl.
        destruct (p_closed s); [|destruct (negb (memb c (p_open s)))]; eexists; split; reflexivity. }
  destruct (p_closing s) as [|c cl] eqn:Ecl.
  2:{ exists PCloseConn. eexists. split; [reflexivity|]. cbn [pstep]. rewrite Ecl. reflexivity. }
  destruct (p_dead s) as [|c dd] eqn:Edd.
  2:{ exists (HErr c (fresh_tid (p_threads s))). cbn [pstep]. rewrite Edd.
      assert (Hm : memb c (c :: dd) = true) by (apply memb_In; now left). rewrite Hm.
      destruct (p_closed s); [eexists; split; reflexivity|].
      destruct (memb c (p_conns s)); [|eexists; split; reflexivity].
      pose proof (fresh_tid_notin (p_threads s)) as Hf. apply memb_false in Hf. rewrite Hf.
      eexists; split; reflexivity. }
  destruct (p_threads s) as [|[t ph] th] eqn:Eth.
  { unfold p_quiescent in Hq. rewrite Eth, Etk, Ecl, Edd in Hq. discriminate. }
  destruct ph as [| |r|r|].
  - exists (FillCheck t). cbn [pstep]. rewrite Eth. simpl. rewrite Nat.eqb_refl.
    destruct (p_closed s || p_filling s); [eexists; split; reflexivity|].
    destruct (p_size s - Z.of_nat (length (p_conns s)) <=? 0); eexists; split; reflexivity.
  - exists (FillDecide t). cbn [pstep]. rewrite Eth. simpl. rewrite Nat.eqb_refl.
    destruct (p_closed s || p_filling s || (p_size s - Z.of_nat (length (p_conns s)) <=? 0)); [eexists; split; reflexivity|].
    destruct (length (p_conns s)); eexists; split; reflexivity.
  - exfalso. destruct (a_sync s I t r) as [k [ph Hk]]; [rewrite Eth; now left|]. rewrite Etk in Hk. destruct Hk.
  - exists (FillAsync t). cbn [pstep]. rewrite Eth. simpl. rewrite Nat.eqb_refl. eexists; split; reflexivity.
  - exists (FillStopped t). cbn [pstep]. rewrite Eth, Etk. simpl. rewrite Nat.eqb_refl. eexists; split; reflexivity.
Qed.

(* ---- termination measure ---- *)
Definition wmax (s : pool) : Z := Z.max 0 (p_size s).

Definition wt (W : Z) (ph : fphase) : Z :=
  match ph with
  | F0 => 2 * W + 4
  | F1 => 2 * W + 3
  | FSync r | FGo r => 2 * Z.max 0 r + 2
  | FWait => 1
  end.

Definition wk (e : nat * tphase) : Z := match snd e with TDial => 2 | THave _ => 1 end.

Definition pmeasure (s : pool) : Z :=
  zsum (wt (wmax s)) (p_threads s) + zsum wk (p_tasks s) + Z.of_nat (length (p_closing s))
  + (2 * wmax s + 5) * Z.of_nat (length (p_dead s)).

Lemma wt_pos W ph : 0 <= W -> 0 < wt W ph.
Proof. destruct ph; cbn [wt]; lia. Qed.

Lemma wk_pos e : 0 < wk e.
Proof. unfold wk. destruct (snd e); lia. Qed.

Lemma pmeasure_nonneg s : 0 <= pmeasure s.
Proof.
  unfold pmeasure. assert (0 <= wmax s) by (unfold wmax; lia).
  pose proof (zsum_nonneg (wt (wmax s)) (p_threads s) (fun a => Z.lt_le_incl _ _ (wt_pos _ a H))).
  pose proof (zsum_nonneg wk (p_tasks s) (fun a => Z.lt_le_incl _ _ (wk_pos a))). nia.
Qed.

Lemma zsum_wt_notify W t ok th : zsum (wt W) (notify t ok th) <= zsum (wt W) th.
Proof.
  destruct (notify_cases t ok th) as [[rem [E ->]]|[_ ->]]; [|lia].
  rewrite (zsum_aset (wt W) t _ _ th E). destruct ok; cbn [wt]; lia.
Qed.

Lemma zsum_wk_new_tasks t f n : zsum wk (new_tasks t f n) = 2 * Z.of_nat n.
Proof.
  revert f; induction n as [|n IH]; intro f; [reflexivity|].
  cbn [new_tasks zsum fold_right]. fold (zsum wk (new_tasks t (S f) n)). rewrite IH. unfold wk. simpl snd. lia.
Qed.

Lemma length_remn_lt c l : In c l -> (length (remn c l) < length l)%nat.
Proof.
  unfold remn. induction l as [|y r IH]; simpl; [tauto|].
  intros [->|H].
  - rewrite Nat.eqb_refl. simpl. pose proof (length_remn_le c r). unfold remn in H. lia.
  - destruct (negb (Nat.eqb y c)); simpl; specialize (IH H); lia.
Qed.

Theorem pmeasure_decreases s l s' : p_internal l = true -> pstep s l = Some s' -> pmeasure s' < pmeasure s.
Proof.
  intros Hint H. assert (HW : 0 <= wmax s) by (unfold wmax; lia).
  assert (HWs : wmax s' = wmax s) by (unfold wmax; now rewrite (pstep_size _ _ _ H)).
  unfold pmeasure. rewrite HWs. set (W := wmax s) in *.
  destruct l as [t|t|t|t|t|k|k|k|k|c|c t| |]; try discriminate; cbn [pstep] in H.
  - (* FillCheck *)
    destruct (alookup t (p_threads s)) as [[| | | |]|] eqn:E; try discriminate.
    destruct (p_closed s || p_filling s).
    { inv_some H. unfold set_threads; cbn [p_threads p_tasks p_closing p_dead]. rewrite (zsum_aremove (wt W) t _ _ E). cbn [wt]. lia. }
    destruct (p_size s - Z.of_nat (length (p_conns s)) <=? 0); inv_some H; unfold set_threads; cbn [p_threads p_tasks p_closing p_dead].
    + rewrite (zsum_aremove (wt W) t _ _ E). cbn [wt]. lia.
    + rewrite (zsum_aset (wt W) t _ _ _ E). cbn [wt]. lia.
  - (* FillDecide *)
    destruct (alookup t (p_threads s)) as [[| | | |]|] eqn:E; try discriminate.
    destruct (p_closed s || p_filling s || (p_size s - Z.of_nat (length (p_conns s)) <=? 0)) eqn:Ec.
    { inv_some H. unfold set_threads; cbn [p_threads p_tasks p_closing p_dead]. rewrite (zsum_aremove (wt W) t _ _ E). cbn [wt]. lia. }
    apply Bool.orb_false_iff in Ec. destruct Ec as [_ Efc]. apply Z.leb_gt in Efc.
    destruct (length (p_conns s)) as [|n] eqn:El; inv_some H; cbn [p_threads p_tasks p_closing p_dead].
    + rewrite (zsum_aset (wt W) t _ _ _ E), zsum_app. cbn [zsum fold_right wk snd wt]. unfold W, wmax. simpl in Efc. lia.
    + rewrite (zsum_aset (wt W) t _ _ _ E). cbn [wt]. unfold W, wmax. lia.
  - (* FillAsync *)
    destruct (alookup t (p_threads s)) as [[| | |rem|]|] eqn:E; try discriminate. inv_some H.
    cbn [p_threads p_tasks p_closing p_dead].
    rewrite (zsum_aset (wt W) t _ _ _ E), zsum_app, zsum_wk_new_tasks. cbn [wt]. lia.
  - (* FillStopped *)
    destruct (alookup t (p_threads s)) as [[| | | |]|] eqn:E; try discriminate.
    destruct (existsb (owns t) (p_tasks s)); [discriminate|]. inv_some H. cbn [p_threads p_tasks p_closing p_dead].
    rewrite (zsum_aremove (wt W) t _ _ E). cbn [wt]. lia.
  - (* DialOk *)
    destruct (alookup k (p_tasks s)) as [[t [|c]]|] eqn:E; try discriminate. inv_some H. cbn [p_threads p_tasks p_closing p_dead].
    rewrite (zsum_aset wk k _ _ _ E). unfold wk; cbn [snd]. lia.
  - (* DialFail *)
    destruct (alookup k (p_tasks s)) as [[t [|c]]|] eqn:E; try discriminate. inv_some H. cbn [p_threads p_tasks p_closing p_dead].
    rewrite (zsum_aremove wk k _ _ E). pose proof (zsum_wt_notify W t false (p_threads s)). unfold wk; cbn [snd]. lia.
  - (* KsFail *)
    destruct (alookup k (p_tasks s)) as [[t [|c]]|] eqn:E; try discriminate. inv_some H. cbn [p_threads p_tasks p_closing p_dead].
    rewrite (zsum_aremove wk k _ _ E). pose proof (zsum_wt_notify W t false (p_threads s)). unfold wk; cbn [snd]. lia.
  - (* ConnectAdd *)
    destruct (alookup k (p_tasks s)) as [[t [|c]]|] eqn:E; try discriminate.
    pose proof (zsum_wt_notify W t true (p_threads s)). pose proof (zsum_wt_notify W t false (p_threads s)).
    destruct (p_closed s); [|destruct (negb (memb c (p_open s)))]; inv_some H; cbn [p_threads p_tasks p_closing p_dead];
      rewrite (zsum_aremove wk k _ _ E); unfold wk; cbn [snd]; lia.
  - (* HErr *)
    destruct (memb c (p_dead s)) eqn:Ed; [|discriminate]. apply memb_In in Ed.
    pose proof (length_remn_lt c _ Ed) as Hl.
    destruct (p_closed s).
    { inv_some H. cbn [p_threads p_tasks p_closing p_dead]. nia. }
    destruct (memb c (p_conns s)).
    + destruct (memb t (akeys (p_threads s))); [discriminate|]. inv_some H. cbn [p_threads p_tasks p_closing p_dead].
      rewrite zsum_app. cbn [zsum fold_right snd wt]. nia.
    + inv_some H. cbn [p_threads p_tasks p_closing p_dead]. nia.
  - (* PCloseConn *)
    destruct (p_closing s) as [|c r] eqn:Ecl; [discriminate|]. inv_some H. cbn [p_threads p_tasks p_closing p_dead length].
    rewrite Nat2Z.inj_succ. lia.
Qed.

Theorem pool_terminates_lemma s ls s' : forallb p_internal ls = true -> prun s ls = Some s' ->
  Z.of_nat (length ls) + pmeasure s' <= pmeasure s.
Proof.
  revert s; induction ls as [|l r IH]; cbn [prun forallb length]; intros s Hall H.
  - inversion H; subst. simpl. lia.
  - apply andb_true_iff in Hall. destruct Hall as [Hl Hr].
    destruct (pstep s l) as [s1|] eqn:E; [|discriminate].
    pose proof (pmeasure_decreases _ _ _ Hl E). specialize (IH _ Hr H). rewrite Nat2Z.inj_succ. lia.
Qed.
