(* C17/Proofs1.v -- association-list and small list lemmas used by the invariants. *)
From GocqlV Require Import Lib.Base Gen.Consts C17.Model.
From Coq Require Import Permutation.

Section Alist.
Context {A : Type}.
Implicit Types (l : list (nat * A)) (k : nat) (v : A).

Lemma alookup_In k l v : alookup k l = Some v -> In (k, v) l.
Proof.
  induction l as [|[k' v'] r IH]; simpl; [discriminate|].
  destruct (Nat.eqb_spec k' k) as [->|Hne]; intro H.
  - inversion H; subst. now left.
  - right. now apply IH.
Qed.

Lemma alookup_None_notin k l : alookup k l = None -> ~ In k (akeys l).
Proof.
  induction l as [|[k' v'] r IH]; simpl; [tauto|].
  destruct (Nat.eqb_spec k' k) as [->|Hne]; [discriminate|].
  intros H [E|E]; [congruence|]. now apply IH.
Qed.

Lemma In_alookup_nodup k v l : NoDup (akeys l) -> In (k, v) l -> alookup k l = Some v.
Proof.
  induction l as [|[k' v'] r IH]; simpl; [tauto|].
  intros Hnd [E|Hin].
  - inversion E; subst. now rewrite Nat.eqb_refl.
  - inversion Hnd as [|? ? Hni Hnd']; subst.
    destruct (Nat.eqb_spec k' k) as [->|Hne].
    + exfalso. apply Hni. unfold akeys. change k with (fst (k, v)). now apply in_map.
    + now apply IH.
Qed.

Lemma akeys_aset k v l : akeys (aset k v l) = akeys l.
Proof.
  induction l as [|[k' v'] r IH]; simpl; [reflexivity|].
  destruct (Nat.eqb_spec k' k) as [->|Hne]; simpl; [reflexivity|]. now rewrite IH.
Qed.

Lemma akeys_app l1 l2 : akeys (l1 ++ l2) = akeys l1 ++ akeys l2.
Proof. unfold akeys. apply map_app. Qed.

Lemma In_aremove e k l : In e (aremove k l) -> In e l.
Proof.
  induction l as [|[k' v'] r IH]; simpl; [tauto|].
  destruct (Nat.eqb_spec k' k) as [->|Hne]; simpl; [tauto|].
  intros [E|H]; [now left|right; now apply IH].
Qed.

Lemma In_akeys_aremove x k l : In x (akeys (aremove k l)) -> In x (akeys l).
Proof.
  unfold akeys. rewrite !in_map_iff. intros [e [E H]]. exists e. split; [assumption|]. eapply In_aremove; eauto.
Qed.

Lemma NoDup_akeys_aremove k l : NoDup (akeys l) -> NoDup (akeys (aremove k l)).
Proof.
  induction l as [|[k' v'] r IH]; simpl; [auto|].
  intro Hnd. inversion Hnd as [|? ? Hni Hnd']; subst.
  destruct (Nat.eqb_spec k' k) as [->|Hne]; simpl; [assumption|].
  constructor; [|now apply IH]. intro H. apply Hni. now apply In_akeys_aremove in H.
Qed.

Lemma notin_aremove_nodup k v l : NoDup (akeys l) -> ~ In (k, v) (aremove k l).
Proof.
  induction l as [|[k' v'] r IH]; simpl; [tauto|].
  intro Hnd. inversion Hnd as [|? ? Hni Hnd']; subst.
  destruct (Nat.eqb_spec k' k) as [->|Hne]; simpl.
  - intro H. apply Hni. unfold akeys. change k with (fst (k, v)). now apply in_map.
  - intros [E|H]; [inversion E; congruence|]. now apply IH in H.
Qed.

Lemma In_aremove_other e k l : In e l -> fst e <> k -> In e (aremove k l).
Proof.
  induction l as [|[k' v'] r IH]; simpl; [tauto|].
  intros [E|H] Hne.
  - subst e. simpl in Hne. destruct (Nat.eqb_spec k' k); [congruence|]. now left.
  - destruct (Nat.eqb_spec k' k); [assumption|]. right. now apply IH.
Qed.

Lemma In_aset e k v l : In e (aset k v l) -> e = (k, v) \/ In e l.
Proof.
  induction l as [|[k' v'] r IH]; simpl; [tauto|].
  destruct (Nat.eqb_spec k' k) as [->|Hne]; simpl.
  - intros [E|H]; [now left|right; now right].
  - intros [E|H]; [right; now left|]. destruct (IH H); [now left|right; now right].
Qed.

Lemma In_aset_other e k v l : In e l -> fst e <> k -> In e (aset k v l).
Proof.
  induction l as [|[k' v'] r IH]; simpl; [tauto|].
  intros [E|H] Hne.
  - subst e. simpl in Hne. destruct (Nat.eqb_spec k' k); [congruence|]. now left.
  - destruct (Nat.eqb_spec k' k); [now right|]. right. now apply IH.
Qed.

Lemma In_aset_same k v v0 l : alookup k l = Some v0 -> In (k, v) (aset k v l).
Proof.
  induction l as [|[k' v'] r IH]; simpl; [discriminate|].
  destruct (Nat.eqb_spec k' k) as [->|Hne]; simpl; intro H; [now left|right; now apply IH].
Qed.

Lemma alookup_aset_same k v v0 l : alookup k l = Some v0 -> alookup k (aset k v l) = Some v.
Proof.
  induction l as [|[k' v'] r IH]; simpl; [discriminate|].
  destruct (Nat.eqb_spec k' k) as [->|Hne]; simpl; intro H.
  - now rewrite Nat.eqb_refl.
  - destruct (Nat.eqb_spec k' k); [congruence|]. now apply IH.
Qed.

Lemma alookup_aset_other k k2 v l : k2 <> k -> alookup k2 (aset k v l) = alookup k2 l.
Proof.
  intro Hne. induction l as [|[k' v'] r IH]; simpl; [reflexivity|].
  destruct (Nat.eqb_spec k' k) as [->|Hne']; simpl.
  - destruct (Nat.eqb_spec k k2); [congruence|reflexivity].
  - destruct (Nat.eqb_spec k' k2); [reflexivity|assumption].
Qed.

Lemma alookup_aremove_other k k2 l : k2 <> k -> alookup k2 (aremove k l) = alookup k2 l.
Proof.
  intro Hne. induction l as [|[k' v'] r IH]; simpl; [reflexivity|].
  destruct (Nat.eqb_spec k' k) as [->|Hne']; simpl.
  - destruct (Nat.eqb_spec k k2); [congruence|reflexivity].
  - destruct (Nat.eqb_spec k' k2); [reflexivity|assumption].
Qed.

Lemma alookup_app_notin k l1 l2 : ~ In k (akeys l1) -> alookup k (l1 ++ l2) = alookup k l2.
Proof.
  induction l1 as [|[k' v'] r IH]; simpl; [reflexivity|].
  intro H. destruct (Nat.eqb_spec k' k) as [->|Hne]; [exfalso; apply H; now left|]. apply IH. tauto.
Qed.

Lemma alookup_app_in k l1 l2 v : alookup k l1 = Some v -> alookup k (l1 ++ l2) = Some v.
Proof.
  induction l1 as [|[k' v'] r IH]; simpl; [discriminate|].
  destruct (Nat.eqb_spec k' k); auto.
Qed.

(* Z-valued sums over the values of an association list *)
Definition zsum (w : A -> Z) l : Z := fold_right (fun e acc => w (snd e) + acc) 0 l.

Lemma zsum_app w l1 l2 : zsum w (l1 ++ l2) = zsum w l1 + zsum w l2.
Proof. induction l1 as [|e r IH]; simpl; [reflexivity|]. rewrite IH. lia. Qed.

Lemma zsum_aset w k v v0 l : alookup k l = Some v0 -> zsum w (aset k v l) = zsum w l - w v0 + w v.
Proof.
  induction l as [|[k' v'] r IH]; simpl; [discriminate|].
  destruct (Nat.eqb_spec k' k) as [->|Hne]; simpl; intro H.
  - inversion H; subst. lia.
  - rewrite (IH H). lia.
Qed.

Lemma zsum_aremove w k v0 l : alookup k l = Some v0 -> zsum w (aremove k l) = zsum w l - w v0.
Proof.
  induction l as [|[k' v'] r IH]; simpl; [discriminate|].
  destruct (Nat.eqb_spec k' k) as [->|Hne]; simpl; intro H.
  - inversion H; subst. lia.
  - rewrite (IH H). lia.
Qed.

Lemma zsum_nonneg w l : (forall a, 0 <= w a) -> 0 <= zsum w l.
Proof. intro H. induction l as [|e r IH]; simpl; [lia|]. specialize (H (snd e)). lia. Qed.

Lemma zsum_nonneg_in w l : (forall k a, In (k, a) l -> 0 <= w a) -> 0 <= zsum w l.
Proof.
  induction l as [|[k a] r IH]; simpl; intro H; [lia|].
  assert (0 <= w a) by (apply (H k); now left).
  assert (0 <= zsum w r) by (apply IH; intros k' a' Hin; apply (H k'); now right). lia.
Qed.

Lemma zsum_ge_in w l k a : (forall a, 0 <= w a) -> In (k, a) l -> w a <= zsum w l.
Proof.
  intros Hw. induction l as [|e r IH]; simpl; [tauto|].
  intros [E|H].
  - subst e. simpl. pose proof (zsum_nonneg w r Hw). lia.
  - specialize (IH H). specialize (Hw (snd e)). lia.
Qed.

(* two list positions with positive weight when the sum is at most one: the same key *)
Lemma zsum_le1_unique w l k1 a1 k2 a2 :
  (forall a, 0 <= w a) -> zsum w l <= 1 -> NoDup (akeys l) ->
  In (k1, a1) l -> In (k2, a2) l -> 0 < w a1 -> 0 < w a2 -> k1 = k2.
Proof.
  intros Hw. induction l as [|e r IH]; simpl; [tauto|].
  intros Hs Hnd H1 H2 W1 W2. inversion Hnd as [|? ? Hni Hnd']; subst.
  pose proof (zsum_nonneg w r Hw) as Hr.
  destruct H1 as [E1|H1], H2 as [E2|H2].
  - subst e. now inversion E2.
  - subst e. simpl in Hs. pose proof (zsum_ge_in w r k2 a2 Hw H2). lia.
  - subst e. simpl in Hs. pose proof (zsum_ge_in w r k1 a1 Hw H1). lia.
  - apply IH; auto. specialize (Hw (snd e)). lia.
Qed.

Lemma zsum_zero_all w l k a : (forall a, 0 <= w a) -> zsum w l = 0 -> In (k, a) l -> w a = 0.
Proof.
  intros Hw Hz Hin. pose proof (zsum_ge_in w l k a Hw Hin). specialize (Hw a). lia.
Qed.

Lemma length_filter_zsum (f : nat * A -> bool) (g : A -> bool) l :
  (forall e, f e = g (snd e)) -> Z.of_nat (length (filter f l)) = zsum (fun a => if g a then 1 else 0) l.
Proof.
  intro Hfg. induction l as [|e r IH]; [reflexivity|].
  cbn [filter zsum fold_right]. rewrite Hfg. unfold zsum in IH. destruct (g (snd e)).
  - cbn [length]. rewrite Nat2Z.inj_succ. lia.
  - lia.
Qed.

End Alist.

(* ---- memb / remn / remove_swap ---- *)
Lemma memb_In x l : memb x l = true <-> In x l.
Proof.
  unfold memb. rewrite existsb_exists. split.
  - intros [y [Hy E]]. apply Nat.eqb_eq in E. now subst.
  - intro H. exists x. split; [assumption|apply Nat.eqb_refl].
Qed.

Lemma memb_false x l : memb x l = false <-> ~ In x l.
Proof. rewrite <- memb_In. destruct (memb x l); split; try congruence; tauto. Qed.

Lemma In_remn y x l : In y (remn x l) <-> In y l /\ y <> x.
Proof.
  unfold remn. rewrite filter_In. split; intros [H1 H2]; split; auto.
  - intro E. subst. now rewrite Nat.eqb_refl in H2.
  - apply Bool.negb_true_iff. now apply Nat.eqb_neq.
Qed.

Lemma NoDup_remn x l : NoDup l -> NoDup (remn x l).
Proof. unfold remn. apply NoDup_filter. Qed.

Lemma length_remn_le x l : (length (remn x l) <= length l)%nat.
Proof.
  unfold remn. induction l as [|y r IH]; simpl; [lia|].
  destruct (negb (Nat.eqb y x)); simpl; lia.
Qed.

Lemma remove_swap_notin c l : ~ In c l -> remove_swap c l = l.
Proof.
  induction l as [|x r IH]; simpl; [reflexivity|].
  intro H. destruct (Nat.eqb_spec x c) as [->|Hne]; [exfalso; apply H; now left|].
  f_equal. apply IH. tauto.
Qed.

Lemma last_removelast_perm (x : nat) (r : list nat) (d : nat) : r <> [] -> Permutation (last r d :: removelast r) r.
Proof.
  intro Hne. rewrite (app_removelast_last d Hne) at 3.
  apply Permutation_cons_append.
Qed.

Lemma remove_swap_perm c l : In c l -> Permutation (c :: remove_swap c l) l.
Proof.
  induction l as [|x r IH]; simpl; [tauto|].
  destruct (Nat.eqb_spec x c) as [->|Hne]; intro H.
  - destruct r as [|y r']; [reflexivity|].
    constructor. apply (last_removelast_perm c); discriminate.
  - destruct H as [E|H]; [congruence|].
    eapply perm_trans; [apply perm_swap|]. constructor. now apply IH.
Qed.

Lemma remove_swap_length c l : In c l -> S (length (remove_swap c l)) = length l.
Proof. intro H. apply remove_swap_perm in H. apply Permutation_length in H. exact H. Qed.

Lemma remove_swap_In c l y : In y (remove_swap c l) -> In y l.
Proof.
  destruct (in_dec Nat.eq_dec c l) as [Hin|Hni].
  - intro H. eapply Permutation_in; [apply (remove_swap_perm c l Hin)|]. now right.
  - now rewrite remove_swap_notin.
Qed.

Lemma remove_swap_NoDup c l : NoDup l -> NoDup (remove_swap c l) /\ ~ In c (remove_swap c l).
Proof.
  intro Hnd. destruct (in_dec Nat.eq_dec c l) as [Hin|Hni].
  - pose proof (remove_swap_perm c l Hin) as P. apply Permutation_sym in P.
    pose proof (Permutation_NoDup P Hnd) as Hnd'. inversion Hnd'; subst. split; assumption.
  - rewrite remove_swap_notin by assumption. split; assumption.
Qed.

Lemma remove_swap_In_other c l y : In y l -> y <> c -> In y (remove_swap c l).
Proof.
  intros Hy Hne. destruct (in_dec Nat.eq_dec c l) as [Hin|Hni].
  - pose proof (remove_swap_perm c l Hin) as P. apply Permutation_sym in P.
    pose proof (Permutation_in y P Hy) as H. destruct H; [congruence|assumption].
  - now rewrite remove_swap_notin.
Qed.
