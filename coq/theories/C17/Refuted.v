(* C17/Refuted.v -- full statements the faithful models violate (= the known findings), with
   machine-checked witnesses. *)
From GocqlV Require Import Lib.Base Gen.Consts C17.Model C17.Spec C17.Proofs1 C17.Proofs5.

(* F-C17-1.  "refreshDebouncer.stop returns" without any hypothesis is false: a refresh is running,
   a second one is requested (token queued), stop() sets stopped and blocks on quit, the refresh
   returns, the flusher's select takes the token, sees stopped and exits.  stop() is then blocked for
   good: in every continuation it is still blocked. *)
Definition f1_schedule : list rlabel :=
  [RRefreshNow; RFlWake SNow 0; RFlLock;      (* a refresh is running *)
   RRefreshNow;                               (* another one is requested: token queued *)
   RStopCall 0; RStopLock 0;                  (* stop(): stopped = true, blocked in the send on quit *)
   RFlDone;                                   (* the running refresh returns *)
   RFlWake SNow 0; RFlLock].                  (* select takes the token; stopped: the flusher returns *)

Theorem refresh_stop_returns_refuted :
  exists ls s t, rrun rdeb_init ls = Some s /\ r_stop_stuck s t
    /\ (forall ls' s', rrun s ls' = Some s' -> alookup t (r_stoppers s') = Some RSSend)
    /\ ravoids request_races_stop rdeb_init ls = false.
Proof.
  exists f1_schedule. eexists. exists 0%nat. split; [vm_compute; reflexivity|].
  assert (Hst : r_stop_stuck (mkR true false false false None RExited false [(0%nat, RSSend)] 1 1 1) 0).
  { split; reflexivity. }
  split; [exact Hst|]. split; [|vm_compute; reflexivity].
  intros ls' s' H. exact (proj1 (stuck_forever _ _ _ _ Hst H)).
Qed.

(* the same through the debounce timer instead of refreshNow *)
Theorem refresh_stop_returns_refuted_timer :
  exists ls s t, rrun rdeb_init ls = Some s /\ r_stop_stuck s t.
Proof.
  exists [RRefreshNow; RFlWake SNow 0; RFlLock; RDebounce; RTimerFire; RStopCall 0; RStopLock 0; RFlDone; RFlWake STimer 0; RFlLock].
  eexists. exists 0%nat. split; [vm_compute; reflexivity|]. split; reflexivity.
Qed.

(* Model-level observation (not a registered finding: not reproduced through a session): a
   refreshNow after the flusher has exited creates a listener that is never served nor closed. *)
Lemma exited_step s l s' : r_fl s = RExited -> rstep s l = Some s' ->
  r_fl s' = RExited /\ r_served s' = r_served s /\ r_cancelled s' = r_cancelled s.
Proof.
  intros Hfl H. destruct l as [| | |src t| | |t|t|t]; cbn [rstep] in H.
  - destruct (r_stopped s); injection H as <-; auto.
  - destruct (r_armed s); [|discriminate]. injection H as <-; auto.
  - destruct (r_bc s); injection H as <-; auto.
  - rewrite Hfl in H. discriminate.
  - rewrite Hfl in H. discriminate.
  - rewrite Hfl in H. discriminate.
  - destruct (memb t (akeys (r_stoppers s))); [discriminate|]. injection H as <-; auto.
  - destruct (alookup t (r_stoppers s)) as [[| | |]|]; try discriminate. destruct (r_stopped s); injection H as <-; auto.
  - destruct (alookup t (r_stoppers s)) as [[| | |]|]; try discriminate. injection H as <-; auto.
Qed.

Lemma exited_forever ls : forall s s', r_fl s = RExited -> rrun s ls = Some s' ->
  r_served s' = r_served s /\ r_cancelled s' = r_cancelled s.
Proof.
  induction ls as [|l r IH]; simpl; intros s s' Hf H; [inversion H; auto|].
  destruct (rstep s l) eqn:E; [|discriminate]. destruct (exited_step _ _ _ Hf E) as [H1 [H2 H3]].
  destruct (IH _ _ H1 H) as [H4 H5]. split; congruence.
Qed.

Definition late_request : list rlabel :=
  [RStopCall 0; RStopLock 0; RFlWake SQuit 0; RFlLock; RStopClose 0; RRefreshNow].

Theorem refresh_now_after_stop_never_served :
  exists s, rrun rdeb_init late_request = Some s /\ r_bc s = Some 1%nat /\ alookup 0%nat (r_stoppers s) = Some RSDone
    /\ forall ls' s', rrun s ls' = Some s' -> r_served s' = 0%nat /\ r_cancelled s' = 0%nat.
Proof.
  eexists. split; [vm_compute; reflexivity|]. split; [reflexivity|]. split; [reflexivity|].
  intros ls' s' H. apply exited_forever in H; [|reflexivity]. simpl in H. exact H.
Qed.

(* F-C17-2.  "a connection reported closed is removed from its pool" without the hypothesis is
   false: connect holds connection 0; the connection fails and its error callback runs (nothing to
   remove, no fill); connect appends it.  Nothing is pending any more, the pool is not closed, and
   it holds a connection that is neither open nor about to be reported. *)
Definition f2_schedule : list plabel :=
  [FillStart 0; FillCheck 0; FillDecide 0;   (* fill: one connect, synchronously *)
   DialOk 0;                                 (* connection 0 established, connect has not taken the lock yet *)
   ConnDie 0; HErr 0 1;                      (* the server closes it; HandleError finds nothing to remove *)
   ConnectAdd 0;                             (* connect appends the closed connection *)
   FillAsync 0; FillStopped 0].              (* nothing left to connect: filling stops *)

Theorem closed_conn_removed_refuted :
  exists s c, prun (pool_init 1) f2_schedule = Some s
    /\ In c (p_conns s) /\ ~ In c (p_open s) /\ ~ In c (p_dead s)
    /\ p_quiescent s = true /\ p_closed s = false
    /\ pavoids herr_in_hand (pool_init 1) f2_schedule = false
    (* and a later fill does not replace it: the pool counts as full *)
    /\ exists s', prun s [FillStart 5; FillCheck 5] = Some s' /\ p_conns s' = p_conns s /\ p_quiescent s' = true.
Proof.
  eexists. exists 0%nat. split; [vm_compute; reflexivity|]. simpl.
  repeat split; try reflexivity; try tauto.
  eexists. split; [vm_compute; reflexivity|]. split; reflexivity.
Qed.

(* eventDebouncer.stop() called twice: the second call panics (send on a closed channel).  The
   hypothesis "stop is called once" of the theorem is needed; Session.Close provides it. *)
Theorem event_stop_twice_refuted :
  exists ls s, erun edeb_init ls = Some s /\ e_stop_calls ls = 2%nat /\ en_in ESPanic (e_stoppers s) = 1%nat.
Proof.
  exists [EStopCall 0; EFlWakeQuit 0; EStopClose 0; EStopCall 1]. eexists.
  split; [vm_compute; reflexivity|]. split; reflexivity.
Qed.
