(* C17/Refuted.v -- regression facts about behaviour that was repaired, and statements that need
   their hypothesis.

   F-C17-1 (refreshDebouncer.stop blocked for ever when the flusher's select took a queued refreshNow
   token or timer value instead of quit) is fixed: stop() only closes quit; the model follows the
   repaired code and C17_refresh_stop_returns / C17_refresh_flusher_exits hold without hypothesis.
   The pre-fix transition system is not kept. *)
From GocqlV Require Import Lib.Base Gen.Consts C17.Model C17.Spec C17.Proofs1 C17.Proofs5.

(* F-C17-2 (fixed): before the repair hostConnPool.connect appended the connection it held without
   looking at conn.Closed().  [connect_add_prefix] is that old critical section.  On the schedule
   below (connection 0 fails while connect holds it, its error callback finds nothing to remove) the
   old code pooled a dead connection; the repaired step of the model does not. *)
Definition connect_add_prefix (s : pool) (k : nat) : option pool :=
  match alookup k (p_tasks s) with
  | Some (t, THave c) =>
      if p_closed s
      then Some (mkPool (p_size s) (p_conns s) (p_closed s) (p_filling s) (notify t true (p_threads s))
                   (aremove k (p_tasks s)) (p_closing s) (remn c (p_open s)) (p_dead s) (p_next_conn s) (p_next_task s))
      else Some (mkPool (p_size s) (p_conns s ++ [c]) (p_closed s) (p_filling s) (notify t true (p_threads s))
                   (aremove k (p_tasks s)) (p_closing s) (p_open s) (p_dead s) (p_next_conn s) (p_next_task s))
  | _ => None
  end.

Definition f2_schedule : list plabel :=
  [FillStart 0; FillCheck 0; FillDecide 0;   (* fill: one connect, synchronously *)
   DialOk 0;                                 (* connection 0 established, connect has not taken the lock yet *)
   ConnDie 0; HErr 0 1].                     (* the server closes it; HandleError finds nothing to remove *)

Theorem closed_conn_pooled_before_fix :
  exists s0 sold snew, prun (pool_init 1) f2_schedule = Some s0
    /\ connect_add_prefix s0 0 = Some sold
    /\ In 0%nat (p_conns sold) /\ ~ In 0%nat (p_open sold) /\ ~ In 0%nat (p_dead sold)
    /\ pstep s0 (ConnectAdd 0) = Some snew /\ p_conns snew = [] /\ p_open snew = [].
Proof.
  eexists. eexists. eexists. split; [vm_compute; reflexivity|]. split; [vm_compute; reflexivity|].
  simpl. repeat split; try reflexivity; tauto.
Qed.

(* Model-level observation (not a registered finding: not reproduced through a session): a
   refreshNow after the flusher has exited creates a listener that is never served nor closed. *)
Lemma exited_step s l s' : r_fl s = RExited -> rstep s l = Some s' ->
  r_fl s' = RExited /\ r_served s' = r_served s /\ r_cancelled s' = r_cancelled s.
Proof.
  intros Hfl H. destruct l as [| | |src| | |t|t|t]; cbn [rstep] in H.
  - destruct (r_stopped s); injection H as <-; auto.
  - destruct (r_armed s); [|discriminate]. injection H as <-; auto.
  - destruct (r_bc s); injection H as <-; auto.
  - rewrite Hfl in H. discriminate.
  - rewrite Hfl in H. discriminate.
  - rewrite Hfl in H. discriminate.
  - destruct (memb t (akeys (r_stoppers s))); [discriminate|]. injection H as <-; auto.
  - destruct (alookup t (r_stoppers s)) as [[| |]|]; try discriminate. destruct (r_stopped s); injection H as <-; auto.
  - destruct (alookup t (r_stoppers s)) as [[| |]|]; try discriminate. injection H as <-; auto.
Qed.

Lemma exited_forever ls : forall s s', r_fl s = RExited -> rrun s ls = Some s' ->
  r_served s' = r_served s /\ r_cancelled s' = r_cancelled s.
Proof.
  induction ls as [|l r IH]; simpl; intros s s' Hf H; [inversion H; auto|].
  destruct (rstep s l) eqn:E; [|discriminate]. destruct (exited_step _ _ _ Hf E) as [H1 [H2 H3]].
  destruct (IH _ _ H1 H) as [H4 H5]. split; congruence.
Qed.

Definition late_request : list rlabel :=
  [RStopCall 0; RStopLock 0; RStopClose 0; RFlWake SQuit; RFlLock; RRefreshNow].

Theorem refresh_now_after_stop_never_served :
  exists s, rrun rdeb_init late_request = Some s /\ r_bc s = Some 1%nat /\ alookup 0%nat (r_stoppers s) = Some RSDone
    /\ forall ls' s', rrun s ls' = Some s' -> r_served s' = 0%nat /\ r_cancelled s' = 0%nat.
Proof.
  eexists. split; [vm_compute; reflexivity|]. split; [reflexivity|]. split; [reflexivity|].
  intros ls' s' H. apply exited_forever in H; [|reflexivity]. simpl in H. exact H.
Qed.

(* eventDebouncer.stop() called twice: the second call panics (send on a closed channel).  The
   hypothesis "stop is called once" of the theorem is needed; Session.Close provides it. *)
Theorem event_stop_twice_refuted :
  exists ls s, erun edeb_init ls = Some s /\ e_stop_calls ls = 2%nat /\ en_in ESPanic (e_stoppers s) = 1%nat.
Proof.
  exists [EStopCall 0; EFlWakeQuit 0; EStopClose 0; EStopCall 1]. eexists.
  split; [vm_compute; reflexivity|]. split; reflexivity.
Qed.

(* F-C17-3 (fixed): before the repair policyConnPool had no closed flag; addHost after Close created
   (and filled) a host pool that nobody would ever close.  [pp_add_prefix] is the old addHost. *)
Definition pp_add_prefix (s : ppool) (h : nat) : option ppool :=
  match alookup h (pp_map s) with
  | Some _ => Some s
  | None => Some (mkPP (pp_closed s) (pp_map s ++ [(h, pp_next s)]) (pp_detached s) (pp_closedpools s) (S (pp_next s)))
  end.

Theorem pool_created_after_close_before_fix :
  exists s0 sold snew, pprun ppool_init [PPAdd 1; PPClose] = Some s0
    /\ pp_add_prefix s0 2 = Some sold /\ pp_closed sold = true /\ pp_map sold = [(2%nat, 1%nat)]
    /\ ~ In 1%nat (pp_closedpools sold) /\ ~ In 1%nat (pp_detached sold)
    /\ ppstep s0 (PPAdd 2) = Some snew /\ pp_map snew = [].
Proof.
  eexists. eexists. eexists. split; [vm_compute; reflexivity|]. split; [vm_compute; reflexivity|].
  simpl. repeat split; try reflexivity; intuition discriminate.
Qed.

(* Model-level observation (control.go; not reproduced through a session, the window is the few
   instructions between controlConn.close and s.cancel): a reconnect that is inside setupConn when
   close() runs stores its new connection afterwards; nobody closes it.  "No reconnect creates a
   connection that survives Close" is therefore false for the model as it stands; what holds is
   C17_control_after_close (nothing is connected once the context is cancelled; reconnects started
   after close() do nothing) and C17_reconnect_terminates. *)
Theorem control_conn_survives_close_refuted :
  exists s, krun kctl_init [KRecStart 0; KRecCheck 0; KRecCAS 0; KDialOk 0;   (* reconnect: new connection 1, in setupConn *)
                            KCloseState; KCloseConn; KCancel;                   (* Session.Close: control.close(), ..., cancel *)
                            KSetupOk 0; KRefreshDone 0] = Some s               (* setupConn stores connection 1 *)
    /\ k_recs s = [] /\ k_closing s = true /\ k_cancelled s = true /\ k_open s = [1%nat] /\ k_late s = true.
Proof. eexists. split; [vm_compute; reflexivity|]. repeat split; reflexivity. Qed.
