(* C17/Spec.v -- what the property demands, as predicates over observable parts of the model states
   (written from the property text, not from the Go code), and the schedule conditions the theorems
   name as hypotheses. *)
From GocqlV Require Import Lib.Base Gen.Consts C17.Model.

(* ---------------- pool ---------------- *)

(* "A host's pool never holds more than the configured number of connections" -- read with the
   connects in progress included: connections held + being made never exceed the size. *)
Definition pool_within_bounds (size : Z) (s : pool) : Prop :=
  Z.of_nat (length (p_conns s)) + Z.of_nat (length (p_tasks s)) <= Z.max 0 size.

(* "a connection reported closed is removed from its pool": every pooled connection is open, or
   its error callback is still on its way (it will remove it) *)
Definition pooled_conns_alive (s : pool) : Prop :=
  forall c, In c (p_conns s) -> In c (p_open s) \/ In c (p_dead s).

(* "no connection is left open after its pool is closed": every open connection is accounted for --
   in the pool, held by a connect that will add or close it, or in Close's to-do list *)
Definition no_leak (s : pool) : Prop :=
  forall c, In c (p_open s) -> In c (p_conns s) \/ In c (in_hand s) \/ In c (p_closing s).

(* ---------------- event debouncer ---------------- *)

Definition e_stop_calls (ls : list elabel) : nat :=
  length (filter (fun l => match l with EStopCall _ => true | _ => false end) ls).

Definition e_stop_stuck (s : edeb) (t : nat) : Prop :=
  alookup t (e_stoppers s) = Some ESSend /\ e_fl s = EExited.

(* "... and replaced": the pool is back at its configured size *)
Definition pool_full (s : pool) : Prop := Z.of_nat (length (p_conns s)) = Z.max 0 (p_size s).

(* schedules on which the environment is kind from now on: every dial succeeds, the keyspace can be
   set, no connection fails, the pool is not closed (anything else may happen, in any order) *)
Definition p_lucky (l : plabel) : bool :=
  match l with
  | ConnDie _ | PClose | DialFail _ | KsFail _ => false
  | _ => true
  end.
