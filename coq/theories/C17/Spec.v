(* C17/Spec.v -- what the property demands, as predicates over observable parts of the model states
   (written from the property text, not from the Go code), and the schedule conditions the theorems
   name as hypotheses. *)
From GocqlV Require Import Lib.Base Gen.Consts C17.Model.

(* ---------------- pool ---------------- *)

(* "A host's pool never holds more than the configured number of connections" -- read with the
   connects in progress included: connections held + being made never exceed the size. *)
Definition pool_within_bounds (size : Z) (s : pool) : Prop :=
  Z.of_nat (length (p_conns s)) + Z.of_nat (length (p_tasks s)) <= Z.max 0 size.

(* "a connection reported closed is removed from its pool": every pooled connection is open, or
   its error callback is still on its way *)
Definition pooled_conns_alive (s : pool) : Prop :=
  forall c, In c (p_conns s) -> In c (p_open s) \/ In c (p_dead s).

(* "no connection is left open after its pool is closed": every open connection is accounted for --
   in the pool, held by a connect that will add or close it, or in Close's to-do list *)
Definition no_leak (s : pool) : Prop :=
  forall c, In c (p_open s) -> In c (p_conns s) \/ In c (in_hand s) \/ In c (p_closing s).

(* schedules on which some predicate of (state, next label) never fires *)
Fixpoint pavoids (bad : pool -> plabel -> bool) (s : pool) (ls : list plabel) : bool :=
  match ls with
  | [] => true
  | l :: r => negb (bad s l) && match pstep s l with Some s' => pavoids bad s' r | None => true end
  end.

(* the error callback for connection c runs while a connect still holds c (between the end of
   session.connect and the pool lock) *)
Definition herr_in_hand (s : pool) (l : plabel) : bool :=
  match l with HErr c _ => memb c (in_hand s) | _ => false end.

(* ---------------- refresh debouncer ---------------- *)

Fixpoint ravoids (bad : rdeb -> rlabel -> bool) (s : rdeb) (ls : list rlabel) : bool :=
  match ls with
  | [] => true
  | l :: r => negb (bad s l) && match rstep s l with Some s' => ravoids bad s' r | None => true end
  end.

(* stop() takes effect (sets stopped) while a refresh request is pending, or refreshNow is called
   once stop() has taken effect *)
Definition request_races_stop (s : rdeb) (l : rlabel) : bool :=
  match l with
  | RStopLock _ => negb (r_stopped s) && negb (r_calm s)
  | RRefreshNow => r_stopped s
  | _ => false
  end.

(* a stop() call that can never return: blocked in the send on quit while the flusher is gone *)
Definition r_stop_stuck (s : rdeb) (t : nat) : Prop :=
  alookup t (r_stoppers s) = Some RSSend /\ r_fl s = RExited.

(* ---------------- event debouncer ---------------- *)

Definition e_stop_calls (ls : list elabel) : nat :=
  length (filter (fun l => match l with EStopCall _ => true | _ => false end) ls).

Definition e_stop_stuck (s : edeb) (t : nat) : Prop :=
  alookup t (e_stoppers s) = Some ESSend /\ e_fl s = EExited.

(* the flusher, woken by a request or by the timer (not by quit), finds stopped set: it returns
   without ever receiving from quit *)
Definition flusher_misses_quit (s : rdeb) (l : rlabel) : bool :=
  match l with
  | RFlLock => r_stopped s && match r_fl s with RWoke SNow | RWoke STimer => true | _ => false end
  | _ => false
  end.
