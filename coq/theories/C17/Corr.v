(* C17/Corr.v -- correspondence cases: what the harness did to the real hostConnPool /
   refreshDebouncer / eventDebouncer / Session and what it observed after every step; [check] replays
   the same steps through the models and compares the observables.

   Pool traces are label-exact: the harness parks the driver's goroutines at the trace points 1701 /
   1702 and inside its dialer, so that every step it takes is a known list of model labels, and it
   observes the pool under its lock after each.  Debouncer traces are harness-level operations; the
   goroutines of the debouncer then run freely until everything is blocked, and the model follows
   with the set of all states reachable by the debouncer's own (internal) labels: the observation
   after every operation must be that of at least one candidate (select is non-deterministic). *)
From GocqlV Require Import Lib.Base Gen.Consts C17.Model.

(* ---------------- pool ---------------- *)
(* Labels the harness does not gate: a goroutine that entered fill() runs to the first check, the
   goroutine started after the synchronous connect starts connectMany, fillingStopped follows the
   last connect, Close closes the connections it took.  After the labels of a harness step these
   run until none is enabled (what the real goroutines have done when everything is blocked). *)
Definition p_auto_labels (s : pool) : list plabel :=
  flat_map (fun e => match snd e with
                     | F0 => [FillCheck (fst e)]
                     | FGo _ => [FillAsync (fst e)]
                     | FWait => [FillStopped (fst e)]
                     | _ => []
                     end) (p_threads s)
  ++ match p_closing s with [] => [] | _ :: _ => [PCloseConn] end.

Fixpoint first_enabled (s : pool) (ls : list plabel) : option pool :=
  match ls with
  | [] => None
  | l :: r => match pstep s l with Some s' => Some s' | None => first_enabled s r end
  end.

Fixpoint p_auto (fuel : nat) (s : pool) : pool :=
  match fuel with
  | O => s
  | S f => match first_enabled s (p_auto_labels s) with Some s' => p_auto f s' | None => s end
  end.

Fixpoint pool_trace (s : pool) (tr : list (list plabel * list Z)) : bool :=
  match tr with
  | [] => true
  | (ls, o) :: r =>
      match prun s ls with
      | Some s1 => let s' := p_auto 400 s1 in zlist_eqb (p_obs s') o && pool_trace s' r
      | None => false
      end
  end.

(* ---------------- refresh debouncer ---------------- *)
Inductive rop :=
| ODebounce          (* debounce() on an instance whose interval never elapses during the run *)
| ODebounceFire      (* debounce() on a short-interval instance, then wait until the timer has fired *)
| ORefreshNow        (* refreshNow(), keep the listener *)
| OStop              (* go stop() *)
| ORelease.          (* let the running refreshFn return *)

Definition renc_fl (f : rfl) : list Z :=
  match f with
  | RSelect => [0] | RWoke SNow => [1] | RWoke STimer => [2] | RWoke SQuit => [3]
  | RRefresh None => [4] | RRefresh (Some n) => [5; Z.of_nat n] | RExited => [6]
  end.
Definition renc_sp (p : rsp) : Z := match p with RS0 => 0 | RSClose => 2 | RSDone => 3 end.
Definition renc (s : rdeb) : list Z :=
  [Z.b2z (r_stopped s); Z.b2z (r_now s); Z.b2z (r_armed s); Z.b2z (r_timerc s);
   match r_bc s with None => -1 | Some n => Z.of_nat n end; Z.b2z (r_quit_closed s);
   Z.of_nat (r_calls s); Z.of_nat (r_served s); Z.of_nat (r_cancelled s)]
  ++ renc_fl (r_fl s) ++ [-2] ++ flat_map (fun e => [Z.of_nat (fst e); renc_sp (snd e)]) (r_stoppers s).

Fixpoint add_new (enc : rdeb -> list Z) (x : rdeb) (acc : list rdeb) : list rdeb :=
  match acc with
  | [] => [x]
  | y :: r => if zlist_eqb (enc x) (enc y) then acc else y :: add_new enc x r
  end.
Definition dedup_r (l : list rdeb) : list rdeb := fold_left (fun acc x => add_new renc x acc) l [].

Definition r_internal_labels (s : rdeb) : list rlabel :=
  [RFlWake SNow; RFlWake STimer; RFlWake SQuit; RFlLock]
  ++ flat_map (fun e => [RStopLock (fst e); RStopClose (fst e)]) (r_stoppers s).

Definition r_succ (s : rdeb) : list rdeb :=
  flat_map (fun l => match rstep s l with Some s' => [s'] | None => [] end) (r_internal_labels s).

(* all states in which no internal label is enabled, reachable by internal labels *)
Fixpoint r_closure (fuel : nat) (s : rdeb) : list rdeb :=
  match fuel with
  | O => [s]
  | S f => match r_succ s with
           | [] => [s]
           | nx => flat_map (r_closure f) nx
           end
  end.

Definition r_apply (op : rop) (s : rdeb) : option rdeb :=
  match op with
  | ODebounce => rstep s RDebounce
  | ODebounceFire => match rstep s RDebounce with
                     | Some s' => if r_armed s' then rstep s' RTimerFire else Some s'
                     | None => None
                     end
  | ORefreshNow => rstep s RRefreshNow
  | OStop => rstep s (RStopCall (length (r_stoppers s)))
  | ORelease => rstep s RFlDone
  end.

(* observation: refreshFn invocations, listeners served, listeners cancelled, refreshFn running,
   stop() calls blocked, stop() calls returned *)
Definition r_obs (s : rdeb) : list Z :=
  [Z.of_nat (r_calls s); Z.of_nat (r_served s); Z.of_nat (r_cancelled s);
   match r_fl s with RRefresh _ => 1 | _ => 0 end;
   Z.of_nat (length (r_stoppers s) - n_in RSDone (r_stoppers s));
   Z.of_nat (n_in RSDone (r_stoppers s))].

Fixpoint refresh_trace (cands : list rdeb) (tr : list (rop * list Z)) : bool :=
  match tr with
  | [] => match cands with [] => false | _ => true end
  | (op, o) :: r =>
      let after := flat_map (fun s => match r_apply op s with Some s' => r_closure 16 s' | None => [] end) cands in
      let keep := dedup_r (filter (fun s => zlist_eqb (r_obs s) o) after) in
      match keep with [] => false | _ => refresh_trace keep r end
  end.

(* ---------------- event debouncer ---------------- *)
Inductive eop :=
| EODebounce         (* debounce(frame) *)
| EOFire             (* the armed timer expires (brought forward by the harness) *)
| EOStop.            (* go stop() *)

Definition eenc_sp (p : esp) : Z := match p with ESSend => 0 | ESClose => 1 | ESDone => 2 | ESPanic => 3 end.
Definition eenc (s : edeb) : list Z :=
  [e_events s; Z.b2z (e_armed s); Z.b2z (e_timerc s);
   match e_fl s with ESelect => 0 | EWoke => 1 | EExited => 2 end; Z.b2z (e_quit_closed s); e_dropped s]
  ++ e_batches s ++ [-2] ++ flat_map (fun e => [Z.of_nat (fst e); eenc_sp (snd e)]) (e_stoppers s).

Fixpoint add_new_e (x : edeb) (acc : list edeb) : list edeb :=
  match acc with
  | [] => [x]
  | y :: r => if zlist_eqb (eenc x) (eenc y) then acc else y :: add_new_e x r
  end.
Definition dedup_e (l : list edeb) : list edeb := fold_left (fun acc x => add_new_e x acc) l [].

Definition e_internal_labels (s : edeb) : list elabel :=
  [EFlWakeTimer; EFlFlush] ++ flat_map (fun e => [EFlWakeQuit (fst e); EStopClose (fst e)]) (e_stoppers s).
Definition e_succ (s : edeb) : list edeb :=
  flat_map (fun l => match estep s l with Some s' => [s'] | None => [] end) (e_internal_labels s).
Fixpoint e_closure (fuel : nat) (s : edeb) : list edeb :=
  match fuel with
  | O => [s]
  | S f => match e_succ s with
           | [] => [s]
           | nx => flat_map (e_closure f) nx
           end
  end.

Definition e_apply (op : eop) (s : edeb) : option edeb :=
  match op with
  | EODebounce => estep s EDebounce
  | EOFire => estep s ETimerFire
  | EOStop => estep s (EStopCall (length (e_stoppers s)))
  end.

(* observation: buffered frames, frames dropped, stop() blocked, stop() returned, stop() panicked,
   then the batch sizes handed to the callback *)
Definition e_obs (s : edeb) : list Z :=
  [e_events s; e_dropped s;
   Z.of_nat (en_in ESSend (e_stoppers s) + en_in ESClose (e_stoppers s));
   Z.of_nat (en_in ESDone (e_stoppers s)); Z.of_nat (en_in ESPanic (e_stoppers s))] ++ e_batches s.

Fixpoint event_trace (cands : list edeb) (tr : list (eop * list Z)) : bool :=
  match tr with
  | [] => match cands with [] => false | _ => true end
  | (op, o) :: r =>
      let after := flat_map (fun s => match e_apply op s with Some s' => e_closure 12 s' | None => [] end) cands in
      let keep := dedup_e (filter (fun s => zlist_eqb (e_obs s) o) after) in
      match keep with [] => false | _ => event_trace keep r end
  end.

(* ---------------- session ---------------- *)
(* [n] calls of Close (each: call, flag, then the shutdown steps until it returns), one after the
   other; sampled between the calls: Closed() and the outcome class of a query (1 = ErrSessionClosed) *)
Fixpoint close_steps (fuel : nat) (t : nat) (s : sess) : sess :=
  match fuel with
  | O => s
  | S f => match sstep s (SCloseStep t) with Some s' => close_steps f t s' | None => s end
  end.
Definition one_close (t : nat) (s : sess) : sess :=
  match sstep s (SCloseCall t) with
  | Some s1 => match sstep s1 (SCloseFlag t) with
               | Some s2 => close_steps 8 t s2
               | None => s1
               end
  | None => s
  end.
Definition s_obs (s : sess) : list Z :=
  [Z.b2z (s_closed s); match query s with QErrSessionClosed => 1 | QExecuted => 0 end].
Fixpoint sess_trace (t : nat) (s : sess) (obs : list (list Z)) : bool :=
  match obs with
  | [] => true
  | o :: r => zlist_eqb (s_obs s) o && sess_trace (S t) (one_close t s) r
  end.

Inductive case :=
| CPool (size : Z) (trace : list (list plabel * list Z))
| CRefresh (trace : list (rop * list Z))
| CEvent (trace : list (eop * list Z))
| CSess (obs : list (list Z)).     (* observation before the first Close and after each Close *)

Definition check (c : case) : bool :=
  match c with
  | CPool size tr => pool_trace (pool_init size) tr
  | CRefresh tr => refresh_trace [rdeb_init] tr
  | CEvent tr => event_trace [edeb_init] tr
  | CSess obs => sess_trace 0 sess_init obs
  end.

Definition run (cs : list case) : list N := mismatches check cs.
