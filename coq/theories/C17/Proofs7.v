(* C17/Proofs7.v -- "a closed connection is removed and replaced": once a fill has been started on a
   pool that is not being filled, and dials succeed from then on, every schedule that reaches
   quiescence reaches it with the pool at its configured size. *)
From GocqlV Require Import Lib.Base Gen.Consts C17.Model C17.Spec C17.Proofs1 C17.Proofs2 C17.Proofs4.

Definition inactive_thread (s : pool) : Prop := exists t ph, In (t, ph) (p_threads s) /\ is_active ph = false.

Record invL (s : pool) : Prop := {
  l_open : p_closed s = false;
  l_dead : p_dead s = [];
  l_closing : p_closing s = [];
  l_hand : forall c, In c (in_hand s) -> In c (p_open s);
  l_eq : p_filling s = true ->
         Z.of_nat (length (p_conns s)) + Z.of_nat (length (p_tasks s)) + zsum extra (p_threads s) = p_size s;
  l_goal : pool_full s \/ p_filling s = true \/ inactive_thread s
}.

Lemma zsum_extra_notify_true t th : zsum extra (notify t true th) = zsum extra th.
Proof.
  destruct (notify_cases t true th) as [[rem [E ->]]|[_ ->]]; [|reflexivity].
  rewrite (zsum_aset extra t _ _ th E). simpl. lia.
Qed.

Lemma tasks_imply_filling s : invA s -> p_tasks s <> [] -> p_filling s = true.
Proof. intros I H. destruct (p_filling s) eqn:E; [reflexivity|]. exfalso. apply H. now apply invA_notasks. Qed.

Lemma active_implies_filling s t ph : invA s -> In (t, ph) (p_threads s) -> is_active ph = true -> p_filling s = true.
Proof.
  intros I Hin Ha. pose proof (a_act s I) as Hs. destruct (p_filling s); [reflexivity|].
  pose proof (zsum_zero_all act _ t ph act_nonneg Hs Hin). apply act_pos in Ha. lia.
Qed.

(* leaving fill at a check because nothing is missing: the pool is full *)
Lemma nothing_missing_full s : invA s -> p_size s - Z.of_nat (length (p_conns s)) <= 0 -> pool_full s.
Proof.
  intros I H. unfold pool_full. pose proof (a_budget s I) as B. pose proof (extra_sum_nonneg s I). lia.
Qed.

Ltac inv_some H := injection H as <-.

Ltac mkL := constructor; unfold set_threads, set_tasks, pool_full, inactive_thread in *; rewrite ?in_hand_hand in *;
  cbn [p_closed p_dead p_closing p_open p_tasks p_filling p_conns p_threads p_size]; [first [assumption|reflexivity]|assumption|assumption| | | ].

Lemma invL_step s l s' : invA s -> invL s -> p_lucky l = true -> pstep s l = Some s' -> invL s'.
Proof.
  intros IA IL Hl H. pose proof (invA_step _ _ _ IA H) as IA'. destruct IL as [Lo Ld Lc Lh Le Lg].
  destruct l as [t|t|t|t|t|k|k|k|k|c|c t| |]; try discriminate; cbn [pstep] in H.
  - (* FillStart *)
    destruct (memb t (akeys (p_threads s))); [discriminate|]. inv_some H. mkL.
    + exact Lh.
    + intro Hf. rewrite zsum_app. simpl. specialize (Le Hf). lia.
    + right; right. exists t, F0. split; [apply in_or_app; right; now left|reflexivity].
  - (* FillCheck *)
    destruct (alookup t (p_threads s)) as [[| | | |]|] eqn:E; try discriminate.
    rewrite Lo in H. simpl in H.
    destruct (p_filling s) eqn:Ef.
    { inv_some H. unfold set_threads. mkL.
      - exact Lh.
      - intros _. rewrite (zsum_aremove extra t _ _ E). simpl. specialize (Le eq_refl). lia.
      - right; now left. }
    destruct (p_size s - Z.of_nat (length (p_conns s)) <=? 0) eqn:Efc; inv_some H; unfold set_threads.
    + apply Z.leb_le in Efc. pose proof (nothing_missing_full s IA Efc) as Hfull. mkL.
      * exact Lh.
      * congruence.
      * now left.
    + mkL.
      * exact Lh.
      * congruence.
      * right; right. exists t, F1. split; [eapply In_aset_same; eauto|reflexivity].
  - (* FillDecide *)
    destruct (alookup t (p_threads s)) as [[| | | |]|] eqn:E; try discriminate.
    rewrite Lo in H. simpl in H.
    destruct (p_filling s) eqn:Ef.
    { simpl in H. inv_some H. unfold set_threads. mkL.
      - exact Lh.
      - intros _. rewrite (zsum_aremove extra t _ _ E). simpl. specialize (Le eq_refl). lia.
      - right; now left. }
    simpl in H.
    destruct (p_size s - Z.of_nat (length (p_conns s)) <=? 0) eqn:Efc.
    + inv_some H. apply Z.leb_le in Efc. pose proof (nothing_missing_full s IA Efc) as Hfull. unfold set_threads. mkL.
      * exact Lh.
      * congruence.
      * now left.
    + apply Z.leb_gt in Efc. pose proof (invA_notasks s IA Ef) as Htk.
      pose proof (a_act s IA) as Hact. rewrite Ef in Hact. pose proof (zsum_extra_zero _ Hact) as Hex.
      destruct (length (p_conns s)) as [|n] eqn:El; inv_some H; mkL.
      * rewrite Htk. simpl. tauto.
      * intros _. rewrite Htk, El, (zsum_aset extra t _ _ _ E). cbn [extra length app]. simpl in Efc. lia.
      * right; now left.
      * exact Lh.
      * intros _. rewrite Htk, El, (zsum_aset extra t _ _ _ E). cbn [extra length]. lia.
      * right; now left.
  - (* FillAsync *)
    destruct (alookup t (p_threads s)) as [[| | |rem|]|] eqn:E; try discriminate. inv_some H.
    pose proof (alookup_In _ _ _ E) as Hin.
    pose proof (active_implies_filling s t _ IA Hin eq_refl) as Hf.
    pose proof (a_rem s IA t _ Hin) as Hrem. simpl in Hrem. mkL.
    + rewrite hand_app, hand_new_tasks, app_nil_r. exact Lh.
    + intros _. rewrite app_length, length_new_tasks, (zsum_aset extra t _ _ _ E). cbn [extra]. specialize (Le Hf). simpl in Le. lia.
    + right; now left.
  - (* FillStopped *)
    destruct (alookup t (p_threads s)) as [[| | | |]|] eqn:E; try discriminate.
    destruct (existsb (owns t) (p_tasks s)) eqn:Eo; [discriminate|]. inv_some H.
    pose proof (alookup_In _ _ _ E) as Hin.
    pose proof (active_implies_filling s t _ IA Hin eq_refl) as Hf.
    assert (Htk : p_tasks s = []).
    { destruct (p_tasks s) as [|[k [o ph]] r] eqn:Etk; [reflexivity|exfalso].
      destruct (a_owner s IA k o ph) as [pho [Ho Ha]]; [rewrite Etk; now left|].
      assert (o = t) by (apply (invA_active_unique s o pho t FWait IA Ho Hin Ha eq_refl)). subst o.
      simpl in Eo. unfold owns in Eo at 1. simpl in Eo. rewrite Nat.eqb_refl in Eo. discriminate. }
    assert (Hex : zsum extra (p_threads s) = 0).
    { assert (Hact : zsum act (aremove t (p_threads s)) = 0) by (rewrite (zsum_aremove act t _ _ E), (a_act s IA), Hf; reflexivity).
      pose proof (zsum_extra_zero _ Hact) as Hz. rewrite (zsum_aremove extra t _ _ E) in Hz. simpl in Hz. lia. }
    specialize (Le Hf). rewrite Htk, Hex in Le. simpl in Le. mkL.
    + exact Lh.
    + discriminate.
    + left. lia.
  - (* DialOk *)
    destruct (alookup k (p_tasks s)) as [[t [|c]]|] eqn:E; try discriminate. inv_some H.
    assert (Hf : p_filling s = true) by (apply tasks_imply_filling; [assumption|intro Hn; rewrite Hn in E; discriminate]).
    mkL.
    + intros c Hc. rewrite (hand_aset_iff k t (p_next_conn s) _ c E) in Hc. apply in_or_app.
      destruct Hc as [->|Hc]; [right; now left|left; auto].
    + intros _. rewrite length_aset. auto.
    + right; now left.
  - (* ConnectAdd *)
    destruct (alookup k (p_tasks s)) as [[t [|c]]|] eqn:E; try discriminate.
    assert (Hf : p_filling s = true) by (apply tasks_imply_filling; [assumption|intro Hn; rewrite Hn in E; discriminate]).
    rewrite Lo in H. rewrite in_hand_hand in Lh.
    assert (Hopen : memb c (p_open s) = true) by (apply memb_In; apply Lh; eapply alookup_have_in_hand; eauto).
    rewrite Hopen in H. simpl in H. inv_some H.
    pose proof (length_aremove k _ _ E) as Hlen. mkL.
    + intros x Hx. apply Lh. apply (hand_aremove_iff k t c _ x E). now right.
    + intros _. rewrite app_length, zsum_extra_notify_true. simpl. specialize (Le Hf). lia.
    + right; now left.
  - (* HErr *)
    rewrite Ld in H. simpl in H. discriminate.
  - (* PCloseConn *)
    rewrite Lc in H. discriminate.
Qed.

Lemma invL_run ls : forall s0 s, invA s0 -> invL s0 -> forallb p_lucky ls = true -> prun s0 ls = Some s -> invA s /\ invL s.
Proof.
  induction ls as [|l r IH]; simpl; intros s0 s IA IL Hl H; [inversion H; subst; auto|].
  destruct (pstep s0 l) eqn:E; [|discriminate]. apply andb_true_iff in Hl. destruct Hl as [Hl1 Hl2].
  eapply IH; [eapply invA_step; eauto|eapply invL_step; eauto|exact Hl2|exact H].
Qed.

Theorem pool_refills_lemma size ls0 s0 ls s :
  prun (pool_init size) ls0 = Some s0 ->
  p_closed s0 = false -> p_filling s0 = false -> p_dead s0 = [] -> p_closing s0 = [] -> p_threads s0 <> [] ->
  forallb p_lucky ls = true -> prun s0 ls = Some s -> p_quiescent s = true ->
  Z.of_nat (length (p_conns s)) = Z.max 0 size.
Proof.
  intros Hr0 Hc Hf Hd Hcg Hth Hl Hr Hq. pose proof (invA_run _ _ _ Hr0) as IA0.
  pose proof (invA_notasks s0 IA0 Hf) as Htk.
  assert (IL0 : invL s0).
  { constructor; auto.
    - unfold in_hand. rewrite Htk. simpl. tauto.
    - rewrite Hf. discriminate.
    - right; right. unfold inactive_thread. destruct (p_threads s0) as [|[t ph] r] eqn:Et; [congruence|]. exists t, ph. split; [now left|].
      destruct (is_active ph) eqn:Ea; [|reflexivity]. exfalso.
      assert (Hin : In (t, ph) (p_threads s0)) by (rewrite Et; now left).
      pose proof (active_implies_filling s0 t ph IA0 Hin Ea). congruence. }
  destruct (invL_run _ _ _ IA0 IL0 Hl Hr) as [IA IL].
  pose proof (prun_size _ _ _ Hr) as Hs1. pose proof (prun_size _ _ _ Hr0) as Hs0. simpl in Hs0.
  unfold p_quiescent in Hq. destruct (p_threads s) eqn:Et; [|discriminate].
  pose proof (l_goal s IL) as Hgoal. unfold inactive_thread in Hgoal. destruct Hgoal as [Hg|[Hg|[t [ph [Hin _]]]]].
  - unfold pool_full in Hg. rewrite Hg. congruence.
  - exfalso. pose proof (a_act s IA) as Ha. rewrite Et, Hg in Ha. simpl in Ha. discriminate.
  - rewrite Et in Hin. destruct Hin.
Qed.
