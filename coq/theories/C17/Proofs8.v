(* C17/Proofs8.v -- policyConnPool: after Close every host pool ever created is closed (or its
   pending Close is queued) and none is created any more; controlConn: reconnects terminate, those
   started after close() do nothing, and nothing is connected after the session context is cancelled. *)
From GocqlV Require Import Lib.Base Gen.Consts C17.Model C17.Spec C17.Proofs1 C17.Proofs2.

Ltac inv_some H := injection H as <-.

(* ---------------- policyConnPool ---------------- *)
Definition ppinv (s : ppool) : Prop :=
  (forall p, (p < pp_next s)%nat -> In p (map snd (pp_map s)) \/ In p (pp_detached s) \/ In p (pp_closedpools s))
  /\ (pp_closed s = true -> pp_map s = []).

Lemma ppinv_init : ppinv ppool_init.
Proof. split; simpl; [intros p H; lia|reflexivity]. Qed.

Lemma In_vals_aremove {A} k (v : A) l x : alookup k l = Some v -> In x (map snd l) -> x = v \/ In x (map snd (aremove k l)).
Proof.
  induction l as [|[k' v'] r IH]; simpl; [discriminate|].
  destruct (Nat.eqb_spec k' k) as [->|Hne]; intros E [H|H].
  - inversion E; subst. now left.
  - now right.
  - right. simpl. now left.
  - destruct (IH E H); [now left|right; simpl; now right].
Qed.

Lemma ppinv_step s l s' : ppinv s -> ppstep s l = Some s' -> ppinv s'.
Proof.
  intros [I1 I2] H. unfold ppinv. destruct l as [h|h| |]; cbn [ppstep] in H.
  - destruct (pp_closed s) eqn:Ec; [inv_some H; rewrite Ec; auto|].
    destruct (alookup h (pp_map s)); inv_some H; cbn [pp_next pp_map pp_detached pp_closedpools pp_closed]; rewrite ?Ec; [auto|].
    split; [|discriminate]. intros p Hp. rewrite map_app, in_app_iff. simpl.
    destruct (Nat.eq_dec p (pp_next s)) as [->|Hne]; [left; right; now left|].
    destruct (I1 p) as [H1|[H1|H1]]; [lia| | |]; auto.
  - destruct (alookup h (pp_map s)) as [p0|] eqn:E; inv_some H; cbn [pp_next pp_map pp_detached pp_closedpools pp_closed]; [|auto].
    split.
    + intros p Hp. rewrite in_app_iff. simpl. destruct (I1 p Hp) as [H1|[H1|H1]]; auto.
      destruct (In_vals_aremove h p0 _ p E H1) as [->|H2]; auto.
    + intro Hc. rewrite (I2 Hc) in E. discriminate.
  - destruct (pp_detached s) as [|p0 r] eqn:E; [discriminate|]. inv_some H. cbn [pp_next pp_map pp_detached pp_closedpools pp_closed].
    split; [|exact I2]. intros p Hp. rewrite in_app_iff. simpl. destruct (I1 p Hp) as [H1|[[->|H1]|H1]]; auto.
  - inv_some H. cbn [pp_next pp_map pp_detached pp_closedpools pp_closed]. split; [|reflexivity].
    intros p Hp. rewrite in_app_iff. destruct (I1 p Hp) as [H1|[H1|H1]]; auto.
Qed.

Lemma ppinv_run ls : forall s s', ppinv s -> pprun s ls = Some s' -> ppinv s'.
Proof.
  induction ls as [|l r IH]; simpl; intros s s' I H; [inversion H; subst; assumption|].
  destruct (ppstep s l) eqn:E; [|discriminate]. eapply IH; [eapply ppinv_step; eauto|exact H].
Qed.

Theorem policy_pool_closed_lemma ls s : pprun ppool_init ls = Some s -> pp_closed s = true ->
  pp_map s = []
  /\ (forall p, (p < pp_next s)%nat -> In p (pp_closedpools s) \/ In p (pp_detached s))
  /\ (forall h s', ppstep s (PPAdd h) = Some s' -> s' = s).
Proof.
  intros H Hc. destruct (ppinv_run _ _ _ ppinv_init H) as [I1 I2]. split; [auto|]. split.
  - intros p Hp. destruct (I1 p Hp) as [H1|[H1|H1]]; auto. rewrite (I2 Hc) in H1. destruct H1.
  - intros h s' Hs. cbn [ppstep] in Hs. rewrite Hc in Hs. now inv_some Hs.
Qed.

(* ---------------- controlConn ---------------- *)
Definition kw (ph : krph) : Z :=
  match ph with KR0 => 5 | KR1 => 4 | KRDial => 3 | KRHave _ => 2 | KRRefresh => 1 end.

Definition kmeasure (s : kctl) : Z := zsum kw (k_recs s).

Lemma kw_pos ph : 0 < kw ph.
Proof. destruct ph; simpl; lia. Qed.

Lemma kmeasure_nonneg s : 0 <= kmeasure s.
Proof. unfold kmeasure. apply zsum_nonneg. intro a. pose proof (kw_pos a). lia. Qed.

Theorem kmeasure_decreases s l s' : k_rec_label l = true -> kstep s l = Some s' -> kmeasure s' < kmeasure s.
Proof.
  intros Hl H. unfold kmeasure. destruct l as [t|t|t|t|t|t|t|t| | |]; try discriminate; cbn [kstep] in H;
    destruct (alookup t (k_recs s)) as [[| | |c|]|] eqn:E; try discriminate.
  - destruct (k_closing s); inv_some H; cbn [k_recs]; [rewrite (zsum_aremove kw t _ _ E)|rewrite (zsum_aset kw t _ _ _ E)]; simpl; lia.
  - destruct (k_reconnecting s); inv_some H; cbn [k_recs]; [rewrite (zsum_aremove kw t _ _ E)|rewrite (zsum_aset kw t _ _ _ E)]; simpl; lia.
  - destruct (k_cancelled s); [discriminate|]. inv_some H; cbn [k_recs]. rewrite (zsum_aset kw t _ _ _ E). simpl. lia.
  - inv_some H; cbn [k_recs]. rewrite (zsum_aremove kw t _ _ E). simpl. lia.
  - inv_some H; cbn [k_recs]. rewrite (zsum_aset kw t _ _ _ E). simpl. lia.
  - inv_some H; cbn [k_recs]. rewrite (zsum_aremove kw t _ _ E). simpl. lia.
  - inv_some H; cbn [k_recs]. rewrite (zsum_aremove kw t _ _ E). simpl. lia.
Qed.

Theorem reconnect_terminates_lemma s ls s' : forallb k_rec_label ls = true -> krun s ls = Some s' ->
  0 <= kmeasure s' /\ Z.of_nat (length ls) + kmeasure s' <= kmeasure s.
Proof.
  intros Hl H. split; [apply kmeasure_nonneg|]. revert s Hl H.
  induction ls as [|l r IH]; cbn [krun forallb length]; intros s Hl H.
  - inversion H; subst. simpl. lia.
  - apply andb_true_iff in Hl. destruct Hl as [Hl1 Hl2]. destruct (kstep s l) as [s1|] eqn:E; [|discriminate].
    pose proof (kmeasure_decreases _ _ _ Hl1 E). specialize (IH _ Hl2 H). rewrite Nat2Z.inj_succ. lia.
Qed.

(* what close() and cancel establish is stable, and bounds what reconnects can still do *)
Lemma kstep_monotone s l s' : kstep s l = Some s' ->
  (k_closing s = true -> k_closing s' = true)
  /\ (k_cancelled s = true -> k_cancelled s' = true /\ k_next s' = k_next s /\ incl (k_open s') (k_open s)).
Proof.
  intro H. destruct l as [t|t|t|t|t|t|t|t| | |]; cbn [kstep] in H.
  - destruct (memb t (akeys (k_recs s))); [discriminate|]. inv_some H. simpl. split; auto using incl_refl.
  - destruct (alookup t (k_recs s)) as [[| | |c|]|] eqn:E; try discriminate.
    destruct (k_closing s); inv_some H; simpl; split; auto using incl_refl.
  - destruct (alookup t (k_recs s)) as [[| | |c|]|] eqn:E; try discriminate.
    destruct (k_reconnecting s); inv_some H; simpl; (split; [auto|]); intro Hc; (split; [assumption|]); (split; [reflexivity|]).
    + apply incl_refl.
    + destruct (k_stored s); [|apply incl_refl]. intros x Hx. apply In_remn in Hx. tauto.
  - destruct (alookup t (k_recs s)) as [[| | |c|]|] eqn:E; try discriminate.
    destruct (k_cancelled s) eqn:Ec; [discriminate|]. inv_some H. simpl. split; [auto|]. discriminate.
  - destruct (alookup t (k_recs s)) as [[| | |c|]|] eqn:E; try discriminate.
    inv_some H. simpl. split; auto using incl_refl.
  - destruct (alookup t (k_recs s)) as [[| | |c|]|] eqn:E; try discriminate.
    inv_some H. simpl. split; auto using incl_refl.
  - destruct (alookup t (k_recs s)) as [[| | |c|]|] eqn:E; try discriminate.
    inv_some H. simpl. split; [auto|]. intro Hc. split; [assumption|]. split; [reflexivity|]. intros x Hx. apply In_remn in Hx. tauto.
  - destruct (alookup t (k_recs s)) as [[| | |c|]|] eqn:E; try discriminate.
    inv_some H. simpl. split; auto using incl_refl.
  - inv_some H. simpl. split; auto using incl_refl.
  - inv_some H. simpl. split; [auto|]. intro Hc. split; [assumption|]. split; [reflexivity|].
    destruct (k_stored s); [|apply incl_refl]. intros x Hx. apply In_remn in Hx. tauto.
  - inv_some H. simpl. split; auto using incl_refl.
Qed.

Theorem control_after_close_lemma s ls s' : krun s ls = Some s' ->
  (k_closing s = true -> k_closing s' = true
     /\ forall t, alookup t (k_recs s') = Some KR0 ->
          exists s2, kstep s' (KRecCheck t) = Some s2 /\ k_open s2 = k_open s' /\ k_next s2 = k_next s' /\ k_stored s2 = k_stored s'
                     /\ k_recs s2 = aremove t (k_recs s'))
  /\ (k_cancelled s = true -> k_cancelled s' = true /\ k_next s' = k_next s /\ incl (k_open s') (k_open s)).
Proof.
  revert s. induction ls as [|l r IH]; simpl; intros s H.
  - inversion H; subst. split.
    + intro Hc. split; [assumption|]. intros t Ht. cbn [kstep]. rewrite Ht, Hc. eexists. repeat split.
    + intro Hc. repeat split; auto using incl_refl.
  - destruct (kstep s l) as [s1|] eqn:E; [|discriminate]. destruct (kstep_monotone _ _ _ E) as [M1 M2].
    destruct (IH _ H) as [I1 I2]. split.
    + intro Hc. apply I1. auto.
    + intro Hc. destruct (M2 Hc) as [A [B C]]. destruct (I2 A) as [A' [B' C']]. split; [assumption|]. split; [congruence|].
      eapply incl_tran; eauto.
Qed.

(* a host pool that is no longer in the table has been closed or its Close is queued -- at any time,
   whatever it held when it was removed *)
Theorem policy_pool_removed_closed_lemma ls s p : pprun ppool_init ls = Some s -> (p < pp_next s)%nat ->
  ~ In p (map snd (pp_map s)) -> In p (pp_closedpools s) \/ In p (pp_detached s).
Proof.
  intros H Hp Hn. destruct (ppinv_run _ _ _ ppinv_init H) as [I1 _].
  destruct (I1 p Hp) as [H1|[H1|H1]]; tauto.
Qed.
