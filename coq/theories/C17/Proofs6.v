(* C17/Proofs6.v -- the event debouncer's stop() returns (called once), and the order / once-only
   discipline of Session.Close. *)
From GocqlV Require Import Lib.Base Gen.Consts C17.Model C17.Spec C17.Proofs1 C17.Proofs2.

Ltac inv_some H := injection H as <-.

(* ---------------- event debouncer ---------------- *)
Definition einv (s : edeb) : Prop :=
  match e_stoppers s with
  | [] => e_fl s <> EExited /\ e_quit_closed s = false
  | [(t, ESSend)] => e_fl s <> EExited /\ e_quit_closed s = false
  | [(t, ESClose)] => e_fl s = EExited /\ e_quit_closed s = false
  | [(t, ESDone)] => e_fl s = EExited /\ e_quit_closed s = true
  | [(t, ESPanic)] => False
  | _ :: _ :: _ => True
  end.

Lemma einv_init : einv edeb_init.
Proof. unfold einv. simpl. split; [discriminate|reflexivity]. Qed.

Lemma estep_stoppers_len s l s' : estep s l = Some s' -> (length (e_stoppers s) <= length (e_stoppers s'))%nat.
Proof.
  destruct l; cbn [estep]; intro H;
  repeat match type of H with
  | context [match ?x with _ => _ end] => destruct x
  end; try discriminate; inv_some H; cbn [e_stoppers]; rewrite ?app_length, ?map_length, ?length_aset; simpl; lia.
Qed.

Lemma einv_step s l s' : einv s -> (length (e_stoppers s') <= 1)%nat -> estep s l = Some s' -> einv s'.
Proof.
  intros I Hlen H. pose proof (estep_stoppers_len _ _ _ H) as Hmono.
  unfold einv in *. destruct l as [| | | |t|t|t]; cbn [estep] in H.
  - destruct (e_events s <? K.eventBufferSize); inv_some H; cbn [e_stoppers e_fl e_quit_closed] in *; exact I.
  - destruct (e_armed s); [|discriminate]. inv_some H; cbn [e_stoppers e_fl e_quit_closed] in *; exact I.
  - destruct (e_fl s) eqn:Ef; try discriminate. destruct (e_timerc s); [|discriminate]. inv_some H.
    cbn [e_stoppers e_fl e_quit_closed] in *.
    destruct (e_stoppers s) as [|[t0 [| | |]] [|? ?]]; try exact I; try (destruct I; split; [discriminate|assumption]); destruct I; congruence.
  - destruct (e_fl s) eqn:Ef; try discriminate.
    destruct (e_events s =? 0); inv_some H; cbn [e_stoppers e_fl e_quit_closed] in *;
      (destruct (e_stoppers s) as [|[t0 [| | |]] [|? ?]]; try exact I; try (destruct I; split; [discriminate|assumption]); destruct I; congruence).
  - destruct (e_fl s) eqn:Ef; try discriminate.
    destruct (e_stoppers s) as [|[t0 p0] [|? ?]] eqn:Est.
    + simpl in H. destruct I as [_ Hq]. rewrite Hq in H. discriminate.
    + simpl in H. destruct (Nat.eqb_spec t0 t) as [->|Hne].
      * destruct p0; try (destruct I as [I1 I2]; try congruence; rewrite I2 in H; discriminate); try contradiction.
        inv_some H. cbn [e_stoppers e_fl e_quit_closed]. simpl. rewrite ?Nat.eqb_refl. destruct I. split; [reflexivity|assumption].
      * destruct p0; try contradiction; destruct I as [I1 I2]; try congruence; rewrite I2 in H; discriminate.
    + cbn [e_stoppers] in Hmono. simpl in Hmono. lia.
  - destruct (memb t (akeys (e_stoppers s))); [discriminate|]. inv_some H. cbn [e_stoppers e_fl e_quit_closed] in *.
    destruct (e_stoppers s) as [|[t0 p0] r] eqn:Est.
    + simpl. destruct I as [I1 I2]. rewrite I2. split; [assumption|reflexivity].
    + rewrite app_length in Hlen. simpl in Hlen. lia.
  - destruct (alookup t (e_stoppers s)) as [[| | |]|] eqn:El; try discriminate.
    destruct (e_stoppers s) as [|[t0 p0] [|? ?]] eqn:Est.
    + discriminate.
    + simpl in El. destruct (Nat.eqb_spec t0 t) as [->|Hne]; [|discriminate]. injection El as ->.
      destruct I as [I1 I2]. rewrite I2 in H. inv_some H. cbn [e_stoppers e_fl e_quit_closed]. simpl. rewrite ?Nat.eqb_refl. simpl.
      split; [assumption|reflexivity].
    + cbn [e_stoppers] in Hmono. simpl in Hmono. lia.
Qed.

Lemma erun_stoppers_len ls : forall s s', erun s ls = Some s' -> (length (e_stoppers s) <= length (e_stoppers s'))%nat.
Proof.
  induction ls as [|l r IH]; simpl; intros s s' H; [inversion H; lia|].
  destruct (estep s l) eqn:E; [|discriminate]. pose proof (estep_stoppers_len _ _ _ E). specialize (IH _ _ H). lia.
Qed.

Lemma einv_run ls : forall s s', einv s -> erun s ls = Some s' -> (length (e_stoppers s') <= 1)%nat -> einv s'.
Proof.
  induction ls as [|l r IH]; simpl; intros s s' I H Hlen; [inversion H; subst; assumption|].
  destruct (estep s l) as [s1|] eqn:E; [|discriminate].
  pose proof (erun_stoppers_len _ _ _ H) as Hm. assert (Hl1 : (length (e_stoppers s1) <= 1)%nat) by lia.
  eapply IH; [exact (einv_step _ _ _ I Hl1 E)|exact H|exact Hlen].
Qed.

Lemma estep_calls s l s' : estep s l = Some s' ->
  length (e_stoppers s') = (length (e_stoppers s) + match l with EStopCall _ => 1 | _ => 0 end)%nat.
Proof.
  destruct l; cbn [estep]; intro H;
  repeat match type of H with
  | context [match ?x with _ => _ end] => destruct x
  end; try discriminate; inv_some H; cbn [e_stoppers]; rewrite ?app_length, ?map_length, ?length_aset; simpl; lia.
Qed.

Lemma erun_calls ls : forall s s', erun s ls = Some s' -> length (e_stoppers s') = (length (e_stoppers s) + e_stop_calls ls)%nat.
Proof.
  induction ls as [|l r IH]; simpl; intros s s' H; [inversion H; unfold e_stop_calls; simpl; lia|].
  destruct (estep s l) eqn:E; [|discriminate]. rewrite (IH _ _ H), (estep_calls _ _ _ E).
  unfold e_stop_calls. simpl. destruct l; simpl; lia.
Qed.

Theorem event_stop_returns_lemma ls s t :
  erun edeb_init ls = Some s -> (e_stop_calls ls <= 1)%nat -> alookup t (e_stoppers s) = Some ESSend ->
  ~ e_stop_stuck s t /\ en_in ESPanic (e_stoppers s) = 0%nat
  /\ exists ls' s', (ls' = [EFlWakeQuit t; EStopClose t] \/ ls' = [EFlFlush; EFlWakeQuit t; EStopClose t])
       /\ erun s ls' = Some s' /\ alookup t (e_stoppers s') = Some ESDone.
Proof.
  intros Hrun Hc El. pose proof (erun_calls _ _ _ Hrun) as Hlen. simpl in Hlen.
  assert (Hl1 : (length (e_stoppers s) <= 1)%nat) by lia.
  pose proof (einv_run _ _ _ einv_init Hrun Hl1) as I. unfold einv in I.
  destruct (e_stoppers s) as [|[t0 p0] [|? ?]] eqn:Est; [discriminate| |simpl in Hl1; lia].
  simpl in El. destruct (Nat.eqb_spec t0 t) as [->|Hne]; [|discriminate]. injection El as ->.
  destruct I as [Hfl Hq]. split; [|split].
  - intros [_ Hex]. congruence.
  - reflexivity.
  - destruct (e_fl s) eqn:Ef; [| |congruence].
    + exists [EFlWakeQuit t; EStopClose t]. cbn [erun estep]. rewrite Ef, Est. simpl. rewrite Nat.eqb_refl.
      cbn [e_stoppers e_quit_closed]. simpl. rewrite Nat.eqb_refl. rewrite Hq.
      eexists. split; [now left|]. split; [reflexivity|]. cbn [e_stoppers]. simpl. rewrite Nat.eqb_refl. reflexivity.
    + exists [EFlFlush; EFlWakeQuit t; EStopClose t]. cbn [erun estep]. rewrite Ef.
      destruct (e_events s =? 0); cbn [erun estep e_fl e_stoppers e_quit_closed]; rewrite Est; simpl; rewrite Nat.eqb_refl;
        cbn [e_stoppers e_quit_closed]; simpl; rewrite Nat.eqb_refl; rewrite Hq;
        (eexists; split; [now right|]; split; [reflexivity|]; cbn [e_stoppers]; simpl; rewrite Nat.eqb_refl; reflexivity).
Qed.

(* ---------------- Session.Close ---------------- *)
Definition is_step (ph : sphase) : Z := match ph with SCStep _ => 1 | _ => 0 end.

Definition sinv (s : sess) : Prop :=
  NoDup (akeys (s_closers s)) /\
  if s_closing s
  then (s_closed s = true /\ s_log s = close_order /\ zsum is_step (s_closers s) = 0)
       \/ (s_closed s = false /\ zsum is_step (s_closers s) = 1
           /\ exists t k, In (t, SCStep k) (s_closers s) /\ s_log s = firstn k close_order /\ (k <= length close_order)%nat)
  else s_closed s = false /\ s_log s = [] /\ zsum is_step (s_closers s) = 0.

Lemma sinv_init : sinv sess_init.
Proof. unfold sinv. simpl. split; [constructor|auto]. Qed.

Lemma is_step_nonneg ph : 0 <= is_step ph.
Proof. destruct ph; simpl; lia. Qed.

Lemma firstn_S_nth {A} (l : list A) k x : nth_error l k = Some x -> firstn (S k) l = firstn k l ++ [x].
Proof.
  revert k; induction l as [|y r IH]; intros [|k]; simpl; try discriminate; intro H.
  - now inversion H.
  - f_equal. apply IH. exact H.
Qed.

Lemma sinv_step s l s' : sinv s -> sstep s l = Some s' -> sinv s'.
Proof.
  intros [Hnd I] H. unfold sinv. destruct l as [t|t|t]; cbn [sstep] in H.
  - destruct (memb t (akeys (s_closers s))) eqn:Em; [discriminate|]. inv_some H. cbn [s_closing s_closed s_closers s_log].
    apply memb_false in Em. split; [rewrite akeys_app; simpl; now apply NoDup_snoc|].
    rewrite zsum_app. simpl.
    destruct (s_closing s); [|now rewrite Z.add_0_r].
    destruct I as [I|[I1 [I2 [t0 [k [I3 I4]]]]]]; [left; now rewrite Z.add_0_r|].
    right. split; [assumption|]. split; [lia|]. exists t0, k. split; [apply in_or_app; now left|assumption].
  - destruct (alookup t (s_closers s)) as [[|k|]|] eqn:El; try discriminate.
    destruct (s_closing s) eqn:Ec; inv_some H; cbn [s_closing s_closed s_closers s_log].
    + split; [now rewrite akeys_aset|]. rewrite (zsum_aset is_step t _ _ _ El). simpl.
      destruct I as [I|[I1 [I2 [t0 [k [I3 I4]]]]]]; [left; now rewrite Z.sub_0_r, Z.add_0_r|].
      right. split; [assumption|]. split; [lia|]. exists t0, k. split; [|assumption].
      apply In_aset_other; [assumption|]. simpl. intro; subst t0.
      pose proof (unique_key _ _ _ _ Hnd I3 (alookup_In _ _ _ El)). discriminate.
    + split; [now rewrite akeys_aset|]. rewrite (zsum_aset is_step t _ _ _ El). simpl.
      destruct I as [I1 [I2 I3]]. right. split; [assumption|]. split; [lia|].
      exists t, 0%nat. split; [eapply In_aset_same; eauto|]. split; [assumption|simpl; lia].
  - destruct (alookup t (s_closers s)) as [[|k|]|] eqn:El; try discriminate.
    pose proof (alookup_In _ _ _ El) as Hin.
    assert (Hcl : s_closing s = true).
    { destruct (s_closing s); [reflexivity|]. destruct I as [_ [_ I3]].
      pose proof (zsum_zero_all is_step _ t (SCStep k) is_step_nonneg I3 Hin). discriminate. }
    rewrite Hcl in I.
    destruct I as [[_ [_ I3]]|[I1 [I2 [t0 [k0 [I3 [I4 I5]]]]]]].
    { pose proof (zsum_zero_all is_step _ t (SCStep k) is_step_nonneg I3 Hin). discriminate. }
    assert (t0 = t).
    { eapply (zsum_le1_unique is_step); eauto using is_step_nonneg; simpl; lia. }
    subst t0. pose proof (unique_key _ _ _ _ Hnd I3 Hin) as Hk. inversion Hk; subst k0.
    destruct (nth_error close_order k) as [c|] eqn:En; inv_some H; cbn [s_closing s_closed s_closers s_log]; rewrite ?Hcl.
    + split; [now rewrite akeys_aset|]. rewrite (zsum_aset is_step t _ _ _ El). simpl.
      right. split; [assumption|]. split; [lia|]. exists t, (S k). split; [eapply In_aset_same; eauto|].
      split; [rewrite (firstn_S_nth _ _ _ En), I4; reflexivity|].
      assert (Hk6 : (k < length close_order)%nat) by (apply nth_error_Some; congruence). simpl in Hk6 |- *. lia.
    + split; [now rewrite akeys_aset|]. rewrite (zsum_aset is_step t _ _ _ El). simpl.
      left. split; [reflexivity|]. split; [|lia].
      apply nth_error_None in En. rewrite I4. apply firstn_all2. exact En.
Qed.

Lemma sinv_run ls : forall s s', sinv s -> srun s ls = Some s' -> sinv s'.
Proof.
  induction ls as [|l r IH]; simpl; intros s s' I H; [inversion H; subst; assumption|].
  destruct (sstep s l) eqn:E; [|discriminate]. eapply IH; [eapply sinv_step; eauto|exact H].
Qed.

Lemma n_step_zsum st : Z.of_nat (length (filter (fun e => match snd e with SCStep _ => true | _ => false end) st)) = zsum is_step st.
Proof.
  rewrite (length_filter_zsum _ (fun ph => match ph with SCStep _ => true | _ => false end)) by reflexivity.
  induction st as [|[t ph] r IH]; simpl; [reflexivity|]. rewrite IH. destruct ph; reflexivity.
Qed.

Theorem close_once_lemma ls s : srun sess_init ls = Some s ->
  (exists k, s_log s = firstn k close_order)
  /\ (length (filter (fun e => match snd e with SCStep _ => true | _ => false end) (s_closers s)) <= 1)%nat
  /\ (s_closed s = true -> s_log s = close_order).
Proof.
  intro H. destruct (sinv_run _ _ _ sinv_init H) as [_ I]. rewrite Nat2Z.inj_le, n_step_zsum.
  destruct (s_closing s).
  - destruct I as [[I1 [I2 I3]]|[I1 [I2 [t [k [I3 [I4 I5]]]]]]].
    + split; [exists (length close_order); now rewrite firstn_all|]. split; [simpl; lia|auto].
    + split; [eauto|]. split; [simpl; lia|congruence].
  - destruct I as [I1 [I2 I3]]. split; [exists 0%nat; now rewrite I2|]. split; [simpl; lia|congruence].
Qed.

Lemma closed_step s l s' : s_closed s = true -> sstep s l = Some s' -> s_closed s' = true.
Proof.
  intros Hc H. destruct l as [t|t|t]; cbn [sstep] in H.
  - destruct (memb t (akeys (s_closers s))); [discriminate|]. now inv_some H.
  - destruct (alookup t (s_closers s)) as [[|k|]|]; try discriminate. destruct (s_closing s); now inv_some H.
  - destruct (alookup t (s_closers s)) as [[|k|]|]; try discriminate. destruct (nth_error close_order k); now inv_some H.
Qed.

Theorem queries_fail_after_close_lemma s ls s' : s_closed s = true -> srun s ls = Some s' -> query s' = QErrSessionClosed.
Proof.
  revert s. induction ls as [|l r IH]; simpl; intros s Hc H.
  - inversion H; subst. unfold query. now rewrite Hc.
  - destruct (sstep s l) eqn:E; [|discriminate]. eapply IH; [eapply closed_step; eauto|exact H].
Qed.

(* each shutdown call -- in particular eventDebouncer.stop of the node-event and of the schema-event
   debouncer, and refreshDebouncer.stop -- is made at most once, however Close is called *)
Definition comp_dec (a b : comp) : {a = b} + {a <> b}.
Proof. decide equality. Defined.

Lemma close_order_nodup : NoDup close_order.
Proof. unfold close_order. repeat constructor; simpl; intuition discriminate. Qed.

Lemma NoDup_firstn {A} n (l : list A) : NoDup l -> NoDup (firstn n l).
Proof.
  revert l; induction n as [|n IH]; intros [|x l] H; simpl; try constructor.
  - inversion H; subst. intro Hin. apply H2. eapply In_firstn; eauto.
  - inversion H; subst. auto.
Qed.

Theorem each_stop_once_lemma ls s c : srun sess_init ls = Some s -> (count_occ comp_dec (s_log s) c <= 1)%nat.
Proof.
  intro H. destruct (close_once_lemma _ _ H) as [[k Hk] _]. rewrite Hk.
  apply NoDup_count_occ. apply NoDup_firstn. apply close_order_nodup.
Qed.
