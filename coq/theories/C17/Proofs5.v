(* C17/Proofs5.v -- the refresh debouncer: stop() returns when no refresh request races it;
   nothing is refreshed after stop() took effect; a stuck stop() stays stuck. *)
From GocqlV Require Import Lib.Base Gen.Consts C17.Model C17.Spec C17.Proofs1 C17.Proofs2.

Definition ind (p q : rsp) : Z := if rsp_eqb q p then 1 else 0.

Lemma n_in_zsum p st : Z.of_nat (n_in p st) = zsum (ind p) st.
Proof. unfold n_in. apply length_filter_zsum. intro e. reflexivity. Qed.

Lemma ind_nonneg p q : 0 <= ind p q.
Proof. unfold ind. destruct (rsp_eqb q p); lia. Qed.

Lemma rsp_eqb_eq a b : rsp_eqb a b = true <-> a = b.
Proof. destruct a, b; simpl; split; intro; congruence. Qed.

Lemma n_in_zero_lookup p st t : n_in p st = 0%nat -> alookup t st <> Some p.
Proof.
  intros Hz Hl. apply alookup_In in Hl.
  assert (Hs : zsum (ind p) st = 0) by (rewrite <- n_in_zsum, Hz; reflexivity).
  pose proof (zsum_zero_all (ind p) st t p (ind_nonneg p) Hs Hl) as H. unfold ind in H.
  assert (rsp_eqb p p = true) by now apply rsp_eqb_eq. rewrite H0 in H. discriminate.
Qed.

Lemma n_in_aset p st t q q0 : alookup t st = Some q0 ->
  Z.of_nat (n_in p (aset t q st)) = Z.of_nat (n_in p st) - ind p q0 + ind p q.
Proof. intro E. rewrite !n_in_zsum. apply zsum_aset. exact E. Qed.

Lemma n_in_snoc p st t q : Z.of_nat (n_in p (st ++ [(t, q)])) = Z.of_nat (n_in p st) + ind p q.
Proof. rewrite !n_in_zsum, zsum_app. simpl. lia. Qed.

(* the invariant along schedules on which no request races stop *)
Definition rinv (s : rdeb) : Prop :=
  if r_stopped s
  then (n_in RSSend (r_stoppers s) = 1%nat /\ n_in RSClose (r_stoppers s) = 0%nat
        /\ (r_fl s = RSelect \/ exists w, r_fl s = RRefresh w)
        /\ r_now s = false /\ r_timerc s = false /\ r_armed s = false /\ r_quit_closed s = false)
       \/ (n_in RSSend (r_stoppers s) = 0%nat /\ (r_fl s = RWoke SQuit \/ r_fl s = RExited))
  else n_in RSSend (r_stoppers s) = 0%nat /\ n_in RSClose (r_stoppers s) = 0%nat /\ r_quit_closed s = false
       /\ r_fl s <> RExited /\ r_fl s <> RWoke SQuit.

Lemma rinv_init : rinv rdeb_init.
Proof. unfold rinv. simpl. repeat split; discriminate. Qed.

Ltac inv_some H := injection H as <-.

Lemma rinv_step s l s' : rinv s -> request_races_stop s l = false -> rstep s l = Some s' -> rinv s'.
Proof.
  intros I Hg H. unfold rinv in *.
  destruct l as [| | |src t| | |t|t|t]; cbn [rstep] in H.
  - (* RDebounce *)
    destruct (r_stopped s) eqn:Es; inv_some H; [now rewrite Es|]. cbn [r_stopped r_stoppers r_fl r_quit_closed]. rewrite ?Es. exact I.
  - (* RTimerFire *)
    destruct (r_armed s) eqn:Ea; [|discriminate]. inv_some H. cbn [r_stopped r_stoppers r_fl r_quit_closed r_now r_timerc r_armed].
    destruct (r_stopped s); [|exact I]. destruct I as [[_ [_ [_ [_ [_ [Harm _]]]]]]|I]; [congruence|right; exact I].
  - (* RRefreshNow *)
    simpl in Hg. rewrite Hg in I.
    destruct (r_bc s); inv_some H; cbn [r_stopped r_stoppers r_fl r_quit_closed]; rewrite Hg; exact I.
  - (* RFlWake *)
    destruct (r_fl s) eqn:Ef; try discriminate.
    destruct src.
    + destruct (r_now s) eqn:En; [|discriminate]. inv_some H. cbn [r_stopped r_stoppers r_fl r_quit_closed r_now r_timerc r_armed].
      destruct (r_stopped s).
      * destruct I as [[_ [_ [_ [Hn _]]]]|[_ [I|I]]]; congruence.
      * destruct I as [I1 [I2 [I3 _]]]. repeat split; auto; discriminate.
    + destruct (r_timerc s) eqn:En; [|discriminate]. inv_some H. cbn [r_stopped r_stoppers r_fl r_quit_closed r_now r_timerc r_armed].
      destruct (r_stopped s).
      * destruct I as [[_ [_ [_ [_ [Hn _]]]]]|[_ [I|I]]]; congruence.
      * destruct I as [I1 [I2 [I3 _]]]. repeat split; auto; discriminate.
    + destruct (alookup t (r_stoppers s)) as [[| | |]|] eqn:El.
      2:{ inv_some H. cbn [r_stopped r_stoppers r_fl r_quit_closed r_now r_timerc r_armed].
          destruct (r_stopped s).
          - destruct I as [[I1 [I2 _]]|[I1 _]].
            + right. split; [|now left].
              pose proof (n_in_aset RSSend _ t RSClose RSSend El) as Hn. unfold ind in Hn. simpl in Hn. lia.
            + exfalso. eapply n_in_zero_lookup; eauto.
          - destruct I as [I1 _]. exfalso. eapply n_in_zero_lookup; eauto. }
      all: destruct (r_quit_closed s) eqn:Eq; [|discriminate]; inv_some H; unfold set_rfl; cbn [r_stopped r_stoppers r_fl r_quit_closed];
        destruct (r_stopped s); [destruct I as [[_ [_ [_ [_ [_ [_ Hq]]]]]]|[I1 [I|I]]]; try congruence | destruct I as [_ [_ [Hq _]]]; congruence].
  - (* RFlLock *)
    destruct (r_fl s) as [|src|w|] eqn:Ef; try discriminate.
    destruct (r_stopped s) eqn:Es; inv_some H; cbn [r_stopped r_stoppers r_fl r_quit_closed r_now r_timerc r_armed].
    + destruct I as [[_ [_ [[I|[w I]] _]]]|[I1 _]]; try congruence. right. split; [assumption|now right].
    + destruct I as [I1 [I2 [I3 _]]]. repeat split; auto; discriminate.
  - (* RFlDone *)
    destruct (r_fl s) as [|src|w|] eqn:Ef; try discriminate. inv_some H. cbn [r_stopped r_stoppers r_fl r_quit_closed r_now r_timerc r_armed].
    destruct (r_stopped s).
    + destruct I as [[I1 [I2 [_ I3]]]|[_ [I|I]]]; try congruence. left; repeat split; first [tauto | now left].
    + destruct I as [I1 [I2 [I3 _]]]. repeat split; auto; discriminate.
  - (* RStopCall *)
    destruct (memb t (akeys (r_stoppers s))); [discriminate|]. inv_some H. unfold set_rstoppers. cbn [r_stopped r_stoppers r_fl r_quit_closed r_now r_timerc r_armed].
    assert (H1 : n_in RSSend (r_stoppers s ++ [(t, RS0)]) = n_in RSSend (r_stoppers s)).
    { pose proof (n_in_snoc RSSend (r_stoppers s) t RS0) as Hn. unfold ind in Hn. simpl in Hn. lia. }
    assert (H2 : n_in RSClose (r_stoppers s ++ [(t, RS0)]) = n_in RSClose (r_stoppers s)).
    { pose proof (n_in_snoc RSClose (r_stoppers s) t RS0) as Hn. unfold ind in Hn. simpl in Hn. lia. }
    rewrite H1, H2. exact I.
  - (* RStopLock *)
    destruct (alookup t (r_stoppers s)) as [[| | |]|] eqn:El; try discriminate.
    pose proof (n_in_aset RSSend _ t RSDone RS0 El) as Hd1. pose proof (n_in_aset RSClose _ t RSDone RS0 El) as Hd2.
    pose proof (n_in_aset RSSend _ t RSSend RS0 El) as Hs1. pose proof (n_in_aset RSClose _ t RSSend RS0 El) as Hs2.
    unfold ind in *. simpl in Hd1, Hd2, Hs1, Hs2.
    destruct (r_stopped s) eqn:Es; inv_some H.
    + unfold set_rstoppers. cbn [r_stopped r_stoppers r_fl r_quit_closed r_now r_timerc r_armed]. rewrite Es.
      assert (E1 : n_in RSSend (aset t RSDone (r_stoppers s)) = n_in RSSend (r_stoppers s)) by lia.
      assert (E2 : n_in RSClose (aset t RSDone (r_stoppers s)) = n_in RSClose (r_stoppers s)) by lia.
      rewrite E1, E2. exact I.
    + cbn [r_stopped r_stoppers r_fl r_quit_closed r_now r_timerc r_armed].
      simpl in Hg. rewrite Es in Hg. simpl in Hg. apply Bool.negb_false_iff in Hg. unfold r_calm in Hg.
      apply andb_true_iff in Hg. destruct Hg as [Hg Hfl]. apply andb_true_iff in Hg. destruct Hg as [Hg Ht].
      apply andb_true_iff in Hg. destruct Hg as [Hn Ha]. apply Bool.negb_true_iff in Hn, Ha, Ht.
      destruct I as [I1 [I2 [I3 [I4 I5]]]]. left. repeat split; auto; try lia.
      destruct (r_fl s) as [|[| |]|w|]; try discriminate; try congruence; [now left|right; eauto].
  - (* RStopClose *)
    destruct (alookup t (r_stoppers s)) as [[| | |]|] eqn:El; try discriminate. inv_some H.
    cbn [r_stopped r_stoppers r_fl r_quit_closed r_now r_timerc r_armed].
    pose proof (n_in_aset RSSend _ t RSDone RSClose El) as Hd1. unfold ind in Hd1. simpl in Hd1.
    destruct (r_stopped s).
    + destruct I as [[_ [I2 _]]|[I1 I2]]; [exfalso; eapply n_in_zero_lookup; eauto|].
      right. split; [lia|assumption].
    + destruct I as [_ [I2 _]]. exfalso. eapply n_in_zero_lookup; eauto.
Qed.

Lemma rinv_run ls : forall s0 s, rinv s0 -> rrun s0 ls = Some s -> ravoids request_races_stop s0 ls = true -> rinv s.
Proof.
  induction ls as [|l r IH]; simpl; intros s0 s I H Hg; [inversion H; subst; assumption|].
  destruct (rstep s0 l) eqn:E; [|discriminate]. apply andb_true_iff in Hg. destruct Hg as [Hg1 Hg2].
  apply Bool.negb_true_iff in Hg1. eapply IH; [eapply rinv_step; eauto|exact H|exact Hg2].
Qed.

Lemma lookup_send_pos st t : alookup t st = Some RSSend -> (1 <= n_in RSSend st)%nat.
Proof.
  intro E. destruct (n_in RSSend st) eqn:En; [|lia]. exfalso. eapply n_in_zero_lookup; eauto.
Qed.

Theorem refresh_stop_returns_lemma ls s t :
  rrun rdeb_init ls = Some s -> ravoids request_races_stop rdeb_init ls = true ->
  alookup t (r_stoppers s) = Some RSSend ->
  ~ r_stop_stuck s t
  /\ (forall src t', rstep s (RFlWake src t') <> None -> src = SQuit)
  /\ exists ls' s', (ls' = [RFlWake SQuit t; RStopClose t] \/ ls' = [RFlDone; RFlWake SQuit t; RStopClose t])
       /\ rrun s ls' = Some s' /\ alookup t (r_stoppers s') = Some RSDone.
Proof.
  intros Hrun Hg El. pose proof (rinv_run ls _ _ rinv_init Hrun Hg) as I. unfold rinv in I.
  pose proof (lookup_send_pos _ _ El) as Hpos.
  destruct (r_stopped s) eqn:Es; [|destruct I as [I1 _]; lia].
  destruct I as [[_ [_ [Hfl [Hn [Ht _]]]]]|[I1 _]]; [|lia].
  split; [|split].
  - intros [_ Hex]. destruct Hfl as [Hfl|[w Hfl]]; congruence.
  - intros src t' Hne. cbn [rstep] in Hne. destruct (r_fl s); try congruence.
    destruct src; [rewrite Hn in Hne|rewrite Ht in Hne|reflexivity]; congruence.
  - destruct Hfl as [Hfl|[w Hfl]].
    + exists [RFlWake SQuit t; RStopClose t]. cbn [rrun rstep]. rewrite Hfl, El.
      cbn [r_stoppers]. rewrite (alookup_aset_same t RSClose RSSend _ El).
      eexists. split; [now left|]. split; [reflexivity|]. cbn [r_stoppers].
      apply (alookup_aset_same t RSDone RSClose). apply (alookup_aset_same t RSClose RSSend _ El).
    + exists [RFlDone; RFlWake SQuit t; RStopClose t]. cbn [rrun rstep]. rewrite Hfl. cbn [r_fl r_stoppers]. rewrite El.
      cbn [r_stoppers]. rewrite (alookup_aset_same t RSClose RSSend _ El).
      eexists. split; [now right|]. split; [reflexivity|]. cbn [r_stoppers].
      apply (alookup_aset_same t RSDone RSClose). apply (alookup_aset_same t RSClose RSSend _ El).
Qed.

(* ---- nothing is refreshed once stop() has taken effect (no hypothesis) ---- *)
Lemma stopped_step s l s' : r_stopped s = true -> rstep s l = Some s' -> r_stopped s' = true /\ r_calls s' = r_calls s.
Proof.
  intros Hs H. destruct l as [| | |src t| | |t|t|t]; cbn [rstep] in H.
  - rewrite Hs in H. try discriminate; try inv_some H. auto.
  - destruct (r_armed s); try discriminate; try inv_some H. auto.
  - destruct (r_bc s); try discriminate; try inv_some H; auto.
  - destruct (r_fl s); try discriminate. destruct src.
    + destruct (r_now s); try discriminate; try inv_some H; auto.
    + destruct (r_timerc s); try discriminate; try inv_some H; auto.
    + destruct (alookup t (r_stoppers s)) as [[| | |]|]; try (destruct (r_quit_closed s); try discriminate; try inv_some H; auto); try discriminate; try inv_some H; auto.
  - destruct (r_fl s); try discriminate. rewrite Hs in H. try discriminate; try inv_some H. auto.
  - destruct (r_fl s); try discriminate. try discriminate; try inv_some H. auto.
  - destruct (memb t (akeys (r_stoppers s))); try discriminate; try inv_some H. auto.
  - destruct (alookup t (r_stoppers s)) as [[| | |]|]; try discriminate. rewrite Hs in H. try discriminate; try inv_some H. auto.
  - destruct (alookup t (r_stoppers s)) as [[| | |]|]; try discriminate. try discriminate; try inv_some H. auto.
Qed.

Theorem no_refresh_after_stop_lemma s ls s' : r_stopped s = true -> rrun s ls = Some s' -> r_calls s' = r_calls s.
Proof.
  revert s. induction ls as [|l r IH]; simpl; intros s Hs H; [inversion H; reflexivity|].
  destruct (rstep s l) eqn:E; [|discriminate]. destruct (stopped_step _ _ _ Hs E) as [H1 H2].
  rewrite (IH _ H1 H). exact H2.
Qed.

(* ---- a stuck stop() stays stuck ---- *)
Lemma stuck_step s t l s' : r_stop_stuck s t -> rstep s l = Some s' -> r_stop_stuck s' t.
Proof.
  intros [El Hfl] H. unfold r_stop_stuck. destruct l as [| | |src t'| | |t'|t'|t']; cbn [rstep] in H.
  - destruct (r_stopped s); try discriminate; try inv_some H; auto.
  - destruct (r_armed s); try discriminate; try inv_some H; auto.
  - destruct (r_bc s); try discriminate; try inv_some H; auto.
  - rewrite Hfl in H. discriminate.
  - rewrite Hfl in H. discriminate.
  - rewrite Hfl in H. discriminate.
  - destruct (memb t' (akeys (r_stoppers s))); try discriminate; try inv_some H. unfold set_rstoppers. cbn [r_stoppers r_fl]. split; [|assumption].
    now apply alookup_app_in.
  - destruct (alookup t' (r_stoppers s)) as [[| | |]|] eqn:E'; try discriminate.
    assert (t <> t') by (intro; subst; congruence).
    destruct (r_stopped s); try discriminate; try inv_some H; unfold set_rstoppers; cbn [r_stoppers r_fl]; split; auto; rewrite alookup_aset_other; auto.
  - destruct (alookup t' (r_stoppers s)) as [[| | |]|] eqn:E'; try discriminate.
    assert (t <> t') by (intro; subst; congruence).
    inv_some H; cbn [r_stoppers r_fl]; split; auto; rewrite alookup_aset_other; auto.
Qed.

Lemma stuck_forever s t ls s' : r_stop_stuck s t -> rrun s ls = Some s' -> r_stop_stuck s' t.
Proof.
  revert s. induction ls as [|l r IH]; simpl; intros s Hs H; [inversion H; subst; assumption|].
  destruct (rstep s l) eqn:E; [|discriminate]. eapply IH; [eapply stuck_step; eauto|exact H].
Qed.

(* ---- the only way to a stuck stop(): the flusher exits after a wake-up that was not quit ---- *)
Definition ginv (s : rdeb) : Prop :=
  if r_stopped s
  then (n_in RSSend (r_stoppers s) = 1%nat /\ n_in RSClose (r_stoppers s) = 0%nat /\ r_quit_closed s = false
        /\ r_fl s <> RExited /\ r_fl s <> RWoke SQuit)
       \/ (n_in RSSend (r_stoppers s) = 0%nat /\ (r_fl s = RWoke SQuit \/ r_fl s = RExited))
  else n_in RSSend (r_stoppers s) = 0%nat /\ n_in RSClose (r_stoppers s) = 0%nat /\ r_quit_closed s = false
       /\ r_fl s <> RExited /\ r_fl s <> RWoke SQuit.

Lemma ginv_init : ginv rdeb_init.
Proof. unfold ginv. simpl. repeat split; discriminate. Qed.

Lemma ginv_step s l s' : ginv s -> flusher_misses_quit s l = false -> rstep s l = Some s' -> ginv s'.
Proof.
  intros I Hg H. unfold ginv in *.
  destruct l as [| | |src t| | |t|t|t]; cbn [rstep] in H.
  - destruct (r_stopped s) eqn:Es; inv_some H; [now rewrite Es|]. cbn [r_stopped r_stoppers r_fl r_quit_closed]. rewrite ?Es. exact I.
  - destruct (r_armed s) eqn:Ea; [|discriminate]. inv_some H. cbn [r_stopped r_stoppers r_fl r_quit_closed]. exact I.
  - destruct (r_bc s); inv_some H; cbn [r_stopped r_stoppers r_fl r_quit_closed]; exact I.
  - destruct (r_fl s) eqn:Ef; try discriminate.
    destruct src.
    + destruct (r_now s) eqn:En; [|discriminate]. inv_some H. cbn [r_stopped r_stoppers r_fl r_quit_closed].
      destruct (r_stopped s).
      * destruct I as [[I1 [I2 [I3 _]]]|[_ [I|I]]]; try congruence. left. repeat split; auto; discriminate.
      * destruct I as [I1 [I2 [I3 _]]]. repeat split; auto; discriminate.
    + destruct (r_timerc s) eqn:En; [|discriminate]. inv_some H. cbn [r_stopped r_stoppers r_fl r_quit_closed].
      destruct (r_stopped s).
      * destruct I as [[I1 [I2 [I3 _]]]|[_ [I|I]]]; try congruence. left. repeat split; auto; discriminate.
      * destruct I as [I1 [I2 [I3 _]]]. repeat split; auto; discriminate.
    + destruct (alookup t (r_stoppers s)) as [[| | |]|] eqn:El.
      2:{ inv_some H. cbn [r_stopped r_stoppers r_fl r_quit_closed].
          destruct (r_stopped s).
          - destruct I as [[I1 [I2 _]]|[I1 _]].
            + right. split; [|now left].
              pose proof (n_in_aset RSSend _ t RSClose RSSend El) as Hn. unfold ind in Hn. simpl in Hn. lia.
            + exfalso. eapply n_in_zero_lookup; eauto.
          - destruct I as [I1 _]. exfalso. eapply n_in_zero_lookup; eauto. }
      all: destruct (r_quit_closed s) eqn:Eq; [|discriminate]; inv_some H; unfold set_rfl; cbn [r_stopped r_stoppers r_fl r_quit_closed];
        destruct (r_stopped s); [destruct I as [[_ [_ [Hq _]]]|[I1 [I|I]]]; try congruence | destruct I as [_ [_ [Hq _]]]; congruence].
  - destruct (r_fl s) as [|src|w|] eqn:Ef; try discriminate.
    destruct (r_stopped s) eqn:Es; inv_some H; cbn [r_stopped r_stoppers r_fl r_quit_closed].
    + destruct I as [[_ [_ [_ [_ I5]]]]|[I1 _]].
      * exfalso. simpl in Hg. rewrite Es, Ef in Hg. destruct src; try discriminate. congruence.
      * right. split; [assumption|now right].
    + destruct I as [I1 [I2 [I3 _]]]. repeat split; auto; discriminate.
  - destruct (r_fl s) as [|src|w|] eqn:Ef; try discriminate. inv_some H. cbn [r_stopped r_stoppers r_fl r_quit_closed].
    destruct (r_stopped s).
    + destruct I as [[I1 [I2 [I3 _]]]|[_ [I|I]]]; try congruence. left. repeat split; auto; discriminate.
    + destruct I as [I1 [I2 [I3 _]]]. repeat split; auto; discriminate.
  - destruct (memb t (akeys (r_stoppers s))); [discriminate|]. inv_some H. unfold set_rstoppers. cbn [r_stopped r_stoppers r_fl r_quit_closed].
    assert (H1 : n_in RSSend (r_stoppers s ++ [(t, RS0)]) = n_in RSSend (r_stoppers s)).
    { pose proof (n_in_snoc RSSend (r_stoppers s) t RS0) as Hn. unfold ind in Hn. simpl in Hn. lia. }
    assert (H2 : n_in RSClose (r_stoppers s ++ [(t, RS0)]) = n_in RSClose (r_stoppers s)).
    { pose proof (n_in_snoc RSClose (r_stoppers s) t RS0) as Hn. unfold ind in Hn. simpl in Hn. lia. }
    rewrite H1, H2. exact I.
  - destruct (alookup t (r_stoppers s)) as [[| | |]|] eqn:El; try discriminate.
    pose proof (n_in_aset RSSend _ t RSDone RS0 El) as Hd1. pose proof (n_in_aset RSClose _ t RSDone RS0 El) as Hd2.
    pose proof (n_in_aset RSSend _ t RSSend RS0 El) as Hs1. pose proof (n_in_aset RSClose _ t RSSend RS0 El) as Hs2.
    unfold ind in *. simpl in Hd1, Hd2, Hs1, Hs2.
    destruct (r_stopped s) eqn:Es; inv_some H.
    + unfold set_rstoppers. cbn [r_stopped r_stoppers r_fl r_quit_closed]. rewrite ?Es.
      assert (E1 : n_in RSSend (aset t RSDone (r_stoppers s)) = n_in RSSend (r_stoppers s)) by lia.
      assert (E2 : n_in RSClose (aset t RSDone (r_stoppers s)) = n_in RSClose (r_stoppers s)) by lia.
      rewrite E1, E2. exact I.
    + cbn [r_stopped r_stoppers r_fl r_quit_closed].
      destruct I as [I1 [I2 [I3 [I4 I5]]]]. left. repeat split; auto; lia.
  - destruct (alookup t (r_stoppers s)) as [[| | |]|] eqn:El; try discriminate. inv_some H.
    cbn [r_stopped r_stoppers r_fl r_quit_closed].
    pose proof (n_in_aset RSSend _ t RSDone RSClose El) as Hd1. unfold ind in Hd1. simpl in Hd1.
    destruct (r_stopped s).
    + destruct I as [[_ [I2 _]]|[I1 I2]]; [exfalso; eapply n_in_zero_lookup; eauto|].
      right. split; [lia|assumption].
    + destruct I as [_ [I2 _]]. exfalso. eapply n_in_zero_lookup; eauto.
Qed.

Theorem stuck_only_if_quit_missed_lemma ls s t :
  rrun rdeb_init ls = Some s -> ravoids flusher_misses_quit rdeb_init ls = true -> ~ r_stop_stuck s t.
Proof.
  assert (G : forall ls s0 s, ginv s0 -> rrun s0 ls = Some s -> ravoids flusher_misses_quit s0 ls = true -> ginv s).
  { clear. intro ls. induction ls as [|l r IH]; simpl; intros s0 s I H Hg; [inversion H; subst; assumption|].
    destruct (rstep s0 l) eqn:E; [|discriminate]. apply andb_true_iff in Hg. destruct Hg as [Hg1 Hg2].
    apply Bool.negb_true_iff in Hg1. eapply IH; [eapply ginv_step; eauto|exact H|exact Hg2]. }
  intros Hrun Hg [El Hex]. pose proof (G _ _ _ ginv_init Hrun Hg) as I. unfold ginv in I.
  pose proof (lookup_send_pos _ _ El) as Hpos.
  destruct (r_stopped s); [destruct I as [[_ [_ [_ [I4 _]]]]|[I1 _]]; [congruence|lia]|destruct I as [I1 _]; lia].
Qed.
