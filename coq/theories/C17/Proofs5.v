(* C17/Proofs5.v -- the refresh debouncer (after the repair of F-C17-1: stop() only closes quit):
   stop() never blocks; once quit is closed the flusher returns whichever select case it takes;
   nothing is refreshed after stop() took effect. *)
From GocqlV Require Import Lib.Base Gen.Consts C17.Model C17.Spec C17.Proofs1 C17.Proofs2.

Ltac inv_some H := injection H as <-.

(* ---- stop() returns: its own steps are enabled in every state ---- *)
Theorem refresh_stop_returns_lemma s t ph :
  alookup t (r_stoppers s) = Some ph ->
  exists ls' s', (ls' = [] \/ ls' = [RStopClose t] \/ ls' = [RStopLock t] \/ ls' = [RStopLock t; RStopClose t])
    /\ rrun s ls' = Some s' /\ alookup t (r_stoppers s') = Some RSDone.
Proof.
  intro El. destruct ph.
  - destruct (r_stopped s) eqn:Es.
    + exists [RStopLock t]. cbn [rrun rstep]. rewrite El, Es. eexists. split; [tauto|]. split; [reflexivity|].
      unfold set_rstoppers. cbn [r_stoppers]. eapply alookup_aset_same; eauto.
    + exists [RStopLock t; RStopClose t]. cbn [rrun rstep]. rewrite El, Es. cbn [r_stoppers].
      rewrite (alookup_aset_same t RSClose RS0 _ El). eexists. split; [tauto|]. split; [reflexivity|].
      cbn [r_stoppers]. apply (alookup_aset_same t RSDone RSClose). eapply alookup_aset_same; eauto.
  - exists [RStopClose t]. cbn [rrun rstep]. rewrite El. eexists. split; [tauto|]. split; [reflexivity|].
    cbn [r_stoppers]. eapply alookup_aset_same; eauto.
  - exists []. eexists. split; [tauto|]. split; [reflexivity|assumption].
Qed.

(* ---- a stop() call about to close quit has set stopped ---- *)
Definition cinv (s : rdeb) : Prop := forall t, alookup t (r_stoppers s) = Some RSClose -> r_stopped s = true.

Lemma alookup_aset_inv {A} k (v : A) l k2 v2 : alookup k2 (aset k v l) = Some v2 -> (k2 = k /\ v2 = v) \/ alookup k2 l = Some v2.
Proof.
  induction l as [|[k' v'] r IH]; simpl; [discriminate|].
  destruct (Nat.eqb_spec k' k) as [->|Hne]; simpl.
  - destruct (Nat.eqb_spec k k2) as [->|Hne2]; intro H; [left; split; congruence|now right].
  - destruct (Nat.eqb_spec k' k2); [now right|exact IH].
Qed.

Lemma alookup_app_inv {A} k (l1 l2 : list (nat * A)) v : alookup k (l1 ++ l2) = Some v -> alookup k l1 = Some v \/ alookup k l2 = Some v.
Proof.
  induction l1 as [|[k' v'] r IH]; simpl; [now right|].
  destruct (Nat.eqb k' k); [now left|exact IH].
Qed.

Lemma cinv_step s l s' : cinv s -> rstep s l = Some s' -> cinv s'.
Proof.
  intros I H. unfold cinv in *. destruct l as [| | |src| | |t|t|t]; cbn [rstep] in H.
  - destruct (r_stopped s) eqn:Es; inv_some H; cbn [r_stopped r_stoppers]; rewrite ?Es; auto.
  - destruct (r_armed s); [|discriminate]. inv_some H; cbn [r_stopped r_stoppers]; auto.
  - destruct (r_bc s); inv_some H; cbn [r_stopped r_stoppers]; auto.
  - destruct (r_fl s); try discriminate. destruct src.
    + destruct (r_now s); [|discriminate]. inv_some H; cbn [r_stopped r_stoppers]; auto.
    + destruct (r_timerc s); [|discriminate]. inv_some H; cbn [r_stopped r_stoppers]; auto.
    + destruct (r_quit_closed s); [|discriminate]. inv_some H. unfold set_rfl; cbn [r_stopped r_stoppers]; auto.
  - destruct (r_fl s); try discriminate. destruct (r_stopped s) eqn:Es; inv_some H; cbn [r_stopped r_stoppers]; auto.
  - destruct (r_fl s); try discriminate. inv_some H; cbn [r_stopped r_stoppers]; auto.
  - destruct (memb t (akeys (r_stoppers s))); [discriminate|]. inv_some H. unfold set_rstoppers; cbn [r_stopped r_stoppers].
    intros t0 Ht0. apply alookup_app_inv in Ht0. destruct Ht0 as [Ht0|Ht0]; [eauto|].
    simpl in Ht0. destruct (Nat.eqb t t0); discriminate.
  - destruct (alookup t (r_stoppers s)) as [[| |]|] eqn:El; try discriminate.
    destruct (r_stopped s) eqn:Es; inv_some H; [unfold set_rstoppers|]; cbn [r_stopped r_stoppers]; auto.
  - destruct (alookup t (r_stoppers s)) as [[| |]|] eqn:El; try discriminate. inv_some H. cbn [r_stopped r_stoppers].
    intros t0 Ht0. apply alookup_aset_inv in Ht0. destruct Ht0 as [[_ Hd]|Ht0]; [discriminate|eauto].
Qed.

(* ---- once stopped, quit is closed or the stop() call that set stopped is about to close it ---- *)
Definition qinv (s : rdeb) : Prop :=
  (r_quit_closed s = true -> r_stopped s = true)
  /\ (r_stopped s = true -> r_quit_closed s = true \/ exists t, alookup t (r_stoppers s) = Some RSClose).

Lemma qinv_init : qinv rdeb_init.
Proof. split; simpl; discriminate. Qed.

Lemma qinv_step s l s' : cinv s -> qinv s -> rstep s l = Some s' -> qinv s'.
Proof.
  intros IC [I1 I2] H. unfold qinv. destruct l as [| | |src| | |t|t|t]; cbn [rstep] in H.
  - destruct (r_stopped s) eqn:Es; inv_some H; cbn [r_stopped r_quit_closed r_stoppers]; rewrite ?Es; auto.
  - destruct (r_armed s); [|discriminate]. inv_some H; cbn [r_stopped r_quit_closed r_stoppers]; auto.
  - destruct (r_bc s); inv_some H; cbn [r_stopped r_quit_closed r_stoppers]; auto.
  - destruct (r_fl s); try discriminate. destruct src.
    + destruct (r_now s); [|discriminate]. inv_some H; cbn [r_stopped r_quit_closed r_stoppers]; auto.
    + destruct (r_timerc s); [|discriminate]. inv_some H; cbn [r_stopped r_quit_closed r_stoppers]; auto.
    + destruct (r_quit_closed s) eqn:Eq; [|discriminate]. inv_some H. unfold set_rfl; cbn [r_stopped r_quit_closed r_stoppers].
      rewrite ?Eq. auto.
  - destruct (r_fl s); try discriminate. destruct (r_stopped s) eqn:Es; inv_some H; cbn [r_stopped r_quit_closed r_stoppers].
    + auto.
    + split; [intro Hq; specialize (I1 Hq); discriminate|discriminate].
  - destruct (r_fl s); try discriminate. inv_some H; cbn [r_stopped r_quit_closed r_stoppers]; auto.
  - destruct (memb t (akeys (r_stoppers s))); [discriminate|]. inv_some H. unfold set_rstoppers; cbn [r_stopped r_quit_closed r_stoppers].
    split; [assumption|]. intro Hs. destruct (I2 Hs) as [Hq|[t0 Ht0]]; [now left|right]. exists t0. now apply alookup_app_in.
  - destruct (alookup t (r_stoppers s)) as [[| |]|] eqn:El; try discriminate.
    destruct (r_stopped s) eqn:Es; inv_some H.
    + unfold set_rstoppers; cbn [r_stopped r_quit_closed r_stoppers]. rewrite ?Es. split; [assumption|].
      intro Hs. destruct (I2 Hs) as [Hq|[t0 Ht0]]; [now left|right]. exists t0.
      rewrite alookup_aset_other; [assumption|]. intro; subst; congruence.
    + cbn [r_stopped r_quit_closed r_stoppers]. split; [reflexivity|]. intros _. right. exists t. eapply alookup_aset_same; eauto.
  - destruct (alookup t (r_stoppers s)) as [[| |]|] eqn:El; try discriminate. inv_some H. cbn [r_stopped r_quit_closed r_stoppers].
    split; [|now left]. intros _. exact (IC t El).
Qed.

Lemma cq_run ls : forall s0 s, cinv s0 -> qinv s0 -> rrun s0 ls = Some s -> cinv s /\ qinv s.
Proof.
  induction ls as [|l r IH]; simpl; intros s0 s IC IQ H; [inversion H; subst; auto|].
  destruct (rstep s0 l) eqn:E; [|discriminate]. eapply IH; [eapply cinv_step; eauto|eapply qinv_step; eauto|exact H].
Qed.

(* ---- the flusher returns after stop(): quit gets closed, then whatever the select takes, the
   flusher sees stopped ---- *)
Theorem flusher_exits_lemma ls s :
  rrun rdeb_init ls = Some s -> r_stopped s = true ->
  (r_quit_closed s = true \/ exists t s1, rstep s (RStopClose t) = Some s1 /\ r_quit_closed s1 = true /\ r_fl s1 = r_fl s)
  /\ (forall src s1, rstep s (RFlWake src) = Some s1 -> exists s2, rstep s1 RFlLock = Some s2 /\ r_fl s2 = RExited)
  /\ (r_quit_closed s = true -> r_fl s <> RExited ->
      exists ls' s', (ls' = [RFlLock] \/ ls' = [RFlWake SQuit; RFlLock] \/ ls' = [RFlDone; RFlWake SQuit; RFlLock])
        /\ rrun s ls' = Some s' /\ r_fl s' = RExited).
Proof.
  intros Hrun Hs. assert (IC0 : cinv rdeb_init) by (intros t Ht; discriminate).
  destruct (cq_run _ _ _ IC0 qinv_init Hrun) as [IC [I1 I2]].
  split; [|split].
  - destruct (I2 Hs) as [Hq|[t Ht]]; [now left|right]. exists t. cbn [rstep]. rewrite Ht. eexists. split; [reflexivity|]. split; reflexivity.
  - intros src s1 H. cbn [rstep] in H. destruct (r_fl s) eqn:Ef; try discriminate.
    destruct src.
    + destruct (r_now s); [|discriminate]. inv_some H. cbn [rstep r_fl r_stopped]. rewrite Hs. eexists. split; reflexivity.
    + destruct (r_timerc s); [|discriminate]. inv_some H. cbn [rstep r_fl r_stopped]. rewrite Hs. eexists. split; reflexivity.
    + destruct (r_quit_closed s); [|discriminate]. inv_some H. unfold set_rfl. cbn [rstep r_fl r_stopped]. rewrite Hs. eexists. split; reflexivity.
  - intros Hq Hne. destruct (r_fl s) as [|src|w|] eqn:Ef; [| | |congruence].
    + exists [RFlWake SQuit; RFlLock]. cbn [rrun rstep]. rewrite Ef, Hq. unfold set_rfl. cbn [rstep r_fl r_stopped]. rewrite Hs.
      eexists. split; [tauto|]. split; reflexivity.
    + exists [RFlLock]. cbn [rrun rstep]. rewrite Ef, Hs. eexists. split; [tauto|]. split; reflexivity.
    + exists [RFlDone; RFlWake SQuit; RFlLock]. cbn [rrun rstep]. rewrite Ef. cbn [rstep r_fl r_quit_closed]. rewrite Hq.
      unfold set_rfl. cbn [rstep r_fl r_stopped]. rewrite Hs. eexists. split; [tauto|]. split; reflexivity.
Qed.

(* ---- nothing is refreshed once stop() has taken effect ---- *)
Lemma stopped_step s l s' : r_stopped s = true -> rstep s l = Some s' -> r_stopped s' = true /\ r_calls s' = r_calls s.
Proof.
  intros Hs H. destruct l as [| | |src| | |t|t|t]; cbn [rstep] in H.
  - rewrite Hs in H. inv_some H. auto.
  - destruct (r_armed s); try discriminate; inv_some H. auto.
  - destruct (r_bc s); inv_some H; auto.
  - destruct (r_fl s); try discriminate. destruct src.
    + destruct (r_now s); try discriminate; inv_some H; auto.
    + destruct (r_timerc s); try discriminate; inv_some H; auto.
    + destruct (r_quit_closed s); try discriminate; inv_some H; auto.
  - destruct (r_fl s); try discriminate. rewrite Hs in H. inv_some H. auto.
  - destruct (r_fl s); try discriminate. inv_some H. auto.
  - destruct (memb t (akeys (r_stoppers s))); try discriminate; inv_some H. auto.
  - destruct (alookup t (r_stoppers s)) as [[| |]|]; try discriminate. rewrite Hs in H. inv_some H. auto.
  - destruct (alookup t (r_stoppers s)) as [[| |]|]; try discriminate. inv_some H. auto.
Qed.

Theorem no_refresh_after_stop_lemma s ls s' : r_stopped s = true -> rrun s ls = Some s' -> r_calls s' = r_calls s.
Proof.
  revert s. induction ls as [|l r IH]; simpl; intros s Hs H; [inversion H; reflexivity|].
  destruct (rstep s l) eqn:E; [|discriminate]. destruct (stopped_step _ _ _ Hs E) as [H1 H2].
  rewrite (IH _ H1 H). exact H2.
Qed.
