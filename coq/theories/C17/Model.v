(* C17/Model.v -- executable models (no proofs) of
     - hostConnPool (connectionpool.go): fill / connectMany / connect / HandleError / Close,
     - refreshDebouncer (host_source.go) and eventDebouncer (events.go),
     - the order of Session.Close (session.go).
   Each is a labelled transition system [step : state -> label -> option state]; one label is one
   atomic action of the Go code: one critical section of the pool / debouncer mutex, one channel
   operation, one completion of a dial.  Threads (goroutines) are entries of association lists keyed
   by a thread id chosen by the label that spawns them, so any number of goroutines may be inside
   any function at once.  The environment (the network, timers, callers) is a set of labels that are
   enabled whenever the real environment could act. *)
From GocqlV Require Import Lib.Base Gen.Consts.

(* ---------------------------------------------------------------------------------------- *)
(* association lists keyed by nat, small list helpers                                        *)

Fixpoint alookup {A} (k : nat) (l : list (nat * A)) : option A :=
  match l with
  | [] => None
  | (k', v) :: r => if Nat.eqb k' k then Some v else alookup k r
  end.

Fixpoint aremove {A} (k : nat) (l : list (nat * A)) : list (nat * A) :=
  match l with
  | [] => []
  | (k', v) :: r => if Nat.eqb k' k then r else (k', v) :: aremove k r
  end.

Fixpoint aset {A} (k : nat) (v : A) (l : list (nat * A)) : list (nat * A) :=
  match l with
  | [] => []
  | (k', v') :: r => if Nat.eqb k' k then (k', v) :: r else (k', v') :: aset k v r
  end.

Definition akeys {A} (l : list (nat * A)) : list nat := map fst l.

Definition memb (x : nat) (l : list nat) : bool := existsb (Nat.eqb x) l.
Definition remn (x : nat) (l : list nat) : list nat := filter (fun y => negb (Nat.eqb y x)) l.

(* Go: conns[i], conns = conns[len-1], conns[:len-1]  for the first i with conns[i] == c
   (HandleError: "remove the connection, not preserving order") *)
Fixpoint remove_swap (c : nat) (l : list nat) : list nat :=
  match l with
  | [] => []
  | x :: r => if Nat.eqb x c
              then match r with [] => [] | _ :: _ => last r x :: removelast r end
              else x :: remove_swap c r
  end.

(* ======================================================================================== *)
(* 1. hostConnPool                                                                          *)

(* a goroutine inside fill() *)
Inductive fphase :=
| F0                   (* fill() entered *)
| F1                   (* first check passed under the read lock, read lock released (trace point 1701) *)
| FSync (rem : Z)      (* pool.filling set by this goroutine; startCount was 0: the first connect runs
                          synchronously; rem = fillCount-1 connections to make afterwards *)
| FGo (rem : Z)        (* about to start the goroutine that runs connectMany(rem) *)
| FWait.               (* connectMany: wg.Wait(), then fillingStopped *)

(* a goroutine inside connect() *)
Inductive tphase :=
| TDial                (* inside session.connect (dial + handshake) *)
| THave (c : nat).     (* connection c established (trace point 1702), pool lock not yet taken *)

Record pool := mkPool {
  p_size : Z;                              (* pool.size *)
  p_conns : list nat;                      (* pool.conns (connection ids) *)
  p_closed : bool;                         (* pool.closed *)
  p_filling : bool;                        (* pool.filling *)
  p_threads : list (nat * fphase);         (* goroutines inside fill *)
  p_tasks : list (nat * (nat * tphase));   (* goroutines inside connect: task id -> (owning fill thread, phase) *)
  p_closing : list nat;                    (* Close: connections taken out of the pool, still to be closed *)
  p_open : list nat;                       (* ghost: connections that are open (dialled, not closed) *)
  p_dead : list nat;                       (* ghost: connections closed by an error whose HandleError call is still to come *)
  p_next_conn : nat;                       (* ghost: number of connections ever established *)
  p_next_task : nat                        (* ghost: number of connects ever started *)
}.

Definition pool_init (size : Z) : pool :=
  mkPool size [] false false [] [] [] [] [] 0 0.

Inductive plabel :=
| FillStart (t : nat)        (* somebody calls fill(): Pick, HandleError, addHost *)
| FillCheck (t : nat)        (* RLock; closed || filling ? ; fillCount <= 0 ? ; RUnlock *)
| FillDecide (t : nat)       (* Lock; re-check; filling = true; Unlock *)
| FillAsync (t : nat)        (* go connectMany(fillCount): the connects are started *)
| FillStopped (t : nat)      (* all connects returned: fillingStopped: Lock; filling = false; Unlock *)
| DialOk (k : nat)           (* session.connect returned a connection *)
| DialFail (k : nat)         (* session.connect returned an error *)
| KsFail (k : nat)           (* UseKeyspace failed: conn.Close(); return err *)
| ConnectAdd (k : nat)       (* Lock; closed ? conn.Close() : conn.Closed() ? return err : append; Unlock *)
| ConnDie (c : nat)          (* the connection fails -- read error, write error, failed heartbeats, or more than
                               TimeoutLimit request timeouts (handleTimeout) --: Conn.closeWithError(err) closes it *)
| HErr (c : nat) (t : nat)   (* ... and then calls pool.HandleError(c, err, true): Lock; remove; go fill() as thread t *)
| PClose                     (* pool.Close(): Lock; closed ? return : closed = true, take conns; Unlock *)
| PCloseConn.                (* ... conn.Close() for the next connection taken *)

Definition is_active (ph : fphase) : bool :=
  match ph with FSync _ | FGo _ | FWait => true | _ => false end.

Definition set_threads (s : pool) th := mkPool (p_size s) (p_conns s) (p_closed s) (p_filling s) th (p_tasks s) (p_closing s) (p_open s) (p_dead s) (p_next_conn s) (p_next_task s).
Definition set_tasks (s : pool) tk := mkPool (p_size s) (p_conns s) (p_closed s) (p_filling s) (p_threads s) tk (p_closing s) (p_open s) (p_dead s) (p_next_conn s) (p_next_task s).

(* [n] new connect goroutines owned by fill thread [t], task ids first, first+1, ... *)
Fixpoint new_tasks (t : nat) (first : nat) (n : nat) : list (nat * (nat * tphase)) :=
  match n with
  | O => []
  | S n' => (first, (t, TDial)) :: new_tasks t (S first) n'
  end.

Definition owns (t : nat) (e : nat * (nat * tphase)) : bool := Nat.eqb (fst (snd e)) t.

(* a connect owned by [t] returned ([ok] = without error): the synchronous first connect decides
   how fill goes on; connectMany just counts down its WaitGroup *)
Definition notify (t : nat) (ok : bool) (th : list (nat * fphase)) : list (nat * fphase) :=
  match alookup t th with
  | Some (FSync rem) => aset t (if ok then FGo rem else FWait) th
  | _ => th
  end.

Definition pstep (s : pool) (l : plabel) : option pool :=
  match l with
  | FillStart t =>
      if memb t (akeys (p_threads s)) then None
      else Some (set_threads s (p_threads s ++ [(t, F0)]))
  | FillCheck t =>
      match alookup t (p_threads s) with
      | Some F0 =>
          if p_closed s || p_filling s then Some (set_threads s (aremove t (p_threads s)))
          else if p_size s - Z.of_nat (length (p_conns s)) <=? 0 then Some (set_threads s (aremove t (p_threads s)))
          else Some (set_threads s (aset t F1 (p_threads s)))
      | _ => None
      end
  | FillDecide t =>
      match alookup t (p_threads s) with
      | Some F1 =>
          let start := length (p_conns s) in
          let fc := p_size s - Z.of_nat start in
          if p_closed s || p_filling s || (fc <=? 0) then Some (set_threads s (aremove t (p_threads s)))
          else match start with
               | O => Some (mkPool (p_size s) (p_conns s) (p_closed s) true
                              (aset t (FSync (fc - 1)) (p_threads s))
                              (p_tasks s ++ [(p_next_task s, (t, TDial))])
                              (p_closing s) (p_open s) (p_dead s) (p_next_conn s) (S (p_next_task s)))
               | S _ => Some (mkPool (p_size s) (p_conns s) (p_closed s) true
                              (aset t (FGo fc) (p_threads s))
                              (p_tasks s) (p_closing s) (p_open s) (p_dead s) (p_next_conn s) (p_next_task s))
               end
      | _ => None
      end
  | FillAsync t =>
      match alookup t (p_threads s) with
      | Some (FGo rem) =>
          let n := Z.to_nat rem in
          Some (mkPool (p_size s) (p_conns s) (p_closed s) (p_filling s)
                  (aset t FWait (p_threads s))
                  (p_tasks s ++ new_tasks t (p_next_task s) n)
                  (p_closing s) (p_open s) (p_dead s) (p_next_conn s) (p_next_task s + n))
      | _ => None
      end
  | FillStopped t =>
      match alookup t (p_threads s) with
      | Some FWait =>
          if existsb (owns t) (p_tasks s) then None
          else Some (mkPool (p_size s) (p_conns s) (p_closed s) false
                       (aremove t (p_threads s)) (p_tasks s)
                       (p_closing s) (p_open s) (p_dead s) (p_next_conn s) (p_next_task s))
      | _ => None
      end
  | DialOk k =>
      match alookup k (p_tasks s) with
      | Some (t, TDial) =>
          let c := p_next_conn s in
          Some (mkPool (p_size s) (p_conns s) (p_closed s) (p_filling s) (p_threads s)
                  (aset k (t, THave c) (p_tasks s))
                  (p_closing s) (p_open s ++ [c]) (p_dead s) (S c) (p_next_task s))
      | _ => None
      end
  | DialFail k =>
      match alookup k (p_tasks s) with
      | Some (t, TDial) =>
          Some (mkPool (p_size s) (p_conns s) (p_closed s) (p_filling s) (notify t false (p_threads s))
                  (aremove k (p_tasks s))
                  (p_closing s) (p_open s) (p_dead s) (p_next_conn s) (p_next_task s))
      | _ => None
      end
  | KsFail k =>
      match alookup k (p_tasks s) with
      | Some (t, THave c) =>
          Some (mkPool (p_size s) (p_conns s) (p_closed s) (p_filling s) (notify t false (p_threads s))
                  (aremove k (p_tasks s))
                  (p_closing s) (remn c (p_open s)) (p_dead s) (p_next_conn s) (p_next_task s))
      | _ => None
      end
  | ConnectAdd k =>
      match alookup k (p_tasks s) with
      | Some (t, THave c) =>
          if p_closed s
          then Some (mkPool (p_size s) (p_conns s) (p_closed s) (p_filling s) (notify t true (p_threads s))
                       (aremove k (p_tasks s))
                       (p_closing s) (remn c (p_open s)) (p_dead s) (p_next_conn s) (p_next_task s))
          else if negb (memb c (p_open s))
          (* conn.Closed(): the connection failed while connect held it: not pooled, return ErrConnectionClosed *)
          then Some (mkPool (p_size s) (p_conns s) (p_closed s) (p_filling s) (notify t false (p_threads s))
                       (aremove k (p_tasks s))
                       (p_closing s) (p_open s) (p_dead s) (p_next_conn s) (p_next_task s))
          else Some (mkPool (p_size s) (p_conns s ++ [c]) (p_closed s) (p_filling s) (notify t true (p_threads s))
                       (aremove k (p_tasks s))
                       (p_closing s) (p_open s) (p_dead s) (p_next_conn s) (p_next_task s))
      | _ => None
      end
  | ConnDie c =>
      if memb c (p_open s)
      then Some (mkPool (p_size s) (p_conns s) (p_closed s) (p_filling s) (p_threads s) (p_tasks s)
                   (p_closing s) (remn c (p_open s)) (p_dead s ++ [c]) (p_next_conn s) (p_next_task s))
      else None
  | HErr c t =>
      if memb c (p_dead s)
      then if p_closed s
           then Some (mkPool (p_size s) (p_conns s) (p_closed s) (p_filling s) (p_threads s) (p_tasks s)
                        (p_closing s) (p_open s) (remn c (p_dead s)) (p_next_conn s) (p_next_task s))
           else if memb c (p_conns s)
           then if memb t (akeys (p_threads s)) then None
                else Some (mkPool (p_size s) (remove_swap c (p_conns s)) (p_closed s) (p_filling s)
                             (p_threads s ++ [(t, F0)]) (p_tasks s)
                             (p_closing s) (p_open s) (remn c (p_dead s)) (p_next_conn s) (p_next_task s))
           else Some (mkPool (p_size s) (p_conns s) (p_closed s) (p_filling s) (p_threads s) (p_tasks s)
                        (p_closing s) (p_open s) (remn c (p_dead s)) (p_next_conn s) (p_next_task s))
      else None
  | PClose =>
      if p_closed s then Some s
      else Some (mkPool (p_size s) [] true (p_filling s) (p_threads s) (p_tasks s)
                   (p_closing s ++ p_conns s) (p_open s) (p_dead s) (p_next_conn s) (p_next_task s))
  | PCloseConn =>
      match p_closing s with
      | c :: r => Some (mkPool (p_size s) (p_conns s) (p_closed s) (p_filling s) (p_threads s) (p_tasks s)
                          r (remn c (p_open s)) (p_dead s) (p_next_conn s) (p_next_task s))
      | [] => None
      end
  end.

Fixpoint prun (s : pool) (ls : list plabel) : option pool :=
  match ls with
  | [] => Some s
  | l :: r => match pstep s l with Some s' => prun s' r | None => None end
  end.

(* connections held by connect goroutines that have not yet taken the pool lock *)
Definition in_hand (s : pool) : list nat :=
  flat_map (fun e => match snd (snd e) with THave c => [c] | TDial => [] end) (p_tasks s).

Definition n_dialing (s : pool) : nat :=
  length (filter (fun e => match snd (snd e) with TDial => true | _ => false end) (p_tasks s)).

Definition n_active (th : list (nat * fphase)) : nat := length (filter (fun e => is_active (snd e)) th).
Definition n_f1 (th : list (nat * fphase)) : nat :=
  length (filter (fun e => match snd e with F1 => true | _ => false end) th).

(* nothing of the pool's own is in progress *)
Definition p_quiescent (s : pool) : bool :=
  match p_threads s, p_tasks s, p_closing s, p_dead s with
  | [], [], [], [] => true
  | _, _, _, _ => false
  end.

(* labels of the pool's own goroutines ("internal": everything except new calls of fill/Close and
   connection failures, which the environment decides) *)
Definition p_internal (l : plabel) : bool :=
  match l with
  | FillStart _ | ConnDie _ | PClose => false
  | _ => true
  end.

(* what the harness observes after every step: conns (as connection ids, in pool order), filling,
   closed, connects inside the dialer, connects holding a connection, fills in the check-recheck
   window, connections ever opened, connections closed *)
Definition p_obs (s : pool) : list Z :=
  [ Z.b2z (p_filling s); Z.b2z (p_closed s);
    Z.of_nat (n_dialing s); Z.of_nat (length (in_hand s)); Z.of_nat (n_f1 (p_threads s));
    Z.of_nat (p_next_conn s); Z.of_nat (p_next_conn s - length (p_open s)) ]
  ++ map Z.of_nat (p_conns s).

(* ======================================================================================== *)
(* 2. refreshDebouncer (host_source.go)                                                     *)

Inductive rsrc := SNow | STimer | SQuit.

Inductive rfl :=
| RSelect                      (* blocked in select {refreshNowCh, timer.C, quit} *)
| RWoke (src : rsrc)           (* a case fired, d.mu not yet taken *)
| RRefresh (waiters : option nat)   (* inside refreshFn; curBroadcaster (None = nil) with that many listeners *)
| RExited.                     (* returned *)

Inductive rsp :=
| RS0                          (* stop() entered *)
| RSClose                      (* stopped set by this call; close(d.quit) next *)
| RSDone.                      (* returned *)

Record rdeb := mkR {
  r_stopped : bool;            (* d.stopped *)
  r_now : bool;                (* refreshNowCh (capacity 1) holds a token *)
  r_armed : bool;              (* d.timer is running *)
  r_timerc : bool;             (* d.timer.C (capacity 1) holds a value *)
  r_bc : option nat;           (* d.broadcaster: None = nil, Some n = n listeners *)
  r_fl : rfl;                  (* the flusher goroutine *)
  r_quit_closed : bool;
  r_stoppers : list (nat * rsp);   (* goroutines inside stop() *)
  r_calls : nat;               (* ghost: refreshFn invocations *)
  r_served : nat;              (* ghost: listeners that were sent the result of a refresh *)
  r_cancelled : nat            (* ghost: listeners closed without a result (flusher saw stopped) *)
}.

Definition rdeb_init : rdeb := mkR false false false false None RSelect false [] 0 0 0.

Inductive rlabel :=
| RDebounce                    (* debounce(): Lock; stopped ? return : timer.Reset *)
| RTimerFire                   (* the runtime: timer expires, value sent to timer.C (dropped if full) *)
| RRefreshNow                  (* refreshNow(): Lock; broadcaster==nil ? new + non-blocking send; newListener *)
| RFlWake (src : rsrc)         (* flusher: select takes a case; SQuit: receive from the closed quit channel *)
| RFlLock                      (* flusher: Lock; stopped ? (stop broadcaster; return) : drain, take broadcaster; Unlock; refreshFn starts *)
| RFlDone                      (* flusher: refreshFn returned; broadcast; back to select *)
| RStopCall (t : nat)
| RStopLock (t : nat)          (* stop(): Lock; stopped ? return : stopped = true; Unlock *)
| RStopClose (t : nat).        (* stop(): close(d.quit); return (it does not wait for the flusher) *)

Definition set_rfl (s : rdeb) f := mkR (r_stopped s) (r_now s) (r_armed s) (r_timerc s) (r_bc s) f (r_quit_closed s) (r_stoppers s) (r_calls s) (r_served s) (r_cancelled s).
Definition set_rstoppers (s : rdeb) st := mkR (r_stopped s) (r_now s) (r_armed s) (r_timerc s) (r_bc s) (r_fl s) (r_quit_closed s) st (r_calls s) (r_served s) (r_cancelled s).

Definition onat (o : option nat) : nat := match o with Some n => n | None => 0 end.

Definition rstep (s : rdeb) (l : rlabel) : option rdeb :=
  match l with
  | RDebounce =>
      if r_stopped s then Some s
      else Some (mkR (r_stopped s) (r_now s) true (r_timerc s) (r_bc s) (r_fl s) (r_quit_closed s) (r_stoppers s) (r_calls s) (r_served s) (r_cancelled s))
  | RTimerFire =>
      if r_armed s
      then Some (mkR (r_stopped s) (r_now s) false true (r_bc s) (r_fl s) (r_quit_closed s) (r_stoppers s) (r_calls s) (r_served s) (r_cancelled s))
      else None
  | RRefreshNow =>
      match r_bc s with
      | None => Some (mkR (r_stopped s) true (r_armed s) (r_timerc s) (Some 1%nat) (r_fl s) (r_quit_closed s) (r_stoppers s) (r_calls s) (r_served s) (r_cancelled s))
      | Some n => Some (mkR (r_stopped s) (r_now s) (r_armed s) (r_timerc s) (Some (S n)) (r_fl s) (r_quit_closed s) (r_stoppers s) (r_calls s) (r_served s) (r_cancelled s))
      end
  | RFlWake src =>
      match r_fl s with
      | RSelect =>
          match src with
          | SNow => if r_now s
                    then Some (mkR (r_stopped s) false (r_armed s) (r_timerc s) (r_bc s) (RWoke SNow) (r_quit_closed s) (r_stoppers s) (r_calls s) (r_served s) (r_cancelled s))
                    else None
          | STimer => if r_timerc s
                    then Some (mkR (r_stopped s) (r_now s) (r_armed s) false (r_bc s) (RWoke STimer) (r_quit_closed s) (r_stoppers s) (r_calls s) (r_served s) (r_cancelled s))
                    else None
          | SQuit => if r_quit_closed s then Some (set_rfl s (RWoke SQuit)) else None
          end
      | _ => None
      end
  | RFlLock =>
      match r_fl s with
      | RWoke _ =>
          if r_stopped s
          then Some (mkR true (r_now s) false (r_timerc s) None RExited (r_quit_closed s) (r_stoppers s)
                       (r_calls s) (r_served s) (r_cancelled s + onat (r_bc s)))
          else Some (mkR false false false false None (RRefresh (r_bc s)) (r_quit_closed s) (r_stoppers s)
                       (S (r_calls s)) (r_served s) (r_cancelled s))
      | _ => None
      end
  | RFlDone =>
      match r_fl s with
      | RRefresh w => Some (mkR (r_stopped s) (r_now s) (r_armed s) (r_timerc s) (r_bc s) RSelect (r_quit_closed s) (r_stoppers s)
                              (r_calls s) (r_served s + onat w) (r_cancelled s))
      | _ => None
      end
  | RStopCall t =>
      if memb t (akeys (r_stoppers s)) then None
      else Some (set_rstoppers s (r_stoppers s ++ [(t, RS0)]))
  | RStopLock t =>
      match alookup t (r_stoppers s) with
      | Some RS0 =>
          if r_stopped s then Some (set_rstoppers s (aset t RSDone (r_stoppers s)))
          else Some (mkR true (r_now s) (r_armed s) (r_timerc s) (r_bc s) (r_fl s) (r_quit_closed s)
                       (aset t RSClose (r_stoppers s)) (r_calls s) (r_served s) (r_cancelled s))
      | _ => None
      end
  | RStopClose t =>
      match alookup t (r_stoppers s) with
      | Some RSClose => Some (mkR (r_stopped s) (r_now s) (r_armed s) (r_timerc s) (r_bc s) (r_fl s) true
                                (aset t RSDone (r_stoppers s)) (r_calls s) (r_served s) (r_cancelled s))
      | _ => None
      end
  end.

Fixpoint rrun (s : rdeb) (ls : list rlabel) : option rdeb :=
  match ls with
  | [] => Some s
  | l :: r => match rstep s l with Some s' => rrun s' r | None => None end
  end.

Definition rsp_eqb (a b : rsp) : bool :=
  match a, b with RS0, RS0 | RSClose, RSClose | RSDone, RSDone => true | _, _ => false end.
Definition n_in (p : rsp) (st : list (nat * rsp)) : nat := length (filter (fun e => rsp_eqb (snd e) p) st).

(* ======================================================================================== *)
(* 3. eventDebouncer (events.go)                                                            *)

Inductive efl := ESelect | EWoke | EExited.    (* EWoke: timer case taken, e.mu not yet taken *)
Inductive esp := ESSend | ESClose | ESDone | ESPanic.

Record edeb := mkE {
  e_events : Z;                 (* len(e.events) *)
  e_armed : bool;
  e_timerc : bool;
  e_fl : efl;
  e_quit_closed : bool;
  e_stoppers : list (nat * esp);
  e_batches : list Z;           (* ghost: sizes of the batches handed to the callback, oldest first *)
  e_dropped : Z                 (* ghost: frames dropped because the buffer was full *)
}.

Definition edeb_init : edeb := mkE 0 false false ESelect false [] [] 0.

Inductive elabel :=
| EDebounce                     (* debounce(frame): Lock; timer.Reset; append unless full; Unlock *)
| ETimerFire
| EFlWakeTimer                  (* flusher: case <-e.timer.C *)
| EFlFlush                      (* flusher: Lock; flush(); Unlock *)
| EFlWakeQuit (t : nat)         (* flusher: case <-e.quit (the send of stop() call t); return *)
| EStopCall (t : nat)           (* stop(): e.quit <- struct{}{} begins (panics if quit is already closed) *)
| EStopClose (t : nat).         (* stop(): close(e.quit) (panics if already closed; blocked senders panic) *)

Definition esp_send_to_panic (p : esp) : esp := match p with ESSend => ESPanic | _ => p end.

Definition estep (s : edeb) (l : elabel) : option edeb :=
  match l with
  | EDebounce =>
      if e_events s <? K.eventBufferSize
      then Some (mkE (e_events s + 1) true (e_timerc s) (e_fl s) (e_quit_closed s) (e_stoppers s) (e_batches s) (e_dropped s))
      else Some (mkE (e_events s) true (e_timerc s) (e_fl s) (e_quit_closed s) (e_stoppers s) (e_batches s) (e_dropped s + 1))
  | ETimerFire =>
      if e_armed s
      then Some (mkE (e_events s) false true (e_fl s) (e_quit_closed s) (e_stoppers s) (e_batches s) (e_dropped s))
      else None
  | EFlWakeTimer =>
      match e_fl s with
      | ESelect => if e_timerc s
                   then Some (mkE (e_events s) (e_armed s) false EWoke (e_quit_closed s) (e_stoppers s) (e_batches s) (e_dropped s))
                   else None
      | _ => None
      end
  | EFlFlush =>
      match e_fl s with
      | EWoke => if e_events s =? 0
                 then Some (mkE 0 (e_armed s) (e_timerc s) ESelect (e_quit_closed s) (e_stoppers s) (e_batches s) (e_dropped s))
                 else Some (mkE 0 (e_armed s) (e_timerc s) ESelect (e_quit_closed s) (e_stoppers s) (e_batches s ++ [e_events s]) (e_dropped s))
      | _ => None
      end
  | EFlWakeQuit t =>
      match e_fl s with
      | ESelect =>
          match alookup t (e_stoppers s) with
          | Some ESSend => Some (mkE (e_events s) (e_armed s) (e_timerc s) EExited (e_quit_closed s)
                                   (aset t ESClose (e_stoppers s)) (e_batches s) (e_dropped s))
          | _ => if e_quit_closed s
                 then Some (mkE (e_events s) (e_armed s) (e_timerc s) EExited (e_quit_closed s) (e_stoppers s) (e_batches s) (e_dropped s))
                 else None
          end
      | _ => None
      end
  | EStopCall t =>
      if memb t (akeys (e_stoppers s)) then None
      else Some (mkE (e_events s) (e_armed s) (e_timerc s) (e_fl s) (e_quit_closed s)
                   (e_stoppers s ++ [(t, if e_quit_closed s then ESPanic else ESSend)]) (e_batches s) (e_dropped s))
  | EStopClose t =>
      match alookup t (e_stoppers s) with
      | Some ESClose =>
          if e_quit_closed s
          then Some (mkE (e_events s) (e_armed s) (e_timerc s) (e_fl s) true (aset t ESPanic (e_stoppers s)) (e_batches s) (e_dropped s))
          else Some (mkE (e_events s) (e_armed s) (e_timerc s) (e_fl s) true
                       (map (fun e => (fst e, esp_send_to_panic (snd e))) (aset t ESDone (e_stoppers s))) (e_batches s) (e_dropped s))
      | _ => None
      end
  end.

Fixpoint erun (s : edeb) (ls : list elabel) : option edeb :=
  match ls with
  | [] => Some s
  | l :: r => match estep s l with Some s' => erun s' r | None => None end
  end.

Definition esp_eqb (a b : esp) : bool :=
  match a, b with ESSend, ESSend | ESClose, ESClose | ESDone, ESDone | ESPanic, ESPanic => true | _, _ => false end.
Definition en_in (p : esp) (st : list (nat * esp)) : nat := length (filter (fun e => esp_eqb (snd e) p) st).

(* ======================================================================================== *)
(* 4. Session.Close (session.go): the order of the shutdown and the closing / closed flags   *)

(* the calls Close makes, in source order *)
Inductive comp := CPools | CControl | CNodeEvents | CSchemaEvents | CRingRefresher | CCancel.
Definition close_order : list comp := [CPools; CControl; CNodeEvents; CSchemaEvents; CRingRefresher; CCancel].

Inductive sphase :=
| SC0                       (* Close() entered *)
| SCStep (k : nat)          (* isClosing set by this call; k components already shut down *)
| SCDone.                   (* returned *)

Record sess := mkS {
  s_closing : bool;         (* isClosing *)
  s_closed : bool;          (* isClosed *)
  s_closers : list (nat * sphase);
  s_log : list comp         (* ghost: the shutdown calls made so far, oldest first *)
}.

Definition sess_init : sess := mkS false false [] [].

Inductive slabel :=
| SCloseCall (t : nat)
| SCloseFlag (t : nat)      (* Lock; isClosing ? return : isClosing = true; Unlock *)
| SCloseStep (t : nat).     (* the next shutdown call returns; after the last: Lock; isClosed = true; Unlock; return *)

Definition sstep (s : sess) (l : slabel) : option sess :=
  match l with
  | SCloseCall t =>
      if memb t (akeys (s_closers s)) then None
      else Some (mkS (s_closing s) (s_closed s) (s_closers s ++ [(t, SC0)]) (s_log s))
  | SCloseFlag t =>
      match alookup t (s_closers s) with
      | Some SC0 =>
          if s_closing s then Some (mkS (s_closing s) (s_closed s) (aset t SCDone (s_closers s)) (s_log s))
          else Some (mkS true (s_closed s) (aset t (SCStep 0) (s_closers s)) (s_log s))
      | _ => None
      end
  | SCloseStep t =>
      match alookup t (s_closers s) with
      | Some (SCStep k) =>
          match nth_error close_order k with
          | Some c => Some (mkS (s_closing s) (s_closed s) (aset t (SCStep (S k)) (s_closers s)) (s_log s ++ [c]))
          | None => Some (mkS (s_closing s) true (aset t SCDone (s_closers s)) (s_log s))
          end
      | _ => None
      end
  end.

Fixpoint srun (s : sess) (ls : list slabel) : option sess :=
  match ls with
  | [] => Some s
  | l :: r => match sstep s l with Some s' => srun s' r | None => None end
  end.

(* Session.executeQuery / executeBatch / Query.Iter: "fail fast" test of isClosed *)
Inductive qres := QErrSessionClosed | QExecuted.
Definition query (s : sess) : qres := if s_closed s then QErrSessionClosed else QExecuted.

(* ======================================================================================== *)
(* 5. policyConnPool (connectionpool.go): the session's table of host pools.  Host pools are named
      by the order of their creation; what happens inside one is section 1. *)

Record ppool := mkPP {
  pp_closed : bool;               (* policyConnPool.closed (set by Close) *)
  pp_map : list (nat * nat);      (* hostConnPools: host -> pool *)
  pp_detached : list nat;         (* pools taken out of the table by removeHost / SetHosts whose `go pool.Close()` has not run yet *)
  pp_closedpools : list nat;      (* ghost: pools on which hostConnPool.Close has been called *)
  pp_next : nat                   (* ghost: pools ever created *)
}.

Definition ppool_init : ppool := mkPP false [] [] [] 0.

Inductive pplabel :=
| PPAdd (h : nat)        (* addHost (also each host SetHosts creates a pool for): Lock; closed ? return; missing ? create; Unlock; fill *)
| PPRemove (h : nat)     (* removeHost (also each host SetHosts drops): Lock; delete; Unlock; go pool.Close() *)
| PPDetClose             (* ... that pool.Close() runs *)
| PPClose.               (* Close: Lock; closed = true; for every pool: delete, pool.Close(); Unlock *)

Definition ppstep (s : ppool) (l : pplabel) : option ppool :=
  match l with
  | PPAdd h =>
      if pp_closed s then Some s
      else match alookup h (pp_map s) with
           | Some _ => Some s
           | None => Some (mkPP (pp_closed s) (pp_map s ++ [(h, pp_next s)]) (pp_detached s) (pp_closedpools s) (S (pp_next s)))
           end
  | PPRemove h =>
      match alookup h (pp_map s) with
      | Some p => Some (mkPP (pp_closed s) (aremove h (pp_map s)) (pp_detached s ++ [p]) (pp_closedpools s) (pp_next s))
      | None => Some s
      end
  | PPDetClose =>
      match pp_detached s with
      | p :: r => Some (mkPP (pp_closed s) (pp_map s) r (pp_closedpools s ++ [p]) (pp_next s))
      | [] => None
      end
  | PPClose => Some (mkPP true [] (pp_detached s) (pp_closedpools s ++ map snd (pp_map s)) (pp_next s))
  end.

Fixpoint pprun (s : ppool) (ls : list pplabel) : option ppool :=
  match ls with
  | [] => Some s
  | l :: r => match ppstep s l with Some s' => pprun s' r | None => None end
  end.

(* ======================================================================================== *)
(* 6. controlConn (control.go): reconnect (called by the heartbeat and by HandleError of the lost
      control connection) against close and the cancellation of the session context.  The heartbeat
      goroutine's own loop and the quit handshake of close are not modelled. *)

Inductive krph :=
| KR0                    (* reconnect() entered *)
| KR1                    (* state was not controlConnClosing *)
| KRDial                 (* reconnecting flag taken, old connection closed, session.connect running *)
| KRHave (c : nat)       (* connected: inside setupConn (system.local, REGISTER) *)
| KRRefresh.             (* connection stored; inside session.refreshRing *)

Record kctl := mkK {
  k_closing : bool;              (* state == controlConnClosing *)
  k_reconnecting : bool;         (* the reconnecting flag *)
  k_stored : option nat;         (* c.conn *)
  k_open : list nat;             (* ghost: control connections that are open *)
  k_next : nat;                  (* ghost: control connections ever made *)
  k_cancelled : bool;            (* the session context is cancelled *)
  k_recs : list (nat * krph);    (* goroutines inside reconnect *)
  k_closeconn : bool;            (* close() has closed the connection it found *)
  k_late : bool                  (* ghost: setupConn stored a connection after close() had closed the one it found *)
}.

Definition kctl_init : kctl := mkK false false (Some 0%nat) [0%nat] 1 false [] false false.

Inductive klabel :=
| KRecStart (t : nat)
| KRecCheck (t : nat)      (* atomic.LoadInt32(&c.state) == controlConnClosing ? return *)
| KRecCAS (t : nat)        (* CAS reconnecting 0 -> 1 fails ? return : attemptReconnect closes the old connection *)
| KDialOk (t : nat)        (* session.connect(c.session.ctx, ...) succeeded (impossible once the context is cancelled) *)
| KDialFail (t : nat)      (* no host could be dialled: reconnecting = 0; return *)
| KSetupOk (t : nat)       (* setupConn: c.conn.Store *)
| KSetupFail (t : nat)     (* setupConn failed: conn.Close(); (no other host) reconnecting = 0; return *)
| KRefreshDone (t : nat)   (* refreshRing returned: reconnecting = 0; return *)
| KCloseState              (* close(): state = controlConnClosing (and the heartbeat goroutine is told to quit) *)
| KCloseConn               (* close(): c.getConn().conn.Close() *)
| KCancel.                 (* Session.Close: s.cancel() *)

Definition kstep (s : kctl) (l : klabel) : option kctl :=
  match l with
  | KRecStart t =>
      if memb t (akeys (k_recs s)) then None
      else Some (mkK (k_closing s) (k_reconnecting s) (k_stored s) (k_open s) (k_next s) (k_cancelled s) (k_recs s ++ [(t, KR0)]) (k_closeconn s) (k_late s))
  | KRecCheck t =>
      match alookup t (k_recs s) with
      | Some KR0 =>
          if k_closing s
          then Some (mkK (k_closing s) (k_reconnecting s) (k_stored s) (k_open s) (k_next s) (k_cancelled s) (aremove t (k_recs s)) (k_closeconn s) (k_late s))
          else Some (mkK (k_closing s) (k_reconnecting s) (k_stored s) (k_open s) (k_next s) (k_cancelled s) (aset t KR1 (k_recs s)) (k_closeconn s) (k_late s))
      | _ => None
      end
  | KRecCAS t =>
      match alookup t (k_recs s) with
      | Some KR1 =>
          if k_reconnecting s
          then Some (mkK (k_closing s) (k_reconnecting s) (k_stored s) (k_open s) (k_next s) (k_cancelled s) (aremove t (k_recs s)) (k_closeconn s) (k_late s))
          else Some (mkK (k_closing s) true (k_stored s)
                       (match k_stored s with Some c => remn c (k_open s) | None => k_open s end)
                       (k_next s) (k_cancelled s) (aset t KRDial (k_recs s)) (k_closeconn s) (k_late s))
      | _ => None
      end
  | KDialOk t =>
      match alookup t (k_recs s) with
      | Some KRDial =>
          if k_cancelled s then None
          else Some (mkK (k_closing s) (k_reconnecting s) (k_stored s) (k_open s ++ [k_next s]) (S (k_next s)) (k_cancelled s)
                       (aset t (KRHave (k_next s)) (k_recs s)) (k_closeconn s) (k_late s))
      | _ => None
      end
  | KDialFail t =>
      match alookup t (k_recs s) with
      | Some KRDial => Some (mkK (k_closing s) false (k_stored s) (k_open s) (k_next s) (k_cancelled s) (aremove t (k_recs s)) (k_closeconn s) (k_late s))
      | _ => None
      end
  | KSetupOk t =>
      match alookup t (k_recs s) with
      | Some (KRHave c) => Some (mkK (k_closing s) (k_reconnecting s) (Some c) (k_open s) (k_next s) (k_cancelled s)
                                   (aset t KRRefresh (k_recs s)) (k_closeconn s) (k_late s || k_closeconn s))
      | _ => None
      end
  | KSetupFail t =>
      match alookup t (k_recs s) with
      | Some (KRHave c) => Some (mkK (k_closing s) false (k_stored s) (remn c (k_open s)) (k_next s) (k_cancelled s)
                                   (aremove t (k_recs s)) (k_closeconn s) (k_late s))
      | _ => None
      end
  | KRefreshDone t =>
      match alookup t (k_recs s) with
      | Some KRRefresh => Some (mkK (k_closing s) false (k_stored s) (k_open s) (k_next s) (k_cancelled s) (aremove t (k_recs s)) (k_closeconn s) (k_late s))
      | _ => None
      end
  | KCloseState => Some (mkK true (k_reconnecting s) (k_stored s) (k_open s) (k_next s) (k_cancelled s) (k_recs s) (k_closeconn s) (k_late s))
  | KCloseConn =>
      Some (mkK (k_closing s) (k_reconnecting s) (k_stored s)
              (match k_stored s with Some c => remn c (k_open s) | None => k_open s end)
              (k_next s) (k_cancelled s) (k_recs s) true (k_late s))
  | KCancel => Some (mkK (k_closing s) (k_reconnecting s) (k_stored s) (k_open s) (k_next s) true (k_recs s) (k_closeconn s) (k_late s))
  end.

Fixpoint krun (s : kctl) (ls : list klabel) : option kctl :=
  match ls with
  | [] => Some s
  | l :: r => match kstep s l with Some s' => krun s' r | None => None end
  end.

Definition k_rec_label (l : klabel) : bool :=
  match l with KRecCheck _ | KRecCAS _ | KDialOk _ | KDialFail _ | KSetupOk _ | KSetupFail _ | KRefreshDone _ => true | _ => false end.

Definition k_in_hand (s : kctl) : list nat :=
  flat_map (fun e => match snd e with KRHave c => [c] | _ => [] end) (k_recs s).
