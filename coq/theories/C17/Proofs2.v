(* C17/Proofs2.v -- the filling invariant of the pool model: at most one goroutine is past the
   re-check, every connect belongs to it, and connections + connects in progress + connects still
   to be started never exceed the pool size.  Consequences: the bound, the single filler. *)
From GocqlV Require Import Lib.Base Gen.Consts C17.Model C17.Proofs1.

Definition act (ph : fphase) : Z := if is_active ph then 1 else 0.
Definition extra (ph : fphase) : Z := match ph with FSync r | FGo r => r | _ => 0 end.

Lemma act_nonneg ph : 0 <= act ph.
Proof. unfold act. destruct (is_active ph); lia. Qed.

Lemma act_pos ph : is_active ph = true <-> 0 < act ph.
Proof. unfold act. destruct (is_active ph); split; intro; try lia; try reflexivity; discriminate. Qed.

Record invA (s : pool) : Prop := {
  a_nd_th : NoDup (akeys (p_threads s));
  a_nd_tk : NoDup (akeys (p_tasks s));
  a_tk_lt : forall k, In k (akeys (p_tasks s)) -> (k < p_next_task s)%nat;
  a_act : zsum act (p_threads s) = if p_filling s then 1 else 0;
  a_owner : forall k o ph, In (k, (o, ph)) (p_tasks s) -> exists pho, In (o, pho) (p_threads s) /\ is_active pho = true;
  a_budget : Z.of_nat (length (p_conns s)) + Z.of_nat (length (p_tasks s)) + zsum extra (p_threads s) <= Z.max 0 (p_size s);
  a_rem : forall t ph, In (t, ph) (p_threads s) -> 0 <= extra ph;
  a_sync : forall t r, In (t, FSync r) (p_threads s) -> exists k ph, In (k, (t, ph)) (p_tasks s)
}.

Lemma invA_init size : invA (pool_init size).
Proof.
  constructor; simpl; try constructor; try tauto; try lia.
Qed.

(* ---- small facts ---- *)
Lemma NoDup_snoc {A} (l : list A) x : NoDup l -> ~ In x l -> NoDup (l ++ [x]).
Proof.
  intros Hnd Hni. induction l as [|y r IH]; simpl.
  - constructor; [tauto|constructor].
  - inversion Hnd; subst. constructor.
    + rewrite in_app_iff. simpl. intros [H|[H|[]]]; [tauto|]. subst. apply Hni. now left.
    + apply IH; auto. intro H. apply Hni. now right.
Qed.

Lemma NoDup_app_seq (l : list nat) f n : NoDup l -> (forall k, In k l -> (k < f)%nat) -> NoDup (l ++ seq f n).
Proof.
  intros Hnd Hlt. induction l as [|x r IH]; simpl; [apply seq_NoDup|].
  inversion Hnd; subst. constructor.
  - rewrite in_app_iff. intros [H|H]; [tauto|]. apply in_seq in H. specialize (Hlt x (or_introl eq_refl)). lia.
  - apply IH; auto. intros k Hk. apply Hlt. now right.
Qed.

Lemma length_aset {A} k (v : A) l : length (aset k v l) = length l.
Proof.
  induction l as [|[k' v'] r IH]; simpl; [reflexivity|].
  destruct (Nat.eqb k' k); simpl; [reflexivity|]. now rewrite IH.
Qed.

Lemma length_aremove {A} k (v : A) l : alookup k l = Some v -> S (length (aremove k l)) = length l.
Proof.
  induction l as [|[k' v'] r IH]; simpl; [discriminate|].
  destruct (Nat.eqb k' k); simpl; intro H; [reflexivity|]. now rewrite (IH H).
Qed.

Lemma akeys_new_tasks t f n : akeys (new_tasks t f n) = seq f n.
Proof. revert f; induction n as [|n IH]; intro f; simpl; [reflexivity|]. now rewrite IH. Qed.

Lemma In_new_tasks e t f n : In e (new_tasks t f n) -> snd e = (t, TDial) /\ (f <= fst e < f + n)%nat.
Proof.
  revert f; induction n as [|n IH]; intro f; simpl; [tauto|].
  intros [E|H]; [subst e; simpl; split; [reflexivity|lia]|].
  apply IH in H. destruct H as [H1 H2]. split; [assumption|lia].
Qed.

Lemma length_new_tasks t f n : length (new_tasks t f n) = n.
Proof. revert f; induction n as [|n IH]; intro f; simpl; [reflexivity|]. now rewrite IH. Qed.

Lemma zsum_extra_zero th : zsum act th = 0 -> zsum extra th = 0.
Proof.
  induction th as [|[t ph] r IH]; simpl; [reflexivity|].
  intro H. pose proof (zsum_nonneg act r act_nonneg) as Hr. pose proof (act_nonneg ph) as Hp.
  assert (Ha : act ph = 0) by lia. assert (Hz : zsum act r = 0) by lia.
  rewrite (IH Hz). unfold act in Ha. destruct ph; simpl in *; try lia.
Qed.

Lemma unique_key {A} (l : list (nat * A)) k v1 v2 : NoDup (akeys l) -> In (k, v1) l -> In (k, v2) l -> v1 = v2.
Proof.
  intros Hnd H1 H2. apply (In_alookup_nodup _ _ _ Hnd) in H1. apply (In_alookup_nodup _ _ _ Hnd) in H2. congruence.
Qed.

(* ---- notify ---- *)
Lemma notify_cases t ok th :
  (exists rem, alookup t th = Some (FSync rem) /\ notify t ok th = aset t (if ok then FGo rem else FWait) th)
  \/ ((forall rem, alookup t th <> Some (FSync rem)) /\ notify t ok th = th).
Proof.
  unfold notify. destruct (alookup t th) as [[| |rem|rem|]|] eqn:E; try (right; split; [intros; congruence|reflexivity]).
  left. exists rem. split; reflexivity.
Qed.

Lemma akeys_notify t ok th : akeys (notify t ok th) = akeys th.
Proof.
  destruct (notify_cases t ok th) as [[rem [_ ->]]|[_ ->]]; [apply akeys_aset|reflexivity].
Qed.

Lemma zsum_act_notify t ok th : zsum act (notify t ok th) = zsum act th.
Proof.
  destruct (notify_cases t ok th) as [[rem [E ->]]|[_ ->]]; [|reflexivity].
  rewrite (zsum_aset act t _ _ th E). destruct ok; unfold act; simpl; lia.
Qed.

Lemma zsum_extra_notify t ok th :
  (forall t ph, In (t, ph) th -> 0 <= extra ph) -> zsum extra (notify t ok th) <= zsum extra th.
Proof.
  intro Hrem. destruct (notify_cases t ok th) as [[rem [E ->]]|[_ ->]]; [|lia].
  rewrite (zsum_aset extra t _ _ th E). pose proof (Hrem t _ (alookup_In _ _ _ E)) as H. simpl in H.
  destruct ok; simpl; lia.
Qed.

Lemma In_notify t ok th t' ph' :
  In (t', ph') (notify t ok th) ->
  In (t', ph') th \/ (t' = t /\ exists rem, alookup t th = Some (FSync rem) /\ ph' = (if ok then FGo rem else FWait)).
Proof.
  destruct (notify_cases t ok th) as [[rem [E ->]]|[_ ->]]; [|tauto].
  intro H. apply In_aset in H. destruct H as [H|H]; [|now left].
  inversion H; subst. right. split; [reflexivity|]. exists rem. now split.
Qed.

Lemma notify_keeps_active t ok th o pho :
  In (o, pho) th -> is_active pho = true -> exists pho', In (o, pho') (notify t ok th) /\ is_active pho' = true.
Proof.
  intros Hin Ha. destruct (notify_cases t ok th) as [[rem [E ->]]|[_ ->]]; [|eauto].
  destruct (Nat.eq_dec o t) as [->|Hne].
  - exists (if ok then FGo rem else FWait). split; [eapply In_aset_same; eauto|destruct ok; reflexivity].
  - exists pho. split; [apply In_aset_other; auto|assumption].
Qed.

Lemma notify_no_sync t ok th r : NoDup (akeys th) -> In (t, FSync r) (notify t ok th) -> False.
Proof.
  intros Hnd H. destruct (notify_cases t ok th) as [[rem [E Hn]]|[Hno Hn]]; rewrite Hn in H.
  - assert (Hnd' : NoDup (akeys (aset t (if ok then FGo rem else FWait) th))) by now rewrite akeys_aset.
    pose proof (In_aset_same t (if ok then FGo rem else FWait) _ th E) as H2.
    pose proof (unique_key _ _ _ _ Hnd' H H2) as Heq. destruct ok; discriminate.
  - apply (In_alookup_nodup _ _ _ Hnd) in H. eapply Hno; eauto.
Qed.

(* when filling is off nothing is being connected *)
Lemma invA_notasks s : invA s -> p_filling s = false -> p_tasks s = [].
Proof.
  intros I Hf. destruct (p_tasks s) as [|[k [o ph]] r] eqn:E; [reflexivity|exfalso].
  destruct (a_owner s I k o ph) as [pho [Hin Ha]]; [rewrite E; now left|].
  pose proof (a_act s I) as Hs. rewrite Hf in Hs.
  pose proof (zsum_zero_all act _ o pho act_nonneg Hs Hin) as Hz. apply act_pos in Ha. lia.
Qed.

(* the active thread is unique *)
Lemma invA_active_unique s t1 p1 t2 p2 :
  invA s -> In (t1, p1) (p_threads s) -> In (t2, p2) (p_threads s) -> is_active p1 = true -> is_active p2 = true -> t1 = t2.
Proof.
  intros I H1 H2 A1 A2. apply act_pos in A1. apply act_pos in A2.
  eapply (zsum_le1_unique act); eauto using act_nonneg, a_nd_th.
  rewrite (a_act s I). destruct (p_filling s); lia.
Qed.

Ltac inv_some H := inversion H; subst; clear H.

(* ---- preservation, one label at a time ---- *)
Lemma invA_spawn s t : invA s -> ~ In t (akeys (p_threads s)) ->
  forall conns', (length conns' <= length (p_conns s))%nat ->
  invA (mkPool (p_size s) conns' (p_closed s) (p_filling s) (p_threads s ++ [(t, F0)]) (p_tasks s)
          (p_closing s) (p_open s) (p_dead s) (p_next_conn s) (p_next_task s)).
Proof.
  intros I Hni conns' Hlen. destruct I. constructor; cbn [p_threads p_tasks p_conns p_filling p_size p_next_task]; auto.
  - rewrite akeys_app. simpl. now apply NoDup_snoc.
  - rewrite zsum_app. cbn [zsum fold_right snd]. change (act F0) with 0. lia.
  - intros k o ph H. destruct (a_owner0 k o ph H) as [pho [H1 H2]]. exists pho. split; [apply in_or_app; now left|assumption].
  - rewrite zsum_app. simpl. lia.
  - intros t' ph H. apply in_app_or in H. destruct H as [H|[H|[]]]; [eauto|]. inversion H; subst. simpl. lia.
  - intros t' r H. apply in_app_or in H. destruct H as [H|[H|[]]]; [eauto|discriminate].
Qed.

Lemma invA_drop_inactive s t ph : invA s -> alookup t (p_threads s) = Some ph -> is_active ph = false ->
  invA (set_threads s (aremove t (p_threads s))).
Proof.
  intros I E Hina. pose proof (a_nd_th s I) as Hnd.
  assert (Hex : extra ph = 0) by (destruct ph; simpl in *; try discriminate; reflexivity).
  assert (Hac : act ph = 0) by (unfold act; now rewrite Hina).
  destruct I. constructor; unfold set_threads; cbn [p_threads p_tasks p_conns p_filling p_size p_next_task]; auto.
  - now apply NoDup_akeys_aremove.
  - rewrite (zsum_aremove act t ph _ E). lia.
  - intros k o pht H. destruct (a_owner0 k o pht H) as [pho [H1 H2]]. exists pho. split; [|assumption].
    apply In_aremove_other; [assumption|]. simpl. intro; subst o.
    pose proof (unique_key _ _ _ _ Hnd H1 (alookup_In _ _ _ E)). subst pho. congruence.
  - rewrite (zsum_aremove extra t ph _ E). lia.
  - intros t' ph' H. apply In_aremove in H. eauto.
  - intros t' r H. apply In_aremove in H. eauto.
Qed.

Lemma invA_set_inactive s t ph ph' : invA s -> alookup t (p_threads s) = Some ph -> is_active ph = false -> is_active ph' = false ->
  invA (set_threads s (aset t ph' (p_threads s))).
Proof.
  intros I E Hina Hina'. pose proof (a_nd_th s I) as Hnd.
  assert (Hex : extra ph = 0) by (destruct ph; simpl in *; try discriminate; reflexivity).
  assert (Hex' : extra ph' = 0) by (destruct ph'; simpl in *; try discriminate; reflexivity).
  assert (Hac : act ph = 0) by (unfold act; now rewrite Hina).
  assert (Hac' : act ph' = 0) by (unfold act; now rewrite Hina').
  destruct I. constructor; unfold set_threads; cbn [p_threads p_tasks p_conns p_filling p_size p_next_task]; auto.
  - now rewrite akeys_aset.
  - rewrite (zsum_aset act t ph' ph _ E). lia.
  - intros k o pht H. destruct (a_owner0 k o pht H) as [pho [H1 H2]]. exists pho. split; [|assumption].
    apply In_aset_other; [assumption|]. simpl. intro; subst o.
    pose proof (unique_key _ _ _ _ Hnd H1 (alookup_In _ _ _ E)). subst pho. congruence.
  - rewrite (zsum_aset extra t ph' ph _ E). lia.
  - intros t' ph2 H. apply In_aset in H. destruct H as [H|H]; [inversion H; subst; lia|eauto].
  - intros t' r H. apply In_aset in H. destruct H as [H|H]; [inversion H; subst; discriminate|eauto].
Qed.

Lemma invA_FillDecide_sync s t : invA s -> alookup t (p_threads s) = Some F1 -> p_filling s = false ->
  p_conns s = [] -> 0 < p_size s ->
  invA (mkPool (p_size s) (p_conns s) (p_closed s) true (aset t (FSync (p_size s - 1)) (p_threads s))
          (p_tasks s ++ [(p_next_task s, (t, TDial))]) (p_closing s) (p_open s) (p_dead s) (p_next_conn s) (S (p_next_task s))).
Proof.
  intros I E Hf Hc Hsz. pose proof (invA_notasks s I Hf) as Htk.
  pose proof (a_act s I) as Hact. rewrite Hf in Hact. pose proof (zsum_extra_zero _ Hact) as Hex.
  destruct I. constructor; cbn [p_threads p_tasks p_conns p_filling p_size p_next_task]; rewrite ?Htk, ?Hc; cbn [app akeys map fst length].
  - now rewrite akeys_aset.
  - constructor; [simpl; tauto|constructor].
  - intros k [H|[]]. lia.
  - rewrite (zsum_aset act t _ F1 _ E). cbn [act is_active]. lia.
  - intros k o ph [H|[]]. inversion H; subst. exists (FSync (p_size s - 1)). split; [eapply In_aset_same; eauto|reflexivity].
  - rewrite (zsum_aset extra t _ F1 _ E). cbn [extra]. lia.
  - intros t' ph H. apply In_aset in H. destruct H as [H|H]; [inversion H; subst; simpl; lia|eauto].
  - intros t' r H. apply In_aset in H. destruct H as [H|H].
    + inversion H; subst. exists (p_next_task s), TDial. now left.
    + exfalso. pose proof (zsum_zero_all act _ t' (FSync r) act_nonneg Hact H). discriminate.
Qed.

Lemma invA_FillDecide_go s t : invA s -> alookup t (p_threads s) = Some F1 -> p_filling s = false ->
  0 < p_size s - Z.of_nat (length (p_conns s)) ->
  invA (mkPool (p_size s) (p_conns s) (p_closed s) true (aset t (FGo (p_size s - Z.of_nat (length (p_conns s)))) (p_threads s))
          (p_tasks s) (p_closing s) (p_open s) (p_dead s) (p_next_conn s) (p_next_task s)).
Proof.
  intros I E Hf Hsz. pose proof (invA_notasks s I Hf) as Htk.
  pose proof (a_act s I) as Hact. rewrite Hf in Hact. pose proof (zsum_extra_zero _ Hact) as Hex.
  destruct I. constructor; cbn [p_threads p_tasks p_conns p_filling p_size p_next_task]; rewrite ?Htk; cbn [akeys map length]; auto.
  - now rewrite akeys_aset.
  - constructor.
  - simpl; tauto.
  - rewrite (zsum_aset act t _ F1 _ E). cbn [act is_active]. lia.
  - simpl; tauto.
  - rewrite (zsum_aset extra t _ F1 _ E). cbn [extra]. lia.
  - intros t' ph H. apply In_aset in H. destruct H as [H|H]; [inversion H; subst; simpl; lia|eauto].
  - intros t' r H. apply In_aset in H. destruct H as [H|H]; [discriminate|].
    exfalso. pose proof (zsum_zero_all act _ t' (FSync r) act_nonneg Hact H). discriminate.
Qed.

Lemma invA_FillAsync s t rem : invA s -> alookup t (p_threads s) = Some (FGo rem) ->
  invA (mkPool (p_size s) (p_conns s) (p_closed s) (p_filling s) (aset t FWait (p_threads s))
          (p_tasks s ++ new_tasks t (p_next_task s) (Z.to_nat rem)) (p_closing s) (p_open s) (p_dead s) (p_next_conn s)
          (p_next_task s + Z.to_nat rem)).
Proof.
  intros I E. pose proof (a_rem s I t _ (alookup_In _ _ _ E)) as Hrem. simpl in Hrem.
  pose proof (a_nd_th s I) as Hnd.
  destruct I. constructor; cbn [p_threads p_tasks p_conns p_filling p_size p_next_task].
  - now rewrite akeys_aset.
  - rewrite akeys_app, akeys_new_tasks. apply NoDup_app_seq; auto.
  - intros k H. rewrite akeys_app, akeys_new_tasks in H. apply in_app_or in H. destruct H as [H|H].
    + specialize (a_tk_lt0 k H). lia.
    + apply in_seq in H. lia.
  - rewrite (zsum_aset act t _ _ _ E). rewrite a_act0. cbn [act is_active]. lia.
  - intros k o ph H. apply in_app_or in H. destruct H as [H|H].
    + destruct (a_owner0 k o ph H) as [pho [H1 H2]]. destruct (Nat.eq_dec o t) as [->|Hne].
      * exists FWait. split; [eapply In_aset_same; eauto|reflexivity].
      * exists pho. split; [apply In_aset_other; auto|assumption].
    + apply In_new_tasks in H. destruct H as [H _]. simpl in H. inversion H; subst.
      exists FWait. split; [eapply In_aset_same; eauto|reflexivity].
  - rewrite app_length, length_new_tasks, (zsum_aset extra t _ _ _ E). cbn [extra]. lia.
  - intros t' ph H. apply In_aset in H. destruct H as [H|H]; [inversion H; subst; simpl; lia|eauto].
  - intros t' r H. apply In_aset in H. destruct H as [H|H]; [discriminate|].
    destruct (a_sync0 t' r H) as [k [ph Hk]]. exists k, ph. apply in_or_app. now left.
Qed.

(* invA only reads size, the number of connections, filling, threads, tasks and the task counter *)
Lemma invA_ext s s' : invA s -> p_size s' = p_size s -> (length (p_conns s') <= length (p_conns s))%nat ->
  p_filling s' = p_filling s -> p_threads s' = p_threads s -> p_tasks s' = p_tasks s -> p_next_task s' = p_next_task s ->
  invA s'.
Proof.
  intros I Hs Hc Hf Ht Hk Hn. destruct I. constructor; rewrite ?Hs, ?Hf, ?Ht, ?Hk, ?Hn; auto. lia.
Qed.

Lemma invA_FillStopped s t : invA s -> alookup t (p_threads s) = Some FWait -> existsb (owns t) (p_tasks s) = false ->
  invA (mkPool (p_size s) (p_conns s) (p_closed s) false (aremove t (p_threads s)) (p_tasks s)
          (p_closing s) (p_open s) (p_dead s) (p_next_conn s) (p_next_task s)).
Proof.
  intros I E Hown. pose proof (a_nd_th s I) as Hnd. pose proof (alookup_In _ _ _ E) as Hin.
  assert (Hfill : p_filling s = true).
  { pose proof (a_act s I) as Ha. destruct (p_filling s); [reflexivity|].
    pose proof (zsum_zero_all act _ t FWait act_nonneg Ha Hin). discriminate. }
  assert (Htk : p_tasks s = []).
  { destruct (p_tasks s) as [|[k [o ph]] r] eqn:Etk; [reflexivity|exfalso].
    destruct (a_owner s I k o ph) as [pho [Ho Ha]]; [rewrite Etk; now left|].
    assert (o = t) by (eapply invA_active_unique; eauto). subst o.
    simpl in Hown. unfold owns in Hown at 1. simpl in Hown. rewrite Nat.eqb_refl in Hown. discriminate. }
  assert (Hact : zsum act (aremove t (p_threads s)) = 0).
  { rewrite (zsum_aremove act t _ _ E), (a_act s I), Hfill. reflexivity. }
  destruct I. constructor; cbn [p_threads p_tasks p_conns p_filling p_size p_next_task]; rewrite ?Htk.
  - now apply NoDup_akeys_aremove.
  - constructor.
  - simpl; tauto.
  - exact Hact.
  - simpl; tauto.
  - rewrite Htk in a_budget0. rewrite (zsum_aremove extra t _ _ E). cbn [extra]. lia.
  - intros t' ph H. apply In_aremove in H. eauto.
  - intros t' r H. exfalso. pose proof (zsum_zero_all act _ t' (FSync r) act_nonneg Hact H). discriminate.
Qed.

Lemma invA_DialOk s k t c : invA s -> alookup k (p_tasks s) = Some (t, TDial) ->
  invA (set_tasks s (aset k (t, THave c) (p_tasks s))).
Proof.
  intros I E. pose proof (alookup_In _ _ _ E) as Hin.
  destruct I. constructor; unfold set_tasks; cbn [p_threads p_tasks p_conns p_filling p_size p_next_task]; auto.
  - now rewrite akeys_aset.
  - now rewrite akeys_aset.
  - intros k' o ph H. apply In_aset in H. destruct H as [H|H]; [inversion H; subst; eauto|eauto].
  - now rewrite length_aset.
  - intros t' r H. destruct (a_sync0 t' r H) as [k' [ph Hk]].
    destruct (Nat.eq_dec k' k) as [->|Hne].
    + pose proof (unique_key _ _ _ _ a_nd_tk0 Hk Hin) as Heq. inversion Heq; subst.
      exists k, (THave c). eapply In_aset_same; eauto.
    + exists k', ph. apply In_aset_other; auto.
Qed.

(* a connect returns: its task disappears, the owner is told; the pool gained at most one connection *)
Lemma invA_task_done s k t ph (ok : bool) (conns' : list nat) cl clg op dd nc :
  invA s -> alookup k (p_tasks s) = Some (t, ph) ->
  (length conns' <= length (p_conns s) + (if ok then 1 else 0))%nat ->
  invA (mkPool (p_size s) conns' cl (p_filling s) (notify t ok (p_threads s)) (aremove k (p_tasks s)) clg op dd nc (p_next_task s)).
Proof.
  intros I E Hlen. pose proof (alookup_In _ _ _ E) as Hin. pose proof (a_nd_th s I) as Hnd.
  pose proof (zsum_extra_notify t ok _ (a_rem s I)) as Hex.
  pose proof (length_aremove k _ _ E) as Hl.
  destruct I. constructor; cbn [p_threads p_tasks p_conns p_filling p_size p_next_task].
  - now rewrite akeys_notify.
  - now apply NoDup_akeys_aremove.
  - intros k' H. apply In_akeys_aremove in H. auto.
  - now rewrite zsum_act_notify.
  - intros k' o ph' H. apply In_aremove in H. destruct (a_owner0 k' o ph' H) as [pho [H1 H2]].
    eapply notify_keeps_active; eauto.
  - destruct ok; lia.
  - intros t' ph' H. apply In_notify in H. destruct H as [H|[-> [rem [Er ->]]]]; [eauto|].
    pose proof (a_rem0 t _ (alookup_In _ _ _ Er)) as Hr. destruct ok; simpl in *; lia.
  - intros t' r H. destruct (Nat.eq_dec t' t) as [->|Hne].
    + exfalso. eapply notify_no_sync; eauto.
    + apply In_notify in H. destruct H as [H|[-> _]]; [|congruence].
      destruct (a_sync0 t' r H) as [k' [ph' Hk]]. exists k', ph'.
      apply In_aremove_other; [assumption|]. simpl. intro; subst k'.
      pose proof (unique_key _ _ _ _ a_nd_tk0 Hk Hin) as Heq. inversion Heq; congruence.
Qed.

Theorem invA_step s l s' : invA s -> pstep s l = Some s' -> invA s'.
Proof.
  intros I H. destruct l as [t|t|t|t|t|k|k|k|k|c|c t| |]; cbn [pstep] in H.
  - (* FillStart *)
    destruct (memb t (akeys (p_threads s))) eqn:Em; [discriminate|]. inv_some H.
    apply memb_false in Em. apply (invA_spawn s t I Em (p_conns s)). lia.
  - (* FillCheck *)
    destruct (alookup t (p_threads s)) as [[| | | |]|] eqn:E; try discriminate.
    destruct (p_closed s || p_filling s); [inv_some H; eapply invA_drop_inactive; eauto|].
    destruct (p_size s - Z.of_nat (length (p_conns s)) <=? 0); inv_some H;
      [eapply invA_drop_inactive; eauto|eapply invA_set_inactive; eauto].
  - (* FillDecide *)
    destruct (alookup t (p_threads s)) as [[| | | |]|] eqn:E; try discriminate.
    destruct (p_closed s || p_filling s || (p_size s - Z.of_nat (length (p_conns s)) <=? 0)) eqn:Ec;
      [inv_some H; eapply invA_drop_inactive; eauto|].
    apply Bool.orb_false_iff in Ec. destruct Ec as [Ec Efc]. apply Bool.orb_false_iff in Ec. destruct Ec as [_ Ef].
    apply Z.leb_gt in Efc.
    destruct (length (p_conns s)) as [|n] eqn:El.
    + inv_some H. assert (Hc : p_conns s = []) by (destruct (p_conns s); [reflexivity|discriminate]).
      change (Z.of_nat 0) with 0. replace (p_size s - 0 - 1) with (p_size s - 1) by lia.
      pose proof (invA_FillDecide_sync s t I E Ef Hc) as R. rewrite Hc in R. rewrite Hc. apply R. simpl in Efc. lia.
    + inv_some H. pose proof (invA_FillDecide_go s t I E Ef) as R. rewrite El in R. apply R. assumption.
  - (* FillAsync *)
    destruct (alookup t (p_threads s)) as [[| | |rem|]|] eqn:E; try discriminate. inv_some H.
    now apply invA_FillAsync.
  - (* FillStopped *)
    destruct (alookup t (p_threads s)) as [[| | | |]|] eqn:E; try discriminate.
    destruct (existsb (owns t) (p_tasks s)) eqn:Eo; [discriminate|]. inv_some H. now apply invA_FillStopped.
  - (* DialOk *)
    destruct (alookup k (p_tasks s)) as [[t [|c]]|] eqn:E; try discriminate. inv_some H.
    eapply invA_ext; [apply (invA_DialOk s k t (p_next_conn s) I E)|..]; reflexivity || (simpl; lia).
  - (* DialFail *)
    destruct (alookup k (p_tasks s)) as [[t [|c]]|] eqn:E; try discriminate. inv_some H.
    eapply (invA_task_done s k t TDial false); eauto. simpl. lia.
  - (* KsFail *)
    destruct (alookup k (p_tasks s)) as [[t [|c]]|] eqn:E; try discriminate. inv_some H.
    eapply (invA_task_done s k t (THave c) false); eauto. simpl. lia.
  - (* ConnectAdd *)
    destruct (alookup k (p_tasks s)) as [[t [|c]]|] eqn:E; try discriminate.
    destruct (p_closed s); [inv_some H|destruct (negb (memb c (p_open s))); inv_some H].
    + eapply (invA_task_done s k t (THave c) true); eauto. simpl. lia.
    + eapply (invA_task_done s k t (THave c) false); eauto. simpl. lia.
    + eapply (invA_task_done s k t (THave c) true); eauto. rewrite app_length. simpl. lia.
  - (* ConnDie *)
    destruct (memb c (p_open s)); [|discriminate]. inv_some H.
    eapply invA_ext; [exact I|..]; reflexivity || (simpl; lia).
  - (* HErr *)
    destruct (memb c (p_dead s)); [|discriminate].
    destruct (p_closed s).
    { inv_some H. eapply invA_ext; [exact I|..]; reflexivity || (simpl; lia). }
    destruct (memb c (p_conns s)) eqn:Ec.
    + destruct (memb t (akeys (p_threads s))) eqn:Em; [discriminate|]. inv_some H.
      apply memb_false in Em. apply memb_In in Ec.
      assert (Hl : (length (remove_swap c (p_conns s)) <= length (p_conns s))%nat) by (pose proof (remove_swap_length c _ Ec); lia).
      eapply invA_ext; [apply (invA_spawn s t I Em _ Hl)|..]; reflexivity || (simpl; lia).
    + inv_some H. eapply invA_ext; [exact I|..]; reflexivity || (simpl; lia).
  - (* PClose *)
    destruct (p_closed s); inv_some H; [assumption|].
    eapply invA_ext; [exact I|..]; reflexivity || (simpl; lia).
  - (* PCloseConn *)
    destruct (p_closing s) as [|c r]; [discriminate|]. inv_some H.
    eapply invA_ext; [exact I|..]; reflexivity || (simpl; lia).
Qed.

Theorem invA_run size ls s : prun (pool_init size) ls = Some s -> invA s.
Proof.
  assert (G : forall ls s0 s, invA s0 -> prun s0 ls = Some s -> invA s).
  { clear. intro ls. induction ls as [|l r IH]; simpl; intros s0 s1 I H; [inversion H; subst; assumption|].
    destruct (pstep s0 l) eqn:E; [|discriminate]. eapply IH; [eapply invA_step; eauto|exact H]. }
  intro H. eapply G; [apply invA_init|exact H].
Qed.

(* ---- the bound and the single filler ---- *)
Lemma extra_sum_nonneg s : invA s -> 0 <= zsum extra (p_threads s).
Proof. intro I. apply zsum_nonneg_in. intros k a H. eapply a_rem; eauto. Qed.

Lemma pstep_size s l s' : pstep s l = Some s' -> p_size s' = p_size s.
Proof.
  destruct l; cbn [pstep]; intro H;
  repeat match type of H with
  | context [match ?x with _ => _ end] => destruct x
  end; try discriminate; inv_some H; reflexivity.
Qed.

Lemma prun_size s ls s' : prun s ls = Some s' -> p_size s' = p_size s.
Proof.
  revert s; induction ls as [|l r IH]; simpl; intros s H; [inversion H; subst; reflexivity|].
  destruct (pstep s l) eqn:E; [|discriminate]. rewrite (IH _ H). eapply pstep_size; eauto.
Qed.

Lemma pool_bound_lemma size ls s : prun (pool_init size) ls = Some s ->
  Z.of_nat (length (p_conns s)) + Z.of_nat (length (p_tasks s)) <= Z.max 0 size.
Proof.
  intro H. pose proof (invA_run _ _ _ H) as I. pose proof (prun_size _ _ _ H) as Hs. simpl in Hs.
  pose proof (a_budget s I). pose proof (extra_sum_nonneg s I). rewrite Hs in *. lia.
Qed.

Lemma n_active_zsum th : Z.of_nat (n_active th) = zsum act th.
Proof. unfold n_active. apply length_filter_zsum. intro e. reflexivity. Qed.

Lemma single_filler_lemma size ls s : prun (pool_init size) ls = Some s ->
  n_active (p_threads s) = (if p_filling s then 1 else 0)%nat
  /\ (p_filling s = false -> p_tasks s = [])
  /\ (forall k o ph, In (k, (o, ph)) (p_tasks s) -> exists pho, alookup o (p_threads s) = Some pho /\ is_active pho = true).
Proof.
  intro H. pose proof (invA_run _ _ _ H) as I. split; [|split].
  - pose proof (n_active_zsum (p_threads s)) as Hn. rewrite (a_act s I) in Hn. destruct (p_filling s); lia.
  - now apply invA_notasks.
  - intros k o ph Hin. destruct (a_owner s I k o ph Hin) as [pho [H1 H2]]. exists pho. split; [|assumption].
    apply In_alookup_nodup; [apply (a_nd_th s I)|assumption].
Qed.
