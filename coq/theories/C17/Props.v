(* C17/Props.v -- the proof obligations for property C17, and nothing else.
   Each is closed by a lemma from Proofs*.v and followed by Print Assumptions; the Examples show that
   the hypotheses are satisfiable by non-trivial schedules.

   Reading guide.  [prun (pool_init size) ls = Some s]: s is the state of a host pool of the given
   size after the label sequence ls -- any number of concurrent fill() calls, dial completions
   (success, failure, keyspace failure), connection failures with their error callbacks, Close calls,
   in any order (Model.v lists the labels).  All statements are for every such sequence. *)
From GocqlV Require Import Lib.Base Gen.Consts C17.Model C17.Spec
  C17.Proofs1 C17.Proofs2 C17.Proofs3 C17.Proofs4 C17.Proofs5 C17.Proofs6 C17.Proofs7 C17.Proofs8.

(* ---------------- pool ---------------- *)

(* The pool never holds more than size connections -- even counting the connects still in progress. *)
Theorem C17_pool_bound : forall size ls s,
  prun (pool_init size) ls = Some s -> pool_within_bounds size s.
Proof. exact pool_bound_lemma. Qed.
Print Assumptions C17_pool_bound.

(* At most one goroutine is past fill's re-check (exactly one iff pool.filling); every connect in
   progress belongs to such a goroutine; when filling is off nothing is being connected. *)
Theorem C17_single_filler : forall size ls s,
  prun (pool_init size) ls = Some s ->
  n_active (p_threads s) = (if p_filling s then 1 else 0)%nat
  /\ (p_filling s = false -> p_tasks s = [])
  /\ (forall k o ph, In (k, (o, ph)) (p_tasks s) -> exists pho, alookup o (p_threads s) = Some pho /\ is_active pho = true).
Proof. exact single_filler_lemma. Qed.
Print Assumptions C17_single_filler.

(* HandleError(conn, err, closed=true) on a pool that is not closed: the connection is not in the
   pool afterwards, every other connection still is, and if it was in the pool its place is freed
   and a fill() goroutine is started. *)
Theorem C17_closed_conn_removed : forall size ls s c t s',
  prun (pool_init size) ls = Some s -> pstep s (HErr c t) = Some s' -> p_closed s = false ->
  ~ In c (p_conns s')
  /\ (forall c', In c' (p_conns s) -> c' <> c -> In c' (p_conns s'))
  /\ (In c (p_conns s) -> S (length (p_conns s')) = length (p_conns s) /\ alookup t (p_threads s') = Some F0).
Proof. exact closed_conn_removed_lemma. Qed.
Print Assumptions C17_closed_conn_removed.

(* Every pooled connection is open, or its error callback is still to come and will remove it:
   connect does not pool a connection that failed while it held it (repair of F-C17-2; the pre-fix
   behaviour is Refuted.closed_conn_pooled_before_fix). *)
Theorem C17_pooled_conns_alive : forall size ls s,
  prun (pool_init size) ls = Some s -> pooled_conns_alive s.
Proof. exact pool_conns_alive_lemma. Qed.
Print Assumptions C17_pooled_conns_alive.

(* No connection is leaked, closed pool or not: an open connection is in the pool, or held by a
   connect that will add it or (pool closed meanwhile) close it, or queued in Close.  A closed pool
   holds none, and once its goroutines are done nothing is open. *)
Theorem C17_no_conn_survives_close : forall size ls s,
  prun (pool_init size) ls = Some s ->
  no_leak s /\ (p_closed s = true -> p_conns s = [] /\ (p_quiescent s = true -> p_open s = [])).
Proof. exact no_conn_survives_close_lemma. Qed.
Print Assumptions C17_no_conn_survives_close.

(* The pool's goroutines cannot get stuck: while anything is pending, some step of theirs is enabled. *)
Theorem C17_pool_progress : forall size ls s,
  prun (pool_init size) ls = Some s -> p_quiescent s = false ->
  exists l s', p_internal l = true /\ pstep s l = Some s'.
Proof. exact pool_progress_lemma. Qed.
Print Assumptions C17_pool_progress.

(* ... and they cannot run forever: from any state, a run of their own steps (no new fill / Close
   call, no new connection failure) has at most [pmeasure s] steps.  With C17_pool_progress: every
   schedule reaches quiescence; with C17_no_conn_survives_close: after Close nothing stays open. *)
Theorem C17_pool_terminates : forall s ls s',
  forallb p_internal ls = true -> prun s ls = Some s' ->
  0 <= pmeasure s' /\ Z.of_nat (length ls) + pmeasure s' <= pmeasure s.
Proof. intros s ls s' Hi Hr. split; [apply pmeasure_nonneg|exact (pool_terminates_lemma s ls s' Hi Hr)]. Qed.
Print Assumptions C17_pool_terminates.

(* "... and replaced".  HandleError starts a fill (C17_closed_conn_removed), and so does every Pick on
   a pool below its size.  Whenever a fill has been started on an open pool that is not being filled
   (no error callback and no Close pending), and from then on every dial succeeds and no connection
   fails, then on EVERY schedule -- any interleaving, any number of further fill() calls -- quiescence
   is reached (C17_pool_progress / C17_pool_terminates) with the pool exactly at its size. *)
Theorem C17_pool_refills : forall size ls0 s0 ls s,
  prun (pool_init size) ls0 = Some s0 ->
  p_closed s0 = false -> p_filling s0 = false -> p_dead s0 = [] -> p_closing s0 = [] -> p_threads s0 <> [] ->
  forallb p_lucky ls = true -> prun s0 ls = Some s -> p_quiescent s = true ->
  Z.of_nat (length (p_conns s)) = Z.max 0 size.
Proof. exact pool_refills_lemma. Qed.
Print Assumptions C17_pool_refills.

(* ---------------- policyConnPool (the session's table of host pools) ---------------- *)

(* After Close -- for every interleaving of addHost / removeHost / SetHosts with it -- the table is
   empty, every host pool ever created has been closed or its `go pool.Close()` is queued, and addHost
   creates nothing any more (repair of F-C17-3; pre-fix: Refuted.pool_created_after_close_before_fix).
   With C17_no_conn_survives_close for each of them: no pool connection survives Session.Close. *)
Theorem C17_policy_pool_closed : forall ls s,
  pprun ppool_init ls = Some s -> pp_closed s = true ->
  pp_map s = []
  /\ (forall p, (p < pp_next s)%nat -> In p (pp_closedpools s) \/ In p (pp_detached s))
  /\ (forall h s', ppstep s (PPAdd h) = Some s' -> s' = s).
Proof. exact policy_pool_closed_lemma. Qed.
Print Assumptions C17_policy_pool_closed.

(* At any time: a host pool that has left the table (removeHost on a node-down event or after a failed
   fill, SetHosts, Close) has been closed or its `go pool.Close()` is queued -- whatever it held when
   it left, in particular when it was empty with its first connect still in flight.  A closed pool
   closes what arrives late (C17_no_conn_survives_close). *)
Theorem C17_policy_pool_removed_closed : forall ls s p,
  pprun ppool_init ls = Some s -> (p < pp_next s)%nat ->
  ~ In p (map snd (pp_map s)) -> In p (pp_closedpools s) \/ In p (pp_detached s).
Proof. exact policy_pool_removed_closed_lemma. Qed.
Print Assumptions C17_policy_pool_removed_closed.

(* ---------------- controlConn: reconnect against close ---------------- *)

(* Reconnects terminate: any run of steps of reconnect goroutines (given that dials, setupConn and
   refreshRing return) has at most [kmeasure s] steps -- five per goroutine. *)
Theorem C17_reconnect_terminates : forall s ls s',
  forallb k_rec_label ls = true -> krun s ls = Some s' ->
  0 <= kmeasure s' /\ Z.of_nat (length ls) + kmeasure s' <= kmeasure s.
Proof. exact reconnect_terminates_lemma. Qed.
Print Assumptions C17_reconnect_terminates.

(* Once close() has set the state, it stays set and every reconnect that has not yet read the state
   returns at once without touching anything; once the session context is cancelled no control
   connection is made any more and the set of open ones only shrinks.  (A reconnect already inside
   setupConn can still store its connection after close(): Refuted.control_conn_survives_close_refuted.) *)
Theorem C17_control_after_close : forall s ls s',
  krun s ls = Some s' ->
  (k_closing s = true -> k_closing s' = true
     /\ forall t, alookup t (k_recs s') = Some KR0 ->
          exists s2, kstep s' (KRecCheck t) = Some s2 /\ k_open s2 = k_open s' /\ k_next s2 = k_next s' /\ k_stored s2 = k_stored s'
                     /\ k_recs s2 = aremove t (k_recs s'))
  /\ (k_cancelled s = true -> k_cancelled s' = true /\ k_next s' = k_next s /\ incl (k_open s') (k_open s)).
Proof. exact control_after_close_lemma. Qed.
Print Assumptions C17_control_after_close.

(* ---------------- refresh debouncer (ring refresh; stopped by Session.Close) ---------------- *)

(* stop() returns, unconditionally (repair of F-C17-1: stop only closes quit): in every state, for
   every stop() call in whatever phase, the call's own remaining steps (at most two) are enabled and
   complete it -- it waits for nobody. *)
Theorem C17_refresh_stop_returns : forall s t ph,
  alookup t (r_stoppers s) = Some ph ->
  exists ls' s', (ls' = [] \/ ls' = [RStopClose t] \/ ls' = [RStopLock t] \/ ls' = [RStopLock t; RStopClose t])
    /\ rrun s ls' = Some s' /\ alookup t (r_stoppers s') = Some RSDone.
Proof. exact refresh_stop_returns_lemma. Qed.
Print Assumptions C17_refresh_stop_returns.

(* ... and the flusher goroutine exits: once stopped is set, quit is closed or the stop() call that set
   it can close it at once; whichever select case the flusher then takes (queued refreshNow, timer,
   quit) its next step returns; and with quit closed at most three steps of its own take it there. *)
Theorem C17_refresh_flusher_exits : forall ls s,
  rrun rdeb_init ls = Some s -> r_stopped s = true ->
  (r_quit_closed s = true \/ exists t s1, rstep s (RStopClose t) = Some s1 /\ r_quit_closed s1 = true /\ r_fl s1 = r_fl s)
  /\ (forall src s1, rstep s (RFlWake src) = Some s1 -> exists s2, rstep s1 RFlLock = Some s2 /\ r_fl s2 = RExited)
  /\ (r_quit_closed s = true -> r_fl s <> RExited ->
      exists ls' s', (ls' = [RFlLock] \/ ls' = [RFlWake SQuit; RFlLock] \/ ls' = [RFlDone; RFlWake SQuit; RFlLock])
        /\ rrun s ls' = Some s' /\ r_fl s' = RExited).
Proof. exact flusher_exits_lemma. Qed.
Print Assumptions C17_refresh_flusher_exits.

(* Once stop() has set stopped, refreshFn is never started again (any schedule, no hypothesis). *)
Theorem C17_no_refresh_after_stop : forall s ls s',
  r_stopped s = true -> rrun s ls = Some s' -> r_calls s' = r_calls s.
Proof. exact no_refresh_after_stop_lemma. Qed.
Print Assumptions C17_no_refresh_after_stop.

(* ---------------- event debouncer ---------------- *)

(* stop() returns and does not panic, given it is called at most once (C17_close_once provides
   that for the two event debouncers of a session). *)
Theorem C17_event_stop_returns : forall ls s t,
  erun edeb_init ls = Some s -> (e_stop_calls ls <= 1)%nat -> alookup t (e_stoppers s) = Some ESSend ->
  ~ e_stop_stuck s t /\ en_in ESPanic (e_stoppers s) = 0%nat
  /\ exists ls' s', (ls' = [EFlWakeQuit t; EStopClose t] \/ ls' = [EFlFlush; EFlWakeQuit t; EStopClose t])
       /\ erun s ls' = Some s' /\ alookup t (e_stoppers s') = Some ESDone.
Proof. exact event_stop_returns_lemma. Qed.
Print Assumptions C17_event_stop_returns.

(* ---------------- Session.Close ---------------- *)

(* However many goroutines call Close, in whatever interleaving: the shutdown calls made so far are
   a prefix of (pools, control connection, node events, schema events, ring refresher, cancel) -- each
   at most once, in that order; at most one caller is performing them; and once isClosed is set all
   of them have been made. *)
Theorem C17_close_once : forall ls s,
  srun sess_init ls = Some s ->
  (exists k, s_log s = firstn k close_order)
  /\ (length (filter (fun e => match snd e with SCStep _ => true | _ => false end) (s_closers s)) <= 1)%nat
  /\ (s_closed s = true -> s_log s = close_order).
Proof. exact close_once_lemma. Qed.
Print Assumptions C17_close_once.

(* In particular eventDebouncer.stop (node events, schema events) and refreshDebouncer.stop are each
   called at most once, whether Close is called twice, concurrently or from many goroutines: the
   double stop of Refuted.event_stop_twice_refuted is not reachable through Session.Close, and the
   hypothesis of C17_event_stop_returns is met. *)
Theorem C17_close_stops_each_once : forall ls s c,
  srun sess_init ls = Some s -> (count_occ comp_dec (s_log s) c <= 1)%nat.
Proof. exact each_stop_once_lemma. Qed.
Print Assumptions C17_close_stops_each_once.

(* After the closing call has set isClosed, every query fails with ErrSessionClosed, for good. *)
Theorem C17_queries_fail_after_close : forall s ls s',
  s_closed s = true -> srun s ls = Some s' -> query s' = QErrSessionClosed.
Proof. exact queries_fail_after_close_lemma. Qed.
Print Assumptions C17_queries_fail_after_close.

(* ---------------- non-vacuity: the hypotheses hold on non-trivial schedules ---------------- *)

(* reachability is not vacuous: two fills race through the check/re-check window of a pool of size
   2, a dial fails, a pooled connection dies and is reported, the pool is closed while a connect
   holds a connection *)
Definition ex_pool : list plabel :=
  [FillStart 0; FillStart 1; FillCheck 0; FillCheck 1; FillDecide 0; FillDecide 1;
   DialOk 0; ConnectAdd 0; FillAsync 0; DialFail 1; FillStopped 0;
   ConnDie 0; HErr 0 2; FillCheck 2; FillDecide 2; DialOk 2; PClose; ConnectAdd 2].
Example ex_pool_runs :
  exists s, prun (pool_init 2) ex_pool = Some s
            /\ p_closed s = true /\ p_open s = [] /\ p_next_conn s = 2%nat.
Proof. eexists. split; [vm_compute; reflexivity|]. repeat split; reflexivity. Qed.

(* the former F-C17-1 situation: a refresh is running, a second one is queued, stop(): stopped is
   set and the hypotheses of C17_refresh_flusher_exits hold in a non-trivial state *)
Definition ex_refresh : list rlabel :=
  [RDebounce; RTimerFire; RFlWake STimer; RFlLock; RFlDone; RRefreshNow; RFlWake SNow; RFlLock; RRefreshNow;
   RStopCall 7; RStopLock 7; RStopClose 7; RFlDone].
Example ex_refresh_runs :
  exists s, rrun rdeb_init ex_refresh = Some s /\ r_stopped s = true /\ r_quit_closed s = true
            /\ alookup 7%nat (r_stoppers s) = Some RSDone /\ r_fl s = RSelect /\ r_now s = true /\ r_calls s = 2%nat.
Proof. eexists. split; [vm_compute; reflexivity|]. repeat split; reflexivity. Qed.

(* the hypotheses of C17_pool_refills hold right after HandleError removed a connection of an idle
   pool of size 3 (two connections left, a fill just started); two more fills join; all dials succeed *)
Definition ex_refill_prefix : list plabel :=
  [FillStart 0; FillCheck 0; FillDecide 0; DialOk 0; ConnectAdd 0; FillAsync 0; DialOk 1; DialOk 2; ConnectAdd 2; ConnectAdd 1;
   FillStopped 0; ConnDie 1; HErr 1 7].
Definition ex_refill : list plabel :=
  [FillStart 8; FillCheck 7; FillCheck 8; FillDecide 8; FillStart 9; FillDecide 7; FillAsync 8; FillCheck 9; DialOk 3; ConnectAdd 3; FillStopped 8].
Example ex_refill_runs :
  exists s0 s, prun (pool_init 3) ex_refill_prefix = Some s0 /\ length (p_conns s0) = 2%nat /\ p_filling s0 = false
               /\ p_dead s0 = [] /\ p_threads s0 = [(7%nat, F0)]
               /\ forallb p_lucky ex_refill = true /\ prun s0 ex_refill = Some s /\ p_quiescent s = true /\ length (p_conns s) = 3%nat.
Proof.
  eexists. eexists. split; [vm_compute; reflexivity|].
  split; [vm_compute; reflexivity|]. split; [vm_compute; reflexivity|]. split; [vm_compute; reflexivity|].
  split; [vm_compute; reflexivity|]. split; [vm_compute; reflexivity|]. split; [vm_compute; reflexivity|].
  split; vm_compute; reflexivity.
Qed.

(* one stop() of the event debouncer while the timer has fired with two frames buffered *)
Definition ex_event : list elabel := [EDebounce; EDebounce; ETimerFire; EFlWakeTimer; EStopCall 3].
Example ex_event_runs :
  exists s, erun edeb_init ex_event = Some s /\ e_stop_calls ex_event = 1%nat
            /\ alookup 3%nat (e_stoppers s) = Some ESSend /\ e_fl s = EWoke.
Proof. eexists. split; [vm_compute; reflexivity|]. repeat split; reflexivity. Qed.

(* three goroutines call Close; the second one performs it *)
Definition ex_close : list slabel :=
  [SCloseCall 0; SCloseCall 1; SCloseCall 2; SCloseFlag 1; SCloseFlag 0; SCloseStep 1; SCloseStep 1; SCloseFlag 2;
   SCloseStep 1; SCloseStep 1; SCloseStep 1; SCloseStep 1; SCloseStep 1].
Example ex_close_runs :
  exists s, srun sess_init ex_close = Some s /\ s_closed s = true /\ s_log s = close_order.
Proof. eexists. split; [vm_compute; reflexivity|]. split; reflexivity. Qed.
