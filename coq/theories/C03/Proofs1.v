(* C03/Proofs1.v -- round trips of the primitive notations: the spec-side parsers of Spec.v applied to
   the output of the model's appenders (Model.v) give back the value, for every value in range. *)
From GocqlV Require Import Lib.Base Gen.Consts C03.Model C03.Spec.

Arguments Z.mul : simpl never.
Arguments Z.add : simpl never.
Arguments Z.sub : simpl never.
Arguments Z.div : simpl never.
Arguments Z.modulo : simpl never.
Arguments Z.pow : simpl never.
Arguments Z.shiftr : simpl never.
Arguments Z.of_nat : simpl never.
Arguments Z.to_nat : simpl never.

Ltac pw :=
  change (2 ^ 8) with 256 in *; change (2 ^ 16) with 65536 in *; change (2 ^ 31) with 2147483648 in *;
  change (2 ^ 32) with 4294967296 in *; change (2 ^ 63) with 9223372036854775808 in *;
  change (2 ^ 64) with 18446744073709551616 in *.
Ltac zl := pw; lia.

(* ---- lengths ----------------------------------------------------------------------------------- *)
Lemma len_app {A} (a b : list A) : len (a ++ b) = len a + len b.
Proof. unfold len. rewrite app_length. lia. Qed.

Lemma len_cons {A} (x : A) (l : list A) : len (x :: l) = 1 + len l.
Proof. unfold len. cbn [length]. lia. Qed.

Lemma len_nil {A} : len (@nil A) = 0.
Proof. reflexivity. Qed.

Lemma len_nonneg {A} (l : list A) : 0 <= len l.
Proof. unfold len. lia. Qed.

Lemma len_map {A B} (f : A -> B) l : len (map f l) = len l.
Proof. unfold len. rewrite map_length. reflexivity. Qed.

Lemma nonempty_false {A} (l : list A) : nonempty l = false -> l = [].
Proof. destruct l; [reflexivity|]. unfold nonempty. rewrite len_cons. pose proof (len_nonneg l). lia. Qed.

Lemma nonempty_true {A} (l : list A) : nonempty l = true -> l <> [].
Proof. destruct l; [discriminate|]. discriminate. Qed.

Lemma len_flat_map_le {A} (f : A -> bytes) (l : list A) x : In x l -> len (f x) <= len (flat_map f l).
Proof.
  induction l as [|y l IH]; [contradiction|]. intros [->|Hin]; cbn [flat_map]; rewrite len_app.
  - pose proof (len_nonneg (flat_map f l)). lia.
  - specialize (IH Hin). pose proof (len_nonneg (f y)). lia.
Qed.

(* ---- parser plumbing ---------------------------------------------------------------------------- *)
Lemma bind_some {A B} (p : parser A) (f : A -> parser B) b a r :
  p b = Some (a, r) -> bind p f b = f a r.
Proof. unfold bind. intros ->. reflexivity. Qed.

Lemma pmap_some {A B} (g : A -> B) (p : parser A) b a r :
  p b = Some (a, r) -> pmap g p b = Some (g a, r).
Proof. unfold pmap. intros H. rewrite (bind_some _ _ _ _ _ H). reflexivity. Qed.

Lemma p_opt_true {A} (p : parser A) b a r : p b = Some (a, r) -> p_opt true p b = Some (Some a, r).
Proof. intros H. unfold p_opt. apply pmap_some, H. Qed.

Lemma p_opt_false {A} (p : parser A) b : p_opt false p b = Some (None, b).
Proof. reflexivity. Qed.

(* an optional field written as [if c then enc x else []] *)
Lemma p_opt_if {A} (c : bool) (p : parser A) (e : bytes) (x : A) rest :
  (c = true -> p (e ++ rest) = Some (x, rest)) ->
  p_opt c p ((if c then e else []) ++ rest) = Some (if c then Some x else None, rest).
Proof. destruct c; intros H; [apply p_opt_true, H; reflexivity | reflexivity]. Qed.

(* one parsing step: rewrite [bind p f (enc x ++ rest)] with the round-trip lemma L of p *)
Ltac pstep L := erewrite bind_some by (apply L; first [assumption | zl]).

(* p_list over the concatenation of encodings *)
Lemma p_list_flat_map {A B} (p : parser B) (enc : A -> bytes) (dec : A -> B) (l : list A) :
  (forall x rest, In x l -> p (enc x ++ rest) = Some (dec x, rest)) ->
  forall rest, p_list (length l) p (flat_map enc l ++ rest) = Some (map dec l, rest).
Proof.
  induction l as [|x l IH]; intros H rest; [reflexivity|].
  cbn [length p_list flat_map map]. rewrite <- app_assoc.
  rewrite (bind_some _ _ _ _ _ (H x _ (or_introl eq_refl))).
  rewrite (bind_some _ _ _ _ _ (IH (fun y r Hy => H y r (or_intror Hy)) rest)). reflexivity.
Qed.

(* ---- bytes --------------------------------------------------------------------------------------- *)
Lemma split_at_app (s rest : bytes) : split_at (s ++ rest) (len s) = Some (s, rest).
Proof.
  induction s as [|x s IH]; cbn [app split_at].
  - rewrite len_nil. destruct rest; reflexivity.
  - rewrite len_cons. pose proof (len_nonneg s).
    replace (1 + len s =? 0) with false by lia. replace (1 + len s - 1) with (len s) by lia.
    rewrite IH. reflexivity.
Qed.

Lemma p_take_app (s rest : bytes) : p_take (len s) (s ++ rest) = Some (s, rest).
Proof. unfold p_take. pose proof (len_nonneg s). replace (len s <? 0) with false by lia. apply split_at_app. Qed.

(* ---- integers ------------------------------------------------------------------------------------- *)
Lemma p_short_app_short_mod n rest : p_short (app_short n ++ rest) = Some (n mod 65536, rest).
Proof.
  unfold p_short, app_short, bind, p_byte, ret, byte_of. cbn [app].
  rewrite Z.shiftr_div_pow2 by lia. change (2 ^ 8) with 256. f_equal. f_equal. lia.
Qed.

Lemma p_short_app_short n rest : 0 <= n < 2 ^ 16 -> p_short (app_short n ++ rest) = Some (n, rest).
Proof. intros H. rewrite p_short_app_short_mod. change (2 ^ 16) with 65536 in H. rewrite Z.mod_small by lia. reflexivity. Qed.

Lemma app_int_shorts n : app_int n = app_short (Z.shiftr n 16) ++ app_short n.
Proof. unfold app_int, app_short. rewrite Z.shiftr_shiftr by lia. reflexivity. Qed.

Lemma p_uint32_app_int_mod n rest : p_uint32 (app_int n ++ rest) = Some (n mod 2 ^ 32, rest).
Proof.
  rewrite app_int_shorts, <- app_assoc. unfold p_uint32.
  rewrite (bind_some _ _ _ _ _ (p_short_app_short_mod _ _)).
  rewrite (bind_some _ _ _ _ _ (p_short_app_short_mod _ _)). unfold ret.
  rewrite Z.shiftr_div_pow2 by lia. change (2 ^ 16) with 65536. change (2 ^ 32) with 4294967296.
  f_equal. f_equal. lia.
Qed.

Lemma p_uint32_app_uint n rest : 0 <= n < 2 ^ 32 -> p_uint32 (app_uint n ++ rest) = Some (n, rest).
Proof. intros H. unfold app_uint. rewrite p_uint32_app_int_mod, Z.mod_small by lia. reflexivity. Qed.

Lemma p_int_app_int n rest : - 2 ^ 31 <= n < 2 ^ 31 -> p_int (app_int n ++ rest) = Some (n, rest).
Proof.
  intros H. unfold p_int. rewrite (bind_some _ _ _ _ _ (p_uint32_app_int_mod _ _)). unfold ret.
  change (2 ^ 31) with 2147483648 in *. change (2 ^ 32) with 4294967296.
  f_equal. f_equal. destruct (n mod 4294967296 <? 2147483648) eqn:E; lia.
Qed.

Lemma app_long_ints n : app_long n = app_int (Z.shiftr n 32) ++ app_int n.
Proof. unfold app_long, app_int. rewrite !Z.shiftr_shiftr by lia. reflexivity. Qed.

Lemma p_long_app_long n rest : - 2 ^ 63 <= n < 2 ^ 63 -> p_long (app_long n ++ rest) = Some (n, rest).
Proof.
  intros H. rewrite app_long_ints, <- app_assoc. unfold p_long.
  rewrite (bind_some _ _ _ _ _ (p_uint32_app_int_mod _ _)).
  rewrite (bind_some _ _ _ _ _ (p_uint32_app_int_mod _ _)). unfold ret.
  rewrite Z.shiftr_div_pow2 by lia.
  change (2 ^ 32) with 4294967296. change (2 ^ 63) with 9223372036854775808 in *.
  change (2 ^ 64) with 18446744073709551616.
  f_equal. f_equal.
  destruct (n / 4294967296 mod 4294967296 * 4294967296 + n mod 4294967296 <? 9223372036854775808) eqn:E; lia.
Qed.

(* the int32 / uint16 conversions are exact on small lengths *)
Lemma signed32_small n : 0 <= n < 2 ^ 31 -> signed 32 n = n.
Proof.
  intros H. unfold signed. change (32 - 1) with 31. change (2 ^ 31) with 2147483648 in *.
  change (2 ^ 32) with 4294967296. rewrite Z.mod_small by lia. destruct (n <? 2147483648) eqn:E; lia.
Qed.

Lemma signed32_range n : - 2 ^ 31 <= signed 32 n < 2 ^ 31.
Proof.
  unfold signed. change (32 - 1) with 31. change (2 ^ 31) with 2147483648. change (2 ^ 32) with 4294967296.
  destruct (n mod 4294967296 <? 2147483648) eqn:E; lia.
Qed.

Lemma wrap16_small n : 0 <= n < 2 ^ 16 -> wrap 16 n = n.
Proof. intros H. unfold wrap. apply Z.mod_small. assumption. Qed.

(* ---- strings, bytes, values --------------------------------------------------------------------------- *)
Lemma p_string_write s rest : len s < 2 ^ 16 -> p_string (write_string s ++ rest) = Some (s, rest).
Proof.
  intros H. pose proof (len_nonneg s). unfold p_string, write_string. rewrite <- app_assoc, wrap16_small by zl.
  rewrite (bind_some _ _ _ _ _ (p_short_app_short _ _ (conj H0 H))). apply p_take_app.
Qed.

Lemma p_short_bytes_write s rest : len s < 2 ^ 16 -> p_short_bytes (write_short_bytes s ++ rest) = Some (s, rest).
Proof. exact (p_string_write s rest). Qed.

Lemma p_long_string_write s rest : len s < 2 ^ 31 -> p_long_string (write_long_string s ++ rest) = Some (s, rest).
Proof.
  intros H. pose proof (len_nonneg s). unfold p_long_string, write_long_string.
  rewrite <- app_assoc, signed32_small by zl.
  pstep p_int_app_int. apply p_take_app.
Qed.

Definition olen (p : option bytes) : Z := match p with Some d => len d | None => 0 end.

Lemma p_bytes_write p rest : olen p < 2 ^ 31 -> p_bytes (write_bytes p ++ rest) = Some (p, rest).
Proof.
  intros H. unfold p_bytes, write_bytes. destruct p as [d|]; cbn [olen] in H.
  - pose proof (len_nonneg d). rewrite <- app_assoc, signed32_small by zl.
    pstep p_int_app_int.
    replace (len d <? 0) with false by lia. apply pmap_some, p_take_app.
  - pstep p_int_app_int. reflexivity.
Qed.

(* a non-null [bytes] read as "n then n bytes" (paging state) *)
Lemma p_int_take_write d rest : len d < 2 ^ 31 ->
  bind p_int (fun n => p_take n) (write_bytes (Some d) ++ rest) = Some (d, rest).
Proof.
  intros H. pose proof (len_nonneg d). unfold write_bytes. rewrite <- app_assoc, signed32_small by zl.
  pstep p_int_app_int. apply p_take_app.
Qed.

Definition value_of (p : option bytes) : value := match p with Some d => VBytes d | None => VNull end.

Lemma p_value_write v p rest : olen p < 2 ^ 31 -> p_value v (write_bytes p ++ rest) = Some (value_of p, rest).
Proof.
  intros H. unfold p_value, write_bytes. destruct p as [d|]; cbn [olen value_of] in *.
  - pose proof (len_nonneg d). rewrite <- app_assoc, signed32_small by zl.
    pstep p_int_app_int.
    replace (0 <=? len d) with true by lia. apply pmap_some, p_take_app.
  - pstep p_int_app_int.
    change (0 <=? -1) with false. cbv iota. destruct (v <? 4); reflexivity.
Qed.

Lemma p_value_unset v rest : p_value v (write_unset ++ rest) = Some (if v <? 4 then VNull else VUnset, rest).
Proof.
  unfold p_value, write_unset. pstep p_int_app_int.
  change (0 <=? -2) with false. cbv iota. destruct (v <? 4); reflexivity.
Qed.

(* ---- lists and maps ------------------------------------------------------------------------------------ *)
Lemma p_string_list_write (l : list bytes) rest :
  len l < 2 ^ 16 -> Forall (fun s => len s < 2 ^ 16) l ->
  p_string_list (write_string_list l ++ rest) = Some (l, rest).
Proof.
  intros Hl Hs. pose proof (len_nonneg l). unfold p_string_list, write_string_list.
  rewrite <- app_assoc, wrap16_small by zl.
  pstep p_short_app_short.
  unfold len. rewrite Nat2Z.id.
  rewrite (p_list_flat_map p_string write_string (fun s => s)).
  - rewrite map_id. reflexivity.
  - intros x r Hx. apply p_string_write. rewrite Forall_forall in Hs. apply Hs, Hx.
Qed.

Lemma p_string_map_write (m : list (bytes * bytes)) rest :
  len m < 2 ^ 16 -> Forall (fun kv => len (fst kv) < 2 ^ 16 /\ len (snd kv) < 2 ^ 16) m ->
  p_string_map (write_string_map m ++ rest) = Some (m, rest).
Proof.
  intros Hl Hs. pose proof (len_nonneg m). unfold p_string_map, write_string_map.
  rewrite <- app_assoc, wrap16_small by zl.
  pstep p_short_app_short.
  unfold len. rewrite Nat2Z.id.
  rewrite (p_list_flat_map _ (fun kv => write_string (fst kv) ++ write_string (snd kv)) (fun kv => kv)).
  - rewrite map_id. reflexivity.
  - intros [k x] r Hx. rewrite Forall_forall in Hs. destruct (Hs _ Hx) as [Hk Hv]. cbn [fst snd] in *.
    rewrite <- app_assoc.
    rewrite (bind_some _ _ _ _ _ (p_string_write _ _ Hk)).
    rewrite (bind_some _ _ _ _ _ (p_string_write _ _ Hv)). reflexivity.
Qed.

Lemma p_bytes_map_write (m : list (bytes * option bytes)) rest :
  len m < 2 ^ 16 -> Forall (fun kv => len (fst kv) < 2 ^ 16 /\ olen (snd kv) < 2 ^ 31) m ->
  p_bytes_map (write_bytes_map m ++ rest) = Some (m, rest).
Proof.
  intros Hl Hs. pose proof (len_nonneg m). unfold p_bytes_map, write_bytes_map.
  rewrite <- app_assoc, wrap16_small by zl.
  pstep p_short_app_short.
  unfold len. rewrite Nat2Z.id.
  rewrite (p_list_flat_map _ (fun kv => write_string (fst kv) ++ write_bytes (snd kv)) (fun kv => kv)).
  - rewrite map_id. reflexivity.
  - intros [k x] r Hx. rewrite Forall_forall in Hs. destruct (Hs _ Hx) as [Hk Hv]. cbn [fst snd] in *.
    rewrite <- app_assoc.
    rewrite (bind_some _ _ _ _ _ (p_string_write _ _ Hk)).
    rewrite (bind_some _ _ _ _ _ (p_bytes_write _ _ Hv)). reflexivity.
Qed.

(* lengths of the encodings (used to bound every [int] length by the size of the whole frame) *)
Lemma len_app_short n : len (app_short n) = 2. Proof. reflexivity. Qed.
Lemma len_app_int n : len (app_int n) = 4. Proof. reflexivity. Qed.
Lemma len_app_long n : len (app_long n) = 8. Proof. reflexivity. Qed.
Lemma len_write_string s : len (write_string s) = 2 + len s.
Proof. unfold write_string. rewrite len_app, len_app_short. reflexivity. Qed.
Lemma len_write_long_string s : len (write_long_string s) = 4 + len s.
Proof. unfold write_long_string. rewrite len_app, len_app_int. reflexivity. Qed.
Lemma len_write_bytes p : len (write_bytes p) = 4 + olen p.
Proof. destruct p; cbn [write_bytes olen]; [rewrite len_app, len_app_int; reflexivity | reflexivity]. Qed.
