(* C03/Props.v -- the proof obligations for property C03 (request frames on the wire), and nothing else.

   Vocabulary (all executable; Model.v, Spec.v, Meaning.v):
     build_frame comp v tracing now stream r   the model of Conn.exec's newFramer / trace / buildFrame for the
                                               request struct r (the eight write*Frame structs), protocol
                                               version v, optional compressor comp, clock reading now;
     decode_request decomp frame               the independent decoder written from the protocol specifications;
     asked tracing now r                       the logical request the fields of r describe;
     sent v tracing now r                      what a reader of the frame sees (= asked on expressible requests);
     expressible v r                           version v has a notation for everything r asks for;
     shorts_ok r                               every [short]-prefixed length and count is below 2^16;
     on_wire v r                               the message kind exists in v (false: AUTH_RESPONSE, BATCH on v1);
     well_typed now r                          the fields hold values of their Go types (uint16, int64, byte);
     stream_ok v s                             0 <= s < 128 (v1, v2) / 32768 (v3+);
     codec_ok comp decomp                      decomp inverts the plugged-in compressor (premise, as in C18). *)
From GocqlV Require Import Lib.Base Gen.Consts C03.Model C03.Spec C03.Meaning
  C03.Proofs1 C03.Proofs2 C03.Proofs3 C03.Proofs4.

(* T1. For every expressible request, every version 1-5, every stream id of the version, tracing on or off,
   with or without a compressor, any order of the map entries (maps are lists in iteration order): the
   frame that is built is accepted by the specification's decoder, which consumes it exactly and returns
   the negotiated version, the expected header flags, the stream id, the opcode of the request kind, the
   length of the body that follows, and exactly the logical request that was asked for.  No bound on the
   number or size of values, statements, strings: only the 16-bit count/length limits of the notation. *)
Theorem C03_decode_build :
  forall comp decomp v tracing now stream r out,
    1 <= v <= 5 -> stream_ok v stream -> codec_ok comp decomp ->
    well_typed now r = true -> shorts_ok r = true -> on_wire v r = true -> expressible v r = true ->
    build_frame comp v tracing now stream r = Ok out ->
    decode_request decomp out
    = Some (mkhdr v (expected_flags (has_comp comp) tracing v r) stream (opcode_of (asked_req now r))
                  (len out - head_size v),
            asked tracing now r).
Proof. exact decode_build_lemma. Qed.
Print Assumptions C03_decode_build.

(* T2. Header of every frame that is built, for EVERY request (expressible or not, any sizes): version byte
   = negotiated version with the request direction, flags = compression (never on STARTUP / OPTIONS) +
   tracing + custom payload + beta on v5, the stream id in 1 or 2 bytes, the opcode of the kind, and a
   length field equal to the number of bytes that follow the header (also when the body was compressed).
   Without a compressor the frame is at most maxFrameSize (256 MiB) long, so no [int] length can wrap. *)
Theorem C03_header :
  forall comp decomp v tracing now stream r out,
    1 <= v <= 5 -> stream_ok v stream -> codec_ok comp decomp ->
    build_frame comp v tracing now stream r = Ok out ->
    exists body,
      p_header out = Some (mkhdr v (expected_flags (has_comp comp) tracing v r) stream
                                 (opcode_of (asked_req now r)) (len body), body)
      /\ len out = head_size v + len body
      /\ (has_comp comp = false -> len out <= K.maxFrameSize).
Proof. exact header_of_built. Qed.
Print Assumptions C03_header.

(* T3. What is on the wire for every request whose 16-bit fields fit, expressible or not: the decoder
   accepts the frame and reads [sent v r].  Hence (T4) nothing malformed is ever produced for such a
   request, and the only differences from what was asked are the ones [sent] spells out (Refuted.v has
   one witness for each: unset -> null below v4, names dropped below v3 / when mixed, values dropped
   from a v1 QUERY, page size truncated to 32 bits, timestamp dropped below v3). *)
Theorem C03_wire_meaning :
  forall comp decomp v tracing now stream r out,
    1 <= v <= 5 -> stream_ok v stream -> codec_ok comp decomp ->
    well_typed now r = true -> shorts_ok r = true -> on_wire v r = true ->
    build_frame comp v tracing now stream r = Ok out ->
    decode_request decomp out
    = Some (mkhdr v (expected_flags (has_comp comp) tracing v r) stream (opcode_of (sent_req v now r))
                  (len out - head_size v),
            sent v tracing now r).
Proof. exact wire_meaning. Qed.
Print Assumptions C03_wire_meaning.

(* T4. "Never sent in a malformed form": whatever the request (expressible or not), the build either
   fails / panics or produces a frame the specification's decoder accepts and consumes exactly.
   Hypotheses: the narrowest ones the real code needs - 16-bit fields fit (refuted beyond: Refuted.v
   C03_value_count_65536_refuted, C03_string_65536_refuted, both outside the property's quantifier) and the
   message kind exists in the version (refuted for AUTH_RESPONSE on v1: C03_v1_auth_response_refuted, the
   known finding v1-auth-response-opcode; a v1 BATCH is refused by Conn.executeBatch, see T6). *)
Theorem C03_no_malformed :
  forall comp decomp v tracing now stream r,
    1 <= v <= 5 -> stream_ok v stream -> codec_ok comp decomp ->
    well_typed now r = true -> shorts_ok r = true -> on_wire v r = true ->
    match build_frame comp v tracing now stream r with
    | Ok out => exists h m, decode_request decomp out = Some (h, m) /\ h_length h = len out - head_size v
    | Err _ | Panic _ => True
    end.
Proof. exact no_malformed_lemma. Qed.
Print Assumptions C03_no_malformed.

(* T5. Requests the version has no notation for, and that cannot be sent in a well-formed lossy form, are
   refused: a custom payload below v4 panics before anything is written; a keyspace on QUERY / EXECUTE /
   PREPARE on v2-v4 and named values in a BATCH on v3-v5 never produce a frame. *)
Theorem C03_inexpressible_refused :
  forall comp v tracing now stream r,
    (1 <= v <= 5 -> v < 4 -> nonempty (payload_of r) = true ->
       build_frame comp v tracing now stream r = Panic PPayloadVersion)
    /\ (2 <= v <= 4 ->
        match r with
        | RQuery _ p _ | RExecute _ p _ => nonempty (qp_keyspace p) = true
        | RPrepare _ ks _ => nonempty ks = true
        | _ => False
        end -> forall out, build_frame comp v tracing now stream r <> Ok out)
    /\ (3 <= v <= 5 ->
        match r with
        | RBatch _ ss _ _ _ _ _ => existsb (fun b => existsb (fun q => nonempty (qv_name q)) (bs_values b)) ss = true
        | _ => False
        end -> forall out, build_frame comp v tracing now stream r <> Ok out).
Proof. exact inexpressible_refused_lemma. Qed.
Print Assumptions C03_inexpressible_refused.

(* T6. The only message kinds missing from a version are AUTH_RESPONSE and BATCH on v1, and the BATCH is
   stopped by Conn.executeBatch before a frame is built: AUTH_RESPONSE on v1 is the one request that
   reaches the wire in a form the version does not define (the known finding). *)
Theorem C03_missing_kinds :
  forall v r, 1 <= v <= 5 -> on_wire v r = false ->
    v = 1 /\ ((exists d, r = RAuthResponse d)
              \/ ((exists t ss c sc dts dtsv pl, r = RBatch t ss c sc dts dtsv pl) /\ conn_batch_refused v = true)).
Proof. exact missing_kinds_lemma. Qed.
Print Assumptions C03_missing_kinds.

(* T7. conn.go level: given an API call that version v can express (values uniformly named or positional,
   unset only from v4, payload only from v4, timestamp only from v3, page size an [int]), the request structs
   that Conn.executeQuery, UseKeyspace and prepareStatement fill are expressible - in particular the keyspace
   field is only ever set on v5, so the "keyspace below v5" panic of the builders is unreachable from
   conn.go.  Together with T1: the frame decodes to what the API call asked for. *)
Theorem C03_conn_requests_expressible :
  forall v ks q stmt prepared,
    2 <= v <= 5 -> api_expressible v q prepared = true ->
    expressible v (conn_execute_query v ks q stmt prepared) = true
    /\ expressible v (conn_use_keyspace (qi_cons q) ks) = true
    /\ expressible v (conn_prepare v ks stmt) = true.
Proof. exact conn_requests_expressible_lemma. Qed.
Print Assumptions C03_conn_requests_expressible.

(* T8. Session level: Session.executeBatch lets a batch through only if its size is at most the generated
   constant K.BatchSizeMaximum; every batch that gets past that guard and past Conn.executeBatch has a
   statement count that fits the [short] of the BATCH message (so that hypothesis shorts_ok of T1/T3/T4 is
   discharged for the count of batches sent through the public API).  Proved with the value constgen reads
   from session.go: a larger limit breaks this proof. *)
Theorem C03_session_batch_count_fits :
  forall version typ entries cl serial dts dtsv payload r,
    session_execute_batch version typ entries cl serial dts dtsv payload = Some r ->
    exists ss, r = RBatch typ ss cl serial dts dtsv payload /\ len ss = len entries /\ short_len ss = true.
Proof. exact session_batch_count_fits_lemma. Qed.
Print Assumptions C03_session_batch_count_fits.

(* ---- non-vacuity: the hypotheses are satisfiable by non-trivial values (tests, not theorems) ------------------ *)
Definition ex_comp : bytes -> option bytes := fun x => if len x <=? K.maxFrameSize then Some (9 :: x) else None.
Definition ex_decomp : bytes -> option bytes := fun z => match z with 9 :: x => Some x | _ => None end.

Lemma ex_codec_ok : codec_ok (Some ex_comp) ex_decomp.
Proof.
  intros x z. unfold ex_comp. destruct (len x <=? K.maxFrameSize) eqn:E; [|discriminate].
  intros H. injection H as <-. split; [reflexivity|]. intros _. unfold len in *. cbn [length].
  unfold K.maxFrameSize in E. change (2 ^ 31) with 2147483648. lia.
Qed.

Definition ex_request : request :=
  RExecute [171; 205; 1; 2]
    (mkqp 6 true [mkqv (Some [0; 0; 0; 42]) [105; 100] false; mkqv None [97] false; mkqv None [98] true]
          5000 [1; 2; 3] 9 true 1700000000000000 [])
    [([107], Some [1; 2]); ([108], None)].

Definition ex_frame : bytes :=
  match build_frame (Some ex_comp) 4 true 0 32767 ex_request with Ok out => out | _ => [] end.

Example C03_nonvacuous :
  codec_ok (Some ex_comp) ex_decomp /\ stream_ok 4 32767
  /\ well_typed 0 ex_request = true /\ shorts_ok ex_request = true /\ on_wire 4 ex_request = true
  /\ expressible 4 ex_request = true
  /\ build_frame (Some ex_comp) 4 true 0 32767 ex_request = Ok ex_frame
  /\ decode_request ex_decomp ex_frame = Some (mkhdr 4 7 32767 10 (len ex_frame - 9), asked true 0 ex_request)
  /\ api_expressible 4 (mkqi 6 9 true 1700000000000000 [1; 2; 3] 5000 [([107], Some [1; 2])])
                        (Some ([171; 205], [mkqv None [97] true], false)) = true
  /\ session_execute_batch 4 1 [([100], None)] 1 0 false 0 [] = Some (RBatch 1 [mkbs [] [100] []] 1 0 false 0 [])
  /\ (* premises of T5 *) nonempty (payload_of ex_request) = true
  /\ build_frame None 3 false 0 1 ex_request = Panic PPayloadVersion.
Proof.
  split; [exact ex_codec_ok|]. split; [unfold stream_ok; change (3 <=? 4) with true; lia|].
  split; [vm_compute; reflexivity|]. split; [vm_compute; reflexivity|]. split; [vm_compute; reflexivity|].
  split; [vm_compute; reflexivity|]. split; [vm_compute; reflexivity|]. split; [vm_compute; reflexivity|].
  split; [vm_compute; reflexivity|]. split; [vm_compute; reflexivity|]. split; vm_compute; reflexivity.
Qed.
