(* C03/Proofs2.v -- round trips of the message bodies: <query_parameters>, bound values, BATCH, PREPARE,
   EXECUTE; what the spec-side parser reads from the model's output is [sent] (Meaning.v). *)
From GocqlV Require Import Lib.Base Gen.Consts C03.Model C03.Spec C03.Meaning C03.Proofs1.

Arguments Z.mul : simpl never.
Arguments Z.add : simpl never.
Arguments Z.sub : simpl never.
Arguments Z.div : simpl never.
Arguments Z.modulo : simpl never.
Arguments Z.pow : simpl never.
Arguments Z.shiftr : simpl never.
Arguments Z.of_nat : simpl never.
Arguments Z.to_nat : simpl never.

(* every [len x] occurring in the goal is non-negative *)
Ltac len_pos :=
  repeat match goal with
         | |- context [len ?x] =>
             lazymatch goal with
             | _ : 0 <= len x |- _ => fail
             | _ => pose proof (len_nonneg x)
             end
         end.

(* a component of a concatenation is no longer than the whole: H : len (... ++ x ++ ...) < B *)
Ltac len_bound H :=
  let H' := fresh "Hlb" in
  pose proof H as H'; rewrite ?len_app, ?len_cons, ?len_write_string, ?len_write_long_string, ?len_write_bytes,
    ?len_app_short, ?len_app_int, ?len_app_long, ?len_nil in H'; cbn [olen] in H';
  revert H'; len_pos; intro; zl.

Lemma Ok_inj a b : Ok a = Ok b -> a = b.
Proof. congruence. Qed.

(* ---- flags ----------------------------------------------------------------------------------------- *)
Definition qflags (c1 c2 c3 c4 c5 c6 c7 c8 : bool) : Z :=
  or_if c8 (or_if c7 (or_if c6 (or_if c5 (or_if c4 (or_if c3 (or_if c2 (or_if c1 0 K.flagValues)
    K.flagSkipMetaData) K.flagPageSize) K.flagWithPagingState) K.flagWithSerialConsistency)
    K.flagDefaultTimestamp) K.flagWithNameValues) K.flagWithKeyspace.

Lemma qflags_spec c1 c2 c3 c4 c5 c6 c7 c8 :
  let f := qflags c1 c2 c3 c4 c5 c6 c7 c8 in
  has f 1 = c1 /\ has f 2 = c2 /\ has f 4 = c3 /\ has f 8 = c4 /\ has f 16 = c5 /\ has f 32 = c6
  /\ has f 64 = c7 /\ has f 128 = c8
  /\ 0 <= f < 256
  /\ within f 31 = negb (c6 || c7 || c8) /\ within f 127 = negb c8 /\ within f 255 = true.
Proof. destruct c1, c2, c3, c4, c5, c6, c7, c8; vm_compute; intuition congruence. Qed.

Lemma query_flags_eq proto o :
  query_flags proto o =
  qflags (nonempty (qp_values o)) (qp_skip_meta o) (0 <? qp_page_size o) (nonempty (qp_paging_state o))
         (0 <? qp_serial o) ((proto >? K.protoVersion2) && qp_default_ts o)
         ((proto >? K.protoVersion2) && first_named (qp_values o)) (nonempty (qp_keyspace o)).
Proof. reflexivity. Qed.

Definition bflags (c5 c6 c7 : bool) : Z :=
  or_if c6 (or_if c5 (or_if c7 0 K.flagWithNameValues) K.flagWithSerialConsistency) K.flagDefaultTimestamp.

Lemma bflags_spec c5 c6 :
  let f := bflags c5 c6 false in
  has f 16 = c5 /\ has f 32 = c6 /\ 0 <= f < 256 /\ within f 48 = true.
Proof. destruct c5, c6; vm_compute; intuition congruence. Qed.

(* one byte / four bytes of flags *)
Lemma p_query_flags_write v f rest : 0 <= f < 256 ->
  p_query_flags v ((if 5 <=? v then app_uint f else [f]) ++ rest) = Some (f, rest).
Proof.
  intros Hf. unfold p_query_flags. destruct (5 <=? v).
  - apply p_uint32_app_uint. zl.
  - reflexivity.
Qed.

(* ---- version tests in canonical form ------------------------------------------------------------------ *)
Section Version.
Variable v : Z.
Hypothesis Hv : 1 <= v <= 5.

Lemma proto_v : Z.land v K.protoVersionMask = v.
Proof.
  assert (C : v = 1 \/ v = 2 \/ v = 3 \/ v = 4 \/ v = 5) by lia.
  destruct C as [->|[->|[->|[->| ->]]]]; reflexivity.
Qed.
Lemma gt1 : (v >? K.protoVersion1) = (2 <=? v). Proof. unfold K.protoVersion1. lia. Qed.
Lemma gt2 : (v >? K.protoVersion2) = (3 <=? v). Proof. unfold K.protoVersion2. lia. Qed.
Lemma gt4 : (v >? K.protoVersion4) = (5 <=? v). Proof. unfold K.protoVersion4. lia. Qed.
Lemma eq1 : (v =? K.protoVersion1) = (v =? 1). Proof. reflexivity. Qed.
Lemma lt4 : (v <? K.protoVersion4) = negb (4 <=? v). Proof. unfold K.protoVersion4. lia. Qed.
Lemma le5 : (v <=? K.protoVersion5) = true. Proof. unfold K.protoVersion5. lia. Qed.
Lemma eq5 : (v =? K.protoVersion5) = (5 <=? v). Proof. unfold K.protoVersion5. lia. Qed.
Lemma s_le2 : (v <=? 2) = negb (3 <=? v). Proof. lia. Qed.
Lemma s_le4 : (v <=? 4) = negb (5 <=? v). Proof. lia. Qed.
Lemma s_lt4 : (v <? 4) = negb (4 <=? v). Proof. lia. Qed.
Lemma s_eq5 : (v =? 5) = (5 <=? v). Proof. lia. Qed.

(* ---- bound values --------------------------------------------------------------------------------------- *)
Definition value_fits (q : qvalue) : Prop := qv_unset q = false -> olen (qv_value q) < 2 ^ 31.

Lemma p_value_write_value q rest : value_fits q ->
  p_value v (write_value false q ++ rest) = Some (sent_value v q, rest).
Proof.
  intros Hq. unfold write_value, sent_value. cbn [app]. destruct (qv_unset q) eqn:U.
  - apply p_value_unset.
  - rewrite p_value_write by (apply Hq; exact U). destruct (qv_value q); reflexivity.
Qed.

Lemma p_named_value_write_value q rest : value_fits q -> len (qv_name q) < 2 ^ 16 ->
  bind p_string (fun k => bind (p_value v) (fun x => ret (k, x))) (write_value true q ++ rest)
  = Some ((qv_name q, sent_value v q), rest).
Proof.
  intros Hq Hn. unfold write_value. rewrite <- app_assoc. pstep p_string_write.
  erewrite bind_some by (apply (p_value_write_value q rest Hq)). reflexivity.
Qed.

Lemma write_value_fits names q B : len (write_value names q) < B -> B <= 2 ^ 31 -> value_fits q.
Proof.
  intros H HB U. unfold write_value in H. rewrite U in H. rewrite len_app, len_write_bytes in H.
  pose proof (len_nonneg (if names then write_string (qv_name q) else [])). zl.
Qed.

Lemma values_fit names vs B : len (flat_map (write_value names) vs) < B -> B <= 2 ^ 31 -> Forall value_fits vs.
Proof.
  intros H HB. apply Forall_forall. intros q Hq. apply (write_value_fits names q B); [|assumption].
  pose proof (len_flat_map_le (write_value names) vs q Hq). lia.
Qed.

Lemma p_values_positional vs rest : Forall value_fits vs ->
  p_list (length vs) (p_value v) (flat_map (write_value false) vs ++ rest) = Some (map (sent_value v) vs, rest).
Proof.
  intros H. apply p_list_flat_map. intros q r Hq. apply p_value_write_value.
  rewrite Forall_forall in H. apply H, Hq.
Qed.

Lemma p_values_named vs rest : Forall value_fits vs -> Forall (fun q => len (qv_name q) < 2 ^ 16) vs ->
  p_list (length vs) (bind p_string (fun k => bind (p_value v) (fun x => ret (k, x))))
         (flat_map (write_value true) vs ++ rest)
  = Some (map (fun q => (qv_name q, sent_value v q)) vs, rest).
Proof.
  intros H Hn. apply p_list_flat_map. intros q r Hq. rewrite Forall_forall in H, Hn.
  apply p_named_value_write_value; [apply H, Hq | apply Hn, Hq].
Qed.

Lemma values_short_spec vs : values_short vs = true ->
  len vs < 2 ^ 16 /\ Forall (fun q => len (qv_name q) < 2 ^ 16) vs.
Proof.
  unfold values_short, short_len. intros H. apply andb_true_iff in H. destruct H as [H1 H2].
  split; [lia|]. apply Forall_forall. intros q Hq. rewrite forallb_forall in H2. specialize (H2 q Hq). lia.
Qed.

Lemma p_bound_write (names : bool) vs rest :
  values_short vs = true -> Forall value_fits vs ->
  p_bound v names (app_short (wrap 16 (len vs)) ++ flat_map (write_value names) vs ++ rest)
  = Some (if names then Named (map (fun q => (qv_name q, sent_value v q)) vs)
          else Positional (map (sent_value v) vs), rest).
Proof.
  intros Hs Hf. apply values_short_spec in Hs. destruct Hs as [Hl Hn]. pose proof (len_nonneg vs).
  unfold p_bound. rewrite wrap16_small by zl. pstep p_short_app_short.
  unfold len. rewrite Nat2Z.id. destruct names.
  - apply pmap_some. apply p_values_named; assumption.
  - apply pmap_some. apply p_values_positional; assumption.
Qed.

(* ---- <query_parameters> ------------------------------------------------------------------------------------ *)
Lemma params_typed_spec p : params_typed p = true ->
  0 <= qp_cons p < 2 ^ 16 /\ 0 <= qp_serial p < 2 ^ 16 /\ - 2 ^ 63 <= qp_default_ts_value p < 2 ^ 63.
Proof. unfold params_typed, uint16, int64. intros H. zl. Qed.

Lemma p_query_params_write now o b rest :
  write_query_params v now o = Ok b ->
  params_typed o = true -> - 2 ^ 63 <= now < 2 ^ 63 -> params_short o = true -> len b < 2 ^ 31 ->
  p_query_params v (b ++ rest) = Some (sent_params v now o, rest).
Proof.
  intros Hw Ht Hnow Hs Hlen. apply params_typed_spec in Ht. destruct Ht as (Hc & Hsc & Hts).
  unfold params_short in Hs. apply andb_true_iff in Hs. destruct Hs as [Hvs Hks].
  unfold write_query_params in Hw. rewrite eq1, gt2, gt4 in Hw.
  unfold p_query_params, sent_params. destruct (v =? 1) eqn:E1.
  { apply Ok_inj in Hw. subst b. unfold write_consistency. pstep p_short_app_short. reflexivity. }
  destruct (nonempty (qp_keyspace o) && negb (5 <=? v)) eqn:EK; [discriminate|].
  apply Ok_inj in Hw. subst b. rewrite query_flags_eq, gt2 in *.
  set (c6 := (3 <=? v) && qp_default_ts o) in *.
  set (c7 := (3 <=? v) && first_named (qp_values o)) in *.
  match goal with |- context [qflags ?a ?b ?c ?d ?e ?f ?g ?h] =>
    pose proof (qflags_spec a b c d e f g h) as F; set (fl := qflags a b c d e f g h) in * end.
  cbv zeta in F. destruct F as (F1 & F2 & F3 & F4 & F5 & F6 & F7 & F8 & Fr & W31 & W127 & W255).
  unfold write_consistency at 1. rewrite <- !app_assoc.
  pstep p_short_app_short.
  erewrite bind_some by (apply p_query_flags_write; exact Fr).
  (* flags defined for the version *)
  assert (Wok : within fl (qflags_mask v) = true).
  { unfold qflags_mask. rewrite s_le2, s_le4. subst c6 c7.
    destruct (3 <=? v) eqn:E3, (5 <=? v) eqn:E5; cbn [negb andb orb] in *; try lia; try assumption.
    - rewrite W127. destruct (nonempty (qp_keyspace o)); [discriminate | reflexivity].
    - rewrite W31. destruct (nonempty (qp_keyspace o)); [discriminate | reflexivity]. }
  rewrite Wok. cbn [negb]. rewrite F1, F2, F3, F4, F5, F6, F7, F8.
  (* values *)
  assert (Hfit : Forall value_fits (qp_values o)).
  { destruct (nonempty (qp_values o)) eqn:EV.
    - eapply (values_fit c7 _ (2 ^ 31)); [|lia]. len_bound Hlen.
    - apply nonempty_false in EV. rewrite EV. constructor. }
  erewrite bind_some with (a := sent_bound v (qp_values o)).
  2:{ unfold sent_bound. fold c7. destruct (nonempty (qp_values o)) eqn:EV.
      - rewrite <- !app_assoc. apply p_bound_write; assumption.
      - apply nonempty_false in EV. subst c7. rewrite EV. cbn [first_named map app]. rewrite andb_false_r. reflexivity. }
  (* page size, paging state, serial consistency, timestamp, keyspace *)
  erewrite bind_some.
  2:{ apply p_opt_if. intros _. apply p_int_app_int, signed32_range. }
  erewrite bind_some.
  2:{ apply p_opt_if. intros C. rewrite C in Hlen. apply p_int_take_write. len_bound Hlen. }
  erewrite bind_some.
  2:{ apply p_opt_if. intros _. unfold write_consistency. apply p_short_app_short. assumption. }
  erewrite bind_some.
  2:{ apply p_opt_if. intros _. apply p_long_app_long. destruct (qp_default_ts_value o =? 0); assumption. }
  erewrite bind_some.
  2:{ apply p_opt_if. intros _. apply p_string_write. unfold short_len in Hks. lia. }
  unfold ret, opt_if, ts_value. subst c6. reflexivity.
Qed.

(* ---- sequencing --------------------------------------------------------------------------------------------- *)
Lemma seqr_ok a c b : seqr a c = Ok b -> exists x y, a = Ok x /\ c = Ok y /\ b = x ++ y.
Proof.
  unfold seqr. destruct a as [x| |]; try discriminate. destruct c as [y| |]; try discriminate.
  intros H. apply Ok_inj in H. eauto.
Qed.

Lemma seq_all_each {A} (f : A -> res) l b : seq_all f l = Ok b -> forall x, In x l -> exists bx, f x = Ok bx.
Proof.
  revert b. induction l as [|y l IH]; intros b H x Hx; [contradiction|].
  cbn [seq_all] in H. apply seqr_ok in H. destruct H as (by_ & bl & Hy & Hl & _).
  destruct Hx as [->|Hx]; [eauto | eapply IH; eauto].
Qed.

Lemma p_list_seq_all {A B} (p : parser B) (f : A -> res) (dec : A -> B) (Bd : Z) l :
  (forall x bx rest, In x l -> f x = Ok bx -> len bx < Bd -> p (bx ++ rest) = Some (dec x, rest)) ->
  forall b rest, seq_all f l = Ok b -> len b < Bd ->
  p_list (length l) p (b ++ rest) = Some (map dec l, rest).
Proof.
  induction l as [|x l IH]; intros H b rest Hs Hb.
  - apply Ok_inj in Hs. subst b. reflexivity.
  - cbn [seq_all] in Hs. apply seqr_ok in Hs. destruct Hs as (bx & bl & Hx & Hl & ->).
    rewrite len_app in Hb. pose proof (len_nonneg bx). pose proof (len_nonneg bl).
    cbn [length p_list map]. rewrite <- app_assoc.
    erewrite bind_some by (apply (H x bx); [left; reflexivity | exact Hx | lia]).
    erewrite bind_some by (apply IH; [intros y by_ r Hy; apply H; right; exact Hy | exact Hl | lia]).
    reflexivity.
Qed.

(* ---- BATCH ------------------------------------------------------------------------------------------------------- *)
Lemma write_batch_value_ok q bq :
  write_batch_value v q = Ok bq ->
  bq = (if qv_unset q then write_unset else write_bytes (qv_value q))
  /\ ((3 <=? v) && nonempty (qv_name q) = false).
Proof.
  unfold write_batch_value. rewrite gt2, le5. destruct ((3 <=? v) && nonempty (qv_name q)); [discriminate|].
  intros H. apply Ok_inj in H. auto.
Qed.

Lemma p_batch_value q bq rest :
  write_batch_value v q = Ok bq -> len bq < 2 ^ 31 -> p_value v (bq ++ rest) = Some (sent_value v q, rest).
Proof.
  intros H Hb. apply write_batch_value_ok in H. destruct H as [-> _].
  apply (p_value_write_value q rest). intros U. rewrite U, len_write_bytes in Hb. lia.
Qed.

Lemma p_batch_query_write s bs rest :
  write_batch_stmt v s = Ok bs -> len bs < 2 ^ 31 ->
  len (bs_id s) < 2 ^ 16 -> len (bs_values s) < 2 ^ 16 ->
  p_batch_query v (bs ++ rest) = Some (sent_bquery v s, rest).
Proof.
  intros H Hb Hid Hn. unfold write_batch_stmt in H. apply seqr_ok in H.
  destruct H as (x & y & Hx & Hy & ->). apply Ok_inj in Hx. subst x.
  pose proof (len_nonneg (bs_values s)). pose proof (len_nonneg (bs_id s)).
  unfold p_batch_query, sent_bquery. rewrite wrap16_small in * by zl.
  assert (Hvals : forall r, p_list (length (bs_values s)) (p_value v) (y ++ r) = Some (map (sent_value v) (bs_values s), r)).
  { intros r. apply (p_list_seq_all (p_value v) (write_batch_value v) (sent_value v) (2 ^ 31)); [|exact Hy|].
    - intros q bq r' _ Hq Hl. apply p_batch_value; assumption.
    - len_bound Hb. }
  destruct (len (bs_id s) =? 0) eqn:E.
  - cbn [app]. unfold bind at 1. unfold p_byte. change (0 =? 0) with true. cbv iota.
    rewrite <- !app_assoc.
    erewrite bind_some by (apply pmap_some, p_long_string_write; len_bound Hb).
    pstep p_short_app_short. unfold len at 1. rewrite Nat2Z.id.
    erewrite bind_some by (apply Hvals). reflexivity.
  - cbn [app]. unfold bind at 1. unfold p_byte. change (1 =? 0) with false. change (1 =? 1) with true. cbv iota.
    rewrite <- !app_assoc.
    erewrite bind_some by (apply pmap_some, p_short_bytes_write; assumption).
    pstep p_short_app_short. unfold len at 1. rewrite Nat2Z.id.
    erewrite bind_some by (apply Hvals). reflexivity.
Qed.

Lemma batch_not_named stmts b : seq_all (write_batch_stmt v) stmts = Ok b -> batch_named v stmts = false.
Proof.
  intros H. unfold batch_named. rewrite gt2. destruct (3 <=? v) eqn:E3; [|reflexivity]. cbn [andb].
  apply not_true_is_false. intros Hex. apply existsb_exists in Hex. destruct Hex as (s & Hs & Hex).
  apply existsb_exists in Hex. destruct Hex as (q & Hq & Hn).
  destruct (seq_all_each _ _ _ H s Hs) as (bs & Hbs). unfold write_batch_stmt in Hbs.
  apply seqr_ok in Hbs. destruct Hbs as (_ & y & _ & Hy & _).
  destruct (seq_all_each _ _ _ Hy q Hq) as (bq & Hbq). apply write_batch_value_ok in Hbq.
  destruct Hbq as [_ Hbq]. rewrite E3, Hn in Hbq. discriminate.
Qed.

Lemma p_batch_write now typ stmts cl serial dts dtsv b rest :
  write_batch_body v now typ stmts cl serial dts dtsv = Ok b -> len b < 2 ^ 31 ->
  2 <= v -> 0 <= typ < 256 -> 0 <= cl < 2 ^ 16 -> 0 <= serial < 2 ^ 16 ->
  - 2 ^ 63 <= dtsv < 2 ^ 63 -> - 2 ^ 63 <= now < 2 ^ 63 ->
  len stmts < 2 ^ 16 -> Forall (fun s => len (bs_id s) < 2 ^ 16 /\ len (bs_values s) < 2 ^ 16) stmts ->
  p_batch v (b ++ rest)
  = Some (Batch typ (map (sent_bquery v) stmts) cl (opt_if ((3 <=? v) && (0 <? serial)) serial)
                (opt_if ((3 <=? v) && dts) (ts_value now dtsv)), rest).
Proof.
  intros H Hb Hv2 Ht Hc Hsc Hts Hnow Hn Hss. unfold write_batch_body in H. rewrite gt2, gt4 in H.
  apply seqr_ok in H. destruct H as (x & y & Hx & Hy & ->). apply Ok_inj in Hx. subst x.
  apply seqr_ok in Hy. destruct Hy as (ys & yt & Hys & Hyt & ->). apply Ok_inj in Hyt. subst yt.
  rewrite (batch_not_named _ _ Hys) in *. pose proof (len_nonneg stmts).
  unfold p_batch. cbn [app]. unfold bind at 1. unfold p_byte.
  unfold byte_of. rewrite Z.mod_small by lia. rewrite wrap16_small in * by zl.
  rewrite <- !app_assoc. pstep p_short_app_short. unfold len at 1. rewrite Nat2Z.id.
  erewrite bind_some.
  2:{ apply (p_list_seq_all (p_batch_query v) (write_batch_stmt v) (sent_bquery v) (2 ^ 31)); [|exact Hys|].
      - intros s bs r Hin Hs Hl. rewrite Forall_forall in Hss. destruct (Hss s Hin).
        apply p_batch_query_write; assumption.
      - len_bound Hb. }
  unfold write_consistency at 1. pstep p_short_app_short. rewrite s_le2.
  destruct (3 <=? v) eqn:E3; cbn [negb andb opt_if].
  - match goal with |- context [or_if dts (or_if ?c5 (or_if false 0 _) _) _] =>
      pose proof (bflags_spec c5 dts) as F; change (or_if dts (or_if c5 (or_if false 0 K.flagWithNameValues)
         K.flagWithSerialConsistency) K.flagDefaultTimestamp) with (bflags c5 dts false) in * end.
    cbv zeta in F. destruct F as (F5 & F6 & Fr & W).
    rewrite <- !app_assoc.
    erewrite bind_some by (apply p_query_flags_write; exact Fr).
    rewrite W, F5, F6. cbn [negb].
    erewrite bind_some.
    2:{ apply p_opt_if. intros _. unfold write_consistency. apply p_short_app_short. assumption. }
    erewrite bind_some.
    2:{ apply p_opt_if. intros _. apply p_long_app_long. destruct (dtsv =? 0); assumption. }
    reflexivity.
  - cbn [app]. reflexivity.
Qed.

(* ---- PREPARE ------------------------------------------------------------------------------------------------------- *)
Lemma p_prepare_write stmt ks b rest :
  write_prepare_body v stmt ks = Ok b -> len b < 2 ^ 31 -> len ks < 2 ^ 16 ->
  p_prepare v (b ++ rest) = Some (Prepare stmt (opt_if (nonempty ks) ks), rest).
Proof.
  intros H Hb Hks. unfold write_prepare_body in H. rewrite gt4 in H.
  destruct (nonempty ks && negb (5 <=? v)) eqn:EK; [discriminate|]. apply Ok_inj in H. subst b.
  unfold p_prepare. rewrite <- !app_assoc.
  erewrite bind_some by (apply p_long_string_write; len_bound Hb).
  rewrite s_le4. destruct (5 <=? v) eqn:E5; cbn [negb].
  - erewrite bind_some by (apply p_uint32_app_uint; destruct (nonempty ks); vm_compute; intuition congruence).
    replace (within (or_if (nonempty ks) 0 K.flagWithPreparedKeyspace) 1) with true by (destruct (nonempty ks); reflexivity).
    replace (has (or_if (nonempty ks) 0 K.flagWithPreparedKeyspace) 1) with (nonempty ks) by (destruct (nonempty ks); reflexivity).
    cbn [negb].
    erewrite bind_some.
    2:{ apply p_opt_if. intros _. apply p_string_write. assumption. }
    reflexivity.
  - rewrite andb_true_r in EK. rewrite EK. cbn [app opt_if]. reflexivity.
Qed.

(* ---- EXECUTE ------------------------------------------------------------------------------------------------------- *)
Lemma p_execute_write now id p b rest :
  write_execute_body v now id p = Ok b -> len b < 2 ^ 31 ->
  params_typed p = true -> - 2 ^ 63 <= now < 2 ^ 63 -> params_short p = true -> len id < 2 ^ 16 ->
  p_execute v (b ++ rest) = Some (sent_req v now (RExecute id p []), rest).
Proof.
  intros H Hb Ht Hnow Hs Hid. unfold write_execute_body in H. rewrite gt1 in H.
  apply seqr_ok in H. destruct H as (x & y & Hx & Hy & ->). apply Ok_inj in Hx. subst x.
  unfold p_execute. cbn [sent_req]. rewrite <- app_assoc.
  erewrite bind_some by (apply p_short_bytes_write; assumption).
  destruct (v =? 1) eqn:E1.
  - replace (2 <=? v) with false in Hy by lia. apply Ok_inj in Hy. subst y.
    pose proof Hs as Hs'. unfold params_short in Hs'. apply andb_true_iff in Hs'. destruct Hs' as [Hvs _].
    destruct (values_short_spec _ Hvs) as [Hl _]. pose proof (len_nonneg (qp_values p)).
    destruct (params_typed_spec _ Ht) as (Hc & _).
    rewrite wrap16_small in * by zl. rewrite <- !app_assoc.
    pstep p_short_app_short. unfold len at 1. rewrite Nat2Z.id.
    erewrite bind_some.
    2:{ apply p_values_positional. eapply (values_fit false _ (2 ^ 31)); [|lia]. len_bound Hb. }
    unfold write_consistency. pstep p_short_app_short. reflexivity.
  - replace (2 <=? v) with true in Hy by lia.
    erewrite bind_some by (apply (p_query_params_write now p y rest Hy Ht Hnow Hs); len_bound Hb).
    reflexivity.
Qed.

End Version.
