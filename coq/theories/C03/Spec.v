(* C03/Spec.v -- an independent decoder for CQL native-protocol REQUEST frames.

   Written from the native protocol specifications v1-v4 (native_protocol_v{1,2,3,4}.spec: section 2
   "Frame header", section 3 "Notations", section 4.1 "Requests") and, for version 5, from "v4 plus
   the v5-beta changes" the property names: [int] query/batch flags, keyspace flag 0x80 on QUERY/EXECUTE
   parameters, PREPARE <flags>[<keyspace>], USE_BETA header flag 0x10.  Nothing here refers to the Go
   code or to Gen/Consts.v: opcodes, flag bits and field orders are the specification's.

   [decode_request decomp frame] returns the header fields and the logical request, or None if the
   frame is not a well-formed request frame of the version its first byte announces (unknown opcode for
   that version, undefined flag bits, length field different from the body that follows, a field that
   runs past the end of the body, bytes left over after the last field). *)
From GocqlV Require Import Lib.Base.

(* ---- logical requests ------------------------------------------------------------------------ *)
Inductive value := VNull | VUnset | VBytes (b : bytes).

(* bound values: all positional or all named (the 0x40 flag is per request) *)
Inductive bound := Positional (vs : list value) | Named (nvs : list (bytes * value)).

Record qopts := mkqopts {
  q_consistency : Z;
  q_values : bound;
  q_skip_metadata : bool;
  q_page_size : option Z;
  q_paging_state : option bytes;
  q_serial_consistency : option Z;
  q_timestamp : option Z;
  q_keyspace : option bytes }.

Inductive bquery := BQuery (stmt : bytes) | BPrepared (id : bytes).

Inductive req :=
| Startup (options : list (bytes * bytes))
| Options
| AuthResponse (token : option bytes)
| Register (events : list bytes)
| Query (stmt : bytes) (o : qopts)
| Prepare (stmt : bytes) (keyspace : option bytes)
| Execute (id : bytes) (o : qopts)
| Batch (typ : Z) (queries : list (bquery * list value)) (consistency : Z)
        (serial_consistency : option Z) (timestamp : option Z).

Record message := mkmsg {
  m_tracing : bool;                                   (* header flag 0x02 *)
  m_payload : option (list (bytes * option bytes));   (* header flag 0x04: [bytes map] before the body *)
  m_req : req }.

Record header := mkhdr { h_version : Z; h_flags : Z; h_stream : Z; h_opcode : Z; h_length : Z }.

(* opcode table, section 2.4 *)
Definition opcode_of (r : req) : Z :=
  match r with
  | Startup _ => 1 | Options => 5 | Query _ _ => 7 | Prepare _ _ => 9 | Execute _ _ => 10
  | Register _ => 11 | Batch _ _ _ _ _ => 13 | AuthResponse _ => 15
  end.

(* ---- parser combinators ----------------------------------------------------------------------- *)
Definition parser (A : Type) := bytes -> option (A * bytes).
Definition ret {A} (a : A) : parser A := fun b => Some (a, b).
Definition fail {A} : parser A := fun _ => None.
Definition bind {A B} (p : parser A) (f : A -> parser B) : parser B :=
  fun b => match p b with Some (a, r) => f a r | None => None end.
Notation "x <- p ;; q" := (bind p (fun x => q)) (at level 61, p at next level, right associativity).
Definition pmap {A B} (f : A -> B) (p : parser A) : parser B := x <- p ;; ret (f x).

Definition p_opt {A} (c : bool) (p : parser A) : parser (option A) :=
  if c then pmap Some p else ret None.

Fixpoint p_list {A} (n : nat) (p : parser A) : parser (list A) :=
  match n with
  | O => ret []
  | S k => x <- p ;; xs <- p_list k p ;; ret (x :: xs)
  end.

(* ---- section 3: notations ----------------------------------------------------------------------- *)
Definition p_byte : parser Z := fun b => match b with x :: r => Some (x, r) | [] => None end.

(* n bytes, exactly (fails when fewer than n are left); structural on the input so that a huge
   length field costs nothing *)
Fixpoint split_at (b : bytes) (n : Z) : option (bytes * bytes) :=
  if n =? 0 then Some ([], b) else
  match b with
  | [] => None
  | x :: r => match split_at r (n - 1) with
              | Some (a, c) => Some (x :: a, c)
              | None => None
              end
  end.
Definition p_take (n : Z) : parser bytes := fun b => if n <? 0 then None else split_at b n.

(* [short]: 2 bytes unsigned, big-endian *)
Definition p_short : parser Z := b1 <- p_byte ;; b0 <- p_byte ;; ret (b1 * 256 + b0).
(* 4 bytes unsigned *)
Definition p_uint32 : parser Z := h <- p_short ;; l <- p_short ;; ret (h * 65536 + l).
(* [int]: 4 bytes signed *)
Definition p_int : parser Z := u <- p_uint32 ;; ret (if u <? 2 ^ 31 then u else u - 2 ^ 32).
(* [long]: 8 bytes signed *)
Definition p_long : parser Z :=
  h <- p_uint32 ;; l <- p_uint32 ;; let u := h * 2 ^ 32 + l in ret (if u <? 2 ^ 63 then u else u - 2 ^ 64).
(* signed stream ids *)
Definition p_int8 : parser Z := b <- p_byte ;; ret (if b <? 128 then b else b - 256).
Definition p_int16 : parser Z := u <- p_short ;; ret (if u <? 32768 then u else u - 65536).

(* [string]: [short] n + n bytes;  [long string]: [int] n + n bytes *)
Definition p_string : parser bytes := n <- p_short ;; p_take n.
Definition p_long_string : parser bytes := n <- p_int ;; p_take n.   (* n < 0 is rejected by p_take *)
(* [bytes]: [int] n, n bytes if n >= 0, null if n < 0 *)
Definition p_bytes : parser (option bytes) :=
  n <- p_int ;; if n <? 0 then ret None else pmap Some (p_take n).
(* [short bytes] *)
Definition p_short_bytes : parser bytes := n <- p_short ;; p_take n.
(* [value] (v4+): -1 null, -2 not set, < -2 invalid.  Before v4 a bound value is a [bytes]. *)
Definition p_value (v : Z) : parser value :=
  n <- p_int ;;
  if 0 <=? n then pmap VBytes (p_take n)
  else if v <? 4 then ret VNull
  else if n =? -1 then ret VNull
  else if n =? -2 then ret VUnset
  else fail.
Definition p_string_list : parser (list bytes) := n <- p_short ;; p_list (Z.to_nat n) p_string.
Definition p_string_map : parser (list (bytes * bytes)) :=
  n <- p_short ;; p_list (Z.to_nat n) (k <- p_string ;; x <- p_string ;; ret (k, x)).
Definition p_bytes_map : parser (list (bytes * option bytes)) :=
  n <- p_short ;; p_list (Z.to_nat n) (k <- p_string ;; x <- p_bytes ;; ret (k, x)).

Definition has (flags bit : Z) : bool := negb (Z.land flags bit =? 0).
(* no bit outside [mask] *)
Definition within (flags mask : Z) : bool := Z.ldiff flags mask =? 0.

(* ---- section 4.1.4: <query_parameters> --------------------------------------------------------- *)
(* flags: 0x01 values, 0x02 skip_metadata, 0x04 page_size, 0x08 with_paging_state,
   0x10 with_serial_consistency, 0x20 with_default_timestamp (v3+), 0x40 with_names_for_values (v3+),
   0x80 with_keyspace (v5).  One byte in v2-v4, [int] in v5. *)
Definition qflags_mask (v : Z) : Z := if v <=? 2 then 31 else if v <=? 4 then 127 else 255.

Definition p_query_flags (v : Z) : parser Z := if 5 <=? v then p_uint32 else p_byte.

Definition p_bound (v : Z) (named : bool) : parser bound :=
  n <- p_short ;;
  if named then pmap Named (p_list (Z.to_nat n) (k <- p_string ;; x <- p_value v ;; ret (k, x)))
  else pmap Positional (p_list (Z.to_nat n) (p_value v)).

Definition p_query_params (v : Z) : parser qopts :=
  c <- p_short ;;
  if v =? 1 then ret (mkqopts c (Positional []) false None None None None None) else
  fl <- p_query_flags v ;;
  if negb (within fl (qflags_mask v)) then fail else
  vals <- (if has fl 1 then p_bound v (has fl 64) else ret (Positional [])) ;;
  ps <- p_opt (has fl 4) p_int ;;
  st <- p_opt (has fl 8) (n <- p_int ;; p_take n) ;;
  sc <- p_opt (has fl 16) p_short ;;
  ts <- p_opt (has fl 32) p_long ;;
  ks <- p_opt (has fl 128) p_string ;;
  ret (mkqopts c vals (has fl 2) ps st sc ts ks).

(* ---- section 4.1.7: BATCH ------------------------------------------------------------------------ *)
Definition p_batch_query (v : Z) : parser (bquery * list value) :=
  k <- p_byte ;;
  q <- (if k =? 0 then pmap BQuery p_long_string
        else if k =? 1 then pmap BPrepared p_short_bytes else fail) ;;
  n <- p_short ;;
  vs <- p_list (Z.to_nat n) (p_value v) ;;
  ret (q, vs).

(* batch flags (v3+): 0x10 serial consistency, 0x20 default timestamp.  0x40 (names for values) cannot be
   decoded - the names precede the flags (CASSANDRA-10246, "broken, do not use") - and is rejected. *)
Definition p_batch (v : Z) : parser req :=
  t <- p_byte ;;
  n <- p_short ;;
  qs <- p_list (Z.to_nat n) (p_batch_query v) ;;
  c <- p_short ;;
  if v <=? 2 then ret (Batch t qs c None None) else
  fl <- p_query_flags v ;;
  if negb (within fl 48) then fail else
  sc <- p_opt (has fl 16) p_short ;;
  ts <- p_opt (has fl 32) p_long ;;
  ret (Batch t qs c sc ts).

(* ---- section 4.1: message bodies by opcode and version -------------------------------------------- *)
Definition p_prepare (v : Z) : parser req :=
  s <- p_long_string ;;
  if v <=? 4 then ret (Prepare s None) else
  fl <- p_uint32 ;;
  if negb (within fl 1) then fail else
  ks <- p_opt (has fl 1) p_string ;;
  ret (Prepare s ks).

Definition p_execute (v : Z) : parser req :=
  id <- p_short_bytes ;;
  if v =? 1 then
    (* v1: <id><n><value_1>...<value_n><consistency> *)
    n <- p_short ;; vs <- p_list (Z.to_nat n) (p_value v) ;; c <- p_short ;;
    ret (Execute id (mkqopts c (Positional vs) false None None None None None))
  else o <- p_query_params v ;; ret (Execute id o).

Definition p_body (v opcode : Z) : parser req :=
  match opcode with
  | 1 => pmap Startup p_string_map
  | 5 => ret Options
  | 7 => s <- p_long_string ;; o <- p_query_params v ;; ret (Query s o)
  | 9 => p_prepare v
  | 10 => p_execute v
  | 11 => pmap Register p_string_list
  | 13 => if 2 <=? v then p_batch v else fail            (* BATCH exists from v2 *)
  | 15 => if 2 <=? v then pmap AuthResponse p_bytes else fail   (* AUTH_RESPONSE exists from v2; v1 has CREDENTIALS 0x04 *)
  | _ => fail
  end.

(* ---- section 2: frame header ---------------------------------------------------------------------- *)
Definition p_header : parser header :=
  vb <- p_byte ;;
  if negb ((1 <=? vb) && (vb <=? 5)) then fail else       (* direction bit clear, versions 1..5 *)
  fl <- p_byte ;;
  st <- (if vb <=? 2 then p_int8 else p_int16) ;;
  if st <? 0 then fail else                                (* negative ids are reserved for the server *)
  op <- p_byte ;;
  ln <- p_int ;;
  if ln <? 0 then fail else ret (mkhdr vb fl st op ln).

(* header flags: 0x01 compression, 0x02 tracing, 0x04 custom payload (v4+; QUERY, PREPARE, EXECUTE, BATCH),
   0x10 use-beta (mandatory on v5 as implemented here).  0x08 (warning) is response-only. *)
Definition payload_opcode (op : Z) : bool := (op =? 7) || (op =? 9) || (op =? 10) || (op =? 13).
Definition hflags_ok (v op fl : Z) : bool :=
  within fl (3 + (if (4 <=? v) && payload_opcode op then 4 else 0) + (if v =? 5 then 16 else 0))
  && (if v =? 5 then has fl 16 else true)
  && negb (has fl 1 && (op =? 1)).                         (* a STARTUP message is never compressed *)

Definition p_message (v fl op : Z) : parser message :=
  pl <- p_opt (has fl 4) p_bytes_map ;;
  r <- p_body v op ;;
  ret (mkmsg (has fl 2) pl r).

Definition decode_request (decomp : bytes -> option bytes) (frame : bytes) : option (header * message) :=
  match p_header frame with
  | None => None
  | Some (h, body) =>
      if negb (h_length h =? Z.of_nat (length body)) then None else
      if negb (hflags_ok (h_version h) (h_opcode h) (h_flags h)) then None else
      match (if has (h_flags h) 1 then decomp body else Some body) with
      | None => None
      | Some body' =>
          match p_message (h_version h) (h_flags h) (h_opcode h) body' with
          | Some (m, []) => Some (h, m)
          | _ => None
          end
      end
  end.
