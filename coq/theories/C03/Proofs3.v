(* C03/Proofs3.v -- from message bodies to whole frames: custom payload, header, length back-patching,
   compression, and the spec-side decode_request applied to the output of build_frame. *)
From GocqlV Require Import Lib.Base Gen.Consts C03.Model C03.Spec C03.Meaning C03.Proofs1 C03.Proofs2.

Arguments Z.mul : simpl never.
Arguments Z.add : simpl never.
Arguments Z.sub : simpl never.
Arguments Z.div : simpl never.
Arguments Z.modulo : simpl never.
Arguments Z.pow : simpl never.
Arguments Z.shiftr : simpl never.
Arguments Z.of_nat : simpl never.
Arguments Z.to_nat : simpl never.

(* ---- build_frame, factored --------------------------------------------------------------------------- *)
Definition op_of (r : request) : Z :=
  match r with
  | RStartup _ => K.opStartup | ROptions => K.opOptions | RAuthResponse _ => K.opAuthResponse
  | RRegister _ => K.opRegister | RQuery _ _ _ => K.opQuery | RPrepare _ _ _ => K.opPrepare
  | RExecute _ _ _ => K.opExecute | RBatch _ _ _ _ _ _ _ => K.opBatch
  end.

(* the body after the optional custom payload *)
Definition main_body (proto now : Z) (r : request) : res :=
  match r with
  | RStartup opts => Ok (write_string_map opts)
  | ROptions => Ok []
  | RAuthResponse d => Ok (write_bytes d)
  | RRegister evs => Ok (write_string_list evs)
  | RQuery stmt p _ => seqr (Ok (write_long_string stmt)) (write_query_params proto now p)
  | RPrepare stmt ks _ => write_prepare_body proto stmt ks
  | RExecute id p _ => write_execute_body proto now id p
  | RBatch t ss c sc dts dtsv _ => write_batch_body proto now t ss c sc dts dtsv
  end.

Definition body_of (proto now : Z) (r : request) : res :=
  seqr (write_custom_payload proto (payload_of r)) (main_body proto now r).

Definition never_compressed (r : request) : bool :=
  match r with RStartup _ | ROptions => true | _ => false end.

Definition hflags_of (f : framer) (r : request) : Z :=
  if never_compressed r then Z.ldiff (fr_flags f) K.flagCompress
  else fr_flags (with_payload f (payload_of r)).

Definition framer_of (has_comp : bool) (version : Z) (tracing : bool) : framer :=
  let f := new_framer has_comp version in if tracing then fr_trace f else f.

Definition is_some {A} (o : option A) : bool := match o with Some _ => true | None => false end.

Lemma Some_inj {A} (a b : A) : Some a = Some b -> a = b.
Proof. congruence. Qed.

Lemma seqr_ok_nil c : seqr (Ok []) c = c.
Proof. destruct c; reflexivity. Qed.

Lemma build_frame_eq comp version tracing now stream r :
  build_frame comp version tracing now stream r =
  let f := framer_of (is_some comp) version tracing in
  frame (with_payload f (payload_of r)) comp (hflags_of f r) (op_of r) stream (body_of (fr_proto f) now r).
Proof.
  unfold build_frame, framer_of, body_of, hflags_of, is_some.
  destruct r; cbn [payload_of never_compressed main_body op_of with_payload nonempty];
    try (unfold write_custom_payload; rewrite len_nil; change (0 <? 0) with false; cbv iota; rewrite ?seqr_ok_nil);
    destruct comp; destruct tracing; reflexivity.
Qed.

Lemma forallb_Forall {A} (f : A -> bool) (P : A -> Prop) l :
  (forall x, f x = true -> P x) -> forallb f l = true -> Forall P l.
Proof. intros H Hf. apply Forall_forall. intros x Hx. rewrite forallb_forall in Hf. apply H, Hf, Hx. Qed.

Lemma short_len_spec {A} (l : list A) : short_len l = true -> len l < 2 ^ 16.
Proof. unfold short_len. lia. Qed.

(* ---- message bodies ------------------------------------------------------------------------------------ *)
Section Msg.
Variable v : Z.
Hypothesis Hv : 1 <= v <= 5.

Lemma p_payload_write pl pb rest :
  write_custom_payload v pl = Ok pb -> payload_short pl = true -> len pb < 2 ^ 31 ->
  p_opt (nonempty pl) p_bytes_map (pb ++ rest) = Some (opt_if (nonempty pl) pl, rest)
  /\ (nonempty pl = true -> 4 <= v).
Proof.
  intros H Hs Hb. unfold write_custom_payload in H. fold (nonempty pl) in H. rewrite (lt4 v) in H.
  destruct (nonempty pl) eqn:E.
  - destruct (4 <=? v) eqn:E4; [|discriminate]. cbn [negb] in H. apply Ok_inj in H. subst pb.
    split; [|lia]. apply p_opt_true. unfold payload_short in Hs. apply andb_true_iff in Hs. destruct Hs as [Hl Hk].
    apply p_bytes_map_write; [apply short_len_spec, Hl|].
    apply Forall_forall. intros kv Hin. rewrite forallb_forall in Hk. split; [apply short_len_spec, Hk, Hin|].
    unfold write_bytes_map in Hb. rewrite len_app in Hb.
    pose proof (len_flat_map_le (fun kv => write_string (fst kv) ++ write_bytes (snd kv)) pl kv Hin) as Hle.
    cbv beta in Hle. rewrite len_app, len_write_bytes in Hle.
    pose proof (len_nonneg (write_string (fst kv))). pose proof (len_nonneg (app_short (wrap 16 (len pl)))).
    unfold bytes, payload_t in *. zl.
  - apply Ok_inj in H. subst pb. split; [reflexivity | discriminate].
Qed.

Lemma p_body_write now r b rest :
  main_body v now r = Ok b -> len b < 2 ^ 31 ->
  shorts_ok r = true -> well_typed now r = true -> on_wire v r = true ->
  p_body v (op_of r) (b ++ rest) = Some (sent_req v now r, rest).
Proof.
  intros H Hb Hs Ht Hw. unfold well_typed in Ht. apply andb_true_iff in Ht. destruct Ht as [Hnow Ht].
  assert (Hnow' : - 2 ^ 63 <= now < 2 ^ 63) by (unfold int64 in Hnow; zl). clear Hnow.
  destruct r as [opts| |d|evs|stmt p pl|stmt ks pl|id p pl|t ss c sc dts dtsv pl]; cbn [main_body op_of sent_req shorts_ok on_wire] in *.
  - (* STARTUP *)
    apply Ok_inj in H. subst b. apply andb_true_iff in Hs. destruct Hs as [Hl Hk].
    change (p_body v K.opStartup) with (pmap Startup p_string_map). apply pmap_some.
    apply p_string_map_write; [apply short_len_spec, Hl|].
    eapply forallb_Forall; [|exact Hk]. cbv beta. intros kv Hkv. apply andb_true_iff in Hkv.
    destruct Hkv as [H1 H2]. split; apply short_len_spec; assumption.
  - (* OPTIONS *)
    apply Ok_inj in H. subst b. reflexivity.
  - (* AUTH_RESPONSE *)
    apply Ok_inj in H. subst b.
    change (p_body v K.opAuthResponse) with (if 2 <=? v then pmap AuthResponse p_bytes else fail).
    rewrite Hw. apply pmap_some. apply p_bytes_write. rewrite len_write_bytes in Hb. lia.
  - (* REGISTER *)
    apply Ok_inj in H. subst b. apply andb_true_iff in Hs. destruct Hs as [Hl Hk].
    change (p_body v K.opRegister) with (pmap Register p_string_list). apply pmap_some.
    apply p_string_list_write; [apply short_len_spec, Hl|].
    eapply forallb_Forall; [|exact Hk]. intros s. apply short_len_spec.
  - (* QUERY *)
    apply seqr_ok in H. destruct H as (x & y & Hx & Hy & ->). apply Ok_inj in Hx. subst x.
    apply andb_true_iff in Hs. destruct Hs as [Hps _].
    change (p_body v K.opQuery) with (bind p_long_string (fun s => bind (p_query_params v) (fun o => ret (Query s o)))).
    rewrite <- app_assoc.
    erewrite bind_some by (apply p_long_string_write; len_bound Hb).
    erewrite bind_some by (apply (p_query_params_write v Hv now p y rest Hy Ht Hnow' Hps); len_bound Hb).
    reflexivity.
  - (* PREPARE *)
    apply andb_true_iff in Hs. destruct Hs as [Hks _].
    change (p_body v K.opPrepare) with (p_prepare v).
    apply (p_prepare_write v Hv); [assumption | assumption | apply short_len_spec, Hks].
  - (* EXECUTE *)
    apply andb_true_iff in Hs. destruct Hs as [Hs _]. apply andb_true_iff in Hs. destruct Hs as [Hid Hps].
    change (p_body v K.opExecute) with (p_execute v).
    apply (p_execute_write v Hv now id p b rest H Hb Ht Hnow' Hps). apply short_len_spec, Hid.
  - (* BATCH *)
    change (p_body v K.opBatch) with (if 2 <=? v then p_batch v else fail). rewrite Hw.
    apply andb_true_iff in Hs. destruct Hs as [Hs _]. apply andb_true_iff in Hs. destruct Hs as [Hl Hss].
    unfold uint16, int64 in Ht.
    rewrite (p_batch_write v Hv now t ss c sc dts dtsv b rest H Hb); try zl.
    + unfold byte_of. rewrite Z.mod_small by zl. reflexivity.
    + apply short_len_spec, Hl.
    + eapply forallb_Forall; [|exact Hss]. cbv beta. intros s Hsv. apply andb_true_iff in Hsv.
      destruct Hsv as [H1 H2]. split; [apply short_len_spec, H1|].
      apply values_short_spec in H2. apply H2.
Qed.

End Msg.

(* ---- header flags ---------------------------------------------------------------------------------------- *)
Definition hflags (hc b5 tr pl nc : bool) : Z :=
  let f0 := or_if b5 (or_if hc 0 K.flagCompress) K.flagBetaProtocol in
  let f1 := if tr then Z.lor f0 K.flagTracing else f0 in
  if nc then Z.ldiff f1 K.flagCompress else if pl then Z.lor f1 K.flagCustomPayload else f1.

Lemma hflags_of_eq hc version tr r :
  hflags_of (framer_of hc version tr) r
  = hflags hc (version =? 5) tr (nonempty (payload_of r)) (never_compressed r).
Proof.
  unfold hflags_of, framer_of, hflags, new_framer, with_payload, or_if.
  change (version =? K.protoVersion5) with (version =? 5).
  destruct (never_compressed r), hc, (version =? 5), tr, (nonempty (payload_of r)); reflexivity.
Qed.

Lemma hflags_spec hc b5 tr pl nc :
  let f := hflags hc b5 tr pl nc in
  0 <= f < 256
  /\ has f 1 = hc && negb nc /\ has f 2 = tr /\ has f 4 = pl && negb nc
  /\ (Z.land f K.flagCompress =? K.flagCompress) = hc && negb nc
  /\ f = (if hc && negb nc then 1 else 0) + (if tr then 2 else 0) + (if pl && negb nc then 4 else 0)
         + (if b5 then 16 else 0).
Proof. destruct hc, b5, tr, pl, nc; vm_compute; intuition congruence. Qed.

Lemma hflags_ok_lemma hc b5 tr pl nc (m4 o1 : bool) :
  (pl = true -> nc = false -> m4 = true) -> (o1 = true -> nc = true) ->
  let f := hflags hc b5 tr pl nc in
  within f (3 + (if m4 then 4 else 0) + (if b5 then 16 else 0))
  && (if b5 then has f 16 else true) && negb (has f 1 && o1) = true.
Proof.
  intros H1 H2.
  destruct pl, nc; try (specialize (H1 eq_refl eq_refl); subst m4);
    destruct o1; try (specialize (H2 eq_refl); try discriminate H2);
    destruct hc, b5, tr; try destruct m4; reflexivity.
Qed.

(* ---- header, finish ----------------------------------------------------------------------------------------- *)
Definition stream_bytes (v stream : Z) : bytes :=
  if 3 <=? v then [byte_of (Z.shiftr stream 8); byte_of stream] else [byte_of stream].

Definition wire_body (comp : option (bytes -> option bytes)) (hfl : Z) (body : bytes) : option bytes :=
  if Z.land hfl K.flagCompress =? K.flagCompress
  then match comp with Some c => c body | None => None end
  else Some body.

(* finish on an arbitrary buffer (kept abstract: no arithmetic is ever computed on a concrete list) *)
Lemma finish_inv f comp buf out :
  finish f comp buf = Ok out ->
  len buf <= K.maxFrameSize /\
  exists buf',
    (if Z.land (nth 1 buf 0) K.flagCompress =? K.flagCompress
     then exists c z, comp = Some c /\ c (skipn (Z.to_nat (fr_head f)) buf) = Some z
                      /\ buf' = firstn (Z.to_nat (fr_head f)) buf ++ z
     else buf' = buf)
    /\ out = set_length f (len buf' - fr_head f) buf'.
Proof.
  unfold finish. destruct (too_big (len buf)) eqn:Big; [discriminate|]. intros H.
  split; [unfold too_big in Big; lia|].
  destruct (Z.land (nth 1 buf 0) K.flagCompress =? K.flagCompress).
  - destruct comp as [c|]; [|discriminate].
    destruct (c (skipn (Z.to_nat (fr_head f)) buf)) as [z|] eqn:Ez; [|discriminate].
    apply Ok_inj in H. exists (firstn (Z.to_nat (fr_head f)) buf ++ z). split; [|congruence]. exists c, z. auto.
  - apply Ok_inj in H. exists buf. split; [reflexivity | congruence].
Qed.

Definition header_bytes (v hfl op stream : Z) : bytes :=
  [v; hfl] ++ stream_bytes v stream ++ [byte_of op; 0; 0; 0; 0].

Lemma write_header_eq v f hfl op stream : fr_proto f = v ->
  write_header f hfl op stream = header_bytes v hfl op stream.
Proof. intros Hp. unfold write_header, header_bytes, stream_bytes. rewrite Hp, (gt2 v). reflexivity. Qed.

Lemma len_header_bytes v hfl op stream : len (header_bytes v hfl op stream) = head_size v.
Proof. unfold header_bytes, stream_bytes, head_size. destruct (3 <=? v); reflexivity. Qed.

Lemma header_split v hfl op stream (body : bytes) :
  nth 1 (header_bytes v hfl op stream ++ body) 0 = hfl
  /\ skipn (Z.to_nat (head_size v)) (header_bytes v hfl op stream ++ body) = body
  /\ firstn (Z.to_nat (head_size v)) (header_bytes v hfl op stream ++ body) = header_bytes v hfl op stream.
Proof. unfold header_bytes, stream_bytes, head_size. destruct (3 <=? v); repeat split; reflexivity. Qed.

Lemma set_length_header v f hfl op stream L (body : bytes) : fr_proto f = v ->
  set_length f L (header_bytes v hfl op stream ++ body)
  = [v; hfl] ++ stream_bytes v stream ++ [byte_of op] ++ app_int L ++ body.
Proof.
  intros Hp. unfold set_length, header_bytes, stream_bytes. rewrite Hp, (gt2 v).
  destruct (3 <=? v); reflexivity.
Qed.

Lemma finish_spec v f comp hfl op stream body out :
  1 <= v <= 5 -> fr_proto f = v -> fr_head f = head_size v ->
  finish f comp (write_header f hfl op stream ++ body) = Ok out ->
  exists body', wire_body comp hfl body = Some body'
    /\ out = [v; hfl] ++ stream_bytes v stream ++ [byte_of op] ++ app_int (len body') ++ body'
    /\ head_size v + len body <= K.maxFrameSize.
Proof.
  intros Hv Hp Hh H. rewrite (write_header_eq v f hfl op stream Hp) in H.
  apply finish_inv in H. destruct H as (Big & buf' & Hc & Hout).
  rewrite len_app, len_header_bytes in Big. rewrite Hh in *.
  destruct (header_split v hfl op stream body) as (E1 & E2 & E3). rewrite E1, E2, E3 in Hc.
  unfold wire_body. destruct (Z.land hfl K.flagCompress =? K.flagCompress).
  - destruct Hc as (c & z & -> & Hz & ->). exists z. split; [exact Hz|]. split; [|exact Big].
    rewrite Hout, len_app, len_header_bytes.
    replace (head_size v + len z - head_size v) with (len z) by lia. apply set_length_header, Hp.
  - subst buf'. exists body. split; [reflexivity|]. split; [|exact Big].
    rewrite Hout, len_app, len_header_bytes.
    replace (head_size v + len body - head_size v) with (len body) by lia. apply set_length_header, Hp.
Qed.

Lemma p_byte_cons x r : p_byte (x :: r) = Some (x, r).
Proof. reflexivity. Qed.

Lemma p_int8_byte s r : 0 <= s < 128 -> p_int8 (byte_of s :: r) = Some (s, r).
Proof.
  intros H. unfold p_int8. erewrite bind_some by apply p_byte_cons. unfold ret, byte_of.
  rewrite Z.mod_small by lia. replace (s <? 128) with true by lia. reflexivity.
Qed.

Lemma p_int16_short s r : 0 <= s < 32768 -> p_int16 (app_short s ++ r) = Some (s, r).
Proof.
  intros H. unfold p_int16. erewrite bind_some by (apply p_short_app_short; zl). unfold ret.
  replace (s <? 32768) with true by lia. reflexivity.
Qed.

Lemma p_header_write v hfl stream op L body :
  1 <= v <= 5 -> stream_ok v stream -> 0 <= op < 256 -> 0 <= L < 2 ^ 31 ->
  p_header ([v; hfl] ++ stream_bytes v stream ++ [byte_of op] ++ app_int L ++ body)
  = Some (mkhdr v hfl stream op L, body).
Proof.
  intros Hv Hs Hop HL. unfold p_header, stream_ok, stream_bytes in *. cbn [app].
  erewrite bind_some by apply p_byte_cons.
  replace ((1 <=? v) && (v <=? 5)) with true by lia. cbn [negb].
  erewrite bind_some by apply p_byte_cons. rewrite (s_le2 v).
  destruct (3 <=? v) eqn:E3; cbn [negb].
  - change (byte_of (Z.shiftr stream 8) :: byte_of stream :: [byte_of op] ++ app_int L ++ body)
      with (app_short stream ++ [byte_of op] ++ app_int L ++ body).
    erewrite bind_some by (apply p_int16_short; lia).
    replace (stream <? 0) with false by lia. cbn [app].
    erewrite bind_some by apply p_byte_cons.
    erewrite bind_some by (apply p_int_app_int; zl). replace (L <? 0) with false by lia.
    unfold ret, byte_of. rewrite Z.mod_small by lia. reflexivity.
  - cbn [app].
    erewrite bind_some by (apply p_int8_byte; lia).
    replace (stream <? 0) with false by lia.
    erewrite bind_some by apply p_byte_cons.
    erewrite bind_some by (apply p_int_app_int; zl). replace (L <? 0) with false by lia.
    unfold ret, byte_of. rewrite Z.mod_small by lia. reflexivity.
Qed.

Lemma nc_no_payload r : never_compressed r = true -> payload_of r = [].
Proof. destruct r; try discriminate; reflexivity. Qed.

Lemma payload_opcode_of r : nonempty (payload_of r) = true -> payload_opcode (op_of r) = true.
Proof. destruct r; try discriminate; reflexivity. Qed.

Lemma startup_nc r : (op_of r =? 1) = true -> never_compressed r = true.
Proof. destruct r; try discriminate; reflexivity. Qed.

Lemma op_of_range r : 0 <= op_of r < 256.
Proof. destruct r; vm_compute; intuition congruence. Qed.

Lemma op_of_opcode v now r : op_of r = opcode_of (sent_req v now r).
Proof. destruct r; reflexivity. Qed.

Lemma framer_of_proto hc v tr : 1 <= v <= 5 -> fr_proto (framer_of hc v tr) = v.
Proof. intros Hv. unfold framer_of, new_framer. destruct tr; cbn [fr_proto fr_trace]; apply proto_v, Hv. Qed.

Lemma framer_of_head hc v tr pl : 1 <= v <= 5 -> fr_head (with_payload (framer_of hc v tr) pl) = head_size v.
Proof.
  intros Hv. unfold with_payload, framer_of, new_framer, head_size.
  destruct (nonempty pl), tr; cbn [fr_head fr_trace fr_payload]; rewrite (proto_v v Hv), (gt2 v); reflexivity.
Qed.

Lemma with_payload_proto f pl : fr_proto (with_payload f pl) = fr_proto f.
Proof. unfold with_payload. destruct (nonempty pl); reflexivity. Qed.

Lemma expected_flags_eq (hc tr : bool) v r : 1 <= v <= 5 ->
  (if hc && negb (never_compressed r) then 1 else 0) + (if tr then 2 else 0)
  + (if nonempty (payload_of r) && negb (never_compressed r) then 4 else 0) + (if v =? 5 then 16 else 0)
  = expected_flags hc tr v r.
Proof.
  intros Hv. unfold expected_flags.
  destruct r; cbn [never_compressed payload_of negb]; rewrite ?andb_false_r, ?andb_true_r; destruct hc; reflexivity.
Qed.

(* ---- the frame a reader sees ------------------------------------------------------------------------------- *)
Definition frame_bytes (v hfl stream op : Z) (body' : bytes) : bytes :=
  [v; hfl] ++ stream_bytes v stream ++ [byte_of op] ++ app_int (len body') ++ body'.

Lemma len_frame_bytes v hfl stream op body' : len (frame_bytes v hfl stream op body') = head_size v + len body'.
Proof.
  unfold frame_bytes. rewrite !len_app, len_app_int. unfold stream_bytes, head_size.
  destruct (3 <=? v); rewrite !len_cons, !len_nil; lia.
Qed.

Lemma frame_ok f comp hfl op stream body out :
  frame f comp hfl op stream body = Ok out ->
  exists b, body = Ok b /\ finish f comp (write_header f hfl op stream ++ b) = Ok out.
Proof.
  unfold frame. destruct body as [b| |]; cbn [seqr]; try discriminate. intros H. exists b. auto.
Qed.

(* shape of every frame that is built *)
Lemma built_shape comp v tracing now stream r out :
  1 <= v <= 5 -> build_frame comp v tracing now stream r = Ok out ->
  let hfl := hflags (has_comp comp) (v =? 5) tracing (nonempty (payload_of r)) (never_compressed r) in
  exists body body',
    body_of v now r = Ok body /\ wire_body comp hfl body = Some body'
    /\ out = frame_bytes v hfl stream (op_of r) body'
    /\ head_size v + len body <= K.maxFrameSize.
Proof.
  intros Hv H. rewrite build_frame_eq in H. cbv zeta in H.
  change (is_some comp) with (has_comp comp) in H.
  rewrite (framer_of_proto (has_comp comp) v tracing Hv) in H.
  set (f := with_payload (framer_of (has_comp comp) v tracing) (payload_of r)) in *.
  assert (Hfp : fr_proto f = v) by (subst f; rewrite with_payload_proto; apply framer_of_proto, Hv).
  assert (Hfh : fr_head f = head_size v) by (subst f; apply framer_of_head, Hv).
  apply frame_ok in H. destruct H as (body & Hbody & H).
  destruct (finish_spec v f comp _ _ _ _ _ Hv Hfp Hfh H) as (body' & Hwire & Hout & Hsize). clear H.
  rewrite hflags_of_eq in *. cbv zeta. exists body, body'. auto.
Qed.

(* the spec-side decoder on a frame of that shape *)
Lemma decode_frame_bytes decomp v hfl stream op body body' m :
  1 <= v <= 5 -> stream_ok v stream -> 0 <= op < 256 -> len body' < 2 ^ 31 ->
  hflags_ok v op hfl = true ->
  (if has hfl 1 then decomp body' else Some body') = Some body ->
  p_message v hfl op body = Some (m, []) ->
  decode_request decomp (frame_bytes v hfl stream op body')
  = Some (mkhdr v hfl stream op (len body'), m).
Proof.
  intros Hv Hst Hop HL Hok Hdec Hmsg. pose proof (len_nonneg body') as HL0.
  unfold decode_request, frame_bytes.
  rewrite (p_header_write v hfl stream op (len body') body' Hv Hst Hop (conj HL0 HL)).
  cbn [h_length h_version h_opcode h_flags].
  replace (len body' =? Z.of_nat (length body')) with true by (unfold len; lia).
  cbn [negb]. rewrite Hok. cbn [negb]. unfold bytes in *. rewrite Hdec, Hmsg. reflexivity.
Qed.

Theorem wire_meaning comp decomp v tracing now stream r out :
  1 <= v <= 5 -> stream_ok v stream -> codec_ok comp decomp ->
  well_typed now r = true -> shorts_ok r = true -> on_wire v r = true ->
  build_frame comp v tracing now stream r = Ok out ->
  decode_request decomp out
  = Some (mkhdr v (expected_flags (has_comp comp) tracing v r) stream (opcode_of (sent_req v now r))
                (len out - head_size v),
          sent v tracing now r).
Proof.
  intros Hv Hst Hcodec Ht Hs Hw H.
  destruct (built_shape comp v tracing now stream r out Hv H) as (body & body' & Hbody & Hwire & Hout & Hsize).
  set (hc := has_comp comp) in *.
  set (pl := nonempty (payload_of r)) in *. set (nc := never_compressed r) in *.
  pose proof (hflags_spec hc (v =? 5) tracing pl nc) as F. cbv zeta in F.
  set (hfl := hflags hc (v =? 5) tracing pl nc) in *.
  destruct F as (Fr & F1 & F2 & F4 & Fc & Fe).
  assert (Hblen : len body < 2 ^ 31).
  { unfold K.maxFrameSize, head_size in Hsize. destruct (3 <=? v); zl. }
  (* the body: payload then message *)
  unfold body_of in Hbody. apply seqr_ok in Hbody. destruct Hbody as (pb & mb & Hpb & Hmb & ->).
  assert (Hpls : payload_short (payload_of r) = true).
  { destruct r; cbn [payload_of shorts_ok] in *; try reflexivity;
      apply andb_true_iff in Hs; destruct Hs as [_ Hs]; exact Hs. }
  destruct (p_payload_write v (payload_of r) pb mb Hpb Hpls ltac:(len_bound Hblen)) as [Hpp Hp4].
  fold pl in Hpp, Hp4.
  assert (Hpm : p_body v (op_of r) mb = Some (sent_req v now r, [])).
  { pose proof (p_body_write v Hv now r mb [] Hmb ltac:(len_bound Hblen) Hs Ht Hw) as Hp.
    rewrite app_nil_r in Hp. exact Hp. }
  assert (Hpl4 : has hfl 4 = pl).
  { rewrite F4. destruct nc eqn:Enc; [|apply andb_true_r].
    subst pl. subst nc. rewrite (nc_no_payload r Enc). reflexivity. }
  assert (Hmsg : p_message v hfl (op_of r) (pb ++ mb) = Some (sent v tracing now r, [])).
  { unfold p_message. rewrite Hpl4. erewrite bind_some by (exact Hpp).
    erewrite bind_some by (exact Hpm). unfold ret, sent. rewrite F2. reflexivity. }
  (* compression *)
  assert (Hdec : (if has hfl 1 then decomp body' else Some body') = Some (pb ++ mb) /\ len body' < 2 ^ 31).
  { unfold wire_body in Hwire. rewrite Fc in Hwire. rewrite F1.
    destruct (hc && negb nc) eqn:Ec.
    - destruct comp as [c|]; [|discriminate]. cbn [codec_ok] in Hcodec. destruct (Hcodec _ _ Hwire) as [Hd Hz].
      split; [exact Hd|]. apply Hz. unfold head_size in Hsize. destruct (3 <=? v); lia.
    - apply Some_inj in Hwire. subst body'. split; [reflexivity | exact Hblen]. }
  destruct Hdec as [Hdec HL].
  assert (Hok : hflags_ok v (op_of r) hfl = true).
  { unfold hflags_ok.
    apply (hflags_ok_lemma hc (v =? 5) tracing pl nc ((4 <=? v) && payload_opcode (op_of r)) (op_of r =? 1)).
    - intros Hp _. rewrite (payload_opcode_of r Hp). specialize (Hp4 Hp). replace (4 <=? v) with true by lia. reflexivity.
    - apply startup_nc. }
  rewrite Hout, len_frame_bytes.
  rewrite (decode_frame_bytes decomp v hfl stream (op_of r) (pb ++ mb) body' _ Hv Hst (op_of_range r) HL Hok Hdec Hmsg).
  f_equal. f_equal. f_equal.
  - rewrite Fe. subst pl nc. apply expected_flags_eq, Hv.
  - apply op_of_opcode.
  - lia.
Qed.
