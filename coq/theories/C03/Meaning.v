(* C03/Meaning.v -- what a request struct asks for, and what the builders actually put on the wire.

   [asked now r]     the logical request (Spec.message) that the fields of the Go struct describe:
                     the "logical request that was asked for" of the property text;
   [sent v now r]    the logical request that a reader of the frame built for protocol version v
                     sees (proved in Proofs.v: decode (build r) = sent); it differs from [asked] exactly
                     on requests that version v cannot express (an unset value below v4 becomes null,
                     names below v3 and mixed named/positional values are dropped, ...);
   [expressible v r] the requests version v can express; on them sent = asked (Proofs.v);
   [shorts_ok r]     every [short]-prefixed length and count fits in 16 bits;
   [on_wire v r]     the message kind exists in version v. *)
From GocqlV Require Import Lib.Base Gen.Consts C03.Model C03.Spec.

Definition asked_value (q : qvalue) : value :=
  if qv_unset q then VUnset else match qv_value q with None => VNull | Some b => VBytes b end.

Definition no_names (vs : list qvalue) : bool := forallb (fun q => negb (nonempty (qv_name q))) vs.
Definition all_names (vs : list qvalue) : bool := forallb (fun q => nonempty (qv_name q)) vs.

Definition asked_bound (vs : list qvalue) : bound :=
  if no_names vs then Positional (map asked_value vs)
  else Named (map (fun q => (qv_name q, asked_value q)) vs).

Definition opt_if {A} (c : bool) (x : A) : option A := if c then Some x else None.

Definition ts_value (now dtsv : Z) : Z := if dtsv =? 0 then now else dtsv.

Definition asked_params (now : Z) (p : qparams) : qopts :=
  mkqopts (qp_cons p) (asked_bound (qp_values p)) (qp_skip_meta p)
          (opt_if (0 <? qp_page_size p) (qp_page_size p))
          (opt_if (nonempty (qp_paging_state p)) (qp_paging_state p))
          (opt_if (0 <? qp_serial p) (qp_serial p))
          (opt_if (qp_default_ts p) (ts_value now (qp_default_ts_value p)))
          (opt_if (nonempty (qp_keyspace p)) (qp_keyspace p)).

Definition asked_bquery (b : bstmt) : bquery * list value :=
  (if len (bs_id b) =? 0 then BQuery (bs_stmt b) else BPrepared (bs_id b), map asked_value (bs_values b)).

Definition asked_req (now : Z) (r : request) : req :=
  match r with
  | RStartup opts => Startup opts
  | ROptions => Options
  | RAuthResponse d => AuthResponse d
  | RRegister evs => Register evs
  | RQuery s p _ => Query s (asked_params now p)
  | RPrepare s ks _ => Prepare s (opt_if (nonempty ks) ks)
  | RExecute id p _ => Execute id (asked_params now p)
  | RBatch t ss c sc dts dtsv _ =>
      Batch t (map asked_bquery ss) c (opt_if (0 <? sc) sc) (opt_if dts (ts_value now dtsv))
  end.

Definition payload_of (r : request) : payload_t :=
  match r with
  | RQuery _ _ pl | RPrepare _ _ pl | RExecute _ _ pl | RBatch _ _ _ _ _ _ pl => pl
  | _ => []
  end.

Definition asked (tracing : bool) (now : Z) (r : request) : message :=
  mkmsg tracing (opt_if (nonempty (payload_of r)) (payload_of r)) (asked_req now r).

(* ---- what is on the wire ----------------------------------------------------------------------- *)
Definition sent_value (v : Z) (q : qvalue) : value :=
  if qv_unset q then (if v <? 4 then VNull else VUnset)
  else match qv_value q with None => VNull | Some b => VBytes b end.

Definition sent_bound (v : Z) (vs : list qvalue) : bound :=
  if (3 <=? v) && first_named vs then Named (map (fun q => (qv_name q, sent_value v q)) vs)
  else Positional (map (sent_value v) vs).

Definition sent_params (v now : Z) (p : qparams) : qopts :=
  if v =? 1 then mkqopts (qp_cons p) (Positional []) false None None None None None else
  mkqopts (qp_cons p) (sent_bound v (qp_values p)) (qp_skip_meta p)
          (opt_if (0 <? qp_page_size p) (signed 32 (qp_page_size p)))
          (opt_if (nonempty (qp_paging_state p)) (qp_paging_state p))
          (opt_if (0 <? qp_serial p) (qp_serial p))
          (opt_if ((3 <=? v) && qp_default_ts p) (ts_value now (qp_default_ts_value p)))
          (opt_if (nonempty (qp_keyspace p)) (qp_keyspace p)).

Definition sent_bquery (v : Z) (b : bstmt) : bquery * list value :=
  (if len (bs_id b) =? 0 then BQuery (bs_stmt b) else BPrepared (bs_id b), map (sent_value v) (bs_values b)).

Definition sent_req (v now : Z) (r : request) : req :=
  match r with
  | RStartup opts => Startup opts
  | ROptions => Options
  | RAuthResponse d => AuthResponse d
  | RRegister evs => Register evs
  | RQuery s p _ => Query s (sent_params v now p)
  | RPrepare s ks _ => Prepare s (opt_if (nonempty ks) ks)
  | RExecute id p _ =>
      Execute id (if v =? 1
                  then mkqopts (qp_cons p) (Positional (map (sent_value v) (qp_values p))) false None None None None None
                  else sent_params v now p)
  | RBatch t ss c sc dts dtsv _ =>
      Batch (byte_of t) (map (sent_bquery v) ss) c
            (opt_if ((3 <=? v) && (0 <? sc)) sc) (opt_if ((3 <=? v) && dts) (ts_value now dtsv))
  end.

Definition sent (v : Z) (tracing : bool) (now : Z) (r : request) : message :=
  mkmsg tracing (opt_if (nonempty (payload_of r)) (payload_of r)) (sent_req v now r).

(* ---- expressible requests ------------------------------------------------------------------------ *)
Definition values_expressible (v : Z) (vs : list qvalue) : bool :=
  (no_names vs || ((3 <=? v) && all_names vs))
  && ((4 <=? v) || forallb (fun q => negb (qv_unset q)) vs).

(* optional query parameters exist from v2 (timestamp and names from v3, keyspace from v5); a page size is an [int] *)
Definition params_expressible (v : Z) (execute : bool) (p : qparams) : bool :=
  (qp_page_size p <? 2 ^ 31)
  && ((5 <=? v) || negb (nonempty (qp_keyspace p)))
  && (if v =? 1 then
        (execute || negb (nonempty (qp_values p))) && no_names (qp_values p)
        && forallb (fun q => negb (qv_unset q)) (qp_values p)
        && negb (qp_skip_meta p) && negb (0 <? qp_page_size p) && negb (nonempty (qp_paging_state p))
        && negb (0 <? qp_serial p) && negb (qp_default_ts p)
      else values_expressible v (qp_values p) && ((3 <=? v) || negb (qp_default_ts p))).

(* a custom payload exists from v4 *)
Definition payload_expressible (v : Z) (pl : payload_t) : bool := (4 <=? v) || negb (nonempty pl).

Definition expressible (v : Z) (r : request) : bool :=
  match r with
  | RQuery _ p pl => params_expressible v false p && payload_expressible v pl
  | RExecute _ p pl => params_expressible v true p && payload_expressible v pl
  | RPrepare _ ks pl => ((5 <=? v) || negb (nonempty ks)) && payload_expressible v pl
  | RBatch t ss _ sc dts _ pl =>
      forallb (fun b => no_names (bs_values b)
                        && ((4 <=? v) || forallb (fun q => negb (qv_unset q)) (bs_values b))) ss
      && ((3 <=? v) || (negb (0 <? sc) && negb dts))
      && payload_expressible v pl
  | _ => true
  end.

(* ---- 16-bit lengths and counts ------------------------------------------------------------------- *)
Definition short_len {A} (l : list A) : bool := len l <? 2 ^ 16.

Definition values_short (vs : list qvalue) : bool :=
  short_len vs && forallb (fun q => short_len (qv_name q)) vs.

Definition params_short (p : qparams) : bool :=
  values_short (qp_values p) && short_len (qp_keyspace p).

Definition payload_short (pl : payload_t) : bool :=
  short_len pl && forallb (fun kv => short_len (fst kv)) pl.

Definition shorts_ok (r : request) : bool :=
  match r with
  | RStartup opts => short_len opts && forallb (fun kv => short_len (fst kv) && short_len (snd kv)) opts
  | ROptions => true
  | RAuthResponse _ => true
  | RRegister evs => short_len evs && forallb short_len evs
  | RQuery _ p pl => params_short p && payload_short pl
  | RPrepare _ ks pl => short_len ks && payload_short pl
  | RExecute id p pl => short_len id && params_short p && payload_short pl
  | RBatch _ ss _ _ _ _ pl =>
      short_len ss && forallb (fun b => short_len (bs_id b) && values_short (bs_values b)) ss && payload_short pl
  end.

(* AUTH_RESPONSE and BATCH do not exist in protocol version 1 *)
Definition on_wire (v : Z) (r : request) : bool :=
  match r with
  | RAuthResponse _ | RBatch _ _ _ _ _ _ _ => 2 <=? v
  | _ => true
  end.

(* the fields of the struct hold values of their Go types *)
Definition uint16 (x : Z) : bool := (0 <=? x) && (x <? 2 ^ 16).
Definition int64 (x : Z) : bool := (- 2 ^ 63 <=? x) && (x <? 2 ^ 63).

Definition params_typed (p : qparams) : bool :=
  uint16 (qp_cons p) && uint16 (qp_serial p) && int64 (qp_page_size p) && int64 (qp_default_ts_value p).

Definition well_typed (now : Z) (r : request) : bool :=
  int64 now &&
  match r with
  | RQuery _ p _ | RExecute _ p _ => params_typed p
  | RBatch t _ c sc _ dtsv _ => (0 <=? t) && (t <? 256) && uint16 c && uint16 sc && int64 dtsv
  | _ => true
  end.

(* header flags the builders are expected to produce *)
Definition expected_flags (has_comp tracing : bool) (v : Z) (r : request) : Z :=
  (if has_comp then match r with RStartup _ | ROptions => 0 | _ => 1 end else 0)
  + (if tracing then 2 else 0)
  + (if nonempty (payload_of r) then 4 else 0)
  + (if v =? 5 then 16 else 0).

(* ---- side conditions of the frame-level theorems ------------------------------------------------------ *)
(* stream ids a client may use: 7 bits in v1/v2, 15 bits from v3 *)
Definition stream_ok (v stream : Z) : Prop := 0 <= stream < (if 3 <=? v then 32768 else 128).
Definition head_size (v : Z) : Z := if 3 <=? v then 9 else 8.

(* the compressor plugged into the framer is inverted by [decomp], and does not blow a body that passed
   the 256 MiB check of finish up to 2 GiB (snappy and lz4 expand by a fraction at most) *)
Definition codec_ok (comp : option (bytes -> option bytes)) (decomp : bytes -> option bytes) : Prop :=
  match comp with
  | None => True
  | Some c => forall x z, c x = Some z -> decomp z = Some x /\ (len x <= K.maxFrameSize -> len z < 2 ^ 31)
  end.

Definition has_comp (comp : option (bytes -> option bytes)) : bool :=
  match comp with Some _ => true | None => false end.

(* ---- what an API-level query may ask for in version v (conn.go level) ------------------------------------- *)
Definition api_expressible (v : Z) (q : query_in) (prepared : option (bytes * list qvalue * bool)) : bool :=
  (qi_page_size q <? 2 ^ 31)
  && ((3 <=? v) || negb (qi_default_ts q))
  && payload_expressible v (qi_payload q)
  && match prepared with Some (_, vals, _) => values_expressible v vals | None => true end.
