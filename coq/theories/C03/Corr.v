(* C03/Corr.v -- correspondence cases: each carries the inputs of one buildFrame call and what the real
   implementation (package gocql through verif_shim_c03.go) produced; [check] runs the model on the same
   inputs and compares byte for byte.

   Two inputs of the real builders are not controlled by the harness: the iteration order of Go maps
   (STARTUP options, custom payload) and time.Now() (default timestamp with value 0).  [check] reads both
   off the implementation's bytes with the spec-side decoder: the decoded map must be a permutation of
   the map the harness supplied, and the model is then run with the map in the decoded order and the
   decoded clock value, so that the comparison stays exact on every byte.  (That the clock value is
   plausible is checked by a harness monitor against the wall clock.) *)
From GocqlV Require Import Lib.Base Gen.Consts C03.Model C03.Spec.

(* compact notations used by the harness for long inputs/outputs *)
Definition repn {A} (n : N) (x : A) : list A := N.iter n (cons x) [].
Definition repb (n : N) (chunk : bytes) : bytes := N.iter n (app chunk) [].

(* the compressor the harness plugs into the framer (a toy: the real codecs belong to C18):
   Encode fails when len(data) mod 11 = 10, otherwise 0xC5 :: (data xor 0x5A) ++ [len mod 256] *)
Definition test_comp (d : bytes) : option bytes :=
  if len d mod 11 =? 10 then None
  else Some (197 :: map (fun b => Z.lxor b 90) d ++ [len d mod 256]).

Definition test_decomp (z : bytes) : option bytes :=
  match z with
  | 197 :: rest =>
      let n := (length rest - 1)%nat in
      let d := map (fun b => Z.lxor b 90) (firstn n rest) in
      if (1 <=? len rest) && (nth n rest 0 =? len d mod 256) then Some d else None
  | _ => None
  end.

Inductive outcome := OBytes (b : bytes) | OFail (class : Z).

(* outcome classes of gocql.VerifC03Build *)
Definition res_class (r : res) : Z :=
  match r with
  | Ok _ => 0
  | Err EFrameTooBig => 1
  | Err EBatchNamed => 2
  | Err ECompress => 3
  | Panic PPayloadVersion => 4
  | Panic PKeyspaceVersion => 5
  | Panic PNoCompressor => 6
  end.

Inductive case :=
| CBuild (version : Z) (comp tracing : bool) (stream : Z) (r : request) (out : outcome)
(* connection level: frames captured under Conn.executeQuery / executeBatch / UseKeyspace / prepareStatement;
   the stream id is the one the connection allocated (read off the captured frame) *)
| CConnQuery (version : Z) (comp tracing : bool) (ks : bytes) (q : query_in) (stmt : bytes)
             (prepared : option (bytes * list qvalue * bool)) (stream : Z) (out : bytes)
| CConnBatch (version : Z) (comp tracing : bool) (typ : Z) (entries : list (bytes * option (bytes * list qvalue)))
             (cl serial : Z) (dts : bool) (dtsv : Z) (payload : payload_t) (stream : Z) (out : option bytes)
(* the same with the bound values as given to the API (NamedValue / UnsetValue / nil / []byte): marshalQueryValue is
   part of what the model computes *)
| CConnBind (version : Z) (comp tracing : bool) (ks : bytes) (q : query_in) (stmt id : bytes)
            (vals : list (option bytes * api_bound)) (disable_skip : bool) (stream : Z) (out : bytes)
| CConnBatchBind (version : Z) (comp tracing : bool) (typ : Z)
                 (entries : list (bytes * option (bytes * list (option bytes * api_bound))))
                 (cl serial : Z) (dts : bool) (dtsv : Z) (payload : payload_t) (stream : Z) (out : option bytes)
| CConnUse (version : Z) (comp : bool) (session_cons : Z) (ks : bytes) (stream : Z) (out : bytes)
| CConnPrepare (version : Z) (comp tracing : bool) (ks stmt : bytes) (stream : Z) (out : bytes)
(* a frame of live traffic of a session that negotiated a real compression codec: [body] is what the
   harness obtained from the bytes after the header with the real library ([] and [] when the frame is
   not compressed) *)
| CLiveZ (version : Z) (tracing : bool) (stream : Z) (r : request) (body zbody out : bytes)
| CSessionBatchGuard (n : Z) (refused : bool)      (* Session.ExecuteBatch of n entries returned ErrTooManyStmts *)
| CBatchGuard (version : Z) (refused : bool)       (* Conn.executeBatch refused the batch with ErrUnsupported *)
| CTooBig (buflen : Z) (refused : bool).           (* finish returned ErrFrameTooBig for a buffer of this size *)

(* ---- equality tests ---------------------------------------------------------------------------- *)
Definition obytes_eqb (a b : option bytes) : bool := opt_eqb zlist_eqb a b.
Definition kv_eqb (a b : bytes * bytes) : bool := zlist_eqb (fst a) (fst b) && zlist_eqb (snd a) (snd b).
Definition kov_eqb (a b : bytes * option bytes) : bool := zlist_eqb (fst a) (fst b) && obytes_eqb (snd a) (snd b).

(* same entries in some order (Go map keys are distinct) *)
Definition perm_eqb {A} (eqb : A -> A -> bool) (a b : list A) : bool :=
  (length a =? length b)%nat && forallb (fun x => existsb (eqb x) b) a && forallb (fun x => existsb (eqb x) a) b.

(* ---- reading the uncontrolled inputs off the implementation's bytes ------------------------------ *)
Definition decoded_now (m : message) : Z :=
  match m_req m with
  | Query _ o | Execute _ o => match q_timestamp o with Some t => t | None => 0 end
  | Batch _ _ _ _ (Some t) => t
  | _ => 0
  end.

Definition reorder_payload (pl : payload_t) (m : message) : payload_t :=
  match m_payload m with
  | Some pl' => if perm_eqb kov_eqb pl pl' then pl' else pl
  | None => pl
  end.

Definition align (r : request) (m : message) : request :=
  match r with
  | RStartup opts =>
      match m_req m with
      | Startup opts' => if perm_eqb kv_eqb opts opts' then RStartup opts' else r
      | _ => r
      end
  | RQuery s p pl => RQuery s p (reorder_payload pl m)
  | RPrepare s ks pl => RPrepare s ks (reorder_payload pl m)
  | RExecute id p pl => RExecute id p (reorder_payload pl m)
  | RBatch t ss c sc dts dtsv pl => RBatch t ss c sc dts dtsv (reorder_payload pl m)
  | _ => r
  end.

(* the model builds exactly these bytes, given the clock value and map order read off them *)
Definition builds_with (compf : option (bytes -> option bytes)) (decompf : bytes -> option bytes)
           (v : Z) (tracing : bool) (stream : Z) (r : request) (b : bytes) : bool :=
  let '(r', now) :=
    match decode_request decompf b with
    | Some (_, m) => (align r m, decoded_now m)
    | None => (r, 0)
    end in
  match build_frame compf v tracing now stream r' with
  | Ok b' => zlist_eqb b' b
  | _ => false
  end.

Definition builds (v : Z) (comp tracing : bool) (stream : Z) (r : request) (b : bytes) : bool :=
  builds_with (if comp then Some test_comp else None) test_decomp v tracing stream r b.

(* a real codec observed on one body: Encode body = zbody (the harness decoded zbody with the real library) *)
Definition observed_comp (body zbody : bytes) : bytes -> option bytes :=
  fun x => if zlist_eqb x body then Some zbody else None.
Definition observed_decomp (body zbody : bytes) : bytes -> option bytes :=
  fun z => if zlist_eqb z zbody then Some body else None.

Definition check (c : case) : bool :=
  match c with
  | CBuild v comp tracing stream r out =>
      match out with
      | OBytes b => builds v comp tracing stream r b
      | OFail cl =>
          (res_class (build_frame (if comp then Some test_comp else None) v tracing 0 stream r) =? cl) && negb (cl =? 0)
      end
  | CConnQuery v comp tracing ks q stmt prepared stream out =>
      builds v comp tracing stream (conn_execute_query v ks q stmt prepared) out
  | CConnBatch v comp tracing typ entries cl serial dts dtsv payload stream out =>
      match conn_execute_batch v typ entries cl serial dts dtsv payload, out with
      | Some r, Some b => builds v comp tracing stream r b
      | None, None => true
      | _, _ => false
      end
  | CLiveZ v tracing stream r body zbody out =>
      builds_with (Some (observed_comp body zbody)) (observed_decomp body zbody) v tracing stream r out
  | CConnBind v comp tracing ks q stmt id vals dis stream out =>
      builds v comp tracing stream (conn_execute_query v ks q stmt (Some (id, map marshal_query_value vals, dis))) out
  | CConnBatchBind v comp tracing typ entries cl serial dts dtsv payload stream out =>
      let entries' := map (fun e => (fst e, match snd e with
                                            | Some (id, vals) => Some (id, map marshal_query_value vals)
                                            | None => None
                                            end)) entries in
      match conn_execute_batch v typ entries' cl serial dts dtsv payload, out with
      | Some r, Some b => builds v comp tracing stream r b
      | None, None => true
      | Some r, None =>   (* nothing written: the builder must have refused (named values in a batch) *)
          match build_frame (if comp then Some test_comp else None) v tracing 0 stream r with Ok _ => false | _ => true end
      | None, Some _ => false
      end
  | CConnUse v comp scons ks stream out => builds v comp false stream (conn_use_keyspace scons ks) out
  | CConnPrepare v comp tracing ks stmt stream out => builds v comp tracing stream (conn_prepare v ks stmt) out
  | CSessionBatchGuard n refused => Bool.eqb (session_batch_refused n) refused
  | CBatchGuard v refused => Bool.eqb (conn_batch_refused v) refused
  | CTooBig n refused => Bool.eqb (too_big n) refused
  end.

Definition run (cs : list case) : list N := mismatches check cs.
