(* C03/Refuted.v -- machine-checked witnesses (vm_compute on the faithful model) for the full statements
   that the real builders violate, and for the places where what is sent differs from what was asked.

   Inside the property's quantifier (a known finding):
     C03_v1_auth_response_refuted     AUTH_RESPONSE on protocol v1: opcode 0x0F is not a v1 request.
   Outside the stated quantifier (value counts 0..65535, 7/15-bit stream ids) or never sent:
     C03_value_count_65536_refuted    uint16(len(values)) wraps to 0, 65536 values follow;
     C03_string_65536_refuted         uint16(len(s)) wraps for a [string];
     C03_stream_128_refuted           byte(stream) on v1/v2 turns 128 into a server-side (negative) id;
     C03_v1_batch_frame_refuted       writeBatchFrame on v1 (Conn.executeBatch refuses v1 before that).
   Well-formed but lossy (the last sentence of the property only forbids malformed frames):
     C03_unset_below_v4_sent_as_null, C03_names_below_v3_dropped, C03_mixed_names_dropped,
     C03_v1_query_values_dropped, C03_page_size_wraps, C03_timestamp_below_v3_dropped. *)
From GocqlV Require Import Lib.Base Gen.Consts C03.Model C03.Spec C03.Meaning.

Definition repn {A} (n : N) (x : A) : list A := N.iter n (cons x) [].
Definition no_decomp : bytes -> option bytes := fun _ => None.

Definition malformed (out : res) : Prop :=
  match out with Ok b => decode_request no_decomp b = None | _ => False end.

(* ---- the known finding -------------------------------------------------------------------------------- *)
Theorem C03_v1_auth_response_refuted :
  exists r, expressible 1 r = true /\ shorts_ok r = true /\ well_typed 0 r = true
    /\ on_wire 1 r = false
    /\ build_frame None 1 false 0 2 r = Ok [1; 0; 2; 15; 0; 0; 0; 4; 255; 255; 255; 255]
    /\ malformed (build_frame None 1 false 0 2 r).
Proof. exists (RAuthResponse None). vm_compute. repeat split; reflexivity. Qed.

(* ---- outside the quantifier ------------------------------------------------------------------------------ *)
Definition many_values : request :=
  RExecute [171; 205] (mkqp 1 false (repn 65536 (mkqv (Some [7]) [] false)) 0 [] 0 false 0 []) [].

Theorem C03_value_count_65536_refuted :
  expressible 4 many_values = true /\ well_typed 0 many_values = true /\ on_wire 4 many_values = true
  /\ shorts_ok many_values = false
  /\ malformed (build_frame None 4 false 0 1 many_values).
Proof. vm_compute. repeat split; reflexivity. Qed.

Definition long_keyspace : request := RPrepare [115] (repn 65536 107) [].

Theorem C03_string_65536_refuted :
  expressible 5 long_keyspace = true /\ well_typed 0 long_keyspace = true /\ on_wire 5 long_keyspace = true
  /\ shorts_ok long_keyspace = false
  /\ malformed (build_frame None 5 false 0 1 long_keyspace).
Proof. vm_compute. repeat split; reflexivity. Qed.

Theorem C03_stream_128_refuted :
  build_frame None 2 false 0 128 ROptions = Ok [2; 0; 128; 5; 0; 0; 0; 0]
  /\ malformed (build_frame None 2 false 0 128 ROptions).
Proof. vm_compute. split; reflexivity. Qed.

Theorem C03_v1_batch_frame_refuted :
  malformed (build_frame None 1 false 0 1 (RBatch 0 [] 1 0 false 0 [])) /\ conn_batch_refused 1 = true.
Proof. vm_compute. split; reflexivity. Qed.

(* ---- well-formed, but not what was asked for ----------------------------------------------------------------- *)
Definition decoded (out : res) : option message :=
  match out with Ok b => option_map snd (decode_request no_decomp b) | _ => None end.

Definition exec_with (vs : list qvalue) : request := RExecute [1] (mkqp 1 false vs 0 [] 0 false 0 []) [].

Theorem C03_unset_below_v4_sent_as_null :
  let r := exec_with [mkqv None [] true] in
  expressible 3 r = false
  /\ decoded (build_frame None 3 false 0 1 r) = Some (sent 3 false 0 r)
  /\ q_values match m_req (sent 3 false 0 r) with Execute _ o => o | _ => mkqopts 0 (Positional []) false None None None None None end
     = Positional [VNull]
  /\ asked_bound [mkqv None [] true] = Positional [VUnset].
Proof. vm_compute. repeat split; reflexivity. Qed.

Theorem C03_names_below_v3_dropped :
  let r := exec_with [mkqv (Some [1]) [97] false] in
  expressible 2 r = false
  /\ decoded (build_frame None 2 false 0 1 r) = Some (sent 2 false 0 r)
  /\ sent 2 false 0 r <> asked false 0 r.
Proof. vm_compute. repeat split; try reflexivity. discriminate. Qed.

Theorem C03_mixed_names_dropped :
  let r := exec_with [mkqv (Some [1]) [] false; mkqv (Some [2]) [98] false] in
  expressible 4 r = false
  /\ decoded (build_frame None 4 false 0 1 r) = Some (sent 4 false 0 r)
  /\ sent 4 false 0 r <> asked false 0 r.
Proof. vm_compute. repeat split; try reflexivity. discriminate. Qed.

Theorem C03_v1_query_values_dropped :
  let r := RQuery [113] (mkqp 1 false [mkqv (Some [1]) [] false] 0 [] 0 false 0 []) [] in
  expressible 1 r = false
  /\ decoded (build_frame None 1 false 0 1 r) = Some (sent 1 false 0 r)
  /\ sent 1 false 0 r <> asked false 0 r.
Proof. vm_compute. repeat split; try reflexivity. discriminate. Qed.

Theorem C03_page_size_wraps :
  let r := RQuery [113] (mkqp 1 false [] (2 ^ 32 + 5) [] 0 false 0 []) [] in
  expressible 4 r = false
  /\ decoded (build_frame None 4 false 0 1 r) = Some (sent 4 false 0 r)
  /\ sent 4 false 0 r <> asked false 0 r.
Proof. vm_compute. repeat split; try reflexivity. discriminate. Qed.

Theorem C03_timestamp_below_v3_dropped :
  let r := RQuery [113] (mkqp 1 false [] 0 [] 0 true 77 []) [] in
  expressible 2 r = false
  /\ decoded (build_frame None 2 false 0 1 r) = Some (sent 2 false 0 r)
  /\ sent 2 false 0 r <> asked false 0 r.
Proof. vm_compute. repeat split; try reflexivity. discriminate. Qed.
