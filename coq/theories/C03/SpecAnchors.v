(* C03/SpecAnchors.v -- the spec-side decoder run on frames assembled by hand from the text of the protocol
   specifications (not produced by this driver): tests (vm_compute), not theorems.  They pin down the
   reading of the documents that Spec.v encodes: header layout per version, field order, flag bits,
   [short]/[int]/[long]/[string]/[long string]/[bytes]/[short bytes] notations, and what is rejected. *)
From GocqlV Require Import Lib.Base C03.Spec.

Definition nod : bytes -> option bytes := fun _ => None.
Definition no_opts (c : Z) (vals : bound) : qopts := mkqopts c vals false None None None None None.

(* OPTIONS, v4, stream 0 *)
Example anchor_options_v4 :
  decode_request nod [4; 0; 0; 0; 5; 0; 0; 0; 0] = Some (mkhdr 4 0 0 5 0, mkmsg false None Options).
Proof. vm_compute. reflexivity. Qed.

(* STARTUP {"CQL_VERSION": "3.0.0"}, v3, stream 1: 03 00 0001 01 00000016 | 0001 | 000b CQL_VERSION | 0005 3.0.0 *)
Example anchor_startup_v3 :
  decode_request nod [3; 0; 0; 1; 1; 0; 0; 0; 22; 0; 1; 0; 11; 67; 81; 76; 95; 86; 69; 82; 83; 73; 79; 78; 0; 5; 51; 46; 48; 46; 48]
  = Some (mkhdr 3 0 1 1 22,
          mkmsg false None (Startup [([67; 81; 76; 95; 86; 69; 82; 83; 73; 79; 78], [51; 46; 48; 46; 48])])).
Proof. vm_compute. reflexivity. Qed.

(* QUERY "Q?" at QUORUM with one 4-byte value and page size 100, v2 (1-byte stream 5), flags 0x01|0x04 *)
Example anchor_query_v2 :
  decode_request nod [2; 0; 5; 7; 0; 0; 0; 23; 0; 0; 0; 2; 81; 63; 0; 4; 5; 0; 1; 0; 0; 0; 4; 0; 0; 0; 42; 0; 0; 0; 100]
  = Some (mkhdr 2 0 5 7 23,
          mkmsg false None (Query [81; 63] (mkqopts 4 (Positional [VBytes [0; 0; 0; 42]]) false (Some 100) None None None None))).
Proof. vm_compute. reflexivity. Qed.

(* EXECUTE id=abcd with one null value at ONE, v1: <id><n><values><consistency> *)
Example anchor_execute_v1 :
  decode_request nod [1; 0; 2; 10; 0; 0; 0; 12; 0; 2; 171; 205; 0; 1; 255; 255; 255; 255; 0; 1]
  = Some (mkhdr 1 0 2 10 12, mkmsg false None (Execute [171; 205] (no_opts 1 (Positional [VNull])))).
Proof. vm_compute. reflexivity. Qed.

(* BATCH unlogged, one unprepared query "q" without values, LOCAL_QUORUM, flags 0x20 + timestamp 1, v3, stream 0x0102 *)
Example anchor_batch_v3 :
  decode_request nod [3; 0; 1; 2; 13; 0; 0; 0; 22; 1; 0; 1; 0; 0; 0; 0; 1; 113; 0; 0; 0; 6; 32; 0; 0; 0; 0; 0; 0; 0; 1]
  = Some (mkhdr 3 0 258 13 22, mkmsg false None (Batch 1 [(BQuery [113], [])] 6 None (Some 1))).
Proof. vm_compute. reflexivity. Qed.

(* EXECUTE v4 with tracing + custom payload {"k": 0x01}, named values (a = unset, b = null), skip metadata,
   serial consistency SERIAL, timestamp -1: header flags 0x06, query flags 0x01|0x02|0x10|0x20|0x40 = 0x73 *)
Example anchor_execute_v4 :
  decode_request nod
    ([4; 6; 127; 255; 10; 0; 0; 0; 42]
     ++ [0; 1; 0; 1; 107; 0; 0; 0; 1; 1]                 (* [bytes map] *)
     ++ [0; 1; 9]                                          (* [short bytes] id *)
     ++ [0; 10; 115]                                       (* consistency LOCAL_ONE, flags *)
     ++ [0; 2; 0; 1; 97; 255; 255; 255; 254; 0; 1; 98; 255; 255; 255; 255]
     ++ [0; 8]
     ++ [255; 255; 255; 255; 255; 255; 255; 255])
  = Some (mkhdr 4 6 32767 10 42,
          mkmsg true (Some [([107], Some [1])])
                (Execute [9] (mkqopts 10 (Named [([97], VUnset); ([98], VNull)]) true None None (Some 8) (Some (-1)) None))).
Proof. vm_compute. reflexivity. Qed.

(* PREPARE "q" with keyspace "ks", v5 beta: <long string><flags [int]><keyspace> *)
Example anchor_prepare_v5 :
  decode_request nod [5; 16; 0; 1; 9; 0; 0; 0; 13; 0; 0; 0; 1; 113; 0; 0; 0; 1; 0; 2; 107; 115]
  = Some (mkhdr 5 16 1 9 13, mkmsg false None (Prepare [113] (Some [107; 115]))).
Proof. vm_compute. reflexivity. Qed.

(* rejected: response direction; v5 without the beta flag; length field off by one; AUTH_RESPONSE on v1;
   query flag 0x20 on v2; unset (-2) is only a [value] from v4 (on v3 it reads as null); value length -3 on v4;
   negative stream id; BATCH on v1 *)
Example anchor_rejects :
  decode_request nod [132; 0; 0; 0; 5; 0; 0; 0; 0] = None
  /\ decode_request nod [5; 0; 0; 1; 5; 0; 0; 0; 0] = None
  /\ decode_request nod [4; 0; 0; 0; 5; 0; 0; 0; 1] = None
  /\ decode_request nod [1; 0; 2; 15; 0; 0; 0; 4; 255; 255; 255; 255] = None
  /\ decode_request nod [2; 0; 5; 7; 0; 0; 0; 9; 0; 0; 0; 2; 81; 63; 0; 4; 32] = None
  /\ decode_request nod [3; 0; 0; 1; 10; 0; 0; 0; 11; 0; 0; 0; 1; 1; 0; 1; 255; 255; 255; 254]
     = Some (mkhdr 3 0 1 10 11, mkmsg false None (Execute [] (mkqopts 1 (Positional [VNull]) false None None None None None)))
  /\ decode_request nod [4; 0; 0; 1; 10; 0; 0; 0; 11; 0; 0; 0; 1; 1; 0; 1; 255; 255; 255; 253] = None
  /\ decode_request nod [3; 0; 255; 255; 5; 0; 0; 0; 0] = None
  /\ decode_request nod [1; 0; 1; 13; 0; 0; 0; 5; 0; 0; 0; 0; 1] = None.
Proof. vm_compute. repeat split; reflexivity. Qed.
