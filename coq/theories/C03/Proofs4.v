(* C03/Proofs4.v -- on expressible requests what is sent is what was asked for; header facts that hold for
   every request; which requests are refused. *)
From GocqlV Require Import Lib.Base Gen.Consts C03.Model C03.Spec C03.Meaning C03.Proofs1 C03.Proofs2 C03.Proofs3.

Arguments Z.mul : simpl never.
Arguments Z.add : simpl never.
Arguments Z.sub : simpl never.
Arguments Z.pow : simpl never.
Arguments Z.of_nat : simpl never.

Lemma sent_value_asked v q : (4 <=? v) || negb (qv_unset q) = true -> sent_value v q = asked_value q.
Proof.
  unfold sent_value, asked_value. intros H. destruct (qv_unset q); [|reflexivity].
  replace (v <? 4) with false by lia. reflexivity.
Qed.

Lemma map_sent_value_asked v vs :
  (4 <=? v) || forallb (fun q => negb (qv_unset q)) vs = true -> map (sent_value v) vs = map asked_value vs.
Proof.
  intros H. apply map_ext_in. intros q Hq. apply sent_value_asked.
  destruct (4 <=? v); [reflexivity|]. cbn [orb] in *. rewrite forallb_forall in H. apply H, Hq.
Qed.

Lemma no_names_first vs : no_names vs = true -> first_named vs = false.
Proof.
  destruct vs as [|q vs]; [reflexivity|]. cbn [no_names forallb first_named]. intros H.
  apply andb_true_iff in H. destruct H as [H _]. destruct (nonempty (qv_name q)); [discriminate | reflexivity].
Qed.

Lemma sent_bound_asked v vs : values_expressible v vs = true -> sent_bound v vs = asked_bound vs.
Proof.
  unfold values_expressible, sent_bound, asked_bound. intros H. apply andb_true_iff in H. destruct H as [Hn Hu].
  destruct (no_names vs) eqn:N.
  - rewrite (no_names_first vs N), andb_false_r. f_equal. apply map_sent_value_asked, Hu.
  - cbn [orb] in Hn. apply andb_true_iff in Hn. destruct Hn as [H3 Ha]. rewrite H3. cbn [andb].
    destruct vs as [|q vs]; [discriminate N|]. cbn [all_names forallb] in Ha. apply andb_true_iff in Ha.
    destruct Ha as [Hq _]. cbn [first_named]. rewrite Hq. f_equal.
    apply map_ext_in. intros q' Hq'. f_equal. apply sent_value_asked.
    destruct (4 <=? v); [reflexivity|]. cbn [orb] in *. rewrite forallb_forall in Hu. apply Hu, Hq'.
Qed.

Lemma opt_if_false {A} (x : A) : opt_if false x = None.
Proof. reflexivity. Qed.

Lemma sent_params_asked v now p (execute : bool) :
  1 <= v <= 5 -> params_expressible v execute p = true ->
  (if v =? 1
   then if execute
        then mkqopts (qp_cons p) (Positional (map (sent_value v) (qp_values p))) false None None None None None
        else sent_params v now p
   else sent_params v now p) = asked_params now p.
Proof.
  intros Hv H. unfold params_expressible in H.
  apply andb_true_iff in H. destruct H as [H Hx]. apply andb_true_iff in H. destruct H as [Hps Hks].
  unfold sent_params, asked_params. destruct (v =? 1) eqn:E1.
  - replace (5 <=? v) with false in Hks by lia. cbn [orb] in Hks.
    apply andb_true_iff in Hx. destruct Hx as [Hx Hdts].
    apply andb_true_iff in Hx. destruct Hx as [Hx Hser].
    apply andb_true_iff in Hx. destruct Hx as [Hx Hpst].
    apply andb_true_iff in Hx. destruct Hx as [Hx Hpsz].
    apply andb_true_iff in Hx. destruct Hx as [Hx Hskip].
    apply andb_true_iff in Hx. destruct Hx as [Hx Hunset].
    apply andb_true_iff in Hx. destruct Hx as [Hexec Hnn].
    apply negb_true_iff in Hks, Hdts, Hser, Hpst, Hpsz, Hskip.
    rewrite Hks, Hdts, Hser, Hpst, Hpsz, Hskip. rewrite !opt_if_false. unfold asked_bound. rewrite Hnn.
    destruct execute; cbn [orb negb] in Hexec.
    + f_equal. f_equal. apply map_sent_value_asked. rewrite Hunset. apply orb_true_r.
    + apply negb_true_iff in Hexec. apply nonempty_false in Hexec. rewrite Hexec. reflexivity.
  - apply andb_true_iff in Hx. destruct Hx as [Hve Hts].
    rewrite (sent_bound_asked v _ Hve). f_equal.
    + destruct (0 <? qp_page_size p) eqn:E; [|reflexivity]. cbn [opt_if]. f_equal. apply signed32_small. lia.
    + destruct (3 <=? v); [reflexivity|]. cbn [orb andb] in *. destruct (qp_default_ts p); [discriminate | reflexivity].
Qed.

Lemma sent_asked v tracing now r :
  1 <= v <= 5 -> expressible v r = true -> well_typed now r = true ->
  sent v tracing now r = asked tracing now r.
Proof.
  intros Hv He Ht. unfold sent, asked. f_equal.
  destruct r as [opts| |d|evs|stmt p pl|stmt ks pl|id p pl|t ss c sc dts dtsv pl]; cbn [sent_req asked_req expressible] in *; try reflexivity.
  - apply andb_true_iff in He. destruct He as [He _]. f_equal.
    pose proof (sent_params_asked v now p false Hv He) as E. destruct (v =? 1); exact E.
  - apply andb_true_iff in He. destruct He as [He _]. f_equal.
    pose proof (sent_params_asked v now p true Hv He) as E. destruct (v =? 1); exact E.
  - apply andb_true_iff in He. destruct He as [He _]. apply andb_true_iff in He. destruct He as [Hss H3].
    unfold well_typed in Ht. repeat (apply andb_true_iff in Ht; destruct Ht as [Ht ?]).
    f_equal.
    + unfold byte_of. apply Z.mod_small. lia.
    + apply map_ext_in. intros s Hs. unfold sent_bquery, asked_bquery. f_equal.
      rewrite forallb_forall in Hss. specialize (Hss s Hs). apply andb_true_iff in Hss. destruct Hss as [_ Hu].
      apply map_sent_value_asked, Hu.
    + destruct (3 <=? v); [reflexivity|]. cbn [orb andb] in *. apply andb_true_iff in H3. destruct H3 as [H3 _].
      destruct (0 <? sc); [discriminate | reflexivity].
    + destruct (3 <=? v); [reflexivity|]. cbn [orb andb] in *. apply andb_true_iff in H3. destruct H3 as [_ H3].
      destruct dts; [discriminate | reflexivity].
Qed.

(* ---- the header of every frame that is built ---------------------------------------------------------------- *)
Lemma header_of_built comp decomp v tracing now stream r out :
  1 <= v <= 5 -> stream_ok v stream -> codec_ok comp decomp ->
  build_frame comp v tracing now stream r = Ok out ->
  exists body,
    p_header out = Some (mkhdr v (expected_flags (has_comp comp) tracing v r) stream
                               (opcode_of (asked_req now r)) (len body), body)
    /\ len out = head_size v + len body
    /\ (has_comp comp = false -> len out <= K.maxFrameSize).
Proof.
  intros Hv Hst Hcodec H.
  destruct (built_shape comp v tracing now stream r out Hv H) as (body & body' & Hbody & Hwire & Hout & Hsize).
  set (hc := has_comp comp) in *.
  pose proof (hflags_spec hc (v =? 5) tracing (nonempty (payload_of r)) (never_compressed r)) as F. cbv zeta in F.
  set (hfl := hflags hc (v =? 5) tracing (nonempty (payload_of r)) (never_compressed r)) in *.
  destruct F as (Fr & F1 & F2 & F4 & Fc & Fe).
  assert (HL : len body' < 2 ^ 31 /\ (hc = false -> body' = body)).
  { unfold wire_body in Hwire. rewrite Fc in Hwire. destruct (hc && negb (never_compressed r)) eqn:Ec.
    - destruct comp as [c|]; [|discriminate]. cbn [codec_ok] in Hcodec. destruct (Hcodec _ _ Hwire) as [_ Hz].
      split; [apply Hz; unfold head_size in Hsize; destruct (3 <=? v); lia|].
      intros Hc. subst hc. cbn [has_comp] in Hc. discriminate.
    - apply Some_inj in Hwire. subst body'. split; [|reflexivity].
      unfold K.maxFrameSize, head_size in Hsize. pose proof (len_nonneg body). destruct (3 <=? v); zl. }
  destruct HL as [HL Hsame]. pose proof (len_nonneg body') as HL0.
  exists body'. rewrite Hout, len_frame_bytes. unfold frame_bytes.
  rewrite (p_header_write v hfl stream (op_of r) (len body') body' Hv Hst (op_of_range r) (conj HL0 HL)).
  split; [|split].
  - f_equal. f_equal. f_equal.
    + rewrite Fe. apply expected_flags_eq, Hv.
    + destruct r; reflexivity.
  - reflexivity.
  - intros Hc. rewrite (Hsame Hc). exact Hsize.
Qed.

(* ---- requests that are refused ------------------------------------------------------------------------------- *)
Lemma frame_not_ok f comp hfl op stream body : (forall b, body <> Ok b) -> forall out, frame f comp hfl op stream body <> Ok out.
Proof. intros H out. unfold frame. destruct body as [b| |]; cbn [seqr]; [exfalso; apply (H b); reflexivity | discriminate | discriminate]. Qed.

Lemma payload_below_v4_refused comp v tracing now stream r :
  1 <= v <= 5 -> v < 4 -> nonempty (payload_of r) = true ->
  build_frame comp v tracing now stream r = Panic PPayloadVersion.
Proof.
  intros Hv H4 Hp. rewrite build_frame_eq. cbv zeta. rewrite (framer_of_proto _ v tracing Hv).
  unfold frame, body_of, write_custom_payload. fold (nonempty (payload_of r)). rewrite Hp, (lt4 v).
  replace (4 <=? v) with false by lia. reflexivity.
Qed.

Lemma keyspace_below_v5_refused comp v tracing now stream r out :
  2 <= v <= 4 ->
  match r with
  | RQuery _ p _ | RExecute _ p _ => nonempty (qp_keyspace p) = true
  | RPrepare _ ks _ => nonempty ks = true
  | _ => False
  end ->
  build_frame comp v tracing now stream r <> Ok out.
Proof.
  intros Hv Hk. rewrite build_frame_eq. cbv zeta. rewrite (framer_of_proto _ v tracing) by lia.
  apply frame_not_ok. intros b Hb. unfold body_of in Hb. apply seqr_ok in Hb. destruct Hb as (pb & mb & _ & Hmb & _).
  destruct r; try contradiction; cbn [main_body] in Hmb.
  - apply seqr_ok in Hmb. destruct Hmb as (_ & y & _ & Hy & _). unfold write_query_params in Hy.
    rewrite (eq1 v), (gt4 v), Hk in Hy. replace (v =? 1) with false in Hy by lia.
    replace (5 <=? v) with false in Hy by lia. discriminate.
  - unfold write_prepare_body in Hmb. rewrite (gt4 v), Hk in Hmb. replace (5 <=? v) with false in Hmb by lia. discriminate.
  - unfold write_execute_body in Hmb. apply seqr_ok in Hmb. destruct Hmb as (_ & y & _ & Hy & _).
    rewrite (gt1 v) in Hy. replace (2 <=? v) with true in Hy by lia. unfold write_query_params in Hy.
    rewrite (eq1 v), (gt4 v), Hk in Hy. replace (v =? 1) with false in Hy by lia.
    replace (5 <=? v) with false in Hy by lia. discriminate.
Qed.

Lemma batch_names_refused comp v tracing now stream t ss c sc dts dtsv pl out :
  3 <= v <= 5 -> existsb (fun b => existsb (fun q => nonempty (qv_name q)) (bs_values b)) ss = true ->
  build_frame comp v tracing now stream (RBatch t ss c sc dts dtsv pl) <> Ok out.
Proof.
  intros Hv Hn. rewrite build_frame_eq. cbv zeta. rewrite (framer_of_proto _ v tracing) by lia.
  apply frame_not_ok. intros b Hb. unfold body_of in Hb. apply seqr_ok in Hb. destruct Hb as (pb & mb & _ & Hmb & _).
  cbn [main_body] in Hmb. unfold write_batch_body in Hmb.
  apply seqr_ok in Hmb. destruct Hmb as (_ & y & _ & Hy & _). apply seqr_ok in Hy. destruct Hy as (ys & _ & Hys & _ & _).
  pose proof (batch_not_named v ltac:(lia) ss ys Hys) as Hbn. unfold batch_named in Hbn.
  rewrite (gt2 v), Hn in Hbn. replace (3 <=? v) with true in Hbn by lia. discriminate.
Qed.

(* ---- the statements of Props.v ------------------------------------------------------------------------------------ *)
Lemma decode_build_lemma :
  forall comp decomp v tracing now stream r out,
    1 <= v <= 5 -> stream_ok v stream -> codec_ok comp decomp ->
    well_typed now r = true -> shorts_ok r = true -> on_wire v r = true -> expressible v r = true ->
    build_frame comp v tracing now stream r = Ok out ->
    decode_request decomp out
    = Some (mkhdr v (expected_flags (has_comp comp) tracing v r) stream (opcode_of (asked_req now r))
                  (len out - head_size v),
            asked tracing now r).
Proof.
  intros comp decomp v tracing now stream r out Hv Hst Hc Ht Hs Hw He H.
  rewrite (wire_meaning comp decomp v tracing now stream r out Hv Hst Hc Ht Hs Hw H).
  rewrite (sent_asked v tracing now r Hv He Ht).
  replace (opcode_of (sent_req v now r)) with (opcode_of (asked_req now r)) by (destruct r; reflexivity).
  reflexivity.
Qed.

Lemma no_malformed_lemma :
  forall comp decomp v tracing now stream r,
    1 <= v <= 5 -> stream_ok v stream -> codec_ok comp decomp ->
    well_typed now r = true -> shorts_ok r = true -> on_wire v r = true ->
    match build_frame comp v tracing now stream r with
    | Ok out => exists h m, decode_request decomp out = Some (h, m) /\ h_length h = len out - head_size v
    | Err _ | Panic _ => True
    end.
Proof.
  intros comp decomp v tracing now stream r Hv Hst Hc Ht Hs Hw.
  destruct (build_frame comp v tracing now stream r) as [out| |] eqn:H; [|exact I|exact I].
  eexists _, _. split; [apply (wire_meaning comp decomp v tracing now stream r out Hv Hst Hc Ht Hs Hw H) | reflexivity].
Qed.

Lemma inexpressible_refused_lemma :
  forall comp v tracing now stream r,
    (1 <= v <= 5 -> v < 4 -> nonempty (payload_of r) = true ->
       build_frame comp v tracing now stream r = Panic PPayloadVersion)
    /\ (2 <= v <= 4 ->
        match r with
        | RQuery _ p _ | RExecute _ p _ => nonempty (qp_keyspace p) = true
        | RPrepare _ ks _ => nonempty ks = true
        | _ => False
        end -> forall out, build_frame comp v tracing now stream r <> Ok out)
    /\ (3 <= v <= 5 ->
        match r with
        | RBatch _ ss _ _ _ _ _ => existsb (fun b => existsb (fun q => nonempty (qv_name q)) (bs_values b)) ss = true
        | _ => False
        end -> forall out, build_frame comp v tracing now stream r <> Ok out).
Proof.
  intros comp v tracing now stream r. split; [|split].
  - apply payload_below_v4_refused.
  - intros Hv Hk out. apply keyspace_below_v5_refused; assumption.
  - intros Hv Hn out. destruct r; try contradiction. apply batch_names_refused; assumption.
Qed.

Lemma missing_kinds_lemma :
  forall v r, 1 <= v <= 5 -> on_wire v r = false ->
    v = 1 /\ ((exists d, r = RAuthResponse d)
              \/ ((exists t ss c sc dts dtsv pl, r = RBatch t ss c sc dts dtsv pl) /\ conn_batch_refused v = true)).
Proof.
  intros v r Hv H. destruct r; cbn [on_wire] in H; try discriminate; (split; [lia|]).
  - left. eauto.
  - right. split; [eauto 10|]. unfold conn_batch_refused. change K.protoVersion1 with 1. lia.
Qed.

(* ---- conn.go never asks the builders for something the version cannot express, given an expressible API call -- *)
Lemma conn_requests_expressible_lemma :
  forall v ks q stmt prepared,
    2 <= v <= 5 -> api_expressible v q prepared = true ->
    expressible v (conn_execute_query v ks q stmt prepared) = true
    /\ expressible v (conn_use_keyspace (qi_cons q) ks) = true
    /\ expressible v (conn_prepare v ks stmt) = true.
Proof.
  intros v ks q stmt prepared Hv H. unfold api_expressible in H. unfold bytes in *.
  apply andb_true_iff in H. destruct H as [H Hvals]. apply andb_true_iff in H. destruct H as [H Hpl].
  apply andb_true_iff in H. destruct H as [Hps Hts].
  assert (Hks : (5 <=? v) || negb (nonempty (if v >? K.protoVersion4 then ks else [])) = true).
  { rewrite (gt4 v). destruct (5 <=? v); reflexivity. }
  assert (Hpsz : ((if 0 <? qi_page_size q then qi_page_size q else 0) <? 2 ^ 31) = true).
  { destruct (0 <? qi_page_size q); [exact Hps | reflexivity]. }
  split; [|split].
  - unfold conn_execute_query. destruct prepared as [[[id vals] dis]|]; cbn [expressible].
    + unfold params_expressible, conn_params. cbn [qp_page_size qp_keyspace qp_values qp_default_ts].
      unfold bytes in *. rewrite Hpsz, Hks, Hvals, Hts, Hpl. replace (v =? 1) with false by lia. reflexivity.
    + unfold params_expressible, conn_params. cbn [qp_page_size qp_keyspace qp_values qp_default_ts].
      unfold bytes in *. rewrite Hpsz, Hks, Hts, Hpl. replace (v =? 1) with false by lia.
      unfold values_expressible. cbn [no_names forallb orb andb]. rewrite orb_true_r. reflexivity.
  - unfold conn_use_keyspace. cbn [expressible]. unfold params_expressible, payload_expressible.
    cbn [qp_page_size qp_keyspace qp_values qp_default_ts qp_skip_meta qp_paging_state qp_serial].
    replace (v =? 1) with false by lia. unfold values_expressible. cbn [no_names forallb orb andb nonempty len length].
    destruct (5 <=? v), (4 <=? v), (3 <=? v); reflexivity.
  - unfold conn_prepare. cbn [expressible]. unfold bytes in *. rewrite Hks. unfold payload_expressible.
    destruct (4 <=? v); reflexivity.
Qed.

(* ---- the session-level guard keeps the statement count of a batch inside the [short] ------------------------------- *)
Lemma conn_batch_stmts_len version typ entries cl serial dts dtsv payload r :
  conn_execute_batch version typ entries cl serial dts dtsv payload = Some r ->
  exists ss, r = RBatch typ ss cl serial dts dtsv payload /\ len ss = len entries.
Proof.
  unfold conn_execute_batch. destruct (conn_batch_refused version); [discriminate|]. intros H.
  apply Some_inj in H. subst r. eexists. split; [reflexivity|]. apply len_map.
Qed.

Lemma session_batch_count_fits_lemma :
  forall version typ entries cl serial dts dtsv payload r,
    session_execute_batch version typ entries cl serial dts dtsv payload = Some r ->
    exists ss, r = RBatch typ ss cl serial dts dtsv payload /\ len ss = len entries /\ short_len ss = true.
Proof.
  intros version typ entries cl serial dts dtsv payload r H. unfold session_execute_batch in H.
  destruct (session_batch_refused (len entries)) eqn:G; [discriminate|].
  destruct (conn_batch_stmts_len _ _ _ _ _ _ _ _ _ H) as (ss & -> & Hl).
  exists ss. split; [reflexivity|]. split; [exact Hl|].
  unfold short_len. rewrite Hl. unfold session_batch_refused, K.BatchSizeMaximum in G. zl.
Qed.
