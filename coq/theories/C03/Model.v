(* C03/Model.v -- executable model of the request writers of /repo/frame.go (definitions only).

   Transcribed from: newFramer (frame.go:407-437), trace/payload (492-499), writeHeader / setLength /
   finish (724-788), the write*Frame builders (833-870, 1434-1438, 1468-1561, 1579-1589, 1617-1640,
   1668-1743, 1751-1769) and the primitive appenders (1939-2072).  Same branches, same order of
   checks, the uint16/int32 conversions written out as [wrap 16]/[signed 32].

   Go values: strings and non-nil byte slices are [bytes]; a []byte whose nil-ness is looked at
   (writeBytes) is [option bytes]; Go maps (iteration order unspecified) are association lists given
   in the order in which the range loop happens to visit them; time.Now() is the input [now]
   (microseconds); a Compressor is [bytes -> option bytes] (None = Encode returned an error). *)
From GocqlV Require Import Lib.Base Gen.Consts.

Definition len {A} (l : list A) : Z := Z.of_nat (length l).

(* ---- outcomes ------------------------------------------------------------------------------ *)
Inductive errc := EFrameTooBig | EBatchNamed | ECompress.
Inductive panicc := PPayloadVersion | PKeyspaceVersion | PNoCompressor.
Inductive res := Ok (b : bytes) | Err (e : errc) | Panic (p : panicc).

(* sequencing of two writers: the first failure wins, otherwise the outputs are concatenated *)
Definition seqr (a b : res) : res :=
  match a with
  | Ok x => match b with Ok y => Ok (x ++ y) | o => o end
  | o => o
  end.

(* a writer applied to every element of a slice in order (the body of a Go for loop) *)
Fixpoint seq_all {A} (f : A -> res) (l : list A) : res :=
  match l with
  | [] => Ok []
  | x :: l' => seqr (f x) (seq_all f l')
  end.

(* ---- primitive appenders (frame.go:1939-2072) ------------------------------------------------ *)
Definition app_short (n : Z) : bytes := [byte_of (Z.shiftr n 8); byte_of n].
Definition app_int (n : Z) : bytes :=
  [byte_of (Z.shiftr n 24); byte_of (Z.shiftr n 16); byte_of (Z.shiftr n 8); byte_of n].
Definition app_uint (n : Z) : bytes := app_int n.
Definition app_long (n : Z) : bytes :=
  [byte_of (Z.shiftr n 56); byte_of (Z.shiftr n 48); byte_of (Z.shiftr n 40); byte_of (Z.shiftr n 32);
   byte_of (Z.shiftr n 24); byte_of (Z.shiftr n 16); byte_of (Z.shiftr n 8); byte_of n].

Definition write_string (s : bytes) : bytes := app_short (wrap 16 (len s)) ++ s.
Definition write_long_string (s : bytes) : bytes := app_int (signed 32 (len s)) ++ s.
Definition write_unset : bytes := app_int (-2).
Definition write_bytes (p : option bytes) : bytes :=
  match p with
  | None => app_int (-1)
  | Some d => app_int (signed 32 (len d)) ++ d
  end.
Definition write_short_bytes (p : bytes) : bytes := app_short (wrap 16 (len p)) ++ p.
Definition write_consistency (c : Z) : bytes := app_short c.
Definition write_string_list (l : list bytes) : bytes :=
  app_short (wrap 16 (len l)) ++ flat_map write_string l.
Definition write_string_map (m : list (bytes * bytes)) : bytes :=
  app_short (wrap 16 (len m)) ++ flat_map (fun kv => write_string (fst kv) ++ write_string (snd kv)) m.
Definition write_bytes_map (m : list (bytes * option bytes)) : bytes :=
  app_short (wrap 16 (len m)) ++ flat_map (fun kv => write_string (fst kv) ++ write_bytes (snd kv)) m.

(* writeCustomPayload (1986-1993) *)
Definition write_custom_payload (proto : Z) (m : list (bytes * option bytes)) : res :=
  if 0 <? len m then
    if proto <? K.protoVersion4 then Panic PPayloadVersion else Ok (write_bytes_map m)
  else Ok [].

(* ---- request structs ------------------------------------------------------------------------- *)
Record qvalue := mkqv { qv_value : option bytes; qv_name : bytes; qv_unset : bool }.

Record qparams := mkqp {
  qp_cons : Z;              (* Consistency, uint16 *)
  qp_skip_meta : bool;
  qp_values : list qvalue;
  qp_page_size : Z;         (* int *)
  qp_paging_state : bytes;
  qp_serial : Z;            (* SerialConsistency, uint16 *)
  qp_default_ts : bool;
  qp_default_ts_value : Z;  (* int64 *)
  qp_keyspace : bytes }.

Record bstmt := mkbs { bs_id : bytes; bs_stmt : bytes; bs_values : list qvalue }.

Definition payload_t := list (bytes * option bytes).

Inductive request :=
| RStartup (opts : list (bytes * bytes))
| ROptions
| RAuthResponse (data : option bytes)
| RRegister (events : list bytes)
| RQuery (stmt : bytes) (p : qparams) (payload : payload_t)
| RPrepare (stmt keyspace : bytes) (payload : payload_t)
| RExecute (id : bytes) (p : qparams) (payload : payload_t)
| RBatch (typ : Z) (stmts : list bstmt) (cl serial : Z) (default_ts : bool) (default_ts_value : Z)
         (payload : payload_t).

(* ---- framer ---------------------------------------------------------------------------------- *)
Record framer := mkfr { fr_proto : Z; fr_flags : Z; fr_head : Z }.

(* newFramer (407-437) *)
Definition new_framer (has_comp : bool) (version : Z) : framer :=
  let flags := 0 in
  let flags := if has_comp then Z.lor flags K.flagCompress else flags in
  let flags := if version =? K.protoVersion5 then Z.lor flags K.flagBetaProtocol else flags in
  let version := Z.land version K.protoVersionMask in
  let head := if version >? K.protoVersion2 then 9 else 8 in
  mkfr version flags head.

Definition fr_trace (f : framer) : framer := mkfr (fr_proto f) (Z.lor (fr_flags f) K.flagTracing) (fr_head f).
Definition fr_payload (f : framer) : framer := mkfr (fr_proto f) (Z.lor (fr_flags f) K.flagCustomPayload) (fr_head f).

(* writeHeader (724-750): the 4 length bytes are padded with zeros *)
Definition write_header (f : framer) (flags op stream : Z) : bytes :=
  [fr_proto f; flags]
  ++ (if fr_proto f >? K.protoVersion2 then [byte_of (Z.shiftr stream 8); byte_of stream] else [byte_of stream])
  ++ [byte_of op; 0; 0; 0; 0].

(* setLength (752-762) *)
Definition set_length (f : framer) (length : Z) (buf : bytes) : bytes :=
  let p := if fr_proto f >? K.protoVersion2 then 5%nat else 4%nat in
  let buf := upd buf p (byte_of (Z.shiftr length 24)) in
  let buf := upd buf (p + 1)%nat (byte_of (Z.shiftr length 16)) in
  let buf := upd buf (p + 2)%nat (byte_of (Z.shiftr length 8)) in
  upd buf (p + 3)%nat (byte_of length).

(* finish (764-788) *)
Definition too_big (n : Z) : bool := n >? K.maxFrameSize.

Definition finish (f : framer) (comp : option (bytes -> option bytes)) (buf : bytes) : res :=
  if too_big (len buf) then Err EFrameTooBig else
  let hs := Z.to_nat (fr_head f) in
  let after :=
    if Z.land (nth 1 buf 0) K.flagCompress =? K.flagCompress then
      match comp with
      | None => Panic PNoCompressor
      | Some c => match c (skipn hs buf) with
                  | None => Err ECompress
                  | Some z => Ok (firstn hs buf ++ z)
                  end
      end
    else Ok buf in
  match after with
  | Ok buf' => Ok (set_length f (len buf' - fr_head f) buf')
  | o => o
  end.

(* header followed by a body writer, then finish *)
Definition frame (f : framer) (comp : option (bytes -> option bytes)) (flags op stream : Z) (body : res) : res :=
  match seqr (Ok (write_header f flags op stream)) body with
  | Ok buf => finish f comp buf
  | o => o
  end.

(* ---- writeQueryParams (1468-1561) ------------------------------------------------------------ *)
Definition or_if (c : bool) (flags bit : Z) : Z := if c then Z.lor flags bit else flags.

Definition nonempty {A} (l : list A) : bool := 0 <? len l.

Definition first_named (vs : list qvalue) : bool :=
  match vs with
  | v :: _ => nonempty (qv_name v)
  | [] => false
  end.

Definition write_value (names : bool) (v : qvalue) : bytes :=
  (if names then write_string (qv_name v) else [])
  ++ (if qv_unset v then write_unset else write_bytes (qv_value v)).

Definition query_flags (proto : Z) (o : qparams) : Z :=
  let flags := 0 in
  let flags := or_if (nonempty (qp_values o)) flags K.flagValues in
  let flags := or_if (qp_skip_meta o) flags K.flagSkipMetaData in
  let flags := or_if (0 <? qp_page_size o) flags K.flagPageSize in
  let flags := or_if (nonempty (qp_paging_state o)) flags K.flagWithPagingState in
  let flags := or_if (0 <? qp_serial o) flags K.flagWithSerialConsistency in
  let flags := or_if ((proto >? K.protoVersion2) && qp_default_ts o) flags K.flagDefaultTimestamp in
  let flags := or_if ((proto >? K.protoVersion2) && first_named (qp_values o)) flags K.flagWithNameValues in
  or_if (nonempty (qp_keyspace o)) flags K.flagWithKeyspace.

Definition write_query_params (proto now : Z) (o : qparams) : res :=
  if proto =? K.protoVersion1 then Ok (write_consistency (qp_cons o)) else
  let names := (proto >? K.protoVersion2) && first_named (qp_values o) in
  if nonempty (qp_keyspace o) && negb (proto >? K.protoVersion4) then Panic PKeyspaceVersion else
  let flags := query_flags proto o in
  Ok (write_consistency (qp_cons o)
      ++ (if proto >? K.protoVersion4 then app_uint flags else [flags])
      ++ (if nonempty (qp_values o)
          then app_short (wrap 16 (len (qp_values o))) ++ flat_map (write_value names) (qp_values o)
          else [])
      ++ (if 0 <? qp_page_size o then app_int (signed 32 (qp_page_size o)) else [])
      ++ (if nonempty (qp_paging_state o) then write_bytes (Some (qp_paging_state o)) else [])
      ++ (if 0 <? qp_serial o then write_consistency (qp_serial o) else [])
      ++ (if (proto >? K.protoVersion2) && qp_default_ts o
          then app_long (if qp_default_ts_value o =? 0 then now else qp_default_ts_value o)
          else [])
      ++ (if nonempty (qp_keyspace o) then write_string (qp_keyspace o) else [])).

(* ---- writeBatchFrame body (1674-1740) --------------------------------------------------------- *)
(* one bound value of a batch statement; the error return of 1697-1699 ends the whole build *)
Definition write_batch_value (proto : Z) (v : qvalue) : res :=
  let val := if qv_unset v then write_unset else write_bytes (qv_value v) in
  if (proto >? K.protoVersion2) && nonempty (qv_name v) then
    if proto <=? K.protoVersion5 then Err EBatchNamed else Ok (write_string (qv_name v) ++ val)
  else Ok val.

Definition write_batch_stmt (proto : Z) (b : bstmt) : res :=
  seqr (Ok ((if len (bs_id b) =? 0
             then 0 :: write_long_string (bs_stmt b)
             else 1 :: write_short_bytes (bs_id b))
            ++ app_short (wrap 16 (len (bs_values b)))))
       (seq_all (write_batch_value proto) (bs_values b)).

Definition batch_named (proto : Z) (stmts : list bstmt) : bool :=
  (proto >? K.protoVersion2) && existsb (fun b => existsb (fun v => nonempty (qv_name v)) (bs_values b)) stmts.

Definition write_batch_body (proto now typ : Z) (stmts : list bstmt) (cl serial : Z) (dts : bool) (dtsv : Z) : res :=
  seqr (Ok (byte_of typ :: app_short (wrap 16 (len stmts))))
  (seqr (seq_all (write_batch_stmt proto) stmts)
        (Ok (write_consistency cl
             ++ (if proto >? K.protoVersion2 then
                   let flags := or_if (batch_named proto stmts) 0 K.flagWithNameValues in
                   let flags := or_if (0 <? serial) flags K.flagWithSerialConsistency in
                   let flags := or_if dts flags K.flagDefaultTimestamp in
                   (if proto >? K.protoVersion4 then app_uint flags else [flags])
                   ++ (if 0 <? serial then write_consistency serial else [])
                   ++ (if dts then app_long (if dtsv =? 0 then now else dtsv) else [])
                 else [])))).

(* ---- writePrepareFrame body (852-867) ---------------------------------------------------------- *)
Definition write_prepare_body (proto : Z) (stmt ks : bytes) : res :=
  if nonempty ks && negb (proto >? K.protoVersion4) then Panic PKeyspaceVersion else
  let flags := or_if (nonempty ks) 0 K.flagWithPreparedKeyspace in
  Ok (write_long_string stmt
      ++ (if proto >? K.protoVersion4 then app_uint flags else [])
      ++ (if nonempty ks then write_string ks else [])).

(* ---- writeExecuteFrame body (1623-1637) --------------------------------------------------------- *)
Definition write_execute_body (proto now : Z) (id : bytes) (p : qparams) : res :=
  seqr (Ok (write_short_bytes id))
       (if proto >? K.protoVersion1 then write_query_params proto now p
        else Ok (app_short (wrap 16 (len (qp_values p)))
                 ++ flat_map (write_value false) (qp_values p)
                 ++ write_consistency (qp_cons p))).

(* ---- the eight builders ------------------------------------------------------------------------- *)
Definition with_payload (f : framer) (pl : payload_t) : framer := if nonempty pl then fr_payload f else f.

(* Conn.exec: newFramer(c.compressor, c.version); framer.trace() if a tracer is set; req.buildFrame(framer, stream) *)
Definition build_frame (comp : option (bytes -> option bytes)) (version : Z) (tracing : bool) (now stream : Z)
           (r : request) : res :=
  let f := new_framer (match comp with Some _ => true | None => false end) version in
  let f := if tracing then fr_trace f else f in
  let proto := fr_proto f in
  match r with
  | RStartup opts =>
      frame f comp (Z.ldiff (fr_flags f) K.flagCompress) K.opStartup stream (Ok (write_string_map opts))
  | ROptions =>
      frame f comp (Z.ldiff (fr_flags f) K.flagCompress) K.opOptions stream (Ok [])
  | RAuthResponse data =>
      frame f comp (fr_flags f) K.opAuthResponse stream (Ok (write_bytes data))
  | RRegister events =>
      frame f comp (fr_flags f) K.opRegister stream (Ok (write_string_list events))
  | RQuery stmt p pl =>
      let f := with_payload f pl in
      frame f comp (fr_flags f) K.opQuery stream
        (seqr (write_custom_payload proto pl) (seqr (Ok (write_long_string stmt)) (write_query_params proto now p)))
  | RPrepare stmt ks pl =>
      let f := with_payload f pl in
      frame f comp (fr_flags f) K.opPrepare stream
        (seqr (write_custom_payload proto pl) (write_prepare_body proto stmt ks))
  | RExecute id p pl =>
      let f := with_payload f pl in
      frame f comp (fr_flags f) K.opExecute stream
        (seqr (write_custom_payload proto pl) (write_execute_body proto now id p))
  | RBatch typ stmts cl serial dts dtsv pl =>
      let f := with_payload f pl in
      frame f comp (fr_flags f) K.opBatch stream
        (seqr (write_custom_payload proto pl) (write_batch_body proto now typ stmts cl serial dts dtsv))
  end.

(* Conn.executeBatch (conn.go:1542-1544): protocol 1 has no BATCH; refused before any frame is built *)
Definition conn_batch_refused (version : Z) : bool := version =? K.protoVersion1.

(* ---- conn.go: how the request structs are filled ------------------------------------------------------------
   executeQuery (conn.go, "params := queryParams{...}" up to the two frame literals), executeBatch
   ("req := &writeBatchFrame{...}" and the per-entry loop), UseKeyspace, prepareStatement.  Marshalling of
   the bound values (marshalQueryValue) belongs to C02/C12: here a bound value arrives as the queryValues
   it was marshalled into. *)
Record query_in := mkqi {
  qi_cons : Z; qi_serial : Z; qi_default_ts : bool; qi_default_ts_value : Z;
  qi_page_state : bytes; qi_page_size : Z; qi_payload : payload_t }.

Definition conn_params (version : Z) (current_ks : bytes) (q : query_in) (values : list qvalue) (skip_meta : bool) : qparams :=
  mkqp (qi_cons q) skip_meta values
       (if 0 <? qi_page_size q then qi_page_size q else 0)
       (if nonempty (qi_page_state q) then qi_page_state q else [])
       (qi_serial q) (qi_default_ts q) (qi_default_ts_value q)
       (if version >? K.protoVersion4 then current_ks else []).

(* prepared = Some (id, marshalled values, DisableSkipMetadata || disableSkipMetadata) when the statement is
   executed through a prepared statement, None when it is sent as a QUERY *)
Definition conn_execute_query (version : Z) (current_ks : bytes) (q : query_in) (stmt : bytes)
           (prepared : option (bytes * list qvalue * bool)) : request :=
  match prepared with
  | Some (id, values, disable_skip) =>
      RExecute id (conn_params version current_ks q values (negb disable_skip)) (qi_payload q)
  | None => RQuery stmt (conn_params version current_ks q [] false) (qi_payload q)
  end.

(* a batch entry: the statement text, and Some (id, values) when it has arguments (then it is prepared) *)
Definition conn_batch_stmt (e : bytes * option (bytes * list qvalue)) : bstmt :=
  match snd e with
  | Some (id, values) => mkbs id [] values
  | None => mkbs [] (fst e) []
  end.

Definition conn_execute_batch (version typ : Z) (entries : list (bytes * option (bytes * list qvalue)))
           (cl serial : Z) (dts : bool) (dtsv : Z) (payload : payload_t) : option request :=
  if conn_batch_refused version then None
  else Some (RBatch typ (map conn_batch_stmt entries) cl serial dts dtsv payload).

Definition conn_use_keyspace (session_cons : Z) (ks : bytes) : request :=
  RQuery ([85; 83; 69; 32; 34] ++ ks ++ [34]) (mkqp session_cons false [] 0 [] 0 false 0 []) [].

Definition conn_prepare (version : Z) (current_ks stmt : bytes) : request :=
  RPrepare stmt (if version >? K.protoVersion4 then current_ks else []) [].

(* Session.executeBatch (session.go, "if batch.Size() > BatchSizeMaximum { return &Iter{err: ErrTooManyStmts} }"):
   the guard in front of every batch that goes through the public API *)
Definition session_batch_refused (n : Z) : bool := n >? K.BatchSizeMaximum.

Definition session_execute_batch (version typ : Z) (entries : list (bytes * option (bytes * list qvalue)))
           (cl serial : Z) (dts : bool) (dtsv : Z) (payload : payload_t) : option request :=
  if session_batch_refused (len entries) then None
  else conn_execute_batch version typ entries cl serial dts dtsv payload.

(* marshalQueryValue (conn.go) for a bind marker of type blob: a *namedValue wrapper is unwrapped first (its
   name kept), then UnsetValue gives isUnset, anything else goes through Marshal, which for blob is the
   identity on []byte and gives nil (null) for nil.  An API-level bound value is (optional name, content). *)
Inductive api_bound := AUnset | ANull | ABytes (b : bytes).

Definition marshal_query_value (a : option bytes * api_bound) : qvalue :=
  let name := match fst a with Some n => n | None => [] end in
  match snd a with
  | AUnset => mkqv None name true
  | ANull => mkqv None name false
  | ABytes b => mkqv (Some b) name false
  end.
