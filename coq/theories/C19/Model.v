(* C19/Model.v -- executable model of uuid.go (ParseUUID, String, TimeUUIDWith, Timestamp, Time,
   Version, Variant, Clock, Node, getTimestamp, Min/MaxTimeUUID, RandomUUID's stamping, UUIDFromTime).
   Definitions only; proofs live in Proofs.v. *)
From GocqlV Require Import Lib.Base Gen.Consts.

Definition uuid := list Z.                     (* 16 bytes *)
Definition wf_uuid (u : uuid) : Prop := length u = 16%nat /\ wf_bytes u.

(* ---- ParseUUID ------------------------------------------------------------------------- *)
(* the three digit cases of the switch, in the code's order; None = the default branch *)
Definition hexval (r : Z) : option Z :=
  if (48 <=? r) && (r <=? 57) then Some (r - 48)
  else if (97 <=? r) && (r <=? 102) then Some (r - 97 + 10)
  else if (65 <=? r) && (r <=? 70) then Some (r - 65 + 10)
  else None.

(* for _, r := range input: j counts digits seen, acc the nibbles in order.  The code ORs nibble k
   into u[k/2] shifted by 4-(k&1)*4; since u starts as zero and every nibble position is written at
   most once, that is [pack] below. *)
Fixpoint parse_loop (inp : list Z) (j : nat) (acc : list Z) : option (nat * list Z) :=
  match inp with
  | [] => Some (j, acc)
  | r :: rest =>
      if (r =? 45) && Nat.even j then parse_loop rest j acc
      else match hexval r with
           | Some v => if (j <? 32)%nat then parse_loop rest (S j) (acc ++ [v]) else None
           | None => None
           end
  end.

Fixpoint pack (ns : list Z) : list Z :=
  match ns with
  | hi :: lo :: rest => (hi * 16 + lo) :: pack rest
  | _ => []
  end.

Definition parse_uuid (inp : list Z) : option uuid :=
  match parse_loop inp 0 [] with
  | Some (j, acc) => if (j =? 32)%nat then Some (pack acc) else None
  | None => None
  end.

(* ---- String ---------------------------------------------------------------------------- *)
Definition hexchar (n : Z) : Z := if n <? 10 then 48 + n else 97 + (n - 10).   (* "0123456789abcdef"[n] *)

Fixpoint nibbles (bs : list Z) : list Z :=
  match bs with
  | [] => []
  | b :: rest => (b / 16) :: (b mod 16) :: nibbles rest
  end.

Definition hexs (bs : list Z) : list Z := map hexchar (nibbles bs).

(* r[offsets[i]], r[offsets[i]+1] := hex digits of u[i]; r[8], r[13], r[18], r[23] := '-' *)
Definition to_string (u : uuid) : list Z :=
  hexs (firstn 4 u) ++ [45] ++ hexs (firstn 2 (skipn 4 u)) ++ [45] ++ hexs (firstn 2 (skipn 6 u))
  ++ [45] ++ hexs (firstn 2 (skipn 8 u)) ++ [45] ++ hexs (skipn 10 u).

(* the offsets table the layout above corresponds to; Proofs.v checks it equals the generated one *)
Definition group_offsets : list Z := [0; 2; 4; 6; 9; 11; 14; 16; 19; 21; 24; 26; 28; 30; 32; 34].

(* ---- TimeUUIDWith ---------------------------------------------------------------------- *)
(* copy(u[10:], node): the first min(6, len node) bytes, the rest stay 0 *)
Definition copy6 (node : list Z) : list Z :=
  firstn 6 node ++ repeat 0 (6 - length (firstn 6 node)).

Definition time_uuid_with (t : Z) (clock : Z) (node : list Z) : uuid :=
  [ byte_of (Z.shiftr t 24); byte_of (Z.shiftr t 16); byte_of (Z.shiftr t 8); byte_of t;
    byte_of (Z.shiftr t 40); byte_of (Z.shiftr t 32);
    Z.lor (Z.land (byte_of (Z.shiftr t 56)) 15) 16; byte_of (Z.shiftr t 48);
    Z.lor (Z.land (byte_of (Z.shiftr clock 8)) 63) 128; byte_of clock ] ++ copy6 node.

(* ---- accessors -------------------------------------------------------------------------- *)
Definition nthb (u : uuid) (i : nat) : Z := nth i u 0.

Definition version (u : uuid) : Z := Z.shiftr (Z.land (nthb u 6) 240) 4.

Definition variant (u : uuid) : Z :=
  let x := nthb u 8 in
  if Z.land x 128 =? 0 then K.VariantNCSCompat
  else if Z.land x 64 =? 0 then K.VariantIETF
  else if Z.land x 32 =? 0 then K.VariantMicrosoft
  else K.VariantFuture.

Definition clock (u : uuid) : Z :=
  if negb (version u =? 1) then 0
  else Z.lor (Z.shiftl (Z.land (nthb u 8) 63) 8) (nthb u 9).

Definition node (u : uuid) : option (list Z) :=
  if negb (version u =? 1) then None else Some (skipn 10 u).

Definition timestamp (u : uuid) : Z :=
  if negb (version u =? 1) then 0
  else (Z.lor (Z.lor (Z.lor (Z.shiftl (nthb u 0) 24) (Z.shiftl (nthb u 1) 16)) (Z.shiftl (nthb u 2) 8)) (nthb u 3))
       + (Z.lor (Z.shiftl (nthb u 4) 40) (Z.shiftl (nthb u 5) 32))
       + (Z.lor (Z.shiftl (Z.land (nthb u 6) 15) 56) (Z.shiftl (nthb u 7) 48)).

(* Time(): (unix seconds, nanoseconds); version <> 1 gives Go's zero time, reported as None *)
Definition to_time (u : uuid) : option (Z * Z) :=
  if negb (version u =? 1) then None
  else let t := timestamp u in
       (* t >= 0 here, so Go's truncating / and % agree with Z.div and Z.modulo *)
       Some (t / 10000000 + K.timeBase, (t mod 10000000) * 100).

(* getTimestamp: int64 arithmetic with wrap-around *)
Definition get_timestamp (sec nsec : Z) : Z :=
  signed 64 (signed 64 ((sec - K.timeBase) * 10000000) + nsec / 100).

Definition min_time_uuid (sec nsec : Z) : uuid := time_uuid_with (get_timestamp sec nsec) K.minClock K.minNode.
Definition max_time_uuid (sec nsec : Z) : uuid := time_uuid_with (get_timestamp sec nsec) K.maxClock K.maxNode.

(* UUIDFromTime: clock is the value returned by the atomic add, node the hardware address *)
Definition uuid_from_time (sec nsec : Z) (clockv : Z) (hw : list Z) : uuid :=
  time_uuid_with (get_timestamp sec nsec) clockv hw.

(* RandomUUID: the stamping applied to 16 random bytes *)
Definition random_stamp (r : list Z) : uuid :=
  upd (upd r 6 (Z.lor (Z.land (nthb r 6) 15) 64)) 8 (Z.lor (Z.land (nthb r 8) 63) 128).
