(* C19/Corr.v -- correspondence cases: each constructor carries an input and what the real
   implementation (package gocql, public UUID API) returned for it; [check] runs the model on
   the input and compares. *)
From GocqlV Require Import Lib.Base C19.Model.

Inductive case :=
| CParse (s : list Z) (out : option (list Z))          (* ParseUUID: code points -> Some bytes | None (error) *)
| CString (u : list Z) (out : list Z)                  (* UUID.String *)
| CTimeWith (t clockv : Z) (nd : list Z) (out : list Z)(* TimeUUIDWith *)
| CFields (u : list Z) (ver var clk ts : Z) (nd : option (list Z)) (tm : option (Z * Z))
                                                       (* Version, Variant, Clock, Timestamp, Node, Time (sec,nsec) *)
| CMinMax (sec nsec : Z) (mn mx : list Z)              (* MinTimeUUID, MaxTimeUUID *)
| CFromTime (sec nsec : Z) (out : list Z)              (* UUIDFromTime: bytes 0..7 and the variant bits are determined *)
| CRandom (out : list Z).                              (* RandomUUID: version/variant stamping is idempotent on the output *)

Definition zpair_eqb (a b : Z * Z) : bool := (fst a =? fst b) && (snd a =? snd b).

Definition check (c : case) : bool :=
  match c with
  | CParse s out => opt_eqb zlist_eqb (parse_uuid s) out
  | CString u out => zlist_eqb (to_string u) out
  | CTimeWith t c n out => zlist_eqb (time_uuid_with t c n) out
  | CFields u ver var clk ts nd tm =>
      (version u =? ver) && (variant u =? var) && (clock u =? clk) && (timestamp u =? ts)
      && opt_eqb zlist_eqb (node u) nd && opt_eqb zpair_eqb (to_time u) tm
  | CMinMax sec nsec mn mx => zlist_eqb (min_time_uuid sec nsec) mn && zlist_eqb (max_time_uuid sec nsec) mx
  | CFromTime sec nsec out =>
      (* clock and node are process state: feed the observed ones back and compare everything *)
      zlist_eqb (uuid_from_time sec nsec (Z.lor (Z.shiftl (nthb out 8) 8) (nthb out 9)) (skipn 10 out)) out
  | CRandom out => zlist_eqb (random_stamp out) out && (version out =? 4) && (variant out =? Gen.Consts.K.VariantIETF)
  end.

Definition run (cs : list case) : list N := mismatches check cs.
