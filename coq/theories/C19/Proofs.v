(* C19/Proofs.v -- lemmas about the UUID model. *)
From GocqlV Require Import Lib.Base Gen.Consts C19.Model C19.Spec.

Arguments Z.mul : simpl never.
Arguments Z.add : simpl never.
Arguments Z.sub : simpl never.
Arguments Z.div : simpl never.
Arguments Z.modulo : simpl never.

(* the String layout used by the model is the table in the source *)
Lemma offsets_table : group_offsets = K.uuid_offsets.
Proof. reflexivity. Qed.

(* ---- hex digits ------------------------------------------------------------------------- *)
Lemma hexval_hexchar n : 0 <= n < 16 -> hexval (hexchar n) = Some n.
Proof.
  intros H. unfold hexval, hexchar.
  destruct (n <? 10) eqn:E.
  - replace ((48 <=? 48 + n) && (48 + n <=? 57)) with true by lia. f_equal. lia.
  - replace ((48 <=? 97 + (n - 10)) && (97 + (n - 10) <=? 57)) with false by lia.
    replace ((97 <=? 97 + (n - 10)) && (97 + (n - 10) <=? 102)) with true by lia. f_equal. lia.
Qed.

Lemma hexchar_not_hyphen n : 0 <= n < 16 -> (hexchar n =? 45) = false.
Proof. intros H. unfold hexchar. destruct (n <? 10) eqn:E; lia. Qed.

Definition nibs_ok (ns : list Z) : Prop := Forall (fun n => 0 <= n < 16) ns.

Lemma nibbles_ok bs : wf_bytes bs -> nibs_ok (nibbles bs).
Proof.
  induction 1 as [|b bs Hb _ IH]; simpl; [constructor|].
  unfold is_byte in Hb. constructor; [lia|]. constructor; [lia|]. exact IH.
Qed.

Lemma pack_nibbles bs : wf_bytes bs -> pack (nibbles bs) = bs.
Proof.
  induction 1 as [|b bs Hb _ IH]; simpl; [reflexivity|].
  rewrite IH. f_equal. unfold is_byte in Hb. lia.
Qed.

Lemma nibbles_length bs : length (nibbles bs) = (2 * length bs)%nat.
Proof. induction bs as [|b bs IH]; simpl; lia. Qed.

Lemma nibbles_app a b : nibbles (a ++ b) = nibbles a ++ nibbles b.
Proof. induction a as [|x a IH]; simpl; [reflexivity|]. rewrite IH. reflexivity. Qed.

(* parsing a run of hex digits appends their values *)
Lemma parse_loop_digits ns : nibs_ok ns -> forall rest j acc,
  (j + length ns <= 32)%nat ->
  parse_loop (map hexchar ns ++ rest) j acc = parse_loop rest (j + length ns) (acc ++ ns).
Proof.
  induction 1 as [|n ns Hn _ IH]; intros rest j acc Hj; simpl.
  - rewrite Nat.add_0_r, app_nil_r. reflexivity.
  - rewrite hexchar_not_hyphen by lia. simpl. rewrite hexval_hexchar by lia.
    simpl in Hj. replace (j <? 32)%nat with true by lia.
    rewrite IH by lia. f_equal; [lia|]. rewrite <- app_assoc. reflexivity.
Qed.

Lemma parse_loop_hyphen rest j acc : Nat.even j = true ->
  parse_loop (45 :: rest) j acc = parse_loop rest j acc.
Proof. intros H. simpl. rewrite H. reflexivity. Qed.

Lemma parse_groups g1 g2 g3 g4 g5 :
  wf_bytes g1 -> wf_bytes g2 -> wf_bytes g3 -> wf_bytes g4 -> wf_bytes g5 ->
  length g1 = 4%nat -> length g2 = 2%nat -> length g3 = 2%nat -> length g4 = 2%nat -> length g5 = 6%nat ->
  parse_uuid (hexs g1 ++ [45] ++ hexs g2 ++ [45] ++ hexs g3 ++ [45] ++ hexs g4 ++ [45] ++ hexs g5)
  = Some (g1 ++ g2 ++ g3 ++ g4 ++ g5).
Proof.
  intros W1 W2 W3 W4 W5 L1 L2 L3 L4 L5.
  unfold parse_uuid, hexs.
  assert (N1 := nibbles_ok _ W1). assert (N2 := nibbles_ok _ W2). assert (N3 := nibbles_ok _ W3).
  assert (N4 := nibbles_ok _ W4). assert (N5 := nibbles_ok _ W5).
  assert (M1 := nibbles_length g1). assert (M2 := nibbles_length g2). assert (M3 := nibbles_length g3).
  assert (M4 := nibbles_length g4). assert (M5 := nibbles_length g5).
  rewrite parse_loop_digits by (auto; lia). rewrite M1, L1. cbn [app Nat.add Nat.mul].
  rewrite parse_loop_hyphen by reflexivity.
  rewrite parse_loop_digits by (auto; rewrite M2, L2; simpl; lia). rewrite M2, L2. cbn [app Nat.add Nat.mul].
  rewrite parse_loop_hyphen by reflexivity.
  rewrite parse_loop_digits by (auto; rewrite M3, L3; simpl; lia). rewrite M3, L3. cbn [app Nat.add Nat.mul].
  rewrite parse_loop_hyphen by reflexivity.
  rewrite parse_loop_digits by (auto; rewrite M4, L4; simpl; lia). rewrite M4, L4. cbn [app Nat.add Nat.mul].
  rewrite parse_loop_hyphen by reflexivity.
  rewrite <- (app_nil_r (map hexchar (nibbles g5))).
  rewrite parse_loop_digits by (auto; rewrite M5, L5; simpl; lia). rewrite M5, L5. cbn [app Nat.add Nat.mul parse_loop].
  replace (32 =? 32)%nat with true by reflexivity.
  f_equal. rewrite <- !app_assoc, <- !nibbles_app. apply pack_nibbles.
  unfold wf_bytes in *. repeat (apply Forall_app; split); auto.
Qed.

Lemma uuid_destruct (u : list Z) : length u = 16%nat ->
  exists b0 b1 b2 b3 b4 b5 b6 b7 b8 b9 b10 b11 b12 b13 b14 b15,
    u = [b0;b1;b2;b3;b4;b5;b6;b7;b8;b9;b10;b11;b12;b13;b14;b15].
Proof.
  intros L. do 16 (destruct u as [|? u]; [discriminate L|]). destruct u; [|discriminate L].
  repeat eexists.
Qed.

Lemma parse_print_lemma u : wf_uuid u -> parse_uuid (to_string u) = Some u.
Proof.
  intros [L W]. destruct (uuid_destruct u L) as (b0&b1&b2&b3&b4&b5&b6&b7&b8&b9&b10&b11&b12&b13&b14&b15&->).
  unfold to_string. cbn [firstn skipn].
  unfold wf_bytes in W. repeat match goal with H : Forall _ (_ :: _) |- _ => inversion H; clear H; subst end.
  rewrite parse_groups; [reflexivity| | | | | | | | | |]; try reflexivity; unfold wf_bytes; repeat (apply Forall_cons; [assumption|]); apply Forall_nil.
Qed.

(* ---- what ParseUUID accepts -------------------------------------------------------------- *)
Definition not_hyphen (r : Z) : bool := negb (r =? 45).
Definition digits_of (s : list Z) : list Z := filter not_hyphen s.

Lemma hexval_spec r v : hexval r = Some v -> is_hex_digit r /\ v = hex_digit_val r /\ 0 <= v < 16 /\ r <> 45.
Proof.
  unfold hexval, is_hex_digit, hex_digit_val.
  destruct ((48 <=? r) && (r <=? 57)) eqn:E1.
  { intros [= <-]. replace (r <=? 57) with true by lia. lia. }
  destruct ((97 <=? r) && (r <=? 102)) eqn:E2.
  { intros [= <-]. replace (r <=? 57) with false by lia. replace (r <=? 70) with false by lia. lia. }
  destruct ((65 <=? r) && (r <=? 70)) eqn:E3; [|discriminate].
  intros [= <-]. replace (r <=? 57) with false by lia. replace (r <=? 70) with true by lia. lia.
Qed.

Lemma digits_of_hyphen s : digits_of (45 :: s) = digits_of s.
Proof. reflexivity. Qed.
Lemma digits_of_digit r s : r <> 45 -> digits_of (r :: s) = r :: digits_of s.
Proof. intros H. unfold digits_of. simpl. unfold not_hyphen at 1. replace (r =? 45) with false by lia. reflexivity. Qed.

Lemma parse_loop_sound s : forall j acc j' acc',
  parse_loop s j acc = Some (j', acc') ->
  Forall (fun r => r = 45 \/ is_hex_digit r) s
  /\ j' = (j + length (digits_of s))%nat
  /\ acc' = acc ++ map hex_digit_val (digits_of s)
  /\ (j' <= 32 \/ j' = j)%nat.
Proof.
  induction s as [|r s IH]; intros j acc j' acc' H; simpl in H.
  - inversion H; subst. simpl. rewrite app_nil_r. repeat split; auto; lia.
  - destruct ((r =? 45) && Nat.even j) eqn:E.
    + apply IH in H. destruct H as (F & Hj & Ha & Hb).
      assert (r = 45) by lia. subst r. rewrite digits_of_hyphen.
      repeat split; auto.
    + destruct (hexval r) as [v|] eqn:Hv; [|discriminate].
      destruct (j <? 32)%nat eqn:Ej; [|discriminate].
      apply hexval_spec in Hv. destruct Hv as (Hh & -> & Hr & Hn).
      apply IH in H. destruct H as (F & Hj & Ha & Hb).
      rewrite digits_of_digit by assumption. simpl.
      repeat split; auto; try lia.
      rewrite Ha, <- app_assoc. reflexivity.
Qed.

Lemma parse_accepts_only_lemma s u : parse_uuid s = Some u ->
  Forall (fun r => r = 45 \/ is_hex_digit r) s /\ length (digits_of s) = 32%nat
  /\ u = pack (map hex_digit_val (digits_of s)).
Proof.
  unfold parse_uuid. destruct (parse_loop s 0 []) as [[j acc]|] eqn:E; [|discriminate].
  destruct (j =? 32)%nat eqn:Ej; [|discriminate]. intros [= <-].
  apply parse_loop_sound in E. destruct E as (F & Hj & Ha & _). simpl in *.
  repeat split; auto; [lia | congruence].
Qed.

(* conversely every such string is accepted when the hyphens separate whole bytes (even digit count before each) *)
Fixpoint hyphens_even (s : list Z) (j : nat) : bool :=
  match s with
  | [] => true
  | r :: rest => if r =? 45 then Nat.even j && hyphens_even rest j else hyphens_even rest (S j)
  end.

Lemma parse_loop_complete s : forall j acc,
  Forall (fun r => r = 45 \/ is_hex_digit r) s -> hyphens_even s j = true ->
  (j + length (digits_of s) <= 32)%nat ->
  parse_loop s j acc = Some ((j + length (digits_of s))%nat, acc ++ map hex_digit_val (digits_of s)).
Proof.
  induction s as [|r s IH]; intros j acc F He Hl; cbn [parse_loop].
  - simpl. rewrite Nat.add_0_r, app_nil_r. reflexivity.
  - inversion F as [|? ? Hr F']; subst. simpl in He.
    destruct (r =? 45) eqn:E.
    + assert (r = 45) by lia. subst r. rewrite digits_of_hyphen in *.
      apply andb_true_iff in He. destruct He as [He1 He2]. rewrite He1. cbn [Z.eqb Pos.eqb andb]. apply IH; auto.
    + assert (r <> 45) by lia. rewrite digits_of_digit in * by assumption. cbn [length map andb] in *.
      destruct Hr as [Hr|Hr]; [lia|].
      assert (Hv : hexval r = Some (hex_digit_val r)).
      { unfold hexval, hex_digit_val, is_hex_digit in *.
        destruct ((48 <=? r) && (r <=? 57)) eqn:E1.
        { replace (r <=? 57) with true by lia. reflexivity. }
        destruct ((97 <=? r) && (r <=? 102)) eqn:E2.
        { replace (r <=? 57) with false by lia. replace (r <=? 70) with false by lia. f_equal. lia. }
        replace ((65 <=? r) && (r <=? 70)) with true by lia.
        replace (r <=? 57) with false by lia. replace (r <=? 70) with true by lia. f_equal. lia. }
      rewrite Hv. replace (j <? 32)%nat with true by lia.
      rewrite IH by (auto; lia).
      replace (S j + length (digits_of s))%nat with (j + S (length (digits_of s)))%nat by lia.
      rewrite <- app_assoc. reflexivity.
Qed.

Lemma parse_accepts_all_lemma s :
  Forall (fun r => r = 45 \/ is_hex_digit r) s -> hyphens_even s 0 = true -> length (digits_of s) = 32%nat ->
  parse_uuid s = Some (pack (map hex_digit_val (digits_of s))).
Proof.
  intros F He Hl. unfold parse_uuid. rewrite parse_loop_complete by (auto; lia).
  simpl. rewrite Hl. reflexivity.
Qed.

(* ---- time-based UUIDs --------------------------------------------------------------------- *)
From GocqlV Require Import Lib.Bits.

Lemma version_stamp_1 : forall b, is_byte b -> Z.shiftr (Z.land (Z.lor (Z.land b 15) 16) 240) 4 = 1.
Proof.
  intros b Hb. apply Z.eqb_eq.
  apply (byte_sweep (fun b => Z.shiftr (Z.land (Z.lor (Z.land b 15) 16) 240) 4 =? 1)); [vm_compute; reflexivity | exact Hb].
Qed.

Lemma variant_stamp_ietf : forall b, is_byte b ->
  let x := Z.lor (Z.land b 63) 128 in (Z.land x 128 =? 0) = false /\ (Z.land x 64 =? 0) = true /\ x / 64 = 2 /\ is_byte x.
Proof.
  intros b Hb.
  assert (H := byte_sweep (fun b => let x := Z.lor (Z.land b 63) 128 in
     negb (Z.land x 128 =? 0) && (Z.land x 64 =? 0) && (x / 64 =? 2) && is_byteb x)).
  specialize (H eq_refl b Hb). cbv zeta in *.
  rewrite !andb_true_iff, negb_true_iff, is_byteb_spec in H. intuition lia.
Qed.

Lemma time_uuid_with_version t c n : version (time_uuid_with t c n) = 1.
Proof. unfold version, time_uuid_with, nthb. cbn [nth app]. apply version_stamp_1, byte_of_is_byte. Qed.

Lemma time_uuid_with_variant t c n : variant (time_uuid_with t c n) = K.VariantIETF.
Proof.
  unfold variant, time_uuid_with, nthb. cbn [nth app].
  destruct (variant_stamp_ietf (byte_of (Z.shiftr c 8)) (byte_of_is_byte _)) as (H1 & H2 & _).
  rewrite H1, H2. reflexivity.
Qed.

Lemma hi_nibble_stamp b : is_byte b -> Z.land (Z.lor (Z.land b 15) 16) 15 = b mod 16.
Proof.
  intros Hb. apply Z.eqb_eq.
  apply (byte_sweep (fun b => Z.land (Z.lor (Z.land b 15) 16) 15 =? b mod 16)); [vm_compute; reflexivity | exact Hb].
Qed.

Lemma timestamp_time_uuid_with_mod t c n : timestamp (time_uuid_with t c n) = t mod 2 ^ 60.
Proof.
  unfold timestamp. rewrite time_uuid_with_version. cbn [Z.eqb Pos.eqb negb].
  unfold time_uuid_with, nthb. cbn [nth app].
  rewrite hi_nibble_stamp by apply byte_of_is_byte.
  unfold byte_of. rewrite !shiftr_div by lia. rewrite !Z.shiftl_mul_pow2 by lia.
  change (2 ^ 60) with 1152921504606846976.
  change (2 ^ 8) with 256. change (2 ^ 16) with 65536. change (2 ^ 24) with 16777216.
  change (2 ^ 32) with 4294967296. change (2 ^ 40) with 1099511627776.
  change (2 ^ 48) with 281474976710656. change (2 ^ 56) with 72057594037927936.
  rewrite (lor_disjoint_mod 24 (_ * 16777216) (_ * 65536)) by lia.
  rewrite (lor_disjoint_mod 16 (_ + _) (_ * 256)) by lia.
  rewrite (lor_disjoint_mod 8 (_ + _ + _) (_ mod 256)) by lia.
  rewrite (lor_disjoint_mod 40 (_ * 1099511627776) (_ * 4294967296)) by lia.
  rewrite (lor_disjoint_mod 56 (_ * 72057594037927936) (_ * 281474976710656)) by lia.
  lia.
Qed.

Lemma timestamp_time_uuid_with t c n : 0 <= t < 2 ^ 60 -> timestamp (time_uuid_with t c n) = t.
Proof. intros Ht. rewrite timestamp_time_uuid_with_mod. apply Z.mod_small. exact Ht. Qed.

Lemma clock_stamp : forall b, is_byte b -> Z.land (Z.lor (Z.land b 63) 128) 63 = b mod 64.
Proof.
  intros b Hb. apply Z.eqb_eq.
  apply (byte_sweep (fun b => Z.land (Z.lor (Z.land b 63) 128) 63 =? b mod 64)); [vm_compute; reflexivity | exact Hb].
Qed.

Lemma clock_time_uuid_with t c n : clock (time_uuid_with t c n) = c mod 2 ^ 14.
Proof.
  unfold clock. rewrite time_uuid_with_version. cbn [Z.eqb Pos.eqb negb].
  unfold time_uuid_with, nthb. cbn [nth app].
  rewrite clock_stamp by apply byte_of_is_byte.
  unfold byte_of. rewrite shiftr_div by lia. rewrite lor_shiftl_add by lia.
  change (2 ^ 8) with 256. change (2 ^ 14) with 16384. lia.
Qed.

(* two time UUIDs built from clock values that differ modulo 2^14 are different, whatever the rest *)
Lemma time_uuid_clock_injective t t' c c' n n' :
  time_uuid_with t c n = time_uuid_with t' c' n' -> c mod 2 ^ 14 = c' mod 2 ^ 14 /\ t mod 2 ^ 60 = t' mod 2 ^ 60.
Proof.
  intros H. split.
  - rewrite <- (clock_time_uuid_with t c n), <- (clock_time_uuid_with t' c' n'), H. reflexivity.
  - rewrite <- (timestamp_time_uuid_with_mod t c n), <- (timestamp_time_uuid_with_mod t' c' n'), H. reflexivity.
Qed.

(* UUIDFromTime uses clock = atomic.AddUint32(&clockSeq, 1): the k-th call gets c0 + k (mod 2^32) *)
Lemma concurrent_unique_lemma sec nsec sec' nsec' c0 k k' hw :
  0 <= k -> 0 <= k' -> k <> k' -> Z.abs (k - k') < 2 ^ 14 ->
  uuid_from_time sec nsec (wrap 32 (c0 + k)) hw <> uuid_from_time sec' nsec' (wrap 32 (c0 + k')) hw.
Proof.
  intros Hk Hk' Hne Hd H. unfold uuid_from_time in H.
  apply time_uuid_clock_injective in H. destruct H as [H _]. unfold wrap in H.
  change (2 ^ 32) with 4294967296 in H. change (2 ^ 14) with 16384 in *. lia.
Qed.

(* ---- getTimestamp / Time -------------------------------------------------------------------- *)
Definition time_in_range (sec nsec : Z) : Prop :=
  0 <= nsec < 1000000000 /\ 0 <= (sec - K.timeBase) * 10000000 + nsec / 100 < 2 ^ 60.

Lemma get_timestamp_in_range sec nsec : time_in_range sec nsec ->
  get_timestamp sec nsec = (sec - K.timeBase) * 10000000 + nsec / 100.
Proof.
  intros [Hn Hr]. unfold get_timestamp, signed. change (2 ^ 60) with 1152921504606846976 in Hr.
  change (2 ^ 64) with 18446744073709551616. change (2 ^ (64 - 1)) with 9223372036854775808.
  assert (0 <= nsec / 100 < 10000000) by lia.
  assert (E1 : ((sec - K.timeBase) * 10000000) mod 18446744073709551616 = (sec - K.timeBase) * 10000000)
    by (apply Z.mod_small; lia).
  rewrite E1. replace ((sec - K.timeBase) * 10000000 <? 9223372036854775808) with true by lia.
  rewrite Z.mod_small by lia.
  replace ((sec - K.timeBase) * 10000000 + nsec / 100 <? 9223372036854775808) with true by lia. reflexivity.
Qed.

Lemma time_roundtrip_lemma sec nsec c hw : time_in_range sec nsec ->
  to_time (uuid_from_time sec nsec c hw) = Some (sec, nsec / 100 * 100).
Proof.
  intros Hr. unfold to_time, uuid_from_time. rewrite time_uuid_with_version. cbn [Z.eqb Pos.eqb negb].
  rewrite get_timestamp_in_range by assumption. destruct Hr as [Hn Hr].
  rewrite timestamp_time_uuid_with by assumption.
  f_equal. f_equal; lia.
Qed.

Lemma random_stamp_v4 r : length r = 16%nat -> wf_bytes r ->
  version (random_stamp r) = 4 /\ variant (random_stamp r) = K.VariantIETF /\ length (random_stamp r) = 16%nat.
Proof.
  intros L W. destruct (uuid_destruct r L) as (b0&b1&b2&b3&b4&b5&b6&b7&b8&b9&b10&b11&b12&b13&b14&b15&->).
  unfold wf_bytes in W. repeat match goal with H : Forall _ (_ :: _) |- _ => inversion H; clear H; subst end.
  unfold random_stamp, version, variant, nthb. cbn [upd nth length].
  split; [|split; [|reflexivity]].
  - apply Z.eqb_eq. apply (byte_sweep (fun b => Z.shiftr (Z.land (Z.lor (Z.land b 15) 64) 240) 4 =? 4)); [vm_compute; reflexivity | assumption].
  - match goal with Hb : is_byte b8 |- _ => destruct (variant_stamp_ietf b8 Hb) as (H1' & H2' & _) end.
    rewrite H1', H2'. reflexivity.
Qed.

(* ---- the model's accessors read the RFC 4122 fields ------------------------------------------ *)
Lemma accessors_are_rfc_fields u : wf_uuid u ->
  version u = rfc_version u /\ (version u = 1 -> timestamp u = rfc_timestamp u).
Proof.
  intros [L W]. destruct (uuid_destruct u L) as (b0&b1&b2&b3&b4&b5&b6&b7&b8&b9&b10&b11&b12&b13&b14&b15&->).
  unfold wf_bytes in W. repeat match goal with H : Forall _ (_ :: _) |- _ => inversion H; clear H; subst end.
  unfold is_byte in *.
  assert (V : version [b0; b1; b2; b3; b4; b5; b6; b7; b8; b9; b10; b11; b12; b13; b14; b15] = b6 / 16).
  { unfold version, nthb. cbn [nth]. change 240 with (Z.shiftl 15 4).
    rewrite <- (Z.shiftr_shiftl_l 15 4 4) at 1 by lia. 
    apply Z.eqb_eq. apply (byte_sweep (fun b => Z.shiftr (Z.land b (Z.shiftl 15 4)) 4 =? b / 16)); [vm_compute; reflexivity| unfold is_byte; lia]. }
  split.
  - rewrite V. unfold rfc_version, rfc_time_hi_and_version, field. cbn [skipn firstn be_val length Z.of_nat].
    change (256 ^ Z.of_nat 1) with 256. change (256 ^ Z.of_nat 0) with 1. change (2 ^ 12) with 4096. lia.
  - intros V1. unfold timestamp. rewrite V1. cbn [Z.eqb Pos.eqb negb].
    unfold rfc_timestamp, rfc_time_low, rfc_time_mid, rfc_time_hi_and_version, field, nthb.
    cbn [skipn firstn be_val length nth].
    rewrite !Z.shiftl_mul_pow2 by lia.
    replace (Z.land b6 15) with (b6 mod 16) by (symmetry; apply (land_ones_mod b6 4); lia).
    change (2 ^ 8) with 256. change (2 ^ 16) with 65536. change (2 ^ 24) with 16777216.
    change (2 ^ 32) with 4294967296. change (2 ^ 40) with 1099511627776.
    change (2 ^ 48) with 281474976710656. change (2 ^ 56) with 72057594037927936. change (2 ^ 12) with 4096.
    rewrite (lor_disjoint_mod 24 (_ * 16777216) (_ * 65536)) by lia.
    rewrite (lor_disjoint_mod 16 (_ + _) (_ * 256)) by lia.
    rewrite (lor_disjoint_mod 8 (_ + _ + _) b3) by lia.
    rewrite (lor_disjoint_mod 40 (_ * 1099511627776) (_ * 4294967296)) by lia.
    rewrite (lor_disjoint_mod 56 (_ * 72057594037927936) (_ * 281474976710656)) by lia.
    change (Z.of_nat 3) with 3. change (Z.of_nat 2) with 2. change (Z.of_nat 1) with 1. change (Z.of_nat 0) with 0.
    change (256 ^ 3) with 16777216. change (256 ^ 2) with 65536. change (256 ^ 1) with 256. change (256 ^ 0) with 1.
    lia.
Qed.

(* ---- Min/Max time UUIDs bound every RFC 4122 v1 UUID of the instant in Cassandra's order -------- *)
Lemma lex_signed_cons x a y b :
  lex_signed (x :: a) (y :: b) = match Z.compare (sx8 x) (sx8 y) with Eq => lex_signed a b | c => c end.
Proof. reflexivity. Qed.

Lemma lex_signed_min l : wf_bytes l -> lex_signed (repeat 128 (length l)) l <> Gt.
Proof.
  induction 1 as [|x l Hx _ IH]; cbn [length repeat lex_signed]; [discriminate|].
  unfold is_byte in Hx. change (sx8 128) with (-128). unfold sx8.
  destruct (x <? 128) eqn:E.
  - destruct (-128 ?= x) eqn:C; try discriminate; [apply Z.compare_eq in C|apply Z.compare_gt_iff in C]; lia.
  - destruct (-128 ?= x - 256) eqn:C; try discriminate; [exact IH|apply Z.compare_gt_iff in C; lia].
Qed.

Lemma lex_signed_max l : wf_bytes l -> lex_signed l (repeat 127 (length l)) <> Gt.
Proof.
  induction 1 as [|x l Hx _ IH]; cbn [length repeat lex_signed]; [discriminate|].
  unfold is_byte in Hx. change (sx8 127) with 127. unfold sx8.
  destruct (x <? 128) eqn:E.
  - destruct (x ?= 127) eqn:C; try discriminate; [exact IH|apply Z.compare_gt_iff in C; lia].
  - destruct (x - 256 ?= 127) eqn:C; try discriminate; [apply Z.compare_eq in C|apply Z.compare_gt_iff in C]; lia.
Qed.

Lemma wf_time_uuid_with t c n : wf_bytes n -> wf_uuid (time_uuid_with t c n).
Proof.
  intros Wn. split.
  - unfold time_uuid_with, copy6. rewrite app_length, app_length, repeat_length. cbn [length].
    assert (length (firstn 6 n) <= 6)%nat by apply firstn_le_length. lia.
  - unfold time_uuid_with. apply wf_app.
    + destruct (variant_stamp_ietf (byte_of (Z.shiftr c 8)) (byte_of_is_byte _)) as (_&_&_&Hv).
      assert (Hh : is_byte (Z.lor (Z.land (byte_of (Z.shiftr t 56)) 15) 16)).
      { apply is_byteb_spec. apply (byte_sweep (fun b => is_byteb (Z.lor (Z.land b 15) 16))); [vm_compute; reflexivity|apply byte_of_is_byte]. }
      unfold wf_bytes. repeat (apply Forall_cons; [first [apply byte_of_is_byte | assumption]|]). apply Forall_nil.
    + unfold copy6. apply wf_app; [apply wf_firstn, Wn|].
      unfold wf_bytes. apply Forall_forall. intros x Hx. apply repeat_spec in Hx. subst. unfold is_byte. lia.
Qed.

Lemma min_max_bound_lemma ts u : 0 <= ts < 2 ^ 60 -> rfc_v1 u -> rfc_timestamp u = ts ->
  cass_le (time_uuid_with ts K.minClock K.minNode) u /\ cass_le u (time_uuid_with ts K.maxClock K.maxNode).
Proof.
  intros Hts (L & W & V & Var) Hu.
  assert (Wmin : wf_bytes K.minNode) by (apply wf_bytesb_spec; reflexivity).
  assert (Wmax : wf_bytes K.maxNode) by (apply wf_bytesb_spec; reflexivity).
  assert (Tmin : rfc_timestamp (time_uuid_with ts K.minClock K.minNode) = ts).
  { destruct (accessors_are_rfc_fields _ (wf_time_uuid_with ts K.minClock K.minNode Wmin)) as [_ H].
    rewrite <- H by apply time_uuid_with_version. apply timestamp_time_uuid_with, Hts. }
  assert (Tmax : rfc_timestamp (time_uuid_with ts K.maxClock K.maxNode) = ts).
  { destruct (accessors_are_rfc_fields _ (wf_time_uuid_with ts K.maxClock K.maxNode Wmax)) as [_ H].
    rewrite <- H by apply time_uuid_with_version. apply timestamp_time_uuid_with, Hts. }
  destruct (uuid_destruct u L) as (b0&b1&b2&b3&b4&b5&b6&b7&b8&b9&b10&b11&b12&b13&b14&b15&->).
  unfold rfc_variant_ietf in Var. cbn [nth] in Var.
  assert (W8 : wf_bytes [b8; b9; b10; b11; b12; b13; b14; b15]) by (apply (wf_skipn 8) in W; exact W).
  assert (Hb8 : is_byte b8) by (inversion W8; assumption).
  assert (W9 : wf_bytes [b9; b10; b11; b12; b13; b14; b15]) by (inversion W8; assumption).
  unfold is_byte in Hb8.
  unfold cass_le, cass_compare. rewrite Tmin, Tmax, Hu, Z.compare_refl.
  split.
  - change (skipn 8 (time_uuid_with ts K.minClock K.minNode)) with (repeat 128 (length [b8; b9; b10; b11; b12; b13; b14; b15])).
    cbn [skipn]. apply lex_signed_min. exact W8.
  - change (skipn 8 (time_uuid_with ts K.maxClock K.maxNode)) with (191 :: repeat 127 (length [b9; b10; b11; b12; b13; b14; b15])).
    cbn [skipn]. rewrite lex_signed_cons. change (sx8 191) with (-65). unfold sx8.
    replace (b8 <? 128) with false by lia.
    destruct (b8 - 256 ?= -65) eqn:C; try discriminate.
    + apply lex_signed_max. exact W9.
    + apply Z.compare_gt_iff in C. lia.
Qed.
