(* C19/Spec.v -- independent specification: RFC 4122 field layout and Cassandra's TimeUUIDType order.
   Written from RFC 4122 section 4.1.2 and Cassandra's TimeUUIDType (timestamp first, then the
   low 8 bytes compared as signed bytes), not from uuid.go. *)
From GocqlV Require Import Lib.Base.

(* big-endian value of a byte list *)
Fixpoint be_val (bs : list Z) : Z :=
  match bs with
  | [] => 0
  | b :: rest => b * 256 ^ Z.of_nat (length rest) + be_val rest
  end.

Definition field (u : list Z) (off len : nat) : list Z := firstn len (skipn off u).

Definition rfc_time_low (u : list Z) : Z := be_val (field u 0 4).
Definition rfc_time_mid (u : list Z) : Z := be_val (field u 4 2).
Definition rfc_time_hi_and_version (u : list Z) : Z := be_val (field u 6 2).
Definition rfc_version (u : list Z) : Z := rfc_time_hi_and_version u / 2 ^ 12.
(* the 60-bit timestamp: time_low is the least significant 32 bits, time_mid the next 16, time_hi the top 12 *)
Definition rfc_timestamp (u : list Z) : Z :=
  rfc_time_low u + rfc_time_mid u * 2 ^ 32 + (rfc_time_hi_and_version u mod 2 ^ 12) * 2 ^ 48.
(* variant "10x": the two most significant bits of clock_seq_hi_and_reserved are 1 0 *)
Definition rfc_variant_ietf (u : list Z) : Prop := nth 8 u 0 / 64 = 2.
Definition rfc_clock_seq (u : list Z) : Z := be_val (field u 8 2) mod 2 ^ 14.

Definition rfc_v1 (u : list Z) : Prop :=
  length u = 16%nat /\ wf_bytes u /\ rfc_version u = 1 /\ rfc_variant_ietf u.

(* canonical text form: 8-4-4-4-12 lower-case hex digits *)
Definition is_hex_digit (r : Z) : Prop :=
  (48 <= r <= 57) \/ (97 <= r <= 102) \/ (65 <= r <= 70).
Definition hex_digit_val (r : Z) : Z :=
  if r <=? 57 then r - 48 else if r <=? 70 then r - 55 else r - 87.

(* Cassandra's order on time UUIDs *)
Fixpoint lex_signed (a b : list Z) : comparison :=
  match a, b with
  | [], [] => Eq
  | [], _ => Lt
  | _, [] => Gt
  | x :: a', y :: b' =>
      match Z.compare (sx8 x) (sx8 y) with
      | Eq => lex_signed a' b'
      | c => c
      end
  end.

Definition cass_compare (a b : list Z) : comparison :=
  match Z.compare (rfc_timestamp a) (rfc_timestamp b) with
  | Eq => lex_signed (skipn 8 a) (skipn 8 b)
  | c => c
  end.

Definition cass_le (a b : list Z) : Prop := cass_compare a b <> Gt.
