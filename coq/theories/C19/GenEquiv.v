(* C19/GenEquiv.v -- the definitions that tools/go2coq generates from uuid.go on every run (Gen/Code.v,
   module GC) compute the same functions as the hand-written model C19/Model.v: TimeUUIDWith and the
   accessors Version, Variant, Clock, Timestamp.  With these lemmas the C19 theorems about those model
   functions are theorems about the code as translated today; a semantic edit of one of these functions
   changes Gen/Code.v and breaks this file.  (ParseUUID, String, Time, getTimestamp, Node and RandomUUID's
   stamping are outside the translated subset: they stay tied by the correspondence run only.) *)
From GocqlV Require Import Lib.Base Lib.Bits Gen.Consts Gen.Code C19.Model.

(* both sides are unfolded to the same term: a difference fails at once *)
Ltac same := lazymatch goal with |- ?a = ?b => first [constr_eq a b | fail 1 "generated code and model differ:" a "<>" b]; reflexivity end.

(* ---- range facts ----------------------------------------------------------------------------------- *)
Lemma nth_byte (l : list Z) i : wf_bytes l -> is_byte (nth i l 0).
Proof.
  intros Hl. destruct (Nat.lt_ge_cases i (length l)) as [H|H].
  - unfold wf_bytes in Hl. rewrite Forall_forall in Hl. apply Hl, nth_In, H.
  - rewrite nth_overflow by exact H. unfold is_byte. lia.
Qed.

Lemma wrap_small w x : 0 <= x < 2 ^ w -> wrap w x = x.
Proof. intros H. unfold wrap. apply Z.mod_small, H. Qed.

Lemma signed64_small x : 0 <= x < 2 ^ 63 -> signed 64 x = x.
Proof.
  intros Hx. unfold signed. change (2 ^ (64 - 1)) with (2 ^ 63). rewrite Z.mod_small by lia.
  destruct (Z.ltb_spec x (2 ^ 63)); lia.
Qed.

Lemma pow2_le a b : 0 <= a <= b -> 2 ^ a <= 2 ^ b.
Proof. intros H. apply Z.pow_le_mono_r; lia. Qed.

Lemma byte_lt b n : is_byte b -> 8 <= n -> 0 <= b < 2 ^ n.
Proof. intros Hb Hn. unfold is_byte in Hb. pose proof (pow2_le 8 n ltac:(lia)) as P. change (2 ^ 8) with 256 in P. lia. Qed.

Lemma shiftl_byte_lt b k n : is_byte b -> 0 <= k -> 8 + k <= n -> 0 <= Z.shiftl b k < 2 ^ n.
Proof.
  intros Hb Hk Hn. unfold is_byte in Hb. rewrite Z.shiftl_mul_pow2 by lia.
  pose proof (pow2_le (8 + k) n ltac:(lia)) as P. rewrite Z.pow_add_r in P by lia. change (2 ^ 8) with 256 in P.
  assert (0 < 2 ^ k) by (apply Z.pow_pos_nonneg; lia). nia.
Qed.

Lemma shiftl_lt b m k n : 0 <= b < 2 ^ m -> 0 <= m -> 0 <= k -> m + k <= n -> 0 <= Z.shiftl b k < 2 ^ n.
Proof.
  intros Hb Hm Hk Hn. rewrite Z.shiftl_mul_pow2 by lia.
  pose proof (pow2_le (m + k) n ltac:(lia)) as P. rewrite Z.pow_add_r in P by lia.
  assert (0 < 2 ^ k) by (apply Z.pow_pos_nonneg; lia). nia.
Qed.

Lemma land15_lt x : 0 <= Z.land x 15 < 2 ^ 4.
Proof. change 15 with (2 ^ 4 - 1). rewrite land_ones_mod by lia. lia. Qed.

Lemma lor_bound n a b : 0 <= n -> 0 <= a < 2 ^ n -> 0 <= b < 2 ^ n -> 0 <= Z.lor a b < 2 ^ n.
Proof.
  intros Hn Ha Hb. assert (H0 : 0 <= Z.lor a b) by (apply Z.lor_nonneg; lia). split; [exact H0|].
  assert (E : Z.land (Z.lor a b) (Z.ones n) = Z.lor a b).
  { rewrite Z.land_lor_distr_l, !Z.land_ones by lia. rewrite !Z.mod_small by lia. reflexivity. }
  rewrite Z.land_ones in E by lia. rewrite <- E. apply Z.mod_pos_bound. apply Z.pow_pos_nonneg; lia.
Qed.

Lemma land_low_byte x k : 0 <= k <= 8 -> is_byte (Z.land x (2 ^ k - 1)).
Proof.
  intros Hk. rewrite land_ones_mod by lia. unfold is_byte.
  pose proof (pow2_le k 8 ltac:(lia)) as P. change (2 ^ 8) with 256 in P.
  assert (0 < 2 ^ k) by (apply Z.pow_pos_nonneg; lia). lia.
Qed.

(* ---- accessors ----------------------------------------------------------------------------------- *)
Lemma gen_version_eq u : GC.UUID_Version u = version u.
Proof. unfold GC.UUID_Version, version, nthb. same. Qed.

Lemma gen_variant_eq u : GC.UUID_Variant u = variant u.
Proof.
  unfold GC.UUID_Variant, variant, nthb, K.VariantNCSCompat, K.VariantIETF, K.VariantMicrosoft, K.VariantFuture.
  cbv zeta. same.
Qed.

Lemma gen_clock_eq u : GC.UUID_Clock u = clock u.
Proof.
  unfold GC.UUID_Clock, clock, nthb. rewrite gen_version_eq.
  rewrite (wrap_small 32); [same|].
  pose proof (land_low_byte (nth 8 u 0) 6 ltac:(lia)) as B. change (2 ^ 6 - 1) with 63 in B.
  pose proof (shiftl_byte_lt _ 8 32 B ltac:(lia) ltac:(lia)). lia.
Qed.

Ltac bnd B := lazymatch goal with
  | |- 0 <= Z.lor _ _ < 2 ^ _ => apply lor_bound; [lia | bnd B | bnd B]
  | |- 0 <= Z.shiftl (Z.land _ 15) _ < 2 ^ _ => apply (shiftl_lt _ 4); [apply land15_lt | lia | lia | lia]
  | |- 0 <= Z.shiftl _ _ < 2 ^ _ => apply shiftl_byte_lt; [byt B | lia | lia]
  | |- 0 <= _ < 2 ^ _ => apply byte_lt; [byt B | lia]
  end
with byt B := lazymatch goal with
  | |- is_byte (Z.land _ 15) => exact (land_low_byte _ 4 ltac:(lia))
  | |- is_byte (nth _ _ 0) => apply B
  end.

(* every 16-byte array: the three partial sums cannot overflow int64 (the largest is below 2^60) *)
Lemma gen_timestamp_eq u : wf_bytes u -> GC.UUID_Timestamp u = timestamp u.
Proof.
  intros Hu. unfold GC.UUID_Timestamp, timestamp, nthb. rewrite gen_version_eq.
  destruct (negb (version u =? 1)); [reflexivity|].
  assert (B : forall i, is_byte (nth i u 0)) by (intro i; apply nth_byte, Hu).
  repeat match goal with |- context [wrap 64 (Z.shiftl ?b ?k)] =>
    rewrite (wrap_small 64 (Z.shiftl b k)) by (apply shiftl_byte_lt; [byt B | lia | lia]) end.
  match goal with |- signed 64 (signed 64 (signed 64 ?a + signed 64 ?b) + signed 64 ?c) = _ =>
    assert (Ha : 0 <= a < 2 ^ 32) by bnd B; assert (Hb : 0 <= b < 2 ^ 48) by bnd B;
    assert (Hc : 0 <= c < 2 ^ 60) by bnd B;
    rewrite (signed64_small a) by lia; rewrite (signed64_small b) by lia; rewrite (signed64_small c) by lia;
    rewrite (signed64_small (a + b)) by lia; rewrite (signed64_small (a + b + c)) by lia
  end.
  same.
Qed.

(* ---- TimeUUIDWith ---------------------------------------------------------------------------------- *)
(* copy(u[10:], node) into an array whose last six bytes are still zero: any node length *)
Lemma copy_at_16_10 a0 a1 a2 a3 a4 a5 a6 a7 a8 a9 node :
  GC.copy_at [a0; a1; a2; a3; a4; a5; a6; a7; a8; a9; 0; 0; 0; 0; 0; 0] 10 node
  = [a0; a1; a2; a3; a4; a5; a6; a7; a8; a9] ++ copy6 node.
Proof.
  unfold GC.copy_at, copy6.
  destruct node as [|n0 [|n1 [|n2 [|n3 [|n4 [|n5 rest]]]]]]; reflexivity.
Qed.

Lemma gen_time_uuid_with_eq t c node : GC.TimeUUIDWith t c node = time_uuid_with t c node.
Proof.
  unfold GC.TimeUUIDWith, time_uuid_with. cbv zeta. cbn [repeat upd]. rewrite copy_at_16_10.
  cbn [app upd nth]. unfold wrap, byte_of. change (2 ^ 8) with 256. same.
Qed.
