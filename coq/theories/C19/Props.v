(* C19/Props.v -- the proof obligations for property C19, and nothing else.
   Each is closed by [exact] of a lemma from Proofs.v and followed by Print Assumptions. *)
From GocqlV Require Import Lib.Base Gen.Consts C19.Model C19.Spec C19.Proofs.

(* Printing a UUID and parsing it back gives the same UUID: all 128-bit values. *)
Theorem C19_parse_print : forall u, wf_uuid u -> parse_uuid (to_string u) = Some u.
Proof. exact parse_print_lemma. Qed.
Print Assumptions C19_parse_print.

(* Parsing rejects every string that is not exactly 32 hex digits plus hyphens. *)
Theorem C19_parse_accepts_only : forall s u, parse_uuid s = Some u ->
  Forall (fun r => r = 45 \/ is_hex_digit r) s /\ length (digits_of s) = 32%nat
  /\ u = pack (map hex_digit_val (digits_of s)).
Proof. exact parse_accepts_only_lemma. Qed.
Print Assumptions C19_parse_accepts_only.

(* ... and accepts every such string whose hyphens separate whole bytes, with the digits' value. *)
Theorem C19_parse_accepts_all : forall s,
  Forall (fun r => r = 45 \/ is_hex_digit r) s -> hyphens_even s 0 = true -> length (digits_of s) = 32%nat ->
  parse_uuid s = Some (pack (map hex_digit_val (digits_of s))).
Proof. exact parse_accepts_all_lemma. Qed.
Print Assumptions C19_parse_accepts_all.

(* The String layout the model uses is the offsets table in the source (generated constant). *)
Theorem C19_string_layout : group_offsets = K.uuid_offsets.
Proof. exact offsets_table. Qed.
Print Assumptions C19_string_layout.

(* A time UUID built from a 60-bit timestamp returns it, has version 1 and the RFC 4122 variant,
   for every clock and node value. *)
Theorem C19_time_uuid_fields : forall t c n, 0 <= t < 2 ^ 60 ->
  timestamp (time_uuid_with t c n) = t /\ version (time_uuid_with t c n) = 1
  /\ variant (time_uuid_with t c n) = K.VariantIETF /\ clock (time_uuid_with t c n) = c mod 2 ^ 14.
Proof.
  intros t c n Ht. split; [exact (timestamp_time_uuid_with t c n Ht)|].
  split; [exact (time_uuid_with_version t c n)|]. split; [exact (time_uuid_with_variant t c n)|].
  exact (clock_time_uuid_with t c n).
Qed.
Print Assumptions C19_time_uuid_fields.

(* The accessors read the RFC 4122 fields (independent layout in Spec.v). *)
Theorem C19_accessors_rfc : forall u, wf_uuid u ->
  version u = rfc_version u /\ (version u = 1 -> timestamp u = rfc_timestamp u).
Proof. exact accessors_are_rfc_fields. Qed.
Print Assumptions C19_accessors_rfc.

(* A time UUID built from a time returns that time to 100 ns: every instant of the 60-bit range. *)
Theorem C19_time_roundtrip : forall sec nsec c hw, time_in_range sec nsec ->
  to_time (uuid_from_time sec nsec c hw) = Some (sec, nsec / 100 * 100).
Proof. exact time_roundtrip_lemma. Qed.
Print Assumptions C19_time_roundtrip.

(* Random UUIDs have version 4 and the RFC variant whatever the random bytes. *)
Theorem C19_random_v4 : forall r, length r = 16%nat -> wf_bytes r ->
  version (random_stamp r) = 4 /\ variant (random_stamp r) = K.VariantIETF /\ length (random_stamp r) = 16%nat.
Proof. exact random_stamp_v4. Qed.
Print Assumptions C19_random_v4.

(* Min/Max time UUIDs bound every RFC 4122 v1 UUID of that instant under Cassandra's order. *)
Theorem C19_min_max_bound : forall ts u, 0 <= ts < 2 ^ 60 -> rfc_v1 u -> rfc_timestamp u = ts ->
  cass_le (time_uuid_with ts K.minClock K.minNode) u /\ cass_le u (time_uuid_with ts K.maxClock K.maxNode).
Proof. exact min_max_bound_lemma. Qed.
Print Assumptions C19_min_max_bound.

(* Time UUIDs generated in one process from distinct values of the atomic counter are distinct as long
   as the counter values are less than 2^14 apart (the clock field has 14 bits: no implementation can do
   better within one 100 ns tick). *)
Theorem C19_concurrent_unique : forall sec nsec sec' nsec' c0 k k' hw,
  0 <= k -> 0 <= k' -> k <> k' -> Z.abs (k - k') < 2 ^ 14 ->
  uuid_from_time sec nsec (wrap 32 (c0 + k)) hw <> uuid_from_time sec' nsec' (wrap 32 (c0 + k')) hw.
Proof. exact concurrent_unique_lemma. Qed.
Print Assumptions C19_concurrent_unique.

(* non-vacuity: hypotheses are satisfiable by concrete non-trivial values *)
Example C19_nonvacuous :
  wf_uuid (time_uuid_with 137000000000000000 4660 [1; 2; 3; 4; 5; 6])
  /\ time_in_range 1700000000 123456789
  /\ rfc_v1 (time_uuid_with 137000000000000000 4660 [1; 2; 3; 4; 5; 6])
  /\ parse_uuid (to_string (time_uuid_with 137000000000000000 4660 [1; 2; 3; 4; 5; 6]))
     = Some (time_uuid_with 137000000000000000 4660 [1; 2; 3; 4; 5; 6]).
Proof.
  split; [split; [reflexivity | apply wf_bytesb_spec; reflexivity]|].
  split; [unfold time_in_range; vm_compute; intuition discriminate|].
  split; [|vm_compute; reflexivity].
  split; [reflexivity|]. split; [apply wf_bytesb_spec; reflexivity|]. split; reflexivity.
Qed.

(* ---- the model is the code: generated-model equivalence (tools/go2coq, Gen/Code.v, C19/GenEquiv.v) ------
   GC.f is the Gallina definition that tools/go2coq generates from the Go source of f (uuid.go) on every run.
   Each theorem says that the generated definition and the hand-written model function of Model.v are the
   same function.  (ParseUUID, String, Time, getTimestamp, Node, RandomUUID are not translated: they stay
   tied to the model by the correspondence run only.) *)
From GocqlV Require Import Gen.Code.
From GocqlV Require C19.GenEquiv.   (* not imported: its helper lemmas stay qualified *)

Theorem C19_generated_version_is_model : forall u, GC.UUID_Version u = version u.
Proof. exact C19.GenEquiv.gen_version_eq. Qed.
Print Assumptions C19_generated_version_is_model.

Theorem C19_generated_variant_is_model : forall u, GC.UUID_Variant u = variant u.
Proof. exact C19.GenEquiv.gen_variant_eq. Qed.
Print Assumptions C19_generated_variant_is_model.

Theorem C19_generated_clock_is_model : forall u, GC.UUID_Clock u = clock u.
Proof. exact C19.GenEquiv.gen_clock_eq. Qed.
Print Assumptions C19_generated_clock_is_model.

(* Timestamp: every array of bytes (the int64 additions of the code cannot wrap) *)
Theorem C19_generated_timestamp_is_model : forall u, wf_bytes u -> GC.UUID_Timestamp u = timestamp u.
Proof. exact C19.GenEquiv.gen_timestamp_eq. Qed.
Print Assumptions C19_generated_timestamp_is_model.

(* TimeUUIDWith: every int64 time, every uint32 clock, node slices of every length *)
Theorem C19_generated_time_uuid_with_is_model : forall t c node,
  GC.TimeUUIDWith t c node = time_uuid_with t c node.
Proof. exact C19.GenEquiv.gen_time_uuid_with_eq. Qed.
Print Assumptions C19_generated_time_uuid_with_is_model.

(* ... hence C19_time_uuid_fields holds of the functions go2coq reads off uuid.go today. *)
Theorem C19_generated_time_uuid_fields : forall t c n, 0 <= t < 2 ^ 60 -> wf_bytes n ->
  GC.UUID_Timestamp (GC.TimeUUIDWith t c n) = t /\ GC.UUID_Version (GC.TimeUUIDWith t c n) = 1
  /\ GC.UUID_Variant (GC.TimeUUIDWith t c n) = K.VariantIETF /\ GC.UUID_Clock (GC.TimeUUIDWith t c n) = c mod 2 ^ 14.
Proof.
  intros t c n Ht Hn. rewrite C19.GenEquiv.gen_time_uuid_with_eq, C19.GenEquiv.gen_version_eq, C19.GenEquiv.gen_variant_eq, C19.GenEquiv.gen_clock_eq.
  rewrite C19.GenEquiv.gen_timestamp_eq by (apply (wf_time_uuid_with t c n Hn)).
  exact (C19_time_uuid_fields t c n Ht).
Qed.
Print Assumptions C19_generated_time_uuid_fields.
