(* C16/Proofs3.v -- the refresh's second loop and the post-condition of a whole refresh. *)
From GocqlV Require Import Lib.Base C16.ZMap C16.Model C16.Spec C16.Proofs1 C16.Proofs2.

Lemma zmem_cons x y l : zmem x (y :: l) = (x =? y) || zmem x l.
Proof. reflexivity. Qed.

Lemma remove_host_known s e id :
  ring_inv (s_ring s) -> mget id (hosts (s_ring s)) = Some e ->
  s_ring (remove_host s e) = fst (remove_host_ring (s_ring s) id)
  /\ hosts (s_ring (remove_host s e)) = mdel id (hosts (s_ring s))
  /\ s_pool (remove_host s e) = pool_del (s_pool s) id
  /\ s_log (remove_host s e) = s_log s ++ [PRemove id]
  /\ s_refresh (remove_host s e) = s_refresh s.
Proof.
  intros Hinv He. pose proof (inv_id _ Hinv _ _ He) as Hid. unfold remove_host. rewrite Hid. simpl.
  split; [reflexivity|]. split; [|auto]. apply remove_host_ring_hosts.
Qed.

Lemma remove_all_ok : forall (l : zmap hostinfo) s,
  ring_inv (s_ring s) -> NoDup (mkeys l) ->
  (forall id e, In (id, e) l -> mget id (hosts (s_ring s)) = Some e) ->
  let s' := remove_all s l in
  ring_inv (s_ring s')
  /\ (forall id, mget id (hosts (s_ring s')) = if zmem id (mkeys l) then None else mget id (hosts (s_ring s)))
  /\ (forall id, In id (s_pool s') <-> In id (s_pool s) /\ ~ In id (mkeys l))
  /\ (forall a, In a (s_log s') <-> In a (s_log s) \/ exists id, In id (mkeys l) /\ a = PRemove id)
  /\ s_refresh s' = s_refresh s.
Proof.
  induction l as [|[id e] tl IH]; intros s Hinv Hnd Hin; cbv zeta.
  - simpl. split; [exact Hinv|]. split; [reflexivity|]. split; [tauto|]. split; [|reflexivity].
    intros a. split; [auto | intros [H|[id [[] _]]]; exact H].
  - assert (He : mget id (hosts (s_ring s)) = Some e) by (apply Hin; left; reflexivity).
    destruct (remove_host_known s e id Hinv He) as [Hr [Hh [Hp [Hlg Hrf]]]].
    simpl in Hnd. inversion Hnd as [|? ? Hnotin Hnd']; subst.
    assert (Hinv1 : ring_inv (s_ring (remove_host s e))).
    { rewrite Hr. apply remove_host_ring_inv. exact Hinv. }
    assert (Hin1 : forall id' e', In (id', e') tl -> mget id' (hosts (s_ring (remove_host s e))) = Some e').
    { intros id' e' H'. rewrite Hh. rewrite mget_mdel_other; [apply Hin; right; exact H'|].
      intros ->. apply Hnotin. change (In id (map fst tl)). apply in_map_iff. exists (id, e'). auto. }
    specialize (IH (remove_host s e) Hinv1 Hnd' Hin1). cbv zeta in IH.
    destruct IH as [I1 [I3 [I4 [I5 I6]]]].
    change (remove_all s ((id, e) :: tl)) with (remove_all (remove_host s e) tl).
    change (mkeys ((id, e) :: tl)) with (id :: mkeys tl).
    split; [exact I1|]. split; [|split; [|split]].
    + intros id0. rewrite I3, Hh, mget_mdel. rewrite zmem_cons.
      destruct (id0 =? id) eqn:E; simpl; [destruct (zmem id0 (mkeys tl)); reflexivity | reflexivity].
    + intros id0. rewrite I4, Hp, In_pool_del. simpl. split.
      * intros [[H1 H2] H3]. split; [exact H1|]. intros [H|H]; [lia | auto].
      * intros [H1 H2]. split; [split; [exact H1|] |]; intros H; apply H2; [left; lia | right; exact H].
    + intros a. rewrite I5, Hlg, in_app_iff. simpl. split.
      * intros [[H|[H|[]]]|[id0 [H1 H2]]]; [left; exact H | right; exists id; split; [left; reflexivity | auto] |
                                             right; exists id0; split; [right; exact H1 | exact H2]].
      * intros [H|[id0 [[H1|H1] H2]]]; [left; left; exact H | left; right; left; subst; reflexivity | right; exists id0; auto].
    + rewrite I6. exact Hrf.
Qed.

Lemma loop_inv_init r0 s :
  s_ring s = r0 -> ring_inv r0 -> (forall id, In id (s_pool s) -> mget id (hosts r0) <> None) ->
  loop_inv r0 (s_pool s) s (hosts r0) [] [].
Proof.
  intros <- Hinv Hpool. constructor; auto.
  - apply (inv_nodup _ Hinv).
  - intros id. split; [intros [] | intros [h [[] _]]].
  - intros h [].
  - intros h [].
  - intros id [].
  - intros h [].
Qed.

Lemma host_from_row_valid r h : host_from_row r = Some h -> invalid_connect_addr h = false.
Proof.
  unfold host_from_row. destruct (invalid_connect_addr r) eqn:E; [discriminate|]. intros H. injection H as <-.
  unfold invalid_connect_addr in *. apply negb_false_iff in E. apply negb_false_iff.
  unfold connect_addr at 1. simpl. rewrite E. exact E.
Qed.

(* ids of the first reports = ids of all reports *)
Lemma first_by_id_ids : forall hs seen id,
  In id (map h_id (first_by_id seen hs)) <-> In id (map h_id hs) /\ ~ In id seen.
Proof.
  induction hs as [|h tl IH]; intros seen id; simpl; [tauto|].
  destruct (zmem (h_id h) seen) eqn:E.
  - rewrite IH. apply zmem_In in E. split; [tauto|]. intros [[<-|H] Hn]; [contradiction | auto].
  - apply zmem_false in E. simpl. rewrite IH. simpl. split.
    + intros [<-|[H1 H2]]; [auto | tauto].
    + intros [[<-|H] Hn]; [auto|]. destruct (Z.eq_dec (h_id h) id); [auto | right; tauto].
Qed.

Lemma first_by_id_sub : forall hs seen h, In h (first_by_id seen hs) -> In h hs.
Proof.
  induction hs as [|x tl IH]; intros seen h; simpl; [tauto|].
  destruct (zmem (h_id x) seen); [intros H; right; eapply IH; eauto|]. intros [<-|H]; [auto | right; eapply IH; eauto].
Qed.

Lemma effective_ids c report id : In id (map h_id (effective c report)) <-> In id (reported_ids c report).
Proof. unfold effective, reported_ids. rewrite first_by_id_ids. simpl. tauto. Qed.

(* the post-condition of a whole refresh *)
Record refresh_post (c : cfg) (s : sess) (report : list hostinfo) (s' : sess) : Prop := mk_refresh_post {
  rp_ring : ring_inv (s_ring s');
  (* the session knows exactly the accepted hosts of the report *)
  rp_exact : forall id, knows (s_ring s') id <-> In id (reported_ids c report);
  (* (a host id reported twice counts once, by its first report: [effective])
     with the reported record for new nodes and nodes whose address changed, the updated old record otherwise *)
  rp_content : forall h, In h (effective c report) -> get_host (s_ring s') (h_id h) = Some (refreshed (s_ring s) h);
  (* pools only for known hosts; new and replaced nodes get a pool and are announced to the policy *)
  rp_pool : forall id, In id (s_pool s') -> knows (s_ring s') id;
  rp_fresh : forall h, In h (effective c report) -> fresh_record (s_ring s) h ->
             In (h_id h) (s_pool s') /\ In (PAdd (h_id h)) (s_log s');
  (* vanished nodes lose their pool and are removed from the policy *)
  rp_vanished : forall id, knows (s_ring s) id -> ~ In id (reported_ids c report) ->
                ~ In id (s_pool s') /\ In (PRemove id) (s_log s');
  (* nothing else is removed from the pools *)
  rp_pool_kept : forall id, In id (s_pool s) -> In id (reported_ids c report) -> In id (s_pool s')
}.

Lemma In_reported c report id : In id (reported_ids c report) <-> exists h, In h (accepted c report) /\ h_id h = id.
Proof.
  unfold reported_ids. rewrite in_map_iff. split; intros [h [H1 H2]]; exists h; auto.
Qed.

Theorem refresh_correct c s report :
  ring_inv (s_ring s) -> (forall id, In id (s_pool s) -> knows (s_ring s) id) ->
  report_ok c report ->
  exists s', refresh c s report = (s', ROk) /\ refresh_post c s report s'.
Proof.
  intros Hinv Hpool Hok. unfold refresh.
  pose proof (refresh_loop_ok c (s_ring s) (s_pool s) report Hok report [] [] s (hosts (s_ring s)) eq_refl (fun h H => H)
                (loop_inv_init _ s eq_refl Hinv Hpool)) as Hloop.
  destruct (refresh_loop c s (hosts (s_ring s)) [] report) as [[s1 prev1] res]. simpl in Hloop.
  destruct Hloop as [-> [seen Hli]]. exists (remove_all s1 prev1). split; [reflexivity|].
  destruct Hli as [Hring Hpr Hpo Hpnd Hsn Hprov Hpool1 Hdpool Hlog Hsnp Hcover Hcontent Hmono].
  assert (Hin1 : forall id e, In (id, e) prev1 -> mget id (hosts (s_ring s1)) = Some e).
  { intros id e H. apply Hpr. apply In_NoDup_mget; assumption. }
  destruct (remove_all_ok prev1 s1 Hring Hpnd Hin1) as [R1 [R3 [R4 [R5 R6]]]].
  assert (Hseen_rep : forall id, In id seen <-> In id (reported_ids c report)).
  { intros id. rewrite Hsn, <- effective_ids, in_map_iff. split; intros [h [A B]]; exists h; auto. }
  assert (Hnk : forall id, In id seen -> zmem id (mkeys prev1) = false).
  { intros id Hid. apply zmem_false. rewrite mget_keys. rewrite (Hsnp _ Hid). auto. }
  constructor.
  - exact R1.
  - intros id. unfold knows, get_host. rewrite R3, <- Hseen_rep. split.
    + destruct (zmem id (mkeys prev1)) eqn:E; [congruence|]. intros Hx.
      destruct (mget id (hosts (s_ring s1))) as [x|] eqn:Ex; [|congruence].
      destruct (Hprov _ _ Ex) as [Hq | [_ Hin]]; [|exact Hin].
      exfalso. apply zmem_false in E. apply E. apply mget_keys. congruence.
    + intros Hid. rewrite (Hnk _ Hid). apply Hsn in Hid. destruct Hid as [h [Hh <-]]. rewrite (Hcontent _ Hh). discriminate.
  - intros h Hh. unfold get_host. rewrite R3, Hnk; [apply Hcontent; exact Hh|]. apply Hsn. exists h. auto.
  - intros id Hid. apply R4 in Hid. destruct Hid as [H1 H2]. unfold knows, get_host. rewrite R3.
    apply zmem_false in H2. rewrite H2. apply Hpool1. exact H1.
  - intros h Hh Hf. split.
    + apply R4. split; [apply Hdpool; assumption|]. apply zmem_false. apply Hnk. apply Hsn. exists h. auto.
    + apply R5. left. apply Hlog; assumption.
  - intros id Hk Hnr. unfold knows, get_host in Hk. destruct (mget id (hosts (s_ring s))) as [e|] eqn:E; [|congruence].
    destruct (Hcover _ _ E) as [Hq | Hq].
    + assert (Hm : In id (mkeys prev1)) by (apply mget_keys; congruence). split.
      * intros H. apply R4 in H. tauto.
      * apply R5. right. exists id. auto.
    + exfalso. apply Hnr. apply Hseen_rep. exact Hq.
  - intros id Hid Hr. apply R4. split; [apply Hmono; exact Hid|].
    apply zmem_false. apply Hnk. apply Hseen_rep. exact Hr.
Qed.

(* refresh from the rows the control node returned: either a row has no usable address, the refresh
   returns an error and nothing changes, or the refresh succeeds with the post-condition above *)
Theorem refresh_rows_correct c s local rows :
  ring_inv (s_ring s) -> (forall id, In id (s_pool s) -> knows (s_ring s) id) ->
  match get_hosts local rows with
  | None => refresh_rows c s local rows = (s, RErrReport)
  | Some report => exists s', refresh_rows c s local rows = (s', ROk) /\ refresh_post c s report s'
  end.
Proof.
  intros Hinv Hpool. unfold refresh_rows. destruct (get_hosts local rows) as [report|] eqn:E; [|reflexivity].
  apply refresh_correct; auto.
  intros h Hh. unfold accepted in Hh. apply filter_In in Hh. destruct Hh as [Hh _].
  unfold get_hosts in E. destruct (host_from_row local) as [l|] eqn:El; [|discriminate].
  destruct (peers_from_rows rows) as [hs|] eqn:Ep; [|discriminate]. injection E as <-.
  destruct Hh as [<-|Hh]; [eapply host_from_row_valid; eauto|].
  clear El. revert hs Ep Hh. induction rows as [|r tl IH]; simpl; intros hs Ep Hh.
  - injection Ep as <-. contradiction.
  - destruct (host_from_row r) as [x|] eqn:Er; [|discriminate].
    destruct (peers_from_rows tl) as [hs'|]; [|discriminate]. injection Ep as <-.
    destruct (is_valid_peer x); [destruct Hh as [<-|Hh]; [eapply host_from_row_valid; eauto | eapply IH; eauto] | eapply IH; eauto].
Qed.
