(* C16/ZMap.v -- finite maps with Z keys as association lists (a Go map[string]T whose keys are
   encoded as integers).  [mset] replaces in place or appends, [mdel] removes every binding of the
   key, so a map built from [] by these operations never binds a key twice. *)
From GocqlV Require Import Lib.Base.

Section ZMap.
Context {V : Type}.

Definition zmap := list (Z * V).

Fixpoint mget (k : Z) (m : zmap) : option V :=
  match m with
  | [] => None
  | (k', v) :: m' => if k =? k' then Some v else mget k m'
  end.

Fixpoint mset (k : Z) (v : V) (m : zmap) : zmap :=
  match m with
  | [] => [(k, v)]
  | (k', v') :: m' => if k =? k' then (k, v) :: m' else (k', v') :: mset k v m'
  end.

Fixpoint mdel (k : Z) (m : zmap) : zmap :=
  match m with
  | [] => []
  | (k', v') :: m' => if k =? k' then mdel k m' else (k', v') :: mdel k m'
  end.

Definition mkeys (m : zmap) : list Z := map fst m.
Definition mmem (k : Z) (m : zmap) : bool := match mget k m with Some _ => true | None => false end.

Lemma mget_mset_same k v m : mget k (mset k v m) = Some v.
Proof.
  induction m as [|[k' v'] m IH]; simpl.
  - rewrite Z.eqb_refl. reflexivity.
  - destruct (k =? k') eqn:E; simpl; rewrite ?Z.eqb_refl, ?E; auto.
Qed.

Lemma mget_mset_other k k' v m : k <> k' -> mget k (mset k' v m) = mget k m.
Proof.
  intros Hne. induction m as [|[k2 v2] m IH]; simpl.
  - destruct (k =? k') eqn:E; [lia | reflexivity].
  - destruct (k' =? k2) eqn:E2; simpl.
    + apply Z.eqb_eq in E2; subst k2. destruct (k =? k') eqn:E; [lia | reflexivity].
    + destruct (k =? k2); auto.
Qed.

Lemma mget_mset k k' v m : mget k (mset k' v m) = if k =? k' then Some v else mget k m.
Proof.
  destruct (k =? k') eqn:E.
  - apply Z.eqb_eq in E; subst. apply mget_mset_same.
  - apply mget_mset_other. lia.
Qed.

Lemma mget_mdel_same k m : mget k (mdel k m) = None.
Proof.
  induction m as [|[k' v'] m IH]; simpl; auto.
  destruct (k =? k') eqn:E; simpl; rewrite ?E; auto.
Qed.

Lemma mget_mdel_other k k' m : k <> k' -> mget k (mdel k' m) = mget k m.
Proof.
  intros Hne. induction m as [|[k2 v2] m IH]; simpl; auto.
  destruct (k' =? k2) eqn:E2; simpl.
  - apply Z.eqb_eq in E2; subst k2. destruct (k =? k') eqn:E; [lia | auto].
  - destruct (k =? k2); auto.
Qed.

Lemma mget_mdel k k' m : mget k (mdel k' m) = if k =? k' then None else mget k m.
Proof.
  destruct (k =? k') eqn:E.
  - apply Z.eqb_eq in E; subst. apply mget_mdel_same.
  - apply mget_mdel_other. lia.
Qed.

Lemma mget_In k v m : mget k m = Some v -> In (k, v) m.
Proof.
  induction m as [|[k' v'] m IH]; simpl; [discriminate|].
  destruct (k =? k') eqn:E.
  - apply Z.eqb_eq in E; subst. intros H; inversion H; auto.
  - auto.
Qed.

Lemma mget_keys k m : In k (mkeys m) <-> mget k m <> None.
Proof.
  induction m as [|[k' v'] m IH]; simpl.
  - split; [tauto | congruence].
  - destruct (k =? k') eqn:E.
    + apply Z.eqb_eq in E; subst. split; [congruence | auto].
    + rewrite <- IH. split; [intros [H|H]; [lia | auto] | auto].
Qed.

Lemma mget_None_keys k m : mget k m = None <-> ~ In k (mkeys m).
Proof.
  rewrite mget_keys. destruct (mget k m) as [v|]; split; intros H; try congruence.
  exfalso. apply H. congruence.
Qed.

Lemma In_NoDup_mget k v m : NoDup (mkeys m) -> In (k, v) m -> mget k m = Some v.
Proof.
  induction m as [|[k' v'] m IH]; simpl; [tauto|].
  intros Hnd [H|H].
  - inversion H; subst. rewrite Z.eqb_refl. reflexivity.
  - inversion Hnd; subst. destruct (k =? k') eqn:E.
    + apply Z.eqb_eq in E; subst. exfalso. apply H2. change (In k' (map fst m)). apply in_map_iff. exists (k', v). auto.
    + auto.
Qed.

Lemma mkeys_mset_absent k v m : mget k m = None -> mkeys (mset k v m) = mkeys m ++ [k].
Proof.
  induction m as [|[k' v'] m IH]; simpl; auto.
  destruct (k =? k') eqn:E; [discriminate|]. intros H. simpl. f_equal. auto.
Qed.

Lemma mkeys_mset_present k v m : mget k m <> None -> mkeys (mset k v m) = mkeys m.
Proof.
  induction m as [|[k' v'] m IH]; simpl; [congruence|].
  destruct (k =? k') eqn:E.
  - apply Z.eqb_eq in E; subst. reflexivity.
  - intros H. simpl. f_equal. auto.
Qed.

Lemma In_mkeys_mset k k' v m : In k (mkeys (mset k' v m)) <-> k = k' \/ In k (mkeys m).
Proof.
  rewrite !mget_keys, mget_mset. destruct (k =? k') eqn:E.
  - apply Z.eqb_eq in E. split; [auto | congruence].
  - split; [auto | intros [H|H]; [lia | auto]].
Qed.

Lemma In_mkeys_mdel k k' m : In k (mkeys (mdel k' m)) <-> k <> k' /\ In k (mkeys m).
Proof.
  rewrite !mget_keys, mget_mdel. destruct (k =? k') eqn:E.
  - apply Z.eqb_eq in E. split; [congruence | intros [H _]; congruence].
  - split; [intros; split; [lia | auto] | tauto].
Qed.

Lemma NoDup_mkeys_mset k v m : NoDup (mkeys m) -> NoDup (mkeys (mset k v m)).
Proof.
  induction m as [|[k' v'] m IH]; simpl; intros Hnd.
  - constructor; [simpl; tauto | constructor].
  - inversion Hnd; subst. destruct (k =? k') eqn:E; simpl.
    + apply Z.eqb_eq in E; subst. constructor; auto.
    + constructor; [|auto]. fold (mkeys (mset k v m)). rewrite In_mkeys_mset. intros [H|H]; [lia | auto].
Qed.

Lemma NoDup_mkeys_mdel k m : NoDup (mkeys m) -> NoDup (mkeys (mdel k m)).
Proof.
  induction m as [|[k' v'] m IH]; simpl; intros Hnd; [constructor|].
  inversion Hnd; subst. destruct (k =? k') eqn:E; simpl; [auto|].
  constructor; [|auto]. fold (mkeys (mdel k m)). rewrite In_mkeys_mdel. tauto.
Qed.

Lemma mdel_absent k m : mget k m = None -> mdel k m = m.
Proof.
  induction m as [|[k' v'] m IH]; simpl; auto.
  destruct (k =? k') eqn:E; [discriminate|]. intros H. f_equal. auto.
Qed.

End ZMap.
Arguments zmap : clear implicits.
