(* C16/Refuted.v -- full statements that the faithful model (= the code) violates: machine-checked
   witnesses of the known findings of property C16 (tools/props/C16.findings.json). *)
From GocqlV Require Import Lib.Base C16.ZMap C16.Model C16.Spec.

Definition plain (id a : Z) : hostinfo :=
  mkHost id (Some a) None None (Some a) None (Some a) 9042 1 1 (Some [id]) true.
Definition with_bcast (h : hostinfo) (b : Z) : hostinfo :=
  mkHost (h_id h) (h_peer h) (Some b) (h_listen h) (h_rpc h) (h_pref h) (h_conn h) (h_port h) (h_dc h) (h_rack h) (h_tokens h) (h_up h).
Definition accept_all : cfg := mkCfg (fun _ => true) false false.

(* F-C16-1 (finding shared-address-host-removed), ring level: add(id1,X); add(id2,X); remove(id1):
   host id2 is in the ring with address X, yet the lookup by address X answers (nil, false). *)
Theorem index_shadow_refuted :
  exists ops, let r := ring_run empty_ring ops in
    get_host r 2 = Some (plain 2 7) /\ n2n_key (plain 2 7) = 7 /\ get_by_ip r 7 = (None, false)
    /\ ~ lookups_consistent r.
Proof.
  exists [OAddIfMissing (plain 1 7); OAddIfMissing (plain 2 7); ORemove 1].
  split; [reflexivity|]. split; [reflexivity|]. split; [reflexivity|].
  intros [_ [H _]]. specialize (H 7). vm_compute in H. apply (H 2 (plain 2 7)); reflexivity.
Qed.

(* the same through a refresh: the ring knows id1 at X; the cluster reports id2 at X (a dead node
   replaced by a new host id on the same address).  The refresh succeeds, id2 is known, and cannot be found
   by its address. *)
Theorem refresh_shadow_refuted :
  exists s report s', run accept_all empty_sess [LInit [plain 1 7]] = Some s
    /\ refresh accept_all s report = (s', ROk)
    /\ get_host (s_ring s') 2 = Some (plain 2 7) /\ get_by_ip (s_ring s') 7 = (None, false)
    /\ ~ lookups_consistent (s_ring s').
Proof.
  eexists. exists [plain 2 7]. eexists. split; [vm_compute; reflexivity|]. split; [vm_compute; reflexivity|].
  split; [reflexivity|]. split; [reflexivity|].
  intros [_ [H _]]. specialize (H 7). vm_compute in H. apply (H 2 (plain 2 7)); reflexivity.
Qed.

(* finding address-key-stale-after-update, ring level: a host indexed under its peer address gets a
   different broadcast address through addOrUpdate; after its removal the old key dangles and the lookup
   answers (nil, true). *)
Theorem stale_key_refuted :
  exists ops, get_by_ip (ring_run empty_ring ops) 1 = (None, true).
Proof. exists [OAddIfMissing (plain 1 1); OAddOrUpdate (with_bcast (plain 1 1) 2); ORemove 1]. reflexivity. Qed.

(* ... on which handleNodeDown / handleNodeUp dereference nil: a history (control connection set up to a
   node that reports another broadcast address than its peers do, the node then leaves, a DOWN event for
   its old address arrives) on which event processing panics. *)
Theorem events_crash_refuted :
  exists ls, run accept_all empty_sess ls = None.
Proof.
  exists [LInit [plain 1 1]; LControl (with_bcast (plain 1 1) 2); LRefresh []; LEvents [EStatus 2 1]].
  reflexivity.
Qed.

(* finding refresh-duplicate-host-id: the same host id twice in the accepted report: the refresh
   stops with ErrCannotFindHost, later rows are not added (id 3) and nothing vanished is removed (id 9). *)
Theorem refresh_duplicate_refuted :
  exists s report s', run accept_all empty_sess [LInit [plain 1 1; plain 2 2; plain 9 9]] = Some s
    /\ refresh accept_all s report = (s', RErrCannotFind)
    /\ In 3 (reported_ids accept_all report) /\ ~ knows (s_ring s') 3
    /\ ~ In 9 (reported_ids accept_all report) /\ knows (s_ring s') 9.
Proof.
  eexists. exists [plain 1 1; plain 2 2; plain 2 2; plain 3 3]. eexists.
  split; [vm_compute; reflexivity|]. split; [vm_compute; reflexivity|].
  split; [vm_compute; tauto|]. split; [vm_compute; congruence|].
  split; [vm_compute; intuition discriminate | vm_compute; congruence].
Qed.

(* finding row-without-usable-address-panics: a system.peers row none of whose address columns holds a
   usable address makes the refresh panic (hostInfoFromMap calls ConnectAddress before isValidPeer is
   consulted), whatever else the report contains. *)
Theorem row_without_address_refuted :
  exists local rows s', run accept_all empty_sess [LInit [plain 1 1]] = Some s'
    /\ get_hosts local rows = None /\ snd (refresh_rows accept_all s' local rows) = RPanic.
Proof.
  exists (plain 1 1), [plain 2 2; mkHost 3 (Some 0) None None None None None 9042 1 1 (Some [3]) true].
  eexists. split; [vm_compute; reflexivity|]. split; reflexivity.
Qed.
