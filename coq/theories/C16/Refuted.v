(* C16/Refuted.v -- the four defects of property C16 found on the unchanged tree and repaired in /repo
   (tools/props/C16.findings.json, status "fixed").  The model in Model.v follows the repaired code; this
   file keeps, as regression facts, (a) the pre-fix ring operations and the witnesses on which they broke
   the property, (b) the behaviour of the repaired model on the same inputs. *)
From GocqlV Require Import Lib.Base C16.ZMap C16.Model C16.Spec.

Definition plain (id a : Z) : hostinfo :=
  mkHost id (Some a) None None (Some a) None (Some a) 9042 1 1 (Some [id]) true.
Definition with_bcast (h : hostinfo) (b : Z) : hostinfo :=
  mkHost (h_id h) (h_peer h) (Some b) (h_listen h) (h_rpc h) (h_pref h) (h_conn h) (h_port h) (h_dc h) (h_rack h) (h_tokens h) (h_up h).
Definition accept_all : cfg := mkCfg (fun _ => true) false false.

(* ---- pre-fix ring.removeHost and ring.addOrUpdate *)
Definition remove_host_ring_old (r : ring) (id : Z) : ring :=
  match mget id (hosts r) with
  | Some h => mkRing (mdel id (hosts r)) (mdel (n2n_key h) (ip2id r)) (remove_first id (hlist r))
  | None => r
  end.

Definition add_or_update_old (r : ring) (h : hostinfo) : ring :=
  match add_if_missing r h with
  | Some (r', e, true) => mkRing (mset (h_id h) (update e h) (hosts r')) (ip2id r') (hlist r')
  | Some (r', _, false) => r'
  | None => r
  end.

Definition add_new (r : ring) (h : hostinfo) : ring :=
  match add_if_missing r h with Some (r', _, _) => r' | None => r end.

(* F-C16-1 (shared-address-host-removed), before the fix: add(id1,X); add(id2,X); remove(id1): host id2 is
   in the ring with address X, yet the lookup by address X answered (nil, false) *)
Example index_shadow_prefix :
  let r := remove_host_ring_old (add_new (add_new empty_ring (plain 1 7)) (plain 2 7)) 1 in
  get_host r 2 = Some (plain 2 7) /\ get_by_ip r 7 = (None, false).
Proof. split; reflexivity. Qed.

(* after the fix, whichever of the two is removed the other one is found under X *)
Example index_shadow_fixed :
  get_by_ip (ring_run empty_ring [OAddIfMissing (plain 1 7); OAddIfMissing (plain 2 7); ORemove 1]) 7 = (Some (plain 2 7), true)
  /\ get_by_ip (ring_run empty_ring [OAddIfMissing (plain 1 7); OAddIfMissing (plain 2 7); ORemove 2]) 7 = (Some (plain 1 7), true).
Proof. split; reflexivity. Qed.

(* the same through a refresh: a dead node replaced by a new host id on the same address *)
Example refresh_shadow_fixed :
  exists s s', run accept_all empty_sess [LInit [plain 1 7]] = Some s
    /\ refresh accept_all s [plain 2 7] = (s', ROk)
    /\ get_by_ip (s_ring s') 7 = (Some (plain 2 7), true) /\ mkeys (hosts (s_ring s')) = [2].
Proof. eexists. eexists. split; [vm_compute; reflexivity|]. split; [vm_compute; reflexivity|]. split; reflexivity. Qed.

(* address-key-stale-after-update, before the fix: a host indexed under its peer address got another
   broadcast address through addOrUpdate; after its removal the old key dangled: (nil, true) *)
Example stale_key_prefix :
  get_by_ip (remove_host_ring_old (add_or_update_old (add_new empty_ring (plain 1 1)) (with_bcast (plain 1 1) 2)) 1) 1 = (None, true).
Proof. reflexivity. Qed.

(* after the fix the host is re-indexed under its new address, and nothing dangles after its removal *)
Example stale_key_fixed :
  let r := ring_run empty_ring [OAddIfMissing (plain 1 1); OAddOrUpdate (with_bcast (plain 1 1) 2)] in
  fst (get_by_ip r 2) = get_host r 1 /\ get_host r 1 <> None /\ get_by_ip r 1 = (None, false)
  /\ ip2id (ring_run r [ORemove 1]) = [].
Proof. repeat split; try reflexivity. vm_compute. discriminate. Qed.

(* the history on which event handling used to panic now runs *)
Example events_crash_fixed :
  run accept_all empty_sess [LInit [plain 1 1]; LControl (with_bcast (plain 1 1) 2); LRefresh []; LEvents [EStatus 2 1]] <> None.
Proof. vm_compute. discriminate. Qed.

(* refresh-duplicate-host-id: the same host id twice in the report used to end the refresh with
   ErrCannotFindHost; now the first report counts, later rows are added (3) and vanished hosts removed (9) *)
Example refresh_duplicate_fixed :
  exists s s', run accept_all empty_sess [LInit [plain 1 1; plain 2 2; plain 9 9]] = Some s
    /\ refresh accept_all s [plain 1 1; plain 2 2; plain 2 5; plain 3 3] = (s', ROk)
    /\ mkeys (hosts (s_ring s')) = [1; 2; 3] /\ get_host (s_ring s') 2 = Some (plain 2 2).
Proof. eexists. eexists. split; [vm_compute; reflexivity|]. split; [vm_compute; reflexivity|]. split; reflexivity. Qed.

(* row-without-usable-address-panics: such a row used to panic inside hostInfoFromMap; now GetHosts
   fails, the refresh returns the error and the session is unchanged *)
Example row_without_address_fixed :
  exists s, run accept_all empty_sess [LInit [plain 1 1]] = Some s
    /\ refresh_rows accept_all s (plain 1 1) [plain 2 2; mkHost 3 (Some 0) None None None None None 9042 1 1 (Some [3]) true]
       = (s, RErrReport).
Proof. eexists. split; [vm_compute; reflexivity | reflexivity]. Qed.
