(* C16/Props.v -- the proof obligations of property C16 (the driver's picture of the cluster follows
   what the cluster reports), and nothing else.  Definitions: Model.v (the transcription of ring.go,
   refreshRing, handleNodeEvent ...), Spec.v (lookups_consistent, knows, reported_ids, offered,
   last_status), Proofs1-6.v (ring_inv, report_ok, history_ok, ... and the lemmas used below).

   The four defects found on the unchanged tree (removal of a host whose address another host shares;
   addOrUpdate moving a known host's address without re-indexing; a host id reported twice; a row without
   a usable address) are repaired in /repo and the model follows the repaired code: the theorems no longer
   exclude these regions.  The one remaining side condition is that hosts handed to the ring have a
   usable connect address (hosts_valid / report_ok), which hostInfoFromMap guarantees for every host it
   returns; at the level of rows (theorem 14) there is no side condition at all.  Refuted.v keeps the
   pre-fix ring operations with their witnesses as regression facts. *)
From Coq Require Import Permutation.
From GocqlV Require Import Lib.Base Gen.Consts C16.ZMap C16.Model C16.Spec
  C16.Proofs1 C16.Proofs2 C16.Proofs3 C16.Proofs4 C16.Proofs5 C16.Proofs6 C16.Proofs7 C16.Debounce.

(* 1. Index consistency over every history of ring operations (any length, any hosts, hosts sharing
   addresses, updates that move addresses): look-ups by id and by address and the ordered list agree. *)
Theorem C16_ring_index_inv : forall ops,
  lookups_consistent (ring_run empty_ring ops).
Proof. exact ring_history_consistent. Qed.
Print Assumptions C16_ring_index_inv.

(* 2. Every session history (initial hosts, control-connection set-ups, refreshes with arbitrary reports,
   failed refreshes, event batches, connection notifications, in any order and number) runs without a
   panic and ends in a state whose look-ups are consistent and where connection pools exist only for known
   nodes. *)
Theorem C16_history_inv : forall c ls,
  history_ok c empty_sess ls ->
  exists s, run c empty_sess ls = Some s /\ sess_inv s /\ lookups_consistent (s_ring s).
Proof. exact history_invariant. Qed.
Print Assumptions C16_history_inv.

(* 3. One refresh: it succeeds, and afterwards the session knows exactly the accepted hosts of the
   report (a host id reported twice counts once, by its first report); a new node or a node whose address
   changed is held as the reported record (replaced), an unchanged node as its old record updated;
   new/replaced nodes have a pool and were announced to the policy, vanished nodes have no pool and were
   removed from the policy, nothing else lost its pool (refresh_post, Proofs3.v). *)
Theorem C16_refresh_exact : forall c s report,
  ring_inv (s_ring s) -> (forall id, In id (s_pool s) -> knows (s_ring s) id) ->
  report_ok c report ->
  exists s', refresh c s report = (s', ROk) /\ refresh_post c s report s'.
Proof. exact refresh_correct. Qed.
Print Assumptions C16_refresh_exact.

(* 4. After any history, the set of nodes the session knows equals the nodes last reported: whatever
   happened before the last successful refresh, and whatever events, connection notifications and failed
   refreshes came after it. *)
Theorem C16_picture_is_last_report : forall c pre report tail,
  history_ok c empty_sess (pre ++ LRefresh report :: tail) -> forallb quiet tail = true ->
  exists s, run c empty_sess (pre ++ LRefresh report :: tail) = Some s
            /\ sess_inv s /\ forall id, knows (s_ring s) id <-> In id (reported_ids c report).
Proof. exact picture_is_last_report. Qed.
Print Assumptions C16_picture_is_last_report.

(* 5. Processing a batch of events never panics in a consistent session (by 2, every state reached by a
   history within the side conditions), and does not change which nodes are known. *)
Theorem C16_events_no_crash : forall c s evs,
  sess_inv s -> exists s', handle_node_events c s evs = Some s' /\ sess_inv s' /\ same_nodes (s_ring s) (s_ring s').
Proof.
  intros c s evs H. destruct (handle_node_events_ok c s evs H) as [s' [E H']]. exists s'.
  split; [exact E|]. split; [exact H'|]. eapply events_nodes; eauto.
Qed.
Print Assumptions C16_events_no_crash.

(* 6. Batching: however many topology events a batch holds, together they request one refresh (none if
   topology events are disabled); status events add at most one request per distinct address. *)
Theorem C16_batching : forall c s evs s',
  handle_node_events c s evs = Some s' ->
  let t := if existsb is_topo evs && negb (dis_topo c) then 1 else 0 in
  s_refresh s + t <= s_refresh s' <= s_refresh s + t + Z.of_nat (length (status_addrs evs)).
Proof. exact batch_refresh_bound. Qed.
Print Assumptions C16_batching.

(* 7. ... and each address is dispatched once, with the status of its last event in the batch. *)
Theorem C16_batch_last_status : forall evs,
  NoDup (mkeys (status_map evs [])) /\ forall k, mget k (status_map evs []) = last_status evs k.
Proof.
  intros evs. split; [apply status_map_nodup; constructor|].
  intros k. rewrite status_map_get. destruct (last_status evs k); reflexivity.
Qed.
Print Assumptions C16_batch_last_status.

(* 8. A DOWN event for the address of a known, accepted node: the node is marked down, loses its pool,
   the policy is told, and it is not offered. *)
Theorem C16_down_not_offered : forall c s k h,
  sess_inv s -> get_by_ip (s_ring s) k = (Some h, true) -> accept c (set_up h false) = true ->
  exists s', node_down c s k = Some s' /\ marked_down (s_ring s') (h_id h) /\ ~ In (h_id h) (s_pool s')
             /\ offered s' (h_id h) = false /\ In (PDown (h_id h)) (s_log s')
             /\ get_host (s_ring s') (h_id h) = Some (set_up h false).
Proof. exact node_down_effect. Qed.
Print Assumptions C16_down_not_offered.

(* 9. ... and stays marked down (hence not offered) through every later step until it is reported
   connected -- the only other way to an "up" record is a refresh that brings a new record for the id
   because its addresses changed (a replaced node). *)
Theorem C16_down_until_connected : forall c s l s' id,
  sess_inv s -> label_ok c s l -> step c s l = Some s' -> knows (s_ring s) id -> marked_down (s_ring s) id ->
  l <> LConnected id ->
  (marked_down (s_ring s') id /\ offered s' id = false)
  \/ exists report hr, l = LRefresh report /\ In hr (effective c report) /\ h_id hr = id
                       /\ fresh_record (s_ring s) hr /\ get_host (s_ring s') id = Some hr.
Proof.
  intros c s l s' id H1 H2 H3 H4 H5 H6. destruct (step_keeps_down c s l s' id H1 H2 H3 H4 H5 H6) as [H|H]; [left | right; exact H].
  split; [exact H | apply marked_down_not_offered; exact H].
Qed.
Print Assumptions C16_down_until_connected.

(* 10. The refresh's "no host IP change" test is what keeps the address index valid when a known host is
   updated in place: whenever it passes, HostInfo.update does not move the node-to-node address. *)
Theorem C16_update_keeps_address : forall e h,
  ip_eqb (n2n h) (n2n e) = true -> n2n (update e h) = n2n e /\ h_up (update e h) = h_up e.
Proof. intros e h H. split; [apply update_keeps_n2n; exact H | reflexivity]. Qed.
Print Assumptions C16_update_keeps_address.

(* 11. The status part of a batch is dispatched by ranging over a Go map: for every order of that range
   the batch is processed without a panic, keeps the invariants and the set of known nodes, requests at
   most one refresh per distinct address and leaves nodes that are marked down marked down.  (That the
   final state does not depend on the order is checked by the correspondence, not proved.) *)
Theorem C16_events_any_order : forall c s evs m,
  sess_inv s -> Permutation m (status_map evs []) ->
  let s1 := if existsb is_topo evs && negb (dis_topo c) then request_refresh s else s in
  exists s', dispatch c s1 m = Some s' /\ sess_inv s' /\ same_nodes (s_ring s) (s_ring s')
             /\ s_refresh s1 <= s_refresh s' <= s_refresh s1 + Z.of_nat (length (status_addrs evs))
             /\ forall id, marked_down (s_ring s) id -> marked_down (s_ring s') id.
Proof.
  intros c s evs m Hinv Hperm s1.
  assert (Hinv1 : sess_inv s1) by (unfold s1; destruct (existsb is_topo evs && negb (dis_topo c)); [destruct Hinv; constructor; auto | exact Hinv]).
  assert (Hr : s_ring s1 = s_ring s) by (unfold s1; destruct (existsb is_topo evs && negb (dis_topo c)); reflexivity).
  destruct (dispatch_any_order c s1 m Hinv1) as [s' [E [H1 [H2 [H3 H4]]]]]. exists s'.
  rewrite Hr in *. rewrite (Permutation_length Hperm), status_map_length in H3. auto.
Qed.
Print Assumptions C16_events_any_order.

(* 12. The refresh's second loop ranges over the Go map prevHosts: for every order (every list of the
   remaining old hosts without repetition) it removes exactly those hosts from ring and pools, tells the
   policy, and keeps the invariants. *)
Theorem C16_vanished_any_order : forall (l : zmap hostinfo) s,
  ring_inv (s_ring s) -> NoDup (mkeys l) ->
  (forall id e, In (id, e) l -> mget id (hosts (s_ring s)) = Some e) ->
  let s' := remove_all s l in
  ring_inv (s_ring s')
  /\ (forall id, mget id (hosts (s_ring s')) = if zmem id (mkeys l) then None else mget id (hosts (s_ring s)))
  /\ (forall id, In id (s_pool s') <-> In id (s_pool s) /\ ~ In id (mkeys l))
  /\ (forall a, In a (s_log s') <-> In a (s_log s) \/ exists id, In id (mkeys l) /\ a = PRemove id)
  /\ s_refresh s' = s_refresh s.
Proof. exact remove_all_ok. Qed.
Print Assumptions C16_vanished_any_order.

(* 13. What a refresh works on: the local node first, then exactly the peer rows that are valid -- an rpc
   address, a host id, a data centre, a rack and at least one token -- in the order of the rows. *)
Theorem C16_report_is_local_plus_valid_peers : forall local rows report,
  get_hosts local rows = Some report ->
  exists l all, host_from_row local = Some l /\ Forall2 (fun r h => host_from_row r = Some h) rows all
    /\ report = l :: filter is_valid_peer all
    /\ forall h, is_valid_peer h = true <->
         h_rpc h <> None /\ h_id h <> 0 /\ h_dc h <> 0 /\ h_rack h <> 0 /\ exists t ts, h_tokens h = Some (t :: ts).
Proof.
  intros local rows report H. destruct (get_hosts_spec _ _ _ H) as [l [all [H1 [H2 H3]]]].
  exists l, all. split; [exact H1|]. split; [exact H2|]. split; [exact H3|]. intros h. apply is_valid_peer_spec.
Qed.
Print Assumptions C16_report_is_local_plus_valid_peers.

(* 14. A refresh from the rows the control node returned, without any side condition on the rows: either
   some row has no usable address, then the refresh returns an error and nothing changes (no panic), or it
   succeeds with the post-condition of 3 for local :: valid peers. *)
Theorem C16_refresh_rows : forall c s local rows,
  ring_inv (s_ring s) -> (forall id, In id (s_pool s) -> knows (s_ring s) id) ->
  match get_hosts local rows with
  | None => refresh_rows c s local rows = (s, RErrReport)
  | Some report => exists s', refresh_rows c s local rows = (s', ROk) /\ refresh_post c s report s'
  end.
Proof. exact refresh_rows_correct. Qed.
Print Assumptions C16_refresh_rows.

(* 15. The event debouncer's buffer: whatever arrives in one window, handleNodeEvent gets the first
   eventBufferSize frames (generated constant) in order; later frames of the window are dropped. *)
Theorem C16_event_buffer_cap : forall fs,
  window fs = firstn (Z.to_nat K.eventBufferSize) fs /\ Z.of_nat (length (window fs)) <= K.eventBufferSize.
Proof.
  intros fs. pose proof (window_firstn fs) as H1. pose proof (window_length fs) as H2. pose proof cap_eq as H3.
  destruct window_cap_is_constant as [_ Hc]. split; [|lia].
  rewrite H1. f_equal.
Qed.
Print Assumptions C16_event_buffer_cap.

(* 16. Every EVENT frame is handed to the debouncer on its own goroutine, so the frames of one window reach
   the buffer in an arbitrary order p of the order fs in which the node sent them.  For every such order
   (and whatever the buffer drops): the batch is processed without a panic, the same nodes stay known, at
   most 1 + eventBufferSize refresh requests are made, and the status dispatched for an address is one of the
   statuses the node sent for that address. *)
Theorem C16_event_reordering : forall c s fs p,
  sess_inv s -> Permutation p fs ->
  exists s', handle_node_events c s (window p) = Some s' /\ sess_inv s' /\ same_nodes (s_ring s) (s_ring s')
    /\ s_refresh s' <= s_refresh s + 1 + K.eventBufferSize
    /\ forall k ch, last_status (window p) k = Some ch -> In (EStatus ch k) fs.
Proof. exact reordered_window_ok. Qed.
Print Assumptions C16_event_reordering.

(* 17. Two statuses UP, DOWN for the address k of a known, accepted node in one window - both arrival
   orders.  If DOWN reaches the buffer last the batch is exactly handleNodeDown: the node is marked down,
   loses its pool and is not offered (8).  If UP reaches it last the batch is exactly handleNodeUp: a pool
   fill is started and the policy told, the node's record and its up/down mark are left as they were (so a
   node that really is down is only noticed by the pool's failing fill, which is C17's).  In both cases
   the node stays known. *)
Theorem C16_two_statuses_both_orders : forall c s k h,
  sess_inv s -> dis_status c = false -> get_by_ip (s_ring s) k = (Some h, true) ->
  accept c h = true -> accept c (set_up h false) = true ->
  (exists s1, handle_node_events c s [EStatus 1 k; EStatus 2 k] = Some s1
              /\ marked_down (s_ring s1) (h_id h) /\ ~ In (h_id h) (s_pool s1) /\ offered s1 (h_id h) = false)
  /\ handle_node_events c s [EStatus 2 k; EStatus 1 k] = Some (start_pool_fill s h)
  /\ In (h_id h) (s_pool (start_pool_fill s h)) /\ s_ring (start_pool_fill s h) = s_ring s.
Proof.
  intros c s k h Hinv Hd G Ha Ha'. split.
  - rewrite two_statuses, single_down by exact Hd.
    destruct (node_down_effect c s k h Hinv G Ha') as [s1 [E [M [P [O _]]]]]. exists s1. auto.
  - rewrite two_statuses, single_up by exact Hd. split; [apply node_up_effect; assumption|].
    split; [|reflexivity]. simpl. apply In_pool_add. right. reflexivity.
Qed.
Print Assumptions C16_two_statuses_both_orders.

(* 18. Order-independence of a refresh.  Its first loop follows the order of the report; its second loop
   ranges over the Go map prevHosts.  Whatever order that range takes, the refresh ends in the same state:
   the same hosts, the same ordered list, the same address index (an entry whose owner vanished passes to
   the first remaining host of the list with that address - Proofs7.ip_after), the same pools, the same
   refresh counter, and the same calls on the policy up to their order. *)
Theorem C16_refresh_order_independent : forall c s report,
  ring_inv (s_ring s) -> (forall id, In id (s_pool s) -> knows (s_ring s) id) -> report_ok c report ->
  exists s1 prev, refresh_loop c s (hosts (s_ring s)) [] report = (s1, prev, ROk)
    /\ refresh c s report = (remove_all s1 prev, ROk)
    /\ forall order, Permutation prev order -> same_state (remove_all s1 prev) (remove_all s1 order).
Proof. exact refresh_order_independent. Qed.
Print Assumptions C16_refresh_order_independent.

(* 19. The hand-over of a batch: flush starts the callback with the window's frames and begins a new
   buffer; the callback reads later.  For every interleaving of arriving frames, timer expiries and
   callback reads, the batches the callbacks read (followed by those still waiting) are exactly the windows
   that were flushed, in order - nothing that arrives after a flush changes the batch of that flush. *)
Theorem C16_batch_handover : forall ops,
  let '(_, pending, seen) := drun ops ([], [], []) in seen ++ pending = windows_of ops [].
Proof. intros ops. exact (handover_exact ops [] [] []). Qed.
Print Assumptions C16_batch_handover.

Example C16_handover_nonvacuous :
  drun [DFrame (EStatus 2 7); DFlush; DFrame (EStatus 2 8); DRead; DFlush; DRead] ([], [], [])
  = ([], [], [[EStatus 2 7]; [EStatus 2 8]]).
Proof. reflexivity. Qed.

(* 20. The refresh debouncer (request / refresh start / refresh end): in every reachable state the timer is
   armed exactly when some request has not yet been followed by a refresh start - in particular a request
   made while a refresh is in flight re-arms it; an armed timer with the flusher idle can start a refresh and
   a running refresh can end; hence in a quiescent state every request has been followed by a refresh that
   started after it. *)
Theorem C16_refresh_requests_served : forall tr s,
  rd_run rd_init tr = Some s ->
  rd_armed s = rd_unserved tr false
  /\ (rd_armed s = true -> rd_running s = false -> rd_step s RDStart <> None)
  /\ (rd_running s = true -> rd_step s RDEnd <> None)
  /\ (rd_step s RDStart = None -> rd_step s RDEnd = None -> rd_unserved tr false = false).
Proof. exact rd_requests_served. Qed.
Print Assumptions C16_refresh_requests_served.

(* ------------------------------------------------------------------------------------------------
   Non-vacuity: the side conditions hold on non-trivial histories (checked by computation through the
   decidable versions of Proofs6.v), and the conclusions are about non-empty rings. *)
Definition ex_host (id a : Z) : hostinfo :=
  mkHost id (Some a) None None (Some a) None (Some a) 9042 1 1 (Some [id]) true.
Definition ex_local (id a : Z) : hostinfo :=
  mkHost id None (Some a) (Some a) (Some a) None (Some a) 9042 1 1 (Some [id]) true.
Definition ex_cfg : cfg := mkCfg (fun h => negb (h_id h =? 5)) false false.

(* a ring history with adds, hosts sharing an address, an update that moves an address, removals *)
Example C16_nonvacuous_ring :
  let ops := [OAddIfMissing (ex_host 1 1); OAddIfMissing (ex_host 2 1); OAddOrUpdate (ex_local 1 3);
              ORemove 2; OAddIfMissing (ex_host 3 1); ORemove 7; OAddOrUpdate (ex_host 2 2)] in
  mkeys (hosts (ring_run empty_ring ops)) = [1; 3; 2] /\ mkeys (ip2id (ring_run empty_ring ops)) = [3; 1; 2].
Proof. split; vm_compute; reflexivity. Qed.

(* a session history: start-up, a refresh in which node 3 joins on the address node 4 leaves, node 2 changes
   address and is reported twice, node 5 is rejected by the filter, then events (one for an unknown address),
   a failed refresh and a connection notification *)
Example C16_nonvacuous_history :
  let pre := [LControl (ex_local 1 1); LInit [ex_local 1 1; ex_host 2 2; ex_host 4 4]] in
  let report := [ex_local 1 1; ex_host 2 6; ex_host 3 4; ex_host 5 5; ex_host 2 7] in
  let tail := [LEvents [ETopo 0 9; EStatus 2 4; EStatus 1 9; ETopo 0 9; EStatus 1 4; EStatus 2 6]; LRefreshFail;
               LEvents [EStatus 1 6]; LConnected 2] in
  history_ok ex_cfg empty_sess (pre ++ LRefresh report :: tail) /\ forallb quiet tail = true
  /\ reported_ids ex_cfg report = [1; 2; 3; 2] /\ map h_id (effective ex_cfg report) = [1; 2; 3]
  /\ exists s, run ex_cfg empty_sess (pre ++ LRefresh report :: tail) = Some s
               /\ mkeys (hosts (s_ring s)) = [1; 2; 3] /\ s_pool s = [1; 3; 2] /\ s_refresh s = 0
               /\ fst (get_by_ip (s_ring s) 4) = Some (ex_host 3 4)
               /\ offered s 2 = true /\ offered s 3 = true.
Proof.
  split; [apply history_okb_sound; vm_compute; reflexivity|]. split; [reflexivity|]. split; [reflexivity|].
  split; [reflexivity|].
  eexists. split; [vm_compute; reflexivity|]. repeat split; vm_compute; reflexivity.
Qed.

(* the hypotheses of 8 and 9 *)
Example C16_nonvacuous_down :
  exists s, run ex_cfg empty_sess [LInit [ex_host 1 1; ex_host 2 2]] = Some s
    /\ get_by_ip (s_ring s) 2 = (Some (ex_host 2 2), true) /\ accept ex_cfg (set_up (ex_host 2 2) false) = true
    /\ exists s', node_down ex_cfg s 2 = Some s' /\ knows (s_ring s') 2 /\ marked_down (s_ring s') 2
       /\ exists s'', step ex_cfg s' (LEvents [EStatus 1 2]) = Some s'' /\ In 2 (s_pool s'') /\ offered s'' 2 = false.
Proof.
  eexists. split; [vm_compute; reflexivity|]. split; [reflexivity|]. split; [reflexivity|].
  eexists. split; [vm_compute; reflexivity|]. split; [vm_compute; congruence|]. split; [reflexivity|].
  eexists. split; [vm_compute; reflexivity|]. split; [vm_compute; auto | reflexivity].
Qed.
