(* C16/Model.v -- executable model of the driver's picture of the cluster:
     ring.go            ring{hosts, hostIPToUUID, hostList}: addHostIfMissing, addOrUpdate, removeHost,
                        getHost, getHostByIP
     host_source.go     HostInfo address resolution (connectAddressLocked, nodeToNodeAddress,
                        invalidConnectAddr), HostInfo.update, isValidPeer, hostInfoFromMap's last step,
                        GetHosts (local :: valid peers), refreshRing (the diff, lines 719-765)
     events.go          handleNodeEvent (batching), handleNodeUp, handleNodeDown, startPoolFill,
                        handleNodeConnected
     session.go         Session.removeHost; connectionpool.go policyConnPool.addHost/removeHost (membership only)
   Definitions only, no proofs.

   Encodings (the harness uses the same ones when it prints cases):
   * an IP address is [option Z]: None = nil, Some 0 = 0.0.0.0, Some (-1) = "::" (both "unspecified"),
     Some k with k > 0 = any other address (IPv4 as its 32-bit value; 4-in-6 forms are the same address
     for net.IP.Equal and print the same with String()).  A map key made from an address
     (hostIPToUUID is keyed by nodeToNodeAddress().String()) is that integer.
   * strings that are only tested for emptiness and equality (host id, data centre, rack) are integers,
     0 = "".
   * Go maps are association lists (ZMap.v); iteration order of a Go map is unspecified, so everything
     that is compared after a map range is compared up to order (see Corr.v). *)
From GocqlV Require Import Lib.Base C16.ZMap.

(* ---------------------------------------------------------------- addresses *)
Definition ip := option Z.

(* host_source.go validIpAddr: addr != nil && !addr.IsUnspecified() *)
Definition valid_ip (a : ip) : bool := match a with Some k => 0 <? k | None => false end.
(* net.IP.Equal; nil.Equal(nil) = true *)
Definition ip_eqb (a b : ip) : bool := opt_eqb Z.eqb a b.
Definition ipv4zero : ip := Some 0.
(* String() of an address used as a map key *)
Definition ip_key (a : ip) : Z := match a with Some k => k | None => -2 end.

(* ---------------------------------------------------------------- HostInfo *)
Record hostinfo := mkHost {
  h_id : Z;               (* hostId, 0 = "" *)
  h_peer : ip;
  h_bcast : ip;           (* broadcastAddress *)
  h_listen : ip;
  h_rpc : ip;
  h_pref : ip;            (* preferredIP *)
  h_conn : ip;            (* connectAddress *)
  h_port : Z;
  h_dc : Z;
  h_rack : Z;
  h_tokens : option (list Z);   (* None = nil slice *)
  h_up : bool             (* state == NodeUp *)
}.

(* connectAddressLocked *)
Definition connect_addr (h : hostinfo) : ip :=
  if valid_ip (h_conn h) then h_conn h
  else if valid_ip (h_rpc h) then h_rpc h
  else if valid_ip (h_pref h) then h_pref h
  else if valid_ip (h_bcast h) then h_bcast h
  else if valid_ip (h_peer h) then h_peer h
  else ipv4zero.

Definition invalid_connect_addr (h : hostinfo) : bool := negb (valid_ip (connect_addr h)).

(* nodeToNodeAddress *)
Definition n2n (h : hostinfo) : ip :=
  if valid_ip (h_bcast h) then h_bcast h
  else if valid_ip (h_peer h) then h_peer h
  else ipv4zero.
Definition n2n_key (h : hostinfo) : Z := ip_key (n2n h).

Definition or_ip (a b : ip) : ip := match a with None => b | Some _ => a end.
Definition or_z (a b : Z) : Z := if a =? 0 then b else a.
Definition or_tok (a b : option (list Z)) := match a with None => b | Some _ => a end.

(* HostInfo.update: fill in what is nil / zero / "" from [from]; state is not touched.
   (h == from returns early: update h h = h holds for this definition.) *)
Definition update (h from : hostinfo) : hostinfo :=
  mkHost (or_z (h_id h) (h_id from))
         (or_ip (h_peer h) (h_peer from)) (or_ip (h_bcast h) (h_bcast from)) (or_ip (h_listen h) (h_listen from))
         (or_ip (h_rpc h) (h_rpc from)) (or_ip (h_pref h) (h_pref from)) (or_ip (h_conn h) (h_conn from))
         (or_z (h_port h) (h_port from)) (or_z (h_dc h) (h_dc from)) (or_z (h_rack h) (h_rack from))
         (or_tok (h_tokens h) (h_tokens from)) (h_up h).

Definition set_up (h : hostinfo) (b : bool) : hostinfo :=
  mkHost (h_id h) (h_peer h) (h_bcast h) (h_listen h) (h_rpc h) (h_pref h) (h_conn h) (h_port h) (h_dc h) (h_rack h)
         (h_tokens h) b.
Definition set_conn (h : hostinfo) (a : ip) : hostinfo :=
  mkHost (h_id h) (h_peer h) (h_bcast h) (h_listen h) (h_rpc h) (h_pref h) a (h_port h) (h_dc h) (h_rack h)
         (h_tokens h) (h_up h).

(* isValidPeer *)
Definition is_valid_peer (h : hostinfo) : bool :=
  negb (match h_rpc h with None => true | Some _ => false end
        || (h_id h =? 0) || (h_dc h =? 0) || (h_rack h =? 0)
        || match h_tokens h with None => true | Some [] => true | Some _ => false end).

(* the tail of hostInfoFromMap: an error (None) when no address of the row is valid, otherwise
   host.connectAddress = translate(host.ConnectAddress()) with the identity translator *)
Definition host_from_row (row : hostinfo) : option hostinfo :=
  if invalid_connect_addr row then None else Some (set_conn row (connect_addr row)).

(* GetHosts: local host first, then the peers that are valid; None = hostInfoFromMap returned an error for a row *)
Fixpoint peers_from_rows (rows : list hostinfo) : option (list hostinfo) :=
  match rows with
  | [] => Some []
  | r :: rows' =>
      match host_from_row r with
      | None => None
      | Some h =>
          match peers_from_rows rows' with
          | None => None
          | Some hs => Some (if is_valid_peer h then h :: hs else hs)
          end
      end
  end.

Definition get_hosts (local : hostinfo) (rows : list hostinfo) : option (list hostinfo) :=
  match host_from_row local with
  | None => None
  | Some l => match peers_from_rows rows with None => None | Some hs => Some (l :: hs) end
  end.

(* ---------------------------------------------------------------- ring *)
Record ring := mkRing {
  hosts : zmap hostinfo;    (* map[host_id]*HostInfo *)
  ip2id : zmap Z;           (* hostIPToUUID: node-to-node address -> host_id *)
  hlist : list Z            (* hostList, as the ids of its entries, in order *)
}.
Definition empty_ring : ring := mkRing [] [] [].

(* remove the first occurrence *)
Fixpoint remove_first (x : Z) (l : list Z) : list Z :=
  match l with
  | [] => []
  | y :: l' => if y =? x then l' else y :: remove_first x l'
  end.

(* addHostIfMissing: None = panic (invalid connect address); Some (ring', existing-or-new, existed) *)
Definition add_if_missing (r : ring) (h : hostinfo) : option (ring * hostinfo * bool) :=
  if invalid_connect_addr h then None
  else match mget (h_id h) (hosts r) with
       | Some e => Some (r, e, true)
       | None => Some (mkRing (mset (h_id h) h (hosts r)) (mset (n2n_key h) (h_id h) (ip2id r)) (hlist r ++ [h_id h]),
                       h, false)
       end.

(* unindexAddrLocked(addr, hostID): drop the entry of the address if it belongs to hostID; the first other
   host of hostList that has the address takes it over.  [hs] and [hl] are hosts and hostList at the time of
   the call (hostList entries are looked at through their ids). *)
Definition shares (hs : zmap hostinfo) (k id id' : Z) : bool :=
  negb (id' =? id) && match mget id' hs with Some x => n2n_key x =? k | None => false end.

Definition unindex (hs : zmap hostinfo) (hl : list Z) (m : zmap Z) (k id : Z) : zmap Z :=
  if (match mget k m with Some x => x | None => 0 end) =? id then
    match find (shares hs k id) hl with
    | Some id' => mset k id' (mdel k m)
    | None => mdel k m
    end
  else m.

(* addOrUpdate: the existing object (found under h's id) is updated in place; if that moved its
   node-to-node address the address index follows *)
Definition add_or_update (r : ring) (h : hostinfo) : option (ring * hostinfo) :=
  match add_if_missing r h with
  | None => None
  | Some (r', e, true) =>
      let e' := update e h in
      let hs' := mset (h_id h) e' (hosts r') in
      let ips := if negb (n2n_key e' =? n2n_key e) && (h_id e' =? h_id h)
                 then mset (n2n_key e') (h_id e') (unindex hs' (hlist r') (ip2id r') (n2n_key e) (h_id e'))
                 else ip2id r' in
      Some (mkRing hs' ips (hlist r'), e')
  | Some (r', e, false) => Some (r', e)
  end.

(* removeHost *)
Definition remove_host_ring (r : ring) (id : Z) : ring * bool :=
  match mget id (hosts r) with
  | Some h =>
      let hl := remove_first id (hlist r) in
      (mkRing (mdel id (hosts r)) (unindex (hosts r) hl (ip2id r) (n2n_key h) id) hl, true)
  | None => (r, false)    (* delete(r.hosts, hostID) of an absent key *)
  end.

Definition get_host (r : ring) (id : Z) : option hostinfo := mget id (hosts r).

(* getHostByIP: hi, ok := hostIPToUUID[ip]; return hosts[hi], ok   (hi = "" when !ok) *)
Definition get_by_ip (r : ring) (key : Z) : option hostinfo * bool :=
  match mget key (ip2id r) with
  | Some id => (mget id (hosts r), true)
  | None => (mget 0 (hosts r), false)
  end.

(* ---------------------------------------------------------------- ring operation histories *)
Inductive rop :=
| OAddIfMissing (h : hostinfo)
| OAddOrUpdate (h : hostinfo)
| ORemove (id : Z).

(* what an operation returns: panicked | (returned host, bool) *)
Inductive rret :=
| RPanicked
| RHost (h : hostinfo) (b : bool)
| RBool (b : bool).

Definition ring_step (r : ring) (o : rop) : ring * rret :=
  match o with
  | OAddIfMissing h => match add_if_missing r h with None => (r, RPanicked) | Some (r', e, b) => (r', RHost e b) end
  | OAddOrUpdate h => match add_or_update r h with None => (r, RPanicked) | Some (r', e) => (r', RHost e true) end
  | ORemove id => let '(r', b) := remove_host_ring r id in (r', RBool b)
  end.

Definition ring_run (r : ring) (ops : list rop) : ring := fold_left (fun r o => fst (ring_step r o)) ops r.

(* ---------------------------------------------------------------- session: ring + pool + policy calls *)
Inductive paction :=
| PAdd (id : Z)        (* policy.AddHost *)
| PRemove (id : Z)     (* policy.RemoveHost *)
| PUp (id : Z)         (* policy.HostUp *)
| PDown (id : Z).      (* policy.HostDown *)

Record sess := mkSess {
  s_ring : ring;
  s_pool : list Z;          (* ids that have a connection pool (policyConnPool.hostConnPools keys) *)
  s_log : list paction;     (* calls made on the host selection policy, oldest first *)
  s_refresh : Z             (* calls of debounceRingRefresh since the last refresh ran (timer armed iff > 0) *)
}.
Definition empty_sess : sess := mkSess empty_ring [] [] 0.
(* debounceRingRefresh *)
Definition request_refresh (s : sess) : sess := mkSess (s_ring s) (s_pool s) (s_log s) (s_refresh s + 1).
(* a refresh runs: the flusher stops the timer *)
Definition refresh_started (s : sess) : sess := mkSess (s_ring s) (s_pool s) (s_log s) 0.

Record cfg := mkCfg {
  accept : hostinfo -> bool;     (* HostFilter.Accept; filterHost = negb accept *)
  dis_topo : bool;               (* Events.DisableTopologyEvents *)
  dis_status : bool              (* Events.DisableNodeStatusEvents *)
}.

Definition zmem (x : Z) (l : list Z) : bool := existsb (Z.eqb x) l.
Definition pool_add (p : list Z) (id : Z) : list Z := if zmem id p then p else p ++ [id].
Definition pool_del (p : list Z) (id : Z) : list Z := filter (fun y => negb (y =? id)) p.

Definition with_ring (s : sess) (r : ring) : sess := mkSess r (s_pool s) (s_log s) (s_refresh s).
Definition logp (s : sess) (a : paction) : sess := mkSess (s_ring s) (s_pool s) (s_log s ++ [a]) (s_refresh s).

(* startPoolFill: pool.addHost(host); policy.AddHost(host) *)
Definition start_pool_fill (s : sess) (h : hostinfo) : sess :=
  mkSess (s_ring s) (pool_add (s_pool s) (h_id h)) (s_log s ++ [PAdd (h_id h)]) (s_refresh s).

(* Session.removeHost: policy.RemoveHost(h); pool.removeHost(id); ring.removeHost(id) *)
Definition remove_host (s : sess) (h : hostinfo) : sess :=
  mkSess (fst (remove_host_ring (s_ring s) (h_id h))) (pool_del (s_pool s) (h_id h)) (s_log s ++ [PRemove (h_id h)])
         (s_refresh s).

(* outcome of a refresh *)
Inductive rres := ROk | RErrCannotFind | RErrExists | RErrReport | RPanic.

(* refreshRing's first loop.  [prev] is prevHosts = ring.currentHosts() taken before the loop: same
   pointers as the ring's, so the "existing" object of an id still in prev is the ring's current one.
   [seen] are the host ids already handled in this refresh: a second report of an id is skipped. *)
Fixpoint refresh_loop (c : cfg) (s : sess) (prev : zmap hostinfo) (seen : list Z) (hs : list hostinfo)
  : sess * zmap hostinfo * rres :=
  match hs with
  | [] => (s, prev, ROk)
  | h :: tl =>
      if negb (accept c h) then refresh_loop c s prev seen tl
      else if zmem (h_id h) seen then refresh_loop c s prev seen tl
      else
        let seen' := h_id h :: seen in
        match add_if_missing (s_ring s) h with
        | None => (s, prev, RPanic)
        | Some (r', _, false) =>
            refresh_loop c (start_pool_fill (with_ring s r') h) (mdel (h_id h) prev) seen' tl
        | Some (_, host, true) =>
            match mget (h_id h) prev with
            | None => (s, prev, RErrCannotFind)
            | Some _ =>
                let existing := host in
                if ip_eqb (h_conn h) (h_conn existing) && ip_eqb (n2n h) (n2n existing) then
                  (* no host IP change: host.update(h) *)
                  let r1 := mkRing (mset (h_id h) (update host h) (hosts (s_ring s))) (ip2id (s_ring s)) (hlist (s_ring s)) in
                  refresh_loop c (with_ring s r1) (mdel (h_id h) prev) seen' tl
                else
                  let s1 := remove_host s existing in
                  match add_if_missing (s_ring s1) h with
                  | None => (s1, prev, RPanic)
                  | Some (_, _, true) => (s1, prev, RErrExists)
                  | Some (r2, _, false) =>
                      refresh_loop c (start_pool_fill (with_ring s1 r2) h) (mdel (h_id h) prev) seen' tl
                  end
            end
        end
  end.

(* second loop: every host still in prev is removed (Go map order: any order) *)
Definition remove_all (s : sess) (prev : zmap hostinfo) : sess :=
  fold_left (fun s kv => remove_host s (snd kv)) prev s.

Definition refresh (c : cfg) (s : sess) (report : list hostinfo) : sess * rres :=
  let '(s1, prev, res) := refresh_loop c s (hosts (s_ring s)) [] report in
  match res with
  | ROk => (remove_all s1 prev, ROk)
  | _ => (s1, res)
  end.

(* refresh from what the control node returned for system.local and system.peers *)
Definition refresh_rows (c : cfg) (s : sess) (local : hostinfo) (rows : list hostinfo) : sess * rres :=
  match get_hosts local rows with
  | None => (s, RErrReport)      (* GetHosts failed: refreshRing returns the error, nothing changes *)
  | Some report => refresh c s report
  end.

(* ---------------------------------------------------------------- node events *)
(* handleNodeUp: None = nil dereference (getHostByIP returned (nil, true)) *)
Definition node_up (c : cfg) (s : sess) (key : Z) : option sess :=
  match get_by_ip (s_ring s) key with
  | (_, false) => Some (request_refresh s)
  | (None, true) => None
  | (Some h, true) => if negb (accept c h) then Some s else Some (start_pool_fill s h)
  end.

(* handleNodeDown *)
Definition node_down (c : cfg) (s : sess) (key : Z) : option sess :=
  match get_by_ip (s_ring s) key with
  | (_, false) => Some s
  | (None, true) => None
  | (Some h, true) =>
      let h' := set_up h false in
      let r := s_ring s in
      let s1 := with_ring s (mkRing (mset (h_id h) h' (hosts r)) (ip2id r) (hlist r)) in
      if negb (accept c h') then Some s1
      else Some (mkSess (s_ring s1) (pool_del (s_pool s1) (h_id h')) (s_log s1 ++ [PDown (h_id h')]) (s_refresh s1))
  end.

(* handleNodeConnected for the ring's host with this id (the pool's host object) *)
Definition node_connected (c : cfg) (s : sess) (id : Z) : sess :=
  match mget id (hosts (s_ring s)) with
  | None => s
  | Some h =>
      let h' := set_up h true in
      let r := s_ring s in
      let s1 := with_ring s (mkRing (mset id h' (hosts r)) (ip2id r) (hlist r)) in
      if accept c h' then logp s1 (PUp id) else s1
  end.

(* one event of a batch: change 1 = "UP", 2 = "DOWN", anything else = another string *)
Inductive nevent :=
| ETopo (change : Z) (key : Z)
| EStatus (change : Z) (key : Z).

Definition is_topo (e : nevent) : bool := match e with ETopo _ _ => true | _ => false end.

(* sEvents: per address, the change of the last status frame for it *)
Fixpoint status_map (evs : list nevent) (m : zmap Z) : zmap Z :=
  match evs with
  | [] => m
  | ETopo _ _ :: tl => status_map tl m
  | EStatus ch key :: tl => status_map tl (mset key ch m)
  end.

Fixpoint dispatch (c : cfg) (s : sess) (m : zmap Z) : option sess :=
  match m with
  | [] => Some s
  | (key, ch) :: tl =>
      let r := if ch =? 1 then (if dis_status c then Some s else node_up c s key)
               else if ch =? 2 then (if dis_status c then Some s else node_down c s key)
               else Some s in
      match r with None => None | Some s' => dispatch c s' tl end
  end.

(* handleNodeEvent on the frames of one debounce window; None = panic *)
Definition handle_node_events (c : cfg) (s : sess) (evs : list nevent) : option sess :=
  let topo := existsb is_topo evs in
  let s1 := if topo && negb (dis_topo c) then request_refresh s else s in
  dispatch c s1 (status_map evs []).

(* ---------------------------------------------------------------- session histories *)
Inductive label :=
| LInit (hs : list hostinfo)                 (* Session.init: addOrUpdate + pool/policy add for accepted hosts *)
| LControl (h : hostinfo)                    (* controlConn.setupConn: ring.addOrUpdate(local host) *)
| LRefresh (report : list hostinfo)          (* refreshRing with what GetHosts returned *)
| LRefreshFail                               (* GetHosts failed: nothing changes *)
| LEvents (evs : list nevent)                (* one batch of node events *)
| LConnected (id : Z).                       (* a pool's first connection to the host succeeded *)

Fixpoint init_hosts (c : cfg) (s : sess) (hs : list hostinfo) : option sess :=
  match hs with
  | [] => Some s
  | h :: tl =>
      match add_or_update (s_ring s) h with
      | None => None
      | Some (r', e) =>
          let s1 := with_ring s r' in
          init_hosts c (if accept c e then start_pool_fill s1 e else s1) tl
      end
  end.

(* one step of a session history; None = a panic on a driver goroutine *)
Definition step (c : cfg) (s : sess) (l : label) : option sess :=
  match l with
  | LInit hs => init_hosts c s hs
  | LControl h => match add_or_update (s_ring s) h with None => None | Some (r', _) => Some (with_ring s r') end
  | LRefresh report =>
      match refresh c (refresh_started s) report with (_, RPanic) => None | (s', _) => Some s' end
  | LRefreshFail => Some (refresh_started s)
  | LEvents evs => handle_node_events c s evs
  | LConnected id => Some (node_connected c s id)
  end.

Fixpoint run (c : cfg) (s : sess) (ls : list label) : option sess :=
  match ls with
  | [] => Some s
  | l :: tl => match step c s l with None => None | Some s' => run c s' tl end
  end.

(* ---------------------------------------------------------------- the refresh debouncer (host_source.go) *)
(* refreshDebouncer as a small transition system.  debounce() re-arms the timer (also while a refresh is
   running: the flusher holds no lock during refreshFn); the flusher takes the expired timer only when
   it is not inside refreshFn, disarms it and calls refreshFn; refreshFn returns. *)
Inductive rdlabel := RDRequest | RDStart | RDEnd.
Record rdstate := mkRD { rd_armed : bool; rd_running : bool }.
Definition rd_init : rdstate := mkRD false false.

Definition rd_step (s : rdstate) (l : rdlabel) : option rdstate :=
  match l with
  | RDRequest => Some (mkRD true (rd_running s))
  | RDStart => if rd_armed s && negb (rd_running s) then Some (mkRD false true) else None
  | RDEnd => if rd_running s then Some (mkRD (rd_armed s) false) else None
  end.

Fixpoint rd_run (s : rdstate) (tr : list rdlabel) : option rdstate :=
  match tr with
  | [] => Some s
  | l :: tl => match rd_step s l with Some s' => rd_run s' tl | None => None end
  end.
