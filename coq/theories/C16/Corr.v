(* C16/Corr.v -- correspondence cases.  Each case carries inputs and what the real implementation
   (package gocql through verif_shim_c16.go: the real ring, the real refreshRing / handleNodeEvent /
   handleNodeUp / handleNodeDown / removeHost running inside a real Session whose control connection
   talks to the harness's in-memory node) returned or looked like afterwards; [check] runs the model on
   the same inputs, in lock step, and compares. *)
From GocqlV Require Import Lib.Base C16.ZMap C16.Model.

Definition tok_eqb (a b : option (list Z)) : bool := opt_eqb zlist_eqb a b.

Definition host_eqb (a b : hostinfo) : bool :=
  (h_id a =? h_id b) && ip_eqb (h_peer a) (h_peer b) && ip_eqb (h_bcast a) (h_bcast b) && ip_eqb (h_listen a) (h_listen b)
  && ip_eqb (h_rpc a) (h_rpc b) && ip_eqb (h_pref a) (h_pref b) && ip_eqb (h_conn a) (h_conn b)
  && (h_port a =? h_port b) && (h_dc a =? h_dc b) && (h_rack a =? h_rack b) && tok_eqb (h_tokens a) (h_tokens b)
  && Bool.eqb (h_up a) (h_up b).

(* a Go map printed by the harness (sorted by key, keys distinct) against a model map *)
Fixpoint strictly_sorted (l : list Z) : bool :=
  match l with
  | x :: ((y :: _) as tl) => (x <? y) && strictly_sorted tl
  | _ => true
  end.

Definition map_agrees {V} (veqb : V -> V -> bool) (impl : list (Z * V)) (m : zmap V) : bool :=
  strictly_sorted (map fst impl) && (length impl =? length m)%nat
  && forallb (fun kv => opt_eqb veqb (mget (fst kv) m) (Some (snd kv))) impl.

(* sets of ids: the implementation's is sorted *)
Definition set_agrees (impl : list Z) (m : list Z) : bool :=
  strictly_sorted impl && (length impl =? length m)%nat && forallb (fun x => zmem x m) impl.

(* the ordered list holds exactly the ids that are keys of the map (same length, each a key) *)
Definition set_agrees_keys {V} (l : list Z) (m : zmap V) : bool :=
  (length l =? length m)%nat && forallb (fun x => mmem x m) l.

(* compact constructors for the printed cases (no implicit arguments to infer) *)
Definition A (k : Z) : ip := Some k.
Definition NA : ip := None.
Definition TK (l : list Z) : option (list Z) := Some l.
Definition NT : option (list Z) := None.
Definition KV (k v : Z) : Z * Z := (k, v).
Definition KH (k : Z) (h : hostinfo) : Z * hostinfo := (k, h).
Definition DUMP (hs : list (Z * hostinfo)) (ips : list (Z * Z)) (l : list Z) := (hs, ips, l).

(* hosts by id, id by address, ordered list (ids) *)
Definition dump := (list (Z * hostinfo) * list (Z * Z) * list Z)%type.

Definition dump_agrees (d : dump) (r : ring) : bool :=
  let '(hs, ips, l) := d in
  map_agrees host_eqb hs (hosts r) && map_agrees Z.eqb ips (ip2id r) && zlist_eqb l (hlist r).

(* same, but the order of the list is only required to be a permutation (after Session.init, which
   ranges over a Go map) *)
Definition perm_eqb (a b : list Z) : bool :=
  (length a =? length b)%nat && forallb (fun x => (count_occ Z.eq_dec a x =? count_occ Z.eq_dec b x)%nat) a.

Definition dump_agrees_perm (d : dump) (r : ring) : bool :=
  let '(hs, ips, l) := d in
  map_agrees host_eqb hs (hosts r) && map_agrees Z.eqb ips (ip2id r) && perm_eqb l (hlist r).

Definition rret_eqb (a b : rret) : bool :=
  match a, b with
  | RPanicked, RPanicked => true
  | RHost h b1, RHost h' b2 => host_eqb h h' && Bool.eqb b1 b2
  | RBool b1, RBool b2 => Bool.eqb b1 b2
  | _, _ => false
  end.

Definition byip_eqb (a b : option hostinfo * bool) : bool :=
  opt_eqb host_eqb (fst a) (fst b) && Bool.eqb (snd a) (snd b).

(* one step of a ring history: the operation, what it returned (for add/update: the touched host in
   full), the address index and the ordered list afterwards, which of the probed ids getHost finds, and
   what getHostByIP answers for the probed addresses (id of the returned host, -9 for nil) *)
Inductive ipprobe := IPP (key : Z) (id : Z) (ok : bool).
Inductive ringstep := RStep (o : rop) (ret : rret) (ips : list (Z * Z)) (l : list Z) (idp : list Z) (found : list bool)
                            (ipp : list ipprobe).

Definition opt_id (h : option hostinfo) : Z := match h with Some x => h_id x | None => -9 end.
Definition bools_eqb (a b : list bool) : bool :=
  (length a =? length b)%nat && forallb (fun p => Bool.eqb (fst p) (snd p)) (combine a b).

(* the final ring of the history is compared in full *)
Fixpoint check_ring (r : ring) (steps : list ringstep) (final : dump) : bool :=
  match steps with
  | [] => dump_agrees final r
  | RStep o ret ips l idp found ipp :: tl =>
      let '(r', ret') := ring_step r o in
      rret_eqb ret ret' && map_agrees Z.eqb ips (ip2id r') && zlist_eqb l (hlist r')
      && set_agrees_keys l (hosts r')
      && bools_eqb found (map (fun id => mmem id (hosts r')) idp)
      && forallb (fun p => match p with IPP key id ok =>
                    let g := get_by_ip r' key in (opt_id (fst g) =? id) && Bool.eqb (snd g) ok end) ipp
      && check_ring r' tl final
  end.

(* ------------------------------------------------------------ session histories *)
(* host filter used by the harness: deny these ids and these data centres *)
Record cfgspec := mkCfgSpec { deny_ids : list Z; deny_dcs : list Z; cs_dis_topo : bool; cs_dis_status : bool }.
Definition cfg_of (c : cfgspec) : cfg :=
  mkCfg (fun h => negb (zmem (h_id h) (deny_ids c) || zmem (h_dc h) (deny_dcs c))) (cs_dis_topo c) (cs_dis_status c).

Inductive sstep :=
| SNew (contact : ip) (local : hostinfo) (rows : list hostinfo)   (* NewSession against a node answering with these rows *)
| SRefresh (local : hostinfo) (rows : list hostinfo)              (* refreshRing; the node answers with these rows *)
| SRefreshFail                                                    (* the node answers system.local with an error *)
| SEvents (evs : list nevent)                                     (* handleNodeEvent on one batch *)
| SConnected (id : Z)                                             (* handleNodeConnected for the ring's host id *)
| SRemove (id : Z)                                                (* Session.removeHost of the ring's host id *)
| SControl (contact : ip) (local : hostinfo) (rows : list hostinfo). (* controlConn.reconnect: setupConn on the host dialled at [contact], then a refresh *)

(* observation after a step: result code, "a debounced refresh is armed", ring, pool ids, policy calls *)
Inductive sobs := OBS (code : Z) (pending : bool) (d : dump) (pool : list Z) (log : list paction).
Inductive sstepobs := SO (st : sstep) (o : sobs).

Definition pcode (a : paction) : Z :=
  match a with
  | PAdd id => 4 * (id + 1000) | PRemove id => 4 * (id + 1000) + 1
  | PUp id => 4 * (id + 1000) + 2 | PDown id => 4 * (id + 1000) + 3
  end.

Fixpoint insert_sorted (x : Z) (l : list Z) : list Z :=
  match l with
  | [] => [x]
  | y :: tl => if x <=? y then x :: l else y :: insert_sorted x tl
  end.
Definition sortz (l : list Z) : list Z := fold_right insert_sorted [] l.

Definition is_premove (a : paction) : bool := match a with PRemove _ => true | _ => false end.

(* longest suffix of removals, sorted; the part before it in order *)
Fixpoint split_tail (l : list paction) : list paction * list paction :=
  match l with
  | [] => ([], [])
  | a :: tl =>
      let '(pre, suf) := split_tail tl in
      match pre with
      | [] => if is_premove a then ([], a :: suf) else ([a], suf)
      | _ => (a :: pre, suf)
      end
  end.

Definition canon_refresh_log (l : list paction) : list Z :=
  let '(pre, suf) := split_tail l in map pcode pre ++ sortz (map pcode suf).
Definition canon_set_log (l : list paction) : list Z := sortz (map pcode l).

Definition rres_code (r : rres) : Z :=
  match r with ROk => 0 | RErrCannotFind => 1 | RErrExists => 2 | RPanic => 3 | RErrReport => 4 end.

Definition clear_log (s : sess) : sess := mkSess (s_ring s) (s_pool s) [] (s_refresh s).
Definition clear_refresh (s : sess) : sess := refresh_started s.

(* Session.init keeps one host per id (hostMap[id] = host: the last one wins) *)
Definition dedupe (hs : list hostinfo) : list hostinfo :=
  map snd (fold_left (fun m h => mset (h_id h) h m) hs []).

Definition model_new (c : cfg) (contact : ip) (local : hostinfo) (rows : list hostinfo) : option sess :=
  match host_from_row (set_conn local contact) with
  | None => None
  | Some ctl =>
      match step c empty_sess (LControl ctl) with
      | None => None
      | Some s1 =>
          match get_hosts local rows with
          | None => None
          | Some report => step c s1 (LInit (dedupe (filter (accept c) report)))
          end
      end
  end.

(* returns the model state after the step (None: the model panicked) and the model's result code *)
Definition model_sstep (c : cfg) (s : sess) (st : sstep) : option sess * Z :=
  match st with
  | SNew contact local rows => (model_new c contact local rows, 0)
  | SRefresh local rows =>
      let '(s', res) := refresh_rows c (clear_refresh s) local rows in
      (match res with RPanic => None | _ => Some s' end, rres_code res)
  | SRefreshFail => (Some s, 4)
  | SEvents evs => (handle_node_events c s evs, 0)
  | SConnected id => (Some (node_connected c s id), 0)
  | SRemove id => (match mget id (hosts (s_ring s)) with Some h => Some (remove_host s h) | None => Some s end, 0)
  | SControl contact local rows =>
      match host_from_row (set_conn local contact) with
      | None => (None, 0)
      | Some ctl =>
          match add_or_update (s_ring s) ctl with
          | None => (None, 0)
          | Some (r', e) =>
              (* setupConn: go startPoolFill(host); reconnect: refreshRing (an error is only logged) *)
              let s1 := start_pool_fill (with_ring s r') e in
              let '(s', res) := refresh_rows c (clear_refresh s1) local rows in
              (match res with RPanic => None | _ => Some s' end, 0)
          end
      end
  end.

Definition log_agrees (st : sstep) (impl model : list paction) : bool :=
  match st with
  | SRefresh _ _ => zlist_eqb (canon_refresh_log impl) (canon_refresh_log model)
  | _ => zlist_eqb (canon_set_log impl) (canon_set_log model)
  end.

Definition adopt_order (s : sess) (l : list Z) : sess :=
  mkSess (mkRing (hosts (s_ring s)) (ip2id (s_ring s)) l) (s_pool s) (s_log s) (s_refresh s).

Fixpoint check_sess (c : cfg) (s : sess) (steps : list sstepobs) : bool :=
  match steps with
  | [] => true
  | SO st (OBS code pending d pool log) :: tl =>
      match model_sstep c (clear_log s) st with
      | (None, mcode) =>
          (* the model panics: the implementation must have panicked too (code 3); a panic ends the history *)
          (code =? 3) && match tl with [] => true | _ => false end
      | (Some s', mcode) =>
          (code =? mcode)
          && Bool.eqb pending (0 <? s_refresh s')
          && set_agrees pool (s_pool s')
          && log_agrees st log (s_log s')
          && match st with
             | SNew _ _ _ => dump_agrees_perm d (s_ring s') && check_sess c (adopt_order (clear_refresh s') (snd d)) tl
             | _ => dump_agrees d (s_ring s') && check_sess c (clear_refresh s') tl
             end
      end
  end.

(* eventBufferSize; Debounce.window_cap_is_constant ties it to the generated constant K.eventBufferSize
   (kept out of this file so that the case shards do not depend on Gen/Consts.vo) *)
Definition window_cap : nat := 1000.

(* ------------------------------------------------------------ real-time cluster scenarios *)
(* one step of a scenario against the scripted nodes of harness/node (real debouncers, real pools): the
   model steps it amounts to, and what was observed once the session had settled: known ids with their
   node-to-node address, ids with a filled pool, ids offered (Pick yields them and they have connections) *)
Inductive cstep := CStep (sts : list sstep) (known : list (Z * Z)) (pool : list Z) (off : list Z).

Fixpoint model_ssteps (c : cfg) (s : sess) (sts : list sstep) : option sess :=
  match sts with
  | [] => Some s
  | st :: tl => match fst (model_sstep c s st) with Some s' => model_ssteps c s' tl | None => None end
  end.

Definition offered_m (s : sess) (id : Z) : bool :=
  zmem id (s_pool s) && match mget id (hosts (s_ring s)) with Some h => h_up h | None => false end.

Fixpoint check_cluster (c : cfg) (s : sess) (steps : list cstep) : bool :=
  match steps with
  | [] => true
  | CStep sts known pool off :: tl =>
      match model_ssteps c s sts with
      | None => false
      | Some s' =>
          strictly_sorted (map fst known) && (length known =? length (hosts (s_ring s')))%nat
          && forallb (fun p => match mget (fst p) (hosts (s_ring s')) with Some h => n2n_key h =? snd p | None => false end) known
          && set_agrees pool (s_pool s')
          && strictly_sorted off
          && forallb (fun p => Bool.eqb (offered_m s' (fst p)) (zmem (fst p) off)) known
          && forallb (fun id => zmem id (map fst known)) off
          && check_cluster c s' tl
      end
  end.

(* ------------------------------------------------------------ cases *)
Inductive case :=
| CHostFns (h from : hostinfo) (upd : hostinfo) (n2nk : Z) (invalid validpeer : bool) (fromrow : option hostinfo)
| CRing (steps : list ringstep) (final : dump)
| CSess (c : cfgspec) (steps : list sstepobs)
| CWindow (n : nat) (delivered : list Z)
| CCluster (c : cfgspec) (steps : list cstep)
| CHandover (first second : nat) (batch1 batch2 : list Z)
| CRefreshTrace (tr : list rdlabel).   (* requests, refresh starts and ends of a real refreshDebouncer, observed until quiescence *)  (* a window is flushed, `second` frames arrive before its callback reads: what the two callbacks saw *)   (* n frames numbered 0..n-1 into one debounce window: the numbers flush delivers *)

Definition check (c : case) : bool :=
  match c with
  | CHostFns h from upd n2nk invalid validpeer fromrow =>
      host_eqb (update h from) upd && (n2n_key h =? n2nk) && Bool.eqb (invalid_connect_addr h) invalid
      && Bool.eqb (is_valid_peer h) validpeer && opt_eqb host_eqb (host_from_row h) fromrow
  | CRing steps final => check_ring empty_ring steps final
  | CSess cs steps => check_sess (cfg_of cs) empty_sess steps
  | CWindow n delivered => zlist_eqb delivered (firstn window_cap (map Z.of_nat (seq 0 n)))
  | CCluster cs steps => check_cluster (cfg_of cs) empty_sess steps
  | CRefreshTrace tr =>
      (* the trace is one the debouncer can make, and nothing is left to do: no armed timer with the flusher idle *)
      match rd_run rd_init tr with
      | Some s => negb (rd_armed s && negb (rd_running s)) && negb (rd_running s)
      | None => false
      end
  | CHandover first second b1 b2 =>
      zlist_eqb b1 (firstn window_cap (map Z.of_nat (seq 0 first)))
      && zlist_eqb b2 (firstn window_cap (map (fun i => 1000000 + Z.of_nat i) (seq 0 second)))
  end.

Definition run (cs : list case) : list N := mismatches check cs.
