(* C16/Proofs6.v -- decidable version of the side condition of the history theorems (every host handed to
   the ring has a usable connect address), used to show by computation that it holds on concrete histories. *)
From GocqlV Require Import Lib.Base C16.ZMap C16.Model C16.Spec C16.Proofs1 C16.Proofs2 C16.Proofs3 C16.Proofs4.

Definition validb (hs : list hostinfo) : bool := forallb (fun h => negb (invalid_connect_addr h)) hs.

Lemma validb_sound hs : validb hs = true -> hosts_valid hs.
Proof.
  unfold validb, hosts_valid. rewrite forallb_forall. intros H h Hh. specialize (H _ Hh).
  destruct (invalid_connect_addr h); [discriminate | reflexivity].
Qed.

Definition label_okb (c : cfg) (l : label) : bool :=
  match l with
  | LInit hs => validb hs
  | LControl h => negb (invalid_connect_addr h)
  | LRefresh report => validb (accepted c report)
  | _ => true
  end.

Lemma label_okb_sound c s l : label_okb c l = true -> label_ok c s l.
Proof.
  destruct l; simpl; intros H; try exact I.
  - apply validb_sound. exact H.
  - destruct (invalid_connect_addr h); [discriminate | reflexivity].
  - apply validb_sound. exact H.
Qed.

Lemma history_okb_sound c : forall ls s, forallb (label_okb c) ls = true -> history_ok c s ls.
Proof.
  induction ls as [|l tl IH]; intros s H; simpl in *; [exact I|].
  apply andb_true_iff in H. destruct H as [H1 H2]. split; [apply label_okb_sound; exact H1|].
  destruct (step c s l); [apply IH; exact H2 | exact I].
Qed.
