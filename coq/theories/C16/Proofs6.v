(* C16/Proofs6.v -- decidable versions of the side conditions (used to show, by computation, that the
   hypotheses of the theorems are satisfiable by non-trivial histories). *)
From GocqlV Require Import Lib.Base C16.ZMap C16.Model C16.Spec C16.Proofs1 C16.Proofs2 C16.Proofs3 C16.Proofs4.

Fixpoint nodupb (l : list Z) : bool :=
  match l with [] => true | x :: tl => negb (zmem x tl) && nodupb tl end.

Lemma nodupb_sound l : nodupb l = true -> NoDup l.
Proof.
  induction l as [|x tl IH]; simpl; intros H; [constructor|].
  apply andb_true_iff in H. destruct H as [H1 H2]. constructor; [|auto].
  apply zmem_false. destruct (zmem x tl); [discriminate | reflexivity].
Qed.

Definition remove_okb (r : ring) (id : Z) : bool :=
  match mget id (hosts r) with
  | None => true
  | Some h => forallb (fun kv => (fst kv =? id) || negb (n2n_key (snd kv) =? n2n_key h)) (hosts r)
  end.

Lemma remove_okb_sound r id : remove_okb r id = true -> remove_ok r id.
Proof.
  unfold remove_okb, remove_ok. intros H h Hh. rewrite Hh in H. rewrite forallb_forall in H.
  intros id2 h2 Hh2 Hne. apply mget_In in Hh2. specialize (H _ Hh2). simpl in H. lia.
Qed.

Definition update_okb (r : ring) (h : hostinfo) : bool :=
  match mget (h_id h) (hosts r) with
  | None => true
  | Some e => n2n_key (update e h) =? n2n_key e
  end.

Lemma update_okb_sound r h : update_okb r h = true -> update_ok r h.
Proof. unfold update_okb, update_ok. intros H e He. rewrite He in H. lia. Qed.

Definition op_okb (r : ring) (o : rop) : bool :=
  match o with OAddIfMissing _ => true | OAddOrUpdate h => update_okb r h | ORemove id => remove_okb r id end.

Fixpoint ops_okb (r : ring) (ops : list rop) : bool :=
  match ops with [] => true | o :: tl => op_okb r o && ops_okb (fst (ring_step r o)) tl end.

Lemma ops_okb_sound : forall ops r, ops_okb r ops = true -> ops_ok r ops.
Proof.
  induction ops as [|o tl IH]; intros r H; simpl in *; [exact I|].
  apply andb_true_iff in H. destruct H as [H1 H2]. split; [|apply IH; exact H2].
  destruct o; simpl in *; [exact I | apply update_okb_sound; exact H1 | apply remove_okb_sound; exact H1].
Qed.

Definition add_okb (r : ring) (h : hostinfo) : bool :=
  negb (invalid_connect_addr h) &&
  match mget (h_id h) (hosts r) with
  | Some e => n2n_key (update e h) =? n2n_key e
  | None => forallb (fun kv => negb (n2n_key (snd kv) =? n2n_key h)) (hosts r)
  end.

Lemma add_okb_sound r h : add_okb r h = true -> add_ok r h.
Proof.
  unfold add_okb, add_ok. intros H. apply andb_true_iff in H. destruct H as [H1 H2].
  split; [destruct (invalid_connect_addr h); [discriminate | reflexivity]|].
  destruct (mget (h_id h) (hosts r)); [lia|]. rewrite forallb_forall in H2.
  intros id x Hx. apply mget_In in Hx. specialize (H2 _ Hx). simpl in H2. lia.
Qed.

Definition report_okb (c : cfg) (r0 : ring) (report : list hostinfo) : bool :=
  let A := accepted c report in
  forallb (fun h => negb (invalid_connect_addr h)) A
  && nodupb (map h_id A)
  && forallb (fun h => forallb (fun kv => negb (n2n_key (snd kv) =? n2n_key h) || (fst kv =? h_id h)) (hosts r0)) A
  && forallb (fun h1 => forallb (fun h2 => negb (n2n_key h1 =? n2n_key h2) || (h_id h1 =? h_id h2)) A) A.

Lemma report_okb_sound c r0 report : report_okb c r0 report = true -> report_ok c r0 report.
Proof.
  unfold report_okb. intros H. repeat (apply andb_true_iff in H; destruct H as [H ?]).
  rewrite forallb_forall in *. constructor.
  - intros h Hh. specialize (H _ Hh). destruct (invalid_connect_addr h); [discriminate | reflexivity].
  - apply nodupb_sound. assumption.
  - intros h id e Hh He Hk. specialize (H1 _ Hh). rewrite forallb_forall in H1. apply mget_In in He.
    specialize (H1 _ He). simpl in H1. lia.
  - intros h1 h2 Hh1 Hh2 Hk. specialize (H0 _ Hh1). rewrite forallb_forall in H0. specialize (H0 _ Hh2). lia.
Qed.

Fixpoint init_okb (c : cfg) (s : sess) (hs : list hostinfo) : bool :=
  match hs with
  | [] => true
  | h :: tl =>
      add_okb (s_ring s) h &&
      match add_or_update (s_ring s) h with
      | Some (r', e) => init_okb c (let s1 := with_ring s r' in if accept c e then start_pool_fill s1 e else s1) tl
      | None => true
      end
  end.

Lemma init_okb_sound c : forall hs s, init_okb c s hs = true -> init_ok c s hs.
Proof.
  induction hs as [|h tl IH]; intros s H; simpl in *; [exact I|].
  apply andb_true_iff in H. destruct H as [H1 H2]. split; [apply add_okb_sound; exact H1|].
  destruct (add_or_update (s_ring s) h) as [[r' e]|]; [apply IH; exact H2 | exact I].
Qed.

Definition label_okb (c : cfg) (s : sess) (l : label) : bool :=
  match l with
  | LInit hs => init_okb c s hs
  | LControl h => add_okb (s_ring s) h
  | LRefresh report => report_okb c (s_ring s) report
  | _ => true
  end.

Fixpoint history_okb (c : cfg) (s : sess) (ls : list label) : bool :=
  match ls with
  | [] => true
  | l :: tl => label_okb c s l && match step c s l with Some s' => history_okb c s' tl | None => true end
  end.

Lemma history_okb_sound c : forall ls s, history_okb c s ls = true -> history_ok c s ls.
Proof.
  induction ls as [|l tl IH]; intros s H; simpl in *; [exact I|].
  apply andb_true_iff in H. destruct H as [H1 H2]. split.
  - destruct l; simpl in *; try exact I; [apply init_okb_sound | apply add_okb_sound | apply report_okb_sound]; exact H1.
  - destruct (step c s l); [apply IH; exact H2 | exact I].
Qed.
