(* C16/Proofs2.v -- the refresh: loop invariant of the first loop. *)
From GocqlV Require Import Lib.Base C16.ZMap C16.Model C16.Spec C16.Proofs1.

Lemma add_if_missing_new r h :
  invalid_connect_addr h = false -> mget (h_id h) (hosts r) = None ->
  add_if_missing r h = Some (mkRing (mset (h_id h) h (hosts r)) (mset (n2n_key h) (h_id h) (ip2id r)) (hlist r ++ [h_id h]), h, false).
Proof. intros Hv Hn. unfold add_if_missing. rewrite Hv, Hn. reflexivity. Qed.

Lemma add_if_missing_old r h e :
  invalid_connect_addr h = false -> mget (h_id h) (hosts r) = Some e -> add_if_missing r h = Some (r, e, true).
Proof. intros Hv Hn. unfold add_if_missing. rewrite Hv, Hn. reflexivity. Qed.

(* pool facts *)
Lemma In_pool_add p id x : In x (pool_add p id) <-> In x p \/ x = id.
Proof.
  unfold pool_add. destruct (zmem id p) eqn:E.
  - apply zmem_In in E. split; [auto | intros [H|H]; [auto | subst; auto]].
  - rewrite in_app_iff. simpl. intuition.
Qed.

Lemma In_pool_del p id x : In x (pool_del p id) <-> In x p /\ x <> id.
Proof. unfold pool_del. rewrite filter_In. split; intros [H1 H2]; split; auto; lia. Qed.

Lemma remove_host_ring_hosts r id : hosts (fst (remove_host_ring r id)) = mdel id (hosts r).
Proof.
  unfold remove_host_ring. destruct (mget id (hosts r)) eqn:E; simpl; [reflexivity|].
  symmetry. apply mdel_absent. exact E.
Qed.

(* ---------------------------------------------------------------- the condition on a report *)
(* the accepted hosts of the report can be connected to (what hostInfoFromMap guarantees for every host it
   returns: see host_from_row_valid in Proofs3.v) *)
Definition report_ok (c : cfg) (report : list hostinfo) : Prop :=
  forall h, In h (accepted c report) -> invalid_connect_addr h = false.

(* the refresh's "no host IP change" test *)
Definition same_addr (h e : hostinfo) : bool := ip_eqb (h_conn h) (h_conn e) && ip_eqb (n2n h) (n2n e).

(* the record the ring holds for a reported host after the refresh: the reported record itself when the
   node is new or its addresses changed (replaced), the old record updated in place otherwise *)
Definition refreshed (r0 : ring) (h : hostinfo) : hostinfo :=
  match mget (h_id h) (hosts r0) with
  | Some e => if same_addr h e then update e h else h
  | None => h
  end.

(* the reported host is a new record in the ring: a new node, or a known node whose addresses changed *)
Definition fresh_record (r0 : ring) (h : hostinfo) : Prop :=
  match mget (h_id h) (hosts r0) with Some e => same_addr h e = false | None => True end.

(* state of the loop: [done] are the reported hosts handled so far (first report of each id), [seen] their ids *)
Record loop_inv (r0 : ring) (p0 : list Z) (s : sess) (prev : zmap hostinfo) (seen : list Z) (done : list hostinfo) : Prop := mk_loop_inv {
  li_ring : ring_inv (s_ring s);
  li_prev_ring : forall id e, mget id prev = Some e -> mget id (hosts (s_ring s)) = Some e;
  li_prev_old : forall id e, mget id prev = Some e -> mget id (hosts r0) = Some e;
  li_prev_nodup : NoDup (mkeys prev);
  li_seen : forall id, In id seen <-> exists h, In h done /\ h_id h = id;
  li_prov : forall id x, mget id (hosts (s_ring s)) = Some x -> mget id prev = Some x \/ (mget id prev = None /\ In id seen);
  li_pool : forall id, In id (s_pool s) -> mget id (hosts (s_ring s)) <> None;
  li_done_pool : forall h, In h done -> fresh_record r0 h -> In (h_id h) (s_pool s);
  li_log : forall h, In h done -> fresh_record r0 h -> In (PAdd (h_id h)) (s_log s);
  li_seen_notprev : forall id, In id seen -> mget id prev = None;
  li_old_cover : forall id e, mget id (hosts r0) = Some e -> mget id prev = Some e \/ In id seen;
  li_content : forall h, In h done -> mget (h_id h) (hosts (s_ring s)) = Some (refreshed r0 h);
  li_pool_mono : forall id, In id p0 -> In id (s_pool s)
}.

Definition loop_post (c : cfg) (r0 : ring) (p0 : list Z) (report : list hostinfo) (out : sess * zmap hostinfo * rres) : Prop :=
  let '(s', prev', res) := out in res = ROk /\ exists seen', loop_inv r0 p0 s' prev' seen' (effective c report).

Lemma seen_add seen done h :
  (forall id, In id seen <-> exists h', In h' done /\ h_id h' = id) ->
  forall id, In id (h_id h :: seen) <-> exists h', In h' (done ++ [h]) /\ h_id h' = id.
Proof.
  intros H id. simpl. rewrite H. split.
  - intros [<-|[h' [H1 H2]]]; [exists h; split; [apply in_or_app; right; left; reflexivity | reflexivity]|].
    exists h'. split; [apply in_or_app; left; exact H1 | exact H2].
  - intros [h' [H1 H2]]. apply in_app_or in H1. destruct H1 as [H1|[<-|[]]]; [right; exists h'; auto | left; exact H2].
Qed.

Lemma refresh_loop_ok c r0 p0 report :
  report_ok c report ->
  forall todo done seen s prev,
    effective c report = done ++ first_by_id seen (accepted c todo) ->
    (forall h, In h (accepted c todo) -> In h (accepted c report)) ->
    loop_inv r0 p0 s prev seen done ->
    loop_post c r0 p0 report (refresh_loop c s prev seen todo).
Proof.
  intros Hok. induction todo as [|h tl IH]; intros done seen s prev Hsplit Hsub Hli.
  - simpl. split; [reflexivity|]. exists seen. simpl in Hsplit. rewrite app_nil_r in Hsplit. rewrite Hsplit. exact Hli.
  - simpl. unfold accepted in Hsplit, Hsub. simpl in Hsplit, Hsub. fold (accepted c tl) in Hsplit, Hsub. fold (accepted c report) in Hsub.
    destruct (accept c h) eqn:Hacc; simpl; [|apply (IH done); assumption].
    simpl in Hsplit.
    destruct (zmem (h_id h) seen) eqn:Hseen.
    { apply (IH done); [exact Hsplit | intros h' Hh'; apply Hsub; right; exact Hh' | exact Hli]. }
    assert (Hvalid : invalid_connect_addr h = false) by (apply Hok; apply Hsub; left; reflexivity).
    assert (Hsub' : forall h', In h' (accepted c tl) -> In h' (accepted c report)) by (intros h' Hh'; apply Hsub; right; exact Hh').
    assert (Hsplit' : effective c report = (done ++ [h]) ++ first_by_id (h_id h :: seen) (accepted c tl)) by (rewrite <- app_assoc; exact Hsplit).
    apply zmem_false in Hseen.
    destruct Hli as [Hring Hpr Hpo Hpnd Hsn Hprov Hpool Hdpool Hlog Hsnp Hcover Hcontent Hmono].
    assert (Hfresh : forall h', In h' done -> h_id h' <> h_id h).
    { intros h' Hh' Heq. apply Hseen. apply Hsn. exists h'. auto. }
    pose proof (seen_add seen done h Hsn) as Hsn'.
    destruct (mget (h_id h) (hosts (s_ring s))) as [host|] eqn:Eh.
    + (* the id is known *)
      rewrite (add_if_missing_old _ _ _ Hvalid Eh).
      destruct (Hprov _ _ Eh) as [Hp | [_ Hin]]; [|contradiction].
      rewrite Hp.
      assert (Hhid : h_id host = h_id h) by (apply (inv_id _ Hring _ _ Eh)).
      fold (same_addr h host). destruct (same_addr h host) eqn:Esame.
      * (* same addresses: update in place *)
        pose proof Esame as Esame'. unfold same_addr in Esame'. apply andb_true_iff in Esame'. destruct Esame' as [_ En].
        pose proof (update_keeps_key _ _ En) as Hkey.
        apply (IH (done ++ [h])); [exact Hsplit' | exact Hsub' |].
        constructor; simpl.
        -- apply update_in_place_inv with (e := host); auto. rewrite update_id; congruence.
        -- intros id e. rewrite mget_mdel. destruct (id =? h_id h) eqn:E1; [discriminate|]. intros He.
           rewrite mget_mset_other by lia. apply Hpr. exact He.
        -- intros id e. rewrite mget_mdel. destruct (id =? h_id h); [discriminate|]. apply Hpo.
        -- apply NoDup_mkeys_mdel. exact Hpnd.
        -- exact Hsn'.
        -- intros id x. rewrite mget_mset, mget_mdel. destruct (id =? h_id h) eqn:E1.
           ++ intros _. right. split; [reflexivity|]. left. lia.
           ++ intros Hx. destruct (Hprov _ _ Hx) as [Hq | [Hq Hin]]; [left; exact Hq | right; split; [exact Hq | right; exact Hin]].
        -- intros id Hid. rewrite mget_mset. destruct (id =? h_id h); [discriminate | apply Hpool; exact Hid].
        -- intros h' Hh' Hn. apply in_app_or in Hh'. destruct Hh' as [Hh'|[<-|[]]]; [apply Hdpool; assumption|].
           exfalso. unfold fresh_record in Hn. rewrite (Hpo _ _ Hp) in Hn. congruence.
        -- intros h' Hh' Hn. apply in_app_or in Hh'. destruct Hh' as [Hh'|[<-|[]]]; [apply Hlog; assumption|].
           exfalso. unfold fresh_record in Hn. rewrite (Hpo _ _ Hp) in Hn. congruence.
        -- intros id [<-|Hid]; rewrite mget_mdel; [rewrite Z.eqb_refl; reflexivity|].
           destruct (id =? h_id h); [reflexivity | apply Hsnp; exact Hid].
        -- intros id e He. rewrite mget_mdel. destruct (Hcover _ _ He) as [Hq | Hq]; [|right; right; exact Hq].
           destruct (id =? h_id h) eqn:E1; [right; left; lia | left; exact Hq].
        -- intros h' Hh'. rewrite mget_mset. destruct (h_id h' =? h_id h) eqn:E1.
           ++ apply in_app_or in Hh'. destruct Hh' as [Hh'|[<-|[]]]; [exfalso; apply (Hfresh _ Hh'); lia|].
              unfold refreshed. rewrite (Hpo _ _ Hp), Esame. reflexivity.
           ++ apply in_app_or in Hh'. destruct Hh' as [Hh'|[<-|[]]]; [apply Hcontent; exact Hh' | lia].
        -- exact Hmono.
      * (* address changed: remove the old record, add the new one *)
        unfold remove_host. rewrite Hhid.
        set (r1 := fst (remove_host_ring (s_ring s) (h_id h))).
        assert (Hr1 : ring_inv r1) by (apply remove_host_ring_inv; exact Hring).
        assert (Hget1 : forall id, mget id (hosts r1) = if id =? h_id h then None else mget id (hosts (s_ring s))).
        { intros id. unfold r1. rewrite remove_host_ring_hosts. apply mget_mdel. }
        assert (Hnone : mget (h_id h) (hosts r1) = None) by (rewrite Hget1, Z.eqb_refl; reflexivity).
        simpl. rewrite (add_if_missing_new _ _ Hvalid Hnone).
        apply (IH (done ++ [h])); [exact Hsplit' | exact Hsub' |].
        pose proof (add_if_missing_new _ _ Hvalid Hnone) as Hadd.
        constructor; simpl.
        -- eapply add_if_missing_inv; eauto.
        -- intros id e. rewrite mget_mdel. destruct (id =? h_id h) eqn:E1; [discriminate|]. intros He.
           rewrite mget_mset_other by lia. rewrite Hget1, E1. apply Hpr. exact He.
        -- intros id e. rewrite mget_mdel. destruct (id =? h_id h); [discriminate|]. apply Hpo.
        -- apply NoDup_mkeys_mdel. exact Hpnd.
        -- exact Hsn'.
        -- intros id x. rewrite mget_mset, mget_mdel. destruct (id =? h_id h) eqn:E1.
           ++ intros _. right. split; [reflexivity|]. left. lia.
           ++ rewrite Hget1, E1. intros Hx. destruct (Hprov _ _ Hx) as [Hq | [Hq Hin]]; [left; exact Hq | right; split; [exact Hq | right; exact Hin]].
        -- intros id. rewrite In_pool_add, In_pool_del. rewrite mget_mset. destruct (id =? h_id h) eqn:E1; [discriminate|].
           rewrite Hget1, E1. intros [[Hid _]|Hid]; [apply Hpool; exact Hid | lia].
        -- intros h' Hh' Hn. rewrite In_pool_add, In_pool_del. apply in_app_or in Hh'. destruct Hh' as [Hh'|[<-|[]]]; [|right; reflexivity].
           left. split; [apply Hdpool; assumption | apply Hfresh; exact Hh'].
        -- intros h' Hh' Hn. apply in_app_or in Hh'. apply in_or_app. destruct Hh' as [Hh'|[<-|[]]]; [|right; left; reflexivity].
           left. apply in_or_app. left. apply Hlog; assumption.
        -- intros id [<-|Hid]; rewrite mget_mdel; [rewrite Z.eqb_refl; reflexivity|].
           destruct (id =? h_id h); [reflexivity | apply Hsnp; exact Hid].
        -- intros id e He. rewrite mget_mdel. destruct (Hcover _ _ He) as [Hq | Hq]; [|right; right; exact Hq].
           destruct (id =? h_id h) eqn:E1; [right; left; lia | left; exact Hq].
        -- intros h' Hh'. rewrite mget_mset. destruct (h_id h' =? h_id h) eqn:E1.
           ++ apply in_app_or in Hh'. destruct Hh' as [Hh'|[<-|[]]]; [exfalso; apply (Hfresh _ Hh'); lia|].
              unfold refreshed. rewrite (Hpo _ _ Hp), Esame. reflexivity.
           ++ rewrite Hget1, E1. apply in_app_or in Hh'. destruct Hh' as [Hh'|[<-|[]]]; [apply Hcontent; exact Hh' | lia].
        -- intros id Hid. rewrite In_pool_add, In_pool_del. destruct (Z.eq_dec id (h_id h)); [right; assumption | left; split; [apply Hmono; exact Hid | assumption]].
    + (* a new id *)
      rewrite (add_if_missing_new _ _ Hvalid Eh).
      pose proof (add_if_missing_new _ _ Hvalid Eh) as Hadd.
      apply (IH (done ++ [h])); [exact Hsplit' | exact Hsub' |].
      constructor; simpl.
      * eapply add_if_missing_inv; eauto.
      * intros id e. rewrite mget_mdel. destruct (id =? h_id h) eqn:E1; [discriminate|]. intros He.
        rewrite mget_mset_other by lia. apply Hpr. exact He.
      * intros id e. rewrite mget_mdel. destruct (id =? h_id h); [discriminate|]. apply Hpo.
      * apply NoDup_mkeys_mdel. exact Hpnd.
      * exact Hsn'.
      * intros id x. rewrite mget_mset, mget_mdel. destruct (id =? h_id h) eqn:E1.
        -- intros _. right. split; [reflexivity|]. left. lia.
        -- intros Hx. destruct (Hprov _ _ Hx) as [Hq | [Hq Hin]]; [left; exact Hq | right; split; [exact Hq | right; exact Hin]].
      * intros id. rewrite In_pool_add. rewrite mget_mset. destruct (id =? h_id h) eqn:E1; [discriminate|].
        intros [Hid|Hid]; [apply Hpool; exact Hid | lia].
      * intros h' Hh' Hn. rewrite In_pool_add. apply in_app_or in Hh'. destruct Hh' as [Hh'|[<-|[]]]; [|right; reflexivity].
        left. apply Hdpool; assumption.
      * intros h' Hh' Hn. apply in_app_or in Hh'. apply in_or_app. destruct Hh' as [Hh'|[<-|[]]]; [|right; left; reflexivity].
        left. apply Hlog; assumption.
      * intros id [<-|Hid]; rewrite mget_mdel; [rewrite Z.eqb_refl; reflexivity|].
        destruct (id =? h_id h); [reflexivity | apply Hsnp; exact Hid].
      * intros id e He. rewrite mget_mdel. destruct (Hcover _ _ He) as [Hq | Hq]; [|right; right; exact Hq].
        destruct (id =? h_id h) eqn:E1; [right; left; lia | left; exact Hq].
      * intros h' Hh'. rewrite mget_mset. destruct (h_id h' =? h_id h) eqn:E1.
        -- apply in_app_or in Hh'. destruct Hh' as [Hh'|[<-|[]]]; [exfalso; apply (Hfresh _ Hh'); lia|].
           unfold refreshed. destruct (mget (h_id h) (hosts r0)) as [e|] eqn:E0; [|reflexivity]. exfalso.
           destruct (Hcover _ _ E0) as [Hq | Hq]; [rewrite (Hpr _ _ Hq) in Eh; discriminate | contradiction].
        -- apply in_app_or in Hh'. destruct Hh' as [Hh'|[<-|[]]]; [apply Hcontent; exact Hh' | lia].
      * intros id Hid. rewrite In_pool_add. left. apply Hmono. exact Hid.
Qed.
