(* C16/Proofs2.v -- the refresh: loop invariant and post-condition. *)
From GocqlV Require Import Lib.Base C16.ZMap C16.Model C16.Spec C16.Proofs1.

(* no two hosts of the ring share a node-to-node address *)
Definition addr_inj (r : ring) : Prop :=
  forall id1 h1 id2 h2, mget id1 (hosts r) = Some h1 -> mget id2 (hosts r) = Some h2 ->
                        n2n_key h1 = n2n_key h2 -> id1 = id2.

Lemma addr_inj_empty : addr_inj empty_ring.
Proof. intros id1 h1 id2 h2 H. discriminate. Qed.

Lemma inj_remove_ok r id : addr_inj r -> remove_ok r id.
Proof. intros Hinj h Hh id2 h2 Hh2 Hne Hk. apply Hne. eapply Hinj; eauto. Qed.

(* with the invariant and injectivity the address index is exact *)
Lemma inj_exact r id h : ring_inv r -> addr_inj r -> mget id (hosts r) = Some h -> mget (n2n_key h) (ip2id r) = Some id.
Proof.
  intros Hinv Hinj Hh. destruct (mget (n2n_key h) (ip2id r)) as [id'|] eqn:E.
  - destruct (inv_sound _ Hinv _ _ E) as [h' [Hh' Hk]]. f_equal. eapply Hinj; eauto.
  - exfalso. apply (inv_complete _ Hinv _ _ Hh). exact E.
Qed.

Lemma addr_inj_update r id e e' :
  addr_inj r -> mget id (hosts r) = Some e -> n2n_key e' = n2n_key e ->
  addr_inj (mkRing (mset id e' (hosts r)) (ip2id r) (hlist r)).
Proof.
  intros Hinj He Hk id1 h1 id2 h2. simpl. rewrite !mget_mset.
  destruct (id1 =? id) eqn:E1, (id2 =? id) eqn:E2; intros H1 H2 Hkk.
  - lia.
  - injection H1 as <-. apply Z.eqb_eq in E1. subst id1. eapply Hinj; eauto. congruence.
  - injection H2 as <-. apply Z.eqb_eq in E2. subst id2. eapply Hinj; eauto. congruence.
  - eapply Hinj; eauto.
Qed.

Lemma addr_inj_remove r id : addr_inj r -> addr_inj (fst (remove_host_ring r id)).
Proof.
  intros Hinj. unfold remove_host_ring. destruct (mget id (hosts r)) as [h|]; simpl; [|exact Hinj].
  intros id1 h1 id2 h2. simpl. rewrite !mget_mdel.
  destruct (id1 =? id), (id2 =? id); try discriminate. apply Hinj.
Qed.

(* adding a host whose address no host of the ring has *)
Lemma addr_inj_add r h r' e :
  addr_inj r -> (forall id x, mget id (hosts r) = Some x -> n2n_key x <> n2n_key h) ->
  add_if_missing r h = Some (r', e, false) -> addr_inj r'.
Proof.
  intros Hinj Hfree H. unfold add_if_missing in H. destruct (invalid_connect_addr h); [discriminate|].
  destruct (mget (h_id h) (hosts r)) eqn:E; [discriminate|]. injection H as <- <-.
  intros id1 h1 id2 h2. simpl. rewrite !mget_mset.
  destruct (id1 =? h_id h) eqn:E1, (id2 =? h_id h) eqn:E2; intros H1 H2 Hk.
  - lia.
  - injection H1 as <-. exfalso. apply (Hfree id2 h2 H2). congruence.
  - injection H2 as <-. exfalso. apply (Hfree id1 h1 H1). congruence.
  - eapply Hinj; eauto.
Qed.

Lemma add_if_missing_new r h :
  invalid_connect_addr h = false -> mget (h_id h) (hosts r) = None ->
  add_if_missing r h = Some (mkRing (mset (h_id h) h (hosts r)) (mset (n2n_key h) (h_id h) (ip2id r)) (hlist r ++ [h_id h]), h, false).
Proof. intros Hv Hn. unfold add_if_missing. rewrite Hv, Hn. reflexivity. Qed.

Lemma add_if_missing_old r h e :
  invalid_connect_addr h = false -> mget (h_id h) (hosts r) = Some e -> add_if_missing r h = Some (r, e, true).
Proof. intros Hv Hn. unfold add_if_missing. rewrite Hv, Hn. reflexivity. Qed.

(* pool facts *)
Lemma In_pool_add p id x : In x (pool_add p id) <-> In x p \/ x = id.
Proof.
  unfold pool_add. destruct (zmem id p) eqn:E.
  - apply zmem_In in E. split; [auto | intros [H|H]; [auto | subst; auto]].
  - rewrite in_app_iff. simpl. intuition.
Qed.

Lemma In_pool_del p id x : In x (pool_del p id) <-> In x p /\ x <> id.
Proof. unfold pool_del. rewrite filter_In. split; intros [H1 H2]; split; auto; lia. Qed.

(* ---------------------------------------------------------------- the conditions on a report *)
(* the accepted hosts of the report can be connected to, carry distinct ids, and no two different nodes
   -- reported now or known before -- have the same node-to-node address *)
Record report_ok (c : cfg) (r0 : ring) (report : list hostinfo) : Prop := mk_report_ok {
  ro_valid : forall h, In h (accepted c report) -> invalid_connect_addr h = false;
  ro_nodup : NoDup (reported_ids c report);
  ro_old : forall h id e, In h (accepted c report) -> mget id (hosts r0) = Some e -> n2n_key e = n2n_key h -> id = h_id h;
  ro_new : forall h1 h2, In h1 (accepted c report) -> In h2 (accepted c report) -> n2n_key h1 = n2n_key h2 -> h_id h1 = h_id h2
}.

(* the refresh's "no host IP change" test *)
Definition same_addr (h e : hostinfo) : bool := ip_eqb (h_conn h) (h_conn e) && ip_eqb (n2n h) (n2n e).

(* the record the ring holds for a reported host after the refresh: the reported record itself when the
   node is new or its addresses changed (replaced), the old record updated in place otherwise *)
Definition refreshed (r0 : ring) (h : hostinfo) : hostinfo :=
  match mget (h_id h) (hosts r0) with
  | Some e => if same_addr h e then update e h else h
  | None => h
  end.

(* the reported host is a new record in the ring: a new node, or a known node whose addresses changed *)
Definition fresh_record (r0 : ring) (h : hostinfo) : Prop :=
  match mget (h_id h) (hosts r0) with Some e => same_addr h e = false | None => True end.

(* state of the loop: [done] are the accepted hosts processed so far *)
Record loop_inv (r0 : ring) (p0 : list Z) (s : sess) (prev : zmap hostinfo) (done : list hostinfo) : Prop := mk_loop_inv {
  li_ring : ring_inv (s_ring s);
  li_inj : addr_inj (s_ring s);
  li_prev_ring : forall id e, mget id prev = Some e -> mget id (hosts (s_ring s)) = Some e;
  li_prev_old : forall id e, mget id prev = Some e -> mget id (hosts r0) = Some e;
  li_prev_nodup : NoDup (mkeys prev);
  li_prov : forall id x, mget id (hosts (s_ring s)) = Some x ->
            mget id prev = Some x \/ (mget id prev = None /\ exists h, In h done /\ h_id h = id /\ n2n_key h = n2n_key x);
  li_done : forall h, In h done -> mget (h_id h) (hosts (s_ring s)) <> None;
  li_pool : forall id, In id (s_pool s) -> mget id (hosts (s_ring s)) <> None;
  li_done_pool : forall h, In h done -> fresh_record r0 h -> In (h_id h) (s_pool s);
  li_log : forall h, In h done -> fresh_record r0 h -> In (PAdd (h_id h)) (s_log s);
  li_done_notprev : forall h, In h done -> mget (h_id h) prev = None;
  li_old_cover : forall id e, mget id (hosts r0) = Some e -> mget id prev = Some e \/ exists h, In h done /\ h_id h = id;
  li_content : forall h, In h done -> mget (h_id h) (hosts (s_ring s)) = Some (refreshed r0 h);
  li_pool_mono : forall id, In id p0 -> In id (s_pool s)
}.

(* what is known about a finished loop *)
Definition loop_post (c : cfg) (r0 : ring) (p0 : list Z) (report : list hostinfo) (out : sess * zmap hostinfo * rres) : Prop :=
  let '(s', prev', res) := out in res = ROk /\ loop_inv r0 p0 s' prev' (accepted c report).

Lemma filter_app_one {A} (f : A -> bool) l x : filter f (l ++ [x]) = filter f l ++ (if f x then [x] else []).
Proof. rewrite filter_app. reflexivity. Qed.

(* one accepted host: a free address in the current ring, except for the host's own id *)
Lemma free_address c r0 p0 report s prev done h :
  report_ok c r0 report -> loop_inv r0 p0 s prev done -> (forall h', In h' done -> In h' (accepted c report)) ->
  In h (accepted c report) ->
  forall id x, mget id (hosts (s_ring s)) = Some x -> n2n_key x = n2n_key h -> id = h_id h.
Proof.
  intros Hok Hli Hsub Hin id x Hx Hk.
  destruct (li_prov _ _ _ _ _ Hli id x Hx) as [Hp | [_ [h' [Hd [Hid' Hk']]]]].
  - eapply (ro_old _ _ _ Hok); eauto. eapply li_prev_old; eauto.
  - rewrite <- Hid'. eapply (ro_new _ _ _ Hok); eauto. congruence.
Qed.

Lemma refresh_loop_ok c r0 p0 report :
  report_ok c r0 report ->
  forall todo done s prev,
    accepted c report = done ++ accepted c todo ->
    loop_inv r0 p0 s prev done ->
    loop_post c r0 p0 report (refresh_loop c s prev todo).
Proof.
  intros Hok. induction todo as [|h tl IH]; intros done s prev Hsplit Hli.
  - simpl. split; [reflexivity|]. simpl in Hsplit. rewrite app_nil_r in Hsplit. rewrite Hsplit. exact Hli.
  - simpl. unfold accepted in Hsplit. simpl in Hsplit. fold (accepted c tl) in Hsplit. fold (accepted c report) in Hsplit.
    destruct (accept c h) eqn:Hacc; simpl; [|apply (IH done); assumption].
    assert (Hsub : forall h', In h' done -> In h' (accepted c report)).
    { intros h' Hh'. rewrite Hsplit. apply in_or_app. left. exact Hh'. }
    assert (Hin : In h (accepted c report)).
    { rewrite Hsplit. apply in_or_app. right. left. reflexivity. }
    assert (Hvalid : invalid_connect_addr h = false) by (apply (ro_valid _ _ _ Hok); exact Hin).
    assert (Hfresh : forall h', In h' done -> h_id h' <> h_id h).
    { intros h' Hh' Heq. pose proof (ro_nodup _ _ _ Hok) as Hnd. unfold reported_ids in Hnd. rewrite Hsplit in Hnd.
      rewrite map_app in Hnd. simpl in Hnd. apply NoDup_remove_2 in Hnd. apply Hnd. apply in_or_app. left.
      rewrite <- Heq. apply in_map. exact Hh'. }
    assert (Hsplit' : accepted c report = (done ++ [h]) ++ accepted c tl) by (rewrite <- app_assoc; exact Hsplit).
    pose proof (free_address _ _ _ _ _ _ _ _ Hok Hli Hsub Hin) as Hfree.
    destruct Hli as [Hring Hinj Hpr Hpo Hpnd Hprov Hdone Hpool Hdpool Hlog Hdnp Hcover Hcontent Hmono].
    destruct (mget (h_id h) (hosts (s_ring s))) as [host|] eqn:Eh.
    + (* the id is known *)
      rewrite (add_if_missing_old _ _ _ Hvalid Eh).
      destruct (Hprov _ _ Eh) as [Hp | [_ [h' [Hd [Hid' _]]]]]; [|exfalso; eapply Hfresh; eauto].
      rewrite Hp.
      assert (Hhid : h_id host = h_id h) by (apply (inv_id _ Hring _ _ Eh)).
      fold (same_addr h host). destruct (same_addr h host) eqn:Esame.
      * (* same addresses: update in place *)
        pose proof Esame as Esame'. unfold same_addr in Esame'. apply andb_true_iff in Esame'. destruct Esame' as [_ En].
        pose proof (update_keeps_key _ _ En) as Hkey.
        apply (IH (done ++ [h])); [exact Hsplit'|].
        assert (Hkh : n2n_key h = n2n_key host) by (unfold n2n_key; apply ip_eqb_eq in En; rewrite En; reflexivity).
        constructor; simpl.
        -- apply update_in_place_inv with (e := host); auto. rewrite update_id; congruence.
        -- eapply addr_inj_update; eauto.
        -- intros id e. rewrite mget_mdel. destruct (id =? h_id h) eqn:E1; [discriminate|]. intros He.
           rewrite mget_mset_other by lia. apply Hpr. exact He.
        -- intros id e. rewrite mget_mdel. destruct (id =? h_id h); [discriminate|]. apply Hpo.
        -- apply NoDup_mkeys_mdel. exact Hpnd.
        -- intros id x. rewrite mget_mset, mget_mdel. destruct (id =? h_id h) eqn:E1.
           ++ intros Hx. injection Hx as <-. right. split; [reflexivity|]. exists h. split; [apply in_or_app; right; left; reflexivity|].
              apply Z.eqb_eq in E1. split; [congruence | congruence].
           ++ intros Hx. destruct (Hprov _ _ Hx) as [Hq | [Hq [h' [Hd [Hid' Hk']]]]]; [left; exact Hq|].
              right. split; [exact Hq|]. exists h'. split; [apply in_or_app; left; exact Hd | auto].
        -- intros h' Hh'. rewrite mget_mset. destruct (h_id h' =? h_id h) eqn:E1; [discriminate|].
           apply in_app_or in Hh'. destruct Hh' as [Hh'|[<-|[]]]; [apply Hdone; exact Hh' | lia].
        -- intros id Hid. rewrite mget_mset. destruct (id =? h_id h); [discriminate | apply Hpool; exact Hid].
        -- intros h' Hh' Hn. apply in_app_or in Hh'. destruct Hh' as [Hh'|[<-|[]]]; [apply Hdpool; assumption|].
           exfalso. unfold fresh_record in Hn. rewrite (Hpo _ _ Hp) in Hn. congruence.
        -- intros h' Hh' Hn. apply in_app_or in Hh'. destruct Hh' as [Hh'|[<-|[]]]; [apply Hlog; assumption|].
           exfalso. unfold fresh_record in Hn. rewrite (Hpo _ _ Hp) in Hn. congruence.
        -- intros h' Hh'. rewrite mget_mdel. destruct (h_id h' =? h_id h) eqn:E1; [reflexivity|].
           apply in_app_or in Hh'. destruct Hh' as [Hh'|[<-|[]]]; [apply Hdnp; exact Hh' | lia].
        -- intros id e He. rewrite mget_mdel. destruct (Hcover _ _ He) as [Hq | [h' [Hd Hid']]].
           ++ destruct (id =? h_id h) eqn:E1; [|left; exact Hq]. right. exists h. split; [apply in_or_app; right; left; reflexivity|].
              apply Z.eqb_eq in E1. congruence.
           ++ right. exists h'. split; [apply in_or_app; left; exact Hd | exact Hid'].
        -- intros h' Hh'. rewrite mget_mset. destruct (h_id h' =? h_id h) eqn:E1.
           ++ apply in_app_or in Hh'. destruct Hh' as [Hh'|[<-|[]]]; [exfalso; apply (Hfresh _ Hh'); lia|].
              unfold refreshed. rewrite (Hpo _ _ Hp), Esame. reflexivity.
           ++ apply in_app_or in Hh'. destruct Hh' as [Hh'|[<-|[]]]; [apply Hcontent; exact Hh' | lia].
        -- exact Hmono.
      * (* address changed: remove the old record, add the new one *)
        unfold remove_host. rewrite Hhid.
        set (r1 := fst (remove_host_ring (s_ring s) (h_id h))).
        assert (Hr1 : ring_inv r1) by (apply remove_host_ring_inv; [exact Hring | apply inj_remove_ok; exact Hinj]).
        assert (Hinj1 : addr_inj r1) by (apply addr_inj_remove; exact Hinj).
        assert (Hget1 : forall id, mget id (hosts r1) = if id =? h_id h then None else mget id (hosts (s_ring s))).
        { intros id. unfold r1, remove_host_ring. rewrite Eh. simpl. apply mget_mdel. }
        assert (Hnone : mget (h_id h) (hosts r1) = None) by (rewrite Hget1, Z.eqb_refl; reflexivity).
        simpl. rewrite (add_if_missing_new _ _ Hvalid Hnone).
        apply (IH (done ++ [h])); [exact Hsplit'|].
        pose proof (add_if_missing_new _ _ Hvalid Hnone) as Hadd.
        constructor; simpl.
        -- eapply add_if_missing_inv; eauto.
        -- eapply addr_inj_add; [exact Hinj1 | | exact Hadd].
           intros id x. rewrite Hget1. destruct (id =? h_id h) eqn:E1; [discriminate|]. intros Hx Hk.
           pose proof (Hfree _ _ Hx Hk). lia.
        -- intros id e. rewrite mget_mdel. destruct (id =? h_id h) eqn:E1; [discriminate|]. intros He.
           rewrite mget_mset_other by lia. rewrite Hget1, E1. apply Hpr. exact He.
        -- intros id e. rewrite mget_mdel. destruct (id =? h_id h); [discriminate|]. apply Hpo.
        -- apply NoDup_mkeys_mdel. exact Hpnd.
        -- intros id x. rewrite mget_mset, mget_mdel. destruct (id =? h_id h) eqn:E1.
           ++ intros Hx. injection Hx as <-. right. split; [reflexivity|]. exists h. split; [apply in_or_app; right; left; reflexivity|].
              apply Z.eqb_eq in E1. split; congruence.
           ++ rewrite Hget1, E1. intros Hx. destruct (Hprov _ _ Hx) as [Hq | [Hq [h' [Hd [Hid' Hk']]]]]; [left; exact Hq|].
              right. split; [exact Hq|]. exists h'. split; [apply in_or_app; left; exact Hd | auto].
        -- intros h' Hh'. rewrite mget_mset. destruct (h_id h' =? h_id h) eqn:E1; [discriminate|]. rewrite Hget1, E1.
           apply in_app_or in Hh'. destruct Hh' as [Hh'|[<-|[]]]; [apply Hdone; exact Hh' | lia].
        -- intros id. rewrite In_pool_add, In_pool_del. rewrite mget_mset. destruct (id =? h_id h) eqn:E1; [discriminate|].
           rewrite Hget1, E1. intros [[Hid _]|Hid]; [apply Hpool; exact Hid | lia].
        -- intros h' Hh' Hn. rewrite In_pool_add, In_pool_del. apply in_app_or in Hh'. destruct Hh' as [Hh'|[<-|[]]]; [|right; reflexivity].
           left. split; [apply Hdpool; assumption | apply Hfresh; exact Hh'].
        -- intros h' Hh' Hn. apply in_app_or in Hh'. apply in_or_app. destruct Hh' as [Hh'|[<-|[]]]; [|right; left; reflexivity].
           left. apply in_or_app. left. apply Hlog; assumption.
        -- intros h' Hh'. rewrite mget_mdel. destruct (h_id h' =? h_id h) eqn:E1; [reflexivity|].
           apply in_app_or in Hh'. destruct Hh' as [Hh'|[<-|[]]]; [apply Hdnp; exact Hh' | lia].
        -- intros id e He. rewrite mget_mdel. destruct (Hcover _ _ He) as [Hq | [h' [Hd Hid']]].
           ++ destruct (id =? h_id h) eqn:E1; [|left; exact Hq]. right. exists h. split; [apply in_or_app; right; left; reflexivity|].
              apply Z.eqb_eq in E1. congruence.
           ++ right. exists h'. split; [apply in_or_app; left; exact Hd | exact Hid'].
        -- intros h' Hh'. rewrite mget_mset. destruct (h_id h' =? h_id h) eqn:E1.
           ++ apply in_app_or in Hh'. destruct Hh' as [Hh'|[<-|[]]]; [exfalso; apply (Hfresh _ Hh'); lia|].
              unfold refreshed. rewrite (Hpo _ _ Hp), Esame. reflexivity.
           ++ rewrite Hget1, E1. apply in_app_or in Hh'. destruct Hh' as [Hh'|[<-|[]]]; [apply Hcontent; exact Hh' | lia].
        -- intros id Hid. rewrite In_pool_add, In_pool_del. destruct (Z.eq_dec id (h_id h)); [right; assumption | left; split; [apply Hmono; exact Hid | assumption]].
    + (* a new id *)
      rewrite (add_if_missing_new _ _ Hvalid Eh).
      pose proof (add_if_missing_new _ _ Hvalid Eh) as Hadd.
      assert (Hpn : mget (h_id h) prev = None).
      { destruct (mget (h_id h) prev) as [e|] eqn:E; [|reflexivity]. rewrite (Hpr _ _ E) in Eh. discriminate. }
      apply (IH (done ++ [h])); [exact Hsplit'|].
      constructor; simpl.
      * eapply add_if_missing_inv; eauto.
      * eapply addr_inj_add; [exact Hinj | | exact Hadd].
        intros id x Hx Hk. pose proof (Hfree _ _ Hx Hk). subst id. congruence.
      * intros id e. rewrite mget_mdel. destruct (id =? h_id h) eqn:E1; [discriminate|]. intros He.
        rewrite mget_mset_other by lia. apply Hpr. exact He.
      * intros id e. rewrite mget_mdel. destruct (id =? h_id h); [discriminate|]. apply Hpo.
      * apply NoDup_mkeys_mdel. exact Hpnd.
      * intros id x. rewrite mget_mset, mget_mdel. destruct (id =? h_id h) eqn:E1.
        -- intros Hx. injection Hx as <-. right. split; [reflexivity|]. exists h. split; [apply in_or_app; right; left; reflexivity|].
           apply Z.eqb_eq in E1. split; congruence.
        -- intros Hx. destruct (Hprov _ _ Hx) as [Hq | [Hq [h' [Hd [Hid' Hk']]]]]; [left; exact Hq|].
           right. split; [exact Hq|]. exists h'. split; [apply in_or_app; left; exact Hd | auto].
      * intros h' Hh'. rewrite mget_mset. destruct (h_id h' =? h_id h) eqn:E1; [discriminate|].
        apply in_app_or in Hh'. destruct Hh' as [Hh'|[<-|[]]]; [apply Hdone; exact Hh' | lia].
      * intros id. rewrite In_pool_add. rewrite mget_mset. destruct (id =? h_id h) eqn:E1; [discriminate|].
        intros [Hid|Hid]; [apply Hpool; exact Hid | lia].
      * intros h' Hh' Hn. rewrite In_pool_add. apply in_app_or in Hh'. destruct Hh' as [Hh'|[<-|[]]]; [|right; reflexivity].
        left. apply Hdpool; assumption.
      * intros h' Hh' Hn. apply in_app_or in Hh'. apply in_or_app. destruct Hh' as [Hh'|[<-|[]]]; [|right; left; reflexivity].
        left. apply Hlog; assumption.
      * intros h' Hh'. rewrite mget_mdel. destruct (h_id h' =? h_id h) eqn:E1; [reflexivity|].
        apply in_app_or in Hh'. destruct Hh' as [Hh'|[<-|[]]]; [apply Hdnp; exact Hh' | lia].
      * intros id e He. rewrite mget_mdel. destruct (Hcover _ _ He) as [Hq | [h' [Hd Hid']]].
        -- destruct (id =? h_id h) eqn:E1; [|left; exact Hq]. right. exists h. split; [apply in_or_app; right; left; reflexivity|].
           apply Z.eqb_eq in E1. congruence.
        -- right. exists h'. split; [apply in_or_app; left; exact Hd | exact Hid'].
      * intros h' Hh'. rewrite mget_mset. destruct (h_id h' =? h_id h) eqn:E1.
        -- apply in_app_or in Hh'. destruct Hh' as [Hh'|[<-|[]]]; [exfalso; apply (Hfresh _ Hh'); lia|].
           unfold refreshed. destruct (mget (h_id h) (hosts r0)) as [e|] eqn:E0; [|reflexivity]. exfalso.
           destruct (Hcover _ _ E0) as [Hq | [h' [Hd Hid']]]; [congruence | eapply Hfresh; eauto].
        -- apply in_app_or in Hh'. destruct Hh' as [Hh'|[<-|[]]]; [apply Hcontent; exact Hh' | lia].
      * intros id Hid. rewrite In_pool_add. left. apply Hmono. exact Hid.
Qed.
