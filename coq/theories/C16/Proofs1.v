(* C16/Proofs1.v -- the ring: index invariant, its preservation by every operation, and what it
   means for look-ups. *)
From GocqlV Require Import Lib.Base C16.ZMap C16.Model C16.Spec.

(* ---------------------------------------------------------------- small facts *)
Lemma zmem_In x l : zmem x l = true <-> In x l.
Proof.
  unfold zmem. rewrite existsb_exists. split.
  - intros [y [Hy E]]. apply Z.eqb_eq in E. subst. exact Hy.
  - intros H. exists x. split; [exact H | apply Z.eqb_refl].
Qed.

Lemma zmem_false x l : zmem x l = false <-> ~ In x l.
Proof. rewrite <- zmem_In. destruct (zmem x l); split; congruence. Qed.

Lemma remove_first_notin x l : ~ In x l -> remove_first x l = l.
Proof.
  induction l as [|y l IH]; simpl; intros H; [reflexivity|].
  destruct (y =? x) eqn:E; [apply Z.eqb_eq in E; subst; tauto|]. f_equal. apply IH. tauto.
Qed.

Lemma remove_first_mkeys {V} k (m : zmap V) : NoDup (mkeys m) -> remove_first k (mkeys m) = mkeys (mdel k m).
Proof.
  induction m as [|[k' v] m IH]; simpl; intros Hnd; [reflexivity|].
  inversion Hnd as [|? ? Hnotin Hnd']; subst.
  rewrite (Z.eqb_sym k k'). destruct (k' =? k) eqn:E.
  - apply Z.eqb_eq in E; subst. rewrite mdel_absent; [reflexivity|]. apply mget_None_keys. exact Hnotin.
  - simpl. f_equal. apply IH. exact Hnd'.
Qed.

(* ---------------------------------------------------------------- HostInfo facts *)
Lemma update_id e h : h_id e = h_id h -> h_id (update e h) = h_id e.
Proof. intros H. unfold update, or_z; simpl. destruct (h_id e =? 0) eqn:E; [|reflexivity]. congruence. Qed.

Lemma update_up e h : h_up (update e h) = h_up e.
Proof. reflexivity. Qed.

Lemma update_self h : update h h = h.
Proof.
  destruct h as [id p b l r pf c po dc rk tk up]. unfold update, or_z, or_ip, or_tok; simpl.
  f_equal; try (match goal with |- (if ?x =? 0 then _ else _) = _ => destruct (x =? 0); reflexivity end);
  try (match goal with |- match ?x with _ => _ end = _ => destruct x; reflexivity end).
Qed.

Lemma valid_ip_Some a : valid_ip a = true -> exists k, a = Some k /\ 0 < k.
Proof. destruct a as [k|]; simpl; [|discriminate]. intros H. exists k. split; [reflexivity | lia]. Qed.

Lemma ip_eqb_eq a b : ip_eqb a b = true <-> a = b.
Proof.
  destruct a as [x|], b as [y|]; simpl; split; intros H; try congruence; try discriminate.
  - apply Z.eqb_eq in H. congruence.
  - inversion H. apply Z.eqb_refl.
Qed.

Lemma n2n_zero_inv h : n2n h = ipv4zero -> valid_ip (h_bcast h) = false /\ valid_ip (h_peer h) = false.
Proof.
  unfold n2n, ipv4zero. destruct (valid_ip (h_bcast h)) eqn:Vb.
  - intros H. rewrite H in Vb. discriminate.
  - destruct (valid_ip (h_peer h)) eqn:Vp; [|auto]. intros H. rewrite H in Vp. discriminate.
Qed.

(* the refresh's "no host IP change" test guarantees that update does not move the node-to-node address *)
Lemma update_keeps_n2n e h : ip_eqb (n2n h) (n2n e) = true -> n2n (update e h) = n2n e.
Proof.
  intros H. apply ip_eqb_eq in H.
  assert (Hu : n2n (update e h) =
               if valid_ip (or_ip (h_bcast e) (h_bcast h)) then or_ip (h_bcast e) (h_bcast h)
               else if valid_ip (or_ip (h_peer e) (h_peer h)) then or_ip (h_peer e) (h_peer h) else ipv4zero) by reflexivity.
  rewrite Hu. clear Hu. unfold n2n at 1. unfold n2n in H at 2.
  destruct (h_bcast e) as [be|] eqn:Ebe; unfold or_ip at 1 2.
  - destruct (valid_ip (Some be)) eqn:Vbe; [reflexivity|].
    destruct (h_peer e) as [pe|] eqn:Epe; unfold or_ip; [reflexivity|].
    change (valid_ip None) with false in *. cbv iota in *.
    apply n2n_zero_inv in H. destruct H as [_ Hp]. rewrite Hp. reflexivity.
  - change (valid_ip None) with false in *. cbv iota in *.
    destruct (valid_ip (h_bcast h)) eqn:Vbh.
    + unfold n2n in H. rewrite Vbh in H. exact H.
    + destruct (h_peer e) as [pe|] eqn:Epe; unfold or_ip; [reflexivity|].
      change (valid_ip None) with false in *. cbv iota in *.
      apply n2n_zero_inv in H. destruct H as [_ Hp]. rewrite Hp. reflexivity.
Qed.

Lemma update_keeps_key e h : ip_eqb (n2n h) (n2n e) = true -> n2n_key (update e h) = n2n_key e.
Proof. intros H. unfold n2n_key. rewrite update_keeps_n2n by exact H. reflexivity. Qed.

(* ---------------------------------------------------------------- the invariant *)
Record ring_inv (r : ring) : Prop := mk_ring_inv {
  inv_nodup : NoDup (mkeys (hosts r));
  inv_id : forall id h, mget id (hosts r) = Some h -> h_id h = id;
  inv_sound : forall k id, mget k (ip2id r) = Some id -> exists h, mget id (hosts r) = Some h /\ n2n_key h = k;
  inv_complete : forall id h, mget id (hosts r) = Some h -> mget (n2n_key h) (ip2id r) <> None;
  inv_list : hlist r = mkeys (hosts r)
}.

Lemma ring_inv_empty : ring_inv empty_ring.
Proof. constructor; simpl; try constructor; intros; discriminate. Qed.

(* what the invariant means for the look-ups *)
Lemma ring_inv_lookups r : ring_inv r -> lookups_consistent r.
Proof.
  intros [Hnd Hid Hs Hc Hl]. unfold lookups_consistent, get_host. split; [exact Hid|]. split.
  - intros k. unfold get_by_ip. destruct (mget k (ip2id r)) as [id|] eqn:E.
    + destruct (Hs k id E) as [h1 [Hh Hk]]. rewrite Hh. split; [|exact Hk]. rewrite (Hid id h1 Hh). exact Hh.
    + destruct (mget 0 (hosts r)) as [h0|]; intros id h Hh Hk; apply (Hc id h Hh); rewrite Hk; exact E.
  - split.
    + rewrite Hl. exact Hnd.
    + intros id. rewrite Hl. apply mget_keys.
Qed.

(* ---------------------------------------------------------------- preservation *)
Lemma add_if_missing_inv r h r' e b : ring_inv r -> add_if_missing r h = Some (r', e, b) -> ring_inv r'.
Proof.
  intros [Hnd Hid Hs Hc Hl] H. unfold add_if_missing in H.
  destruct (invalid_connect_addr h); [discriminate|].
  destruct (mget (h_id h) (hosts r)) as [e0|] eqn:E; inversion H; subst; clear H.
  - constructor; assumption.
  - constructor; simpl.
    + apply NoDup_mkeys_mset. exact Hnd.
    + intros id x. rewrite mget_mset. destruct (id =? h_id e) eqn:E1.
      * apply Z.eqb_eq in E1. intros Hx; inversion Hx; subst. reflexivity.
      * apply Hid.
    + intros k id. rewrite mget_mset. destruct (k =? n2n_key e) eqn:E1.
      * apply Z.eqb_eq in E1. intros Hx; inversion Hx; subst. exists e. split; [apply mget_mset_same | reflexivity].
      * intros Hk. destruct (Hs k id Hk) as [h0 [Hh0 Hk0]]. exists h0. split; [|exact Hk0].
        rewrite mget_mset_other; [exact Hh0|]. intros ->. congruence.
    + intros id x. rewrite mget_mset. destruct (id =? h_id e) eqn:E1.
      * intros Hx; inversion Hx; subst. rewrite mget_mset_same. discriminate.
      * intros Hx. rewrite mget_mset. destruct (n2n_key x =? n2n_key e); [discriminate|]. apply (Hc id x Hx).
    + rewrite mkeys_mset_absent by exact E. rewrite Hl. reflexivity.
Qed.

Lemma update_in_place_inv r id e e' :
  ring_inv r -> mget id (hosts r) = Some e -> h_id e' = id -> n2n_key e' = n2n_key e ->
  ring_inv (mkRing (mset id e' (hosts r)) (ip2id r) (hlist r)).
Proof.
  intros [Hnd Hid Hs Hc Hl] He Hid' Hk'. constructor; simpl.
  - apply NoDup_mkeys_mset. exact Hnd.
  - intros id0 x. rewrite mget_mset. destruct (id0 =? id) eqn:E1.
    + apply Z.eqb_eq in E1. intros Hx. injection Hx as <-. congruence.
    + apply Hid.
  - intros k id0 Hk. destruct (Hs k id0 Hk) as [h0 [Hh0 Hk0]]. destruct (Z.eq_dec id0 id) as [->|Hne].
    + exists e'. split; [apply mget_mset_same|]. rewrite He in Hh0. injection Hh0 as <-. congruence.
    + exists h0. split; [|exact Hk0]. rewrite mget_mset_other by exact Hne. exact Hh0.
  - intros id0 x. rewrite mget_mset. destruct (id0 =? id) eqn:E1.
    + intros Hx. injection Hx as <-. rewrite Hk'. apply (Hc id e He).
    + intros Hx. apply (Hc id0 x Hx).
  - rewrite mkeys_mset_present; [exact Hl | congruence].
Qed.

(* ---------------------------------------------------------------- unindexAddrLocked *)
Lemma find_none_all {A} (f : A -> bool) l : find f l = None -> forall x, In x l -> f x = false.
Proof.
  induction l as [|y l IH]; simpl; intros H x Hx; [contradiction|].
  destruct (f y) eqn:E; [discriminate|]. destruct Hx as [<-|Hx]; auto.
Qed.

Lemma unindex_other hs hl m k id k' : k' <> k -> mget k' (unindex hs hl m k id) = mget k' m.
Proof.
  intros Hne. unfold unindex. destruct ((match mget k m with Some x => x | None => 0 end) =? id); [|reflexivity].
  destruct (find (shares hs k id) hl).
  - rewrite mget_mset_other by exact Hne. apply mget_mdel_other. exact Hne.
  - apply mget_mdel_other. exact Hne.
Qed.

(* at the address itself: an entry of another host is kept; the host's own entry goes to a host that
   shares the address, if there is one *)
Lemma unindex_same hs hl m k id :
  mget k (unindex hs hl m k id) =
  if (match mget k m with Some x => x | None => 0 end) =? id then find (shares hs k id) hl else mget k m.
Proof.
  unfold unindex. destruct ((match mget k m with Some x => x | None => 0 end) =? id); [|reflexivity].
  destruct (find (shares hs k id) hl); [apply mget_mset_same | apply mget_mdel_same].
Qed.

Lemma shares_true hs k id id' : shares hs k id id' = true ->
  id' <> id /\ exists x, mget id' hs = Some x /\ n2n_key x = k.
Proof.
  unfold shares. intros H. apply andb_true_iff in H. destruct H as [H1 H2]. split; [lia|].
  destruct (mget id' hs) as [x|]; [|discriminate]. exists x. split; [reflexivity | lia].
Qed.

(* what unindex guarantees when it is applied to a consistent index.  [hs0] is the host map the index is
   consistent with (the host [h0] under [id] has address [k]); [hs1] is the map afterwards, in which every
   other host is unchanged and [id] is gone or has another address; the scan uses [hs] which agrees with
   [hs0] on the other hosts and ranges over [hl], a list holding every other host of [hs1]. *)
Lemma unindex_consistent hs0 hs1 hs hl m k id h0 :
  mget id hs0 = Some h0 -> n2n_key h0 = k ->
  (forall id' x, id' <> id -> mget id' hs = Some x <-> mget id' hs0 = Some x) ->
  (forall id' x, id' <> id -> mget id' hs1 = Some x <-> mget id' hs0 = Some x) ->
  (forall id' x, id' <> id -> mget id' hs1 = Some x -> In id' hl) ->
  (forall k' id', mget k' m = Some id' -> exists x, mget id' hs0 = Some x /\ n2n_key x = k') ->
  (forall id' x, mget id' hs0 = Some x -> mget (n2n_key x) m <> None) ->
  let m' := unindex hs hl m k id in
  (forall k' id', mget k' m' = Some id' -> id' <> id /\ exists x, mget id' hs1 = Some x /\ n2n_key x = k')
  /\ (forall id' x, id' <> id -> mget id' hs1 = Some x -> mget (n2n_key x) m' <> None).
Proof.
  intros Hh0 Hk0 Hhs Hhs1 Hhl Hs Hc m'. split.
  - intros k' id' H. destruct (Z.eq_dec k' k) as [->|Hne].
    + unfold m' in H. rewrite unindex_same in H.
      destruct ((match mget k m with Some x => x | None => 0 end) =? id) eqn:E.
      * apply find_some in H. destruct H as [_ H]. apply shares_true in H. destruct H as [Hne [x [Hx Hkx]]].
        split; [exact Hne|]. exists x. split; [|exact Hkx]. apply Hhs1; [exact Hne|]. apply Hhs; assumption.
      * destruct (Hs _ _ H) as [x [Hx Hkx]]. rewrite H in E.
        assert (Hne : id' <> id) by lia. split; [exact Hne|]. exists x. split; [|exact Hkx]. apply Hhs1; assumption.
    + unfold m' in H. rewrite unindex_other in H by exact Hne. destruct (Hs _ _ H) as [x [Hx Hkx]].
      assert (Hne' : id' <> id). { intros ->. rewrite Hh0 in Hx. injection Hx as <-. congruence. }
      split; [exact Hne'|]. exists x. split; [|exact Hkx]. apply Hhs1; assumption.
  - intros id' x Hne Hx. assert (Hx0 : mget id' hs0 = Some x) by (apply Hhs1; assumption).
    destruct (Z.eq_dec (n2n_key x) k) as [Hkx|Hkx].
    + rewrite Hkx. unfold m'. rewrite unindex_same.
      destruct ((match mget k m with Some y => y | None => 0 end) =? id) eqn:E.
      * destruct (find (shares hs k id) hl) eqn:F; [discriminate|]. exfalso.
        pose proof (find_none_all _ _ F id' (Hhl _ _ Hne Hx)) as Hf. unfold shares in Hf.
        assert (Hg : mget id' hs = Some x) by (apply Hhs; assumption). rewrite Hg in Hf.
        apply andb_false_iff in Hf. destruct Hf as [Hf|Hf]; lia.
      * rewrite <- Hkx. apply (Hc _ _ Hx0).
    + unfold m'. rewrite unindex_other by exact Hkx. apply (Hc _ _ Hx0).
Qed.

Lemma remove_host_ring_inv r id : ring_inv r -> ring_inv (fst (remove_host_ring r id)).
Proof.
  intros Hinv. unfold remove_host_ring. destruct (mget id (hosts r)) as [h|] eqn:E; simpl; [|exact Hinv].
  destruct Hinv as [Hnd Hid Hs Hc Hl].
  assert (Hl1 : remove_first id (hlist r) = mkeys (mdel id (hosts r))) by (rewrite Hl; apply remove_first_mkeys; exact Hnd).
  destruct (unindex_consistent (hosts r) (mdel id (hosts r)) (hosts r) (remove_first id (hlist r)) (ip2id r) (n2n_key h) id h
              E eq_refl) as [U1 U2]; auto.
  - intros id' x Hne. tauto.
  - intros id' x Hne. rewrite mget_mdel_other by exact Hne. tauto.
  - intros id' x Hne Hx. rewrite Hl1. apply mget_keys. congruence.
  - constructor; simpl.
    + apply NoDup_mkeys_mdel. exact Hnd.
    + intros id0 x. rewrite mget_mdel. destruct (id0 =? id); [discriminate | apply Hid].
    + intros k id0 Hk. destruct (U1 _ _ Hk) as [_ H]. exact H.
    + intros id0 x. rewrite mget_mdel. destruct (id0 =? id) eqn:E1; [discriminate|]. intros Hx.
      apply (U2 id0 x); [lia|]. rewrite mget_mdel_other by lia. exact Hx.
    + exact Hl1.
Qed.

Lemma add_or_update_inv r h r' e : ring_inv r -> add_or_update r h = Some (r', e) -> ring_inv r'.
Proof.
  intros Hinv H. unfold add_or_update in H.
  destruct (add_if_missing r h) as [[[r1 e1] b]|] eqn:E; [|discriminate].
  pose proof (add_if_missing_inv _ _ _ _ _ Hinv E) as Hinv1.
  destruct b; [|injection H as <- <-; exact Hinv1].
  unfold add_if_missing in E. destruct (invalid_connect_addr h); [discriminate|].
  destruct (mget (h_id h) (hosts r)) as [e0|] eqn:E0; [|discriminate]. injection E as <- <-.
  injection H as <- <-.
  assert (Hide : h_id e0 = h_id h) by (apply (inv_id _ Hinv _ _ E0)).
  assert (Hid' : h_id (update e0 h) = h_id h) by (rewrite update_id; congruence).
  destruct (n2n_key (update e0 h) =? n2n_key e0) eqn:Ek.
  - cbn [negb andb]. apply update_in_place_inv with (e := e0); auto. lia.
  - assert (Hz : or_z (h_id e0) (h_id h) = h_id h) by exact Hid'.
    rewrite !Hz, Z.eqb_refl. cbn [negb andb].
    destruct Hinv1 as [Hnd Hid Hs Hc Hl].
    set (hs' := mset (h_id h) (update e0 h) (hosts r)).
    destruct (unindex_consistent (hosts r) hs' hs' (hlist r) (ip2id r) (n2n_key e0) (h_id h) e0 E0 eq_refl) as [U1 U2]; auto.
    + intros id' x Hne. unfold hs'. rewrite mget_mset_other by exact Hne. tauto.
    + intros id' x Hne. unfold hs'. rewrite mget_mset_other by exact Hne. tauto.
    + intros id' x Hne Hx. rewrite Hl. apply mget_keys. unfold hs' in Hx. rewrite mget_mset_other in Hx by exact Hne. congruence.
    + constructor; simpl; fold hs'.
      * apply NoDup_mkeys_mset. exact Hnd.
      * intros id0 x. unfold hs'. rewrite mget_mset. destruct (id0 =? h_id h) eqn:E1.
        -- apply Z.eqb_eq in E1. intros Hx. injection Hx as <-. congruence.
        -- apply Hid.
      * intros k id0. rewrite mget_mset. destruct (k =? n2n_key (update e0 h)) eqn:E1.
        -- apply Z.eqb_eq in E1. intros Hx. injection Hx as <-. exists (update e0 h).
           split; [unfold hs'; apply mget_mset_same | congruence].
        -- intros Hk. destruct (U1 _ _ Hk) as [_ Hx]. exact Hx.
      * intros id0 x Hx. rewrite mget_mset. destruct (n2n_key x =? n2n_key (update e0 h)) eqn:E1; [discriminate|].
        destruct (Z.eq_dec id0 (h_id h)) as [->|Hne].
        -- unfold hs' in Hx. rewrite mget_mset_same in Hx. injection Hx as <-. lia.
        -- apply (U2 id0 x Hne Hx).
      * unfold hs'. rewrite mkeys_mset_present; [exact Hl | congruence].
Qed.

Lemma ring_step_inv r o : ring_inv r -> ring_inv (fst (ring_step r o)).
Proof.
  intros Hinv. destruct o as [h|h|id]; simpl.
  - destruct (add_if_missing r h) as [[[r1 e1] b]|] eqn:E; simpl; [|exact Hinv].
    eapply add_if_missing_inv; eauto.
  - destruct (add_or_update r h) as [[r1 e1]|] eqn:E; simpl; [|exact Hinv].
    eapply add_or_update_inv; eauto.
  - pose proof (remove_host_ring_inv r id Hinv) as H. destruct (remove_host_ring r id); exact H.
Qed.

Lemma ring_run_inv ops : forall r, ring_inv r -> ring_inv (ring_run r ops).
Proof.
  induction ops as [|o tl IH]; intros r Hinv; simpl; [exact Hinv|].
  apply IH. apply ring_step_inv. exact Hinv.
Qed.

Lemma ring_history_consistent ops : lookups_consistent (ring_run empty_ring ops).
Proof. apply ring_inv_lookups. apply ring_run_inv. apply ring_inv_empty. Qed.
