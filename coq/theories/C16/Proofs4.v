(* C16/Proofs4.v -- session histories: the invariant over every history of refreshes, events,
   connection notifications and control-connection set-ups; event handling never panics; batching;
   a node reported down stays down until it is connected again. *)
From GocqlV Require Import Lib.Base C16.ZMap C16.Model C16.Spec C16.Proofs1 C16.Proofs2 C16.Proofs3.

Record sess_inv (s : sess) : Prop := mk_sess_inv {
  si_ring : ring_inv (s_ring s);
  si_pool : forall id, In id (s_pool s) -> knows (s_ring s) id
}.

Lemma sess_inv_empty : sess_inv empty_sess.
Proof. constructor; [apply ring_inv_empty | intros id []]. Qed.

Lemma sess_inv_lookups s : sess_inv s -> lookups_consistent (s_ring s).
Proof. intros H. apply ring_inv_lookups. apply (si_ring _ H). Qed.

(* changing a host's record in place without touching id and address *)
Lemma sess_inv_set s id e e' pool log rf :
  sess_inv s -> mget id (hosts (s_ring s)) = Some e -> h_id e' = id -> n2n_key e' = n2n_key e ->
  (forall x, In x pool -> In x (s_pool s)) ->
  sess_inv (mkSess (mkRing (mset id e' (hosts (s_ring s))) (ip2id (s_ring s)) (hlist (s_ring s))) pool log rf).
Proof.
  intros [Hr Hp] He Hid Hk Hsub. constructor; simpl.
  - apply update_in_place_inv with (e := e); assumption.
  - intros x Hx. unfold knows, get_host. simpl. rewrite mget_mset. destruct (x =? id); [discriminate|].
    apply Hp. apply Hsub. exact Hx.
Qed.

Lemma set_up_id h b : h_id (set_up h b) = h_id h.  Proof. reflexivity. Qed.
Lemma set_up_key h b : n2n_key (set_up h b) = n2n_key h.  Proof. reflexivity. Qed.

(* under the invariant the address index never answers (nil, true) *)
Lemma get_by_ip_inv r k : ring_inv r ->
  match get_by_ip r k with
  | (Some h, true) => mget (h_id h) (hosts r) = Some h /\ n2n_key h = k
  | (None, true) => False
  | (_, false) => True
  end.
Proof.
  intros Hinv. destruct (ring_inv_lookups r Hinv) as [_ [H _]]. specialize (H k).
  destruct (get_by_ip r k) as [[h|] [|]]; auto.
Qed.

(* ---------------------------------------------------------------- events *)
Lemma node_up_ok c s k : sess_inv s -> exists s', node_up c s k = Some s' /\ sess_inv s' /\ s_ring s' = s_ring s.
Proof.
  intros Hinv. unfold node_up. pose proof (get_by_ip_inv (s_ring s) k (si_ring _ Hinv)) as H.
  destruct (get_by_ip (s_ring s) k) as [[h|] [|]]; try contradiction.
  - destruct H as [Hh Hk]. destruct (negb (accept c h)).
    + exists s. auto.
    + exists (start_pool_fill s h). split; [reflexivity|]. split; [|reflexivity].
      destruct Hinv as [Hr Hp]. constructor; simpl; auto.
      intros id. rewrite In_pool_add. intros [Hid| ->]; [apply Hp; exact Hid|]. unfold knows, get_host. congruence.
  - exists (request_refresh s). split; [reflexivity|]. split; [|reflexivity]. destruct Hinv. constructor; auto.
  - exists (request_refresh s). split; [reflexivity|]. split; [|reflexivity]. destruct Hinv. constructor; auto.
Qed.

Lemma node_down_ok c s k : sess_inv s -> exists s', node_down c s k = Some s' /\ sess_inv s'.
Proof.
  intros Hinv. unfold node_down. pose proof (get_by_ip_inv (s_ring s) k (si_ring _ Hinv)) as H.
  destruct (get_by_ip (s_ring s) k) as [[h|] [|]]; try contradiction; try (exists s; auto; fail).
  destruct H as [Hh Hk]. rewrite set_up_id.
  destruct (negb (accept c (set_up h false))); eexists; (split; [reflexivity|]).
  - unfold with_ring. simpl. eapply sess_inv_set; eauto.
  - simpl. eapply sess_inv_set; eauto. intros x Hx. apply In_pool_del in Hx. tauto.
Qed.

Lemma node_connected_ok c s id : sess_inv s -> sess_inv (node_connected c s id).
Proof.
  intros Hinv. unfold node_connected. destruct (mget id (hosts (s_ring s))) as [h|] eqn:E; [|exact Hinv].
  pose proof (inv_id _ (si_ring _ Hinv) _ _ E) as Hid.
  destruct (accept c (set_up h true)); unfold logp, with_ring; simpl; eapply sess_inv_set; eauto.
Qed.

Lemma dispatch_ok c : forall m s, sess_inv s -> exists s', dispatch c s m = Some s' /\ sess_inv s'.
Proof.
  induction m as [|[k ch] tl IH]; intros s Hinv; simpl; [exists s; auto|].
  assert (H : exists s1, (if ch =? 1 then if dis_status c then Some s else node_up c s k
                          else if ch =? 2 then if dis_status c then Some s else node_down c s k else Some s) = Some s1
                         /\ sess_inv s1).
  { destruct (ch =? 1).
    - destruct (dis_status c); [exists s; auto|]. destruct (node_up_ok c s k Hinv) as [s1 [H1 [H2 _]]]. exists s1. auto.
    - destruct (ch =? 2); [|exists s; auto]. destruct (dis_status c); [exists s; auto|]. apply node_down_ok. exact Hinv. }
  destruct H as [s1 [H1 H2]]. rewrite H1. apply IH. exact H2.
Qed.

Lemma handle_node_events_ok c s evs : sess_inv s -> exists s', handle_node_events c s evs = Some s' /\ sess_inv s'.
Proof.
  intros Hinv. unfold handle_node_events. apply dispatch_ok.
  destruct (existsb is_topo evs && negb (dis_topo c)); [|exact Hinv]. destruct Hinv. constructor; auto.
Qed.

(* ---------------------------------------------------------------- addOrUpdate from Session.init / setupConn *)
Lemma add_or_update_ok r h : ring_inv r -> invalid_connect_addr h = false ->
  exists r' e, add_or_update r h = Some (r', e) /\ ring_inv r'
               /\ (forall id, knows r id -> knows r' id) /\ knows r' (h_id e) .
Proof.
  intros Hinv Hv.
  destruct (add_or_update r h) as [[r' e]|] eqn:Hau.
  - exists r', e. split; [reflexivity|]. split; [eapply add_or_update_inv; eauto|].
    unfold add_or_update in Hau. destruct (mget (h_id h) (hosts r)) as [e0|] eqn:E.
    + rewrite (add_if_missing_old _ _ _ Hv E) in Hau. injection Hau as <- <-.
      assert (Hid : h_id (update e0 h) = h_id h).
      { rewrite update_id; [apply (inv_id _ Hinv _ _ E)|]. rewrite (inv_id _ Hinv _ _ E). reflexivity. }
      unfold knows, get_host. cbn [hosts]. split.
      * intros id. rewrite mget_mset. destruct (id =? h_id h); [discriminate | auto].
      * rewrite Hid, mget_mset_same. discriminate.
    + rewrite (add_if_missing_new _ _ Hv E) in Hau. injection Hau as <- <-.
      unfold knows, get_host. cbn [hosts]. split.
      * intros id. rewrite mget_mset. destruct (id =? h_id h); [discriminate | auto].
      * rewrite mget_mset_same. discriminate.
  - exfalso. unfold add_or_update in Hau. destruct (mget (h_id h) (hosts r)) as [e0|] eqn:E.
    + rewrite (add_if_missing_old _ _ _ Hv E) in Hau. discriminate.
    + rewrite (add_if_missing_new _ _ Hv E) in Hau. discriminate.
Qed.

Definition hosts_valid (hs : list hostinfo) : Prop := forall h, In h hs -> invalid_connect_addr h = false.

Lemma init_hosts_ok c : forall hs s, sess_inv s -> hosts_valid hs -> exists s', init_hosts c s hs = Some s' /\ sess_inv s'.
Proof.
  induction hs as [|h tl IH]; intros s Hinv Hok; simpl; [exists s; auto|].
  destruct Hinv as [Hr Hp].
  destruct (add_or_update_ok _ _ Hr (Hok h (or_introl eq_refl))) as [r' [e [Hau [Hr' [Hk Hke]]]]]. rewrite Hau.
  apply IH; [|intros x Hx; apply Hok; right; exact Hx]. destruct (accept c e); constructor; simpl; auto.
  intros id. rewrite In_pool_add. intros [Hid| ->]; auto.
Qed.

(* ---------------------------------------------------------------- histories *)
Definition label_ok (c : cfg) (s : sess) (l : label) : Prop :=
  match l with
  | LInit hs => hosts_valid hs
  | LControl h => invalid_connect_addr h = false
  | LRefresh report => report_ok c report
  | LRefreshFail | LEvents _ | LConnected _ => True
  end.

Fixpoint history_ok (c : cfg) (s : sess) (ls : list label) : Prop :=
  match ls with
  | [] => True
  | l :: tl => label_ok c s l /\ match step c s l with Some s' => history_ok c s' tl | None => True end
  end.

Lemma refresh_started_inv s : sess_inv s -> sess_inv (refresh_started s).
Proof. intros [A B]. constructor; auto. Qed.

Lemma step_ok c s l : sess_inv s -> label_ok c s l -> exists s', step c s l = Some s' /\ sess_inv s'.
Proof.
  intros Hinv Hok. destruct l as [hs|h|report| |evs|id]; simpl in *.
  - apply init_hosts_ok; assumption.
  - destruct Hinv as [Hr Hp]. destruct (add_or_update_ok _ _ Hr Hok) as [r' [e [Hau [Hr' [Hk _]]]]].
    rewrite Hau. eexists. split; [reflexivity|]. constructor; simpl; auto.
  - pose proof (refresh_started_inv s Hinv) as [Hr Hp].
    destruct (refresh_correct c (refresh_started s) report Hr Hp Hok) as [s' [Hs' Hpost]].
    rewrite Hs'. exists s'. split; [reflexivity|]. destruct Hpost. constructor; auto.
  - eexists. split; [reflexivity|]. apply refresh_started_inv. exact Hinv.
  - apply handle_node_events_ok. exact Hinv.
  - eexists. split; [reflexivity|]. apply node_connected_ok. exact Hinv.
Qed.

Lemma run_ok c : forall ls s, sess_inv s -> history_ok c s ls -> exists s', run c s ls = Some s' /\ sess_inv s'.
Proof.
  induction ls as [|l tl IH]; intros s Hinv Hok; simpl; [exists s; auto|].
  destruct Hok as [Hl Htl]. destruct (step_ok c s l Hinv Hl) as [s1 [H1 H2]]. rewrite H1 in *. apply IH; assumption.
Qed.

Lemma history_invariant c ls : history_ok c empty_sess ls ->
  exists s, run c empty_sess ls = Some s /\ sess_inv s /\ lookups_consistent (s_ring s).
Proof.
  intros H. destruct (run_ok c ls empty_sess sess_inv_empty H) as [s [H1 H2]]. exists s. split; [exact H1|].
  split; [exact H2 | apply sess_inv_lookups; exact H2].
Qed.

(* a batch of node events never panics in a session whose indexes are consistent *)
Lemma events_no_crash c s evs : sess_inv s -> handle_node_events c s evs <> None.
Proof. intros H. destruct (handle_node_events_ok c s evs H) as [s' [E _]]. congruence. Qed.
