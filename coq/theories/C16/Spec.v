(* C16/Spec.v -- what property C16 says, phrased over what can be observed of the driver's picture of
   the cluster (look-ups by id and by address, the ordered host list, pool membership, calls made on the
   host selection policy), independently of how ring.go / host_source.go / events.go compute it. *)
From GocqlV Require Import Lib.Base C16.ZMap C16.Model.

(* "node details are looked up by id and by address consistently" *)
Definition lookups_consistent (r : ring) : Prop :=
  (* by id: what is stored under an id is a node with that id *)
  (forall id h, get_host r id = Some h -> h_id h = id)
  (* by address: a positive answer is a node of the ring that has this address; a negative answer means
     that no node of the ring has this address; (nil, true) never happens *)
  /\ (forall k, match get_by_ip r k with
                | (Some h, true) => get_host r (h_id h) = Some h /\ n2n_key h = k
                | (None, true) => False
                | (_, false) => forall id h, get_host r id = Some h -> n2n_key h <> k
                end)
  (* the ordered list holds every known node exactly once *)
  /\ NoDup (hlist r) /\ (forall id, In id (hlist r) <-> get_host r id <> None).

(* the set of nodes the session knows *)
Definition knows (r : ring) (id : Z) : Prop := get_host r id <> None.

(* "local node plus valid peers, minus those the host filter rejects": the report handed to the refresh
   is already local :: valid peers (Model.get_hosts); the filter is applied here *)
Definition accepted (c : cfg) (report : list hostinfo) : list hostinfo := filter (accept c) report.
Definition reported_ids (c : cfg) (report : list hostinfo) : list Z := map h_id (accepted c report).

(* a host id reported more than once counts once: its first report *)
Fixpoint first_by_id (seen : list Z) (hs : list hostinfo) : list hostinfo :=
  match hs with
  | [] => []
  | h :: tl => if zmem (h_id h) seen then first_by_id seen tl else h :: first_by_id (h_id h :: seen) tl
  end.
Definition effective (c : cfg) (report : list hostinfo) : list hostinfo := first_by_id [] (accepted c report).

(* membership of a host selection policy that does what the calls tell it: AddHost adds, RemoveHost removes *)
Fixpoint policy_members (log : list paction) (acc : list Z) : list Z :=
  match log with
  | [] => acc
  | PAdd id :: tl => policy_members tl (if zmem id acc then acc else acc ++ [id])
  | PRemove id :: tl => policy_members tl (filter (fun y => negb (y =? id)) acc)
  | _ :: tl => policy_members tl acc
  end.

(* a node is offered for queries when it has a connection pool and is marked up *)
Definition offered (s : sess) (id : Z) : bool :=
  zmem id (s_pool s) && match get_host (s_ring s) id with Some h => h_up h | None => false end.

(* event batching: the status that counts for an address is the one of the last status event for it *)
Fixpoint last_status (evs : list nevent) (k : Z) : option Z :=
  match evs with
  | [] => None
  | e :: tl =>
      match last_status tl k with
      | Some ch => Some ch
      | None => match e with EStatus ch k' => if k' =? k then Some ch else None | ETopo _ _ => None end
      end
  end.

(* addresses that occur in status events, each once *)
Fixpoint status_addrs (evs : list nevent) : list Z :=
  match evs with
  | [] => []
  | EStatus _ k :: tl => if zmem k (status_addrs tl) then status_addrs tl else k :: status_addrs tl
  | ETopo _ _ :: tl => status_addrs tl
  end.
