(* C16/Proofs7.v -- the refresh's second loop ranges over a Go map: its result does not depend on the
   order.  The ring after removing a set of hosts is characterised by a canonical form that mentions the
   removed hosts only through membership. *)
From Coq Require Import Permutation.
From GocqlV Require Import Lib.Base C16.ZMap C16.Model C16.Spec C16.Proofs1 C16.Proofs2 C16.Proofs3.

(* ---- list facts *)
Lemma find_filter {A} (f g : A -> bool) l : find f (filter g l) = find (fun x => g x && f x) l.
Proof.
  induction l as [|x l IH]; simpl; [reflexivity|]. destruct (g x); simpl; [|exact IH].
  destruct (f x); [reflexivity | exact IH].
Qed.

Lemma find_ext_in {A} (f g : A -> bool) l : (forall x, In x l -> f x = g x) -> find f l = find g l.
Proof.
  induction l as [|x l IH]; simpl; intros H; [reflexivity|]. rewrite (H x (or_introl eq_refl)).
  destruct (g x); [reflexivity|]. apply IH. intros y Hy. apply H. right. exact Hy.
Qed.

Lemma filter_ext_in' {A} (f g : A -> bool) l : (forall x, In x l -> f x = g x) -> filter f l = filter g l.
Proof.
  induction l as [|x l IH]; simpl; intros H; [reflexivity|]. rewrite (H x (or_introl eq_refl)).
  rewrite IH; [reflexivity|]. intros y Hy. apply H. right. exact Hy.
Qed.

Lemma filter_filter {A} (f g : A -> bool) l : filter f (filter g l) = filter (fun x => g x && f x) l.
Proof.
  induction l as [|x l IH]; simpl; [reflexivity|]. destruct (g x); simpl; [|exact IH].
  destruct (f x); [f_equal|]; exact IH.
Qed.

(* the first element satisfying p also satisfies the stronger q: it is the first one satisfying q *)
Lemma find_stronger {A} (p q : A -> bool) l o :
  (forall x, q x = true -> p x = true) -> find p l = Some o -> q o = true -> find q l = Some o.
Proof.
  intros Hqp. induction l as [|x l IH]; simpl; [discriminate|]. destruct (p x) eqn:Ep.
  - intros H Hq. injection H as ->. rewrite Hq. reflexivity.
  - intros H Hq. destruct (q x) eqn:Eq; [rewrite (Hqp _ Eq) in Ep; discriminate | auto].
Qed.

Lemma find_none_stronger {A} (p q : A -> bool) l :
  (forall x, q x = true -> p x = true) -> find p l = None -> find q l = None.
Proof.
  intros Hqp. induction l as [|x l IH]; simpl; [reflexivity|]. destruct (p x) eqn:Ep; [discriminate|].
  intros H. destruct (q x) eqn:Eq; [rewrite (Hqp _ Eq) in Ep; discriminate | auto].
Qed.

Lemma remove_first_filter x l : NoDup l -> remove_first x l = filter (fun y => negb (y =? x)) l.
Proof.
  induction l as [|y l IH]; simpl; intros Hnd; [reflexivity|]. inversion Hnd as [|? ? Hn Hnd']; subst.
  destruct (y =? x) eqn:E; simpl.
  - apply Z.eqb_eq in E. subst. symmetry. rewrite <- (filter_ext_in' (fun _ => true)).
    + clear. induction l; simpl; [reflexivity | f_equal; assumption].
    + intros z Hz. destruct (z =? x) eqn:E; [apply Z.eqb_eq in E; subst; contradiction | reflexivity].
  - f_equal. apply IH. exact Hnd'.
Qed.

(* ---- the canonical form *)
Definition has_key (r : ring) (k id : Z) : bool :=
  match mget id (hosts r) with Some x => n2n_key x =? k | None => false end.

(* the address index after the hosts R have been removed from r: an entry whose owner stays is kept; an
   entry whose owner goes passes to the first remaining host of the ordered list that has the address *)
Definition ip_after (r : ring) (R : list Z) (k : Z) : option Z :=
  match mget k (ip2id r) with
  | None => None
  | Some o => if zmem o R then find (fun id => negb (zmem id R) && has_key r k id) (hlist r) else Some o
  end.

Lemma ip_after_nil r k : ip_after r [] k = mget k (ip2id r).
Proof. unfold ip_after. destruct (mget k (ip2id r)); reflexivity. Qed.

(* one removal followed by the canonical form for T = the canonical form for a :: T *)
Lemma ip_after_step r a e T k :
  ring_inv r -> mget a (hosts r) = Some e ->
  ip_after (fst (remove_host_ring r a)) T k = ip_after r (a :: T) k.
Proof.
  intros Hinv Ha. destruct Hinv as [Hnd Hid Hs Hc Hl].
  assert (Hndl : NoDup (hlist r)) by (rewrite Hl; exact Hnd).
  unfold remove_host_ring. rewrite Ha. cbn [fst]. unfold ip_after at 1. cbn [ip2id hlist hosts].
  (* the scan over the remaining list *)
  assert (Hfind : find (fun id => negb (zmem id T) && has_key (mkRing (mdel a (hosts r)) (unindex (hosts r) (remove_first a (hlist r)) (ip2id r) (n2n_key e) a) (remove_first a (hlist r))) k id)
                       (remove_first a (hlist r))
                  = find (fun id => negb (zmem id (a :: T)) && has_key r k id) (hlist r)).
  { rewrite remove_first_filter by exact Hndl. rewrite find_filter. apply find_ext_in. intros x _.
    unfold has_key. cbn [hosts]. rewrite mget_mdel. rewrite zmem_cons. destruct (x =? a) eqn:E; simpl; [reflexivity|].
    reflexivity. }
  destruct (Z.eq_dec k (n2n_key e)) as [->|Hne].
  - (* the address of the removed host *)
    rewrite unindex_same. unfold ip_after.
    destruct (mget (n2n_key e) (ip2id r)) as [o0|] eqn:Eo; [|exfalso; apply (Hc _ _ Ha); exact Eo].
    destruct (o0 =? a) eqn:Eoa.
    + apply Z.eqb_eq in Eoa. subst o0. rewrite zmem_cons, Z.eqb_refl. cbn [orb].
      set (G := find (shares (hosts r) (n2n_key e) a) (remove_first a (hlist r))).
      assert (HG : G = find (fun id => negb (id =? a) && has_key r (n2n_key e) id) (hlist r)).
      { unfold G. rewrite remove_first_filter by exact Hndl. rewrite find_filter. apply find_ext_in. intros x _.
        unfold shares, has_key. destruct (x =? a); reflexivity. }
      destruct G as [o|] eqn:EG.
      * destruct (zmem o T) eqn:EoT; [exact Hfind|]. symmetry.
        eapply find_stronger; [| symmetry; exact HG |].
        -- intros x Hx. cbv beta in *. rewrite zmem_cons in Hx. destruct (x =? a); cbn [negb orb andb] in *; [discriminate|].
           apply andb_true_iff in Hx. destruct Hx as [_ Hx]. exact Hx.
        -- rewrite zmem_cons. symmetry in HG. apply find_some in HG. destruct HG as [_ HG].
           apply andb_true_iff in HG. destruct HG as [H1 H2]. rewrite H2. destruct (o =? a); [discriminate|]. simpl. rewrite EoT. reflexivity.
      * symmetry. eapply find_none_stronger; [| symmetry; exact HG].
        intros x Hx. cbv beta in *. rewrite zmem_cons in Hx. destruct (x =? a); cbn [negb orb andb] in *; [discriminate|].
        apply andb_true_iff in Hx. destruct Hx as [_ Hx]. exact Hx.
    + rewrite zmem_cons. rewrite (Z.eqb_sym o0 a) in Eoa. rewrite Z.eqb_sym in Eoa. rewrite Eoa. cbn [orb].
      destruct (zmem o0 T); [exact Hfind | reflexivity].
  - (* another address: its entry is untouched and its owner is not the removed host *)
    rewrite unindex_other by exact Hne. unfold ip_after.
    destruct (mget k (ip2id r)) as [o0|] eqn:Eo; [|reflexivity].
    assert (Hoa : o0 <> a).
    { intros ->. destruct (Hs _ _ Eo) as [x [Hx Hk]]. rewrite Ha in Hx. injection Hx as <-. congruence. }
    rewrite zmem_cons. destruct (o0 =? a) eqn:E; [lia|]. cbn [orb].
    destruct (zmem o0 T); [exact Hfind | reflexivity].
Qed.

Lemma remove_all_log : forall (l : zmap hostinfo) s,
  ring_inv (s_ring s) -> NoDup (mkeys l) -> (forall id e, In (id, e) l -> mget id (hosts (s_ring s)) = Some e) ->
  s_log (remove_all s l) = s_log s ++ map PRemove (mkeys l).
Proof.
  induction l as [|[id e] tl IH]; intros s Hinv Hnd Hin.
  - simpl. rewrite app_nil_r. reflexivity.
  - assert (He : mget id (hosts (s_ring s)) = Some e) by (apply Hin; left; reflexivity).
    destruct (remove_host_known s e id Hinv He) as [Hr [Hh [Hp [Hlg Hrf]]]].
    simpl in Hnd. inversion Hnd as [|? ? Hnotin Hnd']; subst.
    change (remove_all s ((id, e) :: tl)) with (remove_all (remove_host s e) tl).
    rewrite IH; [rewrite Hlg, <- app_assoc; reflexivity | rewrite Hr; apply remove_host_ring_inv; exact Hinv | exact Hnd' |].
    intros id' e' H'. rewrite Hh. rewrite mget_mdel_other; [apply Hin; right; exact H'|].
    intros ->. apply Hnotin. change (In id (map fst tl)). apply in_map_iff. exists (id, e'). auto.
Qed.

(* the ring after the second loop, in canonical form *)
Lemma remove_all_canonical : forall (l : zmap hostinfo) s,
  ring_inv (s_ring s) -> NoDup (mkeys l) -> (forall id e, In (id, e) l -> mget id (hosts (s_ring s)) = Some e) ->
  hlist (s_ring (remove_all s l)) = filter (fun id => negb (zmem id (mkeys l))) (hlist (s_ring s))
  /\ forall k, mget k (ip2id (s_ring (remove_all s l))) = ip_after (s_ring s) (mkeys l) k.
Proof.
  induction l as [|[id e] tl IH]; intros s Hinv Hnd Hin.
  - simpl. split; [|intros k; symmetry; apply ip_after_nil].
    induction (hlist (s_ring s)) as [|x xs IHx]; simpl; [reflexivity | f_equal; exact IHx].
  - assert (He : mget id (hosts (s_ring s)) = Some e) by (apply Hin; left; reflexivity).
    destruct (remove_host_known s e id Hinv He) as [Hr [Hh [Hp [Hlg Hrf]]]].
    simpl in Hnd. inversion Hnd as [|? ? Hnotin Hnd']; subst.
    change (remove_all s ((id, e) :: tl)) with (remove_all (remove_host s e) tl).
    change (mkeys ((id, e) :: tl)) with (id :: mkeys tl).
    assert (Hinv1 : ring_inv (s_ring (remove_host s e))) by (rewrite Hr; apply remove_host_ring_inv; exact Hinv).
    assert (Hin1 : forall id' e', In (id', e') tl -> mget id' (hosts (s_ring (remove_host s e))) = Some e').
    { intros id' e' H'. rewrite Hh. rewrite mget_mdel_other; [apply Hin; right; exact H'|].
      intros ->. apply Hnotin. change (In id (map fst tl)). apply in_map_iff. exists (id, e'). auto. }
    destruct (IH (remove_host s e) Hinv1 Hnd' Hin1) as [I1 I2]. split.
    + rewrite I1, Hr. unfold remove_host_ring. rewrite He. cbn [fst hlist].
      rewrite remove_first_filter by (rewrite (inv_list _ Hinv); apply (inv_nodup _ Hinv)).
      rewrite filter_filter. apply filter_ext_in'. intros x _. rewrite zmem_cons. destruct (x =? id); reflexivity.
    + intros k. rewrite I2, Hr. apply (ip_after_step _ id e); assumption.
Qed.

Lemma zmem_perm l l' x : Permutation l l' -> zmem x l = zmem x l'.
Proof.
  intros Hp. destruct (zmem x l) eqn:E1, (zmem x l') eqn:E2; try reflexivity.
  - apply zmem_In in E1. apply zmem_false in E2. exfalso. apply E2. eapply Permutation_in; eauto.
  - apply zmem_In in E2. apply zmem_false in E1. exfalso. apply E1. eapply Permutation_in; [apply Permutation_sym|]; eauto.
Qed.

(* the second loop of the refresh for two orders of the same map range: same ring (all three indexes),
   same pools, same refresh counter, the same calls on the policy up to their order *)
Theorem remove_all_order_independent (l l' : zmap hostinfo) s :
  ring_inv (s_ring s) -> NoDup (mkeys l) -> (forall id e, In (id, e) l -> mget id (hosts (s_ring s)) = Some e) ->
  Permutation l l' ->
  let s1 := remove_all s l in let s2 := remove_all s l' in
  (forall id, mget id (hosts (s_ring s1)) = mget id (hosts (s_ring s2)))
  /\ hlist (s_ring s1) = hlist (s_ring s2)
  /\ (forall k, mget k (ip2id (s_ring s1)) = mget k (ip2id (s_ring s2)))
  /\ (forall id, In id (s_pool s1) <-> In id (s_pool s2))
  /\ Permutation (s_log s1) (s_log s2)
  /\ s_refresh s1 = s_refresh s2.
Proof.
  intros Hinv Hnd Hin Hp. cbv zeta.
  assert (Hpk : Permutation (mkeys l) (mkeys l')) by (apply Permutation_map; exact Hp).
  assert (Hnd' : NoDup (mkeys l')) by (eapply Permutation_NoDup; eauto).
  assert (Hin' : forall id e, In (id, e) l' -> mget id (hosts (s_ring s)) = Some e).
  { intros id e H. apply Hin. eapply Permutation_in; [apply Permutation_sym|]; eauto. }
  destruct (remove_all_ok l s Hinv Hnd Hin) as [_ [A3 [A4 [_ A6]]]].
  destruct (remove_all_ok l' s Hinv Hnd' Hin') as [_ [B3 [B4 [_ B6]]]].
  destruct (remove_all_canonical l s Hinv Hnd Hin) as [A1 A2].
  destruct (remove_all_canonical l' s Hinv Hnd' Hin') as [B1 B2].
  split; [intros id; rewrite A3, B3, (zmem_perm _ _ id Hpk); reflexivity|].
  split; [rewrite A1, B1; apply filter_ext_in'; intros x _; rewrite (zmem_perm _ _ x Hpk); reflexivity|].
  split.
  - intros k. rewrite A2, B2. unfold ip_after. destruct (mget k (ip2id (s_ring s))) as [o|]; [|reflexivity].
    rewrite (zmem_perm _ _ o Hpk). destruct (zmem o (mkeys l')); [|reflexivity].
    apply find_ext_in. intros x _. rewrite (zmem_perm _ _ x Hpk). reflexivity.
  - split; [intros id; rewrite A4, B4; split; intros [H1 H2]; (split; [exact H1|]); intros H; apply H2;
            [eapply Permutation_in; [apply Permutation_sym|]; eauto | eapply Permutation_in; eauto]|].
    split; [|congruence].
    rewrite (remove_all_log l s Hinv Hnd Hin), (remove_all_log l' s Hinv Hnd' Hin').
    apply Permutation_app_head. apply Permutation_map. exact Hpk.
Qed.

(* two session states that differ only in the order of the policy calls *)
Definition same_state (s1 s2 : sess) : Prop :=
  (forall id, mget id (hosts (s_ring s1)) = mget id (hosts (s_ring s2)))
  /\ hlist (s_ring s1) = hlist (s_ring s2)
  /\ (forall k, mget k (ip2id (s_ring s1)) = mget k (ip2id (s_ring s2)))
  /\ (forall id, In id (s_pool s1) <-> In id (s_pool s2))
  /\ Permutation (s_log s1) (s_log s2)
  /\ s_refresh s1 = s_refresh s2.

(* a whole refresh: the first loop follows the report's order; whatever order the second loop's range over
   prevHosts takes, the refresh ends in the same state *)
Theorem refresh_order_independent c s report :
  ring_inv (s_ring s) -> (forall id, In id (s_pool s) -> knows (s_ring s) id) -> report_ok c report ->
  exists s1 prev, refresh_loop c s (hosts (s_ring s)) [] report = (s1, prev, ROk)
    /\ refresh c s report = (remove_all s1 prev, ROk)
    /\ forall order, Permutation prev order -> same_state (remove_all s1 prev) (remove_all s1 order).
Proof.
  intros Hinv Hpool Hok.
  pose proof (refresh_loop_ok c (s_ring s) (s_pool s) report Hok report [] [] s (hosts (s_ring s)) eq_refl (fun h H => H)
                (loop_inv_init _ s eq_refl Hinv Hpool)) as Hloop.
  unfold refresh. destruct (refresh_loop c s (hosts (s_ring s)) [] report) as [[s1 prev1] res]. simpl in Hloop.
  destruct Hloop as [-> [seen Hli]]. exists s1, prev1. split; [reflexivity|]. split; [reflexivity|].
  intros order Hp. apply remove_all_order_independent; auto.
  - apply (li_ring _ _ _ _ _ _ Hli).
  - apply (li_prev_nodup _ _ _ _ _ _ Hli).
  - intros id e H. apply (li_prev_ring _ _ _ _ _ _ Hli). apply In_NoDup_mget; [apply (li_prev_nodup _ _ _ _ _ _ Hli) | exact H].
Qed.
