(* C16/Debounce.v -- the event debouncer's buffer (events.go eventDebouncer.debounce / flush) and the
   arrival order of EVENT frames (conn.go: every event frame is handed to Session.handleEvent on its own
   goroutine, so the order in which the frames of one window reach the buffer is any permutation of the
   order in which the node sent them). *)
From Coq Require Import Permutation.
From GocqlV Require Import Lib.Base Gen.Consts C16.ZMap C16.Model C16.Spec C16.Proofs1 C16.Proofs2 C16.Proofs3 C16.Proofs4 C16.Proofs5 C16.Corr.

(* eventDebouncer.debounce: append unless the buffer already holds eventBufferSize frames (then the frame is dropped) *)
Definition debounce (buf : list nevent) (f : nevent) : list nevent :=
  if Z.of_nat (length buf) <? K.eventBufferSize then buf ++ [f] else buf.

(* what flush hands to handleNodeEvent after the frames fs reached the buffer in this order *)
Definition window (fs : list nevent) : list nevent := fold_left debounce fs [].

Definition cap : nat := Z.to_nat K.eventBufferSize.
Lemma cap_eq : Z.of_nat cap = K.eventBufferSize.
Proof. vm_compute. reflexivity. Qed.
Lemma window_cap_is_constant : Z.of_nat Corr.window_cap = K.eventBufferSize /\ Corr.window_cap = cap.
Proof. split; vm_compute; reflexivity. Qed.
Global Opaque cap.

Lemma debounce_fold : forall fs buf, (length buf <= cap)%nat -> fold_left debounce fs buf = firstn cap (buf ++ fs).
Proof.
  pose proof cap_eq as Hc.
  induction fs as [|f tl IH]; intros buf Hlen; cbn [fold_left].
  - rewrite app_nil_r. symmetry. apply firstn_all2. exact Hlen.
  - unfold debounce at 2. destruct (Z.of_nat (length buf) <? K.eventBufferSize) eqn:E.
    + rewrite IH; [rewrite <- app_assoc; reflexivity|]. rewrite app_length. cbn [length]. lia.
    + assert (Heq : length buf = cap) by lia.
      rewrite IH by exact Hlen. rewrite !firstn_app, Heq, Nat.sub_diag. cbn [firstn]. reflexivity.
Qed.

Lemma window_firstn fs : window fs = firstn cap fs.
Proof. unfold window. rewrite debounce_fold; [reflexivity | cbn [length]; lia]. Qed.

Lemma window_length fs : (length (window fs) <= cap)%nat.
Proof. rewrite window_firstn. apply firstn_le_length. Qed.

Lemma window_In fs e : In e (window fs) -> In e fs.
Proof. rewrite window_firstn. apply In_firstn. Qed.

(* the status that counts for an address is one that occurs in the batch *)
Lemma last_status_In : forall evs k ch, last_status evs k = Some ch -> In (EStatus ch k) evs.
Proof.
  induction evs as [|e tl IH]; simpl; intros k ch H; [discriminate|].
  destruct (last_status tl k) as [c0|] eqn:L.
  - injection H as <-. right. apply IH. exact L.
  - destruct e as [c1 k1|c1 k1]; [discriminate|]. destruct (k1 =? k) eqn:E; [|discriminate].
    apply Z.eqb_eq in E. injection H as <-. left. congruence.
Qed.

Lemma status_addrs_incl evs k : In k (status_addrs evs) -> exists ch, In (EStatus ch k) evs.
Proof.
  intros H. apply status_addrs_In in H. destruct (last_status evs k) as [ch|] eqn:L; [|congruence].
  exists ch. apply last_status_In. exact L.
Qed.

Lemma status_addrs_length evs : (length (status_addrs evs) <= length evs)%nat.
Proof.
  induction evs as [|e tl IH]; simpl; [lia|]. destruct e as [c k|c k]; [lia|].
  destruct (zmem k (status_addrs tl)); simpl; lia.
Qed.

(* whatever order the frames reach the buffer in and whatever is dropped: the batch is processed without
   a panic, the known nodes stay the same, at most 1 + eventBufferSize refresh requests are made, and
   every dispatched status was sent for that address *)
Lemma reordered_window_ok c s fs p :
  sess_inv s -> Permutation p fs ->
  exists s', handle_node_events c s (window p) = Some s' /\ sess_inv s' /\ same_nodes (s_ring s) (s_ring s')
    /\ s_refresh s' <= s_refresh s + 1 + K.eventBufferSize
    /\ forall k ch, last_status (window p) k = Some ch -> In (EStatus ch k) fs.
Proof.
  intros Hinv Hp. destruct (handle_node_events_ok c s (window p) Hinv) as [s' [E Hinv']]. exists s'.
  split; [exact E|]. split; [exact Hinv'|]. split; [eapply events_nodes; eauto|]. split.
  - pose proof (batch_refresh_bound c s (window p) s' E) as B. cbv zeta in B.
    pose proof (status_addrs_length (window p)) as L1. pose proof (window_length p) as L2. pose proof cap_eq as Hc.
    destruct (existsb is_topo (window p) && negb (dis_topo c)); lia.
  - intros k ch H. apply last_status_In in H. apply window_In in H. eapply Permutation_in; eauto.
Qed.

(* two statuses for one address in one window: only the one that reached the buffer last counts *)
Lemma two_statuses c s a b k : dis_status c = false ->
  handle_node_events c s [EStatus a k; EStatus b k] = handle_node_events c s [EStatus b k].
Proof.
  intros Hd. unfold handle_node_events. simpl. rewrite Z.eqb_refl. reflexivity.
Qed.

Lemma single_up c s k : dis_status c = false -> handle_node_events c s [EStatus 1 k] = node_up c s k.
Proof. intros Hd. unfold handle_node_events. simpl. rewrite Hd. destruct (node_up c s k); reflexivity. Qed.

Lemma single_down c s k : dis_status c = false -> handle_node_events c s [EStatus 2 k] = node_down c s k.
Proof. intros Hd. unfold handle_node_events. simpl. rewrite Hd. destruct (node_down c s k); reflexivity. Qed.

(* handleNodeUp for the address of a known, accepted node: a pool (re)fill is started and the policy is
   told; the node's record - in particular its up/down mark - is not touched *)
Lemma node_up_effect c s k h :
  get_by_ip (s_ring s) k = (Some h, true) -> accept c h = true ->
  node_up c s k = Some (start_pool_fill s h).
Proof. intros G Ha. unfold node_up. rewrite G, Ha. reflexivity. Qed.

(* ---------------------------------------------------------------- the hand-over of a batch to the callback *)
(* flush starts the callback on its own goroutine with the batch and begins a new buffer; the callback
   reads the batch some time later, after any number of further debounce and flush calls. *)
Inductive dop :=
| DFrame (f : nevent)    (* debounce(frame) *)
| DFlush                 (* the timer fires: flush *)
| DRead.                 (* the oldest started callback reads its batch *)

(* (buffer, batches handed over and not yet read, batches read so far) *)
Definition dstate := (list nevent * list (list nevent) * list (list nevent))%type.

Definition dstep (st : dstate) (o : dop) : dstate :=
  let '(buf, pending, seen) := st in
  match o with
  | DFrame f => (debounce buf f, pending, seen)
  | DFlush => match buf with [] => st | _ => ([], pending ++ [buf], seen) end
  | DRead => match pending with [] => st | b :: tl => (buf, tl, seen ++ [b]) end
  end.

Definition drun (ops : list dop) (st : dstate) : dstate := fold_left dstep ops st.

(* what the windows are, regardless of when callbacks read: the frames between consecutive flushes, capped *)
Fixpoint windows_of (ops : list dop) (buf : list nevent) : list (list nevent) :=
  match ops with
  | [] => []
  | DFrame f :: tl => windows_of tl (debounce buf f)
  | DFlush :: tl => match buf with [] => windows_of tl [] | _ => buf :: windows_of tl [] end
  | DRead :: tl => windows_of tl buf
  end.

(* every batch a callback reads is exactly the window that was flushed, in order, whatever arrived
   between the flush and the read *)
Lemma handover_exact : forall ops buf pending seen,
  let '(_, pending', seen') := drun ops (buf, pending, seen) in
  seen' ++ pending' = seen ++ pending ++ windows_of ops buf.
Proof.
  induction ops as [|o tl IH]; intros buf pending seen.
  - simpl. rewrite app_nil_r. reflexivity.
  - unfold drun. cbn [fold_left]. fold (drun tl (dstep (buf, pending, seen) o)).
    destruct o as [f| |]; cbn [dstep windows_of].
    + apply IH.
    + destruct buf as [|x xs]; [apply IH|].
      specialize (IH [] (pending ++ [x :: xs]) seen). destruct (drun tl ([], pending ++ [x :: xs], seen)) as [[b p] s'].
      rewrite IH, <- app_assoc. reflexivity.
    + destruct pending as [|b ptl]; [apply IH|].
      specialize (IH buf ptl (seen ++ [b])). destruct (drun tl (buf, ptl, seen ++ [b])) as [[b' p] s'].
      rewrite IH, <- app_assoc. reflexivity.
Qed.

(* ---------------------------------------------------------------- the refresh debouncer *)
(* a request is served when a refresh starts after it *)
Fixpoint rd_unserved (tr : list rdlabel) (acc : bool) : bool :=
  match tr with
  | [] => acc
  | RDRequest :: tl => rd_unserved tl true
  | RDStart :: tl => rd_unserved tl false
  | RDEnd :: tl => rd_unserved tl acc
  end.

Lemma rd_armed_unserved : forall tr s s', rd_run s tr = Some s' -> rd_armed s' = rd_unserved tr (rd_armed s).
Proof.
  induction tr as [|l tl IH]; intros s s'; simpl; [intros H; injection H as <-; reflexivity|].
  destruct l; simpl.
  - intros H. rewrite (IH _ _ H). reflexivity.
  - destruct (rd_armed s && negb (rd_running s)); [|discriminate]. intros H. rewrite (IH _ _ H). reflexivity.
  - destruct (rd_running s); [|discriminate]. intros H. rewrite (IH _ _ H). reflexivity.
Qed.

(* every request is followed by a refresh that starts after it: in every reachable state, either no request
   is unserved, or the timer is armed - and an armed timer with the flusher idle enables a refresh start,
   while a running refresh can always end; so at quiescence (nothing enabled but requests) all are served *)
Lemma rd_requests_served tr s :
  rd_run rd_init tr = Some s ->
  rd_armed s = rd_unserved tr false
  /\ (rd_armed s = true -> rd_running s = false -> rd_step s RDStart <> None)
  /\ (rd_running s = true -> rd_step s RDEnd <> None)
  /\ (rd_step s RDStart = None -> rd_step s RDEnd = None -> rd_unserved tr false = false).
Proof.
  intros H. pose proof (rd_armed_unserved tr rd_init s H) as Ha. simpl in Ha. split; [exact Ha|].
  split; [intros A R; simpl; rewrite A, R; discriminate|].
  split; [intros R; simpl; rewrite R; discriminate|].
  rewrite <- Ha. simpl. destruct (rd_armed s), (rd_running s); simpl; intros; try reflexivity; try discriminate.
Qed.
