(* C16/Proofs5.v -- event batching; events and connection notifications do not change which nodes are
   known; the picture after a history is the last report; a node reported down stays down. *)
From GocqlV Require Import Lib.Base C16.ZMap C16.Model C16.Spec C16.Proofs1 C16.Proofs2 C16.Proofs3 C16.Proofs4.

(* ---------------------------------------------------------------- batching *)
Lemma status_map_get : forall evs m k,
  mget k (status_map evs m) = match last_status evs k with Some ch => Some ch | None => mget k m end.
Proof.
  induction evs as [|e tl IH]; intros m k; simpl; [reflexivity|].
  destruct e as [ch k'|ch k']; rewrite IH; destruct (last_status tl k); try reflexivity.
  rewrite mget_mset. rewrite (Z.eqb_sym k' k). destruct (k =? k'); reflexivity.
Qed.

Lemma status_map_nodup : forall evs (m : zmap Z), NoDup (mkeys m) -> NoDup (mkeys (status_map evs m)).
Proof.
  induction evs as [|e tl IH]; intros m H; simpl; [exact H|].
  destruct e; apply IH; [exact H | apply NoDup_mkeys_mset; exact H].
Qed.

Lemma status_addrs_nodup evs : NoDup (status_addrs evs).
Proof.
  induction evs as [|e tl IH]; simpl; [constructor|]. destruct e as [ch k|ch k]; [exact IH|].
  destruct (zmem k (status_addrs tl)) eqn:E; [exact IH|]. constructor; [apply zmem_false; exact E | exact IH].
Qed.

Lemma status_addrs_In evs k : In k (status_addrs evs) <-> last_status evs k <> None.
Proof.
  induction evs as [|e tl IH]; simpl; [split; [tauto | congruence]|].
  destruct e as [ch k'|ch k'].
  - rewrite IH. destruct (last_status tl k); split; congruence.
  - destruct (zmem k' (status_addrs tl)) eqn:E.
    + rewrite IH. destruct (last_status tl k) eqn:L; [split; congruence|].
      destruct (k' =? k) eqn:E1; [|split; congruence]. apply Z.eqb_eq in E1. subst k'.
      apply zmem_In in E. apply IH in E. congruence.
    + simpl. rewrite IH. destruct (last_status tl k) eqn:L.
      * split; [congruence | auto].
      * destruct (k' =? k) eqn:E1.
        -- apply Z.eqb_eq in E1. split; [congruence | auto].
        -- split; [intros [H|H]; [lia | congruence] | congruence].
Qed.

Lemma status_map_length evs : length (status_map evs []) = length (status_addrs evs).
Proof.
  assert (Hk : forall k, In k (mkeys (status_map evs [])) <-> In k (status_addrs evs)).
  { intros k. rewrite mget_keys, status_map_get, status_addrs_In. simpl. destruct (last_status evs k); split; congruence. }
  assert (H1 : NoDup (mkeys (status_map evs []))) by (apply status_map_nodup; constructor).
  pose proof (status_addrs_nodup evs) as H2.
  change (length (status_map evs [])) with (length (status_map evs [])).
  rewrite <- (map_length fst (status_map evs [])). fold (mkeys (status_map evs [])).
  apply Nat.le_antisymm; apply NoDup_incl_length; auto; intros k Hin; apply Hk; exact Hin.
Qed.

Lemma node_up_refresh c s k s' : node_up c s k = Some s' -> s_refresh s <= s_refresh s' <= s_refresh s + 1.
Proof.
  unfold node_up. destruct (get_by_ip (s_ring s) k) as [[h|] [|]]; try discriminate.
  - destruct (negb (accept c h)); intros H; injection H as <-; simpl; lia.
  - intros H; injection H as <-; simpl; lia.
  - intros H; injection H as <-; simpl; lia.
Qed.

Lemma node_down_refresh c s k s' : node_down c s k = Some s' -> s_refresh s' = s_refresh s.
Proof.
  unfold node_down. destruct (get_by_ip (s_ring s) k) as [[h|] [|]]; try discriminate; try (intros H; injection H as <-; reflexivity).
  destruct (negb (accept c (set_up h false))); intros H; injection H as <-; reflexivity.
Qed.

Lemma dispatch_refresh c : forall m s s', dispatch c s m = Some s' ->
  s_refresh s <= s_refresh s' <= s_refresh s + Z.of_nat (length m).
Proof.
  induction m as [|[k ch] tl IH]; intros s s'; simpl length.
  - simpl. intros H; injection H as <-. lia.
  - cbn [dispatch].
    destruct (ch =? 1).
    + destruct (dis_status c).
      * intros H. apply IH in H. lia.
      * destruct (node_up c s k) as [s1|] eqn:E; [|discriminate]. intros H. apply IH in H. apply node_up_refresh in E. lia.
    + destruct (ch =? 2).
      * destruct (dis_status c).
        -- intros H. apply IH in H. lia.
        -- destruct (node_down c s k) as [s1|] eqn:E; [|discriminate]. intros H. apply IH in H. apply node_down_refresh in E. lia.
      * intros H. apply IH in H. lia.
Qed.

(* however many topology events a batch holds they ask for one refresh; each address with status
   events asks for at most one more *)
Lemma batch_refresh_bound c s evs s' : handle_node_events c s evs = Some s' ->
  let t := if existsb is_topo evs && negb (dis_topo c) then 1 else 0 in
  s_refresh s + t <= s_refresh s' <= s_refresh s + t + Z.of_nat (length (status_addrs evs)).
Proof.
  unfold handle_node_events. intros H. apply dispatch_refresh in H. rewrite status_map_length in H.
  destruct (existsb is_topo evs && negb (dis_topo c)); simpl in *; lia.
Qed.

(* ---------------------------------------------------------------- which steps change the set of known nodes *)
Definition same_nodes (r r' : ring) : Prop := forall id, knows r' id <-> knows r id.

Lemma same_nodes_refl r : same_nodes r r.  Proof. intros id. tauto. Qed.
Lemma same_nodes_trans a b c : same_nodes a b -> same_nodes b c -> same_nodes a c.
Proof. intros H1 H2 id. specialize (H1 id). specialize (H2 id). tauto. Qed.

Lemma same_nodes_set r id e e' : mget id (hosts r) = Some e ->
  same_nodes r (mkRing (mset id e' (hosts r)) (ip2id r) (hlist r)).
Proof.
  intros He id0. unfold knows, get_host. simpl. rewrite mget_mset. destruct (id0 =? id) eqn:E; [|tauto].
  apply Z.eqb_eq in E. subst. split; congruence.
Qed.

Lemma node_up_nodes c s k s' : node_up c s k = Some s' -> s_ring s' = s_ring s.
Proof.
  unfold node_up. destruct (get_by_ip (s_ring s) k) as [[h|] [|]]; try discriminate.
  - destruct (negb (accept c h)); intros H; injection H as <-; reflexivity.
  - intros H; injection H as <-; reflexivity.
  - intros H; injection H as <-; reflexivity.
Qed.

Lemma node_down_nodes c s k s' : ring_inv (s_ring s) -> node_down c s k = Some s' -> same_nodes (s_ring s) (s_ring s').
Proof.
  intros Hinv. unfold node_down. pose proof (get_by_ip_inv (s_ring s) k Hinv) as G.
  destruct (get_by_ip (s_ring s) k) as [[h|] [|]]; try discriminate; try (intros H; injection H as <-; apply same_nodes_refl).
  destruct G as [Hh _].
  destruct (negb (accept c (set_up h false))); intros H; injection H as <-; simpl; eapply same_nodes_set; eauto.
Qed.

Lemma dispatch_nodes c : forall m s s', sess_inv s -> dispatch c s m = Some s' -> same_nodes (s_ring s) (s_ring s').
Proof.
  induction m as [|[k ch] tl IH]; intros s s' Hinv; cbn [dispatch].
  - intros H; injection H as <-. apply same_nodes_refl.
  - destruct (ch =? 1).
    + destruct (dis_status c); [apply IH; exact Hinv|].
      destruct (node_up_ok c s k Hinv) as [s1 [E [Hinv1 Hr]]]. rewrite E. intros H. rewrite <- Hr. apply IH; assumption.
    + destruct (ch =? 2); [|apply IH; exact Hinv]. destruct (dis_status c); [apply IH; exact Hinv|].
      destruct (node_down_ok c s k Hinv) as [s1 [E Hinv1]]. rewrite E. intros H.
      eapply same_nodes_trans; [eapply node_down_nodes; [apply (si_ring _ Hinv) | exact E] | apply IH; assumption].
Qed.

Lemma events_nodes c s evs s' : sess_inv s -> handle_node_events c s evs = Some s' -> same_nodes (s_ring s) (s_ring s').
Proof.
  intros Hinv. unfold handle_node_events. intros H.
  assert (Hinv1 : sess_inv (if existsb is_topo evs && negb (dis_topo c) then request_refresh s else s)).
  { destruct (existsb is_topo evs && negb (dis_topo c)); [|exact Hinv]. destruct Hinv. constructor; auto. }
  pose proof (dispatch_nodes c _ _ _ Hinv1 H) as Hn.
  destruct (existsb is_topo evs && negb (dis_topo c)); exact Hn.
Qed.

Lemma connected_nodes c s id : same_nodes (s_ring s) (s_ring (node_connected c s id)).
Proof.
  unfold node_connected. destruct (mget id (hosts (s_ring s))) as [h|] eqn:E; [|apply same_nodes_refl].
  destruct (accept c (set_up h true)); simpl; eapply same_nodes_set; eauto.
Qed.

(* labels that carry no report *)
Definition quiet (l : label) : bool :=
  match l with LRefreshFail | LEvents _ | LConnected _ => true | _ => false end.

Lemma quiet_step_nodes c s l s' : sess_inv s -> quiet l = true -> step c s l = Some s' -> same_nodes (s_ring s) (s_ring s').
Proof.
  intros Hinv Hq. destruct l; try discriminate; simpl.
  - intros H; injection H as <-. apply same_nodes_refl.
  - apply events_nodes. exact Hinv.
  - intros H; injection H as <-. apply connected_nodes.
Qed.

Lemma quiet_run_nodes c : forall ls s s', sess_inv s -> forallb quiet ls = true -> run c s ls = Some s' ->
  same_nodes (s_ring s) (s_ring s').
Proof.
  induction ls as [|l tl IH]; intros s s' Hinv Hq; simpl.
  - intros H; injection H as <-. apply same_nodes_refl.
  - simpl in Hq. apply andb_true_iff in Hq. destruct Hq as [Hq1 Hq2].
    assert (Hok : label_ok c s l) by (destruct l; try discriminate; exact I).
    destruct (step_ok c s l Hinv Hok) as [s1 [E Hinv1]]. rewrite E. intros H.
    eapply same_nodes_trans; [eapply quiet_step_nodes; eauto | eapply IH; eauto].
Qed.

Lemma run_app c : forall l1 l2 s, run c s (l1 ++ l2) = match run c s l1 with Some s1 => run c s1 l2 | None => None end.
Proof.
  induction l1 as [|l tl IH]; intros l2 s; simpl; [reflexivity|]. destruct (step c s l); [apply IH | reflexivity].
Qed.

Lemma history_ok_app c : forall l1 l2 s, history_ok c s (l1 ++ l2) ->
  history_ok c s l1 /\ forall s1, run c s l1 = Some s1 -> history_ok c s1 l2.
Proof.
  induction l1 as [|l tl IH]; intros l2 s H; simpl in *.
  - split; [exact I|]. intros s1 E. injection E as <-. exact H.
  - destruct H as [Hl Htl]. destruct (step c s l) as [s1|] eqn:E.
    + destruct (IH _ _ Htl) as [A B]. split; [split; assumption | exact B].
    + split; [split; [exact Hl | exact I] | discriminate].
Qed.

(* after any history: the nodes known are those of the last report *)
Lemma picture_is_last_report c pre report tail :
  history_ok c empty_sess (pre ++ LRefresh report :: tail) -> forallb quiet tail = true ->
  exists s, run c empty_sess (pre ++ LRefresh report :: tail) = Some s
            /\ sess_inv s /\ forall id, knows (s_ring s) id <-> In id (reported_ids c report).
Proof.
  intros Hok Hq. destruct (history_ok_app c pre _ _ Hok) as [Hpre Hrest].
  destruct (run_ok c pre empty_sess sess_inv_empty Hpre) as [s1 [E1 Hinv1]].
  specialize (Hrest s1 E1). simpl in Hrest. destruct Hrest as [Hrep Htail].
  rewrite run_app, E1. simpl.
  pose proof (refresh_started_inv s1 Hinv1) as [Hr Hp].
  destruct (refresh_correct c (refresh_started s1) report Hr Hp Hrep) as [s2 [E2 Hpost]].
  simpl in Htail. rewrite E2 in *.
  assert (Hinv2 : sess_inv s2) by (destruct Hpost; constructor; auto).
  destruct (run_ok c tail s2 Hinv2 Htail) as [s3 [E3 Hinv3]]. exists s3. split; [exact E3|]. split; [exact Hinv3|].
  intros id. rewrite (quiet_run_nodes c tail s2 s3 Hinv2 Hq E3 id). apply (rp_exact _ _ _ _ Hpost).
Qed.

(* ---------------------------------------------------------------- a node reported down *)
Definition marked_down (r : ring) (id : Z) : Prop :=
  match get_host r id with Some h => h_up h = false | None => True end.

Lemma marked_down_not_offered s id : marked_down (s_ring s) id -> offered s id = false.
Proof.
  unfold marked_down, offered. destruct (get_host (s_ring s) id) as [h|]; [intros ->|intros _]; apply andb_false_r.
Qed.

(* handleNodeDown for the address of a known, accepted node: marked down, no pool, policy told *)
Lemma node_down_effect c s k h :
  sess_inv s -> get_by_ip (s_ring s) k = (Some h, true) -> accept c (set_up h false) = true ->
  exists s', node_down c s k = Some s' /\ marked_down (s_ring s') (h_id h) /\ ~ In (h_id h) (s_pool s')
             /\ offered s' (h_id h) = false /\ In (PDown (h_id h)) (s_log s') /\ get_host (s_ring s') (h_id h) = Some (set_up h false).
Proof.
  intros Hinv G Hacc. unfold node_down. rewrite G, Hacc. cbn [negb]. eexists. split; [reflexivity|].
  cbn [s_ring s_pool s_log with_ring set_up h_id].
  split; [|split; [|split; [|split]]].
  - unfold marked_down, get_host. cbn [hosts]. rewrite mget_mset_same. reflexivity.
  - rewrite In_pool_del. tauto.
  - unfold offered, get_host. cbn [s_ring s_pool hosts]. rewrite mget_mset_same. cbn [set_up h_up]. apply andb_false_r.
  - apply in_or_app; right; left; reflexivity.
  - unfold get_host. cbn [hosts]. apply mget_mset_same.
Qed.

Lemma marked_down_set_other r id id' e' : id' <> id -> marked_down r id ->
  marked_down (mkRing (mset id' e' (hosts r)) (ip2id r) (hlist r)) id.
Proof. intros Hne. unfold marked_down, get_host. simpl. rewrite mget_mset_other by lia. auto. Qed.

Lemma marked_down_set_down r id id' h : marked_down r id ->
  marked_down (mkRing (mset id' (set_up h false) (hosts r)) (ip2id r) (hlist r)) id.
Proof.
  unfold marked_down, get_host. simpl. rewrite mget_mset. destruct (id =? id'); [reflexivity | auto].
Qed.

Lemma node_down_keeps_down c s k s' id : node_down c s k = Some s' -> marked_down (s_ring s) id -> marked_down (s_ring s') id.
Proof.
  unfold node_down. destruct (get_by_ip (s_ring s) k) as [[h|] [|]]; try discriminate; try (intros H; injection H as <-; auto).
  destruct (negb (accept c (set_up h false))); intros H; injection H as <-; simpl; apply marked_down_set_down.
Qed.

Lemma dispatch_keeps_down c id : forall m s s', dispatch c s m = Some s' -> marked_down (s_ring s) id -> marked_down (s_ring s') id.
Proof.
  induction m as [|[k ch] tl IH]; intros s s'; cbn [dispatch].
  - intros H; injection H as <-. auto.
  - destruct (ch =? 1).
    + destruct (dis_status c); [apply IH|]. destruct (node_up c s k) as [s1|] eqn:E; [|discriminate].
      intros H Hd. eapply IH; [exact H|]. rewrite (node_up_nodes _ _ _ _ E). exact Hd.
    + destruct (ch =? 2); [|apply IH]. destruct (dis_status c); [apply IH|].
      destruct (node_down c s k) as [s1|] eqn:E; [|discriminate]. intros H Hd. eapply IH; [exact H|].
      eapply node_down_keeps_down; eauto.
Qed.

Lemma add_or_update_keeps_down r h r' e id : ring_inv r -> add_or_update r h = Some (r', e) -> knows r id ->
  marked_down r id -> marked_down r' id.
Proof.
  intros Hinv. unfold add_or_update, add_if_missing. destruct (invalid_connect_addr h); [discriminate|].
  destruct (mget (h_id h) (hosts r)) as [e0|] eqn:E; intros H; injection H as <- <-; intros Hk Hd.
  - unfold marked_down, get_host in *. simpl. rewrite mget_mset. destruct (id =? h_id h) eqn:E1; [|exact Hd].
    apply Z.eqb_eq in E1. subst id. rewrite E in Hd. rewrite update_up. exact Hd.
  - unfold knows, marked_down, get_host in *. simpl. rewrite mget_mset. destruct (id =? h_id h) eqn:E1; [|exact Hd].
    apply Z.eqb_eq in E1. subst id. congruence.
Qed.

Lemma init_hosts_keeps_down c id : forall hs s s', sess_inv s -> hosts_valid hs -> init_hosts c s hs = Some s' ->
  knows (s_ring s) id -> marked_down (s_ring s) id -> marked_down (s_ring s') id.
Proof.
  induction hs as [|h tl IH]; intros s s' Hinv Hok; simpl.
  - intros H; injection H as <-. auto.
  - assert (Hadd : invalid_connect_addr h = false) by (apply Hok; left; reflexivity).
    assert (Htl : hosts_valid tl) by (intros x Hx; apply Hok; right; exact Hx). destruct Hinv as [Hr Hp].
    destruct (add_or_update_ok _ _ Hr Hadd) as [r' [e [Hau [Hr' [Hk Hke]]]]]. rewrite Hau in *.
    intros H Hkn Hd.
    assert (Hinv1 : sess_inv (let s1 := with_ring s r' in if accept c e then start_pool_fill s1 e else s1)).
    { destruct (accept c e); constructor; simpl; auto. intros x. rewrite In_pool_add. intros [Hx| ->]; auto. }
    assert (Hring1 : s_ring (let s1 := with_ring s r' in if accept c e then start_pool_fill s1 e else s1) = r').
    { destruct (accept c e); reflexivity. }
    apply (IH _ s' Hinv1 Htl H); rewrite Hring1; [apply Hk; exact Hkn | exact (add_or_update_keeps_down (s_ring s) h r' e id Hr Hau Hkn Hd)].
Qed.

(* one step: a node marked down stays marked down (or leaves the ring) unless it is reported connected,
   or a refresh brings a new record for it (a new node object: its addresses changed) *)
Lemma step_keeps_down c s l s' id :
  sess_inv s -> label_ok c s l -> step c s l = Some s' -> knows (s_ring s) id -> marked_down (s_ring s) id ->
  l <> LConnected id ->
  marked_down (s_ring s') id
  \/ exists report hr, l = LRefresh report /\ In hr (effective c report) /\ h_id hr = id
                       /\ fresh_record (s_ring s) hr /\ get_host (s_ring s') id = Some hr.
Proof.
  intros Hinv Hok Hstep Hkn Hd Hl. destruct l as [hs|h|report| |evs|id']; simpl in *.
  - left. eapply init_hosts_keeps_down; eauto.
  - left. destruct (add_or_update (s_ring s) h) as [[r' e]|] eqn:E; [|discriminate]. injection Hstep as <-. simpl.
    eapply add_or_update_keeps_down; eauto. apply (si_ring _ Hinv).
  - pose proof (refresh_started_inv s Hinv) as [Hr Hp].
    destruct (refresh_correct c (refresh_started s) report Hr Hp Hok) as [s2 [E2 Hpost]].
    rewrite E2 in Hstep. injection Hstep as <-.
    destruct (in_dec Z.eq_dec id (reported_ids c report)) as [Hin|Hnin].
    + apply effective_ids in Hin. apply in_map_iff in Hin. destruct Hin as [hr [Hid Hhr]].
      pose proof (rp_content _ _ _ _ Hpost hr Hhr) as Hc. rewrite Hid in Hc. simpl in Hc.
      unfold refreshed in Hc. rewrite Hid in Hc. unfold knows, get_host in Hkn.
      destruct (mget id (hosts (s_ring s))) as [e|] eqn:E; [|congruence].
      destruct (same_addr hr e) eqn:Es.
      * left. unfold marked_down. rewrite Hc. rewrite update_up. unfold marked_down, get_host in Hd. rewrite E in Hd. exact Hd.
      * right. exists report, hr. split; [reflexivity|]. split; [exact Hhr|]. split; [exact Hid|]. split; [|exact Hc].
        unfold fresh_record. simpl. rewrite Hid, E. exact Es.
    + left. unfold marked_down. destruct (get_host (s_ring s2) id) as [x|] eqn:E; [|exact I].
      exfalso. apply Hnin. apply (rp_exact _ _ _ _ Hpost). unfold knows. congruence.
  - left. injection Hstep as <-. exact Hd.
  - left. unfold handle_node_events in Hstep. eapply dispatch_keeps_down; [exact Hstep|].
    destruct (existsb is_topo evs && negb (dis_topo c)); exact Hd.
  - left. injection Hstep as <-. unfold node_connected. destruct (mget id' (hosts (s_ring s))) as [h|] eqn:E; [|exact Hd].
    assert (Hne : id' <> id) by congruence.
    destruct (accept c (set_up h true)); simpl; apply marked_down_set_other; auto.
Qed.

(* ---------------------------------------------------------------- any iteration order of the Go maps *)
(* handleNodeEvent ranges over the map sEvents: whatever the order, the batch is processed without a
   panic, keeps the invariants and the set of known nodes, requests at most one refresh per address and
   leaves nodes that are marked down marked down. *)
Lemma dispatch_any_order c s m :
  sess_inv s ->
  exists s', dispatch c s m = Some s' /\ sess_inv s' /\ same_nodes (s_ring s) (s_ring s')
             /\ s_refresh s <= s_refresh s' <= s_refresh s + Z.of_nat (length m)
             /\ forall id, marked_down (s_ring s) id -> marked_down (s_ring s') id.
Proof.
  intros Hinv. destruct (dispatch_ok c m s Hinv) as [s' [E Hinv']]. exists s'. split; [exact E|]. split; [exact Hinv'|].
  split; [eapply dispatch_nodes; eauto|]. split; [eapply dispatch_refresh; eauto|].
  intros id. eapply dispatch_keeps_down; eauto.
Qed.

(* isValidPeer in the property's words *)
Lemma is_valid_peer_spec h :
  is_valid_peer h = true <->
  h_rpc h <> None /\ h_id h <> 0 /\ h_dc h <> 0 /\ h_rack h <> 0 /\ exists t ts, h_tokens h = Some (t :: ts).
Proof.
  unfold is_valid_peer. rewrite negb_true_iff, !orb_false_iff. split.
  - intros [[[[H1 H2] H3] H4] H5]. split; [destruct (h_rpc h); congruence|].
    split; [lia|]. split; [lia|]. split; [lia|]. destruct (h_tokens h) as [[|t ts]|]; try discriminate. eauto.
  - intros [H1 [H2 [H3 [H4 [t [ts H5]]]]]]. rewrite H5. repeat split; try lia. destruct (h_rpc h); congruence.
Qed.

(* GetHosts: the local node first, then exactly the valid peer rows, in order *)
Lemma peers_from_rows_spec : forall rows hs, peers_from_rows rows = Some hs ->
  exists all, Forall2 (fun r h => host_from_row r = Some h) rows all /\ hs = filter is_valid_peer all.
Proof.
  induction rows as [|r tl IH]; simpl; intros hs H.
  - injection H as <-. exists []. split; constructor.
  - destruct (host_from_row r) as [h|] eqn:E; [|discriminate].
    destruct (peers_from_rows tl) as [hs'|]; [|discriminate]. injection H as <-.
    destruct (IH hs' eq_refl) as [all [Hall Hf]]. exists (h :: all). split; [constructor; assumption|].
    simpl. rewrite Hf. reflexivity.
Qed.

Lemma get_hosts_spec local rows report : get_hosts local rows = Some report ->
  exists l all, host_from_row local = Some l /\ Forall2 (fun r h => host_from_row r = Some h) rows all
                /\ report = l :: filter is_valid_peer all.
Proof.
  unfold get_hosts. destruct (host_from_row local) as [l|]; [|discriminate].
  destruct (peers_from_rows rows) as [hs|] eqn:E; [|discriminate]. intros H. injection H as <-.
  destruct (peers_from_rows_spec _ _ E) as [all [H1 H2]]. exists l, all. rewrite H2. auto.
Qed.
