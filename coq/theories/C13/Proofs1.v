(* C13/Proofs1.v -- invariants of one execution of queryExecutor.do (the machine [dstep]).
   They constrain only the execution's own program counter and event log, whatever the shared
   state is, so they hold for every execution under every interleaving. *)
From GocqlV Require Import Lib.Base Gen.Consts C13.Model C13.Spec.

(* the RetryType constants in the source are the documented ones *)
Lemma K_Retry : K.Retry = DocRetry. Proof. reflexivity. Qed.
Lemma K_RetryNextHost : K.RetryNextHost = DocRetryNextHost. Proof. reflexivity. Qed.
Lemma K_Ignore : K.Ignore = DocIgnore. Proof. reflexivity. Qed.
Lemma K_Rethrow : K.Rethrow = DocRethrow. Proof. reflexivity. Qed.

(* ---- list measures over logs built by appending ------------------------------------------- *)
Lemma mon_run_app hp q a b :
  mon_run hp q (a ++ b) = match mon_run hp q a with Some q' => mon_run hp q' b | None => None end.
Proof.
  revert q; induction a as [|e a IH]; intros q; simpl; [reflexivity|].
  destruct (mon_step hp q e); [apply IH | reflexivity].
Qed.

Lemma mon_run_snoc hp q0 tr q e q' :
  mon_run hp q0 tr = Some q -> mon_step hp q e = Some q' -> mon_run hp q0 (tr ++ [e]) = Some q'.
Proof. intros H1 H2. rewrite mon_run_app, H1. simpl. rewrite H2. reflexivity. Qed.

Lemma last_done_app a b acc : last_done (a ++ b) acc = last_done b (last_done a acc).
Proof.
  revert acc; induction a as [|e a IH]; intros acc; simpl; [reflexivity|].
  destruct e; apply IH.
Qed.

Definition is_exec (e : event) : bool := match e with EvExec _ _ => true | _ => false end.

Lemma count_exec_app a b : count_exec (a ++ b) = (count_exec a + count_exec b)%nat.
Proof. unfold count_exec. rewrite filter_app, app_length. reflexivity. Qed.

Lemma retry_answers_app a b : retry_answers (a ++ b) = (retry_answers a + retry_answers b)%nat.
Proof. unfold retry_answers. rewrite filter_app, app_length. reflexivity. Qed.

Lemma count_exec_snoc tr e : count_exec (tr ++ [e]) = (count_exec tr + (if is_exec e then 1 else 0))%nat.
Proof. rewrite count_exec_app. unfold count_exec at 2. simpl. destruct e; reflexivity. Qed.

Lemma retry_answers_snoc tr e :
  retry_answers (tr ++ [e]) = (retry_answers tr + (if is_retry_answer e then 1 else 0))%nat.
Proof. rewrite retry_answers_app. unfold retry_answers at 2. simpl. destruct (is_retry_answer e); reflexivity. Qed.

Lemma last_done_snoc tr e acc :
  last_done (tr ++ [e]) acc = match e with EvDone h o _ => Some (h, o) | _ => last_done tr acc end.
Proof. rewrite last_done_app. destruct e; reflexivity. Qed.

Lemma last_snoc {A} (l : list A) x d : last (l ++ [x]) d = x.
Proof. apply last_last. Qed.

(* ---- the invariant -------------------------------------------------------------------------- *)
Definition hp_of (p : option policy) : bool := match p with Some _ => true | None => false end.

Definition lastd (tr : list event) (last : option failure) : Prop :=
  match last with
  | None => last_done tr None = None
  | Some f => exists h, last_done tr None = Some (h, Some f)
  end.

(* attempts the execution is still entitled to start without asking the policy again *)
Definition owed (c : pc) : nat := match c with PNext _ => 1 | _ => 0 end.

Definition run_inv (p : option policy) (r : run) : Prop :=
  let tr := r_tr r in
  mon_run (hp_of p) QPick tr =
    Some (match r_pc r with
          | PNext _ => QPick
          | PFlight h _ _ => QFlight (h_id h)
          | PDecide h f _ => QPost (h_id h) f (usable h)
          | PDone _ => QEnd
          end)
  /\ (count_exec tr + owed (r_pc r) <= 1 + retry_answers tr)%nat
  /\ (p = None -> retry_answers tr = 0%nat)
  /\ match r_pc r with
     | PNext last => lastd tr last /\ (last = None -> count_exec tr = 0%nat)
     | PFlight h last _ => usable h = true /\ lastd tr last
     | PDecide h f last => p <> None /\ last_done tr None = Some (h_id h, Some f) /\ logical (fst f) = false
     | PDone res => result_ok tr res
     end.

Lemma run_inv_run0 p : run_inv p run0.
Proof. unfold run_inv, run0; simpl. repeat split; auto. Qed.

Lemma usable_set_conn_false h : usable (set_conn h false) = false.
Proof. unfold usable, set_conn; simpl. destruct (h_info h), (h_up h), (h_pool h); reflexivity. Qed.

Ltac measures :=
  repeat (rewrite ?count_exec_snoc, ?retry_answers_snoc, ?last_done_snoc, ?last_snoc in * ); simpl in *.

(* entering the loop with a selected host *)
Lemma enter_loop_inv p sel last sh tr post :
  mon_run (hp_of p) QPick tr = Some (match sel with
                                     | Some h => if usable h then QExec (h_id h) else QPick
                                     | None => QEnd end) ->
  lastd tr last ->
  (last = None -> count_exec tr = 0%nat) ->
  (count_exec tr + 1 <= 1 + retry_answers tr)%nat ->
  (p = None -> retry_answers tr = 0%nat) ->
  run_inv p (snd (enter_loop sel last sh tr post)).
Proof.
  intros Hm Hl H0 Hb Hp. unfold enter_loop.
  destruct sel as [h|].
  - destruct (usable h) eqn:Hu; simpl.
    + unfold run_inv; simpl. split.
      { eapply mon_run_snoc; [exact Hm|]. simpl. rewrite Z.eqb_refl. reflexivity. }
      measures. split; [lia|]. split; [intros Hn; rewrite (Hp Hn); reflexivity|].
      split; [exact Hu|]. unfold lastd in *; destruct last; measures; exact Hl.
    + unfold run_inv; simpl. repeat split; auto.
  - simpl. unfold run_inv; simpl. split; [exact Hm|]. split; [lia|]. split; [exact Hp|].
    destruct last as [f|]; simpl in *; [exact Hl | apply H0; reflexivity].
Qed.

(* every step of an execution preserves the invariant, whatever the shared state and the environment do *)
Arguments enter_loop : simpl never.

Lemma dstep_inv p sh r env : run_inv p r -> run_inv p (snd (dstep p sh r env)).
Proof.
  destruct r as [c tr post].
  destruct c as [last | h last ac | h f last | res]; intros H; unfold run_inv in H; simpl in H; unfold dstep; simpl.
  - (* PNext *)
    destruct H as (Hm & Hb & Hp & Hl & H0).
    destruct (s_hosts sh) as [|h rest].
    + apply enter_loop_inv.
      * eapply mon_run_snoc; [exact Hm | reflexivity].
      * unfold lastd in *. destruct last; measures; exact Hl.
      * intros E. measures. rewrite (H0 E). reflexivity.
      * measures. lia.
      * intros E. measures. rewrite (Hp E). reflexivity.
    + apply enter_loop_inv.
      * eapply mon_run_snoc; [exact Hm|]. simpl. destruct (usable h); reflexivity.
      * unfold lastd in *. destruct last; measures; exact Hl.
      * intros E. measures. rewrite (H0 E). reflexivity.
      * measures. lia.
      * intros E. measures. rewrite (Hp E). reflexivity.
  - (* PFlight *)
    destruct H as (Hm & Hb & Hp & Hu & Hl).
    destruct env as [o still]; simpl. unfold run_inv.
    assert (Hm1 : mon_run (hp_of p) QPick (tr ++ [EvDone (h_id h) o still]) = Some (QMark (h_id h) o still)).
    { eapply mon_run_snoc; [exact Hm|]. simpl. rewrite Z.eqb_refl. reflexivity. }
    destruct o as [f|].
    + destruct (logical (fst f)) eqn:Hlog.
      * simpl. split.
        { eapply mon_run_snoc; [exact Hm1|]. simpl. rewrite Z.eqb_refl, Hlog. reflexivity. }
        measures. split; [lia|]. split; [intros E; rewrite (Hp E); reflexivity|]. reflexivity.
      * destruct p as [pol|]; simpl.
        -- split.
           { eapply mon_run_snoc; [exact Hm1|]. simpl. rewrite !Z.eqb_refl, Hlog. simpl.
             destruct still; simpl; [rewrite Hu | rewrite usable_set_conn_false]; reflexivity. }
           measures. split; [lia|]. split; [discriminate|]. split; [discriminate|].
           split; [destruct still; reflexivity | exact Hlog].
        -- split.
           { eapply mon_run_snoc; [exact Hm1|]. simpl. rewrite !Z.eqb_refl, Hlog. reflexivity. }
           measures. split; [lia|]. split; [intros _; rewrite (Hp eq_refl); reflexivity|]. reflexivity.
    + simpl. split.
      { eapply mon_run_snoc; [exact Hm1|]. simpl. rewrite Z.eqb_refl. reflexivity. }
      measures. split; [lia|]. split; [intros E; rewrite (Hp E); reflexivity|]. reflexivity.
  - (* PDecide *)
    destruct H as (Hm & Hb & Hp & Hn & Hl & Hlog).
    destruct p as [pol|]; [|congruence]. simpl in *.
    set (ans := p_attempt pol (s_dec sh) (s_att sh)).
    set (t := p_rtype pol (s_dec sh) (fst f)).
    assert (Hm1 : mon_run true QPick (tr ++ [EvAsk (s_att sh) (fst ans)])
                  = Some (if fst ans then QAsked (h_id h) f (usable h) else QEnd)).
    { eapply mon_run_snoc; [exact Hm|]. reflexivity. }
    destruct (fst ans) eqn:Hans; simpl.
    + assert (Hm2 : mon_run true QPick ((tr ++ [EvAsk (s_att sh) true]) ++ [EvType (snd f) t])
                    = Some (if t =? DocRetry then (if usable h then QExec (h_id h) else QPick)
                            else if t =? DocRetryNextHost then QPick else QEnd)).
      { eapply mon_run_snoc; [exact Hm1|]. simpl. rewrite Z.eqb_refl. reflexivity. }
      rewrite K_Retry, K_Rethrow, K_Ignore, K_RetryNextHost.
      destruct (t =? DocRetry) eqn:E1.
      * apply enter_loop_inv.
        -- exact Hm2.
        -- simpl. exists (h_id h). measures. exact Hl.
        -- discriminate.
        -- measures. rewrite E1. simpl. lia.
        -- discriminate.
      * destruct ((t =? DocRethrow) || (t =? DocIgnore)) eqn:E2; simpl; unfold run_inv; simpl.
        -- assert (E3 : (t =? DocRetryNextHost) = false).
           { unfold DocRethrow, DocIgnore, DocRetryNextHost in *. lia. }
           rewrite E3 in Hm2. split; [exact Hm2|]. measures. rewrite E1, E3. simpl.
           split; [lia|]. split; [discriminate|]. exact Hl.
        -- destruct (t =? DocRetryNextHost) eqn:E3; simpl.
           ++ split; [exact Hm2|]. measures. rewrite E1, E3. simpl. split; [lia|]. split; [discriminate|].
              split; [exists (h_id h); exact Hl | discriminate].
           ++ split; [exact Hm2|]. measures. rewrite E1, E3. simpl. split; [lia|]. split; [discriminate|].
              exists (snd f), t. split; [reflexivity|]. unfold known_type. rewrite E1, E3.
              apply orb_false_iff in E2. destruct E2 as [E2 E4]. rewrite E2, E4. reflexivity.
    + unfold run_inv; simpl. split; [exact Hm1|]. measures. split; [lia|]. split; [discriminate|]. exact Hl.
  - (* PDone *)
    exact H.
Qed.
