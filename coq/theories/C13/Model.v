(* C13/Model.v -- executable model of the query executor (query_executor.go: executeQuery, speculate,
   run, do), of the attempt counter the retry policies consult (session.go: queryMetrics.attempt /
   attempts) and of the three built-in retry policies (policies.go).  Definitions only.

   One execution of queryExecutor.do is a small-step machine [dstep] over
     - a state shared by all executions of one query (host iterator, attempt metrics, consistency,
       context), and
     - a per-execution program counter with the execution's own event trace.
   Each step is one access to shared state (a hostIter() call, the completion of an attempt, a
   policy consultation) followed by the local computation up to the next such access.
   [do_run] iterates [dstep] for a single execution (the sequential path of executeQuery);
   [step] interleaves the executions started by executeQuery/speculate with the main goroutine,
   the results channel (capacity 1) and context cancellation. *)
From GocqlV Require Import Lib.Base Gen.Consts.

(* ---- hosts ----------------------------------------------------------------------------- *)
(* one entry offered by the host iterator: identity plus what the loop tests, in the code's order *)
Record host := mkHost { h_id : Z; h_info : bool (* Info() != nil *); h_up : bool; h_pool : bool (* getPool ok *);
                        h_conn : bool (* pool.Pick() != nil *) }.

(* query_executor.go:135-152: three `selectedHost = hostIter(); continue` exits *)
Definition usable (h : host) : bool :=
  if negb (h_info h) || negb (h_up h) then false
  else if negb (h_pool h) then false
  else h_conn h.

Definition set_conn (h : host) (b : bool) : host := mkHost (h_id h) (h_info h) (h_up h) (h_pool h) b.

(* ---- attempt outcomes ------------------------------------------------------------------ *)
(* error classes the executor and the built-in policies distinguish; [EOther] is every other error
   (connection loss, request timeout, no streams, server errors without a special case, wrapped
   context errors, ...).  A failure carries a tag identifying the error value. *)
Inductive err :=
| ECanceled | EDeadline | ENotFound
| EUnavailable (alive : Z)
| EWriteTimeout (wt received : Z)
| EReadTimeout
| EOther (cls : Z).

Definition failure := (err * Z)%type.
Definition outcome := option failure.             (* None = the attempt succeeded *)

(* query_executor.go:158-163: `case context.Canceled, context.DeadlineExceeded, ErrNotFound` *)
Definition logical (e : err) : bool :=
  match e with ECanceled | EDeadline | ENotFound => true | _ => false end.

(* write types as the harness numbers them: the strings compared in policies.go:249-255 *)
Definition WT_SIMPLE : Z := 0.
Definition WT_BATCH : Z := 1.
Definition WT_COUNTER : Z := 2.
Definition WT_UNLOGGED_BATCH : Z := 3.

(* ---- retry policies --------------------------------------------------------------------- *)
(* p_attempt d a : the answer of RetryPolicy.Attempt when it is the d-th consultation of this query
   execution and q.Attempts() reads a, plus the SetConsistency side effect if any.
   p_rtype d e   : GetRetryType(e) at that consultation, as the raw RetryType value. *)
Record policy := mkPolicy { p_attempt : nat -> Z -> bool * option Z; p_rtype : nat -> err -> Z }.

(* policies.go:167-173 *)
Definition simple_policy (n : Z) : policy :=
  mkPolicy (fun _ a => (a <=? n, None)) (fun _ _ => K.RetryNextHost).

(* policies.go:181-187, 207-209 (the sleep is not modelled) *)
Definition expo_policy (n : Z) : policy :=
  mkPolicy (fun _ a => (if a >? n then false else true, None)) (fun _ _ => K.RetryNextHost).

(* policies.go:189-205 getExponentialTime, the sleep of ExponentialBackoffRetryPolicy.Attempt, without the
   random jitter: napDuration = min * 2^(attempts-1) + jitter*min - min/2 with jitter in [0,1), capped by max;
   min <= 0 means 100 ms, max <= 0 means 10 s (durations in nanoseconds).  The result lies between
   [nap_lo] (jitter 0, truncated) and [nap_hi] (jitter -> 1); stated for attempts >= 1. *)
Definition eff_min (mn : Z) : Z := if mn <=? 0 then 100000000 else mn.
Definition eff_max (mx : Z) : Z := if mx <=? 0 then 10000000000 else mx.
Definition nap_lo (mn mx a : Z) : Z := Z.min (eff_max mx) (eff_min mn * 2 ^ (a - 1) - (eff_min mn + 1) / 2).
Definition nap_hi (mn mx a : Z) : Z := Z.min (eff_max mx) (eff_min mn * 2 ^ (a - 1) + eff_min mn / 2).

(* policies.go:241-264 *)
Definition downgrading_rtype (e : err) : Z :=
  match e with
  | EUnavailable alive => if alive >? 0 then K.Retry else K.Rethrow
  | EWriteTimeout wt received =>
      if (wt =? WT_SIMPLE) || (wt =? WT_BATCH) || (wt =? WT_COUNTER) then
        (if received >? 0 then K.Ignore else K.Rethrow)
      else if wt =? WT_UNLOGGED_BATCH then K.Retry
      else K.Rethrow
  | EReadTimeout => K.Retry
  | _ => K.RetryNextHost
  end.

(* policies.go:230-239 *)
Definition downgrading_policy (levels : list Z) : policy :=
  mkPolicy (fun _ a =>
              if a >? Z.of_nat (length levels) then (false, None)
              else if a >? 0 then (true, Some (nth (Z.to_nat (a - 1)) levels 0))
              else (true, None))
           (fun _ e => downgrading_rtype e).

(* ---- events of one execution ------------------------------------------------------------- *)
Inductive event :=
| EvPick (h : option (Z * bool))        (* hostIter() returned nil / a host (id, usable) *)
| EvExec (h : Z) (cons : Z)             (* execute called on a connection of host h, query consistency cons *)
| EvDone (h : Z) (o : outcome) (still : bool)   (* the attempt returned o; still = host remains usable *)
| EvMark (h : Z) (e : option Z)         (* selectedHost.Mark(nil) / Mark(err) *)
| EvAsk (att : Z) (ans : bool)          (* rt.Attempt(q) with q.Attempts() = att answered ans *)
| EvType (tag : Z) (t : Z).             (* rt.GetRetryType(err tag) = t *)

Inductive result :=
| RIter (h : Z) (o : outcome)           (* the Iter of the last attempt (iter.host = h) *)
| RLast (f : failure)                   (* &Iter{err: lastErr} *)
| RNoConn                               (* &Iter{err: ErrNoConnections} *)
| RUnknown.                             (* &Iter{err: ErrUnknownRetryType} *)

(* ---- state ------------------------------------------------------------------------------- *)
Record shared := mkSh {
  s_hosts : list host;      (* what the host iterator will still offer *)
  s_att : Z;                (* queryMetrics.totalAttempts *)
  s_cons : Z;               (* the query's consistency *)
  s_dec : nat;              (* number of Attempt consultations so far *)
  s_cancel : bool;          (* the execution context is done *)
  s_started : nat;          (* ghost: execute calls so far in this query execution *)
  s_done : nat;             (* ghost: attempts completed so far in this query execution *)
  s_pos : nat               (* ghost: consultations answered true *)
}.

Inductive pc :=
| PNext (last : option failure)                       (* about to call hostIter() *)
| PFlight (sel : host) (last : option failure) (ac : bool)   (* attempt in flight; ac: started after cancellation *)
| PDecide (sel : host) (f : failure) (last : option failure) (* attempt failed, about to consult the policy *)
| PDone (r : result).

Record run := mkRun { r_pc : pc; r_tr : list event; r_post : nat (* ghost: attempts started after cancellation *) }.

Definition result_of_last (last : option failure) : result :=
  match last with Some f => RLast f | None => RNoConn end.

Definition sh_started (sh : shared) : shared :=
  mkSh (s_hosts sh) (s_att sh) (s_cons sh) (s_dec sh) (s_cancel sh) (S (s_started sh)) (s_done sh) (s_pos sh).
Definition sh_hosts (sh : shared) (l : list host) : shared :=
  mkSh l (s_att sh) (s_cons sh) (s_dec sh) (s_cancel sh) (s_started sh) (s_done sh) (s_pos sh).
Definition sh_completed (sh : shared) : shared :=
  mkSh (s_hosts sh) (s_att sh + 1) (s_cons sh) (s_dec sh) (s_cancel sh) (s_started sh) (S (s_done sh)) (s_pos sh).
Definition sh_asked (sh : shared) (ans : bool) (c : option Z) : shared :=
  mkSh (s_hosts sh) (s_att sh) (match c with Some c' => c' | None => s_cons sh end) (S (s_dec sh)) (s_cancel sh)
       (s_started sh) (s_done sh) (if ans then S (s_pos sh) else s_pos sh).
Definition sh_cancelled (sh : shared) : shared :=
  mkSh (s_hosts sh) (s_att sh) (s_cons sh) (s_dec sh) true (s_started sh) (s_done sh) (s_pos sh).

(* the top of the `for selectedHost != nil` loop up to the execute call (query_executor.go:134-154) *)
Definition enter_loop (sel : option host) (last : option failure) (sh : shared) (tr : list event) (post : nat)
  : shared * run :=
  match sel with
  | None => (sh, mkRun (PDone (result_of_last last)) tr post)
  | Some h =>
      if usable h then
        (sh_started sh,
         mkRun (PFlight h last (s_cancel sh)) (tr ++ [EvExec (h_id h) (s_cons sh)])
               (if s_cancel sh then S post else post))
      else (sh, mkRun (PNext last) tr post)
  end.

(* one step of one execution of queryExecutor.do; [env] is consumed only by an attempt in flight *)
Definition dstep (p : option policy) (sh : shared) (r : run) (env : outcome * bool) : shared * run :=
  let tr := r_tr r in
  let post := r_post r in
  match r_pc r with
  | PNext last =>
      match s_hosts sh with
      | [] => enter_loop None last sh (tr ++ [EvPick None]) post
      | h :: rest => enter_loop (Some h) last (sh_hosts sh rest) (tr ++ [EvPick (Some (h_id h, usable h))]) post
      end
  | PFlight h last _ =>
      let o := fst env in
      let still := snd env in
      let sh1 := sh_completed sh in                       (* qry.attempt: totalAttempts++ *)
      let h' := if still then h else set_conn h false in
      let tr1 := tr ++ [EvDone (h_id h) o still] in
      match o with
      | None => (sh1, mkRun (PDone (RIter (h_id h) None)) (tr1 ++ [EvMark (h_id h) None]) post)
      | Some f =>
          if logical (fst f) then (sh1, mkRun (PDone (RIter (h_id h) o)) (tr1 ++ [EvMark (h_id h) None]) post)
          else
            match p with
            | None => (sh1, mkRun (PDone (RIter (h_id h) o)) (tr1 ++ [EvMark (h_id h) (Some (snd f))]) post)
            | Some _ => (sh1, mkRun (PDecide h' f last) (tr1 ++ [EvMark (h_id h) (Some (snd f))]) post)
            end
      end
  | PDecide h f last =>
      match p with
      | None => (sh, mkRun (PDone (RIter (h_id h) (Some f))) tr post)
      | Some pol =>
          let ans := p_attempt pol (s_dec sh) (s_att sh) in
          let sh1 := sh_asked sh (fst ans) (snd ans) in
          let tr1 := tr ++ [EvAsk (s_att sh) (fst ans)] in
          if negb (fst ans) then (sh1, mkRun (PDone (RIter (h_id h) (Some f))) tr1 post)
          else
            let t := p_rtype pol (s_dec sh) (fst f) in
            let tr2 := tr1 ++ [EvType (snd f) t] in
            if t =? K.Retry then enter_loop (Some h) (Some f) sh1 tr2 post
            else if (t =? K.Rethrow) || (t =? K.Ignore) then (sh1, mkRun (PDone (RIter (h_id h) (Some f))) tr2 post)
            else if t =? K.RetryNextHost then (sh1, mkRun (PNext (Some f)) tr2 post)
            else (sh1, mkRun (PDone RUnknown) tr2 post)
      end
  | PDone _ => (sh, r)
  end.

Definition run0 : run := mkRun (PNext None) [] 0.
Definition sh0 (hosts : list host) (a0 cons0 : Z) : shared := mkSh hosts a0 cons0 0 false 0 0 0.

Definition is_done (c : pc) : bool := match c with PDone _ => true | _ => false end.

(* the sequential path: q.do(ctx, qry, hostIter); the n-th completed attempt gets env n *)
Fixpoint do_run (fuel : nat) (p : option policy) (env : nat -> outcome * bool) (sh : shared) (r : run)
  : option (shared * run) :=
  match fuel with
  | O => None
  | S fuel' =>
      if is_done (r_pc r) then Some (sh, r)
      else let s' := dstep p sh r (env (s_done sh)) in do_run fuel' p env (fst s') (snd s')
  end.

(* ---- what IsIdempotent answers (session.go) ------------------------------------------------ *)
(* Batch.IsIdempotent: `for _, entry := range b.Entries { if !entry.Idempotent { return false } }; return true`.
   Query.IsIdempotent: the flag set by defaultsFromSession from ClusterConfig.DefaultIdempotence when
   Session.Query creates the query, replaced by Query.Idempotent(v) if the application calls it. *)
Inductive idem_src :=
| IBatch (entries : list bool)                              (* the Idempotent flag of every entry, in order *)
| IQuery (cluster_default : bool) (override : option bool).

Fixpoint batch_idempotent (entries : list bool) : bool :=
  match entries with
  | [] => true
  | e :: rest => if negb e then false else batch_idempotent rest
  end.

Definition is_idempotent (src : idem_src) : bool :=
  match src with
  | IBatch es => batch_idempotent es
  | IQuery d ov => match ov with Some v => v | None => d end
  end.

(* ---- executeQuery: the idempotence gate (query_executor.go:88-93) ----------------------- *)
Inductive mode := MSequential | MSpeculative (k : Z).
Definition exec_mode (idem : bool) (k : Z) : mode :=
  if negb idem || (k =? 0) then MSequential else MSpeculative k.

(* ---- the concurrent system ---------------------------------------------------------------- *)
Record thread := mkTh { t_run : run; t_exit : option bool (* None: running; Some true: delivered its result (sent it / returned it); Some false: dropped it *) }.

Inductive mres := MIter (r : result) | MCtx.        (* what executeQuery returns: an Iter / &Iter{err: ctx.Err()} *)
Inductive mainpc :=
| MSeq                  (* sequential path: the caller's goroutine runs do itself *)
| MSpec (i : Z)         (* in speculate's loop, i speculative executions launched, i < Attempts() *)
| MWait                 (* the final select of executeQuery *)
| MRet (r : mres).

Record sstate := mkS {
  g_sh : shared;
  g_th : list thread;
  g_chan : option result;      (* the results channel, capacity 1 *)
  g_first : option result;     (* ghost: the first result ever sent on the channel *)
  g_main : mainpc;
  g_k : Z                      (* sp.Attempts() *)
}.

Inductive label :=
| LTick                                       (* the ticker fires in speculate: one more execution is launched *)
| LMainRecv                                   (* the main goroutine receives from results *)
| LMainCtx                                    (* the main goroutine observes ctx.Done() *)
| LCancel                                     (* the application cancels the query's context / its deadline passes *)
| LRun (t : nat) (o : outcome) (still : bool) (* execution t takes its next step *)
| LSend (t : nat)                             (* execution t, finished, sends its result *)
| LDrop (t : nat)                             (* execution t, finished, sees ctx.Done() instead *)
| LSeqRet.                                    (* sequential path: do returned *)

Definition spec_pc (i k : Z) : mainpc := if i <? k then MSpec i else MWait.

Definition init (idem : bool) (k : Z) (sh : shared) : sstate :=
  match exec_mode idem k with
  | MSequential => mkS sh [mkTh run0 None] None None MSeq k
  | MSpeculative k' => mkS sh [mkTh run0 None] None None (spec_pc 0 k') k
  end.

Definition set_th (s : sstate) (sh : shared) (th : list thread) : sstate :=
  mkS sh th (g_chan s) (g_first s) (g_main s) (g_k s).

Definition main_waiting (m : mainpc) : bool := match m with MSpec _ | MWait => true | _ => false end.

Definition step (p : option policy) (s : sstate) (l : label) : option sstate :=
  match l with
  | LTick =>
      match g_main s with
      | MSpec i => Some (mkS (g_sh s) (g_th s ++ [mkTh run0 None]) (g_chan s) (g_first s) (spec_pc (i + 1) (g_k s)) (g_k s))
      | _ => None
      end
  | LMainRecv =>
      if main_waiting (g_main s) then
        match g_chan s with
        | Some r => Some (mkS (sh_cancelled (g_sh s)) (g_th s) None (g_first s) (MRet (MIter r)) (g_k s))  (* defer cancel() *)
        | None => None
        end
      else None
  | LMainCtx =>
      if main_waiting (g_main s) && s_cancel (g_sh s) then
        Some (mkS (sh_cancelled (g_sh s)) (g_th s) (g_chan s) (g_first s) (MRet MCtx) (g_k s))
      else None
  | LCancel => Some (set_th s (sh_cancelled (g_sh s)) (g_th s))
  | LRun t o still =>
      match nth_error (g_th s) t with
      | Some th =>
          match t_exit th with
          | None =>
              if is_done (r_pc (t_run th)) then None
              else let s' := dstep p (g_sh s) (t_run th) (o, still) in
                   Some (set_th s (fst s') (upd (g_th s) t (mkTh (snd s') None)))
          | Some _ => None
          end
      | None => None
      end
  | LSend t =>
      match g_main s, nth_error (g_th s) t, g_chan s with
      | MSeq, _, _ => None
      | _, Some (mkTh (mkRun (PDone r) tr post) None), None =>
          Some (mkS (g_sh s) (upd (g_th s) t (mkTh (mkRun (PDone r) tr post) (Some true))) (Some r)
                    (match g_first s with None => Some r | Some x => Some x end) (g_main s) (g_k s))
      | _, _, _ => None
      end
  | LDrop t =>
      match g_main s, nth_error (g_th s) t with
      | MSeq, _ => None
      | _, Some (mkTh (mkRun (PDone r) tr post) None) =>
          if s_cancel (g_sh s) then Some (set_th s (g_sh s) (upd (g_th s) t (mkTh (mkRun (PDone r) tr post) (Some false))))
          else None
      | _, _ => None
      end
  | LSeqRet =>
      match g_main s, nth_error (g_th s) 0 with
      | MSeq, Some (mkTh (mkRun (PDone r) tr post) None) =>
          Some (mkS (g_sh s) (upd (g_th s) 0 (mkTh (mkRun (PDone r) tr post) (Some true))) (g_chan s) (g_first s)
                    (MRet (MIter r)) (g_k s))
      | _, _ => None
      end
  end.

Fixpoint run_lts (p : option policy) (s : sstate) (ls : list label) : option sstate :=
  match ls with
  | [] => Some s
  | l :: ls' => match step p s l with Some s' => run_lts p s' ls' | None => None end
  end.

(* observables used by the theorems and by the correspondence check *)
Definition count_exec (tr : list event) : nat :=
  length (filter (fun e => match e with EvExec _ _ => true | _ => false end) tr).
Definition exec_hosts (tr : list event) : list Z :=
  flat_map (fun e => match e with EvExec h _ => [h] | _ => [] end) tr.
