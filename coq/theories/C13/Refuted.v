(* C13/Refuted.v -- the full statement "a query not marked idempotent is never retried" (doc.go,
   "Retries and speculative execution"; Query.Idempotent) fails on the faithful model, because
   queryExecutor.do never consults IsIdempotent.  Witness = known finding non-idempotent-retried
   (F-C13-1): non-idempotent query, SimpleRetryPolicy{NumRetries: 2}, three usable hosts, every
   attempt fails with a retryable error: the query is sent three times. *)
From GocqlV Require Import Lib.Base Gen.Consts C13.Model C13.Spec C13.Proofs2.

Definition w_hosts : list host := [mkHost 1 true true true true; mkHost 2 true true true true; mkHost 3 true true true true].
Definition w_fail (i : Z) : outcome := Some (EOther 0, i).
Definition w_schedule : list label :=
  [LRun 0 None true; LRun 0 (w_fail 1) true; LRun 0 None true;
   LRun 0 None true; LRun 0 (w_fail 2) true; LRun 0 None true;
   LRun 0 None true; LRun 0 (w_fail 3) true; LRun 0 None true; LSeqRet].

(* the full statement: forall p k sh ls s, run_lts p (init false k sh) ls = Some s -> total_exec s <= 1 *)
Theorem C13_non_idempotent_not_retried_refuted :
  exists p k sh ls s, run_lts p (init false k sh) ls = Some s /\ (total_exec s > 1)%nat.
Proof.
  exists (Some (simple_policy 2)), 2, (sh0 w_hosts 0 K.Quorum), w_schedule.
  eexists. split; [vm_compute; reflexivity|]. vm_compute. lia.
Qed.

(* what the caller sees in the witness: three attempts on hosts 1, 2, 3 and the third attempt's error *)
Example witness_detail :
  exists s, run_lts (Some (simple_policy 2)) (init false 2 (sh0 w_hosts 0 K.Quorum)) w_schedule = Some s
            /\ total_exec s = 3%nat
            /\ map (fun th => exec_hosts (r_tr (t_run th))) (g_th s) = [[1; 2; 3]]
            /\ g_main s = MRet (MIter (RIter 3 (w_fail 3))).
Proof. eexists. split; [vm_compute; reflexivity|]. vm_compute. auto. Qed.

(* the same through the sequential function the correspondence check runs *)
Example witness_sequential :
  exists sh r, do_run 100 (Some (simple_policy 2)) (fun n => (w_fail (Z.of_nat n + 1), true)) (sh0 w_hosts 0 K.Quorum) run0 = Some (sh, r)
               /\ count_exec (r_tr r) = 3%nat.
Proof. eexists. eexists. split; [vm_compute; reflexivity|]. vm_compute. reflexivity. Qed.
