(* C13/Proofs3.v -- one result, the idempotence gate, context cancellation (all interleavings);
   the sequential executor as a schedule of the concurrent system, and its termination. *)
From GocqlV Require Import Lib.Base Gen.Consts C13.Model C13.Spec C13.Proofs1 C13.Proofs2.

Local Arguments Z.of_nat : simpl never.
Local Arguments Z.sub : simpl never.
Local Arguments Z.add : simpl never.
Local Arguments Z.to_nat : simpl never.
Local Arguments Z.mul : simpl never.
Local Arguments Nat.mul : simpl never.

(* ---- exactly one result, the first to complete ------------------------------------------------ *)
(* some execution finished with result r *)
Definition holds_result (s : sstate) (r : result) : Prop :=
  exists t tr post ex, nth_error (g_th s) t = Some (mkTh (mkRun (PDone r) tr post) ex).

Definition is_seq (idem : bool) (k : Z) : bool :=
  match exec_mode idem k with MSequential => true | MSpeculative _ => false end.

Definition one_inv (seq : bool) (s : sstate) : Prop :=
  (seq = true -> g_main s = MSeq \/ exists r, g_main s = MRet (MIter r))
  /\ (seq = false -> g_main s <> MSeq)
  /\ (main_waiting (g_main s) = true -> g_chan s = g_first s)
  /\ (forall r, g_chan s = Some r -> holds_result s r)
  /\ (forall r, g_main s = MRet (MIter r) -> holds_result s r /\ (seq = false -> g_first s = Some r)).

Lemma nth_error_app_l {A} (l : list A) x t y : nth_error l t = Some y -> nth_error (l ++ [x]) t = Some y.
Proof. intros H. rewrite nth_error_app1; [exact H|]. apply nth_error_Some. congruence. Qed.

Lemma holds_step p s l s' r : step_spec p s l s' -> holds_result s r -> holds_result s' r.
Proof.
  intros Hs (t & tr & post & ex & Hn). unfold holds_result.
  destruct Hs; simpl; try (exists t, tr, post, ex; exact Hn).
  - exists t, tr, post, ex. apply nth_error_app_l. exact Hn.
  - (* run step of t0: t0 is not finished, so t0 <> t *)
    destruct (Nat.eq_dec t0 t) as [E|E].
    + subst t0. rewrite H in Hn. inversion Hn; subst. simpl in H0. discriminate.
    + exists t, tr, post, ex. rewrite nth_error_upd_other; auto.
  - destruct (Nat.eq_dec t0 t) as [E|E].
    + subst t0. rewrite H0 in Hn. inversion Hn; subst. exists t, tr, post, (Some true).
      eapply nth_error_upd_same; eauto.
    + exists t, tr, post, ex. rewrite nth_error_upd_other; auto.
  - destruct (Nat.eq_dec t0 t) as [E|E].
    + subst t0. rewrite H0 in Hn. inversion Hn; subst. exists t, tr, post, (Some false).
      eapply nth_error_upd_same; eauto.
    + exists t, tr, post, ex. rewrite nth_error_upd_other; auto.
  - destruct (Nat.eq_dec 0 t) as [E|E].
    + subst t. rewrite H0 in Hn. inversion Hn; subst. exists 0%nat, tr, post, (Some true).
      eapply nth_error_upd_same; eauto.
    + exists t, tr, post, ex. rewrite nth_error_upd_other; auto.
Qed.

Lemma one_step seq p s l s' : one_inv seq s -> step p s l = Some s' -> one_inv seq s'.
Proof.
  intros (Hseq & Hspec & Hw & Hc & Hm) Hs. apply step_sound in Hs.
  pose proof (fun r => holds_step p s l s' r Hs) as Hh.
  unfold one_inv. destruct Hs; simpl in *.
  - (* tick *)
    rewrite H in *. simpl in *.
    split. { intros E. destruct (Hseq E) as [E1|[r E1]]; discriminate. }
    split. { intros _. unfold spec_pc. destruct (i + 1 <? g_k s); discriminate. }
    split. { intros _. apply Hw. reflexivity. }
    split. { intros r E. apply Hh, Hc, E. }
    intros r E. unfold spec_pc in E. destruct (i + 1 <? g_k s); discriminate.
  - (* main receives *)
    split. { intros E. right. exists r. reflexivity. }
    split. { intros _. discriminate. }
    split. { discriminate. }
    split. { discriminate. }
    intros r0 E. inversion E; subst r0. split.
    + apply Hh, Hc, H0.
    + intros _. rewrite <- (Hw H). exact H0.
  - (* main sees ctx.Done *)
    split. { intros E. destruct (Hseq E) as [E1|[r E1]]; rewrite E1 in H; discriminate. }
    split. { intros _. discriminate. }
    split. { discriminate. }
    split. { intros r E. apply Hh, Hc, E. }
    discriminate.
  - (* cancel *)
    split; [exact Hseq|]. split; [exact Hspec|]. split; [exact Hw|].
    split. { intros r E. apply Hh, Hc, E. }
    intros r E. destruct (Hm r E) as [H1 H2]. split; [apply Hh, H1 | exact H2].
  - split; [exact Hseq|]. split; [exact Hspec|]. split; [exact Hw|].
    split. { intros r0 E. apply Hh, Hc, E. }
    intros r0 E. destruct (Hm r0 E) as [H1 H2]. split; [apply Hh, H1 | exact H2].
  - (* send *)
    split; [exact Hseq|]. split; [exact Hspec|].
    split. { intros Wt. specialize (Hw Wt). rewrite H1 in Hw. rewrite <- Hw. reflexivity. }
    split.
    { intros r0 E. inversion E; subst r0. exists t, tr, post, (Some true). eapply nth_error_upd_same; eauto. }
    intros r0 E. destruct (Hm r0 E) as [H2 H3]. split; [apply Hh, H2|].
    intros Es. rewrite (H3 Es). reflexivity.
  - (* drop *)
    split; [exact Hseq|]. split; [exact Hspec|]. split; [exact Hw|].
    split. { intros r0 E. apply Hh, Hc, E. }
    intros r0 E. destruct (Hm r0 E) as [H2 H3]. split; [apply Hh, H2 | exact H3].
  - (* sequential return *)
    split. { intros _. right. exists res. reflexivity. }
    split. { intros E. specialize (Hspec E). congruence. }
    split. { discriminate. }
    split. { intros r0 E. apply Hh, Hc, E. }
    intros r0 E. inversion E; subst r0. split.
    + exists 0%nat, tr, post, (Some true). eapply nth_error_upd_same; eauto.
    + intros Es. specialize (Hspec Es). congruence.
Qed.

Lemma one_init idem k sh : one_inv (is_seq idem k) (init idem k sh).
Proof.
  unfold one_inv, init, is_seq. destruct (exec_mode idem k) as [|k']; simpl.
  - repeat split; try discriminate; auto.
  - unfold spec_pc. destruct (0 <? k'); simpl; repeat split; try discriminate; auto.
Qed.

Lemma one_result_lemma p idem k sh ls s r :
  run_lts p (init idem k sh) ls = Some s -> g_main s = MRet (MIter r) ->
  holds_result s r /\ (is_seq idem k = false -> g_first s = Some r).
Proof.
  intros Hr Hm.
  assert (Hi : one_inv (is_seq idem k) s).
  { eapply (run_lts_inv p (one_inv (is_seq idem k))); [| |exact Hr].
    - intros s0 l s1. apply one_step.
    - apply one_init. }
  destruct Hi as (_ & _ & _ & _ & H). apply H, Hm.
Qed.

(* once executeQuery has returned, its result never changes *)
Lemma returned_stays p s l s' m : g_main s = MRet m -> step p s l = Some s' -> g_main s' = MRet m.
Proof.
  intros Hm Hs. apply step_sound in Hs. destruct Hs; simpl; auto; rewrite Hm in *; simpl in *; try discriminate; congruence.
Qed.

Lemma returned_stays_run p ls s s' m : g_main s = MRet m -> run_lts p s ls = Some s' -> g_main s' = MRet m.
Proof.
  intros Hm Hr. eapply (run_lts_inv p (fun x => g_main x = MRet m)); [| exact Hm | exact Hr].
  intros s0 l s1 H0 H1. eapply returned_stays; eauto.
Qed.

(* ---- context cancellation ------------------------------------------------------------------------- *)
Definition ctx_err (o : outcome) : bool :=
  match o with Some (ECanceled, _) | Some (EDeadline, _) => true | _ => false end.

(* the environment is honest about the context: an attempt started after the context was done
   returns the context's error (what Conn.exec does) *)
Definition lbl_honest (s : sstate) (l : label) : Prop :=
  match l with
  | LRun t o _ => forall h last tr post ex,
      nth_error (g_th s) t = Some (mkTh (mkRun (PFlight h last true) tr post) ex) -> ctx_err o = true
  | _ => True
  end.

Fixpoint honest_run (p : option policy) (s : sstate) (ls : list label) : Prop :=
  match ls with
  | [] => True
  | l :: ls' => lbl_honest s l /\ match step p s l with Some s' => honest_run p s' ls' | None => True end
  end.

Definition post_inv (r : run) : Prop :=
  match r_pc r with
  | PFlight _ _ true => r_post r = 1%nat
  | PDone _ => (r_post r <= 1)%nat
  | _ => r_post r = 0%nat
  end.

Lemma enter_loop_post sel last sh tr post : post = 0%nat -> post_inv (snd (enter_loop sel last sh tr post)).
Proof.
  intros E. subst post. unfold enter_loop. destruct sel as [h|]; [destruct (usable h)|]; unfold post_inv; simpl; try lia.
  destruct (s_cancel sh); reflexivity.
Qed.

Lemma dstep_post p sh r env :
  post_inv r -> (forall h last, r_pc r = PFlight h last true -> ctx_err (fst env) = true) ->
  post_inv (snd (dstep p sh r env)).
Proof.
  destruct r as [c tr post]. unfold post_inv at 1. simpl. intros Hi Hh.
  destruct c as [last | h last ac | h f last | res]; unfold dstep; simpl.
  - destruct (s_hosts sh); apply enter_loop_post; exact Hi.
  - destruct env as [o still]; simpl in *. destruct ac.
    + specialize (Hh h last eq_refl). destruct o as [[e tag]|]; [|discriminate].
      destruct e; try discriminate; unfold post_inv; simpl; lia.
    + destruct o as [f|]; [destruct (logical (fst f)); [|destruct p]|]; unfold post_inv; simpl; lia.
  - destruct p as [pol|]; [|unfold post_inv; simpl; lia].
    destruct (fst (p_attempt pol (s_dec sh) (s_att sh))); simpl; [|unfold post_inv; simpl; lia].
    destruct (p_rtype pol (s_dec sh) (fst f) =? K.Retry); [apply enter_loop_post; exact Hi|].
    destruct ((p_rtype pol (s_dec sh) (fst f) =? K.Rethrow) || (p_rtype pol (s_dec sh) (fst f) =? K.Ignore));
      [|destruct (p_rtype pol (s_dec sh) (fst f) =? K.RetryNextHost)]; unfold post_inv; simpl; lia.
  - unfold post_inv; simpl. exact Hi.
Qed.

Lemma post_step p s l s' : all_runs post_inv s -> lbl_honest s l -> step p s l = Some s' -> all_runs post_inv s'.
Proof.
  intros Ha Hh Hs. apply step_sound in Hs. unfold all_runs in *.
  destruct Hs; simpl in *; auto.
  - apply Forall_app; split; auto. repeat constructor.
  - apply Forall_upd; auto. simpl. apply dstep_post.
    + exact (Forall_nth_error _ _ _ _ Ha H).
    + intros h last E. destruct r as [c tr post]. simpl in E. subst c. eapply Hh. exact H.
  - apply Forall_upd; auto. exact (Forall_nth_error _ _ _ _ Ha H0).
  - apply Forall_upd; auto. exact (Forall_nth_error _ _ _ _ Ha H0).
  - apply Forall_upd; auto. assert (H0' : nth_error (g_th s) 0 = Some (mkTh (mkRun (PDone res) tr post) None)) by exact H0.
    exact (Forall_nth_error _ _ _ _ Ha H0').
Qed.

Lemma ctx_stops_gen p ls s s' :
  all_runs post_inv s -> run_lts p s ls = Some s' -> honest_run p s ls -> all_runs post_inv s'.
Proof.
  revert s; induction ls as [|l ls IH]; intros s Ha Hr Hh; simpl in *.
  - inversion Hr; subst; exact Ha.
  - destruct (step p s l) as [s1|] eqn:E; [|discriminate]. destruct Hh as [H1 H2].
    eapply IH; [|exact Hr|exact H2]. eapply post_step; eauto.
Qed.

Lemma ctx_stops_lemma p idem k sh ls s :
  run_lts p (init idem k sh) ls = Some s -> honest_run p (init idem k sh) ls ->
  all_runs (fun r => (r_post r <= 1)%nat) s.
Proof.
  intros Hr Hh.
  assert (Ha : all_runs post_inv s).
  { eapply ctx_stops_gen; [|exact Hr|exact Hh]. apply init_all_runs. unfold post_inv, run0; simpl. reflexivity. }
  unfold all_runs in *. eapply Forall_impl; [|exact Ha].
  intros th H. unfold post_inv in H. destruct (r_pc (t_run th)) as [| ? ? [|] | |]; lia.
Qed.

(* ---- the sequential executor is the one-execution schedule of the system ------------------------ *)
Definition seq_state (sh : shared) (r : run) (k : Z) : sstate := mkS sh [mkTh r None] None None MSeq k.

Lemma do_run_lts fuel p env sh r sh' r' k :
  do_run fuel p env sh r = Some (sh', r') ->
  is_done (r_pc r') = true
  /\ exists ls, run_lts p (seq_state sh r k) ls = Some (seq_state sh' r' k).
Proof.
  revert sh r; induction fuel as [|fuel IH]; intros sh r H; simpl in H; [discriminate|].
  destruct (is_done (r_pc r)) eqn:Ed.
  - inversion H; subst. split; [exact Ed|]. exists []. reflexivity.
  - destruct (IH _ _ H) as [Hd [ls Hl]]. split; [exact Hd|].
    exists (LRun 0 (fst (env (s_done sh))) (snd (env (s_done sh))) :: ls).
    simpl. rewrite Ed. rewrite <- surjective_pairing. exact Hl.
Qed.

Lemma init_seq k sh : init false k sh = seq_state sh run0 k.
Proof. reflexivity. Qed.

(* ---- termination of the sequential executor under a threshold policy ------------------------- *)
Definition rank (c : pc) : nat :=
  match c with PDone _ => 0 | PNext _ => 1 | PDecide _ _ _ => 2 | PFlight _ _ _ => 3 end.
Definition eff_att (sh : shared) (c : pc) : Z :=
  s_att sh + match c with PFlight _ _ _ => 1 | _ => 0 end.
Definition mu (n : Z) (sh : shared) (c : pc) : nat :=
  (4 * length (s_hosts sh) + 4 * Z.to_nat (n + 1 - eff_att sh c) + rank c)%nat.

Lemma enter_loop_mu n sel last sh tr post (base : nat) :
  (4 * length (s_hosts sh) + 4 * Z.to_nat (n + 1 - (s_att sh + 1)) + 3 <= base)%nat ->
  (4 * length (s_hosts sh) + 4 * Z.to_nat (n + 1 - s_att sh) + 1 <= base)%nat ->
  (mu n (fst (enter_loop sel last sh tr post)) (r_pc (snd (enter_loop sel last sh tr post))) <= base)%nat.
Proof.
  intros H1 H2. unfold enter_loop. destruct sel as [h|]; [destruct (usable h)|]; unfold mu, eff_att, rank; simpl; lia.
Qed.

Lemma dstep_mu n p sh r env :
  (forall pol, p = Some pol -> threshold pol n) -> is_done (r_pc r) = false ->
  (mu n (fst (dstep p sh r env)) (r_pc (snd (dstep p sh r env))) < mu n sh (r_pc r))%nat.
Proof.
  intros Hth Hd. destruct r as [c tr post].
  destruct c as [last | h last ac | h f last | res]; unfold dstep; simpl in *; try discriminate.
  - destruct (s_hosts sh) as [|h rest] eqn:Eh.
    + unfold enter_loop, mu, eff_att, rank; simpl. rewrite Eh. simpl. lia.
    + pose proof (enter_loop_mu n (Some h) last (sh_hosts sh rest) (tr ++ [EvPick (Some (h_id h, usable h))]) post
                    (mu n sh (PNext last) - 1)) as Hm.
      unfold mu, eff_att, rank in *; simpl in *; rewrite ?Eh in *; simpl in *. lia.
  - destruct env as [o still]; simpl.
    destruct o as [f|]; [destruct (logical (fst f)); [|destruct p]|]; unfold mu, eff_att, rank; simpl; lia.
  - destruct p as [pol|]; [|unfold mu, eff_att, rank; simpl; lia].
    destruct (fst (p_attempt pol (s_dec sh) (s_att sh))) eqn:Hans; simpl; [|unfold mu, eff_att, rank; simpl; lia].
    assert (Hn : s_att sh <= n). { eapply (Hth pol eq_refl). exact Hans. }
    destruct (p_rtype pol (s_dec sh) (fst f) =? K.Retry).
    + pose proof (enter_loop_mu n (Some h) (Some f) (sh_asked sh true (snd (p_attempt pol (s_dec sh) (s_att sh))))
                    ((tr ++ [EvAsk (s_att sh) true]) ++ [EvType (snd f) (p_rtype pol (s_dec sh) (fst f))]) post
                    (mu n sh (PDecide h f last) - 1)) as Hm.
      unfold mu, eff_att, rank in *; simpl in *. lia.
    + destruct ((p_rtype pol (s_dec sh) (fst f) =? K.Rethrow) || (p_rtype pol (s_dec sh) (fst f) =? K.Ignore));
        [|destruct (p_rtype pol (s_dec sh) (fst f) =? K.RetryNextHost)]; unfold mu, eff_att, rank; simpl; lia.
Qed.

Lemma do_run_terminates n p env :
  (forall pol, p = Some pol -> threshold pol n) ->
  forall fuel sh r, (mu n sh (r_pc r) < fuel)%nat -> exists res, do_run fuel p env sh r = Some res.
Proof.
  intros Hth fuel; induction fuel as [|fuel IH]; intros sh r Hm; [lia|]. simpl.
  destruct (is_done (r_pc r)) eqn:Ed; [eexists; reflexivity|].
  apply IH. pose proof (dstep_mu n p sh r (env (s_done sh)) Hth Ed). lia.
Qed.

(* more fuel does not change a result *)
Lemma do_run_more fuel p env sh r res : do_run fuel p env sh r = Some res -> do_run (S fuel) p env sh r = Some res.
Proof.
  revert sh r; induction fuel as [|fuel IH]; intros sh r H; [discriminate|].
  simpl in H. change (do_run (S (S fuel)) p env sh r) with
    (if is_done (r_pc r) then Some (sh, r)
     else do_run (S fuel) p env (fst (dstep p sh r (env (s_done sh)))) (snd (dstep p sh r (env (s_done sh))))).
  destruct (is_done (r_pc r)); [exact H | apply IH; exact H].
Qed.
