(* C13/Proofs7.v -- liveness for every schedule: with a threshold policy the whole system (all
   executions, the main goroutine, sends and drops) can take only boundedly many steps other than
   cancellations by the application, and a state in which no such step is possible is one in which
   executeQuery has returned.  Hence every maximal schedule ends with the caller holding its result. *)
From GocqlV Require Import Lib.Base Gen.Consts C13.Model C13.Spec C13.Proofs1 C13.Proofs2 C13.Proofs3 C13.Proofs4 C13.Proofs6.

Local Arguments Z.of_nat : simpl never.
Local Arguments Z.sub : simpl never.
Local Arguments Z.add : simpl never.
Local Arguments Z.to_nat : simpl never.
Local Arguments Nat.mul : simpl never.
Local Arguments nth_error : simpl never.

Definition is_cancel (l : label) : bool := match l with LCancel => true | _ => false end.
(* the steps of a schedule that are not cancellations by the application *)
Definition steps (ls : list label) : nat := length (filter (fun l => negb (is_cancel l)) ls).

Definition tmeasure (n : Z) (sh : shared) (th : thread) : nat :=
  (mu n sh (r_pc (t_run th)) + match t_exit th with None => 1 | Some _ => 0 end)%nat.

Definition gmeasure (n : Z) (s : sstate) : nat :=
  (list_sum (map (tmeasure n (g_sh s)) (g_th s))
   + unspawned s * (mu n (g_sh s) (PNext None) + 2)
   + match g_main s with MRet _ => 0 | _ => 1 end)%nat.

Lemma mu_mono n sh sh' c :
  (length (s_hosts sh') <= length (s_hosts sh))%nat -> s_att sh <= s_att sh' -> (mu n sh' c <= mu n sh c)%nat.
Proof. intros H1 H2. unfold mu, eff_att. destruct c; lia. Qed.

Lemma enter_loop_shared sel last sh tr post :
  s_hosts (fst (enter_loop sel last sh tr post)) = s_hosts sh /\ s_att (fst (enter_loop sel last sh tr post)) = s_att sh.
Proof. unfold enter_loop. destruct sel as [h|]; [destruct (usable h)|]; simpl; auto. Qed.

Lemma dstep_shared p sh r env :
  (length (s_hosts (fst (dstep p sh r env))) <= length (s_hosts sh))%nat /\ s_att sh <= s_att (fst (dstep p sh r env)).
Proof.
  destruct r as [c tr post]. destruct c as [last | h last ac | h f last | res]; unfold dstep; simpl.
  - destruct (s_hosts sh) as [|h rest] eqn:E.
    + destruct (enter_loop_shared None last sh (tr ++ [EvPick None]) post) as [H1 H2]. rewrite H1, H2, E. simpl. lia.
    + destruct (enter_loop_shared (Some h) last (sh_hosts sh rest) (tr ++ [EvPick (Some (h_id h, usable h))]) post) as [H1 H2].
      rewrite H1, H2. simpl. lia.
  - destruct env as [o still]; simpl.
    destruct o as [f|]; [destruct (logical (fst f)); [|destruct p]|]; simpl; lia.
  - destruct p as [pol|]; [|simpl; lia].
    destruct (fst (p_attempt pol (s_dec sh) (s_att sh))); simpl; [|lia].
    destruct (p_rtype pol (s_dec sh) (fst f) =? K.Retry).
    + destruct (enter_loop_shared (Some h) (Some f) (sh_asked sh true (snd (p_attempt pol (s_dec sh) (s_att sh))))
                  ((tr ++ [EvAsk (s_att sh) true]) ++ [EvType (snd f) (p_rtype pol (s_dec sh) (fst f))]) post) as [H1 H2].
      rewrite H1, H2. simpl. lia.
    + destruct ((p_rtype pol (s_dec sh) (fst f) =? K.Rethrow) || (p_rtype pol (s_dec sh) (fst f) =? K.Ignore));
        [|destruct (p_rtype pol (s_dec sh) (fst f) =? K.RetryNextHost)]; simpl; lia.
  - simpl. lia.
Qed.

Lemma sum_upd_le {A} (f f' : A -> nat) l t x v :
  nth_error l t = Some x -> (forall y, f' y <= f y)%nat -> (f' v + 1 <= f x)%nat ->
  (list_sum (map f' (upd l t v)) + 1 <= list_sum (map f l))%nat.
Proof.
  intros Hn Hle Hv. revert t Hn; induction l as [|y l IH]; intros [|t] Hn; simpl in *; try discriminate.
  - inversion Hn; subst.
    assert (list_sum (map f' l) <= list_sum (map f l))%nat.
    { clear - Hle. induction l as [|z l IH]; simpl; [lia|]. specialize (Hle z). lia. }
    lia.
  - specialize (IH t Hn). specialize (Hle y). lia.
Qed.

Lemma sum_same_le {A} (f f' : A -> nat) l : (forall y, f' y <= f y)%nat -> (list_sum (map f' l) <= list_sum (map f l))%nat.
Proof. intros Hle. induction l as [|z l IH]; simpl; [lia|]. specialize (Hle z). lia. Qed.

Lemma nth_error_upd_sum {A} (f : A -> nat) l t x v :
  nth_error l t = Some x -> (list_sum (map f (upd l t v)) + f x = list_sum (map f l) + f v)%nat.
Proof.
  revert t; induction l as [|y l IH]; intros [|t] H; simpl in *; try discriminate.
  - inversion H; subst. lia.
  - specialize (IH t H). lia.
Qed.

Lemma tmeasure_cancelled n sh : forall y, tmeasure n (sh_cancelled sh) y = tmeasure n sh y.
Proof. intros y. reflexivity. Qed.

Lemma step_measure n p s l s' :
  (forall pol, p = Some pol -> threshold pol n) -> (forall i, g_main s = MSpec i -> i < g_k s) ->
  step p s l = Some s' ->
  (gmeasure n s' + (if is_cancel l then 0 else 1) <= gmeasure n s)%nat.
Proof.
  intros Hth Hspec Hs. apply step_sound in Hs. unfold gmeasure, unspawned.
  destruct Hs; simpl.
  - (* tick *)
    rewrite H. rewrite map_app, list_sum_app. simpl. unfold tmeasure at 2; simpl.
    unfold spec_pc. destruct (i + 1 <? g_k s) eqn:E; simpl.
    + replace (Z.to_nat (g_k s - i)) with (S (Z.to_nat (g_k s - (i + 1)))) by lia. rewrite Nat.mul_succ_l. lia.
    + specialize (Hspec i H). destruct (Z.to_nat (g_k s - i)) eqn:E2; [lia|]. rewrite Nat.mul_succ_l. lia.
  - (* main receives *)
    rewrite (map_ext _ _ (tmeasure_cancelled n (g_sh s))).
    destruct (g_main s); simpl in *; try discriminate; nia.
  - rewrite (map_ext _ _ (tmeasure_cancelled n (g_sh s))).
    destruct (g_main s); simpl in *; try discriminate; nia.
  - (* cancel: nothing changes *)
    rewrite (map_ext _ _ (tmeasure_cancelled n (g_sh s))).
    change (mu n (sh_cancelled (g_sh s)) (PNext None)) with (mu n (g_sh s) (PNext None)). lia.
  - (* an execution steps *)
    pose proof (dstep_shared p (g_sh s) r (o, still)) as [Hh Ha].
    pose proof (dstep_mu n p (g_sh s) r (o, still) Hth H0) as Hm.
    set (sh' := fst (dstep p (g_sh s) r (o, still))) in *.
    set (r' := snd (dstep p (g_sh s) r (o, still))) in *.
    assert (Hle : forall y, (tmeasure n sh' y <= tmeasure n (g_sh s) y)%nat).
    { intros y. unfold tmeasure. pose proof (mu_mono n (g_sh s) sh' (r_pc (t_run y)) Hh Ha). lia. }
    pose proof (sum_upd_le (tmeasure n (g_sh s)) (tmeasure n sh') (g_th s) t _ (mkTh r' None) H Hle) as Hs.
    unfold tmeasure at 1 2 in Hs. simpl in Hs. specialize (Hs ltac:(lia)).
    pose proof (mu_mono n (g_sh s) sh' (PNext None) Hh Ha) as Hf.
    assert ((match g_main s with MSpec i => Z.to_nat (g_k s - i) | _ => 0 end * (mu n sh' (PNext None) + 2)
             <= match g_main s with MSpec i => Z.to_nat (g_k s - i) | _ => 0 end * (mu n (g_sh s) (PNext None) + 2))%nat)
      by (apply Nat.mul_le_mono_l; lia).
    lia.
  - (* send *)
    pose proof (nth_error_upd_sum (tmeasure n (g_sh s)) (g_th s) t _ (mkTh (mkRun (PDone res) tr post) (Some true)) H0) as Hu.
    unfold tmeasure at 2 4 in Hu. simpl in Hu. lia.
  - pose proof (nth_error_upd_sum (tmeasure n (g_sh s)) (g_th s) t _ (mkTh (mkRun (PDone res) tr post) (Some false)) H0) as Hu.
    unfold tmeasure at 2 4 in Hu. simpl in Hu. lia.
  - pose proof (nth_error_upd_sum (tmeasure n (g_sh s)) (g_th s) 0 _ (mkTh (mkRun (PDone res) tr post) (Some true)) H0) as Hu.
    unfold tmeasure at 2 4 in Hu. simpl in Hu. rewrite H. lia.
Qed.

Lemma schedule_measure n p rn ls s s' :
  (forall pol, p = Some pol -> threshold pol n) -> runs_inv rn s -> run_lts p s ls = Some s' ->
  (gmeasure n s' + steps ls <= gmeasure n s)%nat.
Proof.
  intros Hth. revert s; induction ls as [|l ls IH]; intros s Hinv Hr; simpl in Hr.
  - inversion Hr; subst. unfold steps; simpl. lia.
  - destruct (step p s l) as [s1|] eqn:E; [|discriminate].
    pose proof (step_measure n p s l s1 Hth (proj2 Hinv) E) as H1.
    specialize (IH s1 (runs_step rn p s l s1 Hinv E) Hr).
    unfold steps in *. simpl. destruct (is_cancel l); simpl in *; lia.
Qed.

Lemma schedules_bounded_lemma n a0 p idem k hosts cons0 ls s :
  (forall pol, p = Some pol -> threshold pol n) ->
  run_lts p (init idem k (sh0 hosts a0 cons0)) ls = Some s ->
  (steps ls <= runs_allowed idem k * (4 * length hosts + 4 * Z.to_nat (n + 1 - a0) + 3) + 1)%nat.
Proof.
  intros Hth Hr. pose proof (schedule_measure n p _ ls _ s Hth (runs_init idem k _) Hr) as H.
  assert (gmeasure n (init idem k (sh0 hosts a0 cons0))
          <= runs_allowed idem k * (4 * length hosts + 4 * Z.to_nat (n + 1 - a0) + 3) + 1)%nat; [|lia].
  clear. unfold gmeasure, init, runs_allowed, unspawned.
  destruct (exec_mode idem k) as [|k'] eqn:E; simpl.
  - unfold tmeasure, mu, eff_att, rank; simpl. lia.
  - unfold spec_pc. destruct (0 <? k') eqn:E0; simpl; unfold tmeasure, mu, eff_att, rank; simpl.
    + replace (k - 0) with k by lia.
      assert (k' = k).
      { unfold exec_mode in E. destruct (negb idem || (k =? 0)); [discriminate|]. inversion E; reflexivity. }
      subst k'. nia.
    + nia.
Qed.

(* ---- progress ----------------------------------------------------------------------------------- *)
Definition exit_inv (s : sstate) : Prop :=
  Forall (fun th => t_exit th <> None -> is_done (r_pc (t_run th)) = true) (g_th s) /\ g_th s <> [].

Lemma exit_step p s l s' : exit_inv s -> step p s l = Some s' -> exit_inv s'.
Proof.
  intros [Hf Hn] Hs. apply step_sound in Hs. unfold exit_inv.
  destruct Hs; simpl; auto.
  - split; [apply Forall_app; split; [exact Hf | repeat constructor; simpl; congruence] | destruct (g_th s); discriminate].
  - split; [apply Forall_upd; [exact Hf | simpl; congruence] | destruct (g_th s); [destruct t; discriminate | destruct t; discriminate]].
  - split; [apply Forall_upd; [exact Hf | simpl; auto] | destruct (g_th s); [destruct t; discriminate | destruct t; discriminate]].
  - split; [apply Forall_upd; [exact Hf | simpl; auto] | destruct (g_th s); [destruct t; discriminate | destruct t; discriminate]].
  - split; [apply Forall_upd; [exact Hf | simpl; auto] | destruct (g_th s); discriminate].
Qed.

Lemma exit_init idem k sh : exit_inv (init idem k sh).
Proof. unfold exit_inv, init. destruct (exec_mode idem k); simpl; split; try discriminate; repeat constructor; simpl; congruence. Qed.

Definition active (th : thread) : bool :=
  match t_exit th with None => negb (is_done (r_pc (t_run th))) | Some _ => false end.

(* while executeQuery has not returned, some step other than a cancellation is possible *)
Lemma progress_lemma p idem k sh ls s :
  run_lts p (init idem k sh) ls = Some s -> (forall m, g_main s <> MRet m) ->
  exists l s', l <> LCancel /\ step p s l = Some s'.
Proof.
  intros Hr Hnr.
  assert (Hi : exit_inv s).
  { eapply (run_lts_inv p exit_inv); [| |exact Hr]; [intros s0 l s1; apply exit_step | apply exit_init]. }
  destruct Hi as [Hf Hne].
  destruct (existsb active (g_th s)) eqn:Ea.
  - (* an execution can step *)
    apply existsb_exists in Ea. destruct Ea as (th & Hin & Hact).
    destruct (In_nth_error _ _ Hin) as [t Ht].
    destruct th as [r ex]. unfold active in Hact. simpl in Hact. destruct ex; [discriminate|].
    exists (LRun t None true). eexists. split; [discriminate|].
    simpl. rewrite Ht. simpl. apply negb_true_iff in Hact. rewrite Hact. reflexivity.
  - (* every execution is finished: executeQuery can return *)
    destruct (g_th s) as [|th0 rest] eqn:Eth; [congruence|].
    assert (Hd : is_done (r_pc (t_run th0)) = true).
    { simpl in Ea. apply orb_false_iff in Ea. destruct Ea as [Ea _]. unfold active in Ea.
      inversion Hf as [|? ? H0 _]; subst. destruct (t_exit th0) eqn:Ee.
      - apply H0. congruence.
      - apply negb_false_iff in Ea. exact Ea. }
    destruct (can_return_lemma p idem k sh ls s Hr Hnr) as (ls' & s' & m & _ & Hrun & Hm & Hnc).
    { exists th0. split; [rewrite Eth; left; reflexivity | exact Hd]. }
    destruct ls' as [|l ls'].
    + simpl in Hrun. inversion Hrun; subst. exfalso. apply (Hnr m). exact Hm.
    + simpl in Hrun. destruct (step p s l) as [s1|] eqn:E; [|discriminate].
      exists l, s1. split; [inversion Hnc; assumption | exact E].
Qed.

Lemma returns_lemma p idem k sh ls s :
  run_lts p (init idem k sh) ls = Some s ->
  (forall l s', step p s l = Some s' -> l = LCancel) ->
  exists m, g_main s = MRet m.
Proof.
  intros Hr Hstuck. destruct (g_main s) as [|i| |m] eqn:Em; try (exists m; reflexivity);
    (destruct (progress_lemma p idem k sh ls s Hr) as (l & s' & Hl & Hs); [intros m; congruence|];
     exfalso; apply Hl; eapply Hstuck; eauto).
Qed.
