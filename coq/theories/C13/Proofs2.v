(* C13/Proofs2.v -- invariants of the concurrent system (executeQuery + speculate + the executions
   it launches), by induction over arbitrary label sequences: they hold for every interleaving, any
   number of speculative executions, any outcomes. *)
From GocqlV Require Import Lib.Base Gen.Consts C13.Model C13.Spec C13.Proofs1.

Local Arguments Z.of_nat : simpl never.
Local Arguments Z.sub : simpl never.
Local Arguments Z.add : simpl never.
Local Arguments Z.to_nat : simpl never.

(* ---- generic lifting ------------------------------------------------------------------------ *)
Lemma run_lts_inv p (Inv : sstate -> Prop) :
  (forall s l s', Inv s -> step p s l = Some s' -> Inv s') ->
  forall ls s s', Inv s -> run_lts p s ls = Some s' -> Inv s'.
Proof.
  intros Hstep ls; induction ls as [|l ls IH]; intros s s' Hi Hr; simpl in Hr.
  - inversion Hr; subst; exact Hi.
  - destruct (step p s l) as [s1|] eqn:E; [|discriminate]. eapply IH; [|exact Hr]. eapply Hstep; eauto.
Qed.

Lemma run_lts_app p a b s :
  run_lts p s (a ++ b) = match run_lts p s a with Some s' => run_lts p s' b | None => None end.
Proof. revert s; induction a as [|l a IH]; intros s; simpl; [reflexivity|]. destruct (step p s l); auto. Qed.

Lemma Forall_upd {A} (P : A -> Prop) l i v : Forall P l -> P v -> Forall P (upd l i v).
Proof.
  intros Hl Hv; revert i; induction Hl as [|x l Hx Hl IH]; intros [|i]; simpl; constructor; auto.
Qed.

Lemma Forall_nth_error {A} (P : A -> Prop) l i x : Forall P l -> nth_error l i = Some x -> P x.
Proof. intros Hl Hn. rewrite Forall_forall in Hl. apply Hl. eapply nth_error_In; eauto. Qed.

Lemma nth_error_upd_same {A} (l : list A) i v x : nth_error l i = Some x -> nth_error (upd l i v) i = Some v.
Proof. revert i; induction l as [|y l IH]; intros [|i]; simpl; try discriminate; auto. Qed.

Lemma nth_error_upd_other {A} (l : list A) i j v : i <> j -> nth_error (upd l i v) j = nth_error l j.
Proof.
  revert i j; induction l as [|y l IH]; intros [|i] [|j] H; simpl; auto; try congruence.
Qed.

(* a property of single executions that every step of an execution preserves holds for all of them, always *)
Definition all_runs (P : run -> Prop) (s : sstate) : Prop := Forall (fun th => P (t_run th)) (g_th s).

(* what [step] does, label by label, in a form convenient for invariant proofs *)
Inductive step_spec (p : option policy) (s : sstate) : label -> sstate -> Prop :=
| SS_tick i : g_main s = MSpec i ->
    step_spec p s LTick (mkS (g_sh s) (g_th s ++ [mkTh run0 None]) (g_chan s) (g_first s) (spec_pc (i + 1) (g_k s)) (g_k s))
| SS_recv r : main_waiting (g_main s) = true -> g_chan s = Some r ->
    step_spec p s LMainRecv (mkS (sh_cancelled (g_sh s)) (g_th s) None (g_first s) (MRet (MIter r)) (g_k s))
| SS_ctx : main_waiting (g_main s) = true -> s_cancel (g_sh s) = true ->
    step_spec p s LMainCtx (mkS (sh_cancelled (g_sh s)) (g_th s) (g_chan s) (g_first s) (MRet MCtx) (g_k s))
| SS_cancel : step_spec p s LCancel (set_th s (sh_cancelled (g_sh s)) (g_th s))
| SS_run t o still r : nth_error (g_th s) t = Some (mkTh r None) -> is_done (r_pc r) = false ->
    step_spec p s (LRun t o still)
      (set_th s (fst (dstep p (g_sh s) r (o, still))) (upd (g_th s) t (mkTh (snd (dstep p (g_sh s) r (o, still))) None)))
| SS_send t res tr post : g_main s <> MSeq -> nth_error (g_th s) t = Some (mkTh (mkRun (PDone res) tr post) None) ->
    g_chan s = None ->
    step_spec p s (LSend t)
      (mkS (g_sh s) (upd (g_th s) t (mkTh (mkRun (PDone res) tr post) (Some true))) (Some res)
           (match g_first s with None => Some res | Some x => Some x end) (g_main s) (g_k s))
| SS_drop t res tr post : g_main s <> MSeq -> nth_error (g_th s) t = Some (mkTh (mkRun (PDone res) tr post) None) ->
    s_cancel (g_sh s) = true ->
    step_spec p s (LDrop t) (set_th s (g_sh s) (upd (g_th s) t (mkTh (mkRun (PDone res) tr post) (Some false))))
| SS_seqret res tr post : g_main s = MSeq -> nth_error (g_th s) 0 = Some (mkTh (mkRun (PDone res) tr post) None) ->
    step_spec p s LSeqRet (mkS (g_sh s) (upd (g_th s) 0 (mkTh (mkRun (PDone res) tr post) (Some true))) (g_chan s) (g_first s)
                               (MRet (MIter res)) (g_k s)).

Lemma step_sound p s l s' : step p s l = Some s' -> step_spec p s l s'.
Proof.
  destruct l; intros H; cbn -[nth_error upd dstep] in H.
  - destruct (g_main s) eqn:E; try discriminate. inversion H; subst. eapply SS_tick; eauto.
  - destruct (main_waiting (g_main s)) eqn:E; try discriminate. destruct (g_chan s) eqn:E2; try discriminate.
    inversion H; subst. apply SS_recv; auto.
  - destruct (main_waiting (g_main s) && s_cancel (g_sh s)) eqn:E; try discriminate.
    apply andb_true_iff in E. destruct E. inversion H; subst. apply SS_ctx; auto.
  - inversion H; subst. apply SS_cancel.
  - destruct (nth_error (g_th s) t) as [th|] eqn:E; try discriminate. destruct th as [r ex]; simpl in H.
    destruct ex; try discriminate. destruct (is_done (r_pc r)) eqn:E2; try discriminate.
    inversion H; subst. eapply SS_run; eauto.
  - destruct (g_main s) eqn:Em; try discriminate;
      (destruct (nth_error (g_th s) t) as [[[[| | |res] tr post] [|]]|] eqn:E; try discriminate;
       destruct (g_chan s) eqn:E2; try discriminate; inversion H; subst; clear H; rewrite <- Em; eapply SS_send; eauto; rewrite Em; discriminate).
  - destruct (g_main s) eqn:Em; try discriminate;
      (destruct (nth_error (g_th s) t) as [[[[| | |res] tr post] [|]]|] eqn:E; try discriminate;
       destruct (s_cancel (g_sh s)) eqn:E2; try discriminate; inversion H; subst; clear H; eapply SS_drop; eauto; rewrite Em; discriminate).
  - destruct (g_main s) eqn:Em; try discriminate.
    destruct (nth_error (g_th s) 0) as [[[[| | |res] tr post] [|]]|] eqn:E; try discriminate.
    inversion H; subst. eapply SS_seqret; eauto.
Qed.

Lemma step_all_runs p (P : run -> Prop) :
  P run0 -> (forall sh r env, P r -> P (snd (dstep p sh r env))) ->
  forall s l s', all_runs P s -> step p s l = Some s' -> all_runs P s'.
Proof.
  intros H0 Hd s l s' Ha Hs. apply step_sound in Hs. unfold all_runs in *.
  destruct Hs; simpl; auto.
  - apply Forall_app; split; auto.
  - apply Forall_upd; auto. simpl. apply Hd. exact (Forall_nth_error _ _ _ _ Ha H).
  - apply Forall_upd; auto. exact (Forall_nth_error _ _ _ _ Ha H1).
  - apply Forall_upd; auto. exact (Forall_nth_error _ _ _ _ Ha H1).
  - apply Forall_upd; auto. exact (Forall_nth_error _ _ _ _ Ha H1).
Qed.

Lemma init_all_runs (P : run -> Prop) idem k sh : P run0 -> all_runs P (init idem k sh).
Proof. intros H. unfold all_runs, init. destruct (exec_mode idem k); simpl; repeat constructor; exact H. Qed.

(* every execution, in every reachable state, satisfies the per-execution invariant *)
Lemma reach_run_inv p idem k sh ls s :
  run_lts p (init idem k sh) ls = Some s -> all_runs (run_inv p) s.
Proof.
  intros H. eapply (run_lts_inv p (all_runs (run_inv p))); [| |exact H].
  - intros s0 l s1. apply step_all_runs; [apply run_inv_run0 | intros; apply dstep_inv; assumption].
  - apply init_all_runs, run_inv_run0.
Qed.

(* ---- counting -------------------------------------------------------------------------------- *)
Definition wt (th : thread) : nat := match r_pc (t_run th) with PNext _ | PFlight _ _ _ => 1 | _ => 0 end.
Definition fly (th : thread) : nat := match r_pc (t_run th) with PFlight _ _ _ => 1 | _ => 0 end.
Definition execs (th : thread) : nat := count_exec (r_tr (t_run th)).
Definition sum (f : thread -> nat) (l : list thread) : nat := list_sum (map f l).

(* the attempts sent so far by all executions of the query *)
Definition total_exec (s : sstate) : nat := sum execs (g_th s).

Lemma sum_app f a b : sum f (a ++ b) = (sum f a + sum f b)%nat.
Proof. unfold sum. rewrite map_app, list_sum_app. reflexivity. Qed.

Lemma sum_upd f l t x v : nth_error l t = Some x -> (sum f (upd l t v) + f x = sum f l + f v)%nat.
Proof.
  revert t; induction l as [|y l IH]; intros [|t] H; simpl in *; try discriminate.
  - inversion H; subst. unfold sum; simpl. lia.
  - specialize (IH t H). unfold sum in *; simpl. lia.
Qed.

Lemma sum_le_others f l t x : (forall y, f y <= 1)%nat -> nth_error l t = Some x -> (sum f l + 1 <= length l + f x)%nat.
Proof.
  intros Hf. revert t; induction l as [|y l IH]; intros [|t] H; simpl in *; try discriminate.
  - inversion H; subst. unfold sum; simpl.
    assert (list_sum (map f l) <= length l)%nat.
    { clear - Hf. induction l as [|z l IH]; simpl; [lia|]. specialize (Hf z). lia. }
    lia.
  - specialize (IH t H). unfold sum in *; simpl. specialize (Hf y). lia.
Qed.

Lemma wt_le1 y : (wt y <= 1)%nat.
Proof. unfold wt. destruct (r_pc (t_run y)); lia. Qed.

Lemma fly_le_wt y : (fly y <= wt y)%nat.
Proof. unfold fly, wt. destruct (r_pc (t_run y)); lia. Qed.

Lemma sum_le f g l : (forall y, f y <= g y)%nat -> (sum f l <= sum g l)%nat.
Proof. intros H. unfold sum. induction l as [|y l IH]; simpl; [lia|]. specialize (H y). lia. Qed.

(* executions not launched yet *)
Definition unspawned (s : sstate) : nat := match g_main s with MSpec i => Z.to_nat (g_k s - i) | _ => 0%nat end.

(* the number of executions executeQuery may run for this query *)
Definition runs_allowed (idem : bool) (k : Z) : nat :=
  match exec_mode idem k with MSequential => 1 | MSpeculative k' => 1 + Z.to_nat k' end.

(* the effect of one execution step on the counters *)
Lemma enter_loop_counts sel last sh tr post :
  let sh' := fst (enter_loop sel last sh tr post) in
  let r' := snd (enter_loop sel last sh tr post) in
  s_att sh' = s_att sh /\ s_done sh' = s_done sh /\ s_cancel sh' = s_cancel sh /\ s_cons sh' = s_cons sh
  /\ s_hosts sh' = s_hosts sh /\ s_dec sh' = s_dec sh /\ s_pos sh' = s_pos sh
  /\ (wt (mkTh r' None) <= 1)%nat
  /\ (s_started sh' + count_exec tr = s_started sh + count_exec (r_tr r'))%nat
  /\ (s_started sh' = s_started sh + fly (mkTh r' None))%nat.
Proof.
  unfold enter_loop. destruct sel as [h|]; [destruct (usable h)|]; simpl; unfold wt, fly; simpl;
    rewrite ?count_exec_snoc; simpl; repeat split; lia.
Qed.

Definition counts_ok (n : Z) (p : option policy) (sh : shared) (r : run) (sh' : shared) (r' : run) : Prop :=
  (* metrics and ghost counters move together *)
  s_att sh' - s_att sh = Z.of_nat (s_done sh') - Z.of_nat (s_done sh)
  /\ (s_done sh <= s_done sh')%nat
  /\ (s_started sh' + fly (mkTh r None) + s_done sh = s_started sh + fly (mkTh r' None) + s_done sh')%nat
  /\ (s_started sh' + count_exec (r_tr r) = s_started sh + count_exec (r_tr r'))%nat
  /\ ((s_done sh' + wt (mkTh r' None) <= s_done sh + wt (mkTh r None))%nat
      \/ (s_att sh <= n /\ wt (mkTh r None) = 0%nat /\ s_done sh' = s_done sh)).

Lemma dstep_counts n p sh r env :
  (forall pol, p = Some pol -> threshold pol n) ->
  counts_ok n p sh r (fst (dstep p sh r env)) (snd (dstep p sh r env)).
Proof.
  intros Hth. destruct r as [c tr post]. unfold counts_ok.
  destruct c as [last | h last ac | h f last | res]; unfold dstep; simpl.
  - destruct (s_hosts sh) as [|h rest].
    + pose proof (enter_loop_counts None last sh (tr ++ [EvPick None]) post) as H. simpl in H.
      destruct H as (H1 & H2 & _ & _ & _ & _ & _ & H3 & H4 & H5).
      rewrite count_exec_snoc in H4. simpl in H4. unfold wt, fly in *; simpl in *.
      rewrite ?count_exec_snoc in *; simpl in *; try rewrite H1; try rewrite H2; repeat split; try lia.
    + pose proof (enter_loop_counts (Some h) last (sh_hosts sh rest) (tr ++ [EvPick (Some (h_id h, usable h))]) post) as H.
      simpl in H. destruct H as (H1 & H2 & _ & _ & _ & _ & _ & H3 & H4 & H5).
      rewrite count_exec_snoc in H4. simpl in H4. unfold wt, fly in *; simpl in *.
      rewrite ?count_exec_snoc in *; simpl in *; try rewrite H1; try rewrite H2; repeat split; try lia.
  - destruct env as [o still]; simpl. unfold wt, fly; simpl.
    destruct o as [f|]; [destruct (logical (fst f)); [|destruct p]|]; simpl; rewrite ?count_exec_snoc; simpl;
      repeat split; try lia.
  - destruct p as [pol|]; simpl.
    + set (ans := p_attempt pol (s_dec sh) (s_att sh)).
      destruct (fst ans) eqn:Hans; simpl.
      * assert (Hn : s_att sh <= n). { eapply (Hth pol eq_refl). exact Hans. }
        destruct (p_rtype pol (s_dec sh) (fst f) =? K.Retry).
        -- pose proof (enter_loop_counts (Some h) (Some f) (sh_asked sh true (snd ans))
                         ((tr ++ [EvAsk (s_att sh) true]) ++ [EvType (snd f) (p_rtype pol (s_dec sh) (fst f))]) post) as H.
           simpl in H. destruct H as (H1 & H2 & _ & _ & _ & _ & _ & H3 & H4 & H5).
           rewrite !count_exec_snoc in H4. simpl in H4. unfold wt, fly in *; simpl in *.
           rewrite ?count_exec_snoc in *; simpl in *; try rewrite H1; try rewrite H2; repeat split; try lia.
        -- destruct ((p_rtype pol (s_dec sh) (fst f) =? K.Rethrow) || (p_rtype pol (s_dec sh) (fst f) =? K.Ignore));
             [|destruct (p_rtype pol (s_dec sh) (fst f) =? K.RetryNextHost)]; simpl; unfold wt, fly; simpl;
             rewrite ?count_exec_snoc; simpl; repeat split; try lia.
      * unfold wt, fly; simpl. rewrite ?count_exec_snoc; simpl. repeat split; try lia.
    + unfold wt, fly; simpl. repeat split; try lia.
  - unfold wt, fly; simpl. repeat split; try lia.
Qed.

(* ---- the attempt budget, for every interleaving ------------------------------------------------ *)
Definition budget_inv (n a0 : Z) (rn : nat) (s : sstate) : Prop :=
  (length (g_th s) + unspawned s <= rn)%nat
  /\ (forall i, g_main s = MSpec i -> i < g_k s)
  /\ s_att (g_sh s) = a0 + Z.of_nat (s_done (g_sh s))
  /\ (s_started (g_sh s) = s_done (g_sh s) + sum fly (g_th s))%nat
  /\ s_started (g_sh s) = total_exec s
  /\ (s_done (g_sh s) + sum wt (g_th s) + unspawned s <= rn + allowance n a0)%nat.

Lemma sum_upd_same_run f l t x v :
  nth_error l t = Some x -> f v = f x -> sum f (upd l t v) = sum f l.
Proof. intros H E. pose proof (sum_upd f l t x v H). lia. Qed.

Lemma budget_step n a0 rn p s l s' :
  (forall pol, p = Some pol -> threshold pol n) ->
  budget_inv n a0 rn s -> step p s l = Some s' -> budget_inv n a0 rn s'.
Proof.
  intros Hth (Hlen & Hspec & Hatt & Hst & Htot & Hb) Hs. apply step_sound in Hs.
  unfold budget_inv, total_exec, unspawned in *.
  destruct Hs; simpl in *.
  - (* tick *)
    rewrite H in *. specialize (Hspec i eq_refl). rewrite app_length, !sum_app.
    change (sum wt [mkTh run0 None]) with 1%nat. change (sum fly [mkTh run0 None]) with 0%nat.
    change (sum execs [mkTh run0 None]) with 0%nat. unfold spec_pc; simpl.
    destruct (i + 1 <? g_k s) eqn:E; simpl.
    + repeat split; try lia. intros j Hj. inversion Hj; subst. lia.
    + repeat split; try lia; try (intros ? ?; discriminate).
  - repeat split; try lia; try (intros ? ?; discriminate).
  - repeat split; try lia; try (intros ? ?; discriminate).
  - repeat split; try lia; try exact Hspec.
  - (* an execution steps *)
    pose proof (dstep_counts n p (g_sh s) r (o, still) Hth) as Hc.
    set (sh' := fst (dstep p (g_sh s) r (o, still))) in *.
    set (r' := snd (dstep p (g_sh s) r (o, still))) in *.
    destruct Hc as (C1 & C2 & C3 & C4 & C5).
    pose proof (sum_upd wt (g_th s) t _ (mkTh r' None) H) as Uw.
    pose proof (sum_upd fly (g_th s) t _ (mkTh r' None) H) as Uf.
    pose proof (sum_upd execs (g_th s) t _ (mkTh r' None) H) as Ue.
    pose proof (sum_le_others wt (g_th s) t _ wt_le1 H) as Uo.
    pose proof (wt_le1 (mkTh r' None)) as W1.
    unfold execs at 2 4 in Ue. simpl in Ue.
    rewrite upd_length.
    split; [lia|]. split; [exact Hspec|]. split; [lia|]. split; [lia|]. split; [lia|].
    destruct C5 as [C5|(C5 & C6 & C7)]; [lia|].
    unfold allowance. lia.
  - (* send *)
    rewrite upd_length.
    rewrite (sum_upd_same_run wt _ _ _ (mkTh (mkRun (PDone res) tr post) (Some true)) H0 eq_refl),
      (sum_upd_same_run fly _ _ _ (mkTh (mkRun (PDone res) tr post) (Some true)) H0 eq_refl),
      (sum_upd_same_run execs _ _ _ (mkTh (mkRun (PDone res) tr post) (Some true)) H0 eq_refl).
    repeat split; try lia; try exact Hspec.
  - rewrite upd_length.
    rewrite (sum_upd_same_run wt _ _ _ (mkTh (mkRun (PDone res) tr post) (Some false)) H0 eq_refl),
      (sum_upd_same_run fly _ _ _ (mkTh (mkRun (PDone res) tr post) (Some false)) H0 eq_refl),
      (sum_upd_same_run execs _ _ _ (mkTh (mkRun (PDone res) tr post) (Some false)) H0 eq_refl).
    repeat split; try lia; try exact Hspec.
  - rewrite H in *. rewrite upd_length.
    assert (H0' : nth_error (g_th s) 0 = Some (mkTh (mkRun (PDone res) tr post) None)) by exact H0.
    rewrite (sum_upd_same_run wt _ _ _ (mkTh (mkRun (PDone res) tr post) (Some true)) H0' eq_refl),
      (sum_upd_same_run fly _ _ _ (mkTh (mkRun (PDone res) tr post) (Some true)) H0' eq_refl),
      (sum_upd_same_run execs _ _ _ (mkTh (mkRun (PDone res) tr post) (Some true)) H0' eq_refl).
    repeat split; try lia; try (intros ? ?; discriminate).
Qed.

Lemma budget_init n a0 idem k hosts cons0 :
  budget_inv n a0 (runs_allowed idem k) (init idem k (sh0 hosts a0 cons0)).
Proof.
  unfold budget_inv, init, runs_allowed, total_exec, unspawned.
  destruct (exec_mode idem k) as [|k'] eqn:E; simpl.
  - unfold sum, wt, fly, execs; simpl. repeat split; try lia. discriminate.
  - assert (k' = k).
    { unfold exec_mode in E. destruct (negb idem || (k =? 0)); [discriminate|]. inversion E; reflexivity. }
    subst k'. unfold spec_pc. destruct (0 <? k) eqn:E0; simpl; unfold sum, wt, fly, execs; simpl.
    + repeat split; try lia. intros i Hi. inversion Hi; subst. lia.
    + repeat split; try lia. discriminate.
Qed.

(* the budget: with a policy of threshold n, a query attempted a0 times before, and at most rn executions,
   no interleaving sends more than rn + max(0, n - a0) attempts; and never more than rn executions exist *)
Lemma budget_lemma n a0 p idem k hosts cons0 ls s :
  (forall pol, p = Some pol -> threshold pol n) ->
  run_lts p (init idem k (sh0 hosts a0 cons0)) ls = Some s ->
  (total_exec s <= runs_allowed idem k + allowance n a0)%nat
  /\ (length (g_th s) <= runs_allowed idem k)%nat
  /\ s_att (g_sh s) = a0 + Z.of_nat (s_done (g_sh s))
  /\ (total_exec s = s_done (g_sh s) + sum fly (g_th s))%nat.
Proof.
  intros Hth Hr.
  assert (Hi : budget_inv n a0 (runs_allowed idem k) s).
  { eapply (run_lts_inv p (budget_inv n a0 (runs_allowed idem k))); [| |exact Hr].
    - intros s0 l s1 H0 H1. eapply budget_step; eauto.
    - apply budget_init. }
  destruct Hi as (Hlen & _ & Hatt & Hst & Htot & Hb).
  pose proof (sum_le fly wt (g_th s) fly_le_wt).
  repeat split; try lia.
Qed.

(* policies without a threshold: what the policy itself allowed.  Every execution sends at most one
   attempt plus one per "retry"/"retry next host" answer it got (from run_inv), so the total is bounded
   by the number of executions plus the number of such answers. *)
Definition answers (th : thread) : nat := retry_answers (r_tr (t_run th)).

Lemma generic_budget_lemma p idem k sh ls s :
  run_lts p (init idem k sh) ls = Some s ->
  (total_exec s <= length (g_th s) + sum answers (g_th s))%nat.
Proof.
  intros Hr. pose proof (reach_run_inv _ _ _ _ _ _ Hr) as Ha. unfold all_runs in Ha.
  unfold total_exec. induction (g_th s) as [|th l IH]; [unfold sum; simpl; lia|].
  inversion Ha as [|? ? Hth Hl]; subst. specialize (IH Hl).
  unfold sum in *; simpl. destruct Hth as (_ & Hb & _). unfold execs at 1, answers at 1. lia.
Qed.
