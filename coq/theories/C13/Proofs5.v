(* C13/Proofs5.v -- DowngradingConsistencyRetryPolicy in the sequential executor: "next retry will be
   with the next consistency level provided in the slice". *)
From GocqlV Require Import Lib.Base Gen.Consts C13.Model C13.Spec C13.Proofs1 C13.Proofs2.

Local Arguments Z.of_nat : simpl never.
Local Arguments Z.sub : simpl never.
Local Arguments Z.add : simpl never.
Local Arguments Z.to_nat : simpl never.

(* the consistency level of every attempt sent, in order *)
Definition exec_cons (tr : list event) : list Z :=
  flat_map (fun e => match e with EvExec _ c => [c] | _ => [] end) tr.

Lemma exec_cons_snoc tr e :
  exec_cons (tr ++ [e]) = exec_cons tr ++ match e with EvExec _ c => [c] | _ => [] end.
Proof. unfold exec_cons. rewrite flat_map_app. simpl. rewrite app_nil_r. reflexivity. Qed.

Lemma firstn_succ_nth {A} (l : list A) m d : (m < length l)%nat -> firstn (S m) l = firstn m l ++ [nth m l d].
Proof.
  revert m; induction l as [|x l IH]; intros m H; simpl in H; [lia|].
  destruct m as [|m]; [reflexivity|].
  change (x :: firstn (S m) l = (x :: firstn m l) ++ [nth m l d]). rewrite (IH m); [reflexivity | lia].
Qed.

Lemma nth_skipn_add {A} (l : list A) n i d : nth i (skipn n l) d = nth (n + i) l d.
Proof.
  revert l; induction n as [|n IH]; intros l; simpl; [reflexivity|].
  destruct l as [|x l]; [destruct i; reflexivity | apply IH].
Qed.

Section Downgrading.
Variable levels : list Z.
Variable a0n : nat.
Variable cons0 : Z.

Let pol := Some (downgrading_policy levels).
Let L := cons0 :: skipn a0n levels.

Definition dinv (sh : shared) (r : run) : Prop :=
  let tr := r_tr r in
  let m := count_exec tr in
  exec_cons tr = firstn m L
  /\ s_att sh = Z.of_nat a0n + Z.of_nat (s_done sh)
  /\ match r_pc r with
     | PNext None => m = 0%nat /\ s_done sh = 0%nat /\ s_cons sh = cons0
     | PNext (Some _) => m = s_done sh /\ (m < length L)%nat /\ s_cons sh = nth m L 0
     | PFlight _ _ _ => m = S (s_done sh)
     | PDecide _ _ _ => m = s_done sh /\ (1 <= m)%nat
     | PDone _ => True
     end.

Lemma enter_loop_dinv sel last sh tr post :
  exec_cons tr = firstn (count_exec tr) L ->
  s_att sh = Z.of_nat a0n + Z.of_nat (s_done sh) ->
  count_exec tr = s_done sh -> (count_exec tr < length L)%nat -> s_cons sh = nth (count_exec tr) L 0 ->
  match last with None => count_exec tr = 0%nat /\ s_cons sh = cons0 | Some _ => True end ->
  dinv (fst (enter_loop sel last sh tr post)) (snd (enter_loop sel last sh tr post)).
Proof.
  intros He Ha Hm Hl Hc Hlast. unfold enter_loop.
  destruct sel as [h|]; [destruct (usable h)|]; unfold dinv; simpl.
  - rewrite count_exec_snoc, exec_cons_snoc. simpl. rewrite Nat.add_1_r.
    rewrite (firstn_succ_nth L _ 0 Hl), He, Hc. repeat split; auto; lia.
  - repeat split; auto. destruct last as [f|].
    + repeat split; auto.
    + destruct Hlast as [H1 H2]. repeat split; auto. lia.
  - repeat split; auto.
Qed.

Lemma dstep_dinv sh r env : dinv sh r -> dinv (fst (dstep pol sh r env)) (snd (dstep pol sh r env)).
Proof.
  destruct r as [c tr post]. unfold dinv at 1. simpl. intros (He & Ha & Hpc).
  destruct c as [last | h last ac | h f last | res]; unfold dstep; simpl.
  - assert (Hl : (count_exec tr < length L)%nat /\ count_exec tr = s_done sh /\ s_cons sh = nth (count_exec tr) L 0
                 /\ match last with None => count_exec tr = 0%nat /\ s_cons sh = cons0 | Some _ => True end).
    { destruct last as [f|].
      - destruct Hpc as (H1 & H2 & H3). auto.
      - destruct Hpc as (H1 & H2 & H3). rewrite H1. unfold L; simpl. repeat split; auto; lia. }
    destruct Hl as (H1 & H2 & H3 & H4).
    destruct (s_hosts sh) as [|h rest].
    + apply enter_loop_dinv; rewrite ?count_exec_snoc, ?exec_cons_snoc; simpl; rewrite ?Nat.add_0_r, ?app_nil_r; auto.
    + apply enter_loop_dinv; rewrite ?count_exec_snoc, ?exec_cons_snoc; simpl; rewrite ?Nat.add_0_r, ?app_nil_r; auto.
  - destruct env as [o still]; simpl.
    destruct o as [f|]; [destruct (logical (fst f))|]; unfold dinv; simpl;
      rewrite ?count_exec_snoc, ?exec_cons_snoc; simpl; rewrite ?Nat.add_0_r, ?app_nil_r; repeat split; auto; lia.
  - destruct Hpc as [Hm H1].
    unfold pol; simpl.
    destruct (s_att sh >? Z.of_nat (length levels)) eqn:E1; simpl.
    + unfold dinv; simpl. rewrite ?count_exec_snoc, ?exec_cons_snoc; simpl; rewrite ?Nat.add_0_r, ?app_nil_r. repeat split; auto.
    + destruct (s_att sh >? 0) eqn:E2; [|lia]. simpl.
      assert (Hlen : (count_exec tr < length L)%nat).
      { unfold L; simpl. rewrite skipn_length. lia. }
      assert (Hnth : nth (Z.to_nat (s_att sh - 1)) levels 0 = nth (count_exec tr) L 0).
      { unfold L. destruct (count_exec tr) as [|m'] eqn:Em; [lia|]. simpl.
        rewrite nth_skipn_add. f_equal. lia. }
      destruct (downgrading_rtype (fst f) =? K.Retry).
      * apply enter_loop_dinv; simpl; rewrite ?count_exec_snoc, ?exec_cons_snoc; simpl; rewrite ?Nat.add_0_r, ?app_nil_r; auto.
      * destruct ((downgrading_rtype (fst f) =? K.Rethrow) || (downgrading_rtype (fst f) =? K.Ignore));
          [|destruct (downgrading_rtype (fst f) =? K.RetryNextHost)]; unfold dinv; simpl;
          rewrite ?count_exec_snoc, ?exec_cons_snoc; simpl; rewrite ?Nat.add_0_r, ?app_nil_r; repeat split; auto.
  - unfold dinv; simpl. auto.
Qed.

Lemma do_run_dinv fuel env sh r sh' r' :
  dinv sh r -> do_run fuel pol env sh r = Some (sh', r') -> dinv sh' r'.
Proof.
  revert sh r; induction fuel as [|fuel IH]; intros sh r Hi H; simpl in H; [discriminate|].
  destruct (is_done (r_pc r)); [inversion H; subst; exact Hi|].
  eapply IH; [|exact H]. apply dstep_dinv. exact Hi.
Qed.

Lemma downgrading_sequence_lemma fuel env hosts sh' r' :
  do_run fuel pol env (sh0 hosts (Z.of_nat a0n) cons0) run0 = Some (sh', r') ->
  exec_cons (r_tr r') = firstn (count_exec (r_tr r')) (cons0 :: skipn a0n levels).
Proof.
  intros H. assert (Hi : dinv (sh0 hosts (Z.of_nat a0n) cons0) run0).
  { unfold dinv, sh0, run0; simpl. repeat split; auto. lia. }
  destruct (do_run_dinv _ _ _ _ _ _ Hi H) as [He _]. exact He.
Qed.

End Downgrading.

(* ---- the exponential backoff's nap (without jitter): bounds and monotonicity ------------------------ *)
Lemma backoff_bounds_lemma mn mx a : 1 <= a ->
  0 <= nap_lo mn mx a <= nap_hi mn mx a /\ nap_hi mn mx a <= eff_max mx
  /\ nap_lo mn mx a <= nap_lo mn mx (a + 1) /\ nap_hi mn mx a <= nap_hi mn mx (a + 1)
  /\ (eff_max mx + (eff_min mn + 1) / 2 <= eff_min mn * 2 ^ (a - 1) -> nap_lo mn mx a = eff_max mx /\ nap_hi mn mx a = eff_max mx).
Proof.
  intros Ha. unfold nap_lo, nap_hi.
  assert (Hm : 1 <= eff_min mn). { unfold eff_min. destruct (mn <=? 0) eqn:E; lia. }
  assert (Hx : 1 <= eff_max mx). { unfold eff_max. destruct (mx <=? 0) eqn:E; lia. }
  assert (Hp : 1 <= 2 ^ (a - 1)). { apply (Z.pow_le_mono_r 2 0 (a - 1)); lia. }
  assert (Hq : 2 ^ (a + 1 - 1) = 2 * 2 ^ (a - 1)).
  { replace (a + 1 - 1) with (Z.succ (a - 1)) by lia. rewrite Z.pow_succ_r; lia. }
  rewrite Hq.
  set (m := eff_min mn) in *. set (x := eff_max mx) in *. set (q := 2 ^ (a - 1)) in *.
  assert (m <= m * q) by nia.
  repeat split; try lia; try nia.
Qed.
