(* C13/Spec.v -- the documented contract, written from doc.go ("Retries and speculative execution"),
   the documentation of RetryPolicy / RetryType / SimpleRetryPolicy / DowngradingConsistencyRetryPolicy /
   SpeculativeExecutionPolicy in policies.go and of Query.Attempts / Query.Idempotent in session.go,
   NOT from the executor's code.  It is a recogniser over what one execution of a query is observed to
   do (its event log), plus the statement of which result the caller must get, plus the arithmetic of
   the attempt budgets.  The Go harness implements the same recogniser as its monitor. *)
From GocqlV Require Import Lib.Base C13.Model.

(* RetryType values as documented (policies.go, const block of RetryType):
   "retry on same connection", "retry on another connection", "ignore error and return result",
   "raise error and stop retrying" *)
Definition DocRetry : Z := 0.
Definition DocRetryNextHost : Z := 1.
Definition DocIgnore : Z := 2.
Definition DocRethrow : Z := 3.

(* ---- the recogniser ---------------------------------------------------------------------- *)
Inductive mstate :=
| QPick                                          (* the query goes to the next host the iterator offers that is usable *)
| QExec (h : Z)                                  (* the next attempt must be on host h *)
| QFlight (h : Z)                                (* an attempt on h is outstanding *)
| QMark (h : Z) (o : outcome) (still : bool)     (* it returned o; the host is told *)
| QPost (h : Z) (f : failure) (still : bool)     (* it failed with a retryable error: the policy is asked *)
| QAsked (h : Z) (f : failure) (still : bool)    (* the policy allowed another attempt: its retry type decides where *)
| QEnd.                                          (* nothing more may be sent *)

Definition mon_step (has_policy : bool) (q : mstate) (e : event) : option mstate :=
  match q, e with
  | QPick, EvPick None => Some QEnd                                   (* no host left: give up *)
  | QPick, EvPick (Some (h, true)) => Some (QExec h)
  | QPick, EvPick (Some (_, false)) => Some QPick                     (* down / no pool / no connection: skip *)
  | QExec h, EvExec h' _ => if h =? h' then Some (QFlight h) else None
  | QFlight h, EvDone h' o still => if h =? h' then Some (QMark h o still) else None
  | QMark h o still, EvMark h' m =>
      if h =? h' then
        match o, m with
        | None, None => Some QEnd                                     (* success: sent no more *)
        | Some f, None => if logical (fst f) then Some QEnd else None (* cancelled / deadline / not found: stop, host not blamed *)
        | Some f, Some tag =>
            if logical (fst f) then None
            else if tag =? snd f then Some (if has_policy then QPost h f still else QEnd)   (* no policy: sent once *)
            else None
        | None, Some _ => None
        end
      else None
  | QPost h f still, EvAsk _ ans => Some (if ans then QAsked h f still else QEnd)
  | QAsked h f still, EvType tag t =>
      if tag =? snd f then
        Some (if t =? DocRetry then (if still then QExec h else QPick)     (* same host (the next one if it went away) *)
              else if t =? DocRetryNextHost then QPick                     (* next offered host *)
              else QEnd)                                                   (* ignore / rethrow / anything else: stop *)
      else None
  | _, _ => None
  end.

Fixpoint mon_run (hp : bool) (q : mstate) (tr : list event) : option mstate :=
  match tr with
  | [] => Some q
  | e :: tr' => match mon_step hp q e with Some q' => mon_run hp q' tr' | None => None end
  end.

(* an event log follows the contract *)
Definition follows_contract (hp : bool) (tr : list event) : Prop := exists q, mon_run hp QPick tr = Some q.
(* ... and is complete *)
Definition contract_complete (hp : bool) (tr : list event) : Prop := mon_run hp QPick tr = Some QEnd.

(* ---- which result the caller gets ------------------------------------------------------------ *)
Fixpoint last_done (tr : list event) (acc : option (Z * outcome)) : option (Z * outcome) :=
  match tr with
  | [] => acc
  | EvDone h o _ :: tr' => last_done tr' (Some (h, o))
  | _ :: tr' => last_done tr' acc
  end.

Definition known_type (t : Z) : bool :=
  (t =? DocRetry) || (t =? DocRetryNextHost) || (t =? DocIgnore) || (t =? DocRethrow).

(* the result is the last attempt's: its Iter, or its error once the hosts ran out; "no connections"
   only if nothing was ever sent; "unknown retry type" only if the policy's last answer was one *)
Definition result_ok (tr : list event) (r : result) : Prop :=
  match r with
  | RIter h o => last_done tr None = Some (h, o)
  | RLast f => exists h, last_done tr None = Some (h, Some f)
  | RNoConn => count_exec tr = 0%nat
  | RUnknown => exists tag t, last tr (EvPick None) = EvType tag t /\ known_type t = false
  end.

(* ---- budgets ------------------------------------------------------------------------------------ *)
(* the times the policy answered "retry" / "retry on the next host" during one execution *)
Definition is_retry_answer (e : event) : bool :=
  match e with EvType _ t => (t =? DocRetry) || (t =? DocRetryNextHost) | _ => false end.
Definition retry_answers (tr : list event) : nat := length (filter is_retry_answer tr).

(* A policy "with threshold n" stops answering yes once the query has been attempted more than n times
   (SimpleRetryPolicy: "Attempt tells gocql to attempt the query again based on query.Attempts being less
   than the NumRetries"; the exponential and downgrading policies count the same way). *)
Definition threshold (p : policy) (n : Z) : Prop := forall d a, fst (p_attempt p d a) = true -> a <= n.

(* what a threshold-n policy allows a query that has already been attempted a0 times:
   one attempt per execution, plus retries while the attempt count is at most n *)
Definition allowance (n a0 : Z) : nat := Z.to_nat (n - a0).

(* ---- DowngradingConsistencyRetryPolicy, from its documentation comment ----------------------- *)
(* Only the cases the comment decides:
   read timeout -> retried (next consistency); unavailable with a live replica -> retried;
   write timeout of an UNLOGGED_BATCH acknowledged by a replica -> retried;
   write timeout of SIMPLE/BATCH/COUNTER acknowledged by a replica -> ignored. *)
Definition doc_downgrading (e : err) : option Z :=
  match e with
  | EReadTimeout => Some DocRetry
  | EUnavailable alive => if alive >? 0 then Some DocRetry else None
  | EWriteTimeout wt received =>
      if received >? 0 then
        (if wt =? WT_UNLOGGED_BATCH then Some DocRetry
         else if (wt =? WT_SIMPLE) || (wt =? WT_BATCH) || (wt =? WT_COUNTER) then Some DocIgnore
         else None)
      else None
  | _ => None
  end.
