(* C13/Proofs6.v -- no result is lost: as soon as one execution has finished, executeQuery can return
   within two steps (a send and a receive, a receive, or observing ctx.Done), in every reachable state. *)
From GocqlV Require Import Lib.Base Gen.Consts C13.Model C13.Spec C13.Proofs1 C13.Proofs2 C13.Proofs3.

Local Arguments nth_error : simpl never.

Definition live_inv (s : sstate) : Prop :=
  (g_main s = MSeq -> length (g_th s) = 1%nat /\ Forall (fun th => t_exit th = None) (g_th s))
  /\ (main_waiting (g_main s) = true ->
      g_chan s = g_first s
      /\ Forall (fun th => (t_exit th = Some true -> g_first s <> None)
                           /\ (t_exit th = Some false -> s_cancel (g_sh s) = true)) (g_th s)).

Lemma enter_loop_cancel sel last sh tr post : s_cancel (fst (enter_loop sel last sh tr post)) = s_cancel sh.
Proof. unfold enter_loop. destruct sel as [h|]; [destruct (usable h)|]; reflexivity. Qed.

Lemma dstep_cancel p sh r env : s_cancel (fst (dstep p sh r env)) = s_cancel sh.
Proof.
  destruct r as [c tr post]. destruct c as [last | h last ac | h f last | res]; unfold dstep; simpl.
  - destruct (s_hosts sh); rewrite enter_loop_cancel; reflexivity.
  - destruct env as [o still]; simpl. destruct o as [f|]; [destruct (logical (fst f)); [|destruct p]|]; reflexivity.
  - destruct p as [pol|]; [|reflexivity].
    destruct (fst (p_attempt pol (s_dec sh) (s_att sh))); simpl; [|reflexivity].
    destruct (p_rtype pol (s_dec sh) (fst f) =? K.Retry); [rewrite enter_loop_cancel; reflexivity|].
    destruct ((p_rtype pol (s_dec sh) (fst f) =? K.Rethrow) || (p_rtype pol (s_dec sh) (fst f) =? K.Ignore));
      [|destruct (p_rtype pol (s_dec sh) (fst f) =? K.RetryNextHost)]; reflexivity.
  - reflexivity.
Qed.

Lemma live_step p s l s' : live_inv s -> step p s l = Some s' -> live_inv s'.
Proof.
  intros (Hq & Hw) Hs. apply step_sound in Hs. unfold live_inv.
  destruct Hs; simpl in *.
  - (* tick *)
    rewrite H in *. split.
    + unfold spec_pc. destruct (i + 1 <? g_k s); discriminate.
    + intros _. destruct (Hw eq_refl) as [Hc Hf]. split; [exact Hc|].
      apply Forall_app; split; [exact Hf|]. repeat constructor; simpl; discriminate.
  - split; discriminate.
  - split; discriminate.
  - (* cancel *)
    split; [exact Hq|]. intros W. destruct (Hw W) as [Hc Hf]. split; [exact Hc|].
    eapply Forall_impl; [|exact Hf]. intros th [H1 H2]. split; [exact H1 | reflexivity].
  - (* an execution steps *)
    split.
    + intros E. destruct (Hq E) as [Hl Hf]. rewrite upd_length. split; [exact Hl|].
      apply Forall_upd; [exact Hf | reflexivity].
    + intros W. destruct (Hw W) as [Hc Hf]. split; [exact Hc|].
      rewrite dstep_cancel. apply Forall_upd; [exact Hf|]. simpl. split; discriminate.
  - (* send *)
    split; [intros E; congruence|].
    intros W. destruct (Hw W) as [Hc Hf]. rewrite H1 in Hc. rewrite <- Hc. split; [reflexivity|].
    apply Forall_upd.
    + eapply Forall_impl; [|exact Hf]. intros th [H2 H3]. split; [intros _; discriminate | exact H3].
    + simpl. split; [intros _; discriminate | discriminate].
  - (* drop *)
    split; [intros E; congruence|].
    intros W. destruct (Hw W) as [Hc Hf]. split; [exact Hc|].
    apply Forall_upd; [exact Hf|]. simpl. split; [discriminate | intros _; exact H1].
  - split; discriminate.
Qed.

Lemma live_init idem k sh : live_inv (init idem k sh).
Proof.
  unfold live_inv, init. destruct (exec_mode idem k) as [|k']; simpl.
  - split; [intros _; split; [reflexivity | repeat constructor]|discriminate].
  - split.
    + unfold spec_pc. destruct (0 <? k'); discriminate.
    + intros _. split; [reflexivity|]. repeat constructor; simpl; discriminate.
Qed.

Lemma In_nth_error_ex {A} (l : list A) x : In x l -> exists t, nth_error l t = Some x.
Proof. apply In_nth_error. Qed.

Lemma can_return_lemma p idem k sh ls s :
  run_lts p (init idem k sh) ls = Some s ->
  (forall m, g_main s <> MRet m) ->
  (exists th, In th (g_th s) /\ is_done (r_pc (t_run th)) = true) ->
  exists ls' s' m, (length ls' <= 2)%nat /\ run_lts p s ls' = Some s' /\ g_main s' = MRet m
                   /\ Forall (fun l => l <> LCancel) ls'.
Proof.
  intros Hr Hnr (th & Hin & Hd).
  assert (Hi : live_inv s).
  { eapply (run_lts_inv p live_inv); [| |exact Hr]; [intros s0 l s1; apply live_step | apply live_init]. }
  destruct Hi as (Hq & Hw).
  destruct (In_nth_error_ex _ _ Hin) as [t Ht].
  destruct th as [[c tr post] ex]. simpl in Hd. destruct c as [| | |res]; try discriminate.
  destruct (g_main s) as [|i| |m] eqn:Em.
  - (* sequential: do has returned *)
    destruct (Hq eq_refl) as [Hl Hf].
    assert (t = 0%nat). { assert (t < length (g_th s))%nat by (apply nth_error_Some; congruence). lia. }
    subst t. pose proof (Forall_nth_error _ _ _ _ Hf Ht) as He. simpl in He. subst ex.
    exists [LSeqRet]. eexists. exists (MIter res). split; [simpl; lia|].
    split; [simpl; rewrite Em, Ht; reflexivity | split; [reflexivity | repeat constructor; discriminate]].
  - (* in speculate's loop *)
    destruct (Hw eq_refl) as [Hc Hf]. pose proof (Forall_nth_error _ _ _ _ Hf Ht) as [H1 H2]. simpl in *.
    destruct (g_chan s) as [r|] eqn:Ec.
    + exists [LMainRecv]. eexists. exists (MIter r). split; [simpl; lia|]. split; [simpl; rewrite Em, Ec; simpl; reflexivity | split; [reflexivity | repeat constructor; discriminate]].
    + destruct ex as [[|]|].
      * exfalso. apply (H1 eq_refl). symmetry. exact Hc.
      * exists [LMainCtx]. eexists. exists MCtx. split; [simpl; lia|]. split; [simpl; rewrite Em, (H2 eq_refl); simpl; reflexivity | split; [reflexivity | repeat constructor; discriminate]].
      * exists [LSend t; LMainRecv]. eexists. exists (MIter res). split; [simpl; lia|].
        split; [simpl; rewrite Em, Ht, Ec; simpl; rewrite ?Em; simpl; reflexivity | split; [reflexivity | repeat constructor; discriminate]].
  - (* final select *)
    destruct (Hw eq_refl) as [Hc Hf]. pose proof (Forall_nth_error _ _ _ _ Hf Ht) as [H1 H2]. simpl in *.
    destruct (g_chan s) as [r|] eqn:Ec.
    + exists [LMainRecv]. eexists. exists (MIter r). split; [simpl; lia|]. split; [simpl; rewrite Em, Ec; simpl; reflexivity | split; [reflexivity | repeat constructor; discriminate]].
    + destruct ex as [[|]|].
      * exfalso. apply (H1 eq_refl). symmetry. exact Hc.
      * exists [LMainCtx]. eexists. exists MCtx. split; [simpl; lia|]. split; [simpl; rewrite Em, (H2 eq_refl); simpl; reflexivity | split; [reflexivity | repeat constructor; discriminate]].
      * exists [LSend t; LMainRecv]. eexists. exists (MIter res). split; [simpl; lia|].
        split; [simpl; rewrite Em, Ht, Ec; simpl; rewrite ?Em; simpl; reflexivity | split; [reflexivity | repeat constructor; discriminate]].
  - exfalso. apply (Hnr m). reflexivity.
Qed.
