(* C13/Proofs4.v -- the built-in policies, the bound on the number of executions, and the
   statements of Props.v assembled from the invariants. *)
From GocqlV Require Import Lib.Base Gen.Consts C13.Model C13.Spec C13.Proofs1 C13.Proofs2 C13.Proofs3.

Local Arguments Z.of_nat : simpl never.
Local Arguments Z.sub : simpl never.
Local Arguments Z.add : simpl never.
Local Arguments Z.to_nat : simpl never.
Local Arguments Nat.mul : simpl never.

(* ---- built-in policies ---------------------------------------------------------------------- *)
Lemma simple_threshold n : threshold (simple_policy n) n.
Proof. unfold threshold, simple_policy; simpl. intros _ a H. lia. Qed.

Lemma expo_threshold n : threshold (expo_policy n) n.
Proof. unfold threshold, expo_policy; simpl. intros _ a H. destruct (a >? n) eqn:E; [discriminate | lia]. Qed.

Lemma downgrading_threshold levels : threshold (downgrading_policy levels) (Z.of_nat (length levels)).
Proof.
  unfold threshold, downgrading_policy; simpl. intros _ a H.
  destruct (a >? Z.of_nat (length levels)) eqn:E; [discriminate | lia].
Qed.

Lemma downgrading_table_lemma e d : doc_downgrading e = Some d -> downgrading_rtype e = d.
Proof.
  destruct e as [| | | alive | wt received | | cls]; simpl; try discriminate.
  - destruct (alive >? 0); [|discriminate]. intros H; inversion H; reflexivity.
  - destruct (received >? 0); [|discriminate].
    destruct (wt =? WT_UNLOGGED_BATCH) eqn:E1.
    + intros H; inversion H; subst.
      assert (E2 : (wt =? WT_SIMPLE) || (wt =? WT_BATCH) || (wt =? WT_COUNTER) = false).
      { unfold WT_UNLOGGED_BATCH, WT_SIMPLE, WT_BATCH, WT_COUNTER in *. lia. }
      rewrite E2. reflexivity.
    + destruct ((wt =? WT_SIMPLE) || (wt =? WT_BATCH) || (wt =? WT_COUNTER)); [|discriminate].
      intros H; inversion H; reflexivity.
  - intros H; inversion H; reflexivity.
Qed.

(* the i-th retry of the downgrading policy is asked for at the i-th listed consistency level *)
Lemma downgrading_level_lemma levels d a :
  0 < a <= Z.of_nat (length levels) ->
  p_attempt (downgrading_policy levels) d a = (true, Some (nth (Z.to_nat (a - 1)) levels 0)).
Proof.
  intros H. unfold downgrading_policy; simpl.
  destruct (a >? Z.of_nat (length levels)) eqn:E1; [lia|]. destruct (a >? 0) eqn:E2; [reflexivity | lia].
Qed.

(* ---- never more executions than the speculative policy allows -------------------------------- *)
Definition runs_inv (rn : nat) (s : sstate) : Prop :=
  (length (g_th s) + unspawned s <= rn)%nat /\ (forall i, g_main s = MSpec i -> i < g_k s).

Lemma runs_step rn p s l s' : runs_inv rn s -> step p s l = Some s' -> runs_inv rn s'.
Proof.
  intros (Hlen & Hspec) Hs. apply step_sound in Hs. unfold runs_inv, unspawned in *.
  destruct Hs; simpl in *; rewrite ?upd_length.
  - rewrite H in *. specialize (Hspec i eq_refl). rewrite app_length. unfold spec_pc; simpl.
    destruct (i + 1 <? g_k s) eqn:E; simpl; split; try lia; try (intros ? ?; discriminate).
    intros j Hj. inversion Hj; subst. lia.
  - split; [lia | intros ? ?; discriminate].
  - split; [lia | intros ? ?; discriminate].
  - split; [lia | exact Hspec].
  - split; [lia | exact Hspec].
  - split; [lia | exact Hspec].
  - split; [lia | exact Hspec].
  - rewrite H in *. split; [lia | intros ? ?; discriminate].
Qed.

Lemma runs_init idem k sh : runs_inv (runs_allowed idem k) (init idem k sh).
Proof.
  unfold runs_inv, init, runs_allowed, unspawned.
  destruct (exec_mode idem k) as [|k'] eqn:E; simpl.
  - split; [lia | intros ? ?; discriminate].
  - assert (k' = k).
    { unfold exec_mode in E. destruct (negb idem || (k =? 0)); [discriminate|]. inversion E; reflexivity. }
    subst k'. unfold spec_pc. destruct (0 <? k) eqn:E0; simpl.
    + split; [lia|]. intros i Hi. inversion Hi; subst. lia.
    + split; [lia | intros ? ?; discriminate].
Qed.

Lemma runs_bound_lemma p idem k sh ls s :
  run_lts p (init idem k sh) ls = Some s -> (length (g_th s) <= runs_allowed idem k)%nat.
Proof.
  intros Hr.
  assert (Hi : runs_inv (runs_allowed idem k) s).
  { eapply (run_lts_inv p (runs_inv (runs_allowed idem k))); [| |exact Hr].
    - intros s0 l s1. apply runs_step.
    - apply runs_init. }
  destruct Hi. lia.
Qed.

(* the channel is never used by a sequential execution *)
Definition seq_inv (s : sstate) : Prop :=
  g_chan s = None /\ g_first s = None /\ length (g_th s) = 1%nat
  /\ (g_main s = MSeq \/ (exists r, g_main s = MRet (MIter r)) /\ forall th, nth_error (g_th s) 0 = Some th -> t_exit th <> None).

Lemma seq_step p s l s' : seq_inv s -> step p s l = Some s' -> seq_inv s'.
Proof.
  intros (Hc & Hf & Hl & Hm) Hs. apply step_sound in Hs. unfold seq_inv.
  assert (Hw : main_waiting (g_main s) = false).
  { destruct Hm as [Hm|[[r' Hm] _]]; rewrite Hm; reflexivity. }
  assert (Hz : forall t x, nth_error (g_th s) t = Some x -> t = 0%nat).
  { intros t x Hn. assert (t < length (g_th s))%nat by (apply nth_error_Some; congruence). lia. }
  destruct Hs; simpl in *; rewrite ?upd_length; auto.
  - destruct Hm as [Hm|[[r' Hm] _]]; congruence.
  - congruence.
  - congruence.
  - (* run *)
    repeat split; auto. destruct Hm as [Hm|[Hm He]]; [left; exact Hm|].
    exfalso. pose proof (Hz _ _ H) as E. subst t. apply (He _ H). reflexivity.
  - (* send: impossible *)
    exfalso. destruct Hm as [Hm|[Hm He]]; [congruence|].
    pose proof (Hz _ _ H0) as E. subst t. apply (He _ H0). reflexivity.
  - exfalso. destruct Hm as [Hm|[Hm He]]; [congruence|].
    pose proof (Hz _ _ H0) as E. subst t. apply (He _ H0). reflexivity.
  - repeat split; auto. right. split; [eexists; reflexivity|].
    intros th Hn. assert (H0' : nth_error (g_th s) 0 = Some (mkTh (mkRun (PDone res) tr post) None)) by exact H0.
    change (nth_error (upd (g_th s) 0 (mkTh (mkRun (PDone res) tr post) (Some true))) 0 = Some th) in Hn.
    rewrite (nth_error_upd_same _ _ (mkTh (mkRun (PDone res) tr post) (Some true)) _ H0') in Hn. inversion Hn; subst. discriminate.
Qed.

Lemma seq_no_channel p idem k sh ls s :
  is_seq idem k = true -> run_lts p (init idem k sh) ls = Some s -> g_chan s = None /\ g_first s = None.
Proof.
  intros Hq Hr.
  assert (Hi : seq_inv s).
  { eapply (run_lts_inv p seq_inv); [| |exact Hr].
    - intros s0 l s1. apply seq_step.
    - unfold is_seq, init, seq_inv in *. destruct (exec_mode idem k); [|discriminate]. simpl. auto. }
  destruct Hi as (H1 & H2 & _). auto.
Qed.

(* ---- sequential executions: the per-execution invariant at the end ------------------------------ *)
Lemma do_run_inv fuel p env sh r sh' r' :
  run_inv p r -> do_run fuel p env sh r = Some (sh', r') -> run_inv p r' /\ is_done (r_pc r') = true.
Proof.
  revert sh r; induction fuel as [|fuel IH]; intros sh r Hi H; simpl in H; [discriminate|].
  destruct (is_done (r_pc r)) eqn:Ed.
  - inversion H; subst. auto.
  - eapply IH; [|exact H]. apply dstep_inv. exact Hi.
Qed.

Lemma total_exec_seq sh r k : total_exec (seq_state sh r k) = count_exec (r_tr r).
Proof. unfold total_exec, seq_state, sum, execs; simpl. lia. Qed.

Lemma sequential_budget_lemma n a0 p fuel env hosts cons0 sh' r' :
  (forall pol, p = Some pol -> threshold pol n) ->
  do_run fuel p env (sh0 hosts a0 cons0) run0 = Some (sh', r') ->
  (count_exec (r_tr r') <= 1 + allowance n a0)%nat
  /\ s_att sh' = a0 + Z.of_nat (count_exec (r_tr r')).
Proof.
  intros Hth H. destruct (do_run_lts _ _ _ _ _ _ _ 0 H) as [Hd [ls Hl]].
  rewrite <- init_seq in Hl.
  destruct (budget_lemma n a0 p false 0 hosts cons0 ls _ Hth Hl) as (H1 & _ & H3 & H4).
  rewrite total_exec_seq in *. simpl in *.
  unfold sum, fly in H4; simpl in H4. destruct (r_pc r'); try discriminate. simpl in H4.
  change (runs_allowed false 0) with 1%nat in H1. split; [lia|]. rewrite H3. lia.
Qed.

Lemma sequential_terminates_lemma n a0 p env hosts cons0 :
  (forall pol, p = Some pol -> threshold pol n) ->
  exists res, do_run (4 * length hosts + 4 * Z.to_nat (n + 1 - a0) + 2) p env (sh0 hosts a0 cons0) run0 = Some res.
Proof.
  intros Hth. apply (do_run_terminates n p env Hth). unfold mu, eff_att, rank, sh0, run0; simpl. lia.
Qed.

(* ---- statements assembled for Props.v ---------------------------------------------------------- *)
Lemma once_without_policy_lemma idem k hosts a0 cons0 ls s :
  run_lts None (init idem k (sh0 hosts a0 cons0)) ls = Some s ->
  (total_exec s <= runs_allowed idem k)%nat
  /\ Forall (fun th => (count_exec (r_tr (t_run th)) <= 1)%nat) (g_th s).
Proof.
  intros Hr. split.
  - destruct (budget_lemma a0 a0 None idem k hosts cons0 ls s) as (H & _); [discriminate | exact Hr|].
    unfold allowance in H. lia.
  - pose proof (reach_run_inv _ _ _ _ _ _ Hr) as Ha. unfold all_runs in Ha.
    eapply Forall_impl; [|exact Ha]. intros th (_ & Hb & Hp & _). simpl in *. rewrite (Hp eq_refl) in Hb. lia.
Qed.

Lemma decision_followed_lemma p idem k sh ls s :
  run_lts p (init idem k sh) ls = Some s ->
  Forall (fun th => follows_contract (hp_of p) (r_tr (t_run th))
                    /\ (is_done (r_pc (t_run th)) = true -> contract_complete (hp_of p) (r_tr (t_run th))))
         (g_th s).
Proof.
  intros Hr. pose proof (reach_run_inv _ _ _ _ _ _ Hr) as Ha. unfold all_runs in Ha.
  eapply Forall_impl; [|exact Ha]. intros th (Hm & _). simpl in *. split.
  - eexists. exact Hm.
  - intros Hd. unfold contract_complete. rewrite Hm. destruct (r_pc (t_run th)); try discriminate. reflexivity.
Qed.

Lemma last_error_lemma p idem k sh ls s :
  run_lts p (init idem k sh) ls = Some s ->
  Forall (fun th => forall r, r_pc (t_run th) = PDone r -> result_ok (r_tr (t_run th)) r) (g_th s).
Proof.
  intros Hr. pose proof (reach_run_inv _ _ _ _ _ _ Hr) as Ha. unfold all_runs in Ha.
  eapply Forall_impl; [|exact Ha]. intros th (_ & _ & _ & H) r E. simpl in *. rewrite E in H. exact H.
Qed.

Lemma holds_result_ok p idem k sh ls s r :
  run_lts p (init idem k sh) ls = Some s -> holds_result s r ->
  exists th, In th (g_th s) /\ r_pc (t_run th) = PDone r /\ result_ok (r_tr (t_run th)) r
             /\ contract_complete (hp_of p) (r_tr (t_run th)).
Proof.
  intros Hr (t & tr & post & ex & Hn).
  pose proof (last_error_lemma _ _ _ _ _ _ Hr) as H1. pose proof (decision_followed_lemma _ _ _ _ _ _ Hr) as H2.
  exists (mkTh (mkRun (PDone r) tr post) ex). split; [eapply nth_error_In; eauto|]. split; [reflexivity|].
  pose proof (Forall_nth_error _ _ _ _ H1 Hn) as H3. pose proof (Forall_nth_error _ _ _ _ H2 Hn) as [_ H4].
  simpl in *. split; [apply H3; reflexivity | apply H4; reflexivity].
Qed.

Lemma non_idempotent_not_speculated_lemma p k sh ls s :
  run_lts p (init false k sh) ls = Some s ->
  (length (g_th s) <= 1)%nat /\ g_chan s = None /\ g_first s = None.
Proof.
  intros Hr. split.
  - exact (runs_bound_lemma _ _ _ _ _ _ Hr).
  - exact (seq_no_channel p false k sh ls s eq_refl Hr).
Qed.

Lemma sum_zero f l : Forall (fun th => f th = 0%nat) l -> sum f l = 0%nat.
Proof. intros H. unfold sum. induction H as [|x l Hx Hl IH]; simpl; [reflexivity|]. lia. Qed.

Lemma non_idempotent_not_retried_lemma p k sh ls s :
  run_lts p (init false k sh) ls = Some s ->
  Forall (fun th => retry_answers (r_tr (t_run th)) = 0%nat) (g_th s) ->
  (total_exec s <= 1)%nat.
Proof.
  intros Hr Hz. pose proof (generic_budget_lemma _ _ _ _ _ _ Hr) as Hb.
  pose proof (runs_bound_lemma _ _ _ _ _ _ Hr) as Hl. change (runs_allowed false k) with 1%nat in Hl.
  rewrite (sum_zero answers _ Hz) in Hb. lia.
Qed.

(* ---- the gate's input: a batch is idempotent exactly when every entry is ---------------------------- *)
Lemma batch_idempotent_spec es : batch_idempotent es = true <-> Forall (fun e => e = true) es.
Proof.
  induction es as [|e es IH]; simpl; [split; auto|].
  destruct e; simpl.
  - rewrite IH. split; [intros H; constructor; auto | intros H; inversion H; auto].
  - split; [discriminate | intros H; inversion H; discriminate].
Qed.

Lemma marked_not_speculated_lemma p src k sh ls s :
  match src with
  | IBatch es => In false es
  | IQuery d ov => ov = Some false \/ (ov = None /\ d = false)
  end ->
  run_lts p (init (is_idempotent src) k sh) ls = Some s ->
  (length (g_th s) <= 1)%nat /\ g_chan s = None /\ g_first s = None.
Proof.
  intros Hsrc Hr. assert (E : is_idempotent src = false).
  { destruct src as [es|d ov]; simpl.
    - destruct (batch_idempotent es) eqn:Eb; [|reflexivity].
      apply batch_idempotent_spec in Eb. rewrite Forall_forall in Eb. specialize (Eb false Hsrc). discriminate.
    - destruct Hsrc as [H|[H1 H2]]; subst; reflexivity. }
  rewrite E in Hr. exact (non_idempotent_not_speculated_lemma _ _ _ _ _ Hr).
Qed.
