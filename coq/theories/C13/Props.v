(* C13/Props.v -- the proof obligations for property C13 (retries, idempotence and speculative
   execution follow the documented contract), and nothing else.

   Vocabulary (C13/Model.v, C13/Spec.v):
     init idem k sh        executeQuery's start for a query with idempotence flag idem whose speculative
                           policy answers Attempts() = k; sh = sh0 hosts a0 cons0 (hosts the iterator will
                           offer, a0 earlier attempts in the query metrics, consistency cons0)
     run_lts p s ls        the state after the steps ls (any interleaving of: ticker, executions' steps
                           with arbitrary attempt outcomes, sends/drops of results, the main goroutine's
                           receive / ctx.Done, cancellation of the context by the application)
     do_run fuel p env ..  the sequential path (queryExecutor.do), the n-th attempt getting outcome env n
     total_exec s          attempts sent so far by all executions; g_th s the executions
     follows_contract      the recogniser of Spec.v: first usable offered host; after a retryable failure
                           the policy is asked; Retry -> same host (next offered one if it went away),
                           RetryNextHost -> next usable offered host, Ignore/Rethrow/anything else/no -> stop;
                           success, context errors and ErrNotFound stop; without a policy one attempt
     result_ok tr r        r is the last attempt's Iter / its error once hosts ran out / "no connections" only
                           if nothing was sent / "unknown retry type" only after such an answer *)
From GocqlV Require Import Lib.Base Gen.Consts C13.Model C13.Spec C13.Proofs1 C13.Proofs2 C13.Proofs3 C13.Proofs4 C13.Proofs5 C13.Proofs6 C13.Proofs7.

(* The RetryType values in the source are the documented ones (a changed constant breaks this). *)
Theorem C13_retry_type_constants :
  K.Retry = DocRetry /\ K.RetryNextHost = DocRetryNextHost /\ K.Ignore = DocIgnore /\ K.Rethrow = DocRethrow.
Proof. exact (conj K_Retry (conj K_RetryNextHost (conj K_Ignore K_Rethrow))). Qed.
Print Assumptions C13_retry_type_constants.

(* Without a retry policy a query is sent once per execution: every interleaving, every outcome. *)
Theorem C13_once_without_policy : forall idem k hosts a0 cons0 ls s,
  run_lts None (init idem k (sh0 hosts a0 cons0)) ls = Some s ->
  (total_exec s <= runs_allowed idem k)%nat
  /\ Forall (fun th => (count_exec (r_tr (t_run th)) <= 1)%nat) (g_th s).
Proof. exact once_without_policy_lemma. Qed.
Print Assumptions C13_once_without_policy.

(* Sequential executor, policy with threshold n (SimpleRetryPolicy{n}, ExponentialBackoffRetryPolicy{n},
   DowngradingConsistencyRetryPolicy with n levels), a0 earlier attempts: at most 1 + max(0, n - a0)
   attempts, for all hosts and all outcomes; and the metrics count exactly the attempts made. *)
Theorem C13_budget_sequential : forall n a0 p fuel env hosts cons0 sh' r',
  (forall pol, p = Some pol -> threshold pol n) ->
  do_run fuel p env (sh0 hosts a0 cons0) run0 = Some (sh', r') ->
  (count_exec (r_tr r') <= 1 + allowance n a0)%nat
  /\ s_att sh' = a0 + Z.of_nat (count_exec (r_tr r')).
Proof. exact sequential_budget_lemma. Qed.
Print Assumptions C13_budget_sequential.

(* ... and it always returns (so the bound above is never true "because fuel ran out"). *)
Theorem C13_sequential_terminates : forall n a0 p env hosts cons0,
  (forall pol, p = Some pol -> threshold pol n) ->
  exists res, do_run (4 * length hosts + 4 * Z.to_nat (n + 1 - a0) + 2) p env (sh0 hosts a0 cons0) run0 = Some res.
Proof. exact sequential_terminates_lemma. Qed.
Print Assumptions C13_sequential_terminates.

(* The sequential executor (the function the correspondence check runs against queryExecutor.do) is one
   schedule of the concurrent system started for a non-idempotent query, so every statement below about
   all schedules of [run_lts] is a statement about it. *)
Theorem C13_sequential_is_schedule : forall fuel p env sh sh' r' k,
  do_run fuel p env sh run0 = Some (sh', r') ->
  is_done (r_pc r') = true
  /\ exists ls, run_lts p (init false k sh) ls = Some (mkS sh' [mkTh r' None] None None MSeq k).
Proof. intros fuel p env sh sh' r' k H. rewrite init_seq. exact (do_run_lts fuel p env sh run0 sh' r' k H). Qed.
Print Assumptions C13_sequential_is_schedule.

(* Speculative execution, every interleaving: never more than 1 + k executions (1 if the query is not
   idempotent or k = 0), never more than that many attempts plus max(0, n - a0) retries in total; the
   attempt counter the policies consult is a0 plus the attempts completed. *)
Theorem C13_budget_speculative : forall n a0 p idem k hosts cons0 ls s,
  (forall pol, p = Some pol -> threshold pol n) ->
  run_lts p (init idem k (sh0 hosts a0 cons0)) ls = Some s ->
  (total_exec s <= runs_allowed idem k + allowance n a0)%nat
  /\ (length (g_th s) <= runs_allowed idem k)%nat
  /\ s_att (g_sh s) = a0 + Z.of_nat (s_done (g_sh s))
  /\ (total_exec s = s_done (g_sh s) + sum fly (g_th s))%nat.
Proof. exact budget_lemma. Qed.
Print Assumptions C13_budget_speculative.

(* The three built-in policies have the thresholds their documentation states. *)
Theorem C13_builtin_thresholds : forall n levels,
  threshold (simple_policy n) n /\ threshold (expo_policy n) n
  /\ threshold (downgrading_policy levels) (Z.of_nat (length levels)).
Proof. intros n levels. exact (conj (simple_threshold n) (conj (expo_threshold n) (downgrading_threshold levels))). Qed.
Print Assumptions C13_builtin_thresholds.

(* Arbitrary policies (any decision function): the attempts never exceed what the policy allowed --
   one per execution plus one per "retry" / "retry on next host" answer it gave. *)
Theorem C13_budget_by_answers : forall p idem k sh ls s,
  run_lts p (init idem k sh) ls = Some s ->
  (total_exec s <= length (g_th s) + sum answers (g_th s))%nat
  /\ (length (g_th s) <= runs_allowed idem k)%nat.
Proof. intros p idem k sh ls s H. exact (conj (generic_budget_lemma _ _ _ _ _ _ H) (runs_bound_lemma _ _ _ _ _ _ H)). Qed.
Print Assumptions C13_budget_by_answers.

(* Every execution, under every interleaving, follows the retry contract: where each attempt goes is
   exactly what the policy's decision says; rethrow, ignore, unknown types and "no" stop retrying;
   success, context.Canceled / DeadlineExceeded and ErrNotFound stop at once. *)
Theorem C13_decision_followed : forall p idem k sh ls s,
  run_lts p (init idem k sh) ls = Some s ->
  Forall (fun th => follows_contract (hp_of p) (r_tr (t_run th))
                    /\ (is_done (r_pc (t_run th)) = true -> contract_complete (hp_of p) (r_tr (t_run th))))
         (g_th s).
Proof. exact decision_followed_lemma. Qed.
Print Assumptions C13_decision_followed.

(* Context cancellation: if attempts started after the context is done return its error (what the
   connection does), every execution starts at most one attempt after cancellation. *)
Theorem C13_ctx_stops : forall p idem k sh ls s,
  run_lts p (init idem k sh) ls = Some s -> honest_run p (init idem k sh) ls ->
  Forall (fun th => (r_post (t_run th) <= 1)%nat) (g_th s).
Proof. exact ctx_stops_lemma. Qed.
Print Assumptions C13_ctx_stops.

(* The result of an execution is the last attempt's. *)
Theorem C13_last_error : forall p idem k sh ls s,
  run_lts p (init idem k sh) ls = Some s ->
  Forall (fun th => forall r, r_pc (t_run th) = PDone r -> result_ok (r_tr (t_run th)) r) (g_th s).
Proof. exact last_error_lemma. Qed.
Print Assumptions C13_last_error.

(* The caller gets one result: that of an execution that completed (whose log is complete and whose
   last attempt it is); under speculation it is the first one sent; and it never changes afterwards. *)
Theorem C13_one_result : forall p idem k sh ls s r,
  run_lts p (init idem k sh) ls = Some s -> g_main s = MRet (MIter r) ->
  (exists th, In th (g_th s) /\ r_pc (t_run th) = PDone r /\ result_ok (r_tr (t_run th)) r
              /\ contract_complete (hp_of p) (r_tr (t_run th)))
  /\ (is_seq idem k = false -> g_first s = Some r)
  /\ (forall ls' s', run_lts p s ls' = Some s' -> g_main s' = MRet (MIter r)).
Proof.
  intros p idem k sh ls s r Hr Hm. destruct (one_result_lemma _ _ _ _ _ _ _ Hr Hm) as [H1 H2].
  split; [exact (holds_result_ok _ _ _ _ _ _ _ Hr H1)|]. split; [exact H2|].
  intros ls' s' Hr'. exact (returned_stays_run _ _ _ _ _ Hm Hr').
Qed.
Print Assumptions C13_one_result.

(* ... and no result is lost: in every reachable state in which executeQuery has not returned and some
   execution has finished, it can return within two steps (send + receive, receive, or ctx.Done()).
   (That every execution does finish is C13_sequential_terminates for threshold policies; fairness of
   the Go scheduler is not modelled.) *)
Theorem C13_can_return : forall p idem k sh ls s,
  run_lts p (init idem k sh) ls = Some s ->
  (forall m, g_main s <> MRet m) ->
  (exists th, In th (g_th s) /\ is_done (r_pc (t_run th)) = true) ->
  exists ls' s' m, (length ls' <= 2)%nat /\ run_lts p s ls' = Some s' /\ g_main s' = MRet m
                   /\ Forall (fun l => l <> LCancel) ls'.
Proof. exact can_return_lemma. Qed.
Print Assumptions C13_can_return.

(* Liveness, every schedule.  (1) With a threshold policy the whole system -- every execution, the ticker,
   sends, drops, the main goroutine -- takes at most a fixed number of steps other than cancellations by
   the application (which never disable anything), whatever the interleaving and the outcomes.
   (2) As long as executeQuery has not returned some such step is possible; so a schedule that cannot be
   extended has returned.  Together: every maximal schedule ends with the caller holding its one result;
   no interleaving of executions, ticker, results channel and cancellation deadlocks or runs forever.
   (Scheduler fairness is not needed for this; that an enabled step is eventually taken is Go's.) *)
Theorem C13_schedules_bounded : forall n a0 p idem k hosts cons0 ls s,
  (forall pol, p = Some pol -> threshold pol n) ->
  run_lts p (init idem k (sh0 hosts a0 cons0)) ls = Some s ->
  (steps ls <= runs_allowed idem k * (4 * length hosts + 4 * Z.to_nat (n + 1 - a0) + 3) + 1)%nat.
Proof. exact schedules_bounded_lemma. Qed.
Print Assumptions C13_schedules_bounded.

Theorem C13_returns : forall p idem k sh ls s,
  run_lts p (init idem k sh) ls = Some s ->
  ((forall m, g_main s <> MRet m) -> exists l s', l <> LCancel /\ step p s l = Some s')
  /\ ((forall l s', step p s l = Some s' -> l = LCancel) -> exists m, g_main s = MRet m).
Proof.
  intros p idem k sh ls s Hr. split.
  - exact (progress_lemma p idem k sh ls s Hr).
  - exact (returns_lemma p idem k sh ls s Hr).
Qed.
Print Assumptions C13_returns.

(* A query not marked idempotent is never executed speculatively, whatever the speculative policy:
   one execution, the results channel is never used. *)
Theorem C13_non_idempotent_not_speculated : forall p k sh ls s,
  run_lts p (init false k sh) ls = Some s ->
  (length (g_th s) <= 1)%nat /\ g_chan s = None /\ g_first s = None.
Proof. exact non_idempotent_not_speculated_lemma. Qed.
Print Assumptions C13_non_idempotent_not_speculated.

(* ... stated on what the application wrote: a batch with a non-idempotent entry at ANY position, a query
   whose Idempotent(false) override or whose cluster default says no.  IsIdempotent is computed by the
   model from these inputs (Batch.IsIdempotent = every entry; Session.Query default, Query.Idempotent
   override), and the correspondence cases carry the inputs, not the implementation's answer. *)
Theorem C13_marked_not_speculated : forall p src k sh ls s,
  match src with
  | IBatch es => In false es
  | IQuery d ov => ov = Some false \/ (ov = None /\ d = false)
  end ->
  run_lts p (init (is_idempotent src) k sh) ls = Some s ->
  (length (g_th s) <= 1)%nat /\ g_chan s = None /\ g_first s = None.
Proof. exact marked_not_speculated_lemma. Qed.
Print Assumptions C13_marked_not_speculated.

Theorem C13_batch_idempotent_iff_all : forall es, batch_idempotent es = true <-> Forall (fun e => e = true) es.
Proof. exact batch_idempotent_spec. Qed.
Print Assumptions C13_batch_idempotent_iff_all.

(* A query not marked idempotent is sent once -- PROVIDED the policy never answered "retry" / "retry on
   the next host".  The unconditional statement (doc.go: non-idempotent queries are not eligible for
   retrying) is false for the faithful model and for the code: Refuted.C13_non_idempotent_not_retried_refuted,
   known finding non-idempotent-retried (F-C13-1).  The hypothesis is the exact complement of the finding's
   trigger: by C13_budget_by_answers each further attempt needs one such answer. *)
Theorem C13_non_idempotent_not_retried : forall p k sh ls s,
  run_lts p (init false k sh) ls = Some s ->
  Forall (fun th => retry_answers (r_tr (t_run th)) = 0%nat) (g_th s) ->
  (total_exec s <= 1)%nat.
Proof. exact non_idempotent_not_retried_lemma. Qed.
Print Assumptions C13_non_idempotent_not_retried.

(* DowngradingConsistencyRetryPolicy decides as its documentation says, in every case the documentation
   decides; and its i-th retry is asked for at the i-th listed consistency level. *)
Theorem C13_downgrading_policy_table : forall e d, doc_downgrading e = Some d -> downgrading_rtype e = d.
Proof. exact downgrading_table_lemma. Qed.
Print Assumptions C13_downgrading_policy_table.

Theorem C13_downgrading_levels : forall levels d a, 0 < a <= Z.of_nat (length levels) ->
  p_attempt (downgrading_policy levels) d a = (true, Some (nth (Z.to_nat (a - 1)) levels 0)).
Proof. exact downgrading_level_lemma. Qed.
Print Assumptions C13_downgrading_levels.

(* ... so that, run sequentially on a query attempted a0 times before, the attempts are sent at the
   query's own consistency first and then at the listed levels from position a0 on, in order. *)
Theorem C13_downgrading_sequence : forall levels a0 cons0 fuel env hosts sh' r',
  do_run fuel (Some (downgrading_policy levels)) env (sh0 hosts (Z.of_nat a0) cons0) run0 = Some (sh', r') ->
  exec_cons (r_tr r') = firstn (count_exec (r_tr r')) (cons0 :: skipn a0 levels).
Proof. exact downgrading_sequence_lemma. Qed.
Print Assumptions C13_downgrading_sequence.

(* ExponentialBackoffRetryPolicy's nap (getExponentialTime, attempts >= 1), whatever the random jitter does:
   between nap_lo and nap_hi, never negative, never above max (10 s if unset), non-decreasing in the
   attempt number, and exactly max once min*2^(attempts-1) exceeds max by more than half of min.
   (The harness checks every observed nap of the real function against nap_lo/nap_hi.) *)
Theorem C13_backoff_bounds : forall mn mx a, 1 <= a ->
  0 <= nap_lo mn mx a <= nap_hi mn mx a /\ nap_hi mn mx a <= eff_max mx
  /\ nap_lo mn mx a <= nap_lo mn mx (a + 1) /\ nap_hi mn mx a <= nap_hi mn mx (a + 1)
  /\ (eff_max mx + (eff_min mn + 1) / 2 <= eff_min mn * 2 ^ (a - 1) -> nap_lo mn mx a = eff_max mx /\ nap_hi mn mx a = eff_max mx).
Proof. exact backoff_bounds_lemma. Qed.
Print Assumptions C13_backoff_bounds.

(* ---- non-vacuity and tightness (tests by computation, not theorems) ------------------------------ *)
Definition ex_hosts : list host :=
  [mkHost 1 true true true true; mkHost 2 true false true true; mkHost 3 true true true true; mkHost 4 true true true true].
Definition ex_fail (i : Z) : outcome := Some (EOther 0, i).

(* the speculative budget is reached exactly: k = 1, SimpleRetryPolicy{1}: 2 + 1 = 3 attempts *)
Example budget_is_tight :
  exists s, run_lts (Some (simple_policy 1)) (init true 1 (sh0 ex_hosts 0 4))
              [LRun 0 None true; LTick; LRun 1 None true; LRun 1 None true; LRun 0 (ex_fail 1) true; LRun 0 None true;
               LRun 0 None true; LRun 1 (ex_fail 2) true; LRun 1 None true] = Some s
            /\ total_exec s = (runs_allowed true 1 + allowance 1 0)%nat
            /\ map (fun th => exec_hosts (r_tr (t_run th))) (g_th s) = [[1; 4]; [3]].
Proof. eexists. split; [vm_compute; reflexivity|]. vm_compute. auto. Qed.

(* an honest schedule with a cancellation: the attempt in flight fails, the policy retries, the retry
   is started after cancellation, returns the context's error and the execution stops *)
Example honest_schedule :
  let ls := [LRun 0 None true; LCancel; LRun 0 (ex_fail 1) true; LRun 0 None true; LRun 0 None true; LRun 0 None true;
             LRun 0 (Some (ECanceled, 0)) true; LSeqRet] in
  honest_run (Some (simple_policy 3)) (init false 0 (sh0 ex_hosts 0 4)) ls
  /\ exists s, run_lts (Some (simple_policy 3)) (init false 0 (sh0 ex_hosts 0 4)) ls = Some s
               /\ map (fun th => r_post (t_run th)) (g_th s) = [1%nat]
               /\ g_main s = MRet (MIter (RIter 3 (Some (ECanceled, 0)))).
Proof.
  split.
  - vm_compute. repeat split; intros; discriminate.
  - eexists. split; [vm_compute; reflexivity|]. vm_compute. auto.
Qed.

(* a state that cannot be extended (C13_returns, second part) exists and has returned *)
Example stuck_state_has_returned :
  exists s, run_lts (Some (simple_policy 2)) (init false 3 (sh0 ex_hosts 0 4))
              [LRun 0 None true; LRun 0 None true; LSeqRet] = Some s
            /\ g_main s = MRet (MIter (RIter 1 None))
            /\ forall t o st, step (Some (simple_policy 2)) s (LRun t o st) = None.
Proof.
  eexists. split; [vm_compute; reflexivity|]. split; [reflexivity|].
  intros [|[|t]] o st; reflexivity.
Qed.

(* the hypothesis of C13_non_idempotent_not_retried holds on runs that do send the query *)
Example no_retry_answer_satisfiable :
  exists s, run_lts (Some (simple_policy 2)) (init false 3 (sh0 ex_hosts 0 4))
              [LRun 0 None true; LRun 0 None true; LSeqRet] = Some s
            /\ total_exec s = 1%nat
            /\ Forall (fun th => retry_answers (r_tr (t_run th)) = 0%nat) (g_th s).
Proof. eexists. split; [vm_compute; reflexivity|]. split; [reflexivity|]. repeat constructor. Qed.

(* a log with a retry on the same host and one on the next host is accepted by the contract:
   downgrading policy, read timeout (Retry), then a connection error (RetryNextHost), then success *)
Example contract_accepts_both_retries :
  exists sh r, do_run 50 (Some (downgrading_policy [K.Quorum; K.One]))
                 (fun n => nth n [(Some (EReadTimeout, 1), true); (ex_fail 2, true)] (None, true))
                 (sh0 ex_hosts 0 K.All) run0 = Some (sh, r)
               /\ exec_hosts (r_tr r) = [1; 1; 3]
               /\ flat_map (fun e => match e with EvExec _ c => [c] | _ => [] end) (r_tr r) = [K.All; K.Quorum; K.One]
               /\ contract_complete true (r_tr r) /\ r_pc r = PDone (RIter 3 None).
Proof. eexists. eexists. split; [vm_compute; reflexivity|]. vm_compute. auto. Qed.
