(* C13/Corr.v -- correspondence cases.  Each carries the script the harness drove the real
   queryExecutor with (through /repo/verif_shim_c13.go) and what the implementation did: the event
   log (host iterator calls, execute calls with the consistency in force, attempt outcomes, Mark
   calls, policy consultations with the attempt count they saw and their answers), how the query or
   batch was marked idempotent (per-entry flags / cluster default and override: the model computes
   IsIdempotent from them), the Iter that
   came back, and the query's attempt counter and consistency afterwards.  [check] runs the model
   on the same script and compares everything. *)
From GocqlV Require Import Lib.Base Gen.Consts C13.Model.

(* the retry policy the harness installed *)
Inductive pol_desc :=
| PdNone
| PdSimple (n : Z)
| PdExpo (n : Z)
| PdDown (levels : list Z)
| PdCustom (answers : list (bool * option Z)) (types : list Z)
(* the statement's retry-policy option as the caller set it, on a statement made by a Session whose
   ClusterConfig.RetryPolicy is dflt: None = left alone, Some x = RetryPolicy(x) was called (PdNone = nil) *)
| PdOpt (dflt : pol_desc) (opt : option pol_desc).

Definition err_code (e : err) : Z :=
  match e with
  | ECanceled => 0 | EDeadline => 1 | ENotFound => 2 | EUnavailable _ => 3 | EWriteTimeout _ _ => 4
  | EReadTimeout => 5 | EOther c => 6 + c
  end.

(* the harness's scripted policy: the d-th consultation answers answers[d] (false when the table is
   exhausted) and classifies error e as types[(d + err_code e) mod len] *)
Definition custom_policy (answers : list (bool * option Z)) (types : list Z) : policy :=
  mkPolicy (fun d _ => nth d answers (false, None))
           (fun d e => match types with
                       | [] => K.Rethrow
                       | _ => nth (Z.to_nat ((Z.of_nat d + err_code e) mod Z.of_nat (length types))) types 0
                       end).

(* session.go: Session.Query / Session.Bind / Session.NewBatch copy cfg.RetryPolicy into the statement's rt
   (defaultsFromSession), Query.RetryPolicy / Batch.RetryPolicy overwrite it (nil included), and
   retryPolicy() returns rt: the effective policy is the option if set, else the session default *)
Definition effective_desc (dflt : pol_desc) (opt : option pol_desc) : pol_desc :=
  match opt with Some x => x | None => dflt end.

Fixpoint policy_of (pd : pol_desc) : option policy :=
  match pd with
  | PdOpt d o => policy_of (match o with Some x => x | None => d end)
  | PdNone => None
  | PdSimple n => Some (simple_policy n)
  | PdExpo n => Some (expo_policy n)
  | PdDown l => Some (downgrading_policy l)
  | PdCustom a t => Some (custom_policy a t)
  end.

(* ---- boolean equalities -------------------------------------------------------------------- *)
Definition err_eqb (a b : err) : bool :=
  match a, b with
  | ECanceled, ECanceled | EDeadline, EDeadline | ENotFound, ENotFound | EReadTimeout, EReadTimeout => true
  | EUnavailable x, EUnavailable y => x =? y
  | EWriteTimeout w r, EWriteTimeout w' r' => (w =? w') && (r =? r')
  | EOther c, EOther c' => c =? c'
  | _, _ => false
  end.
Definition failure_eqb (a b : failure) : bool := err_eqb (fst a) (fst b) && (snd a =? snd b).
Definition outcome_eqb : outcome -> outcome -> bool := opt_eqb failure_eqb.

Definition event_eqb (a b : event) : bool :=
  match a, b with
  | EvPick x, EvPick y => opt_eqb (fun p q => (fst p =? fst q) && Bool.eqb (snd p) (snd q)) x y
  | EvExec h c, EvExec h' c' => (h =? h') && (c =? c')
  | EvDone h o s, EvDone h' o' s' => (h =? h') && outcome_eqb o o' && Bool.eqb s s'
  | EvMark h e, EvMark h' e' => (h =? h') && opt_eqb Z.eqb e e'
  | EvAsk a x, EvAsk a' x' => (a =? a') && Bool.eqb x x'
  | EvType g t, EvType g' t' => (g =? g') && (t =? t')
  | _, _ => false
  end.

Fixpoint list_eqb {A B} (eqb : A -> B -> bool) (a : list A) (b : list B) : bool :=
  match a, b with
  | [], [] => true
  | x :: a', y :: b' => eqb x y && list_eqb eqb a' b'
  | _, _ => false
  end.

Definition result_eqb (a b : result) : bool :=
  match a, b with
  | RIter h o, RIter h' o' => (h =? h') && outcome_eqb o o'
  | RLast f, RLast f' => failure_eqb f f'
  | RNoConn, RNoConn | RUnknown, RUnknown => true
  | _, _ => false
  end.

Definition pc_result (c : pc) : option result := match c with PDone r => Some r | _ => None end.

(* ---- cases ----------------------------------------------------------------------------------- *)
Inductive case :=
(* one sequential execution: executeQuery with a non-idempotent query or without speculation
   (direct = false), or queryExecutor.do called directly (direct = true) *)
| CSeq (direct : bool) (hosts : list host) (pd : pol_desc) (src : idem_src) (spk : Z) (a0 cons0 : Z)
       (outs : list (outcome * bool)) (dflt : outcome * bool)
       (tr : list event) (res : result) (att cns : Z)
(* one speculative execution driven on a schedule the harness controlled: the label list is the
   order in which the harness let things happen; observed are every execution's event log and
   result, and what executeQuery returned *)
| CSpec (hosts : list host) (pd : pol_desc) (src : idem_src) (spk : Z) (a0 cons0 : Z)
        (ls1 : list label) (ret : mres) (ls2 : list label)     (* steps seen before / after executeQuery returned ret *)
        (runs : list (list event * option result)) (att : Z)
(* getExponentialTime(min, max, attempts) returned obs (jitter is random: bounds, with 1 ns of float slack) *)
| CNap (mn mx a obs : Z).

Definition seq_fuel : nat := 4000.

Definition mres_eqb (a b : mres) : bool :=
  match a, b with
  | MIter r, MIter r' => result_eqb r r'
  | MCtx, MCtx => true
  | _, _ => false
  end.

Definition thread_obs_eqb (th : thread) (o : list event * option result) : bool :=
  list_eqb event_eqb (r_tr (t_run th)) (fst o) && opt_eqb result_eqb (pc_result (r_pc (t_run th))) (snd o).

(* the execution whose result the main goroutine took: the first finished one holding that result *)
Fixpoint find_winner (ths : list thread) (r : result) (i : nat) : option nat :=
  match ths with
  | [] => None
  | th :: rest =>
      match t_exit th, r_pc (t_run th) with
      | None, PDone r' => if result_eqb r' r then Some i else find_winner rest r (S i)
      | _, _ => find_winner rest r (S i)
      end
  end.

(* executeQuery returns ret: a finished execution sends, the main goroutine receives; or it sees ctx.Done() *)
Definition finish_main (p : option policy) (s : sstate) (ret : mres) : option sstate :=
  match ret with
  | MCtx => step p s LMainCtx
  | MIter r =>
      match find_winner (g_th s) r 0 with
      | Some t => match step p s (LSend t) with Some s' => step p s' LMainRecv | None => None end
      | None => None
      end
  end.

Definition check (c : case) : bool :=
  match c with
  | CSeq direct hosts pd src spk a0 cons0 outs dflt tr res att cns =>
      (direct || match exec_mode (is_idempotent src) spk with MSequential => true | _ => false end)
      && match do_run seq_fuel (policy_of pd) (fun n => nth n outs dflt) (sh0 hosts a0 cons0) run0 with
         | Some (sh, r) =>
             list_eqb event_eqb (r_tr r) tr && opt_eqb result_eqb (pc_result (r_pc r)) (Some res)
             && (s_att sh =? att) && (s_cons sh =? cns)
         | None => false
         end
  | CSpec hosts pd src spk a0 cons0 ls1 ret ls2 runs att =>
      match exec_mode (is_idempotent src) spk with
      | MSpeculative _ =>
          match run_lts (policy_of pd) (init (is_idempotent src) spk (sh0 hosts a0 cons0)) ls1 with
          | Some s1 =>
              match finish_main (policy_of pd) s1 ret with
              | Some s2 =>
                  match run_lts (policy_of pd) s2 ls2 with
                  | Some s =>
                      list_eqb (fun th o => thread_obs_eqb th o) (g_th s) runs
                      && match g_main s with MRet m => mres_eqb m ret | _ => false end
                      && (s_att (g_sh s) =? att)
                  | None => false
                  end
              | None => false
              end
          | None => false
          end
      | MSequential => false
      end
  | CNap mn mx a obs => (1 <=? a) && (nap_lo mn mx a - 1 <=? obs) && (obs <=? nap_hi mn mx a + 1)
  end.

Definition run (cs : list case) : list N := mismatches check cs.
