(* C12/Proofs4.v -- collections, tuples and user-defined types: Marshal = specification o denotation
   for every CQL type tree, by induction over the tree. *)
From GocqlV Require Import Lib.Base Lib.Bits Gen.Consts C12.Model C12.Spec C12.Proofs1 C12.Proofs2 C12.Denote C12.Proofs3.

Local Open Scope Z_scope.
Set Default Timeout 120.

(* ---- induction over type trees ------------------------------------------------------------------------------ *)
Lemma cqlty_ind' (P : cqlty -> Prop) :
  (forall id, P (TNative id)) ->
  (forall e, P e -> P (TList e)) -> (forall e, P e -> P (TSet e)) ->
  (forall k v, P k -> P v -> P (TMap k v)) ->
  (forall es, Forall P es -> P (TTuple es)) ->
  (forall fs, Forall (fun nf => P (snd nf)) fs -> P (TUdt fs)) ->
  forall t, P t.
Proof.
  intros Hn Hl Hs Hm Ht Hu. fix IH 1. intros [id|e|e|k v|es|fs].
  - apply Hn.
  - apply Hl, IH.
  - apply Hs, IH.
  - apply Hm; apply IH.
  - apply Ht. induction es as [|e es IHes]; constructor; [apply IH | exact IHes].
  - apply Hu. induction fs as [|[n e] fs IHfs]; constructor; [apply IH | exact IHfs].
Qed.

(* ---- the values covered: well-formed leaves, outside the known findings' regions ------------------------------ *)
(* a tuple / UDT component is framed with a 32-bit length: encodings of 2 GiB or more wrap *)
Definition short_enough (r : mres) : Prop := forall b, r = Ok (Some b) -> blen b < 2 ^ 31.

(* the two shapes marshalTuple writes as null (length -1) without calling Marshal *)
Definition minus_one (iface : bool) (x : gval) : Prop := if iface then x = GNil else x = GPtr None.

Section Nested.
Variable pv : Z.

Fixpoint good (ty : cqlty) (g : gval) {struct ty} : Prop :=
  match peel g with
  | None => True
  | Some v =>
      match ty with
      | TNative id => wf_native v /\ clean_native id v
      | TList e | TSet e => match as_list v with LItems l => Forall (good e) l | _ => True end
      | TMap k e =>
          match v with
          | GMap (Some l) => Forall (fun kv => good k (fst kv) /\ good e (snd kv)) l
          | _ => True
          end
      | TTuple es =>
          let tg :=
            fix go (es : list cqlty) (l : list gval) {struct es} : Prop :=
              match es, l with
              | e :: es', x :: l' =>
                  (good e x /\ short_enough (marshal pv e x)) /\ go es' l'
              | _, _ => True
              end in
          match v with
          | GIfaces l => tg es l
          | GStruct fs => tg es (map snd fs)
          | GSlice (Some l) => tg es l
          | GArray l => tg es l
          | _ => True
          end
      | TUdt fs =>
          (fix go (fs : list (bytes * cqlty)) {struct fs} : Prop :=
             match fs with
             | [] => True
             | (name, e) :: fs' =>
                 match udt_field v name with
                 | Some (Some x) => good e x /\ short_enough (marshal pv e x)
                 | _ => True
                 end /\ go fs'
             end) fs
      end
  end.

(* ---- framing ------------------------------------------------------------------------------------------------------ *)
Lemma v3_test : (K.protoVersion2 <? pv) = (3 <=? pv).
Proof. change K.protoVersion2 with 2. destruct (Z.ltb_spec 2 pv); destruct (Z.leb_spec 3 pv); lia. Qed.

Lemma write_size_count (n : nat) h : write_size pv (Z.of_nat n) = Ok h -> coll_count pv n = Some h.
Proof.
  unfold write_size, coll_count. rewrite v3_test. unfold MaxInt32, MaxUint16. destruct (3 <=? pv).
  - destruct (Z.ltb_spec 2147483647 (Z.of_nat n)); [discriminate|]. cbn [rbind]. intros Hq. injection Hq as <-.
    replace (fits_signed 4 (Z.of_nat n)) with true by (symmetry; apply fits_signed_iff; cbn; lia). rewrite <- enc_int_spec. reflexivity.
  - destruct (Z.ltb_spec 65535 (Z.of_nat n)); [discriminate|]. cbn [rbind]. intros Hq. injection Hq as <-.
    unfold fits_unsigned. cbn [Z.of_nat Pos.of_succ_nat Pos.succ Z.mul Pos.mul]. change (2 ^ 16) with 65536.
    destruct (Z.leb_spec 0 (Z.of_nat n)); destruct (Z.ltb_spec (Z.of_nat n) 65536); try lia. rewrite <- enc_short_spec. reflexivity.
Qed.

(* the element framing of lists, sets and maps *)
Lemma item_framed (item : option bytes) a :
  rbind (write_size pv (match item with None => if K.protoVersion2 <? pv then -1 else 0 | Some b => blen b end))
        (fun sz => Ok (sz ++ bytes_of item)) = Ok a ->
  coll_bytes pv item = Some a.
Proof.
  unfold write_size, coll_bytes, int_bytes. rewrite v3_test. unfold MaxInt32, MaxUint16, blen. destruct (3 <=? pv); destruct item as [b|]; cbn [bytes_of rbind].
  - destruct (Z.ltb_spec 2147483647 (Z.of_nat (length b))); [discriminate|]. cbn [rbind]. intros Hq. injection Hq as <-.
    replace (fits_signed 4 (Z.of_nat (length b))) with true by (symmetry; apply fits_signed_iff; cbn; lia). rewrite <- enc_int_spec. reflexivity.
  - cbn. intros Hq. injection Hq as <-. reflexivity.
  - destruct (Z.ltb_spec 65535 (Z.of_nat (length b))); [discriminate|]. cbn [rbind]. intros Hq. injection Hq as <-.
    unfold fits_unsigned. cbn [Z.of_nat Pos.of_succ_nat Pos.succ Z.mul Pos.mul]. change (2 ^ 16) with 65536.
    destruct (Z.leb_spec 0 (Z.of_nat (length b))); destruct (Z.ltb_spec (Z.of_nat (length b)) 65536); try lia. rewrite <- enc_short_spec. reflexivity.
  - cbn. intros Hq. injection Hq as <-. reflexivity.
Qed.

(* the per-element statement carried by the induction *)
Definition elem_ok (e : cqlty) (x : gval) : Prop :=
  forall ob ox, marshal pv e x = Ok ob -> denote e x = Some ox -> encode_opt pv e ox = Some ob.

Lemma framed_opt frame e ox ob : encode_opt pv e ox = Some ob -> framed frame (encode_value pv e) ox = frame ob.
Proof.
  unfold framed, enc_opt, encode_opt. destruct ox as [v|].
  - destruct (encode_value pv e v) as [b|]; cbn; [intros H; injection H as <-; reflexivity | discriminate].
  - intros H. injection H as <-. reflexivity.
Qed.

Lemma marshal_item_spec e x a ox : elem_ok e x -> marshal_item pv (marshal pv e) x = Ok a -> denote e x = Some ox ->
  framed (coll_bytes pv) (encode_value pv e) ox = Some a.
Proof.
  intros Hok Hm Hd. unfold marshal_item in Hm. destruct (marshal pv e x) as [item| | |] eqn:E; try discriminate. cbn [rbind] in Hm.
  rewrite (framed_opt _ e ox item (Hok _ _ E Hd)). apply item_framed. exact Hm.
Qed.

Lemma all_some_cons {A} (o : option A) l xs : all_some (o :: l) = Some xs ->
  exists x xs', o = Some x /\ all_some l = Some xs' /\ xs = x :: xs'.
Proof.
  cbn. destruct o as [x|]; [|discriminate]. destruct (all_some l) as [xs'|]; [|discriminate].
  cbn. intros H. injection H as <-. eauto.
Qed.

Lemma marshal_items_spec e l : Forall (elem_ok e) l -> forall bs xs,
  marshal_items pv (marshal pv e) l = Ok bs -> all_some (map (denote e) l) = Some xs ->
  concat_opt (map (framed (coll_bytes pv) (encode_value pv e)) xs) = Some bs.
Proof.
  induction 1 as [|x l Hx Hl IH]; intros bs xs Hm Hd.
  - cbn in Hm, Hd. injection Hm as <-. injection Hd as <-. reflexivity.
  - cbn [marshal_items map] in Hm, Hd. apply all_some_cons in Hd. destruct Hd as [ox [xs' [Hox [Hxs ->]]]].
    destruct (marshal_item pv (marshal pv e) x) as [a| | |] eqn:Ea; try discriminate. cbn [rbind] in Hm.
    destruct (marshal_items pv (marshal pv e) l) as [b| | |] eqn:Eb; try discriminate. cbn [rbind] in Hm. injection Hm as <-.
    cbn [map concat_opt]. rewrite (marshal_item_spec e x a ox Hx Ea Hox). rewrite (IH b xs' eq_refl Hxs). reflexivity.
Qed.

Lemma marshal_entries_spec k e l :
  Forall (fun kv => elem_ok k (fst kv) /\ elem_ok e (snd kv)) l -> forall bs xs,
  marshal_entries pv (marshal pv k) (marshal pv e) l = Ok bs ->
  all_some (map (fun kv => match denote k (fst kv), denote e (snd kv) with
                           | Some a, Some b => Some (a, b) | _, _ => None end) l) = Some xs ->
  concat_opt (map (fun kv => match framed (coll_bytes pv) (encode_value pv k) (fst kv),
                                   framed (coll_bytes pv) (encode_value pv e) (snd kv) with
                             | Some a, Some b => Some (a ++ b) | _, _ => None end) xs) = Some bs.
Proof.
  induction 1 as [|[kx vx] l [Hk Hv] Hl IH]; intros bs xs Hm Hd.
  - cbn in Hm, Hd. injection Hm as <-. injection Hd as <-. reflexivity.
  - cbn [marshal_entries map fst snd] in Hm, Hd. apply all_some_cons in Hd. destruct Hd as [[ok ov] [xs' [Hox [Hxs ->]]]].
    cbn [fst snd] in *.
    destruct (denote k kx) as [ok'|] eqn:Edk; [|discriminate]. destruct (denote e vx) as [ov'|] eqn:Edv; [|discriminate].
    injection Hox as <- <-.
    destruct (marshal_item pv (marshal pv k) kx) as [a| | |] eqn:Ea; try discriminate. cbn [rbind] in Hm.
    destruct (marshal_item pv (marshal pv e) vx) as [b| | |] eqn:Eb; try discriminate. cbn [rbind] in Hm.
    destruct (marshal_entries pv (marshal pv k) (marshal pv e) l) as [c| | |] eqn:Ec; try discriminate. cbn [rbind] in Hm. injection Hm as <-.
    cbn [map concat_opt fst snd]. rewrite (marshal_item_spec k kx a ok' Hk Ea Edk), (marshal_item_spec e vx b ov' Hv Eb Edv).
    rewrite (IH c xs' eq_refl Hxs). rewrite app_assoc. reflexivity.
Qed.

End Nested.

(* ---- named forms of the local fixpoints ---------------------------------------------------------------------------- *)
Fixpoint denote_tuple (es : list cqlty) (l : list gval) : list dres :=
  match es, l with
  | e :: es', x :: l' => denote e x :: denote_tuple es' l'
  | _, _ => []
  end.
Section NamedV.
Variable v : gval.
Fixpoint denote_udt (fs : list (bytes * cqlty)) : list dres :=
  match fs with
  | [] => []
  | (name, e) :: fs' =>
      (match udt_field v name with
       | None => None
       | Some None => Some None
       | Some (Some x) => denote e x
       end) :: denote_udt fs'
  end.
End NamedV.
Section NamedPv.
Variable pv : Z.
Fixpoint spec_tuple (es : list cqlty) (l : list (option cqlval)) : list (option bytes) :=
  match es, l with
  | e :: es', x :: l' => framed int_bytes (encode_value pv e) x :: spec_tuple es' l'
  | _, _ => []
  end.
Fixpoint spec_udt (fs : list (bytes * cqlty)) (l : list (option cqlval)) : list (option bytes) :=
  match fs, l with
  | (_, e) :: fs', x :: l' => framed int_bytes (encode_value pv e) x :: spec_udt fs' l'
  | _, _ => []
  end.
End NamedPv.
Fixpoint tuple_ok (pv : Z) (iface : bool) (es : list cqlty) (l : list gval) : Prop :=
  match es, l with
  | e :: es', x :: l' =>
      (elem_ok pv e x /\ short_enough (marshal pv e x)) /\ tuple_ok pv iface es' l'
  | _, _ => True
  end.
Fixpoint udt_ok (pv : Z) (v : gval) (fs : list (bytes * cqlty)) : Prop :=
  match fs with
  | [] => True
  | (name, e) :: fs' =>
      match udt_field v name with
      | Some (Some x) => elem_ok pv e x /\ short_enough (marshal pv e x)
      | _ => True
      end /\ udt_ok pv v fs'
  end.

Lemma int_bytes_append (d : option bytes) : (forall b, d = Some b -> blen b < 2 ^ 31) -> int_bytes d = Some (append_bytes d).
Proof.
  intros Hs. unfold int_bytes, append_bytes. destruct d as [b|].
  - specialize (Hs b eq_refl). unfold blen in *.
    replace (fits_signed 4 (Z.of_nat (length b))) with true by (symmetry; apply fits_signed_iff; cbn; pow_consts; lia).
    rewrite <- enc_int_spec. reflexivity.
  - rewrite <- enc_int_spec. reflexivity.
Qed.

Lemma null_test (iface : bool) (x : gval) :
  (if iface then match x with GNil => true | _ => false end else match x with GPtr None => true | _ => false end) = true
  <-> minus_one iface x.
Proof.
  unfold minus_one. destruct iface.
  - destruct x; split; intros H; try discriminate; reflexivity.
  - destruct x; try (split; intros H; discriminate). destruct p; split; intros H; try discriminate; reflexivity.
Qed.

Lemma minus_one_null e iface x : minus_one iface x -> denote e x = Some None.
Proof.
  unfold minus_one. destruct iface; intros ->; destruct e; reflexivity.
Qed.

Lemma tuple_items_spec pv iface : forall es l bs xs, tuple_ok pv iface es l ->
  tuple_items iface (map (marshal pv) es) l = Ok bs -> all_some (denote_tuple es l) = Some xs ->
  concat_opt (spec_tuple pv es xs) = Some bs.
Proof.
  induction es as [|e es IH]; intros l bs xs Hok Hm Hd.
  - cbn in Hm, Hd. injection Hm as <-. injection Hd as <-. reflexivity.
  - destruct l as [|x l].
    + cbn in Hm, Hd. injection Hm as <-. injection Hd as <-. reflexivity.
    + cbn [tuple_ok] in Hok. destruct Hok as [[Hel Hshort] Hrest].
      cbn [map tuple_items denote_tuple] in Hm, Hd. apply all_some_cons in Hd. destruct Hd as [ox [xs' [Hox [Hxs ->]]]].
      destruct (tuple_elem iface (marshal pv e) x) as [a| | |] eqn:Ea; try discriminate. cbn [rbind] in Hm.
      destruct (tuple_items iface (map (marshal pv) es) l) as [b| | |] eqn:Eb; try discriminate. cbn [rbind] in Hm. injection Hm as <-.
      cbn [spec_tuple concat_opt]. rewrite (IH l b xs' Hrest Eb Hxs).
      assert (Ha : framed int_bytes (encode_value pv e) ox = Some a); [|rewrite Ha; reflexivity].
      unfold tuple_elem in Ea.
      destruct (if iface then match x with GNil => true | _ => false end else match x with GPtr None => true | _ => false end) eqn:Et.
      * apply null_test in Et. rewrite (minus_one_null e iface x Et) in Hox. injection Hox as <-. injection Ea as <-.
        unfold framed, enc_opt, int_bytes. rewrite <- enc_int_spec. reflexivity.
      * destruct (marshal pv e x) as [data| | |] eqn:Em; try discriminate. cbn [rbind] in Ea.
        pose proof (Hel data ox Em Hox) as Henc. rewrite (framed_opt pv int_bytes e ox data Henc).
        rewrite int_bytes_append by (intros b1 E1; subst data; apply Hshort; reflexivity).
        injection Ea as <-. reflexivity.
Qed.

Lemma by_tag_tagged {A} name (fs : list (bytes * bytes * A)) : forall acc,
  by_tag name fs acc = match tagged name fs with Some v => Some v | None => acc end.
Proof.
  induction fs as [|[[n tag] v] fs IH]; intros acc; cbn [by_tag tagged]; [reflexivity|].
  rewrite IH. destruct (tagged name fs); [reflexivity|].
  destruct (negb (zlist_eqb tag []) && zlist_eqb tag name); reflexivity.
Qed.

Lemma by_name_named {A} name (fs : list (bytes * bytes * A)) : by_name name fs = named_field name fs.
Proof. induction fs as [|[[n tag] v] fs IH]; cbn; [reflexivity|]. rewrite IH. reflexivity. Qed.

Lemma assoc_assoc_name {A} name (l : list (bytes * A)) : assoc name l = assoc_name name l.
Proof. induction l as [|[n v] l IH]; cbn; [reflexivity|]. rewrite IH. reflexivity. Qed.

Lemma struct_field_udt name fields : udt_field (GStruct fields) name = Some (struct_field name fields).
Proof.
  unfold udt_field, struct_field. rewrite by_tag_tagged. destruct (tagged name fields); reflexivity.
Qed.

Lemma udt_items_spec pv v look : (forall name, udt_field v name = Some (look name)) ->
  forall fs bs xs, udt_ok pv v fs ->
  udt_items look (map (fun nf => (fst nf, marshal pv (snd nf))) fs) = Ok bs -> all_some (denote_udt v fs) = Some xs ->
  concat_opt (spec_udt pv fs xs) = Some bs /\ length xs = length fs.
Proof.
  intros Hlook. induction fs as [|[name e] fs IH]; intros bs xs Hok Hm Hd.
  - cbn in Hm, Hd. injection Hm as <-. injection Hd as <-. split; reflexivity.
  - cbn [udt_ok] in Hok. destruct Hok as [Hf Hrest]. cbn [map udt_items denote_udt fst snd] in Hm, Hd.
    apply all_some_cons in Hd. destruct Hd as [ox [xs' [Hox [Hxs ->]]]]. rewrite Hlook in Hox, Hf.
    match type of Hm with rbind ?r _ = _ => destruct r as [data| | |] eqn:Ed; try discriminate end. cbn [rbind] in Hm.
    match type of Hm with rbind ?r _ = _ => destruct r as [b| | |] eqn:Eb; try discriminate end. cbn [rbind] in Hm. injection Hm as <-.
    destruct (IH b xs' Hrest eq_refl Hxs) as [IH1 IH2]. cbn [spec_udt concat_opt length]. rewrite IH1, IH2. split; [|reflexivity].
    assert (Ha : framed int_bytes (encode_value pv e) ox = Some (append_bytes data)); [|rewrite Ha; reflexivity].
    destruct (look name) as [x|].
    + destruct Hf as [Hel Hshort]. pose proof (Hel data ox Ed Hox) as Henc. rewrite (framed_opt pv int_bytes e ox data Henc).
      apply int_bytes_append. intros b1 ->. apply Hshort. exact Ed.
    + injection Hox as <-. injection Ed as <-. unfold framed, enc_opt, int_bytes, append_bytes. rewrite <- enc_int_spec. reflexivity.
Qed.

(* ---- named forms of the local fixpoints of [good] ---------------------------------------------------------------- *)
Section NamedGood.
Variable pv : Z.
Fixpoint good_tuple (es : list cqlty) (l : list gval) : Prop :=
  match es, l with
  | e :: es', x :: l' =>
      (good pv e x /\ short_enough (marshal pv e x)) /\ good_tuple es' l'
  | _, _ => True
  end.
Section U.
Variable v : gval.
Fixpoint good_udt (fs : list (bytes * cqlty)) : Prop :=
  match fs with
  | [] => True
  | (name, e) :: fs' =>
      match udt_field v name with
      | Some (Some x) => good pv e x /\ short_enough (marshal pv e x)
      | _ => True
      end /\ good_udt fs'
  end.
End U.
End NamedGood.

Definition holds_for (pv : Z) (e : cqlty) : Prop := forall x, good pv e x -> elem_ok pv e x.

Lemma good_tuple_ok pv iface es : Forall (holds_for pv) es -> forall l, good_tuple pv es l -> tuple_ok pv iface es l.
Proof.
  induction 1 as [|e es He Hes IH]; intros l Hg; [exact I|]. destruct l as [|x l]; [exact I|].
  cbn [good_tuple tuple_ok] in *. destruct Hg as [[H1 H2] H4]. repeat split; auto.
Qed.

Lemma good_udt_ok pv v fs : Forall (fun nf => holds_for pv (snd nf)) fs -> good_udt pv v fs -> udt_ok pv v fs.
Proof.
  induction 1 as [|[name e] fs He Hes IH]; intros Hg; [exact I|].
  cbn [good_udt udt_ok snd] in *. destruct Hg as [H1 H2]. split; [|auto].
  destruct (udt_field v name) as [[x|]|]; auto. destruct H1. split; auto.
Qed.

Lemma all_some_length {A} (l : list (option A)) xs : all_some l = Some xs -> length xs = length l.
Proof.
  revert xs. induction l as [|o l IH]; intros xs H.
  - injection H as <-. reflexivity.
  - apply all_some_cons in H. destruct H as [x [xs' [-> [H ->]]]]. cbn. f_equal. auto.
Qed.

Lemma denote_tuple_length es l : length l = length es -> length (denote_tuple es l) = length es.
Proof. revert l. induction es as [|e es IH]; intros [|x l] H; cbn in *; try lia. f_equal. apply IH. lia. Qed.

(* lists and sets *)
Lemma list_case pv e l ob ox : Forall (elem_ok pv e) l ->
  rbind (write_size pv (Z.of_nat (length l))) (fun h => rbind (marshal_items pv (marshal pv e) l) (fun r => Ok (Some (h ++ r)))) = Ok ob ->
  option_map (fun xs => Some (VList xs)) (all_some (map (denote e) l)) = Some ox ->
  exists xs h r, ox = Some (VList xs) /\ ob = Some (h ++ r) /\ coll_count pv (length xs) = Some h
                 /\ concat_opt (map (framed (coll_bytes pv) (encode_value pv e)) xs) = Some r.
Proof.
  intros Hall Hm Hd.
  destruct (write_size pv (Z.of_nat (length l))) as [h| | |] eqn:Eh; try discriminate. cbn [rbind] in Hm.
  destruct (marshal_items pv (marshal pv e) l) as [r| | |] eqn:Er; try discriminate. cbn [rbind] in Hm. injection Hm as <-.
  destruct (all_some (map (denote e) l)) as [xs|] eqn:Ex; [|discriminate]. cbn [option_map] in Hd. injection Hd as <-.
  exists xs, h, r. repeat split.
  - rewrite (all_some_length _ _ Ex), map_length. apply write_size_count. exact Eh.
  - eapply marshal_items_spec; eauto.
Qed.

Lemma map_case pv k e l ob ox : Forall (fun kv => elem_ok pv k (fst kv) /\ elem_ok pv e (snd kv)) l ->
  rbind (write_size pv (Z.of_nat (length l))) (fun h => rbind (marshal_entries pv (marshal pv k) (marshal pv e) l) (fun r => Ok (Some (h ++ r)))) = Ok ob ->
  option_map (fun xs => Some (VMap xs))
    (all_some (map (fun kv => match denote k (fst kv), denote e (snd kv) with Some a, Some b => Some (a, b) | _, _ => None end) l)) = Some ox ->
  encode_opt pv (TMap k e) ox = Some ob.
Proof.
  intros Hall Hm Hd.
  destruct (write_size pv (Z.of_nat (length l))) as [h| | |] eqn:Eh; try discriminate. cbn [rbind] in Hm.
  destruct (marshal_entries pv (marshal pv k) (marshal pv e) l) as [r| | |] eqn:Er; try discriminate. cbn [rbind] in Hm. injection Hm as <-.
  match type of Hd with option_map _ (all_some ?m) = _ => destruct (all_some m) as [xs|] eqn:Ex; [|discriminate] end.
  cbn [option_map] in Hd. injection Hd as <-.
  unfold encode_opt. cbn [encode_value].
  rewrite (all_some_length _ _ Ex), map_length. rewrite (write_size_count pv _ _ Eh).
  rewrite (marshal_entries_spec pv k e l Hall r xs Er Ex). reflexivity.
Qed.

Theorem marshal_is_spec pv : forall ty g ob ox,
  good pv ty g -> marshal pv ty g = Ok ob -> denote ty g = Some ox -> encode_opt pv ty ox = Some ob.
Proof.
  assert (Hnone : forall ty (ob : option bytes) (ox : option cqlval), Ok None = Ok ob -> Some None = Some ox -> encode_opt pv ty ox = Some ob).
  { intros ty ob ox H1 H2. injection H1 as <-. injection H2 as <-. reflexivity. }
  induction ty as [id|e IHe|e IHe|k e IHk IHe|es IHes|fs IHfs] using cqlty_ind'; intros g ob ox Hg Hm Hd.
  - (* native *)
    cbn [marshal denote good] in *. destruct (peel g) as [v|]; [|eauto].
    assert (Hd' : denote_native id v = Some ox) by (destruct v; exact Hd). clear Hd.
    destruct Hg as [Hwf Hcl]. pose proof (marshal_native_spec id v ob ox Hwf Hcl Hm Hd') as H.
    destruct ox; exact H.
  - (* list *)
    cbn [marshal denote good] in *. destruct (peel g) as [v|]; [|eauto].
    assert (Hall : forall l, Forall (good pv e) l -> Forall (elem_ok pv e) l).
    { intros l Hl. eapply Forall_impl; [|exact Hl]. intros x Hx ob' ox'. apply IHe. exact Hx. }
    destruct v as [| | | | named [b|] | | | | | | | | | | | |[l|]|l|l| |l| | | ]; cbn [marshal_list as_list seq_items] in *; try discriminate; eauto.
    all: destruct (list_case pv e l ob ox (Hall l Hg) Hm Hd) as [xs [h [r [-> [-> [Hc Hr]]]]]];
      unfold encode_opt; cbn [encode_value]; rewrite Hc, Hr; reflexivity.
  - (* set *)
    cbn [marshal denote good] in *. destruct (peel g) as [v|]; [|eauto].
    assert (Hall : forall l, Forall (good pv e) l -> Forall (elem_ok pv e) l).
    { intros l Hl. eapply Forall_impl; [|exact Hl]. intros x Hx ob' ox'. apply IHe. exact Hx. }
    destruct v as [| | | | named [b|] | | | | | | | | | | | |[l|]|l|l| |l| | | ]; cbn [marshal_list as_list seq_items] in *; try discriminate; eauto.
    all: destruct (list_case pv e l ob ox (Hall l Hg) Hm Hd) as [xs [h [r [-> [-> [Hc Hr]]]]]];
      unfold encode_opt; cbn [encode_value]; rewrite Hc, Hr; reflexivity.
  - (* map *)
    cbn [marshal denote good] in *. destruct (peel g) as [v|]; [|eauto].
    destruct v as [| | | | | | | | | | | | | | | | | | |[l|]|[|]|[l|]| | ]; cbn [marshal_map] in *; try discriminate; eauto.
    apply (map_case pv k e l ob ox); [|exact Hm|exact Hd].
    eapply Forall_impl; [|exact Hg]. intros [kx vx] [H1 H2]. split; intros ob' ox'; [apply IHk | apply IHe]; assumption.
  - (* tuple *)
    cbn [marshal denote good] in *. destruct (peel g) as [v|]; [|eauto].
    assert (Hhold : Forall (holds_for pv) es).
    { eapply Forall_impl; [|exact IHes]. intros e He x Hx ob' ox'. apply He. exact Hx. }
    assert (Hcore : forall iface l, good_tuple pv es l ->
              (if (length l =? length (map (marshal pv) es))%nat then rmap Some (tuple_items iface (map (marshal pv) es) l) else Err) = Ok ob ->
              (if (length l =? length es)%nat then option_map (fun xs => Some (VTuple xs)) (all_some (denote_tuple es l)) else None) = Some ox ->
              encode_opt pv (TTuple es) ox = Some ob).
    { intros iface l Hgl Hm' Hd'. rewrite map_length in Hm'. destruct (length l =? length es)%nat eqn:El; [|discriminate].
      apply Nat.eqb_eq in El.
      destruct (tuple_items iface (map (marshal pv) es) l) as [bs| | |] eqn:Eb; try discriminate. cbn [rmap rbind] in Hm'. injection Hm' as <-.
      destruct (all_some (denote_tuple es l)) as [xs|] eqn:Ex; [|discriminate]. cbn [option_map] in Hd'. injection Hd' as <-.
      unfold encode_opt. cbn [encode_value].
      assert (Hlen : length xs = length es) by (rewrite (all_some_length _ _ Ex); apply denote_tuple_length; exact El).
      rewrite Hlen, Nat.eqb_refl.
      assert (Hs : concat_opt (spec_tuple pv es xs) = Some bs) by (eapply tuple_items_spec; eauto using good_tuple_ok).
      change (option_map Some (concat_opt (spec_tuple pv es xs)) = Some (Some bs)). rewrite Hs. reflexivity. }
    destruct v as [| | | | | | | | | | | | | | | |[l|]|l|l| | | |sf| ]; cbn [marshal_tuple tuple_items_of] in *; try discriminate.
    + exact (Hnone _ _ _ Hm Hd).
    + exact (Hcore false l Hg Hm Hd).
    + exact (Hcore true l Hg Hm Hd).
    + exact (Hcore false l Hg Hm Hd).
    + exact (Hcore false (map snd sf) Hg Hm Hd).
  - (* user-defined type *)
    cbn [marshal denote good] in *. destruct (peel g) as [v|]; [|eauto].
    assert (Hhold : Forall (fun nf => holds_for pv (snd nf)) fs).
    { eapply Forall_impl; [|exact IHfs]. intros [n e] He x Hx ob' ox'. apply He. exact Hx. }
    assert (Hcore : forall look, (forall name, udt_field v name = Some (look name)) ->
              rmap Some (udt_items look (map (fun nf => (fst nf, marshal pv (snd nf))) fs)) = Ok ob ->
              option_map (fun xs => Some (VUdt xs)) (all_some (denote_udt v fs)) = Some ox ->
              good_udt pv v fs -> encode_opt pv (TUdt fs) ox = Some ob).
    { intros look Hlook Hm' Hd' Hgu.
      destruct (udt_items look (map (fun nf => (fst nf, marshal pv (snd nf))) fs)) as [bs| | |] eqn:Eb; try discriminate.
      cbn [rmap rbind] in Hm'. injection Hm' as <-.
      destruct (all_some (denote_udt v fs)) as [xs|] eqn:Ex; [|discriminate]. cbn [option_map] in Hd'. injection Hd' as <-.
      destruct (udt_items_spec pv v look Hlook fs bs xs (good_udt_ok pv v fs Hhold Hgu) Eb Ex) as [Hs Hl].
      unfold encode_opt. cbn [encode_value]. rewrite Hl, Nat.leb_refl.
      change (option_map Some (concat_opt (spec_udt pv fs xs)) = Some (Some bs)). rewrite Hs. reflexivity. }
    destruct v as [| | | | | | | | | | | | | | | | | | | | |[m|]|sf| ]; cbn [marshal_udt] in *; try discriminate.
    + apply (Hcore (fun name => assoc name m)); [intros name; cbn [udt_field]; f_equal; symmetry; apply assoc_assoc_name | exact Hm | exact Hd | exact Hg].
    + apply (Hcore (fun name => assoc name [])); [intros name; reflexivity | exact Hm | exact Hd | exact Hg].
    + apply (Hcore (fun name => struct_field name sf)); [intros name; apply struct_field_udt | exact Hm | exact Hd | exact Hg].
Qed.
