(* C12/Proofs1.v -- big-endian fixed-width and minimal two's-complement encodings: the model's
   primitive encoders are the specification's, for all integers. *)
From GocqlV Require Import Lib.Base Lib.Bits Gen.Consts C12.Model C12.Spec.

Local Open Scope Z_scope.
Set Default Timeout 30.

(* ---- be_fixed ------------------------------------------------------------------------------- *)
Lemma be_fixed_S w z : be_fixed (S w) z = ((z / 256 ^ Z.of_nat w) mod 256) :: be_fixed w z.
Proof. unfold be_fixed. rewrite seq_S, rev_app_distr. reflexivity. Qed.

Lemma be_fixed_0 z : be_fixed 0 z = [].
Proof. reflexivity. Qed.

Lemma be_fixed_length w z : length (be_fixed w z) = w.
Proof. unfold be_fixed. rewrite map_length, rev_length, seq_length. reflexivity. Qed.

Lemma be_fixed_wf w z : wf_bytes (be_fixed w z).
Proof.
  unfold be_fixed, wf_bytes. apply Forall_forall. intros x Hx. apply in_map_iff in Hx.
  destruct Hx as [i [<- _]]. unfold is_byte. apply Z.mod_pos_bound. lia.
Qed.

Lemma pow256_pos n : 0 < 256 ^ Z.of_nat n.
Proof. apply Z.pow_pos_nonneg; lia. Qed.

Lemma pow256_S n : 256 ^ Z.of_nat (S n) = 256 * 256 ^ Z.of_nat n.
Proof. rewrite Nat2Z.inj_succ, Z.pow_succ_r by lia. reflexivity. Qed.

Lemma pow256_2 n : 256 ^ Z.of_nat n = 2 ^ (8 * Z.of_nat n).
Proof. rewrite Z.pow_mul_r by lia. reflexivity. Qed.

(* adding a multiple of 256^w does not change the low w bytes *)
Lemma be_fixed_add_mul w z k : be_fixed w (z + k * 256 ^ Z.of_nat w) = be_fixed w z.
Proof.
  unfold be_fixed. apply map_ext_in. intros i Hi. apply in_rev, in_seq in Hi.
  assert (E : 256 ^ Z.of_nat w = 256 ^ Z.of_nat i * (256 * 256 ^ Z.of_nat (w - S i))).
  { rewrite <- pow256_S, <- Z.pow_add_r by lia. f_equal. lia. }
  rewrite E. pose proof (pow256_pos i) as Hp.
  replace (z + k * (256 ^ Z.of_nat i * (256 * 256 ^ Z.of_nat (w - S i))))
    with (z + (k * 256 * 256 ^ Z.of_nat (w - S i)) * 256 ^ Z.of_nat i) by ring.
  rewrite Z.div_add by lia.
  replace (k * 256 * 256 ^ Z.of_nat (w - S i)) with ((k * 256 ^ Z.of_nat (w - S i)) * 256) by ring.
  rewrite Z.mod_add by lia. reflexivity.
Qed.

Lemma be_fixed_mod w z : be_fixed w (z mod 256 ^ Z.of_nat w) = be_fixed w z.
Proof.
  pose proof (pow256_pos w) as Hp.
  rewrite (Z.div_mod z (256 ^ Z.of_nat w)) at 2 by lia.
  rewrite Z.add_comm, Z.mul_comm. symmetry. apply be_fixed_add_mul.
Qed.

(* ---- be_val ----------------------------------------------------------------------------------- *)
Lemma be_val_acc l acc :
  fold_left (fun a b => a * 256 + b) l acc = acc * 256 ^ Z.of_nat (length l) + fold_left (fun a b => a * 256 + b) l 0.
Proof.
  revert acc. induction l as [|x l IH]; intros acc.
  - simpl. lia.
  - cbn [fold_left length]. rewrite IH. rewrite (IH (0 * 256 + x)). rewrite pow256_S. ring.
Qed.

Lemma be_val_cons x l : be_val (x :: l) = x * 256 ^ Z.of_nat (length l) + be_val l.
Proof. unfold be_val. cbn [fold_left]. rewrite be_val_acc. ring. Qed.

Lemma be_val_nil : be_val [] = 0.
Proof. reflexivity. Qed.

Lemma be_val_be_fixed w z : be_val (be_fixed w z) = z mod 256 ^ Z.of_nat w.
Proof.
  induction w as [|w IH].
  - cbn. rewrite Z.mod_1_r. reflexivity.
  - rewrite be_fixed_S, be_val_cons, be_fixed_length, IH, pow256_S.
    pose proof (pow256_pos w) as Hp.
    rewrite Z.mul_comm at 1. rewrite (Z.mul_comm 256). rewrite Z.rem_mul_r by lia. ring.
Qed.

Lemma be_val_bound l : wf_bytes l -> 0 <= be_val l < 256 ^ Z.of_nat (length l).
Proof.
  induction l as [|x l IH]; intros H.
  - cbn. lia.
  - inversion H as [|? ? Hx Hl]; subst. rewrite be_val_cons. cbn [length]. rewrite pow256_S.
    specialize (IH Hl). unfold is_byte in Hx. pose proof (pow256_pos (length l)). nia.
Qed.

(* ---- the model's fixed-width encoders are be_fixed --------------------------------------------- *)
Lemma enc_tiny_spec x : [byte_of x] = be_fixed 1 x.
Proof. unfold be_fixed, byte_of. cbn. rewrite Z.div_1_r. reflexivity. Qed.

Lemma enc_short_spec x : enc_short x = be_fixed 2 x.
Proof. unfold enc_short, be_fixed, byte_of. cbn [seq rev app map]. rewrite !shiftr_div by lia. cbn. rewrite Z.div_1_r. reflexivity. Qed.

Lemma enc_int_spec x : enc_int x = be_fixed 4 x.
Proof. unfold enc_int, be_fixed, byte_of. cbn [seq rev app map]. rewrite !shiftr_div by lia. cbn. rewrite Z.div_1_r. reflexivity. Qed.

Lemma enc_bigint_spec x : enc_bigint x = be_fixed 8 x.
Proof. unfold enc_bigint, be_fixed, byte_of. cbn [seq rev app map]. rewrite !shiftr_div by lia. cbn. rewrite Z.div_1_r. reflexivity. Qed.

(* ---- size2c: the smallest width that fits --------------------------------------------------------- *)
Lemma nbits_le m k : 0 <= m -> 0 <= k -> (nbits m <= k <-> m < 2 ^ k).
Proof.
  intros Hm Hk. unfold nbits. destruct (Z.eqb_spec m 0) as [->|Hz].
  - split; intros _; [apply Z.pow_pos_nonneg; lia | lia].
  - assert (0 < m) by lia. split; intros H0.
    + apply Z.log2_lt_pow2; lia.
    + apply Z.log2_lt_pow2 in H0; lia.
Qed.

Lemma nbits_nonneg m : 0 <= nbits m.
Proof. unfold nbits. destruct (m =? 0); [lia|]. pose proof (Z.log2_nonneg m). lia. Qed.

Lemma size2c_le (w : nat) z : (1 <= w)%nat -> ((size2c z <= w)%nat <-> fits_signed w z = true).
Proof.
  intros Hw. unfold size2c, fits_signed.
  set (m := if z <? 0 then - z - 1 else z). assert (Hm : 0 <= m) by (unfold m; destruct (Z.ltb_spec z 0); lia).
  pose proof (nbits_nonneg m) as Hn.
  assert (E : (Z.to_nat ((nbits m + 8) / 8) <= w)%nat <-> nbits m <= 8 * Z.of_nat w - 1).
  { split; intros H0; [|apply Nat2Z.inj_le; rewrite Z2Nat.id by (apply Z.div_pos; lia)]; lia. }
  rewrite E, nbits_le by lia. unfold m. destruct (Z.ltb_spec z 0); lia.
Qed.

Lemma size2c_pos z : (1 <= size2c z)%nat.
Proof.
  unfold size2c. set (m := if z <? 0 then - z - 1 else z). pose proof (nbits_nonneg m).
  apply Nat2Z.inj_le. rewrite Z2Nat.id by (apply Z.div_pos; lia). lia.
Qed.

Lemma fits_signed_mono (w : nat) z : fits_signed w z = true -> fits_signed (S w) z = true.
Proof.
  unfold fits_signed. intros H.
  assert (2 ^ (8 * Z.of_nat w - 1) <= 2 ^ (8 * Z.of_nat (S w) - 1)) by (apply Z.pow_le_mono_r; lia). lia.
Qed.

(* minimal: fits in w bytes and not in w - 1 *)
Lemma size2c_eq (w : nat) z : fits_signed (S w) z = true -> (w = O \/ fits_signed w z = false) -> size2c z = S w.
Proof.
  intros Hf Hn. apply size2c_le in Hf; [|lia]. pose proof (size2c_pos z).
  destruct Hn as [->|Hn]; [lia|].
  destruct w as [|w]; [lia|].
  assert (~ (size2c z <= S w)%nat); [|lia]. intros Hc. apply size2c_le in Hc; [congruence|lia].
Qed.

(* ---- the top two bytes decide whether one byte can be dropped ----------------------------------- *)
Lemma top_bytes (w : nat) z : fits_signed (S (S w)) z = true ->
  let b0 := (z / 256 ^ Z.of_nat (S w)) mod 256 in
  let b1 := (z / 256 ^ Z.of_nat w) mod 256 in
  (fits_signed (S w) z = true <-> (b0 = 0 /\ b1 < 128) \/ (b0 = 255 /\ 128 <= b1))
  /\ (b0 = 0 /\ b1 < 128 -> 0 <= z) /\ (b0 = 255 /\ 128 <= b1 -> z < 0).
Proof.
  intros Hf b0 b1. unfold fits_signed in *.
  pose proof (pow256_pos w) as Hp. set (P := 256 ^ Z.of_nat w) in *.
  assert (E1 : 2 ^ (8 * Z.of_nat (S (S w)) - 1) = 32768 * P).
  { unfold P. rewrite pow256_2. replace (8 * Z.of_nat (S (S w)) - 1) with (15 + 8 * Z.of_nat w) by lia.
    rewrite Z.pow_add_r by lia. reflexivity. }
  assert (E2 : 2 ^ (8 * Z.of_nat (S w) - 1) = 128 * P).
  { unfold P. rewrite pow256_2. replace (8 * Z.of_nat (S w) - 1) with (7 + 8 * Z.of_nat w) by lia.
    rewrite Z.pow_add_r by lia. reflexivity. }
  rewrite E1 in Hf. rewrite E2.
  assert (E3 : z / 256 ^ Z.of_nat (S w) = (z / P) / 256).
  { rewrite pow256_S. fold P. rewrite (Z.mul_comm 256), Z.div_div by lia. reflexivity. }
  subst b0 b1. rewrite E3. set (q := z / P).
  assert (Hq : q * P <= z < (q + 1) * P).
  { unfold q. pose proof (Z.div_mod z P ltac:(lia)). pose proof (Z.mod_pos_bound z P Hp). nia. }
  assert (Hqr : -32768 <= q < 32768) by nia.
  assert (Hfit : (-(128 * P) <=? z) && (z <? 128 * P) = true <-> -128 <= q < 128) by (split; intros; nia).
  rewrite Hfit. clear Hfit E1 E2 E3.
  assert (Hz : (0 <= q -> 0 <= z) /\ (q < 0 -> z < 0)) by (split; intros; nia).
  clearbody q. clear Hq Hf. clearbody P. clear Hp P.
  repeat split; intros; lia.
Qed.

Lemma land128 b : is_byte b -> Z.land b 128 = if b <? 128 then 0 else 128.
Proof.
  intros Hb. apply Z.eqb_eq.
  apply (byte_sweep (fun b => Z.land b 128 =? (if b <? 128 then 0 else 128))); [vm_compute; reflexivity | assumption].
Qed.

Lemma varint_trim_cons2 b0 b1 r :
  varint_trim (b0 :: b1 :: r) =
  if nez b0 0 && nez b0 255 then b0 :: b1 :: r
  else if (b0 =? 0) && nez b1 0 then (if Z.land b1 128 =? 0 then b1 :: r else b0 :: b1 :: r)
  else if (b0 =? 255) && nez b1 255 then (if 0 <? Z.land b1 128 then b1 :: r else b0 :: b1 :: r)
  else varint_trim (b1 :: r).
Proof. reflexivity. Qed.

(* ---- the varint trim loop yields the minimal encoding ----------------------------------------------- *)
Lemma varint_trim_minimal (w : nat) z : fits_signed (S w) z = true ->
  varint_trim (be_fixed (S w) z) = varint_bytes z.
Proof.
  unfold varint_bytes. induction w as [|w IH]; intros Hf.
  - rewrite (size2c_eq 0 z Hf) by (left; reflexivity). reflexivity.
  - pose proof (top_bytes w z Hf) as [Hiff [Hpos Hneg]]. cbv zeta in Hiff, Hpos, Hneg.
    rewrite (be_fixed_S (S w)), (be_fixed_S w).
    set (b0 := (z / 256 ^ Z.of_nat (S w)) mod 256) in *. set (b1 := (z / 256 ^ Z.of_nat w) mod 256) in *.
    assert (Hrest : b1 :: be_fixed w z = be_fixed (S w) z) by (rewrite be_fixed_S; reflexivity).
    assert (Hb0 : is_byte b0) by (apply Z.mod_pos_bound; lia).
    assert (Hb1 : is_byte b1) by (apply Z.mod_pos_bound; lia).
    rewrite varint_trim_cons2. unfold nez. rewrite (land128 b1 Hb1). unfold is_byte in *.
    (* the list we would stop at, and the list after dropping one byte *)
    assert (Hstop : fits_signed (S w) z = false -> b0 :: b1 :: be_fixed w z = be_fixed (size2c z) z).
    { intros Hn. rewrite (size2c_eq (S w) z Hf) by (right; exact Hn). rewrite (be_fixed_S (S w)), (be_fixed_S w). reflexivity. }
    assert (Hnf : ~ ((b0 = 0 /\ b1 < 128) \/ (b0 = 255 /\ 128 <= b1)) -> fits_signed (S w) z = false).
    { intros Hc. destruct (fits_signed (S w) z) eqn:E; [|reflexivity]. exfalso. apply Hc, Hiff. reflexivity. }
    destruct (Z.eqb_spec b0 0) as [E0|N0]; cbn [negb andb].
    + (* b0 = 0 *)
      destruct (Z.eqb_spec b1 0) as [E1|N1]; cbn [negb andb].
      * (* 0 0: continue *)
        destruct (Z.eqb_spec b0 255); [lia|]. cbn [andb].
        rewrite Hrest. apply IH. apply Hiff. left. lia.
      * destruct (Z.ltb_spec b1 128); cbn [Z.eqb].
        -- (* drop one byte and stop: b1 is non-zero, below 128 *)
           assert (Hf1 : fits_signed (S w) z = true) by (apply Hiff; left; lia).
           rewrite Hrest. destruct w as [|w'].
           ++ rewrite (size2c_eq 0 z Hf1) by (left; reflexivity). reflexivity.
           ++ rewrite (size2c_eq (S w') z Hf1); [reflexivity|]. right.
              destruct (fits_signed (S w') z) eqn:E; [|reflexivity]. exfalso.
              pose proof (top_bytes w' z Hf1) as [Hiff' _]. cbv zeta in Hiff'.
              apply Hiff' in E. destruct E as [[Ea _]|[Ea _]]; change ((z / 256 ^ Z.of_nat (S w')) mod 256) with b1 in Ea; clearbody b1 b0; lia.
        -- cbn. apply Hstop, Hnf. lia.
    + destruct (Z.eqb_spec b0 255) as [E255|N255]; cbn [negb andb].
      * destruct (Z.eqb_spec b1 255) as [E1|N1]; cbn [negb andb].
        -- (* ff ff: continue *)
           rewrite Hrest. apply IH. apply Hiff. right. lia.
        -- destruct (Z.ltb_spec b1 128).
           ++ cbn. apply Hstop, Hnf. lia.
           ++ cbn. assert (Hf1 : fits_signed (S w) z = true) by (apply Hiff; right; lia).
              rewrite Hrest. destruct w as [|w'].
              ** rewrite (size2c_eq 0 z Hf1) by (left; reflexivity). reflexivity.
              ** rewrite (size2c_eq (S w') z Hf1); [reflexivity|]. right.
                 destruct (fits_signed (S w') z) eqn:E; [|reflexivity]. exfalso.
                 pose proof (top_bytes w' z Hf1) as [Hiff' _]. cbv zeta in Hiff'.
                 apply Hiff' in E. destruct E as [[Ea _]|[Ea _]]; change ((z / 256 ^ Z.of_nat (S w')) mod 256) with b1 in Ea; clearbody b1 b0; lia.
      * (* neither 0 nor 255: stop *)
        apply Hstop, Hnf. lia.
Qed.

(* ---- fits_signed in arithmetic form ------------------------------------------------------------------ *)
Lemma half_pow (w : nat) : 2 ^ (8 * Z.of_nat (S w) - 1) = 128 * 256 ^ Z.of_nat w.
Proof.
  rewrite pow256_2. replace (8 * Z.of_nat (S w) - 1) with (7 + 8 * Z.of_nat w) by lia.
  rewrite Z.pow_add_r by lia. reflexivity.
Qed.

Lemma fits_signed_S (w : nat) z :
  fits_signed (S w) z = true <-> - (128 * 256 ^ Z.of_nat w) <= z < 128 * 256 ^ Z.of_nat w.
Proof. unfold fits_signed. rewrite half_pow. lia. Qed.

Lemma fits_signed_S_false (w : nat) z :
  fits_signed (S w) z = false <-> (z < - (128 * 256 ^ Z.of_nat w) \/ 128 * 256 ^ Z.of_nat w <= z).
Proof. unfold fits_signed. rewrite half_pow. lia. Qed.

(* ---- decBigInt2C reads every two's-complement encoding, minimal or not --------------------------------- *)
Lemma top_byte_sign (w : nat) z : fits_signed (S w) z = true ->
  (128 <= (z / 256 ^ Z.of_nat w) mod 256 <-> z < 0).
Proof.
  intros Hf. apply fits_signed_S in Hf. pose proof (pow256_pos w) as Hp. set (P := 256 ^ Z.of_nat w) in *.
  set (q := z / P).
  assert (Hq : q * P <= z < (q + 1) * P).
  { unfold q. pose proof (Z.div_mod z P ltac:(lia)). pose proof (Z.mod_pos_bound z P Hp). nia. }
  assert (Hqr : -128 <= q < 128) by nia.
  assert (Hz : (0 <= q -> 0 <= z) /\ (q < 0 -> z < 0)) by (split; intros; nia).
  clearbody q. clear Hq Hf. clearbody P. lia.
Qed.

Lemma dec_bigint2c_be_fixed (w : nat) z : fits_signed (S w) z = true -> dec_bigint2c (be_fixed (S w) z) = z.
Proof.
  intros Hf. unfold dec_bigint2c. rewrite be_val_be_fixed, be_fixed_length. rewrite be_fixed_S.
  set (b0 := (z / 256 ^ Z.of_nat w) mod 256). assert (Hb : is_byte b0) by (apply Z.mod_pos_bound; lia).
  rewrite (land128 b0 Hb). pose proof (top_byte_sign w z Hf) as Hs. fold b0 in Hs.
  rewrite Z.shiftl_1_l. replace (2 ^ (Z.of_nat (S w) * 8)) with (256 ^ Z.of_nat (S w)) by (rewrite pow256_2; f_equal; lia).
  apply fits_signed_S in Hf. rewrite pow256_S in *. pose proof (pow256_pos w) as Hp. set (P := 256 ^ Z.of_nat w) in *.
  destruct (Z.ltb_spec b0 128) as [Hlt|Hge]; cbn [Z.ltb Z.compare].
  - assert (0 <= z) by lia. rewrite Z.mod_small by lia. reflexivity.
  - assert (z < 0) by lia. clearbody b0 P.
    replace z with (z + 256 * P + (-1) * (256 * P)) at 1 by ring. rewrite Z.mod_add by lia. rewrite Z.mod_small by lia. lia.
Qed.

(* ---- encBigInt2C is the minimal two's complement, for every integer ------------------------------------- *)
Lemma log2_bounds n : 0 < n -> 2 ^ Z.log2 n <= n < 2 ^ (Z.log2 n + 1).
Proof. intros H. pose proof (Z.log2_spec n H). replace (Z.log2 n + 1) with (Z.succ (Z.log2 n)) by lia. lia. Qed.

Lemma big_bytes_pos n : 0 < n ->
  let k := Z.to_nat (Z.log2 n / 8) in
  big_bytes n = be_fixed (S k) n /\ 256 ^ Z.of_nat k <= n < 256 ^ Z.of_nat (S k).
Proof.
  intros Hn k. pose proof (Z.log2_nonneg n) as Hl. split.
  - unfold big_bytes. destruct (Z.leb_spec n 0); [lia|]. unfold be_fixed. do 3 f_equal. unfold k.
    rewrite Z2Nat.inj_add by (try apply Z.div_pos; lia). rewrite Nat.add_comm. reflexivity.
  - pose proof (log2_bounds n Hn) as [Hlo Hhi]. rewrite !pow256_2.
    assert (Ek : Z.of_nat k = Z.log2 n / 8) by (unfold k; rewrite Z2Nat.id; [reflexivity | apply Z.div_pos; lia]).
    split.
    + eapply Z.le_trans; [|exact Hlo]. apply Z.pow_le_mono_r; lia.
    + eapply Z.lt_le_trans; [exact Hhi|]. apply Z.pow_le_mono_r; lia.
Qed.

Lemma enc_bigint2c_minimal n : enc_bigint2c n = varint_bytes n.
Proof.
  unfold enc_bigint2c, varint_bytes. destruct (Z.eqb_spec n 0) as [->|Hnz]; [reflexivity|].
  destruct (Z.ltb_spec 0 n) as [Hpos|Hneg].
  - (* positive *)
    destruct (big_bytes_pos n Hpos) as [Hb [Hlo Hhi]]. cbv zeta in Hb, Hlo, Hhi. set (k := Z.to_nat (Z.log2 n / 8)) in *.
    rewrite Hb. rewrite be_fixed_S at 1. cbn [hd].
    pose proof (pow256_pos k) as Hp. rewrite pow256_S in Hhi.
    assert (Hq : 1 <= n / 256 ^ Z.of_nat k < 256).
    { split; [apply Z.div_le_lower_bound; lia | apply Z.div_lt_upper_bound; lia]. }
    rewrite (Z.mod_small (n / 256 ^ Z.of_nat k)) by lia.
    rewrite land128 by (unfold is_byte; lia).
    destruct (Z.ltb_spec (n / 256 ^ Z.of_nat k) 128) as [Hlt|Hge]; cbn [Z.ltb Z.compare].
    + (* no padding byte *)
      assert (Hn128 : n < 128 * 256 ^ Z.of_nat k).
      { pose proof (Z.div_mod n (256 ^ Z.of_nat k) ltac:(lia)). pose proof (Z.mod_pos_bound n (256 ^ Z.of_nat k) Hp). nia. }
      rewrite (size2c_eq k n); [reflexivity | apply fits_signed_S; lia |].
      destruct k as [|k']; [left; reflexivity|right]. apply fits_signed_S_false. right. rewrite pow256_S in Hlo. lia.
    + assert (Hn128 : 128 * 256 ^ Z.of_nat k <= n).
      { pose proof (Z.div_mod n (256 ^ Z.of_nat k) ltac:(lia)). pose proof (Z.mod_pos_bound n (256 ^ Z.of_nat k) Hp). nia. }
      rewrite (size2c_eq (S k) n).
      * rewrite (be_fixed_S (S k)). f_equal. rewrite pow256_S. rewrite Z.div_small by lia. reflexivity.
      * apply fits_signed_S. rewrite pow256_S. lia.
      * right. apply fits_signed_S_false. right. exact Hn128.
  - (* negative *)
    assert (Hn : n < 0) by lia. clear Hneg Hnz.
    unfold bitlen. destruct (Z.eqb_spec n 0); [lia|]. rewrite Z.abs_neq by lia.
    pose proof (log2_bounds (- n) ltac:(lia)) as [Hlo Hhi]. pose proof (Z.log2_nonneg (- n)) as Hl.
    set (bl := Z.log2 (- n) + 1) in *. set (L := Z.to_nat (bl / 8)).
    assert (EL : Z.of_nat L = bl / 8) by (unfold L; rewrite Z2Nat.id; [reflexivity | apply Z.div_pos; lia]).
    assert (Elen : (bl / 8 + 1) * 8 = 8 * Z.of_nat (S L)) by lia.
    rewrite Elen, Z.shiftl_1_l, <- pow256_2.
    (* -n is at most half of 256^(S L), at least 2^(8L - 1) *)
    assert (Hhalf : - n < 128 * 256 ^ Z.of_nat L).
    { rewrite <- half_pow. eapply Z.lt_le_trans; [exact Hhi|]. apply Z.pow_le_mono_r; lia. }
    assert (Hlow : 2 ^ (8 * Z.of_nat L - 1) <= - n).
    { eapply Z.le_trans; [|exact Hlo]. apply Z.pow_le_mono_r; lia. }
    pose proof (pow256_pos L) as Hp.
    set (M := n + 256 ^ Z.of_nat (S L)).
    assert (HM : 128 * 256 ^ Z.of_nat L < M < 256 * 256 ^ Z.of_nat L) by (unfold M; rewrite pow256_S; lia).
    assert (HlogM : Z.log2 M = 8 * Z.of_nat L + 7).
    { apply Z.log2_unique; [lia|]. replace (Z.succ (8 * Z.of_nat L + 7)) with (8 * Z.of_nat (S L)) by lia.
      replace (8 * Z.of_nat L + 7) with (8 * Z.of_nat (S L) - 1) by lia. rewrite half_pow, <- pow256_2, pow256_S. lia. }
    destruct (big_bytes_pos M ltac:(lia)) as [Hb _]. cbv zeta in Hb.
    replace (Z.to_nat (Z.log2 M / 8)) with L in Hb by (rewrite HlogM; apply Nat2Z.inj; rewrite Z2Nat.id by (apply Z.div_pos; lia); lia).
    rewrite Hb. unfold M. replace (n + 256 ^ Z.of_nat (S L)) with (n + 1 * 256 ^ Z.of_nat (S L)) by ring.
    rewrite be_fixed_add_mul.
    assert (Hf : fits_signed (S L) n = true) by (apply fits_signed_S; lia).
    destruct L as [|w].
    + (* one byte *) rewrite (size2c_eq 0 n Hf) by (left; reflexivity). reflexivity.
    + pose proof (top_bytes w n Hf) as [Hiff [Hposz _]]. cbv zeta in Hiff, Hposz.
      rewrite (be_fixed_S (S w)), (be_fixed_S w).
      set (b0 := (n / 256 ^ Z.of_nat (S w)) mod 256) in *. set (b1 := (n / 256 ^ Z.of_nat w) mod 256) in *.
      assert (Hb1 : is_byte b1) by (apply Z.mod_pos_bound; lia).
      unfold nez. rewrite (land128 b1 Hb1).
      assert (Hcond : (b0 =? 255) && negb ((if b1 <? 128 then 0 else 128) =? 0) = fits_signed (S w) n).
      { destruct (Bool.bool_dec (fits_signed (S w) n) true) as [E|E]; [rewrite E | apply Bool.not_true_is_false in E; rewrite E].
        - apply Hiff in E. destruct E as [[E0 E1]|[E0 E1]]; [exfalso; lia|].
          rewrite E0. destruct (Z.ltb_spec b1 128); [lia|reflexivity].
        - destruct (Z.eqb_spec b0 255) as [E0|]; [|reflexivity]. destruct (Z.ltb_spec b1 128); [reflexivity|].
          exfalso. assert (fits_signed (S w) n = true) by (apply Hiff; right; lia). congruence. }
      rewrite Hcond. destruct (Bool.bool_dec (fits_signed (S w) n) true) as [E|E]; [rewrite E | apply Bool.not_true_is_false in E; rewrite E].
      * (* strip the redundant ff *)
        rewrite (size2c_eq w n E).
        -- rewrite (be_fixed_S w). reflexivity.
        -- destruct w as [|w']; [left; reflexivity|right]. apply fits_signed_S_false. left.
           assert (2 ^ (8 * Z.of_nat (S (S w')) - 1) = 32768 * 256 ^ Z.of_nat w').
           { rewrite half_pow, pow256_S. ring. }
           pose proof (pow256_pos w'). lia.
      * rewrite (size2c_eq (S w) n Hf) by (right; exact E). rewrite (be_fixed_S (S w)), (be_fixed_S w). reflexivity.
Qed.
