(* C12/Spec.v -- the CQL value encodings, written from the native protocol specification
   (native_protocol_v3/v4/v5.spec, section 6 "Data type serialization formats" and section 3 for the
   [bytes] / [short bytes] notations and the [option] ids), NOT from marshal.go.  Only the type
   [cqlty] (the shape of a CQL type) is shared with the model.
   Anchored at the end by Examples on vectors that did not originate in this driver. *)
From GocqlV Require Import Lib.Base.
From GocqlV Require Import C12.Model.     (* for the type [cqlty] only *)

(* CQL values.  Integers of every integer-like type are mathematical integers:
   tinyint/smallint/int/bigint/counter/varint as such, time = nanoseconds since midnight,
   timestamp = milliseconds since the epoch, date = days since the epoch (negative before 1970). *)
Inductive cqlval :=
| VInt (z : Z)
| VBool (b : bool)
| VBytes (b : bytes)                    (* ascii/text/varchar/blob; uuid/timeuuid (16 bytes); inet (4 or 16 bytes) *)
| VFloat (bits : Z)                     (* float: IEEE 754 binary32 bits, double: binary64 bits *)
| VDecimal (unscaled scale : Z)         (* unscaled * 10^(-scale) *)
| VDuration (months days nanos : Z)
| VList (l : list (option cqlval))      (* list and set; None = null element *)
| VMap (l : list (option cqlval * option cqlval))
| VTuple (l : list (option cqlval))     (* one entry per component; None = null *)
| VUdt (l : list (option cqlval)).      (* fields in declaration order; may stop early *)

(* [option] ids of section 4.2.5.2 *)
Module Id.
  Definition ascii := 1. Definition bigint := 2. Definition blob := 3. Definition boolean := 4.
  Definition counter := 5. Definition decimal := 6. Definition double := 7. Definition float := 8.
  Definition int := 9. Definition text := 10. Definition timestamp := 11. Definition uuid := 12.
  Definition varchar := 13. Definition varint := 14. Definition timeuuid := 15. Definition inet := 16.
  Definition date := 17. Definition time := 18. Definition smallint := 19. Definition tinyint := 20.
  Definition duration := 21.
End Id.

(* w bytes, big-endian, of z modulo 2^(8w): two's complement when z is negative *)
Definition be_fixed (w : nat) (z : Z) : bytes :=
  map (fun i => (z / 256 ^ Z.of_nat i) mod 256) (rev (seq 0 w)).

Definition fits_signed (w : nat) (z : Z) : bool :=
  (- 2 ^ (8 * Z.of_nat w - 1) <=? z) && (z <? 2 ^ (8 * Z.of_nat w - 1)).
Definition fits_unsigned (w : nat) (z : Z) : bool := (0 <=? z) && (z <? 2 ^ (8 * Z.of_nat w)).

Definition fixed_signed (w : nat) (z : Z) : option bytes :=
  if fits_signed w z then Some (be_fixed w z) else None.

(* varint: two's complement in the smallest number of bytes (at least one) *)
Definition nbits (m : Z) : Z := if m =? 0 then 0 else Z.log2 m + 1.
Definition size2c (z : Z) : nat := Z.to_nat ((nbits (if z <? 0 then - z - 1 else z) + 8) / 8).
Definition varint_bytes (z : Z) : bytes := be_fixed (size2c z) z.

(* vint (section 3 of the v5 spec, used by duration): zig-zag, then an unsigned vint whose first byte
   has as many leading 1 bits as there are extra bytes *)
Definition zigzag (z : Z) : Z := if z <? 0 then - 2 * z - 1 else 2 * z.
Definition extra_bytes (u : Z) : nat :=
  if u <? 2 ^ 7 then 0 else if u <? 2 ^ 14 then 1 else if u <? 2 ^ 21 then 2 else if u <? 2 ^ 28 then 3
  else if u <? 2 ^ 35 then 4 else if u <? 2 ^ 42 then 5 else if u <? 2 ^ 49 then 6 else if u <? 2 ^ 56 then 7
  else 8.
Definition uvint (u : Z) : bytes :=
  let n := extra_bytes u in
  be_fixed (S n) (u + (2 ^ Z.of_nat n - 1) * 2 ^ (7 * Z.of_nat n + 8)).
Definition vint (z : Z) : bytes := uvint (zigzag z).

(* [bytes]: an [int] n followed by n bytes, n = -1 for null;  [short bytes]-like framing with a 2-byte
   length is what protocol versions 1 and 2 use inside collections (no null there) *)
Definition int_bytes (x : option bytes) : option bytes :=
  match x with
  | None => Some (be_fixed 4 (-1))
  | Some b => if fits_signed 4 (Z.of_nat (length b)) then Some (be_fixed 4 (Z.of_nat (length b)) ++ b) else None
  end.
Definition coll_bytes (pv : Z) (x : option bytes) : option bytes :=
  if 3 <=? pv then int_bytes x
  else
    (* protocol 1 and 2 have no null element ([short bytes] has an unsigned length): the documented
       degradation is the empty value *)
    let b := match x with Some b => b | None => [] end in
    if fits_unsigned 2 (Z.of_nat (length b)) then Some (be_fixed 2 (Z.of_nat (length b)) ++ b) else None.
Definition coll_count (pv : Z) (n : nat) : option bytes :=
  if 3 <=? pv then (if fits_signed 4 (Z.of_nat n) then Some (be_fixed 4 (Z.of_nat n)) else None)
  else (if fits_unsigned 2 (Z.of_nat n) then Some (be_fixed 2 (Z.of_nat n)) else None).

Fixpoint concat_opt (l : list (option bytes)) : option bytes :=
  match l with
  | [] => Some []
  | None :: _ => None
  | Some b :: r => match concat_opt r with Some c => Some (b ++ c) | None => None end
  end.

(* a possibly-null component: Some None = null, None = not encodable *)
Definition enc_opt (f : cqlval -> option bytes) (x : option cqlval) : option (option bytes) :=
  match x with None => Some None | Some v => option_map Some (f v) end.
Definition framed (frame : option bytes -> option bytes) (f : cqlval -> option bytes) (x : option cqlval) : option bytes :=
  match enc_opt f x with Some ob => frame ob | None => None end.

Definition encode_native (id : Z) (v : cqlval) : option bytes :=
  match v with
  | VInt z =>
      if id =? Id.tinyint then fixed_signed 1 z
      else if id =? Id.smallint then fixed_signed 2 z
      else if id =? Id.int then fixed_signed 4 z
      else if (id =? Id.bigint) || (id =? Id.counter) || (id =? Id.time) || (id =? Id.timestamp) then fixed_signed 8 z
      else if id =? Id.varint then Some (varint_bytes z)
      else if id =? Id.date then
        (* unsigned 32-bit day number with 2^31 at the epoch *)
        (if fits_signed 4 z then Some (be_fixed 4 (z + 2 ^ 31)) else None)
      else None
  | VBool b => if id =? Id.boolean then Some [if b then 1 else 0] else None
  | VBytes b =>
      if (id =? Id.ascii) || (id =? Id.text) || (id =? Id.varchar) || (id =? Id.blob) then Some b
      else if (id =? Id.uuid) || (id =? Id.timeuuid) then (if (length b =? 16)%nat then Some b else None)
      else if id =? Id.inet then (if (length b =? 4)%nat || (length b =? 16)%nat then Some b else None)
      else None
  | VFloat bits =>
      if id =? Id.float then (if fits_unsigned 4 bits then Some (be_fixed 4 bits) else None)
      else if id =? Id.double then (if fits_unsigned 8 bits then Some (be_fixed 8 bits) else None)
      else None
  | VDecimal unscaled scale =>
      if id =? Id.decimal then (if fits_signed 4 scale then Some (be_fixed 4 scale ++ varint_bytes unscaled) else None)
      else None
  | VDuration m d n =>
      if id =? Id.duration then
        (if fits_signed 4 m && fits_signed 4 d && fits_signed 8 n then Some (vint m ++ vint d ++ vint n) else None)
      else None
  | _ => None
  end.

Fixpoint encode_value (pv : Z) (ty : cqlty) (v : cqlval) {struct ty} : option bytes :=
  match ty with
  | TNative id => encode_native id v
  | TList e | TSet e =>
      match v with
      | VList l =>
          match coll_count pv (length l), concat_opt (map (framed (coll_bytes pv) (encode_value pv e)) l) with
          | Some h, Some b => Some (h ++ b)
          | _, _ => None
          end
      | _ => None
      end
  | TMap k e =>
      match v with
      | VMap l =>
          match coll_count pv (length l),
                concat_opt (map (fun kv => match framed (coll_bytes pv) (encode_value pv k) (fst kv),
                                                 framed (coll_bytes pv) (encode_value pv e) (snd kv) with
                                           | Some a, Some b => Some (a ++ b)
                                           | _, _ => None
                                           end) l) with
          | Some h, Some b => Some (h ++ b)
          | _, _ => None
          end
      | _ => None
      end
  | TTuple es =>
      match v with
      | VTuple l =>
          if (length l =? length es)%nat then
            concat_opt ((fix go (es : list cqlty) (l : list (option cqlval)) {struct es} : list (option bytes) :=
                           match es, l with
                           | e :: es', x :: l' => framed int_bytes (encode_value pv e) x :: go es' l'
                           | _, _ => []
                           end) es l)
          else None
      | _ => None
      end
  | TUdt fs =>
      match v with
      | VUdt l =>
          if (length l <=? length fs)%nat then
            concat_opt ((fix go (fs : list (bytes * cqlty)) (l : list (option cqlval)) {struct fs} : list (option bytes) :=
                           match fs, l with
                           | (_, e) :: fs', x :: l' => framed int_bytes (encode_value pv e) x :: go fs' l'
                           | _, _ => []
                           end) fs l)
          else None
      | _ => None
      end
  end.

(* ---- anchors: vectors that did not originate in this driver ------------------------------------ *)
(* varint, quoted in marshal_test.go from the iconara/cql-rb and datastax/python-driver suites *)
Example anchor_varint_cqlrb_neg :
  encode_native Id.varint (VInt (-234234234234)) = Some [201; 118; 141; 58; 134].      (* C9 76 8D 3A 86 *)
Proof. vm_compute. reflexivity. Qed.
Example anchor_varint_python :
  encode_native Id.varint (VInt 123456789123456789123456789) = Some [102; 30; 253; 242; 227; 177; 159; 124; 4; 95; 21].
Proof. vm_compute. reflexivity. Qed.
Example anchor_varint_cqlrb_big :
  encode_native Id.varint (VInt 1231312312331283012830129382342342412123)
  = Some [3; 158; 86; 32; 21; 12; 3; 157; 75; 24; 205; 73; 92; 36; 63; 7; 91].
Proof. vm_compute. reflexivity. Qed.
(* decimal: cql-rb -0.0012095473475870063 = -12095473475870063 * 10^-19; python-driver 64206 * 10^100 *)
Example anchor_decimal_cqlrb :
  encode_native Id.decimal (VDecimal (-12095473475870063) 19) = Some [0; 0; 0; 19; 213; 7; 59; 32; 20; 162; 145].
Proof. vm_compute. reflexivity. Qed.
Example anchor_decimal_python_neg_scale :
  encode_native Id.decimal (VDecimal 64206 (-100)) = Some [255; 255; 255; 156; 0; 250; 206].
Proof. vm_compute. reflexivity. Qed.
Example anchor_decimal_python :
  encode_native Id.decimal (VDecimal (-112233441191) 6) = Some [0; 0; 0; 6; 229; 222; 93; 152; 89].
Proof. vm_compute. reflexivity. Qed.
(* duration vectors (as produced by the Java driver; quoted in marshal_test.go) *)
Example anchor_duration_pos :
  encode_native Id.duration (VDuration 1233 123213 2312323) = Some [137; 162; 195; 194; 154; 224; 70; 145; 6].
Proof. vm_compute. reflexivity. Qed.
Example anchor_duration_neg :
  encode_native Id.duration (VDuration (-1233) (-123213) (-2312323)) = Some [137; 161; 195; 194; 153; 224; 70; 145; 5].
Proof. vm_compute. reflexivity. Qed.
Example anchor_duration_small :
  encode_native Id.duration (VDuration 1 2 115) = Some [2; 4; 128; 230].
Proof. vm_compute. reflexivity. Qed.
(* date: 2017-02-04 is day 17201 after the epoch: 0x80004331 (marshal_test.go TestUnmarshalDate; the
   protocol specification's own example: 2^31 is 1970-01-01) *)
Example anchor_date : encode_native Id.date (VInt 17201) = Some [128; 0; 67; 49]
  /\ encode_native Id.date (VInt 0) = Some [128; 0; 0; 0] /\ encode_native Id.date (VInt (-1)) = Some [127; 255; 255; 255].
Proof. vm_compute. repeat split. Qed.
(* time: 1376387523000 ns, vector quoted in marshal_test.go *)
Example anchor_time : encode_native Id.time (VInt 1376387523000) = Some [0; 0; 1; 64; 119; 22; 225; 184].
Proof. vm_compute. reflexivity. Qed.
(* list<int> [1; 2] on protocol 2 (2-byte lengths) and on protocol 3 (4-byte lengths, null = -1) *)
Example anchor_list_v2 :
  encode_value 2 (TList (TNative Id.int)) (VList [Some (VInt 1); Some (VInt 2)]) = Some [0; 2; 0; 4; 0; 0; 0; 1; 0; 4; 0; 0; 0; 2].
Proof. vm_compute. reflexivity. Qed.
Example anchor_list_v3_null :
  encode_value 3 (TList (TNative Id.int)) (VList [Some (VInt 1); None])
  = Some [0; 0; 0; 2; 0; 0; 0; 4; 0; 0; 0; 1; 255; 255; 255; 255].
Proof. vm_compute. reflexivity. Qed.
