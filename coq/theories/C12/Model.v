(* C12/Model.v -- executable model of /repo/marshal.go (Marshal, Unmarshal and everything they reach),
   shared by C12 and C02.  Definitions only; no proofs.

   Universe.  Go values are terms of [gval], Unmarshal targets (the type the pointer passed to
   Unmarshal points to) are terms of [gty], CQL types are [cqlty]; one protocol version [pv] is used
   for the whole type tree.  Outcomes are [res]: [Ok], a returned error [Err], a Go run-time panic
   [Panic], and [Fuel] (never produced for the fuel the wrappers supply; see Proofs).
   Unmarshal is modelled for a target that holds the zero value of its type (what the harness passes).

   Not modelled (outside the universe; the harness never generates them): Marshaler / Unmarshaler /
   UDTMarshaler / UDTUnmarshaler user hooks, embedded structs and unexported struct fields, string
   sources for date / duration (time.Parse, time.ParseDuration), 32-bit platforms
   (int/uint are 64 bits), zero-arity tuples. *)
From GocqlV Require Import Lib.Base Gen.Consts.
From GocqlV Require C19.Model.

Inductive res (A : Type) := Ok (a : A) | Err | Panic | Fuel.
Arguments Ok {A} a. Arguments Err {A}. Arguments Panic {A}. Arguments Fuel {A}.

Definition rbind {A B} (r : res A) (f : A -> res B) : res B :=
  match r with Ok a => f a | Err => Err | Panic => Panic | Fuel => Fuel end.
Definition rmap {A B} (f : A -> B) (r : res A) : res B := rbind r (fun a => Ok (f a)).

(* ---- CQL types ----------------------------------------------------------------------------- *)
Inductive cqlty :=
| TNative (id : Z)                               (* NativeType with this Type id *)
| TList (e : cqlty) | TSet (e : cqlty) | TMap (k v : cqlty)
| TTuple (es : list cqlty)
| TUdt (fs : list (bytes * cqlty)).              (* field name (bytes of the Go string), type *)

(* ---- Go values ----------------------------------------------------------------------------- *)
Inductive ikind := I8 | I16 | I32 | I64 | IInt | U8 | U16 | U32 | U64 | UInt.

Inductive gval :=
| GNil | GUnset                                   (* untyped nil interface; gocql.UnsetValue *)
| GInt (k : ikind) (named : bool) (z : Z)         (* named: a defined type with that underlying kind *)
| GStr (named : bool) (s : bytes)
| GBytes (named : bool) (b : option bytes)        (* []byte; None = nil slice *)
| GBool (named : bool) (b : bool)
| GF32 (named : bool) (bits : Z) | GF64 (named : bool) (bits : Z)   (* raw IEEE bits *)
| GBig (z : Z)                                    (* big.Int *)
| GDec (unscaled scale : Z)                       (* inf.Dec *)
| GTime (sec nsec : Z)                            (* time.Time as (Unix(), Nanosecond()) *)
| GDur (ns : Z)                                   (* time.Duration *)
| GCqlDur (m d n : Z)                             (* gocql.Duration *)
| GUUID (b : bytes) | GArr16 (b : bytes)          (* gocql.UUID, [16]byte *)
| GIP (b : bytes)                                 (* net.IP (nil = []) *)
| GSlice (l : option (list gval))                 (* typed slice; None = nil *)
| GIfaces (l : list gval)                         (* []interface{} *)
| GArray (l : list gval)
| GMap (l : option (list (gval * gval)))          (* entries in iteration order *)
| GSetMap (l : list gval)                         (* map[X]struct{}: keys in iteration order *)
| GStrMap (l : option (list (bytes * gval)))      (* map[string]interface{} *)
| GStruct (fs : list (bytes * bytes * gval))      (* exported field name, cql tag ([] = none), value *)
| GPtr (p : option gval).                         (* typed pointer; None = nil *)

(* Unmarshal targets: the pointee type of the pointer handed to Unmarshal *)
Inductive gty :=
| YInt (k : ikind) (named : bool) | YStr (named : bool) | YBytes (named : bool) | YBool (named : bool)
| YF32 (named : bool) | YF64 (named : bool) | YBig | YDec | YTime | YDur | YCqlDur
| YUUID | YArr16 | YIP
| YSlice (e : gty) | YArray (n : nat) (e : gty) | YMap (k v : gty)
| YIfaces (ts : list gty)                         (* []interface{} holding pointers to these types *)
| YStrMap
| YStruct (fs : list (bytes * bytes * gty))
| YPtr (e : gty)
| YIface.                                         (* interface{} *)

Definition is_signed (k : ikind) : bool :=
  match k with I8 | I16 | I32 | I64 | IInt => true | _ => false end.

Definition kmin (k : ikind) : Z :=
  match k with I8 => -128 | I16 => -32768 | I32 => -2147483648 | I64 | IInt => -9223372036854775808 | _ => 0 end.
Definition kmax (k : ikind) : Z :=
  match k with
  | I8 => 127 | I16 => 32767 | I32 => 2147483647 | I64 | IInt => 9223372036854775807
  | U8 => 255 | U16 => 65535 | U32 => 4294967295 | U64 | UInt => 18446744073709551615
  end.

(* math.MaxInt8 ... : the literals of package math used by the range checks *)
Definition MaxInt8 := 127. Definition MinInt8 := -128. Definition MaxUint8 := 255.
Definition MaxInt16 := 32767. Definition MinInt16 := -32768. Definition MaxUint16 := 65535.
Definition MaxInt32 := 2147483647. Definition MinInt32 := -2147483648. Definition MaxUint32 := 4294967295.
Definition MaxInt64 := 9223372036854775807.

Definition nez (a b : Z) : bool := negb (a =? b).

(* ---- primitive encoders / decoders (marshal.go:612-642, 702-719, 1012-1020) ------------------- *)
Definition enc_short (x : Z) : bytes := [byte_of (Z.shiftr x 8); byte_of x].
Definition enc_int (x : Z) : bytes :=
  [byte_of (Z.shiftr x 24); byte_of (Z.shiftr x 16); byte_of (Z.shiftr x 8); byte_of x].
Definition enc_bigint (x : Z) : bytes :=
  [byte_of (Z.shiftr x 56); byte_of (Z.shiftr x 48); byte_of (Z.shiftr x 40); byte_of (Z.shiftr x 32);
   byte_of (Z.shiftr x 24); byte_of (Z.shiftr x 16); byte_of (Z.shiftr x 8); byte_of x].

Definition dec_tiny (p : bytes) : Z := match p with [a] => sx8 a | _ => 0 end.
Definition dec_short (p : bytes) : Z :=
  match p with [a; b] => signed 16 (Z.lor (Z.shiftl a 8) b) | _ => 0 end.
Definition dec_int (p : bytes) : Z :=
  match p with
  | [a; b; c; d] => signed 32 (Z.lor (Z.lor (Z.lor (Z.shiftl a 24) (Z.shiftl b 16)) (Z.shiftl c 8)) d)
  | _ => 0
  end.
Definition dec_bigint (p : bytes) : Z :=
  match p with
  | [a; b; c; d; e; f; g; h] =>
      signed 64 (Z.lor (Z.lor (Z.lor (Z.lor (Z.lor (Z.lor (Z.lor (Z.shiftl a 56) (Z.shiftl b 48)) (Z.shiftl c 40))
                 (Z.shiftl d 32)) (Z.shiftl e 24)) (Z.shiftl f 16)) (Z.shiftl g 8)) h)
  | _ => 0
  end.

(* big-endian value: ret |= data[i] << 8*(len-i-1) (the shifted bytes are disjoint) *)
Definition be_val (data : bytes) : Z := fold_left (fun acc b => acc * 256 + b) data 0.

(* ---- strconv.ParseInt(s, 10, bits) and strconv.FormatInt(v, 10) ---------------------------- *)
Fixpoint digits_val (s : bytes) (acc : Z) : option Z :=
  match s with
  | [] => Some acc
  | c :: r => if (48 <=? c) && (c <=? 57) then digits_val r (acc * 10 + (c - 48)) else None
  end.

Definition parse_int (s : bytes) (bits : Z) : option Z :=
  match s with
  | [] => None
  | c :: r =>
      let neg := c =? 45 in
      let ds := if (c =? 45) || (c =? 43) then r else s in
      match ds with
      | [] => None
      | _ => match digits_val ds 0 with
             | None => None
             | Some un =>
                 let cutoff := 2 ^ (bits - 1) in
                 if negb neg && (cutoff <=? un) then None
                 else if neg && (cutoff <? un) then None
                 else Some (if neg then - un else un)
             end
      end
  end.

Fixpoint digits_fuel (n : nat) (z : Z) (acc : bytes) : bytes :=
  match n with
  | O => acc
  | S n' => if z <? 10 then (48 + z) :: acc else digits_fuel n' (z / 10) ((48 + z mod 10) :: acc)
  end.
(* 20 digits are enough for every int64 *)
Definition format_int (v : Z) : bytes :=
  if v <? 0 then 45 :: digits_fuel 20 (- v) [] else digits_fuel 20 v [].

(* ---- math/big: Bytes, BitLen; encBigInt2C / decBigInt2C (marshal.go:1203-1241) -------------- *)
Definition bitlen (n : Z) : Z := if n =? 0 then 0 else Z.log2 (Z.abs n) + 1.
(* big.Int.Bytes of a non-negative n: minimal big-endian magnitude, empty for 0 *)
Definition big_bytes (n : Z) : bytes :=
  if n <=? 0 then []
  else map (fun i => (n / 256 ^ Z.of_nat i) mod 256) (rev (seq 0 (Z.to_nat (Z.log2 n / 8 + 1)))).

Definition enc_bigint2c (n : Z) : bytes :=
  if n =? 0 then [0]
  else if 0 <? n then
    let b := big_bytes n in
    if 0 <? Z.land (hd 0 b) 128 then 0 :: b else b
  else
    let length := (bitlen n / 8 + 1) * 8 in
    let b := big_bytes (n + Z.shiftl 1 length) in
    match b with
    | b0 :: b1 :: r => if (b0 =? 255) && nez (Z.land b1 128) 0 then b1 :: r else b
    | _ => b
    end.

Definition dec_bigint2c (data : bytes) : Z :=
  let n := be_val data in
  match data with
  | b0 :: _ => if 0 <? Z.land b0 128 then n - Z.shiftl 1 (Z.of_nat (length data) * 8) else n
  | [] => n
  end.

(* ---- vint / zig-zag (marshal.go:1485-1551) --------------------------------------------------- *)
Definition enc_zigzag (n : Z) : Z := wrap 64 (Z.lxor (Z.shiftr n 63) (signed 64 (Z.shiftl n 1))).
Definition dec_zigzag (n : Z) : Z :=
  signed 64 (Z.lxor (Z.shiftr n 1) (wrap 64 (- (Z.land n 1)))).

Fixpoint zrange (n : nat) (from : Z) : list Z :=
  match n with O => [] | S n' => from :: zrange n' (from + 1) end.

Definition enc_vint (v : Z) : bytes :=
  let vEnc := enc_zigzag v in
  let lead0 := 64 - bitlen vEnc in
  let numBytes := Z.shiftr (639 - lead0 * 9) 6 in
  if numBytes <=? 1 then [byte_of vEnc]
  else
    let extra := numBytes - 1 in
    let buf := map (fun i => byte_of (Z.shiftr vEnc (8 * (extra - i)))) (zrange (Z.to_nat numBytes) 0) in
    match buf with
    | b0 :: r => Z.lor b0 (byte_of (Z.lnot (Z.shiftr 255 extra))) :: r
    | [] => []
    end.

Definition enc_vints (months days nanos : Z) : bytes := enc_vint months ++ enc_vint days ++ enc_vint nanos.

(* number of leading one bits of a byte: bits.LeadingZeros32(uint32(^b)) - 24 *)
Definition leading_ones (b : Z) : Z :=
  if b <? 128 then 0 else if b <? 192 then 1 else if b <? 224 then 2 else if b <? 240 then 3
  else if b <? 248 then 4 else if b <? 252 then 5 else if b <? 254 then 6 else if b <? 255 then 7 else 8.

(* decVint on the remaining bytes data[start:]; returns the value and the bytes after it *)
Definition dec_vint (rest : bytes) : option (Z * bytes) :=
  match rest with
  | [] => None
  | first :: tl =>
      if Z.land first 128 =? 0 then Some (dec_zigzag first, tl)
      else
        let numBytes := leading_ones first in
        let ret0 := Z.land first (Z.shiftr 255 numBytes) in
        if (Z.of_nat (length rest) <? numBytes + 1) then None
        else
          let ext := firstn (Z.to_nat numBytes) tl in
          let ret := fold_left (fun acc b => wrap 64 (Z.lor (Z.shiftl acc 8) b)) ext ret0 in
          Some (dec_zigzag ret, skipn (Z.to_nat numBytes) tl)
  end.

Definition dec_vints (data : bytes) : option (Z * Z * Z) :=
  match dec_vint data with
  | None => None
  | Some (month, r1) =>
      match dec_vint r1 with
      | None => None
      | Some (days, r2) =>
          match dec_vint r2 with
          | None => None
          | Some (nanos, _) => Some (signed 32 month, signed 32 days, nanos)
          end
      end
  end.

(* ---- floats: the float32 -> float64 -> float32 trip of the reflect path quiets signalling NaNs - *)
Definition quiet32 (bits : Z) : Z :=
  if (Z.land (Z.shiftr bits 23) 255 =? 255) && nez (Z.land bits 8388607) 0 then Z.lor bits 4194304 else bits.

(* ---- time.Time helpers ------------------------------------------------------------------------ *)
Definition zero_time_sec : Z := -62135596800.          (* time.Time{}.Unix() *)
Definition time_is_zero (sec nsec : Z) : bool := (sec =? zero_time_sec) && (nsec =? 0).
(* int64(v.UTC().Unix()*1e3) + int64(v.UTC().Nanosecond()/1e6) *)
Definition time_millis (sec nsec : Z) : Z := signed 64 (signed 64 (sec * 1000) + nsec / 1000000).
(* time.Unix(sec, nsec): normalises nsec into [0, 1e9) *)
Definition norm_unix (sec nsec : Z) : Z * Z := (sec + nsec / 1000000000, nsec mod 1000000000).

(* ---- net.IP.To4 / To16 ------------------------------------------------------------------------- *)
Definition ip_to4 (b : bytes) : option bytes :=
  if (length b =? 4)%nat then Some b
  else if (length b =? 16)%nat && forallb (fun x => x =? 0) (firstn 10 b)
          && (nth 10 b 0 =? 255) && (nth 11 b 0 =? 255) then Some (skipn 12 b)
  else None.
Definition ip_to16 (b : bytes) : option bytes :=
  if (length b =? 4)%nat then Some ([0;0;0;0;0;0;0;0;0;0;255;255] ++ b)
  else if (length b =? 16)%nat then Some b else None.
(* ---- net.ParseIP (= netip.ParseAddr without zone, widened to 16 bytes) ----------------------------------------- *)
Definition hexv (c : Z) : option Z :=
  if (48 <=? c) && (c <=? 57) then Some (c - 48)
  else if (97 <=? c) && (c <=? 102) then Some (c - 87)
  else if (65 <=? c) && (c <=? 70) then Some (c - 55)
  else None.

(* parseIPv4Fields: exactly four decimal fields 0..255 separated by dots, no leading zeros, nothing else *)
Fixpoint v4_loop (s : bytes) (val : Z) (diglen : nat) (fields : list Z) : option (list Z) :=
  match s with
  | [] => if (diglen =? 0)%nat then None else if (length fields =? 3)%nat then Some (fields ++ [val]) else None
  | c :: r =>
      if (48 <=? c) && (c <=? 57) then
        (if (diglen =? 1)%nat && (val =? 0) then None
         else let v := val * 10 + (c - 48) in if 255 <? v then None else v4_loop r v (S diglen) fields)
      else if c =? 46 then
        (if (diglen =? 0)%nat then None else if (length fields =? 3)%nat then None else v4_loop r 0 0 (fields ++ [val]))
      else None
  end.

(* one colon-separated field: up to four hex digits; returns value, number of digits, the rest *)
Fixpoint hex_group (s : bytes) (acc : Z) (n : nat) : option (Z * nat * bytes) :=
  match s with
  | [] => Some (acc, n, [])
  | c :: r => match hexv c with
              | Some d => if (4 <=? n)%nat then None else hex_group r (acc * 16 + d) (S n)
              | None => Some (acc, n, s)
              end
  end.

(* parseIPv6 main loop: bytes written so far (acc, i of them), position of "::" if seen *)
Fixpoint v6_loop (fuel : nat) (s : bytes) (acc : bytes) (ell : option nat) : option (bytes * option nat) :=
  match fuel with
  | O => None
  | S fu =>
      if (16 <=? length acc)%nat then (match s with [] => Some (acc, ell) | _ => None end)
      else
        match hex_group s 0 0 with
        | None => None
        | Some (v, n, rest) =>
            if (n =? 0)%nat then None
            else
              match rest with
              | 46 :: _ =>
                  (* embedded IPv4 in the last four bytes *)
                  if (match ell with None => negb (length acc =? 12)%nat | Some _ => false end) then None
                  else if (16 <? length acc + 4)%nat then None
                  else match v4_loop s 0 0 [] with
                       | Some f => Some (acc ++ f, ell)
                       | None => None
                       end
              | [] => Some (acc ++ [v / 256; v mod 256], ell)
              | 58 :: [] => None
              | 58 :: 58 :: rest2 =>
                  (match ell with
                   | Some _ => None
                   | None => let acc' := acc ++ [v / 256; v mod 256] in
                             match rest2 with
                             | [] => Some (acc', Some (length acc'))
                             | _ => v6_loop fu rest2 acc' (Some (length acc'))
                             end
                   end)
              | 58 :: rest1 => v6_loop fu rest1 (acc ++ [v / 256; v mod 256]) ell
              | _ => None
              end
        end
  end.

Definition parse_v6 (s : bytes) : option bytes :=
  let start := match s with
               | 58 :: 58 :: r => Some (r, Some O)
               | _ => Some (s, None)
               end in
  match start with
  | Some ([], Some _) => Some (repeat 0 16)
  | Some (s', ell) =>
      match v6_loop 10 s' [] ell with
      | Some (acc, ell') =>
          if (length acc <? 16)%nat then
            match ell' with
            | None => None
            | Some e => Some (firstn e acc ++ repeat 0 (16 - length acc) ++ skipn e acc)
            end
          else match ell' with None => Some acc | Some _ => None end
      | None => None
      end
  | None => None
  end.

(* the first of '.', ':', '%' decides; a zone is not an IP for net.ParseIP *)
Fixpoint ip_kind (s : bytes) : Z :=
  match s with
  | [] => 0
  | c :: r => if c =? 46 then 4 else if c =? 58 then 6 else if c =? 37 then 0 else ip_kind r
  end.

Definition parse_ip (s : bytes) : option bytes :=
  if existsb (fun c => c =? 37) s then None
  else if ip_kind s =? 4 then option_map (fun f => [0;0;0;0;0;0;0;0;0;0;255;255] ++ f) (v4_loop s 0 0 [])
  else if ip_kind s =? 6 then parse_v6 s
  else None.

(* dotted decimal of a 4-byte address *)
Definition ipv4_string (b : bytes) : bytes :=
  match b with
  | [a; b1; c; d] => format_int a ++ [46] ++ format_int b1 ++ [46] ++ format_int c ++ [46] ++ format_int d
  | _ => []
  end.


(* net.IP.String for a 16-byte address that is not IPv4-mapped (netip.Addr.string6): lower-case hex
   groups without leading zeros, the leftmost longest run of at least two zero groups replaced by "::" *)
Fixpoint groups16 (b : bytes) : list Z :=
  match b with hi :: lo :: r => (hi * 256 + lo) :: groups16 r | _ => [] end.
Fixpoint zero_run (g : list Z) : nat :=
  match g with 0 :: r => S (zero_run r) | _ => O end.
Fixpoint best_run (g : list Z) (i : nat) (best : nat * nat) : nat * nat :=
  match g with
  | [] => best
  | _ :: r => let l := zero_run g in
              best_run r (S i) (if (2 <=? l)%nat && (snd best <? l)%nat then (i, l) else best)
  end.
Definition hexdigit (n : Z) : Z := if n <? 10 then 48 + n else 97 + (n - 10).
Definition hex16 (x : Z) : bytes :=
  if x <? 16 then [hexdigit x]
  else if x <? 256 then [hexdigit (x / 16); hexdigit (x mod 16)]
  else if x <? 4096 then [hexdigit (x / 256); hexdigit ((x / 16) mod 16); hexdigit (x mod 16)]
  else [hexdigit (x / 4096); hexdigit ((x / 256) mod 16); hexdigit ((x / 16) mod 16); hexdigit (x mod 16)].
(* skip: groups still inside the elided run; gap: the previous thing written was "::" *)
Fixpoint render6 (g : list Z) (i : nat) (zs zl : nat) (skip : nat) (gap : bool) : bytes :=
  match g with
  | [] => []
  | x :: r =>
      match skip with
      | S k => render6 r (S i) zs zl k gap
      | O => if (0 <? zl)%nat && (i =? zs)%nat then [58; 58] ++ render6 r (S i) zs zl (zl - 1) true
             else (if (0 <? i)%nat && negb gap then [58] else []) ++ hex16 x ++ render6 r (S i) zs zl O false
      end
  end.
Definition ipv6_string (b : bytes) : bytes :=
  let g := groups16 b in
  let '(zs, zl) := best_run g 0 (0, 0)%nat in
  render6 g 0 zs zl 0 false.

(* time.Time.Format("2006-01-02") of day number [days] (days since 1970-01-01, proleptic Gregorian):
   civil-from-days, year printed with at least 4 digits and a leading '-' when negative *)
Definition civil_of_days (days : Z) : Z * Z * Z :=
  let z := days + 719468 in
  let era := z / 146097 in
  let doe := z - era * 146097 in
  let yoe := (doe - doe / 1460 + doe / 36524 - doe / 146096) / 365 in
  let doy := doe - (365 * yoe + yoe / 4 - yoe / 100) in
  let mp := (5 * doy + 2) / 153 in
  let d := doy - (153 * mp + 2) / 5 + 1 in
  let m := if mp <? 10 then mp + 3 else mp - 9 in
  ((yoe + era * 400 + (if m <=? 2 then 1 else 0)), m, d).
Definition pad_int (w : nat) (v : Z) : bytes :=
  let ds := digits_fuel 20 (Z.abs v) [] in
  (if v <? 0 then [45] else []) ++ repeat 48 (w - length ds) ++ ds.
Definition date_string (days : Z) : bytes :=
  let '(y, m, d) := civil_of_days days in
  pad_int 4 y ++ [45] ++ pad_int 2 m ++ [45] ++ pad_int 2 d.

(* ================================================================================================
   Marshal: the per-type functions on a value whose pointers have been peeled (Marshal, 118-126)
   ================================================================================================ *)
Definition mres := res (option bytes).      (* Ok None = (nil, nil): CQL null *)
Definition some_bytes (b : bytes) : mres := Ok (Some b).

(* peel: nil pointer at any level -> None, otherwise the pointed-to non-pointer value *)
Fixpoint peel (g : gval) : option gval :=
  match g with
  | GPtr None => None
  | GPtr (Some v) => peel v
  | _ => Some g
  end.

(* time.Duration is a defined type with Kind Int64: outside the functions that name it in their type
   switch it takes the reflect path like any other named int64 *)
Definition as_named (g : gval) : gval := match g with GDur ns => GInt I64 true ns | _ => g end.

(* marshalVarchar (311-337) *)
Definition marshal_varchar (g : gval) : mres :=
  match g with
  | GUnset => Ok None
  | GStr _ s => some_bytes s                    (* string, or reflect Kind String *)
  | GBytes _ b => Ok b                          (* []byte (nil stays nil), or reflect slice of uint8 *)
  | GIP b => Ok (match b with [] => None | _ => Some b end)   (* net.IP is a slice of uint8; GIP [] is the nil IP *)
  | GNil => Ok None
  | _ => Err
  end.

(* marshalTinyInt (456-538) *)
Definition marshal_tinyint (g : gval) : mres :=
  match as_named g with
  | GUnset => Ok None
  | GInt k false v =>
      match k with
      | I8 | U8 => some_bytes [byte_of v]
      | I16 | IInt | I32 | I64 =>
          if (MaxInt8 <? v) || (v <? MinInt8) then Err else some_bytes [byte_of v]
      | U16 | UInt | U32 | U64 =>
          if MaxUint8 <? v then Err else some_bytes [byte_of v]
      end
  | GStr false s =>
      match parse_int s 8 with Some n => some_bytes [byte_of n] | None => Err end
  | GNil => Ok None
  | GInt k true v =>
      if is_signed k then (if (MaxInt8 <? v) || (v <? MinInt8) then Err else some_bytes [byte_of v])
      else (if MaxUint8 <? v then Err else some_bytes [byte_of v])
  | _ => Err
  end.

(* marshalSmallInt (378-454) *)
Definition marshal_smallint (g : gval) : mres :=
  match as_named g with
  | GUnset => Ok None
  | GInt k false v =>
      match k with
      | I16 | U16 | I8 | U8 => some_bytes (enc_short v)
      | IInt | I32 | I64 =>
          if (MaxInt16 <? v) || (v <? MinInt16) then Err else some_bytes (enc_short v)
      | UInt | U32 | U64 =>
          if MaxUint16 <? v then Err else some_bytes (enc_short v)
      end
  | GStr false s =>
      match parse_int s 16 with Some n => some_bytes (enc_short n) | None => Err end
  | GNil => Ok None
  | GInt k true v =>
      if is_signed k then (if (MaxInt16 <? v) || (v <? MinInt16) then Err else some_bytes (enc_short v))
      else (if MaxUint16 <? v then Err else some_bytes (enc_short v))
  | _ => Err
  end.

(* marshalInt (540-610); note the reflect path rejects unsigned values above MaxInt32, the typed
   uint/uint64 cases only above MaxUint32, and uint32 is not checked *)
Definition marshal_int (g : gval) : mres :=
  match as_named g with
  | GUnset => Ok None
  | GInt k false v =>
      match k with
      | IInt | I64 => if (MaxInt32 <? v) || (v <? MinInt32) then Err else some_bytes (enc_int v)
      | UInt | U64 => if MaxUint32 <? v then Err else some_bytes (enc_int v)
      | I32 | U32 | I16 | U16 | I8 | U8 => some_bytes (enc_int v)
      end
  | GStr false s =>
      match parse_int s 32 with Some n => some_bytes (enc_int n) | None => Err end
  | GNil => Ok None
  | GInt k true v =>
      if is_signed k then (if (MaxInt32 <? v) || (v <? MinInt32) then Err else some_bytes (enc_int v))
      else (if MaxInt32 <? v then Err else some_bytes (enc_int v))
  | _ => Err
  end.

(* marshalBigInt (644-700) *)
Definition marshal_bigint (g : gval) : mres :=
  match as_named g with
  | GUnset => Ok None
  | GInt k false v =>
      match k with
      | UInt => if MaxInt64 <? v then Err else some_bytes (enc_bigint v)
      | _ => some_bytes (enc_bigint v)
      end
  | GBig n => if (n <? - 2 ^ 63) || (MaxInt64 <? n) then Err else some_bytes (enc_bigint n)   (* big.Int.IsInt64 *)
  | GStr false s =>
      match parse_int s 64 with Some n => some_bytes (enc_bigint n) | None => Err end
  | GNil => Ok None
  | GInt k true v =>
      if is_signed k then some_bytes (enc_bigint v)
      else (if MaxInt64 <? v then Err else some_bytes (enc_bigint v))
  | _ => Err
  end.

(* the trim loop of marshalVarint (781-804) *)
Fixpoint varint_trim (l : bytes) : bytes :=
  match l with
  | b0 :: ((b1 :: _) as rest) =>
      if nez b0 0 && nez b0 255 then l
      else if (b0 =? 0) && nez b1 0 then (if Z.land b1 128 =? 0 then rest else l)
      else if (b0 =? 255) && nez b1 255 then (if 0 <? Z.land b1 128 then rest else l)
      else varint_trim rest
  | _ => l
  end.

(* marshalVarint (759-808) *)
Definition marshal_varint (g : gval) : mres :=
  match g with
  | GUnset => Ok None
  | GInt U64 false v =>
      if MaxInt64 <? v then some_bytes (varint_trim (0 :: enc_bigint v))
      else some_bytes (varint_trim (enc_bigint v))
  | GBig n => some_bytes (varint_trim (enc_bigint2c n))
  | _ => match marshal_bigint g with
         | Ok (Some b) => some_bytes (varint_trim b)
         | r => r
         end
  end.

(* marshalBool (1022-1042), marshalFloat (1079-1099), marshalDouble (1122-1140) *)
Definition marshal_bool (g : gval) : mres :=
  match g with
  | GUnset => Ok None | GNil => Ok None
  | GBool _ b => some_bytes [if b then 1 else 0]
  | _ => Err
  end.
Definition marshal_float (g : gval) : mres :=
  match g with
  | GUnset => Ok None | GNil => Ok None
  | GF32 false bits => some_bytes (enc_int bits)
  | GF32 true bits => some_bytes (enc_int (quiet32 bits))
  | _ => Err
  end.
Definition marshal_double (g : gval) : mres :=
  match g with
  | GUnset => Ok None | GNil => Ok None
  | GF64 _ bits => some_bytes (enc_bigint bits)
  | _ => Err
  end.

(* marshalDecimal (1163-1185) *)
Definition marshal_decimal (g : gval) : mres :=
  match g with
  | GNil => Ok None | GUnset => Ok None
  | GDec unscaled scale => some_bytes (enc_int scale ++ enc_bigint2c unscaled)
  | _ => Err
  end.

(* marshalTime (1243-1265), marshalTimestamp (1267-1293) *)
Definition marshal_time (g : gval) : mres :=
  match g with
  | GUnset => Ok None | GNil => Ok None
  | GInt I64 _ v => some_bytes (enc_bigint v)
  | GDur ns => some_bytes (enc_bigint ns)
  | _ => Err
  end.
Definition marshal_timestamp (g : gval) : mres :=
  match g with
  | GUnset => Ok None | GNil => Ok None
  | GInt I64 _ v => some_bytes (enc_bigint v)
  | GDur ns => some_bytes (enc_bigint ns)            (* reflect Kind Int64 *)
  | GTime sec nsec => if time_is_zero sec nsec then some_bytes [] else some_bytes (enc_bigint (time_millis sec nsec))
  | _ => Err
  end.

(* encDate: Go's truncating division corrected to floor, then the int32 range check *)
Definition enc_date (ts : Z) : mres :=
  let q := Z.quot ts K.millisecondsInADay in
  let days := if Z.rem ts K.millisecondsInADay <? 0 then q - 1 else q in
  if (days <? MinInt32) || (MaxInt32 <? days) then Err else some_bytes (enc_int (days + Z.shiftl 1 31)).
Definition marshal_date (g : gval) : mres :=
  match g with
  | GUnset => Ok None | GNil => Ok None
  | GInt I64 false v => enc_date v
  | GTime sec nsec => if time_is_zero sec nsec then some_bytes [] else enc_date (time_millis sec nsec)
  | GStr false [] => some_bytes []
  | _ => Err
  end.

(* marshalDuration: int64, time.Duration, gocql.Duration, and defined int64 types through reflect *)
Definition marshal_duration (g : gval) : mres :=
  match g with
  | GUnset => Ok None | GNil => Ok None
  | GInt I64 _ v => some_bytes (enc_vints 0 0 v)
  | GDur ns => some_bytes (enc_vints 0 0 ns)
  | GCqlDur m d n => some_bytes (enc_vints m d n)
  | _ => Err
  end.

(* marshalUUID (1848-1874) *)
Definition marshal_uuid (g : gval) : mres :=
  match g with
  | GUnset => Ok None | GNil => Ok None
  | GUUID b => some_bytes b
  | GArr16 b => some_bytes b
  | GBytes false b =>
      let v := match b with Some v => v | None => [] end in
      if (length v =? 16)%nat then Ok b else Err
  | GStr false s => match C19.Model.parse_uuid s with Some u => some_bytes u | None => Err end
  | _ => Err
  end.

(* marshalInet (1939-1969): a net.IP that is neither 4 nor 16 bytes long becomes (nil, nil) *)
Definition marshal_inet (g : gval) : mres :=
  match g with
  | GUnset => Ok None | GNil => Ok None
  | GIP b => match ip_to4 b with Some t => some_bytes t | None => Ok (ip_to16 b) end
  | GStr false s =>
      match parse_ip s with
      | Some b => match ip_to4 b with Some t => some_bytes t | None => Ok (ip_to16 b) end
      | None => Err
      end
  | _ => Err
  end.

(* scalar dispatch of Marshal (132-173) on the type id *)
Definition marshal_native (id : Z) (g : gval) : mres :=
  if (id =? K.TypeVarchar) || (id =? K.TypeAscii) || (id =? K.TypeBlob) || (id =? K.TypeText) then marshal_varchar g
  else if id =? K.TypeBoolean then marshal_bool g
  else if id =? K.TypeTinyInt then marshal_tinyint g
  else if id =? K.TypeSmallInt then marshal_smallint g
  else if id =? K.TypeInt then marshal_int g
  else if (id =? K.TypeBigInt) || (id =? K.TypeCounter) then marshal_bigint g
  else if id =? K.TypeFloat then marshal_float g
  else if id =? K.TypeDouble then marshal_double g
  else if id =? K.TypeDecimal then marshal_decimal g
  else if id =? K.TypeTime then marshal_time g
  else if id =? K.TypeTimestamp then marshal_timestamp g
  else if (id =? K.TypeUUID) || (id =? K.TypeTimeUUID) then marshal_uuid g
  else if id =? K.TypeVarint then marshal_varint g
  else if id =? K.TypeInet then marshal_inet g
  else if id =? K.TypeDate then marshal_date g
  else if id =? K.TypeDuration then marshal_duration g
  else Err.

(* ================================================================================================
   Unmarshal: per-type functions for a non-pointer target type holding its zero value
   ================================================================================================ *)
Definition ures := res gval.
Definition odata := option bytes.            (* None = nil data (CQL null) *)
Definition bytes_of (d : odata) : bytes := match d with Some b => b | None => [] end.

(* unmarshalVarchar (339-376) *)
Definition unmarshal_varchar (d : odata) (t : gty) : ures :=
  match t with
  | YStr n => Ok (GStr n (bytes_of d))
  | YBytes false =>
      (* append of data to the zero-length prefix of a nil target slice: empty data leaves nil *)
      match d with Some (x :: r) => Ok (GBytes false (Some (x :: r))) | _ => Ok (GBytes false None) end
  | YBytes true => Ok (GBytes true d)
  | YIP => Ok (GIP (bytes_of d))                (* net.IP: reflect slice of uint8 *)
  | _ => Err
  end.

(* unmarshalIntlike (810-1010): the typed switch and the reflect switch agree case by case, so the
   target's [named] flag does not matter for integer kinds; id is info.Type() *)
Definition intlike_int (id : Z) (v : Z) (k : ikind) : res Z :=
  let u := wrap 64 v in
  match k with
  | IInt | I64 => Ok v
  | UInt | U64 =>
      if id =? K.TypeInt then Ok (Z.land u 4294967295)
      else if id =? K.TypeSmallInt then Ok (Z.land u 65535)
      else if id =? K.TypeTinyInt then Ok (Z.land u 255)
      else Ok u
  | I32 => if (v <? MinInt32) || (MaxInt32 <? v) then Err else Ok v
  | U32 =>
      if id =? K.TypeInt then Ok (Z.land (wrap 32 v) 4294967295)
      else if id =? K.TypeSmallInt then Ok (Z.land (wrap 32 v) 65535)
      else if id =? K.TypeTinyInt then Ok (Z.land (wrap 32 v) 255)
      else if (v <? 0) || (MaxUint32 <? v) then Err else Ok (Z.land (wrap 32 v) 4294967295)
  | I16 => if (v <? MinInt16) || (MaxInt16 <? v) then Err else Ok v
  | U16 =>
      if id =? K.TypeSmallInt then Ok (Z.land (wrap 16 v) 65535)
      else if id =? K.TypeTinyInt then Ok (Z.land (wrap 16 v) 255)
      else if (v <? 0) || (MaxUint16 <? v) then Err else Ok (Z.land (wrap 16 v) 65535)
  | I8 => if (v <? MinInt8) || (MaxInt8 <? v) then Err else Ok v
  | U8 =>
      if nez id K.TypeTinyInt && ((v <? 0) || (MaxUint8 <? v)) then Err else Ok (Z.land (wrap 8 v) 255)
  end.

Definition unmarshal_intlike (id : Z) (v : Z) (data : bytes) (t : gty) : ures :=
  match t with
  | YInt k n => rmap (GInt k n) (intlike_int id v k)
  | YDur => Ok (GDur v)                              (* reflect Kind Int64 *)
  | YBig => Ok (GBig (dec_bigint2c data))
  | YStr false => Ok (GStr false (format_int v))
  | _ => Err
  end.

(* unmarshalVarint (737-757) *)
Definition unmarshal_varint (id : Z) (d : odata) (t : gty) : ures :=
  let data := bytes_of d in
  match t with
  | YBig => unmarshal_intlike id 0 data t
  | _ =>
      let special := match t, data with
                     | YInt U64 false, 0 :: r => if (length data =? 9)%nat then Some (be_val r) else None
                     | _, _ => None
                     end in
      match special with
      | Some u => Ok (GInt U64 false u)
      | None =>
          if (8 <? length data)%nat then Err
          else
            let v0 := signed 64 (be_val data) in
            let v := if (0 <? length data)%nat && (length data <? 8)%nat && (0 <? Z.land (hd 0 data) 128)
                     then signed 64 (v0 - Z.shiftl 1 (Z.of_nat (length data) * 8)) else v0 in
            unmarshal_intlike id v data t
      end
  end.

(* unmarshalBool / Float / Double / Decimal / Time / Timestamp / Date / Duration / UUID / TimeUUID / Inet *)
Definition dec_bool (v : bytes) : bool := match v with [] => false | b :: _ => nez b 0 end.

Definition unmarshal_bool (d : odata) (t : gty) : ures :=
  match t with YBool n => Ok (GBool n (dec_bool (bytes_of d))) | _ => Err end.
Definition unmarshal_float (d : odata) (t : gty) : ures :=
  match t with
  | YF32 false => Ok (GF32 false (wrap 32 (dec_int (bytes_of d))))
  | YF32 true => Ok (GF32 true (quiet32 (wrap 32 (dec_int (bytes_of d)))))
  | _ => Err
  end.
Definition unmarshal_double (d : odata) (t : gty) : ures :=
  match t with YF64 n => Ok (GF64 n (wrap 64 (dec_bigint (bytes_of d)))) | _ => Err end.

Definition unmarshal_decimal (d : odata) (t : gty) : ures :=
  match t with
  | YDec => let data := bytes_of d in
            if (length data =? 0)%nat then Ok (GDec 0 0)
            else if (length data <? 4)%nat then Err
            else Ok (GDec (dec_bigint2c (skipn 4 data)) (dec_int (firstn 4 data)))
  | _ => Err
  end.

Definition unmarshal_time (d : odata) (t : gty) : ures :=
  match t with
  | YInt I64 n => Ok (GInt I64 n (dec_bigint (bytes_of d)))
  | YDur => Ok (GDur (dec_bigint (bytes_of d)))
  | _ => Err
  end.

Definition unmarshal_timestamp (d : odata) (t : gty) : ures :=
  match t with
  | YInt I64 n => Ok (GInt I64 n (dec_bigint (bytes_of d)))
  | YDur => Ok (GDur (dec_bigint (bytes_of d)))
  | YTime =>
      let data := bytes_of d in
      match data with
      | [] => Ok (GTime zero_time_sec 0)
      | _ => let x := dec_bigint data in
             let sec := Z.quot x 1000 in
             let nsec := (x - sec * 1000) * 1000000 in
             let '(s, n) := norm_unix sec nsec in Ok (GTime s n)
      end
  | _ => Err
  end.

(* one to three bytes are an error; bytes after the fourth are ignored *)
Definition unmarshal_date (d : odata) (t : gty) : ures :=
  match t with
  | YTime =>
      let data := bytes_of d in
      match data with
      | [] => Ok (GTime zero_time_sec 0)
      | _ => if (length data <? 4)%nat then Err
             else let cur := be_val (firstn 4 data) in
                  let ts := signed 64 ((cur - Z.shiftl 1 31) * K.millisecondsInADay) in
                  (* time.UnixMilli *)
                  Ok (GTime (ts / 1000) ((ts mod 1000) * 1000000))
      end
  | YStr false =>
      let data := bytes_of d in
      match data with
      | [] => Ok (GStr false [])
      | _ => if (length data <? 4)%nat then Err
             else let cur := be_val (firstn 4 data) in
                  let ts := signed 64 ((cur - Z.shiftl 1 31) * K.millisecondsInADay) in
                  Ok (GStr false (date_string (ts / K.millisecondsInADay)))
      end
  | _ => Err
  end.

Definition unmarshal_duration (d : odata) (t : gty) : ures :=
  match t with
  | YCqlDur =>
      match bytes_of d with
      | [] => Ok (GCqlDur 0 0 0)
      | data => match dec_vints data with
                | Some (m, dd, n) => Ok (GCqlDur m dd n)
                | None => Err
                end
      end
  | _ => Err
  end.

Definition zeros16 : bytes := repeat 0 16.

Definition unmarshal_uuid (d : odata) (t : gty) : ures :=
  let data := bytes_of d in
  match data with
  | [] => match t with
          | YStr false => Ok (GStr false [])
          | YBytes false => Ok (GBytes false None)
          | YUUID => Ok (GUUID zeros16)
          | YArr16 => Ok (GArr16 zeros16)
          | _ => Err
          end
  | _ => if negb (length data =? 16)%nat then Err
         else match t with
              | YArr16 => Ok (GArr16 data)
              | YUUID => Ok (GUUID data)
              | YStr false => Ok (GStr false (C19.Model.to_string data))
              | YBytes false => Ok (GBytes false (Some data))
              | _ => Err
              end
  end.

Definition unmarshal_timeuuid (d : odata) (t : gty) : ures :=
  match t with
  | YTime =>
      let data := bytes_of d in
      if (length data =? 0)%nat then Ok (GTime zero_time_sec 0)
      else if negb (length data =? 16)%nat then Err
      else match C19.Model.to_time data with
           | Some (s, n) => Ok (GTime s n)
           | None => Err                          (* version <> 1 *)
           end
  | _ => unmarshal_uuid d t
  end.

Definition unmarshal_inet (d : odata) (t : gty) : ures :=
  let data := bytes_of d in
  match t with
  | YIP => if (length data =? 0)%nat then Ok (GIP [])
           else if (length data =? 4)%nat || (length data =? 16)%nat
           then match ip_to4 data with Some v4 => Ok (GIP v4) | None => Ok (GIP data) end
           else Err
  | YStr false =>
      match data with
      | [] => Ok (GStr false [])
      | _ => match ip_to4 data with
             | Some v4 => Ok (GStr false (ipv4_string v4))
             | None => if (length data =? 16)%nat then Ok (GStr false (ipv6_string data))
                       else (* net.IP.String of a slice that is neither 4 nor 16 bytes long: "?" and the bytes in hex *)
                         Ok (GStr false (63 :: flat_map (fun b => [hexdigit (b / 16); hexdigit (b mod 16)]) data))
             end
      end
  | _ => Err
  end.

(* scalar dispatch of Unmarshal (234-277) *)
Definition unmarshal_native (id : Z) (d : odata) (t : gty) : ures :=
  if (id =? K.TypeVarchar) || (id =? K.TypeAscii) || (id =? K.TypeBlob) || (id =? K.TypeText) then unmarshal_varchar d t
  else if id =? K.TypeBoolean then unmarshal_bool d t
  else if id =? K.TypeInt then unmarshal_intlike id (dec_int (bytes_of d)) (bytes_of d) t
  else if (id =? K.TypeBigInt) || (id =? K.TypeCounter) then unmarshal_intlike id (dec_bigint (bytes_of d)) (bytes_of d) t
  else if id =? K.TypeVarint then unmarshal_varint id d t
  else if id =? K.TypeSmallInt then unmarshal_intlike id (dec_short (bytes_of d)) (bytes_of d) t
  else if id =? K.TypeTinyInt then unmarshal_intlike id (dec_tiny (bytes_of d)) (bytes_of d) t
  else if id =? K.TypeFloat then unmarshal_float d t
  else if id =? K.TypeDouble then unmarshal_double d t
  else if id =? K.TypeDecimal then unmarshal_decimal d t
  else if id =? K.TypeTime then unmarshal_time d t
  else if id =? K.TypeTimestamp then unmarshal_timestamp d t
  else if id =? K.TypeTimeUUID then unmarshal_timeuuid d t
  else if id =? K.TypeUUID then unmarshal_uuid d t
  else if id =? K.TypeInet then unmarshal_inet d t
  else if id =? K.TypeDate then unmarshal_date d t
  else if id =? K.TypeDuration then unmarshal_duration d t
  else Err.

(* ================================================================================================
   Collections, tuples, UDTs: framing
   ================================================================================================ *)
Definition blen (b : bytes) : Z := Z.of_nat (length b).

(* writeCollectionSize (1553-1573) *)
Definition write_size (pv n : Z) : res bytes :=
  if K.protoVersion2 <? pv then (if MaxInt32 <? n then Err else Ok (enc_int n))
  else (if MaxUint16 <? n then Err else Ok (enc_short n)).

(* the loop body shared by marshalList and marshalMap: Marshal, length (-1 for nil on v3+), bytes *)
Definition marshal_item (pv : Z) (f : gval -> mres) (x : gval) : res bytes :=
  rbind (f x) (fun item =>
    let itemLen := match item with
                   | None => if K.protoVersion2 <? pv then -1 else 0
                   | Some b => blen b
                   end in
    rbind (write_size pv itemLen) (fun sz => Ok (sz ++ bytes_of item))).

Fixpoint marshal_items (pv : Z) (f : gval -> mres) (l : list gval) : res bytes :=
  match l with
  | [] => Ok []
  | x :: r => rbind (marshal_item pv f x) (fun a => rbind (marshal_items pv f r) (fun b => Ok (a ++ b)))
  end.

Fixpoint marshal_entries (pv : Z) (fk fv : gval -> mres) (l : list (gval * gval)) : res bytes :=
  match l with
  | [] => Ok []
  | (k, v) :: r =>
      rbind (marshal_item pv fk k) (fun a => rbind (marshal_item pv fv v) (fun b =>
      rbind (marshal_entries pv fk fv r) (fun c => Ok (a ++ b ++ c))))
  end.

(* what marshalList iterates over: slices, arrays, []interface{}, byte slices, map[X]struct{} keys *)
Inductive aslist := LNilSlice | LItems (l : list gval) | LNot.
Definition as_list (g : gval) : aslist :=
  match g with
  | GSlice None => LNilSlice
  | GSlice (Some l) => LItems l
  | GArray l => LItems l
  | GIfaces l => LItems l
  | GBytes _ None => LNilSlice
  | GBytes _ (Some b) => LItems (map (GInt U8 false) b)
  | GSetMap keys => LItems keys
  | _ => LNot
  end.

(* marshalList (1575-1631) *)
Definition marshal_list (pv : Z) (f : gval -> mres) (g : gval) : mres :=
  match g with
  | GNil => Ok None | GUnset => Ok None
  | _ => match as_list g with
         | LNilSlice => Ok None
         | LItems l => rbind (write_size pv (Z.of_nat (length l))) (fun h =>
                       rbind (marshal_items pv f l) (fun r => Ok (Some (h ++ r))))
         | LNot => Err
         end
  end.

(* marshalMap (1712-1773) *)
Definition marshal_map (pv : Z) (fk fv : gval -> mres) (g : gval) : mres :=
  match g with
  | GNil => Ok None | GUnset => Ok None
  | GMap None => Ok None
  | GMap (Some l) => rbind (write_size pv (Z.of_nat (length l))) (fun h =>
                     rbind (marshal_entries pv fk fv l) (fun r => Ok (Some (h ++ r))))
  | GSetMap [] => rbind (write_size pv 0) (fun h => Ok (Some h))
  | GSetMap _ => Err      (* values are struct{}: marshalling them fails for every CQL value type modelled *)
  | GStrMap None => Ok None
  | GStrMap (Some l) =>      (* map[string]interface{} is a map like any other here *)
      rbind (write_size pv (Z.of_nat (length l))) (fun h =>
      rbind (marshal_entries pv fk fv (map (fun nv => (GStr false (fst nv), snd nv)) l)) (fun r => Ok (Some (h ++ r))))
  | _ => Err
  end.

(* appendBytes (frame.go:1943) *)
Definition append_bytes (d : option bytes) : bytes :=
  match d with None => enc_int (-1) | Some b => enc_int (blen b) ++ b end.

(* marshalTuple: one component; a component that Marshal turns into nil is written as null too *)
Definition tuple_elem (iface : bool) (f : gval -> mres) (x : gval) : res bytes :=
  let null := if iface then match x with GNil => true | _ => false end
              else match x with GPtr None => true | _ => false end in
  if null then Ok (enc_int (-1))
  else rbind (f x) (fun data => Ok (append_bytes data)).

Fixpoint tuple_items (iface : bool) (fs : list (gval -> mres)) (vs : list gval) : res bytes :=
  match fs, vs with
  | f :: fs', x :: vs' => rbind (tuple_elem iface f x) (fun a => rbind (tuple_items iface fs' vs') (fun b => Ok (a ++ b)))
  | _, _ => Ok []
  end.

Definition marshal_tuple (fs : list (gval -> mres)) (g : gval) : mres :=
  let go iface vs := if (length vs =? length fs)%nat then rmap Some (tuple_items iface fs vs) else Err in
  match g with
  | GUnset => Err
  | GIfaces l => go true l
  | GStruct fields => go false (map snd fields)
  | GSlice (Some l) => go false l
  | GArray l => go false l
  | GNil => Ok None          (* value == nil *)
  | _ => Err
  end.

Fixpoint assoc {A} (name : bytes) (l : list (bytes * A)) : option A :=
  match l with
  | [] => None
  | (n, v) :: r => if zlist_eqb n name then Some v else assoc name r
  end.

(* struct field for a UDT element name: the cql tag map (later fields overwrite earlier ones), then
   FieldByName *)
Fixpoint by_tag {A} (name : bytes) (fs : list (bytes * bytes * A)) (acc : option A) : option A :=
  match fs with
  | [] => acc
  | (_, tag, v) :: r => by_tag name r (if negb (zlist_eqb tag []) && zlist_eqb tag name then Some v else acc)
  end.
Fixpoint by_name {A} (name : bytes) (fs : list (bytes * bytes * A)) : option A :=
  match fs with
  | [] => None
  | (n, _, v) :: r => if zlist_eqb n name then Some v else by_name name r
  end.
Definition struct_field {A} (name : bytes) (fs : list (bytes * bytes * A)) : option A :=
  match by_tag name fs None with Some v => Some v | None => by_name name fs end.

(* marshalUDT (2233-2316) *)
Fixpoint udt_items (look : bytes -> option gval) (fs : list (bytes * (gval -> mres))) : res bytes :=
  match fs with
  | [] => Ok []
  | (name, f) :: r =>
      rbind (match look name with Some v => f v | None => Ok None end) (fun data =>
      rbind (udt_items look r) (fun b => Ok (append_bytes data ++ b)))
  end.

Definition marshal_udt (fs : list (bytes * (gval -> mres))) (g : gval) : mres :=
  match g with
  | GUnset => Err
  | GStrMap m => rmap Some (udt_items (fun name => assoc name (match m with Some l => l | None => [] end)) fs)
  | GStruct fields => rmap Some (udt_items (fun name => struct_field name fields) fs)
  | _ => Err
  end.

(* Marshal (113-182) *)
Fixpoint marshal (pv : Z) (ty : cqlty) (g : gval) {struct ty} : mres :=
  match peel g with
  | None => Ok None
  | Some v =>
      match ty with
      | TNative id => marshal_native id v
      | TList e | TSet e => marshal_list pv (marshal pv e) v
      | TMap k e => marshal_map pv (marshal pv k) (marshal pv e) v
      | TTuple es => marshal_tuple (map (marshal pv) es) v
      | TUdt fs => marshal_udt (map (fun nf => (fst nf, marshal pv (snd nf))) fs) v
      end
  end.

(* ---- Unmarshal ----------------------------------------------------------------------------------- *)
(* reflect.Type.Comparable for the types goType produces *)
Definition comparable (t : gty) : bool :=
  match t with YBytes _ | YSlice _ | YMap _ _ | YStrMap | YIfaces _ => false | _ => true end.

(* goType (helpers.go) *)
Fixpoint gotype (ty : cqlty) : option gty :=
  match ty with
  | TNative id =>
      if (id =? K.TypeVarchar) || (id =? K.TypeAscii) || (id =? K.TypeInet) || (id =? K.TypeText) then Some (YStr false)
      else if (id =? K.TypeBigInt) || (id =? K.TypeCounter) then Some (YInt I64 false)
      else if id =? K.TypeTime then Some YDur
      else if id =? K.TypeTimestamp then Some YTime
      else if id =? K.TypeBlob then Some (YBytes false)
      else if id =? K.TypeBoolean then Some (YBool false)
      else if id =? K.TypeFloat then Some (YF32 false)
      else if id =? K.TypeDouble then Some (YF64 false)
      else if id =? K.TypeInt then Some (YInt IInt false)
      else if id =? K.TypeSmallInt then Some (YInt I16 false)
      else if id =? K.TypeTinyInt then Some (YInt I8 false)
      else if id =? K.TypeDecimal then Some (YPtr YDec)
      else if (id =? K.TypeUUID) || (id =? K.TypeTimeUUID) then Some YUUID
      else if id =? K.TypeVarint then Some (YPtr YBig)
      else if id =? K.TypeDate then Some YTime
      else if id =? K.TypeDuration then Some YCqlDur
      else None
  | TList e | TSet e => option_map YSlice (gotype e)
  | TMap k v => match gotype k, gotype v with
               | Some a, Some b => if comparable a then Some (YMap a b) else None   (* reflect.Type.Comparable of the key *)
               | _, _ => None
               end
  | TTuple _ => Some (YSlice YIface)
  | TUdt _ => Some YStrMap
  end.

(* the zero value of a target type *)
Fixpoint zero_of (t : gty) : gval :=
  match t with
  | YInt k n => GInt k n 0 | YStr n => GStr n [] | YBytes n => GBytes n None | YBool n => GBool n false
  | YF32 n => GF32 n 0 | YF64 n => GF64 n 0 | YBig => GBig 0 | YDec => GDec 0 0
  | YTime => GTime zero_time_sec 0 | YDur => GDur 0 | YCqlDur => GCqlDur 0 0 0
  | YUUID => GUUID zeros16 | YArr16 => GArr16 zeros16 | YIP => GIP []
  | YSlice _ => GSlice None | YArray n e => GArray (repeat (zero_of e) n) | YMap _ _ => GMap None
  | YIfaces ts => GIfaces (map zero_of ts)
  | YStrMap => GStrMap None
  | YStruct fs => GStruct (map (fun f => (fst (fst f), snd (fst f), zero_of (snd f))) fs)
  | YPtr _ => GPtr None
  | YIface => GNil
  end.

(* isNullableValue / unmarshalNullable (288-309): pointer targets *)
Fixpoint ptr_wrap (t : gty) (d : odata) (core : gty -> ures) : ures :=
  match t with
  | YPtr e => match d with
              | None => Ok (GPtr None)
              | Some _ => rmap (fun v => GPtr (Some v)) (ptr_wrap e d core)
              end
  | _ => core t
  end.

(* readCollectionSize (1633-1648) *)
Definition read_size (pv : Z) (data : bytes) : res (Z * bytes) :=
  if K.protoVersion2 <? pv then
    (if (length data <? 4)%nat then Err else Ok (dec_int (firstn 4 data), skipn 4 data))
  else
    (if (length data <? 2)%nat then Err
     else Ok (Z.lor (Z.shiftl (nth 0 data 0) 8) (nth 1 data 0), skipn 2 data)).

(* one length-prefixed element of a list / map *)
Definition read_elem (pv : Z) (data : bytes) : res (odata * bytes) :=
  rbind (read_size pv data) (fun mr =>
    let '(m, rest) := mr in
    if 0 <=? m then
      (if blen rest <? m then Err else Ok (Some (firstn (Z.to_nat m) rest), skipn (Z.to_nat m) rest))
    else Ok (None, rest)).

Fixpoint list_loop (fuel : nat) (pv : Z) (f : odata -> ures) (n : Z) (data : bytes) : res (list gval) :=
  if n <=? 0 then Ok []
  else match fuel with
       | O => Fuel
       | S fu => rbind (read_elem pv data) (fun dr =>
                 rbind (f (fst dr)) (fun v =>
                 rbind (list_loop fu pv f (n - 1) (snd dr)) (fun vs => Ok (v :: vs))))
       end.

(* structural equality of Go values (used for map keys) *)
Fixpoint gval_eqb (a b : gval) {struct a} : bool :=
  let fix leq (x y : list gval) {struct x} : bool :=
    match x, y with
    | [], [] => true
    | p :: x', q :: y' => gval_eqb p q && leq x' y'
    | _, _ => false
    end in
  let fix peq (x y : list (gval * gval)) {struct x} : bool :=
    match x, y with
    | [], [] => true
    | (p1, p2) :: x', (q1, q2) :: y' => gval_eqb p1 q1 && gval_eqb p2 q2 && peq x' y'
    | _, _ => false
    end in
  let fix seq_ (x y : list (bytes * gval)) {struct x} : bool :=
    match x, y with
    | [], [] => true
    | (n1, p) :: x', (n2, q) :: y' => zlist_eqb n1 n2 && gval_eqb p q && seq_ x' y'
    | _, _ => false
    end in
  let fix feq (x y : list (bytes * bytes * gval)) {struct x} : bool :=
    match x, y with
    | [], [] => true
    | (n1, t1, p) :: x', (n2, t2, q) :: y' => zlist_eqb n1 n2 && zlist_eqb t1 t2 && gval_eqb p q && feq x' y'
    | _, _ => false
    end in
  match a, b with
  | GNil, GNil => true | GUnset, GUnset => true
  | GInt k1 n1 z1, GInt k2 n2 z2 =>
      (match k1, k2 with
       | I8, I8 | I16, I16 | I32, I32 | I64, I64 | IInt, IInt | U8, U8 | U16, U16 | U32, U32 | U64, U64 | UInt, UInt => true
       | _, _ => false end) && Bool.eqb n1 n2 && (z1 =? z2)
  | GStr n1 s1, GStr n2 s2 => Bool.eqb n1 n2 && zlist_eqb s1 s2
  | GBytes n1 b1, GBytes n2 b2 => Bool.eqb n1 n2 && opt_eqb zlist_eqb b1 b2
  | GBool n1 b1, GBool n2 b2 => Bool.eqb n1 n2 && Bool.eqb b1 b2
  | GF32 n1 b1, GF32 n2 b2 => Bool.eqb n1 n2 && (b1 =? b2)
  | GF64 n1 b1, GF64 n2 b2 => Bool.eqb n1 n2 && (b1 =? b2)
  | GBig z1, GBig z2 => z1 =? z2
  | GDec u1 s1, GDec u2 s2 => (u1 =? u2) && (s1 =? s2)
  | GTime s1 n1, GTime s2 n2 => (s1 =? s2) && (n1 =? n2)
  | GDur n1, GDur n2 => n1 =? n2
  | GCqlDur m1 d1 n1, GCqlDur m2 d2 n2 => (m1 =? m2) && (d1 =? d2) && (n1 =? n2)
  | GUUID b1, GUUID b2 => zlist_eqb b1 b2
  | GArr16 b1, GArr16 b2 => zlist_eqb b1 b2
  | GIP b1, GIP b2 => zlist_eqb b1 b2
  | GSlice None, GSlice None => true
  | GSlice (Some l1), GSlice (Some l2) => leq l1 l2
  | GIfaces l1, GIfaces l2 => leq l1 l2
  | GArray l1, GArray l2 => leq l1 l2
  | GMap None, GMap None => true
  | GMap (Some l1), GMap (Some l2) => peq l1 l2
  | GSetMap l1, GSetMap l2 => leq l1 l2
  | GStrMap None, GStrMap None => true
  | GStrMap (Some l1), GStrMap (Some l2) => seq_ l1 l2
  | GStruct f1, GStruct f2 => feq f1 f2
  | GPtr None, GPtr None => true
  | GPtr (Some p), GPtr (Some q) => gval_eqb p q
  | _, _ => false
  end.

(* rv.SetMapIndex: an existing equal key is overwritten in place, a new key is added *)
Fixpoint map_insert (k v : gval) (l : list (gval * gval)) : list (gval * gval) :=
  match l with
  | [] => [(k, v)]
  | (k', v') :: r => if gval_eqb k' k then (k', v) :: r else (k', v') :: map_insert k v r
  end.

Fixpoint map_loop (fuel : nat) (pv : Z) (fk fv : odata -> ures) (n : Z) (data : bytes)
         (acc : list (gval * gval)) : res (list (gval * gval)) :=
  if n <=? 0 then Ok acc
  else match fuel with
       | O => Fuel
       | S fu => rbind (read_elem pv data) (fun kr =>
                 rbind (fk (fst kr)) (fun k =>
                 rbind (read_elem pv (snd kr)) (fun vr =>
                 rbind (fv (fst vr)) (fun v =>
                 map_loop fu pv fk fv (n - 1) (snd vr) (map_insert k v acc)))))
       end.

(* readBytes, called only when at least 4 bytes remain: a component longer than the bytes left is an
   UnmarshalError *)
Definition read_bytes (data : bytes) : res (odata * bytes) :=
  let size := dec_int (firstn 4 data) in
  let p := skipn 4 data in
  if size <? 0 then Ok (None, p)
  else if blen p <? size then Err
  else Ok (Some (firstn (Z.to_nat size) p), skipn (Z.to_nat size) p).

(* the tuple readers take a component only when 4 bytes remain, otherwise the component is nil *)
Definition tuple_next (data : bytes) : res (odata * bytes) :=
  if (4 <=? length data)%nat then read_bytes data else Ok (None, data).

(* unmarshalTuple into []interface{} (2114-2127): v[i] indexes the caller's slice *)
Fixpoint tuple_ifaces (fs : list (odata -> gty -> ures)) (ts : list gty) (data : bytes) : res (list gval) :=
  match fs with
  | [] => Ok []
  | f :: fs' =>
      rbind (tuple_next data) (fun pr =>
      match ts with
      | [] => Panic
      | t :: ts' => rbind (ptr_wrap t (fst pr) (f (fst pr))) (fun v =>
                    rbind (tuple_ifaces fs' ts' (snd pr)) (fun vs => Ok (v :: vs)))
      end)
  end.

(* unmarshalTuple into struct / slice / array (2140-2208): each component is decoded into a fresh value
   of goType(elem) and stored; the field is assumed to have that type or be a pointer to it *)
Definition tuple_store (fieldty : gty) (p : odata) (v : gval) : gval :=
  match fieldty with
  | YPtr _ => match p with Some _ => GPtr (Some v) | None => GPtr None end
  | _ => v
  end.

Fixpoint tuple_fields (fs : list (option gty * (odata -> gty -> ures))) (fts : list gty) (data : bytes)
  : res (list gval) :=
  match fs, fts with
  | (gt, f) :: fs', ft :: fts' =>
      rbind (tuple_next data) (fun pr =>
      match gt with
      | None => Err
      | Some g => rbind (ptr_wrap g (fst pr) (f (fst pr))) (fun v =>
                  rbind (tuple_fields fs' fts' (snd pr)) (fun vs => Ok (tuple_store ft (fst pr) v :: vs)))
      end)
  | _, _ => Ok []
  end.

Definition unmarshal_tuple (fs : list (option gty * (odata -> gty -> ures))) (d : odata) (t : gty) : ures :=
  let data := bytes_of d in
  let n := length fs in
  match t with
  | YIfaces ts => rmap GIfaces (tuple_ifaces (map snd fs) ts data)
  | YStruct sfs =>
      if negb (length sfs =? n)%nat then Err
      else rmap (fun vs => GStruct (map (fun fv => (fst (fst (fst fv)), snd (fst (fst fv)), snd fv)) (combine sfs vs)))
                (tuple_fields fs (map snd sfs) data)
  | YArray k et =>
      if negb (k =? n)%nat then Err else rmap GArray (tuple_fields fs (repeat et n) data)
  | YSlice et => rmap (fun vs => GSlice (Some vs)) (tuple_fields fs (repeat et n) data)
  | _ => Err
  end.

(* unmarshalUDT into *map[string]interface{} (2341-2386) *)
Fixpoint udt_map_loop (fs : list (bytes * option gty * (odata -> gty -> ures))) (data : bytes)
         (acc : list (bytes * gval)) : res (list (bytes * gval)) :=
  match fs with
  | [] => Ok acc
  | (name, gt, f) :: fs' =>
      match data with
      | [] => Ok acc
      | _ => if (length data <? 4)%nat then Err
             else match gt with
                  | None => Err
                  | Some g =>
                      rbind (read_bytes data) (fun pr =>
                      rbind (ptr_wrap g (fst pr) (f (fst pr))) (fun v =>
                      udt_map_loop fs' (snd pr) (acc ++ [(name, v)])))
                  end
      end
  end.

(* store into the struct field selected for a UDT element name *)
Fixpoint set_by_tag (name : bytes) (v : gval) (fs : list (bytes * bytes * gval)) : list (bytes * bytes * gval) :=
  (* the last field whose tag matches *)
  match fs with
  | [] => []
  | (n, tag, x) :: r =>
      let later := match by_tag name r None with Some _ => true | None => false end in
      if negb later && negb (zlist_eqb tag []) && zlist_eqb tag name then (n, tag, v) :: r
      else (n, tag, x) :: set_by_tag name v r
  end.
Fixpoint set_by_name (name : bytes) (v : gval) (fs : list (bytes * bytes * gval)) : list (bytes * bytes * gval) :=
  match fs with
  | [] => []
  | (n, tag, x) :: r => if zlist_eqb n name then (n, tag, v) :: r else (n, tag, x) :: set_by_name name v r
  end.
Definition struct_set (name : bytes) (v : gval) (tys : list (bytes * bytes * gty)) (fs : list (bytes * bytes * gval)) :=
  match by_tag name tys None with
  | Some _ => set_by_tag name v fs
  | None => set_by_name name v fs
  end.

(* unmarshalUDT into a struct (2389-2449) *)
Fixpoint udt_struct_loop (fs : list (bytes * (odata -> gty -> ures))) (tys : list (bytes * bytes * gty))
         (data : bytes) (acc : list (bytes * bytes * gval)) : res (list (bytes * bytes * gval)) :=
  match fs with
  | [] => Ok acc
  | (name, f) :: fs' =>
      match data with
      | [] => Ok acc
      | _ => if (length data <? 4)%nat then Err
             else rbind (read_bytes data) (fun pr =>
                  match struct_field name tys with
                  | None => udt_struct_loop fs' tys (snd pr) acc
                  | Some ft => rbind (ptr_wrap ft (fst pr) (f (fst pr))) (fun v =>
                               udt_struct_loop fs' tys (snd pr) (struct_set name v tys acc))
                  end)
      end
  end.

Definition unmarshal_udt (fs : list (bytes * option gty * (odata -> gty -> ures))) (d : odata) (t : gty) : ures :=
  match t with
  | YStrMap =>
      match d with
      | None => Ok (GStrMap None)
      | Some data => rmap (fun l => GStrMap (Some l)) (udt_map_loop fs data [])
      end
  | YStruct tys =>
      let z := match zero_of (YStruct tys) with GStruct l => l | _ => [] end in
      match bytes_of d with
      | [] => Ok (GStruct z)
      | data => rmap GStruct (udt_struct_loop (map (fun x => (fst (fst x), snd x)) fs) tys data z)
      end
  | _ => Err
  end.

(* width of a collection size field: the second result of readCollectionSize *)
Definition size_width (pv : Z) : Z := if K.protoVersion2 <? pv then 4 else 2.

(* unmarshalList, unmarshalMap *)
Definition unmarshal_list (pv : Z) (f : odata -> gty -> ures) (d : odata) (t : gty) : ures :=
  let elem et := fun ed => ptr_wrap et ed (f ed) in
  match t with
  | YSlice et =>
      match d with
      | None => Ok (GSlice None)
      | Some data =>
          rbind (read_size pv data) (fun nr =>
            if fst nr <? 0 then Err                               (* negative list size *)
            else if blen (snd nr) / size_width pv <? fst nr then Err    (* more elements than size fields fit *)
            else rmap (fun vs => GSlice (Some vs)) (list_loop (S (length data)) pv (elem et) (fst nr) (snd nr)))
      end
  | YArray k et =>
      match d with
      | None => Err
      | Some data =>
          rbind (read_size pv data) (fun nr =>
            if fst nr <? 0 then Err
            else if blen (snd nr) / size_width pv <? fst nr then Err
            else if negb (Z.of_nat k =? fst nr) then Err
            else rmap GArray (list_loop (S (length data)) pv (elem et) (fst nr) (snd nr)))
      end
  | _ => Err
  end.

Definition unmarshal_map (pv : Z) (fk fv : odata -> gty -> ures) (d : odata) (t : gty) : ures :=
  match t with
  | YMap kt vt =>
      match d with
      | None => Ok (GMap None)
      | Some data =>
          rbind (read_size pv data) (fun nr =>
            if fst nr <? 0 then Err
            else if blen (snd nr) / (2 * size_width pv) <? fst nr then Err    (* more entries than size fields fit *)
            else rmap (fun l => GMap (Some l))
                   (map_loop (S (length data)) pv (fun kd => ptr_wrap kt kd (fk kd)) (fun vd => ptr_wrap vt vd (fv vd))
                             (fst nr) (snd nr) []))
      end
  | _ => Err
  end.

(* Unmarshal (225-286) on a non-pointer target type; pointer targets go through ptr_wrap *)
Fixpoint unmarshal_core (pv : Z) (ty : cqlty) (d : odata) (t : gty) {struct ty} : ures :=
  match ty with
  | TNative id => unmarshal_native id d t
  | TList e | TSet e => unmarshal_list pv (unmarshal_core pv e) d t
  | TMap k e => unmarshal_map pv (unmarshal_core pv k) (unmarshal_core pv e) d t
  | TTuple es => unmarshal_tuple (map (fun e => (gotype e, unmarshal_core pv e)) es) d t
  | TUdt fs => unmarshal_udt (map (fun nf => (fst nf, gotype (snd nf), unmarshal_core pv (snd nf))) fs) d t
  end.

Definition unmarshal (pv : Z) (ty : cqlty) (d : odata) (t : gty) : ures :=
  ptr_wrap t d (unmarshal_core pv ty d).
