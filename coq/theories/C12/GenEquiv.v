(* C12/GenEquiv.v -- the definitions that tools/go2coq generates from marshal.go on every run (Gen/Code.v,
   module GC) for the fixed-width integer codecs encInt/decInt, encShort/decShort, encBigInt/decBigInt and
   the zig-zag step of vints compute the same functions as the hand-written model C12/Model.v.  (Marshal /
   Unmarshal themselves switch on reflect types and interfaces: outside the translated subset, tied by the
   correspondence run.) *)
From GocqlV Require Import Lib.Base Lib.Bits Gen.Consts Gen.Code C12.Model.

Ltac same := lazymatch goal with |- ?a = ?b => first [constr_eq a b | fail 1 "generated code and model differ:" a "<>" b]; reflexivity end.

(* ---- encoders: every value of the parameter type (indeed every integer) ---------------------------- *)
Lemma gen_encInt_eq x : GC.encInt x = enc_int x.
Proof. unfold GC.encInt, enc_int, wrap, byte_of. change (2 ^ 8) with 256. same. Qed.

Lemma gen_encShort_eq x : GC.encShort x = enc_short x.
Proof. unfold GC.encShort, enc_short, wrap, byte_of. cbv zeta. cbn [repeat upd]. change (2 ^ 8) with 256. same. Qed.

Lemma gen_encBigInt_eq x : GC.encBigInt x = enc_bigint x.
Proof. unfold GC.encBigInt, enc_bigint, wrap, byte_of. change (2 ^ 8) with 256. same. Qed.

Lemma gen_encIntZigZag_eq n : GC.encIntZigZag n = enc_zigzag n.
Proof. unfold GC.encIntZigZag, enc_zigzag. same. Qed.

Lemma gen_decIntZigZag_eq n : GC.decIntZigZag n = dec_zigzag n.
Proof. unfold GC.decIntZigZag, dec_zigzag. same. Qed.

(* ---- decoders ---------------------------------------------------------------------------------------
   the code converts every byte to the result type before shifting (int32(x[0])<<24 wraps to a negative
   number when the top bit is set) and ORs the pieces; the model ORs the unsigned pieces and wraps once *)
Lemma pow2_pos k : 0 <= k -> 0 < 2 ^ k.
Proof. intros. apply Z.pow_pos_nonneg; lia. Qed.

Lemma signed_small w x : 0 < w -> 0 <= x < 2 ^ (w - 1) -> signed w x = x.
Proof.
  intros Hw Hx. unfold signed. assert (2 ^ w = 2 * 2 ^ (w - 1)) by (rewrite <- Z.pow_succ_r by lia; f_equal; lia).
  rewrite Z.mod_small by lia. destruct (Z.ltb_spec x (2 ^ (w - 1))); lia.
Qed.

Lemma top_byte_signed k a low : 0 <= k -> is_byte a -> 0 <= low < 2 ^ k ->
  Z.lor (signed (k + 8) (Z.shiftl a k)) low = signed (k + 8) (Z.lor (Z.shiftl a k) low).
Proof.
  intros Hk Ha Hlow. unfold is_byte in Ha. pose proof (pow2_pos k Hk) as HP.
  rewrite (lor_shiftl_add a low k Hk Hlow). rewrite Z.shiftl_mul_pow2 by lia.
  unfold signed. replace (k + 8 - 1) with (k + 7) by lia. rewrite !Z.pow_add_r by lia.
  change (2 ^ 8) with 256. change (2 ^ 7) with 128.
  rewrite (Z.mod_small (a * 2 ^ k)) by nia. rewrite (Z.mod_small (a * 2 ^ k + low)) by nia.
  destruct (Z_lt_le_dec a 128) as [Hs|Hs].
  - assert (H1 : a * 2 ^ k < 2 ^ k * 128) by nia.
    assert (H2 : a * 2 ^ k + low < 2 ^ k * 128) by (assert (a * 2 ^ k <= 127 * 2 ^ k) by nia; lia).
    apply Z.ltb_lt in H1, H2. rewrite H1, H2.
    rewrite <- (Z.shiftl_mul_pow2 a k) at 1 by lia. apply lor_shiftl_add; assumption.
  - assert (H1 : 2 ^ k * 128 <= a * 2 ^ k) by nia.
    assert (H2 : 2 ^ k * 128 <= a * 2 ^ k + low) by lia.
    apply Z.ltb_ge in H1, H2. rewrite H1, H2.
    rewrite (lor_disjoint_mod k (a * 2 ^ k - 2 ^ k * 256) low Hk); [lia| |exact Hlow].
    replace (a * 2 ^ k - 2 ^ k * 256) with ((a - 256) * 2 ^ k) by lia. apply Z_mod_mult.
Qed.

Lemma lor_small n a b : 0 <= n -> 0 <= a < 2 ^ n -> 0 <= b < 2 ^ n -> 0 <= Z.lor a b < 2 ^ n.
Proof.
  intros Hn Ha Hb. assert (H0 : 0 <= Z.lor a b) by (apply Z.lor_nonneg; lia). split; [exact H0|].
  assert (E : Z.land (Z.lor a b) (Z.ones n) = Z.lor a b).
  { rewrite Z.land_lor_distr_l, !Z.land_ones by lia. rewrite !Z.mod_small by lia. reflexivity. }
  rewrite Z.land_ones in E by lia. rewrite <- E. apply Z.mod_pos_bound. apply pow2_pos, Hn.
Qed.

Lemma shiftl_byte b k n : is_byte b -> 0 <= k -> 8 + k <= n -> 0 <= Z.shiftl b k < 2 ^ n.
Proof.
  intros Hb Hk Hn. unfold is_byte in Hb. rewrite Z.shiftl_mul_pow2 by lia.
  assert (P : 2 ^ (8 + k) <= 2 ^ n) by (apply Z.pow_le_mono_r; lia). rewrite Z.pow_add_r in P by lia.
  change (2 ^ 8) with 256 in P. pose proof (pow2_pos k Hk). nia.
Qed.

Lemma byte_small b n : is_byte b -> 8 <= n -> 0 <= b < 2 ^ n.
Proof.
  intros Hb Hn. unfold is_byte in Hb. assert (P : 2 ^ 8 <= 2 ^ n) by (apply Z.pow_le_mono_r; lia).
  change (2 ^ 8) with 256 in P. lia.
Qed.

Ltac bnd := lazymatch goal with
  | |- 0 <= Z.lor _ _ < 2 ^ _ => apply lor_small; [lia | bnd | bnd]
  | |- 0 <= Z.shiftl _ _ < 2 ^ _ => apply shiftl_byte; [assumption | lia | lia]
  | |- 0 <= _ < 2 ^ _ => apply byte_small; [assumption | lia]
  end.

Lemma bytes_inv (l : list Z) a : wf_bytes (a :: l) -> is_byte a /\ wf_bytes l.
Proof. intros H. inversion H; subst. split; assumption. Qed.

Lemma gen_decShort_eq p : wf_bytes p -> GC.decShort p = dec_short p.
Proof.
  intros Hp. unfold GC.decShort, dec_short.
  destruct p as [|a [|b [|c rest]]]; try reflexivity.
  - apply bytes_inv in Hp as [Ha Hp]. apply bytes_inv in Hp as [Hb _].
    cbn [length Z.of_nat Pos.of_succ_nat Pos.succ Z.eqb Pos.eqb negb nth].
    apply (top_byte_signed 8 a b); [lia | exact Ha | exact Hb].
  - destruct (Z.eqb_spec (Z.of_nat (length (a :: b :: c :: rest))) 2) as [E|E]; [cbn [length] in E; lia|reflexivity].
Qed.

Lemma gen_decInt_eq p : wf_bytes p -> GC.decInt p = dec_int p.
Proof.
  intros Hp. unfold GC.decInt, dec_int.
  destruct p as [|a [|b [|c [|d [|e rest]]]]]; try reflexivity.
  - apply bytes_inv in Hp as [Ha Hp]. apply bytes_inv in Hp as [Hb Hp]. apply bytes_inv in Hp as [Hc Hp].
    apply bytes_inv in Hp as [Hd _].
    cbn [length Z.of_nat Pos.of_succ_nat Pos.succ Z.eqb Pos.eqb negb nth].
    rewrite (signed_small 32 (Z.shiftl b 16)) by (try lia; change (2 ^ (32 - 1)) with (2 ^ 31); bnd).
    rewrite (signed_small 32 (Z.shiftl c 8)) by (try lia; change (2 ^ (32 - 1)) with (2 ^ 31); bnd).
    rewrite <- !Z.lor_assoc. apply (top_byte_signed 24 a); [lia | exact Ha | bnd].
  - destruct (Z.eqb_spec (Z.of_nat (length (a :: b :: c :: d :: e :: rest))) 4) as [E|E]; [cbn [length] in E; lia|reflexivity].
Qed.

Lemma gen_decBigInt_eq p : wf_bytes p -> GC.decBigInt p = dec_bigint p.
Proof.
  intros Hp. unfold GC.decBigInt, dec_bigint.
  destruct p as [|a [|b [|c [|d [|e [|f [|g [|h [|i rest]]]]]]]]]; try reflexivity.
  - apply bytes_inv in Hp as [Ha Hp]. apply bytes_inv in Hp as [Hb Hp]. apply bytes_inv in Hp as [Hc Hp].
    apply bytes_inv in Hp as [Hd Hp]. apply bytes_inv in Hp as [He Hp]. apply bytes_inv in Hp as [Hf Hp].
    apply bytes_inv in Hp as [Hg Hp]. apply bytes_inv in Hp as [Hh _].
    cbn [length Z.of_nat Pos.of_succ_nat Pos.succ Z.eqb Pos.eqb negb nth].
    repeat match goal with |- context [signed 64 (Z.shiftl ?x ?k)] =>
      lazymatch k with 56 => fail | _ => rewrite (signed_small 64 (Z.shiftl x k)) by (try lia; change (2 ^ (64 - 1)) with (2 ^ 63); bnd) end end.
    rewrite <- !Z.lor_assoc. apply (top_byte_signed 56 a); [lia | exact Ha | bnd].
  - destruct (Z.eqb_spec (Z.of_nat (length (a :: b :: c :: d :: e :: f :: g :: h :: i :: rest))) 8) as [E|E]; [cbn [length] in E; lia|reflexivity].
Qed.
