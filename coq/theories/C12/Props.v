(* C12/Props.v -- the proof obligations for property C12 "encoded values are the CQL specification's
   encoding, byte for byte", and nothing else.  Model: C12/Model.v (marshal.go); specification:
   C12/Spec.v (native protocol specification, section 6); meaning of a Go value for a column:
   C12/Denote.v (the documentation table of gocql.Marshal).  Every theorem is closed by [exact] of a
   lemma from Proofs1-5.v and followed by Print Assumptions.  The defects found with this check (big.Int
   into bigint, defined int64 into duration, pre-epoch and out-of-range dates, null tuple components,
   untyped nil for a tuple, null into *inf.Dec / *net.IP / *[16]byte / *time.Time) were repaired in /repo;
   the model is the repaired code and the theorems no longer exclude those regions.  What is still
   excluded: the kept finding F-C02-1 (unsigned values reinterpreted as signed), with witnesses in
   C12/Refuted.v, and wrap-arounds outside any realistic range. *)
From GocqlV Require Import Lib.Base Gen.Consts C12.Model C12.Spec C12.Denote
  C12.Proofs1 C12.Proofs2 C12.Proofs3 C12.Proofs4 C12.Proofs5 C12.Proofs6.

(* The type ids of the protocol specification (section 4.2.5.2) are the driver's Type constants. *)
Theorem C12_type_ids :
  [Id.ascii; Id.bigint; Id.blob; Id.boolean; Id.counter; Id.decimal; Id.double; Id.float; Id.int; Id.text; Id.timestamp;
   Id.uuid; Id.varchar; Id.varint; Id.timeuuid; Id.inet; Id.date; Id.time; Id.smallint; Id.tinyint; Id.duration]
  = [K.TypeAscii; K.TypeBigInt; K.TypeBlob; K.TypeBoolean; K.TypeCounter; K.TypeDecimal; K.TypeDouble; K.TypeFloat; K.TypeInt;
     K.TypeText; K.TypeTimestamp; K.TypeUUID; K.TypeVarchar; K.TypeVarint; K.TypeTimeUUID; K.TypeInet; K.TypeDate; K.TypeTime;
     K.TypeSmallInt; K.TypeTinyInt; K.TypeDuration]
  /\ ms_per_day = K.millisecondsInADay.
Proof. split; reflexivity. Qed.
Print Assumptions C12_type_ids.

(* Fixed widths: the byte-shifting encoders are big-endian two's complement of the stated width, for
   every integer (including the wrap-around of out-of-range arguments). *)
Theorem C12_fixed_width : forall x,
  [byte_of x] = be_fixed 1 x /\ enc_short x = be_fixed 2 x /\ enc_int x = be_fixed 4 x /\ enc_bigint x = be_fixed 8 x.
Proof. intros x. repeat split; [apply enc_tiny_spec | apply enc_short_spec | apply enc_int_spec | apply enc_bigint_spec]. Qed.
Print Assumptions C12_fixed_width.

(* encBigInt2C (varint from big.Int, and the unscaled part of decimal) is the minimal-length two's
   complement of the specification, for every integer. *)
Theorem C12_encBigInt2C_minimal : forall n, enc_bigint2c n = varint_bytes n.
Proof. exact enc_bigint2c_minimal. Qed.
Print Assumptions C12_encBigInt2C_minimal.

(* The varint trim loop turns any two's-complement encoding of z (any width that fits) into the minimal
   one; in particular the 8-byte form of every int64 and the 9-byte form of every uint64. *)
Theorem C12_varint_trim_minimal : forall (w : nat) z, fits_signed (S w) z = true ->
  varint_trim (be_fixed (S w) z) = varint_bytes z.
Proof. exact varint_trim_minimal. Qed.
Print Assumptions C12_varint_trim_minimal.

(* vint (duration): the leading-zeros / shift encoder is the specification's zig-zag vint on the whole
   64-bit range. *)
Theorem C12_vint_is_spec : forall v, - 2 ^ 63 <= v < 2 ^ 63 -> enc_vint v = vint v.
Proof. exact enc_vint_spec. Qed.
Print Assumptions C12_vint_is_spec.

(* The decoders read every specification-conformant primitive encoding back: two's complement of any
   (not only minimal) width, and a vint followed by arbitrary bytes. *)
Theorem C12_decoders_invert_spec :
  (forall (w : nat) z, fits_signed (S w) z = true -> dec_bigint2c (be_fixed (S w) z) = z)
  /\ (forall v rest, - 2 ^ 63 <= v < 2 ^ 63 -> dec_vint (vint v ++ rest) = Some (v, rest))
  /\ (forall m d n, fits_signed 4 m = true -> fits_signed 4 d = true -> fits_signed 8 n = true ->
        dec_vints (vint m ++ vint d ++ vint n) = Some (m, d, n)).
Proof. split; [exact dec_bigint2c_be_fixed | split; [exact dec_vint_spec | exact dec_vints_spec]]. Qed.
Print Assumptions C12_decoders_invert_spec.

(* Native columns (all 21 type ids, every Go source type of the model's universe): whenever Marshal
   returns bytes (or nil) for a well-formed Go value that the documentation gives a meaning to, those
   are exactly the specification's encoding of that meaning (nil exactly for null).  [clean_native]
   (C12/Denote.v) excludes only: an unsigned source above the column's signed maximum (F-C02-1, kept) and
   a time.Time whose millisecond timestamp overflows int64. *)
Theorem C12_marshal_native_is_spec : forall id g ob x,
  wf_native g -> clean_native id g ->
  marshal_native id g = Ok ob -> denote_native id g = Some x -> encode_opt 0 (TNative id) x = Some ob.
Proof. exact marshal_native_spec. Qed.
Print Assumptions C12_marshal_native_is_spec.

(* The same through every nesting of list, set, map, tuple and user-defined type, both collection
   framings (protocol <= 2: 2-byte lengths, >= 3: 4-byte lengths and -1 for null), pointers peeled at
   every level: by induction over the type tree.  [good] (C12/Proofs4.v) = well-formed leaves, leaves
   inside [clean_native], tuple / UDT components shorter than 2 GiB. *)
Theorem C12_marshal_is_spec : forall pv ty g ob ox,
  good pv ty g -> marshal pv ty g = Ok ob -> denote ty g = Some ox -> encode_opt pv ty ox = Some ob.
Proof. exact marshal_is_spec. Qed.
Print Assumptions C12_marshal_is_spec.

(* Conversely, for native columns: Unmarshal of the specification's encoding of a value, into any target
   type for which the documentation defines the stored value's meaning, stores a Go value that means
   that value -- outside [dec_clean] (negative value into an unsigned target = F-C02-1; the documented
   conflations empty blob / nil []byte and year-1 instant / zero time.Time; NaN payload of defined
   float32 types; IPv4-mapped addresses). *)
Theorem C12_unmarshal_native_spec : forall id x b t g,
  encode_native id x = Some b -> dec_compat id t -> dec_clean id x t ->
  unmarshal_native id (Some b) t = Ok g -> denote_native id g = Some (Some x).
Proof. exact unmarshal_native_spec. Qed.
Print Assumptions C12_unmarshal_native_spec.

(* The converse through nesting, by induction over the type tree, both collection framings: Unmarshal of
   the specification's encoding of a value of ANY type built from natives, lists, sets and tuples stores a
   Go value that means that value.  [dec_good] (C12/Proofs6.v): leaves as in the native theorem (integer
   columns into *string included); lists / sets into slices or arrays of any element target, tuples into a
   []interface{} of pointers (top level) or into a []interface{} of goType values (nested); a null element
   or component needs a pointer target (into a value target it becomes the zero value, as documented) and,
   inside a collection, protocol >= 3.  Maps and user-defined types are not covered by this theorem
   ([dec_good] is False for them). *)
Theorem C12_unmarshal_is_spec : forall pv ty x b t g,
  encode_value pv ty x = Some b -> dec_good pv ty x t ->
  unmarshal pv ty (Some b) t = Ok g -> denote ty g = Some (Some x).
Proof. exact unmarshal_is_spec. Qed.
Print Assumptions C12_unmarshal_is_spec.

(* ---- non-vacuity: the hypotheses are satisfiable by non-trivial values -------------------------------- *)
Example C12_nonvacuous_native :
  let g := GInt I32 true (-70000) in
  wf_native g /\ clean_native Id.varint g /\ marshal_native Id.varint g = Ok (Some [254; 238; 144])
  /\ denote_native Id.varint g = Some (Some (VInt (-70000)))
  /\ dec_compat Id.varint (YInt I64 true) /\ dec_clean Id.varint (VInt (-70000)) (YInt I64 true)
  /\ unmarshal_native Id.varint (Some [254; 238; 144]) (YInt I64 true) = Ok (GInt I64 true (-70000)).
Proof. cbv zeta. repeat split; try (vm_compute; reflexivity); try (cbn; intros; lia); try discriminate. Qed.

(* a nested value: map<text, list<tuple<int, varint>>> with a null tuple component and a pointer *)
Example C12_nonvacuous_nested :
  let ty := TMap (TNative Id.text) (TList (TTuple [TNative Id.int; TNative Id.varint])) in
  let g := GMap (Some [(GStr false [107], GSlice (Some [GIfaces [GPtr (Some (GInt IInt false 7)); GNil]; GIfaces [GInt I8 false (-1); GBig 300]]))]) in
  good 4 ty g
  /\ marshal 4 ty g = Ok (Some [0;0;0;1; 0;0;0;1;107; 0;0;0;38; 0;0;0;2; 0;0;0;12; 0;0;0;4;0;0;0;7; 255;255;255;255;
                                0;0;0;14; 0;0;0;4;255;255;255;255; 0;0;0;2;1;44])
  /\ denote ty g = Some (Some (VMap [(Some (VBytes [107]),
        Some (VList [Some (VTuple [Some (VInt 7); None]); Some (VTuple [Some (VInt (-1)); Some (VInt 300)])]))])).
Proof.
  cbv zeta. split; [|split; vm_compute; reflexivity].
  cbn [good peel as_list]. repeat constructor; cbn; try lia; try discriminate; try (intros; discriminate);
    try (intros ? H; vm_compute in H; injection H as <-; vm_compute; reflexivity).
Qed.

(* the nested converse on list<tuple<int, text>> with a null component, into [][]interface{} is excluded
   (null into a value); into a list of tuples it needs the top-level form: here set<list<varint>> into
   [][]*big.Int with a null element, and tuple<int, list<text>> into []interface{} of pointers *)
Example C12_nonvacuous_converse :
  dec_good 4 (TSet (TList (TNative Id.varint))) (VList [Some (VList [Some (VInt (-70000)); None]); Some (VList [])])
           (YSlice (YSlice (YPtr YBig)))
  /\ encode_value 4 (TSet (TList (TNative Id.varint))) (VList [Some (VList [Some (VInt (-70000)); None]); Some (VList [])])
     = Some [0;0;0;2; 0;0;0;15; 0;0;0;2; 0;0;0;3;254;238;144; 255;255;255;255; 0;0;0;4; 0;0;0;0]
  /\ unmarshal 4 (TSet (TList (TNative Id.varint))) (Some [0;0;0;2; 0;0;0;15; 0;0;0;2; 0;0;0;3;254;238;144; 255;255;255;255; 0;0;0;4; 0;0;0;0])
       (YSlice (YSlice (YPtr YBig))) = Ok (GSlice (Some [GSlice (Some [GPtr (Some (GBig (-70000))); GPtr None]); GSlice (Some [])]))
  /\ dec_good 4 (TTuple [TNative Id.int; TList (TNative Id.text)]) (VTuple [None; Some (VList [Some (VBytes [104])])])
       (YIfaces [YPtr (YInt I64 false); YSlice (YStr true)]).
Proof.
  split. { cbn. repeat constructor; cbn; try lia; try discriminate; reflexivity. }
  split; [vm_compute; reflexivity|]. split; [vm_compute; reflexivity|].
  cbn. repeat constructor; cbn; try lia; try discriminate; reflexivity.
Qed.

(* ---- the model's integer codecs are the code: generated-model equivalence (tools/go2coq, Gen/Code.v,
   C12/GenEquiv.v) -----------------------------------------------------------------------------------
   GC.f is the Gallina definition that tools/go2coq generates from the Go source of f (marshal.go) on every
   run.  Marshal/Unmarshal switch on reflect types and interfaces and stay tied to the model by the
   correspondence run; the fixed-width integer codecs and the zig-zag step they call are tied by proof. *)
From GocqlV Require Import Gen.Code.
From GocqlV Require C12.GenEquiv.   (* not imported: its helper lemmas stay qualified *)

Theorem C12_generated_encInt_is_model : forall x, GC.encInt x = enc_int x.
Proof. exact C12.GenEquiv.gen_encInt_eq. Qed.
Print Assumptions C12_generated_encInt_is_model.

Theorem C12_generated_encShort_is_model : forall x, GC.encShort x = enc_short x.
Proof. exact C12.GenEquiv.gen_encShort_eq. Qed.
Print Assumptions C12_generated_encShort_is_model.

Theorem C12_generated_encBigInt_is_model : forall x, GC.encBigInt x = enc_bigint x.
Proof. exact C12.GenEquiv.gen_encBigInt_eq. Qed.
Print Assumptions C12_generated_encBigInt_is_model.

(* the decoders: byte strings of every length (the code converts each byte to the result type before
   shifting and ORs the pieces; the model ORs unsigned pieces and wraps once) *)
Theorem C12_generated_decInt_is_model : forall p, wf_bytes p -> GC.decInt p = dec_int p.
Proof. exact C12.GenEquiv.gen_decInt_eq. Qed.
Print Assumptions C12_generated_decInt_is_model.

Theorem C12_generated_decShort_is_model : forall p, wf_bytes p -> GC.decShort p = dec_short p.
Proof. exact C12.GenEquiv.gen_decShort_eq. Qed.
Print Assumptions C12_generated_decShort_is_model.

Theorem C12_generated_decBigInt_is_model : forall p, wf_bytes p -> GC.decBigInt p = dec_bigint p.
Proof. exact C12.GenEquiv.gen_decBigInt_eq. Qed.
Print Assumptions C12_generated_decBigInt_is_model.

Theorem C12_generated_encIntZigZag_is_model : forall n, GC.encIntZigZag n = enc_zigzag n.
Proof. exact C12.GenEquiv.gen_encIntZigZag_eq. Qed.
Print Assumptions C12_generated_encIntZigZag_is_model.

Theorem C12_generated_decIntZigZag_is_model : forall n, GC.decIntZigZag n = dec_zigzag n.
Proof. exact C12.GenEquiv.gen_decIntZigZag_eq. Qed.
Print Assumptions C12_generated_decIntZigZag_is_model.
