(* C12/Corr.v -- correspondence cases for marshal.go (shared with C02): each case carries an input
   and what gocql.Marshal / gocql.Unmarshal returned for it; [check] runs the model on the input and
   compares.  Go maps are compared up to the order of their entries. *)
From GocqlV Require Import Lib.Base Gen.Consts C12.Model C12.Spec.

(* equality of Go values up to map iteration order *)
Fixpoint gval_sim (a b : gval) {struct a} : bool :=
  let fix leq (x y : list gval) {struct x} : bool :=
    match x, y with
    | [], [] => true
    | p :: x', q :: y' => gval_sim p q && leq x' y'
    | _, _ => false
    end in
  let fix pmem (x y : list (gval * gval)) {struct x} : bool :=
    match x with
    | [] => true
    | (k, v) :: x' => existsb (fun q => gval_sim k (fst q) && gval_sim v (snd q)) y && pmem x' y
    end in
  let fix smem (x y : list (bytes * gval)) {struct x} : bool :=
    match x with
    | [] => true
    | (n, v) :: x' => existsb (fun q => zlist_eqb n (fst q) && gval_sim v (snd q)) y && smem x' y
    end in
  let fix feq (x y : list (bytes * bytes * gval)) {struct x} : bool :=
    match x, y with
    | [], [] => true
    | (n1, t1, p) :: x', (n2, t2, q) :: y' => zlist_eqb n1 n2 && zlist_eqb t1 t2 && gval_sim p q && feq x' y'
    | _, _ => false
    end in
  match a, b with
  | GSlice (Some l1), GSlice (Some l2) => leq l1 l2
  | GIfaces l1, GIfaces l2 => leq l1 l2
  | GArray l1, GArray l2 => leq l1 l2
  | GMap (Some l1), GMap (Some l2) => (length l1 =? length l2)%nat && pmem l1 l2
  | GStrMap (Some l1), GStrMap (Some l2) => (length l1 =? length l2)%nat && smem l1 l2
  | GStruct f1, GStruct f2 => feq f1 f2
  | GPtr (Some p), GPtr (Some q) => gval_sim p q
  | _, _ => gval_eqb a b
  end.

Definition mres_eqb (a b : mres) : bool :=
  match a, b with
  | Ok x, Ok y => opt_eqb zlist_eqb x y
  | Err, Err => true
  | Panic, Panic => true
  | _, _ => false
  end.

Definition ures_eqb (a b : ures) : bool :=
  match a, b with
  | Ok x, Ok y => gval_sim x y
  | Err, Err => true
  | Panic, Panic => true
  | _, _ => false
  end.

Inductive case :=
| CMarshal (pv : Z) (ty : cqlty) (g : gval) (out : mres)            (* gocql.Marshal: bytes / nil / error / panic *)
| CUnmarshal (pv : Z) (ty : cqlty) (d : option bytes) (t : gty) (out : ures)   (* gocql.Unmarshal into a zero target *)
| CSpec (pv : Z) (ty : cqlty) (x : cqlval) (out : option bytes).    (* the harness's reference serializer = Spec.encode *)

Definition check (c : case) : bool :=
  match c with
  | CMarshal pv ty g out => mres_eqb (marshal pv ty g) out
  | CUnmarshal pv ty d t out => ures_eqb (unmarshal pv ty d t) out
  | CSpec pv ty x out => opt_eqb zlist_eqb (encode_value pv ty x) out
  end.

Definition run (cs : list case) : list N := mismatches check cs.
