(* C12/Proofs5.v -- the converse for native columns: Unmarshal of the specification's encoding of a value
   stores a Go value that means that value. *)
From GocqlV Require Import Lib.Base Lib.Bits Gen.Consts C12.Model C12.Spec C12.Proofs1 C12.Proofs2 C12.Denote C12.Proofs3.

Local Open Scope Z_scope.
Set Default Timeout 200.

(* targets for which the documentation gives the stored value a meaning for this column type *)
Definition dec_compat (id : Z) (t : gty) : Prop :=
  if is_text id then match t with YStr _ | YBytes _ => True | _ => False end
  else if id =? Id.boolean then match t with YBool _ => True | _ => False end
  else if is_intfam id then match t with YInt _ _ | YDur | YStr false => True | YBig => is_wide id = true | _ => False end
  else if id =? Id.float then match t with YF32 _ => True | _ => False end
  else if id =? Id.double then match t with YF64 _ => True | _ => False end
  else if id =? Id.decimal then t = YDec
  else if id =? Id.time then match t with YDur | YInt I64 _ => True | _ => False end
  else if id =? Id.timestamp then match t with YTime | YInt I64 _ => True | _ => False end
  else if id =? Id.date then t = YTime
  else if id =? Id.duration then t = YCqlDur
  else if (id =? Id.uuid) || (id =? Id.timeuuid) then match t with YUUID | YArr16 | YBytes false => True | _ => False end
  else if id =? Id.inet then t = YIP
  else False.

Definition year_one_ms : Z := -62135596800000.     (* the instant of Go's zero time.Time, in ms *)

(* outside the decode-side regions: F-C02-1 (negative value into an unsigned target), documented
   conflations (empty blob into a nil []byte, the zero time.Time), NaN payloads of defined float32 types,
   IPv4-mapped addresses (normalised to 4 bytes) *)
Definition dec_clean (id : Z) (x : cqlval) (t : gty) : Prop :=
  match x, t with
  | VInt z, YInt k _ => is_signed k = false -> 0 <= z
  | VInt z, YTime => (id = Id.timestamp -> z <> year_one_ms) /\ (id = Id.date -> z * ms_per_day <> year_one_ms)
  | VBytes b, YBytes false => is_text id = true -> b <> []
  | VBytes b, YIP => v4_mapped b = false
  | VFloat bits, YF32 true => quiet_nan32 bits = bits
  | _, _ => True
  end.

Lemma land_mask x k : 0 <= k -> 0 <= x < 2 ^ k -> Z.land x (2 ^ k - 1) = x.
Proof. intros Hk Hx. rewrite land_ones_mod by lia. apply Z.mod_small. lia. Qed.

(* ---- strconv.FormatInt read back by the decimal notation: every int64 ----------------------------------------- *)
Lemma dec_digits_app l1 : forall l2 a, dec_digits (l1 ++ l2) a =
  match dec_digits l1 a with Some a' => dec_digits l2 a' | None => None end.
Proof.
  induction l1 as [|c r IH]; intros l2 a; cbn [app dec_digits]; [reflexivity|].
  destruct ((48 <=? c) && (c <=? 57)); [apply IH | reflexivity].
Qed.

Lemma digits_fuel_acc n : forall z acc, digits_fuel n z acc = digits_fuel n z [] ++ acc.
Proof.
  induction n as [|n IH]; intros z acc; cbn [digits_fuel]; [reflexivity|].
  destruct (z <? 10); [reflexivity|]. rewrite IH, (IH _ [_]), <- app_assoc. reflexivity.
Qed.

Lemma digits_fuel_value n : forall z, 0 <= z < 10 ^ Z.of_nat n -> (1 <= n)%nat ->
  dec_digits (digits_fuel n z []) 0 = Some z /\ exists c r, digits_fuel n z [] = c :: r /\ 48 <= c <= 57.
Proof.
  induction n as [|n IH]; intros z Hz Hn; [lia|]. cbn [digits_fuel].
  destruct (Z.ltb_spec z 10) as [Hlt|Hge].
  - split; [|exists (48 + z), []; split; [reflexivity|lia]]. cbn [dec_digits].
    replace ((48 <=? 48 + z) && (48 + z <=? 57)) with true by (symmetry; apply Bool.andb_true_iff; split; apply Z.leb_le; lia).
    f_equal. lia.
  - rewrite Nat2Z.inj_succ, Z.pow_succ_r in Hz by lia.
    assert (Hn' : (1 <= n)%nat) by (destruct n; [cbn in Hz; lia | lia]).
    destruct (IH (z / 10) ltac:(split; [apply Z.div_pos; lia | apply Z.div_lt_upper_bound; lia]) Hn') as [Hv [c [r [Hc Hr]]]].
    rewrite digits_fuel_acc. split.
    + rewrite dec_digits_app, Hv. cbn [dec_digits].
      replace ((48 <=? 48 + z mod 10) && (48 + z mod 10 <=? 57)) with true by (symmetry; apply Bool.andb_true_iff; split; apply Z.leb_le; lia).
      f_equal. lia.
    + rewrite Hc. exists c, (r ++ [48 + z mod 10]). split; [reflexivity|exact Hr].
Qed.

Lemma decimal_value_digit c r : 48 <= c <= 57 -> decimal_value (c :: r) = dec_digits (c :: r) 0.
Proof.
  intros Hc. unfold decimal_value. destruct c as [|p|p]; try lia.
  do 6 (destruct p as [p|p|]; try reflexivity); lia.
Qed.

Lemma format_int_value v : - 2 ^ 63 <= v < 2 ^ 63 -> decimal_value (format_int v) = Some v.
Proof.
  intros Hv. unfold format_int. destruct (Z.ltb_spec v 0).
  - destruct (digits_fuel_value 20 (- v) ltac:(change (10 ^ Z.of_nat 20) with 100000000000000000000; pow_consts; lia) ltac:(lia)) as [Hd [c [r [Hc Hr]]]].
    rewrite Hc in *. unfold decimal_value. cbn [tl]. rewrite Hd. cbn. f_equal. lia.
  - destruct (digits_fuel_value 20 v ltac:(change (10 ^ Z.of_nat 20) with 100000000000000000000; pow_consts; lia) ltac:(lia)) as [Hd [c [r [Hc Hr]]]].
    rewrite Hc in *. rewrite decimal_value_digit by exact Hr. exact Hd.
Qed.

Lemma land255 x : Z.land x 255 = x mod 256.
Proof. change 255 with (2 ^ 8 - 1). rewrite land_ones_mod by lia. reflexivity. Qed.
Lemma land65535 x : Z.land x 65535 = x mod 65536.
Proof. change 65535 with (2 ^ 16 - 1). rewrite land_ones_mod by lia. reflexivity. Qed.
Lemma land32 x : Z.land x 4294967295 = x mod 4294967296.
Proof. change 4294967295 with (2 ^ 32 - 1). rewrite land_ones_mod by lia. reflexivity. Qed.

Ltac bool_hyps :=
  repeat match goal with
         | H : (_ && _) = false |- _ => apply Bool.andb_false_iff in H
         | H : (_ || _) = false |- _ => apply Bool.orb_false_iff in H; destruct H
         | H : (_ <? _) = false |- _ => apply Z.ltb_ge in H
         | H : (_ <? _) = true |- _ => apply Z.ltb_lt in H
         | H : negb _ = false |- _ => apply Bool.negb_false_iff in H
         end.

(* unmarshalIntlike on a value that fits the column *)
Lemma intlike_int_spec id z k r : In id [Id.tinyint; Id.smallint; Id.int; Id.bigint; Id.counter; Id.varint] ->
  encode_native id (VInt z) <> None -> (is_signed k = false -> 0 <= z) -> (id = Id.varint -> - 2 ^ 63 <= z < 2 ^ 63) ->
  intlike_int id z k = Ok r -> r = z.
Proof.
  intros Hin Henc Hs Hv H. cbn in Hin.
  unfold intlike_int, wrap, MinInt32, MaxInt32, MaxUint32, MinInt16, MaxInt16, MaxUint16, MinInt8, MaxInt8, MaxUint8, nez in H.
  unfold K.TypeInt, K.TypeSmallInt, K.TypeTinyInt in H.
  destruct Hin as [<-|[<-|[<-|[<-|[<-|[<-|[]]]]]]];
    cbn [encode_native] in Henc; unfold Id.tinyint, Id.smallint, Id.int, Id.bigint, Id.counter, Id.varint, Id.time, Id.timestamp, Id.date in *;
    cbn [Z.eqb Pos.eqb orb negb andb] in Henc, H; unfold fixed_signed in Henc;
    try (match type of Henc with context [fits_signed ?w z] => destruct (fits_signed w z) eqn:E; [apply fits_signed_iff in E; cbn in E|congruence] end);
    try (specialize (Hv eq_refl)); pow_consts;
    destruct k; cbn [is_signed] in Hs; try specialize (Hs eq_refl);
    repeat match type of H with
           | context [if ?c then _ else _] => let E := fresh "E" in destruct c eqn:E; try discriminate
           end;
    injection H as <-; bool_hyps; try reflexivity;
    rewrite ?land255, ?land65535, ?land32; pow_consts; change (Z.pow_pos 2 8) with 256; change (Z.pow_pos 2 16) with 65536;
    change (Z.pow_pos 2 32) with 4294967296; change (Z.pow_pos 2 64) with 18446744073709551616; lia.
Qed.

Ltac ids := unfold Id.ascii, Id.bigint, Id.blob, Id.boolean, Id.counter, Id.decimal, Id.double, Id.float, Id.int, Id.text, Id.timestamp,
    Id.uuid, Id.varchar, Id.varint, Id.timeuuid, Id.inet, Id.date, Id.time, Id.smallint, Id.tinyint, Id.duration in *.

Lemma fits_signed_le (w w' : nat) z : (w <= w')%nat -> fits_signed w z = true -> fits_signed w' z = true.
Proof. induction 1; [auto|]. intros H0. apply fits_signed_mono. auto. Qed.

(* fixed-width integer columns *)
Lemma unmarshal_fixed_int id (w : nat) dec x b t g :
  In (id, w) [(Id.tinyint, 1%nat); (Id.smallint, 2%nat); (Id.int, 4%nat); (Id.bigint, 8%nat); (Id.counter, 8%nat)] ->
  (forall z, fits_signed w z = true -> dec (be_fixed w z) = z) ->
  encode_native id x = Some b -> dec_compat id t -> dec_clean id x t ->
  unmarshal_intlike id (dec b) b t = Ok g -> denote_native id g = Some (Some x).
Proof.
  intros Hin Hdec Henc Hc Hcl Hu.
  assert (Hfam : In id [Id.tinyint; Id.smallint; Id.int; Id.bigint; Id.counter; Id.varint]).
  { cbn in Hin |- *. repeat (destruct Hin as [Hin|Hin]; [injection Hin as <- _; tauto|]). contradiction. }
  assert (Hx : exists z, x = VInt z /\ fits_signed w z = true /\ b = be_fixed w z).
  { cbn in Hin. repeat (destruct Hin as [Hin|Hin]; [injection Hin as <- <-; destruct x; cbn [encode_native] in Henc; ids; cbn [Z.eqb Pos.eqb orb] in Henc; try discriminate;
      unfold fixed_signed in Henc; match type of Henc with context [fits_signed ?ww ?zz] => destruct (fits_signed ww zz) eqn:E; [|discriminate] end;
      injection Henc as <-; eauto|]). contradiction. }
  destruct Hx as [z [-> [Hf ->]]]. rewrite (Hdec z Hf) in Hu.
  assert (Hne : encode_native id (VInt z) <> None) by congruence.
  rewrite (denote_native_int id) by exact Hfam.
  assert (Hnv : id = Id.varint -> - 2 ^ 63 <= z < 2 ^ 63).
  { intros ->. cbn in Hin. repeat (destruct Hin as [Hin|Hin]; [discriminate|]). contradiction. }
  assert (Hw : (1 <= w)%nat) by (cbn in Hin; repeat (destruct Hin as [Hin|Hin]; [injection Hin as _ <-; lia|]); contradiction).
  destruct t; cbn [unmarshal_intlike] in Hu; try discriminate.
  - (* integer target *)
    cbn [dec_clean] in Hcl. destruct (intlike_int id z k) as [r| | |] eqn:Er; try discriminate. cbn [rmap rbind] in Hu. injection Hu as <-.
    rewrite (intlike_int_spec id z k r Hfam Hne Hcl Hnv Er). reflexivity.
  - (* string: strconv.FormatInt, read back as a decimal number *)
    destruct named; [discriminate|]. injection Hu as <-. cbn [denote_int]. rewrite format_int_value; [reflexivity|].
    assert (Hf8 : fits_signed 8 z = true).
    { cbn in Hin. repeat (destruct Hin as [Hin|Hin]; [injection Hin as _ <-; apply (fits_signed_le _ 8 z) in Hf; [exact Hf | lia]|]). contradiction. }
    apply fits_signed_iff in Hf8. cbn in Hf8. pow_consts. lia.
  - (* big.Int *)
    injection Hu as <-. destruct w as [|w']; [lia|]. rewrite dec_bigint2c_be_fixed by exact Hf.
    unfold dec_compat in Hc. cbn in Hin. cbn [denote_int].
    repeat (destruct Hin as [Hin|Hin]; [injection Hin as <- _; try (cbn in Hc; discriminate); reflexivity|]). contradiction.
  - injection Hu as <-. reflexivity.
Qed.

(* ---- varint ----------------------------------------------------------------------------------------------------- *)
Lemma varint_value (w : nat) z : (1 <= w <= 8)%nat -> fits_signed w z = true ->
  let data := be_fixed w z in
  let v0 := signed 64 (be_val data) in
  (if (0 <? length data)%nat && (length data <? 8)%nat && (0 <? Z.land (hd 0 data) 128)
   then signed 64 (v0 - Z.shiftl 1 (Z.of_nat (length data) * 8)) else v0) = z.
Proof.
  intros Hw Hf. cbv zeta. rewrite be_fixed_length, be_val_be_fixed.
  destruct w as [|w]; [lia|]. rewrite be_fixed_S. cbn [hd].
  pose proof (top_byte_sign w z Hf) as Hs. set (b0 := (z / 256 ^ Z.of_nat w) mod 256) in *.
  rewrite land128 by (apply Z.mod_pos_bound; lia).
  apply fits_signed_S in Hf. rewrite Z.shiftl_1_l.
  replace (2 ^ (Z.of_nat (S w) * 8)) with (256 ^ Z.of_nat (S w)) by (rewrite pow256_2; f_equal; lia).
  rewrite pow256_S in *. pose proof (pow256_pos w) as Hp.
  assert (Hb : ((S w <? 8)%nat = true -> 256 ^ Z.of_nat w <= 2 ^ 48) /\ ((S w <? 8)%nat = false -> 256 ^ Z.of_nat w = 2 ^ 56)).
  { split; intros Hc.
    - apply Nat.ltb_lt in Hc. rewrite pow256_2. apply Z.pow_le_mono_r; lia.
    - apply Nat.ltb_ge in Hc. assert (w = 7%nat) as -> by lia. reflexivity. }
  set (P := 256 ^ Z.of_nat w) in *. clearbody P. replace (0 <? S w)%nat with true by reflexivity. cbn [andb].
  assert (Hmod : z mod (256 * P) = if z <? 0 then z + 256 * P else z).
  { destruct (Z.ltb_spec z 0).
    - replace z with (z + 256 * P + (-1) * (256 * P)) at 1 by ring. rewrite Z.mod_add by lia. apply Z.mod_small. lia.
    - apply Z.mod_small. lia. }
  rewrite Hmod. destruct Hb as [Hb1 Hb2]. pow_consts.
  destruct (S w <? 8)%nat.
  - specialize (Hb1 eq_refl). cbn [andb].
    destruct (Z.ltb_spec z 0).
    + destruct (Z.ltb_spec b0 128); [lia|]. cbn [Z.ltb Z.compare].
      rewrite (signed64_id (z + 256 * P)) by (pow_consts; lia). replace (z + 256 * P - 256 * P) with z by ring.
      apply signed64_id. pow_consts. lia.
    + destruct (Z.ltb_spec b0 128); [|lia]. cbn [Z.ltb Z.compare]. apply signed64_id. pow_consts. lia.
  - specialize (Hb2 eq_refl). cbn [andb]. pow_consts. replace (256 * P) with 18446744073709551616 in * by lia. unfold signed. pow_consts.
    destruct (Z.ltb_spec z 0).
    + destruct (Z.ltb_spec ((z + 18446744073709551616) mod 18446744073709551616) 9223372036854775808); lia.
    + destruct (Z.ltb_spec (z mod 18446744073709551616) 9223372036854775808); lia.
Qed.


Lemma size2c_fits z : fits_signed (size2c z) z = true.
Proof. apply size2c_le; [apply size2c_pos | lia]. Qed.

Lemma unmarshal_varint_spec x b t g :
  encode_native Id.varint x = Some b -> dec_compat Id.varint t -> dec_clean Id.varint x t ->
  unmarshal_varint K.TypeVarint (Some b) t = Ok g -> denote_native Id.varint g = Some (Some x).
Proof.
  intros Henc Hc Hcl Hu. destruct x as [z| | | | | | | | |]; try discriminate. injection Henc as <-.
  rewrite (denote_native_int Id.varint) by (cbn; tauto). unfold varint_bytes in *.
  pose proof (size2c_pos z) as Hpos. pose proof (size2c_fits z) as Hf. set (w := size2c z) in *.
  assert (Hne : encode_native Id.varint (VInt z) <> None) by discriminate.
  assert (Hfam : In Id.varint [Id.tinyint; Id.smallint; Id.int; Id.bigint; Id.counter; Id.varint]) by (cbn; tauto).
  unfold unmarshal_varint in Hu. cbn [bytes_of] in Hu.
  destruct t; try (exfalso; exact Hc).
  - (* integer target *)
    cbn [dec_clean] in Hcl.
    (* the 9-byte form into a plain uint64 *)
    assert (Hgen : (8 <? length (be_fixed w z))%nat = false ->
              unmarshal_intlike K.TypeVarint
                (if (0 <? length (be_fixed w z))%nat && (length (be_fixed w z) <? 8)%nat && (0 <? Z.land (hd 0 (be_fixed w z)) 128)
                 then signed 64 (signed 64 (be_val (be_fixed w z)) - Z.shiftl 1 (Z.of_nat (length (be_fixed w z)) * 8))
                 else signed 64 (be_val (be_fixed w z))) (be_fixed w z) (YInt k named) = Ok g ->
              denote_int true g = Some (Some (VInt z))).
    { intros Hlen Hu'. rewrite be_fixed_length in Hlen. apply Nat.ltb_ge in Hlen.
      rewrite (varint_value w z) in Hu' by (try lia; exact Hf).
      cbn [unmarshal_intlike] in Hu'. destruct (intlike_int K.TypeVarint z k) as [r| | |] eqn:Er; try discriminate.
      cbn [rmap rbind] in Hu'. injection Hu' as <-.
      assert (Hr : - 2 ^ 63 <= z < 2 ^ 63).
      { assert (Hf8 : fits_signed 8 z = true) by (apply size2c_le; lia). apply fits_signed_iff in Hf8. cbn in Hf8. pow_consts. lia. }
      rewrite (intlike_int_spec Id.varint z k r Hfam Hne Hcl (fun _ => Hr) Er). reflexivity. }
    destruct k; try (destruct (8 <? length (be_fixed w z))%nat eqn:E8; [discriminate | exact (Hgen eq_refl Hu)]).
    destruct named; try (destruct (8 <? length (be_fixed w z))%nat eqn:E8; [discriminate | exact (Hgen eq_refl Hu)]).
    cbv iota in Hu.
    destruct (Nat.eq_dec w 9) as [Ew|Hw9].
    + (* nine bytes *)
      rewrite Ew in *. rewrite (be_fixed_S 8) in Hu.
      pose proof (top_byte_sign 8 z Hf) as Hs. set (b0 := (z / 256 ^ Z.of_nat 8) mod 256) in *.
      assert (Hb0 : 0 <= b0 < 256) by (apply Z.mod_pos_bound; lia).
      cbn [length] in Hu. rewrite be_fixed_length in Hu. cbn [Nat.eqb Nat.ltb Nat.leb] in Hu.
      destruct b0 as [|p|p] eqn:Eb0; try discriminate; try lia.
      injection Hu as <-. cbn [denote_int]. rewrite be_val_be_fixed.
      apply fits_signed_iff in Hf. cbn in Hf. change (256 ^ Z.of_nat 8) with 18446744073709551616 in *.
      assert (Hz : 0 <= z) by lia. unfold b0 in Eb0.
      assert (z < 18446744073709551616).
      { assert (z / 18446744073709551616 < 128) by (apply Z.div_lt_upper_bound; lia).
        assert (0 <= z / 18446744073709551616) by (apply Z.div_pos; lia).
        rewrite Z.mod_small in Eb0 by lia. pose proof (Z.div_mod z 18446744073709551616 ltac:(lia)).
        pose proof (Z.mod_pos_bound z 18446744073709551616 ltac:(lia)). lia. }
      rewrite Z.mod_small by lia. reflexivity.
    + assert (Hsp : match be_fixed w z with
                    | 0 :: r => if (length (be_fixed w z) =? 9)%nat then Some (be_val r) else None
                    | _ => None
                    end = None).
      { rewrite be_fixed_length. replace (w =? 9)%nat with false by (symmetry; apply Nat.eqb_neq; exact Hw9).
        destruct (be_fixed w z) as [|[|p|p] r]; reflexivity. }
      rewrite Hsp in Hu. destruct (8 <? length (be_fixed w z))%nat eqn:E8; [discriminate | exact (Hgen eq_refl Hu)].
  - (* string *)
    destruct named; [exfalso; exact Hc|].
    destruct (8 <? length (be_fixed w z))%nat eqn:E8; [discriminate|]. rewrite be_fixed_length in E8. apply Nat.ltb_ge in E8.
    rewrite (varint_value w z) in Hu by (try lia; exact Hf). cbn [unmarshal_intlike] in Hu. injection Hu as <-. cbn [denote_int].
    rewrite format_int_value; [reflexivity|].
    assert (Hf8 : fits_signed 8 z = true) by (apply size2c_le; lia). apply fits_signed_iff in Hf8. cbn in Hf8. pow_consts. lia.
  - (* big.Int *)
    cbn [unmarshal_intlike] in Hu. injection Hu as <-. destruct w as [|w']; [lia|]. rewrite dec_bigint2c_be_fixed by exact Hf. reflexivity.
  - (* time.Duration *)
    destruct (8 <? length (be_fixed w z))%nat eqn:E8; [discriminate|]. rewrite be_fixed_length in E8. apply Nat.ltb_ge in E8.
    rewrite (varint_value w z) in Hu by (try lia; exact Hf). cbn [unmarshal_intlike] in Hu. injection Hu as <-. reflexivity.
Qed.

(* ---- the other families -------------------------------------------------------------------------------------------- *)
Lemma unmarshal_varchar_spec id x b t g : is_text id = true ->
  encode_native id x = Some b -> dec_compat id t -> dec_clean id x t ->
  unmarshal_varchar (Some b) t = Ok g -> denote_native id g = Some (Some x).
Proof.
  intros Hid Henc Hc Hcl Hu. unfold dec_compat in Hc. rewrite Hid in Hc.
  assert (Hx : x = VBytes b).
  { destruct x; cbn [encode_native] in Henc; unfold is_text in Hid; try rewrite Hid in Henc; try discriminate;
      try (injection Henc as <-; reflexivity);
      apply Bool.orb_true_iff in Hid; repeat (destruct Hid as [Hid|Hid]; try apply Bool.orb_true_iff in Hid);
      repeat match goal with H : _ \/ _ |- _ => destruct H end;
      repeat match goal with H : (id =? _) = true |- _ => apply Z.eqb_eq in H; subst id end; discriminate. }
  subst x. unfold denote_native. destruct t; try (exfalso; exact Hc); cbn [unmarshal_varchar bytes_of] in Hu.
  - injection Hu as <-. rewrite Hid. reflexivity.
  - destruct named.
    + injection Hu as <-. rewrite Hid. reflexivity.
    + cbn [dec_clean] in Hcl. specialize (Hcl Hid). destruct b as [|c r]; [congruence|]. injection Hu as <-. rewrite Hid. reflexivity.
Qed.

Lemma unmarshal_bool_spec x b t g :
  encode_native Id.boolean x = Some b -> dec_compat Id.boolean t ->
  unmarshal_bool (Some b) t = Ok g -> denote_native Id.boolean g = Some (Some x).
Proof.
  intros Henc Hc Hu. destruct x as [| bv | | | | | | | |]; try discriminate. injection Henc as <-.
  destruct t; try (exfalso; exact Hc). cbn in Hu. injection Hu as <-. destruct bv; reflexivity.
Qed.

Lemma unmarshal_float_spec x b t g :
  encode_native Id.float x = Some b -> dec_compat Id.float t -> dec_clean Id.float x t ->
  unmarshal_float (Some b) t = Ok g -> denote_native Id.float g = Some (Some x).
Proof.
  intros Henc Hc Hcl Hu. destruct x as [| | |bits | | | | | |]; try discriminate.
  cbn [encode_native] in Henc. ids. cbn [Z.eqb Pos.eqb] in Henc. destruct (fits_unsigned 4 bits) eqn:Ef; [|discriminate]. injection Henc as <-.
  destruct t; try (exfalso; exact Hc). cbn [unmarshal_float bytes_of] in Hu. rewrite (wrap_dec_int_be_fixed bits Ef) in Hu.
  assert (Hb : 0 <= bits) by (unfold fits_unsigned in Ef; lia).
  destruct named; injection Hu as <-.
  - cbn [dec_clean] in Hcl. change (denote_native 8 (GF32 true (quiet32 bits))) with (Some (Some (VFloat (quiet_nan32 (quiet32 bits))))).
    rewrite quiet32_spec by exact Hb. rewrite !Hcl. reflexivity.
  - reflexivity.
Qed.

Lemma unmarshal_double_spec x b t g :
  encode_native Id.double x = Some b -> dec_compat Id.double t ->
  unmarshal_double (Some b) t = Ok g -> denote_native Id.double g = Some (Some x).
Proof.
  intros Henc Hc Hu. destruct x as [| | |bits | | | | | |]; try discriminate.
  cbn [encode_native] in Henc. ids. cbn [Z.eqb Pos.eqb] in Henc. destruct (fits_unsigned 8 bits) eqn:Ef; [|discriminate]. injection Henc as <-.
  destruct t; try (exfalso; exact Hc). cbn [unmarshal_double bytes_of] in Hu. rewrite (wrap_dec_bigint_be_fixed bits Ef) in Hu.
  injection Hu as <-. reflexivity.
Qed.

Lemma unmarshal_decimal_spec x b t g :
  encode_native Id.decimal x = Some b -> dec_compat Id.decimal t ->
  unmarshal_decimal (Some b) t = Ok g -> denote_native Id.decimal g = Some (Some x).
Proof.
  intros Henc Hc Hu. destruct x as [| | | |u sc | | | | |]; try discriminate.
  cbn [encode_native] in Henc. ids. cbn [Z.eqb Pos.eqb] in Henc. destruct (fits_signed 4 sc) eqn:Ef; [|discriminate].
  assert (Eb : b = be_fixed 4 sc ++ varint_bytes u) by congruence. subst b. clear Henc.
  unfold dec_compat in Hc. cbn in Hc. subst t. cbn [unmarshal_decimal bytes_of] in Hu. cbv zeta in Hu.
  rewrite app_length, be_fixed_length in Hu. destruct (4 + length (varint_bytes u) <? 4)%nat eqn:E; [apply Nat.ltb_lt in E; lia|].
  rewrite firstn_app, be_fixed_length, Nat.sub_diag, firstn_O, app_nil_r, firstn_all2 in Hu by (rewrite be_fixed_length; lia).
  rewrite skipn_app, be_fixed_length, Nat.sub_diag, skipn_all2 in Hu by (rewrite be_fixed_length; lia). cbn [skipn app] in Hu.
  rewrite (dec_int_be_fixed sc Ef) in Hu. unfold varint_bytes in Hu.
  pose proof (size2c_pos u). destruct (size2c u) as [|w] eqn:Ew; [lia|]. rewrite dec_bigint2c_be_fixed in Hu by (rewrite <- Ew; apply size2c_fits).
  injection Hu as <-. reflexivity.
Qed.

Lemma fixed8_inv (id : Z) z b : fixed_signed 8 z = Some b -> fits_signed 8 z = true /\ b = be_fixed 8 z.
Proof. unfold fixed_signed. destruct (fits_signed 8 z); [|discriminate]. intros H. injection H as <-. split; reflexivity. Qed.

Lemma unmarshal_time_spec x b t g :
  encode_native Id.time x = Some b -> dec_compat Id.time t ->
  unmarshal_time (Some b) t = Ok g -> denote_native Id.time g = Some (Some x).
Proof.
  intros Henc Hc Hu. destruct x as [z| | | | | | | | |]; try discriminate.
  cbn [encode_native] in Henc. ids. cbn [Z.eqb Pos.eqb orb] in Henc. apply (fixed8_inv 18) in Henc. destruct Henc as [Hf ->].
  destruct t; try (exfalso; exact Hc); cbn [unmarshal_time bytes_of] in Hu.
  - destruct k; try (exfalso; exact Hc). rewrite (dec_bigint_be_fixed z Hf) in Hu. injection Hu as <-. reflexivity.
  - rewrite (dec_bigint_be_fixed z Hf) in Hu. injection Hu as <-. reflexivity.
Qed.

Lemma quot_mod_ms z : let sec := Z.quot z 1000 in let nsec := (z - sec * 1000) * 1000000 in
  let '(s, n) := norm_unix sec nsec in s * 1000 + n / 1000000 = z /\ 0 <= n < 1000000000 /\ n mod 1000000 = 0.
Proof.
  cbv zeta. unfold norm_unix.
  pose proof (Z.quot_rem z 1000 ltac:(lia)) as Hq. pose proof (Z.rem_bound_abs z 1000 ltac:(lia)) as Hr.
  set (q := Z.quot z 1000) in *. set (r := Z.rem z 1000) in *.
  assert (Er : z - q * 1000 = r) by lia. rewrite Er.
  assert (Hrr : -1000 < r < 1000) by (cbn in Hr; lia). clearbody q r. lia.
Qed.

Lemma unmarshal_timestamp_spec x b t g :
  encode_native Id.timestamp x = Some b -> dec_compat Id.timestamp t -> dec_clean Id.timestamp x t ->
  unmarshal_timestamp (Some b) t = Ok g -> denote_native Id.timestamp g = Some (Some x).
Proof.
  intros Henc Hc Hcl Hu. destruct x as [z| | | | | | | | |]; try discriminate.
  cbn [encode_native] in Henc. ids. cbn [Z.eqb Pos.eqb orb] in Henc. apply (fixed8_inv 11) in Henc. destruct Henc as [Hf ->].
  destruct t; try (exfalso; exact Hc); cbn [unmarshal_timestamp bytes_of] in Hu.
  - destruct k; try (exfalso; exact Hc). rewrite (dec_bigint_be_fixed z Hf) in Hu. injection Hu as <-. reflexivity.
  - rewrite (be_fixed_S 7) in Hu. rewrite <- (be_fixed_S 7) in Hu. rewrite (dec_bigint_be_fixed z Hf) in Hu.
    pose proof (quot_mod_ms z) as Hq. cbv zeta in Hq.
    destruct (norm_unix (Z.quot z 1000) ((z - Z.quot z 1000 * 1000) * 1000000)) as [s n]. destruct Hq as [Hq1 [Hq2 Hq3]].
    injection Hu as <-. cbn [dec_clean] in Hcl. destruct Hcl as [Hcl _]. specialize (Hcl eq_refl). unfold year_one_ms in Hcl.
    change (denote_native 11 (GTime s n)) with (if zero_time s n then None else Some (Some (VInt (millis_of s n)))).
    unfold zero_time, millis_of. destruct (Z.eqb_spec s (-62135596800)); destruct (Z.eqb_spec n 0); cbn [andb]; try (rewrite Hq1; reflexivity).
    exfalso. subst s n. cbn in Hq1. lia.
Qed.

Lemma unmarshal_date_spec x b t g :
  encode_native Id.date x = Some b -> dec_compat Id.date t -> dec_clean Id.date x t ->
  unmarshal_date (Some b) t = Ok g -> denote_native Id.date g = Some (Some x).
Proof.
  intros Henc Hc Hcl Hu. destruct x as [z| | | | | | | | |]; try discriminate.
  cbn [encode_native] in Henc. ids. cbn [Z.eqb Pos.eqb orb] in Henc. destruct (fits_signed 4 z) eqn:Ef; [|discriminate].
  assert (Eb : b = be_fixed 4 (z + 2 ^ 31)) by congruence. subst b. clear Henc.
  unfold dec_compat in Hc. cbn in Hc. subst t. cbn [unmarshal_date bytes_of] in Hu. cbv zeta in Hu.
  apply fits_signed_iff in Ef. cbn in Ef.
  rewrite (be_fixed_S 3) in Hu. rewrite <- (be_fixed_S 3) in Hu. rewrite be_fixed_length in Hu. cbn [Nat.ltb Nat.leb] in Hu.
  rewrite firstn_all2 in Hu by (rewrite be_fixed_length; lia). rewrite be_val_be_fixed in Hu.
  change (256 ^ Z.of_nat 4) with 4294967296 in Hu. rewrite Z.shiftl_1_l in Hu. pow_consts.
  rewrite (Z.mod_small (z + 2147483648)) in Hu by lia. replace (z + 2147483648 - 2147483648) with z in Hu by ring.
  change K.millisecondsInADay with 86400000 in Hu. rewrite signed64_id in Hu by (pow_consts; lia).
  injection Hu as <-. cbn [dec_clean] in Hcl. destruct Hcl as [_ Hcl]. specialize (Hcl eq_refl). unfold year_one_ms, ms_per_day in Hcl.
  change (denote_native 17 (GTime (z * 86400000 / 1000) ((z * 86400000) mod 1000 * 1000000)))
    with (if zero_time (z * 86400000 / 1000) ((z * 86400000) mod 1000 * 1000000) then None
          else Some (Some (VInt (millis_of (z * 86400000 / 1000) ((z * 86400000) mod 1000 * 1000000) / ms_per_day)))).
  unfold zero_time, millis_of, ms_per_day.
  replace ((z * 86400000) mod 1000) with 0 by lia. replace (z * 86400000 / 1000) with (z * 86400) by lia.
  destruct (Z.eqb_spec (z * 86400) (-62135596800)); cbn [andb Z.eqb Z.mul]; [exfalso; lia|].
  do 3 f_equal. lia.
Qed.

Lemma unmarshal_duration_spec x b t g :
  encode_native Id.duration x = Some b -> dec_compat Id.duration t ->
  unmarshal_duration (Some b) t = Ok g -> denote_native Id.duration g = Some (Some x).
Proof.
  intros Henc Hc Hu. destruct x as [| | | | |m d n | | | |]; try discriminate.
  cbn [encode_native] in Henc. ids. cbn [Z.eqb Pos.eqb] in Henc.
  destruct (fits_signed 4 m) eqn:Em; [|discriminate]. destruct (fits_signed 4 d) eqn:Ed; [|discriminate].
  destruct (fits_signed 8 n) eqn:En; [|discriminate]. cbn [andb] in Henc.
  assert (Eb : b = vint m ++ vint d ++ vint n) by congruence. subst b. clear Henc.
  unfold dec_compat in Hc. cbn in Hc. subst t. cbn [unmarshal_duration bytes_of] in Hu.
  pose proof (dec_vints_spec m d n Em Ed En) as Hv.
  destruct (vint m ++ vint d ++ vint n) as [|c r] eqn:E.
  - exfalso. unfold vint, uvint in E. rewrite be_fixed_S in E. discriminate.
  - rewrite Hv in Hu. injection Hu as <-. reflexivity.
Qed.

Lemma unmarshal_uuid_spec id x b t g : id = Id.uuid \/ id = Id.timeuuid ->
  encode_native id x = Some b -> dec_compat id t ->
  unmarshal_uuid (Some b) t = Ok g -> denote_native id g = Some (Some x).
Proof.
  intros Hid Henc Hc Hu.
  assert (Hx : x = VBytes b /\ length b = 16%nat).
  { destruct Hid as [-> | ->]; destruct x; cbn [encode_native] in Henc; ids; cbn [Z.eqb Pos.eqb orb] in Henc; try discriminate.
    all: destruct (length b0 =? 16)%nat eqn:E; [|discriminate].
    all: apply Nat.eqb_eq in E; injection Henc as <-; split; [reflexivity|exact E]. }
  destruct Hx as [-> Hl]. unfold unmarshal_uuid in Hu. cbn [bytes_of] in Hu.
  destruct b as [|c r] eqn:Eb; [discriminate|]. rewrite <- Eb in *. clear Eb c r.
  replace (length b =? 16)%nat with true in Hu by (symmetry; apply Nat.eqb_eq; exact Hl). cbn [negb] in Hu.
  assert (Hc' : match t with YUUID | YArr16 | YBytes false => True | _ => False end) by (destruct Hid as [-> | ->]; exact Hc).
  assert (Hb : (length b =? 16)%nat = true) by (apply Nat.eqb_eq; exact Hl).
  destruct t as [| |[]| | | | | | | | | | | | | | | | | | | ]; try (exfalso; exact Hc'); try discriminate; injection Hu as <-;
    destruct Hid as [-> | ->]; cbn [denote_native]; ids; cbn [Z.eqb Pos.eqb orb is_text is_intfam]; try rewrite Hb; reflexivity.
Qed.

Lemma unmarshal_inet_spec x b t g :
  encode_native Id.inet x = Some b -> dec_compat Id.inet t -> dec_clean Id.inet x t ->
  unmarshal_inet (Some b) t = Ok g -> denote_native Id.inet g = Some (Some x).
Proof.
  intros Henc Hc Hcl Hu.
  assert (Hx : x = VBytes b /\ ((length b =? 4)%nat || (length b =? 16)%nat) = true).
  { destruct x; cbn [encode_native] in Henc; ids; cbn [Z.eqb Pos.eqb orb] in Henc; try discriminate.
    destruct ((length b0 =? 4)%nat || (length b0 =? 16)%nat) eqn:E; [|discriminate]. injection Henc as <-. split; [reflexivity|exact E]. }
  destruct Hx as [-> Hl]. unfold dec_compat in Hc. cbn in Hc. subst t. cbn [dec_clean] in Hcl.
  cbn [unmarshal_inet bytes_of] in Hu.
  assert (Hz : (length b =? 0)%nat = false).
  { destruct (length b) as [|n]; [discriminate Hl | reflexivity]. }
  rewrite Hz, Hl in Hu.
  assert (Hto4 : ip_to4 b = if (length b =? 4)%nat then Some b else None).
  { unfold ip_to4. destruct (length b =? 4)%nat; [reflexivity|]. unfold v4_mapped in Hcl. rewrite Hcl. reflexivity. }
  rewrite Hto4 in Hu.
  assert (Hg : g = GIP b) by (destruct (length b =? 4)%nat; injection Hu as <-; reflexivity). subst g.
  change (denote_native Id.inet (GIP b)) with
      (if v4_mapped b then Some (Some (VBytes (skipn 12 b)))
       else if (length b =? 4)%nat || (length b =? 16)%nat then Some (Some (VBytes b)) else None).
  rewrite Hcl, Hl. reflexivity.
Qed.

(* ---- all native columns ---------------------------------------------------------------------------------------------- *)
Theorem unmarshal_native_spec id x b t g :
  encode_native id x = Some b -> dec_compat id t -> dec_clean id x t ->
  unmarshal_native id (Some b) t = Ok g -> denote_native id g = Some (Some x).
Proof.
  intros Henc Hc Hcl Hu. unfold unmarshal_native in Hu.
  unfold K.TypeVarchar, K.TypeAscii, K.TypeBlob, K.TypeText, K.TypeBoolean, K.TypeTinyInt, K.TypeSmallInt, K.TypeInt, K.TypeBigInt,
    K.TypeCounter, K.TypeFloat, K.TypeDouble, K.TypeDecimal, K.TypeTime, K.TypeTimestamp, K.TypeUUID, K.TypeTimeUUID, K.TypeVarint,
    K.TypeInet, K.TypeDate, K.TypeDuration in Hu.
  destruct (Z.eqb_spec id 13) as [->|]; [cbn [Z.eqb Pos.eqb orb] in Hu; exact (unmarshal_varchar_spec 13 x b t g eq_refl Henc Hc Hcl Hu)|].
  destruct (Z.eqb_spec id 1) as [->|]; [cbn [Z.eqb Pos.eqb orb] in Hu; exact (unmarshal_varchar_spec 1 x b t g eq_refl Henc Hc Hcl Hu)|].
  destruct (Z.eqb_spec id 3) as [->|]; [cbn [Z.eqb Pos.eqb orb] in Hu; exact (unmarshal_varchar_spec 3 x b t g eq_refl Henc Hc Hcl Hu)|].
  destruct (Z.eqb_spec id 10) as [->|]; [cbn [Z.eqb Pos.eqb orb] in Hu; exact (unmarshal_varchar_spec 10 x b t g eq_refl Henc Hc Hcl Hu)|].
  cbn [orb] in Hu.
  destruct (Z.eqb_spec id 4) as [->|]; [cbn [Z.eqb Pos.eqb orb] in Hu; exact (unmarshal_bool_spec x b t g Henc Hc Hu)|].
  destruct (Z.eqb_spec id 9) as [->|].
  { cbn [Z.eqb Pos.eqb orb bytes_of] in Hu. exact (unmarshal_fixed_int Id.int 4 dec_int x b t g ltac:(cbn; tauto) dec_int_be_fixed Henc Hc Hcl Hu). }
  destruct (Z.eqb_spec id 2) as [->|].
  { cbn [Z.eqb Pos.eqb orb bytes_of] in Hu. exact (unmarshal_fixed_int Id.bigint 8 dec_bigint x b t g ltac:(cbn; tauto) dec_bigint_be_fixed Henc Hc Hcl Hu). }
  destruct (Z.eqb_spec id 5) as [->|].
  { cbn [Z.eqb Pos.eqb orb bytes_of] in Hu. exact (unmarshal_fixed_int Id.counter 8 dec_bigint x b t g ltac:(cbn; tauto) dec_bigint_be_fixed Henc Hc Hcl Hu). }
  cbn [orb] in Hu.
  destruct (Z.eqb_spec id 14) as [->|]; [cbn [Z.eqb Pos.eqb orb] in Hu; exact (unmarshal_varint_spec x b t g Henc Hc Hcl Hu)|].
  destruct (Z.eqb_spec id 19) as [->|].
  { cbn [Z.eqb Pos.eqb orb bytes_of] in Hu. exact (unmarshal_fixed_int Id.smallint 2 dec_short x b t g ltac:(cbn; tauto) dec_short_be_fixed Henc Hc Hcl Hu). }
  destruct (Z.eqb_spec id 20) as [->|].
  { cbn [Z.eqb Pos.eqb orb bytes_of] in Hu. exact (unmarshal_fixed_int Id.tinyint 1 dec_tiny x b t g ltac:(cbn; tauto) dec_tiny_be_fixed Henc Hc Hcl Hu). }
  destruct (Z.eqb_spec id 8) as [->|]; [cbn [Z.eqb Pos.eqb orb] in Hu; exact (unmarshal_float_spec x b t g Henc Hc Hcl Hu)|].
  destruct (Z.eqb_spec id 7) as [->|]; [cbn [Z.eqb Pos.eqb orb] in Hu; exact (unmarshal_double_spec x b t g Henc Hc Hu)|].
  destruct (Z.eqb_spec id 6) as [->|]; [cbn [Z.eqb Pos.eqb orb] in Hu; exact (unmarshal_decimal_spec x b t g Henc Hc Hu)|].
  destruct (Z.eqb_spec id 18) as [->|]; [cbn [Z.eqb Pos.eqb orb] in Hu; exact (unmarshal_time_spec x b t g Henc Hc Hu)|].
  destruct (Z.eqb_spec id 11) as [->|]; [cbn [Z.eqb Pos.eqb orb] in Hu; exact (unmarshal_timestamp_spec x b t g Henc Hc Hcl Hu)|].
  destruct (Z.eqb_spec id 15) as [->|].
  { cbn [Z.eqb Pos.eqb orb] in Hu. unfold unmarshal_timeuuid in Hu.
    destruct t; try (exfalso; exact Hc); exact (unmarshal_uuid_spec Id.timeuuid x b _ g (or_intror eq_refl) Henc Hc Hu). }
  destruct (Z.eqb_spec id 12) as [->|]; [cbn [Z.eqb Pos.eqb orb] in Hu; exact (unmarshal_uuid_spec Id.uuid x b t g (or_introl eq_refl) Henc Hc Hu)|].
  destruct (Z.eqb_spec id 16) as [->|]; [cbn [Z.eqb Pos.eqb orb] in Hu; exact (unmarshal_inet_spec x b t g Henc Hc Hcl Hu)|].
  destruct (Z.eqb_spec id 17) as [->|]; [cbn [Z.eqb Pos.eqb orb] in Hu; exact (unmarshal_date_spec x b t g Henc Hc Hcl Hu)|].
  destruct (Z.eqb_spec id 21) as [->|]; [cbn [Z.eqb Pos.eqb orb] in Hu; exact (unmarshal_duration_spec x b t g Henc Hc Hu)|].
  discriminate.
Qed.
