(* C12/Refuted.v -- (1) the full statement still fails on the faithful model inside the region of the one
   finding that is kept (unsigned values reinterpreted as signed): machine-checked witnesses, replayed on
   the real code by the harness; (2) regression facts: the inputs of the findings that were repaired in
   /repo, evaluated on the model of the repaired code (the pre-fix outputs are quoted in the comments). *)
From GocqlV Require Import Lib.Base Gen.Consts C12.Model C12.Spec C12.Denote.

Local Open Scope Z_scope.

(* the full statement of C12 without the exclusions *)
Definition full_statement (pv : Z) (ty : cqlty) (g : gval) : Prop :=
  forall ob ox, marshal pv ty g = Ok ob -> denote ty g = Some ox -> encode_opt pv ty ox = Some ob.

(* ---- open: F-C02-1, uint8 200 into tinyint is accepted and written as c8 = -56 ------------------------------ *)
Theorem unsigned_wrap_refuted : exists g, ~ full_statement 4 (TNative Id.tinyint) g
  /\ marshal 4 (TNative Id.tinyint) g = Ok (Some [200])
  /\ denote (TNative Id.tinyint) g = Some (Some (VInt 200))
  /\ encode_opt 4 (TNative Id.tinyint) (Some (VInt 200)) = None
  /\ encode_opt 4 (TNative Id.tinyint) (Some (VInt (-56))) = Some (Some [200]).
Proof.
  exists (GInt U8 false 200). split; [|repeat split; vm_compute; reflexivity].
  intros H. specialize (H _ _ eq_refl eq_refl). vm_compute in H. discriminate.
Qed.

(* ... and the specification's encoding of -1 read into an unsigned target is 255 *)
Theorem unsigned_decode_refuted :
  encode_value 4 (TNative Id.tinyint) (VInt (-1)) = Some [255]
  /\ unmarshal 4 (TNative Id.tinyint) (Some [255]) (YInt U8 false) = Ok (GInt U8 false 255)
  /\ denote (TNative Id.tinyint) (GInt U8 false 255) = Some (Some (VInt 255)).
Proof. repeat split; vm_compute; reflexivity. Qed.

(* open (kept, explicit error): null into an array target *)
Theorem null_into_array_refuted :
  unmarshal 4 (TList (TNative Id.int)) None (YArray 0 (YInt IInt false)) = Err
  /\ unmarshal 4 (TList (TNative Id.int)) None (YSlice (YInt IInt false)) = Ok (GSlice None).
Proof. split; vm_compute; reflexivity. Qed.

(* ---- repaired (regression facts on the model of the repaired code) -------------------------------------------- *)
(* F-C12-1: big.Int 5 into bigint was 05; a value outside int64 was accepted *)
Example fixed_bigint_bigInt :
  marshal 4 (TNative Id.bigint) (GBig 5) = Ok (Some [0; 0; 0; 0; 0; 0; 0; 5])
  /\ marshal 4 (TNative Id.bigint) (GBig (2 ^ 70)) = Err
  /\ marshal 4 (TNative Id.varint) (GBig (2 ^ 70)) = Ok (Some [64; 0; 0; 0; 0; 0; 0; 0; 0]).
Proof. repeat split; vm_compute; reflexivity. Qed.

(* F-C12-2: a defined int64 type into duration was 00 00 00 00 00 00 00 01 *)
Example fixed_duration_named_int64 : marshal 5 (TNative Id.duration) (GInt I64 true 1) = Ok (Some [0; 0; 2]).
Proof. vm_compute. reflexivity. Qed.

(* F-C12-3: 1969-12-31T23:00:00Z was 80 00 00 00; day numbers outside 32 bits wrapped (2^31 days -> 00 00 00 00) *)
Example fixed_date :
  marshal 4 (TNative Id.date) (GTime (-3600) 0) = Ok (Some [127; 255; 255; 255])
  /\ marshal 4 (TNative Id.date) (GInt I64 false (-1)) = Ok (Some [127; 255; 255; 255])
  /\ marshal 4 (TNative Id.date) (GInt I64 false (2 ^ 31 * 86400000)) = Err
  /\ marshal 4 (TNative Id.date) (GInt I64 false (2 ^ 31 * 86400000 - 1)) = Ok (Some [255; 255; 255; 255])
  /\ marshal 4 (TNative Id.date) (GInt I64 false (- 2 ^ 31 * 86400000)) = Ok (Some [0; 0; 0; 0])
  /\ marshal 4 (TNative Id.date) (GInt I64 false (- 2 ^ 31 * 86400000 - 1)) = Err.
Proof. repeat split; vm_compute; reflexivity. Qed.

(* F-C12-4: a typed nil pointer / nil []byte inside a tuple was written with length 0 *)
Example fixed_tuple_null_component :
  marshal 4 (TTuple [TNative Id.int]) (GIfaces [GPtr None]) = Ok (Some [255; 255; 255; 255])
  /\ marshal 4 (TTuple [TNative Id.blob]) (GIfaces [GBytes false None]) = Ok (Some [255; 255; 255; 255])
  /\ marshal 4 (TTuple [TNative Id.blob]) (GIfaces [GBytes false (Some [])]) = Ok (Some [0; 0; 0; 0])
  /\ marshal 4 (TTuple [TNative Id.int]) (GStruct [([70], [], GPtr (Some (GPtr None)))]) = Ok (Some [255; 255; 255; 255]).
Proof. repeat split; vm_compute; reflexivity. Qed.

(* an untyped nil for a tuple column panicked *)
Example fixed_tuple_untyped_nil :
  marshal 4 (TTuple [TNative Id.int]) GNil = Ok None
  /\ marshal 4 (TList (TTuple [TNative Id.int])) (GIfaces [GNil]) = Ok (Some [0; 0; 0; 1; 255; 255; 255; 255]).
Proof. split; vm_compute; reflexivity. Qed.

(* null into these value targets was an error *)
Example fixed_null_into_value_targets :
  unmarshal 4 (TNative Id.decimal) None YDec = Ok (GDec 0 0)
  /\ unmarshal 4 (TNative Id.inet) None YIP = Ok (GIP [])
  /\ unmarshal 4 (TNative Id.uuid) None YArr16 = Ok (GArr16 zeros16)
  /\ unmarshal 4 (TNative Id.timeuuid) None YTime = Ok (GTime zero_time_sec 0)
  /\ unmarshal 4 (TNative Id.decimal) (Some [0; 0; 0]) YDec = Err.
Proof. repeat split; vm_compute; reflexivity. Qed.

(* ---- why each remaining technical exclusion of [clean_native] / [dec_clean] is needed ------------------------ *)
(* IPv4-mapped inet: the specification's 16-byte value comes back as the 4-byte address (net.IP.To4) *)
Theorem v4_mapped_needed :
  let b := [0;0;0;0;0;0;0;0;0;0;255;255;10;0;0;1] in
  encode_native Id.inet (VBytes b) = Some b
  /\ unmarshal_native Id.inet (Some b) YIP = Ok (GIP [10;0;0;1])
  /\ denote_native Id.inet (GIP [10;0;0;1]) = Some (Some (VBytes [10;0;0;1])).
Proof. cbv zeta. repeat split; vm_compute; reflexivity. Qed.

(* the year-1 instant: Go's zero time.Time, which the documentation treats as "no value" *)
Theorem year_one_needed :
  encode_native Id.timestamp (VInt (-62135596800000)) = Some [255; 255; 199; 124; 237; 211; 40; 0]
  /\ unmarshal_native Id.timestamp (Some [255; 255; 199; 124; 237; 211; 40; 0]) YTime = Ok (GTime (-62135596800) 0)
  /\ denote_native Id.timestamp (GTime (-62135596800) 0) = None
  /\ marshal_native Id.timestamp (GTime (-62135596800) 0) = Ok (Some []).
Proof. repeat split; vm_compute; reflexivity. Qed.

(* the empty blob read into a []byte target is the nil slice, which means null when bound *)
Theorem empty_blob_needed :
  encode_native Id.blob (VBytes []) = Some []
  /\ unmarshal_native Id.blob (Some []) (YBytes false) = Ok (GBytes false None)
  /\ denote_native Id.blob (GBytes false None) = Some None
  /\ unmarshal_native Id.blob (Some []) (YBytes true) = Ok (GBytes true (Some [])).
Proof. repeat split; vm_compute; reflexivity. Qed.

(* a signalling NaN in a defined float32 type comes out quiet (Go converts through float64) *)
Theorem snan_needed :
  marshal_native Id.float (GF32 true 2139095041) = Ok (Some [127; 192; 0; 1])
  /\ marshal_native Id.float (GF32 false 2139095041) = Ok (Some [127; 128; 0; 1])
  /\ unmarshal_native Id.float (Some [127; 128; 0; 1]) (YF32 true) = Ok (GF32 true 2143289345).
Proof. repeat split; vm_compute; reflexivity. Qed.

(* a time.Time whose millisecond count overflows int64 wraps (year 292278995) *)
Theorem ms_overflow_needed :
  marshal_native Id.timestamp (GTime 9223372036854776 0) = Ok (Some [128; 0; 0; 0; 0; 0; 0; 192])
  /\ encode_native Id.timestamp (VInt (9223372036854776 * 1000)) = None.
Proof. split; vm_compute; reflexivity. Qed.

(* a null element into a value (non-pointer) element target becomes the zero value, as documented *)
Theorem null_into_value_elem_needed :
  encode_value 4 (TList (TNative Id.int)) (VList [None]) = Some [0; 0; 0; 1; 255; 255; 255; 255]
  /\ unmarshal 4 (TList (TNative Id.int)) (Some [0; 0; 0; 1; 255; 255; 255; 255]) (YSlice (YInt I32 false)) = Ok (GSlice (Some [GInt I32 false 0]))
  /\ unmarshal 4 (TList (TNative Id.int)) (Some [0; 0; 0; 1; 255; 255; 255; 255]) (YSlice (YPtr (YInt I32 false))) = Ok (GSlice (Some [GPtr None])).
Proof. repeat split; vm_compute; reflexivity. Qed.
