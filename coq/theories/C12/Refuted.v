(* C12/Refuted.v -- the full statements fail on the faithful model exactly inside the known findings'
   regions: machine-checked witnesses (each is replayed on the real code by the harness). *)
From GocqlV Require Import Lib.Base Gen.Consts C12.Model C12.Spec C12.Denote.

Local Open Scope Z_scope.

(* the full statement of C12 without the exclusions *)
Definition full_statement (pv : Z) (ty : cqlty) (g : gval) : Prop :=
  forall ob ox, marshal pv ty g = Ok ob -> denote ty g = Some ox -> encode_opt pv ty ox = Some ob.

(* F-C12-1: big.Int 5 into bigint is one byte; the specification says eight *)
Theorem bigint_bigInt_minimal_refuted : exists g, ~ full_statement 4 (TNative Id.bigint) g
  /\ marshal 4 (TNative Id.bigint) g = Ok (Some [5])
  /\ encode_opt 4 (TNative Id.bigint) (Some (VInt 5)) = Some (Some [0; 0; 0; 0; 0; 0; 0; 5])
  /\ unmarshal 4 (TNative Id.bigint) (Some [5]) (YInt I64 false) = Ok (GInt I64 false 0).
Proof.
  exists (GBig 5). split; [|repeat split; vm_compute; reflexivity].
  intros H. specialize (H (Some [5]) (Some (VInt 5)) eq_refl eq_refl). vm_compute in H. discriminate.
Qed.

(* F-C12-2: a defined int64 type into duration is 8 raw bytes *)
Theorem duration_named_int64_refuted : exists g, ~ full_statement 5 (TNative Id.duration) g
  /\ marshal 5 (TNative Id.duration) g = Ok (Some [0; 0; 0; 0; 0; 0; 0; 1])
  /\ encode_opt 5 (TNative Id.duration) (Some (VDuration 0 0 1)) = Some (Some [0; 0; 2]).
Proof.
  exists (GInt I64 true 1). split; [|split; vm_compute; reflexivity].
  intros H. specialize (H _ _ eq_refl eq_refl). vm_compute in H. discriminate.
Qed.

(* F-C12-3: 1969-12-31T23:00:00Z is written as day 2^31 (1970-01-01) *)
Theorem date_pre_epoch_refuted : exists g, ~ full_statement 4 (TNative Id.date) g
  /\ marshal 4 (TNative Id.date) g = Ok (Some [128; 0; 0; 0])
  /\ denote (TNative Id.date) g = Some (Some (VInt (-1)))
  /\ encode_opt 4 (TNative Id.date) (Some (VInt (-1))) = Some (Some [127; 255; 255; 255]).
Proof.
  exists (GTime (-3600) 0). split; [|repeat split; vm_compute; reflexivity].
  intros H. specialize (H _ _ eq_refl eq_refl). vm_compute in H. discriminate.
Qed.

(* day numbers outside 32 bits wrap silently: 2^31 days after the epoch becomes day 0 *)
Theorem date_out_of_range_refuted : exists g, ~ full_statement 4 (TNative Id.date) g
  /\ marshal 4 (TNative Id.date) g = Ok (Some [0; 0; 0; 0])
  /\ denote (TNative Id.date) g = Some (Some (VInt (2 ^ 31)))
  /\ encode_opt 4 (TNative Id.date) (Some (VInt (2 ^ 31))) = None.
Proof.
  exists (GInt I64 false (2 ^ 31 * 86400000)). split; [|repeat split; vm_compute; reflexivity].
  intros H. specialize (H _ _ eq_refl eq_refl). vm_compute in H. discriminate.
Qed.

(* F-C12-4: a typed nil pointer, or a nil []byte, inside a []interface{} tuple is written with length 0 *)
Theorem tuple_typed_nil_refuted : exists g, ~ full_statement 4 (TTuple [TNative Id.int]) g
  /\ marshal 4 (TTuple [TNative Id.int]) g = Ok (Some [0; 0; 0; 0])
  /\ denote (TTuple [TNative Id.int]) g = Some (Some (VTuple [None]))
  /\ encode_opt 4 (TTuple [TNative Id.int]) (Some (VTuple [None])) = Some (Some [255; 255; 255; 255]).
Proof.
  exists (GIfaces [GPtr None]). split; [|repeat split; vm_compute; reflexivity].
  intros H. specialize (H _ _ eq_refl eq_refl). vm_compute in H. discriminate.
Qed.

Theorem tuple_nil_slice_refuted : exists g, ~ full_statement 4 (TTuple [TNative Id.blob]) g
  /\ marshal 4 (TTuple [TNative Id.blob]) g = Ok (Some [0; 0; 0; 0])
  /\ denote (TTuple [TNative Id.blob]) g = Some (Some (VTuple [None])).
Proof.
  exists (GIfaces [GBytes false None]). split; [|split; vm_compute; reflexivity].
  intros H. specialize (H _ _ eq_refl eq_refl). vm_compute in H. discriminate.
Qed.

(* F-C02-1: uint8 200 into tinyint is accepted and written as c8 = -56 *)
Theorem unsigned_wrap_refuted : exists g, ~ full_statement 4 (TNative Id.tinyint) g
  /\ marshal 4 (TNative Id.tinyint) g = Ok (Some [200])
  /\ denote (TNative Id.tinyint) g = Some (Some (VInt 200))
  /\ encode_opt 4 (TNative Id.tinyint) (Some (VInt 200)) = None
  /\ encode_opt 4 (TNative Id.tinyint) (Some (VInt (-56))) = Some (Some [200]).
Proof.
  exists (GInt U8 false 200). split; [|repeat split; vm_compute; reflexivity].
  intros H. specialize (H _ _ eq_refl eq_refl). vm_compute in H. discriminate.
Qed.

(* ... and the specification's encoding of -1 read into an unsigned target is 255 *)
Theorem unsigned_decode_refuted :
  encode_value 4 (TNative Id.tinyint) (VInt (-1)) = Some [255]
  /\ unmarshal 4 (TNative Id.tinyint) (Some [255]) (YInt U8 false) = Ok (GInt U8 false 255)
  /\ denote (TNative Id.tinyint) (GInt U8 false 255) = Some (Some (VInt 255)).
Proof. repeat split; vm_compute; reflexivity. Qed.

(* an untyped nil for a tuple column panics instead of giving null *)
Theorem tuple_untyped_nil_panics_refuted :
  marshal 4 (TTuple [TNative Id.int]) GNil = Panic /\ denote (TTuple [TNative Id.int]) GNil = Some None
  /\ marshal 4 (TList (TTuple [TNative Id.int])) (GIfaces [GNil]) = Panic.
Proof. repeat split; vm_compute; reflexivity. Qed.

(* null into a non-pointer target is an error for these pairs *)
Theorem null_rejected_refuted :
  unmarshal 4 (TNative Id.decimal) None YDec = Err
  /\ unmarshal 4 (TNative Id.inet) None YIP = Err
  /\ unmarshal 4 (TNative Id.uuid) None YArr16 = Err
  /\ unmarshal 4 (TNative Id.timeuuid) None YTime = Err
  /\ unmarshal 4 (TList (TNative Id.int)) None (YArray 0 (YInt IInt false)) = Err
  /\ unmarshal 4 (TNative Id.int) None (YInt IInt false) = Ok (GInt IInt false 0).
Proof. repeat split; vm_compute; reflexivity. Qed.
