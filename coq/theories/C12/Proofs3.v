(* C12/Proofs3.v -- native columns: what Marshal writes is the specification's encoding of what the
   value means, outside the regions of the known findings. *)
From GocqlV Require Import Lib.Base Lib.Bits Gen.Consts C12.Model C12.Spec C12.Proofs1 C12.Proofs2 C12.Denote.
From Coq Require Import Btauto.

Local Open Scope Z_scope.
Set Default Timeout 100.

(* ---- ParseInt against the decimal notation ------------------------------------------------------------ *)
Lemma digits_val_dec s : forall acc, digits_val s acc = dec_digits s acc.
Proof.
  induction s as [|c r IH]; intros acc; cbn [digits_val dec_digits]; [reflexivity|].
  destruct ((48 <=? c) && (c <=? 57)); [|reflexivity]. rewrite IH. f_equal. lia.
Qed.

Lemma dec_digits_nonneg s : forall acc n, 0 <= acc -> dec_digits s acc = Some n -> 0 <= n.
Proof.
  induction s as [|c r IH]; intros acc n Ha H; cbn [dec_digits] in H.
  - injection H as <-. exact Ha.
  - destruct (Z.leb_spec 48 c); cbn [andb] in H; [|discriminate]. destruct (Z.leb_spec c 57); [|discriminate].
    eapply IH; [|exact H]. lia.
Qed.

Lemma parse_int_decimal s bits n : 1 <= bits -> parse_int s bits = Some n ->
  decimal_value s = Some n /\ - 2 ^ (bits - 1) <= n < 2 ^ (bits - 1).
Proof.
  intros Hb H. unfold parse_int in H. destruct s as [|c r]; [discriminate|].
  assert (Hpos : 0 < 2 ^ (bits - 1)) by (apply Z.pow_pos_nonneg; lia).
  destruct (Z.eqb_spec c 45) as [->|N45].
  - (* minus *) cbn [orb] in H. destruct r as [|c2 r2]; [discriminate|].
    rewrite digits_val_dec in H. destruct (dec_digits (c2 :: r2) 0) as [un|] eqn:E; [|discriminate].
    pose proof (dec_digits_nonneg _ _ _ (Z.le_refl 0) E) as Hun.
    cbn [negb andb] in H. destruct (Z.ltb_spec (2 ^ (bits - 1)) un); [discriminate|]. injection H as <-.
    split; [|lia]. unfold decimal_value. cbn [tl]. rewrite E. reflexivity.
  - destruct (Z.eqb_spec c 43) as [->|N43].
    + cbn [orb] in H. destruct r as [|c2 r2]; [discriminate|].
      rewrite digits_val_dec in H. destruct (dec_digits (c2 :: r2) 0) as [un|] eqn:E; [|discriminate].
      pose proof (dec_digits_nonneg _ _ _ (Z.le_refl 0) E) as Hun.
      cbn [negb andb] in H. destruct (Z.leb_spec (2 ^ (bits - 1)) un); [discriminate|]. injection H as <-.
      split; [|lia]. unfold decimal_value. cbn [tl]. exact E.
    + cbn [orb] in H. rewrite digits_val_dec in H. destruct (dec_digits (c :: r) 0) as [un|] eqn:E; [|discriminate].
      pose proof (dec_digits_nonneg _ _ _ (Z.le_refl 0) E) as Hun.
      cbn [negb andb] in H. destruct (Z.leb_spec (2 ^ (bits - 1)) un); [discriminate|]. injection H as <-.
      split; [|lia]. unfold decimal_value.
      destruct c as [|p|p]; try exact E. 
      do 6 (destruct p as [p|p|]; try exact E); try lia.
Qed.

(* ---- small facts ------------------------------------------------------------------------------------------ *)
Lemma fits_signed_iff (w : nat) z : fits_signed w z = true <-> - 2 ^ (8 * Z.of_nat w - 1) <= z < 2 ^ (8 * Z.of_nat w - 1).
Proof. unfold fits_signed. lia. Qed.

Lemma fixed1 z : -128 <= z <= 127 -> fixed_signed 1 z = Some [byte_of z].
Proof. intros H. unfold fixed_signed. replace (fits_signed 1 z) with true by (symmetry; apply fits_signed_iff; cbn; lia). rewrite enc_tiny_spec. reflexivity. Qed.
Lemma fixed2 z : -32768 <= z <= 32767 -> fixed_signed 2 z = Some (enc_short z).
Proof. intros H. unfold fixed_signed. replace (fits_signed 2 z) with true by (symmetry; apply fits_signed_iff; cbn; lia). rewrite enc_short_spec. reflexivity. Qed.
Lemma fixed4 z : -2147483648 <= z <= 2147483647 -> fixed_signed 4 z = Some (enc_int z).
Proof. intros H. unfold fixed_signed. replace (fits_signed 4 z) with true by (symmetry; apply fits_signed_iff; cbn; lia). rewrite enc_int_spec. reflexivity. Qed.
Lemma fixed8 z : -9223372036854775808 <= z <= 9223372036854775807 -> fixed_signed 8 z = Some (enc_bigint z).
Proof. intros H. unfold fixed_signed. replace (fits_signed 8 z) with true by (symmetry; apply fits_signed_iff; cbn; lia). rewrite enc_bigint_spec. reflexivity. Qed.

Lemma trim8 z : -9223372036854775808 <= z <= 9223372036854775807 -> varint_trim (enc_bigint z) = varint_bytes z.
Proof. intros H. rewrite enc_bigint_spec. apply (varint_trim_minimal 7). apply fits_signed_iff. cbn. lia. Qed.

Lemma trim9 z : 9223372036854775807 < z <= 18446744073709551615 -> varint_trim (0 :: enc_bigint z) = varint_bytes z.
Proof.
  intros H. rewrite enc_bigint_spec. replace (0 :: be_fixed 8 z) with (be_fixed 9 z).
  - apply (varint_trim_minimal 8). apply fits_signed_iff. cbn. lia.
  - rewrite (be_fixed_S 8). f_equal. change (256 ^ Z.of_nat 8) with 18446744073709551616. rewrite Z.div_small by lia. reflexivity.
Qed.

Lemma trim_minimal z : varint_trim (varint_bytes z) = varint_bytes z.
Proof.
  unfold varint_bytes at 1. pose proof (size2c_pos z). destruct (size2c z) as [|w] eqn:E; [lia|].
  apply varint_trim_minimal. apply size2c_le; lia.
Qed.

Lemma kind_range k z : kmin k <= z <= kmax k -> -9223372036854775808 <= z <= 18446744073709551615
  /\ (is_signed k = true -> z <= 9223372036854775807) /\ (is_signed k = false -> 0 <= z).
Proof. destruct k; cbn; lia. Qed.

(* ---- the integer family ----------------------------------------------------------------------------------- *)
Definition enc_opt_native (id : Z) (x : option cqlval) : option (option bytes) :=
  match x with None => Some None | Some v => option_map Some (encode_native id v) end.

Definition denote_int (wide : bool) (g : gval) : dres :=
  match g with
  | GNil => Some None
  | GUnset => None
  | GInt _ _ z => Some (Some (VInt z))
  | GDur z => Some (Some (VInt z))
  | GBig z => if wide then Some (Some (VInt z)) else None
  | GStr false s => match decimal_value s with Some z => Some (Some (VInt z)) | None => None end
  | _ => None
  end.

Lemma denote_native_int id g : In id [Id.tinyint; Id.smallint; Id.int; Id.bigint; Id.counter; Id.varint] ->
  denote_native id g = denote_int (is_wide id) g.
Proof.
  intros Hin. cbn in Hin. repeat (destruct Hin as [<-|Hin]; [destruct g as [| | | [] | | | | | | | | | | | | | | | | | | | | ]; reflexivity|]). contradiction.
Qed.

(* Ok a = Ok b  ->  b replaced by a, without letting injection reduce the payload *)
Ltac ok_inv H :=
  apply (f_equal (fun r => match r with Ok a => a | _ => None end)) in H; cbv beta iota delta [some_bytes] in H; subst.

Ltac split_ifs :=
  repeat match goal with
         | H : context [if ?c then _ else _] |- _ =>
             match type of c with bool => let E := fresh "E" in destruct c eqn:E; try discriminate end
         end.

Ltac int_hyps :=
  unfold MaxInt8, MinInt8, MaxUint8, MaxInt16, MinInt16, MaxUint16, MaxInt32, MinInt32, MaxUint32, MaxInt64 in *;
  repeat match goal with
         | H : (_ || _) = false |- _ => apply Bool.orb_false_iff in H; destruct H
         | H : (_ <? _) = false |- _ => apply Z.ltb_ge in H
         | H : (_ <? _) = true |- _ => apply Z.ltb_lt in H
         end.

Lemma marshal_tinyint_spec g ob x : wf_native g -> clean_native Id.tinyint g ->
  marshal_tinyint g = Ok ob -> denote_int false g = Some x -> enc_opt_native Id.tinyint x = Some ob.
Proof.
  intros Hwf Hcl Hm Hd. destruct g as [| |k named z|named s| | | | | | | | ns| | | | | | | | | | | | ]; cbn [marshal_tinyint as_named denote_int] in *; try discriminate.
  - injection Hm as <-. injection Hd as <-. reflexivity.
  - injection Hd as <-. specialize (Hcl 127 eq_refl). cbn [wf_native] in Hwf.
    cbn [enc_opt_native encode_native]. change (Id.tinyint =? Id.tinyint) with true. cbv iota.
    destruct named, k; cbn [is_signed kmin kmax] in *; split_ifs; int_hyps; injection Hm as <-;
      rewrite fixed1 by (try specialize (Hcl eq_refl); lia); reflexivity.
  - destruct named; [discriminate|]. destruct (parse_int s 8) as [n|] eqn:E; [|discriminate]. injection Hm as <-.
    apply parse_int_decimal in E; [|lia]. destruct E as [E Hr]. rewrite E in Hd. injection Hd as <-. change (2 ^ (8 - 1)) with 128 in Hr.
    cbn [enc_opt_native encode_native]. change (Id.tinyint =? Id.tinyint) with true. cbv iota. rewrite fixed1 by lia. reflexivity.
  - injection Hd as <-. cbn [wf_native] in Hwf. cbn [is_signed] in Hm. split_ifs. int_hyps. injection Hm as <-.
    cbn [enc_opt_native encode_native]. change (Id.tinyint =? Id.tinyint) with true. cbv iota. rewrite fixed1 by lia. reflexivity.
Qed.

Ltac enc_id :=
  cbn [enc_opt_native encode_native];
  unfold Id.ascii, Id.bigint, Id.blob, Id.boolean, Id.counter, Id.decimal, Id.double, Id.float, Id.int, Id.text, Id.timestamp,
    Id.uuid, Id.varchar, Id.varint, Id.timeuuid, Id.inet, Id.date, Id.time, Id.smallint, Id.tinyint, Id.duration;
  cbn [Z.eqb Pos.eqb orb].

Lemma marshal_smallint_spec g ob x : wf_native g -> clean_native Id.smallint g ->
  marshal_smallint g = Ok ob -> denote_int false g = Some x -> enc_opt_native Id.smallint x = Some ob.
Proof.
  intros Hwf Hcl Hm Hd. destruct g as [| |k named z|named s| | | | | | | | ns| | | | | | | | | | | | ]; cbn [marshal_smallint as_named denote_int] in *; try discriminate.
  - injection Hm as <-. injection Hd as <-. reflexivity.
  - injection Hd as <-. specialize (Hcl 32767 eq_refl). cbn [wf_native] in Hwf. enc_id.
    destruct named, k; cbn [is_signed kmin kmax] in *; split_ifs; int_hyps; injection Hm as <-;
      rewrite fixed2 by (try specialize (Hcl eq_refl); lia); reflexivity.
  - destruct named; [discriminate|]. destruct (parse_int s 16) as [n|] eqn:E; [|discriminate]. injection Hm as <-.
    apply parse_int_decimal in E; [|lia]. destruct E as [E Hr]. rewrite E in Hd. injection Hd as <-. change (2 ^ (16 - 1)) with 32768 in Hr.
    enc_id. rewrite fixed2 by lia. reflexivity.
  - injection Hd as <-. cbn [wf_native] in Hwf. cbn [is_signed] in Hm. split_ifs. int_hyps. injection Hm as <-.
    enc_id. rewrite fixed2 by lia. reflexivity.
Qed.

Lemma marshal_int_spec g ob x : wf_native g -> clean_native Id.int g ->
  marshal_int g = Ok ob -> denote_int false g = Some x -> enc_opt_native Id.int x = Some ob.
Proof.
  intros Hwf Hcl Hm Hd. destruct g as [| |k named z|named s| | | | | | | | ns| | | | | | | | | | | | ]; cbn [marshal_int as_named denote_int] in *; try discriminate.
  - injection Hm as <-. injection Hd as <-. reflexivity.
  - injection Hd as <-. specialize (Hcl 2147483647 eq_refl). cbn [wf_native] in Hwf. enc_id.
    destruct named, k; cbn [is_signed kmin kmax] in *; split_ifs; int_hyps; injection Hm as <-;
      rewrite fixed4 by (try specialize (Hcl eq_refl); lia); reflexivity.
  - destruct named; [discriminate|]. destruct (parse_int s 32) as [n|] eqn:E; [|discriminate]. injection Hm as <-.
    apply parse_int_decimal in E; [|lia]. destruct E as [E Hr]. rewrite E in Hd. injection Hd as <-. change (2 ^ (32 - 1)) with 2147483648 in Hr.
    enc_id. rewrite fixed4 by lia. reflexivity.
  - injection Hd as <-. cbn [wf_native] in Hwf. cbn [is_signed] in Hm. split_ifs. int_hyps. injection Hm as <-.
    enc_id. rewrite fixed4 by lia. reflexivity.
Qed.

Lemma size2c_8 z : size2c z = 8%nat -> fits_signed 8 z = true /\ varint_bytes z = be_fixed 8 z.
Proof. intros E. split; [apply size2c_le; lia | unfold varint_bytes; rewrite E; reflexivity]. Qed.

Ltac norm_big H :=
  unfold MaxInt64 in H; pow_consts; split_ifs; int_hyps; ok_inv H.

Lemma marshal_bigint_spec id g ob x : id = Id.bigint \/ id = Id.counter -> wf_native g -> clean_native id g ->
  marshal_bigint g = Ok ob -> denote_int true g = Some x -> enc_opt_native id x = Some ob.
Proof.
  intros Hid Hwf Hcl Hm Hd.
  assert (Henc : forall z, -9223372036854775808 <= z <= 9223372036854775807 -> enc_opt_native id (Some (VInt z)) = Some (Some (enc_bigint z))).
  { intros z Hz. destruct Hid as [-> | ->]; enc_id; rewrite fixed8 by lia; reflexivity. }
  destruct g as [| |k named z|named s| | | | |z| | | ns| | | | | | | | | | | | ]; cbn [marshal_bigint as_named denote_int] in *; try discriminate.
  - injection Hm as <-. injection Hd as <-. reflexivity.
  - injection Hd as <-. specialize (Hcl 9223372036854775807).
    assert (Hmx : col_signed_max id = Some 9223372036854775807) by (destruct Hid as [-> | ->]; reflexivity). specialize (Hcl Hmx).
    cbn [wf_native] in Hwf.
    destruct named, k; cbn [is_signed kmin kmax] in *.
    all: split_ifs.
    all: int_hyps.
    all: injection Hm as <-.
    all: (rewrite Henc by (try specialize (Hcl eq_refl); lia)).
    all: reflexivity.
  - destruct named; [discriminate|]. destruct (parse_int s 64) as [n|] eqn:E; [|discriminate]. injection Hm as <-.
    apply parse_int_decimal in E; [|lia]. destruct E as [E Hr]. rewrite E in Hd. injection Hd as <-. change (2 ^ (64 - 1)) with 9223372036854775808 in Hr.
    rewrite Henc by lia. reflexivity.
  - (* big.Int: 8 bytes, values outside int64 rejected *)
    injection Hd as <-. norm_big Hm. rewrite Henc by lia. reflexivity.
  - injection Hd as <-. cbn [wf_native] in Hwf. cbn [is_signed] in Hm. injection Hm as <-. rewrite Henc by lia. reflexivity.
Qed.

Lemma marshal_varint_spec g ob x : wf_native g ->
  marshal_varint g = Ok ob -> denote_int true g = Some x -> enc_opt_native Id.varint x = Some ob.
Proof.
  intros Hwf Hm Hd.
  assert (Henc : forall z, enc_opt_native Id.varint (Some (VInt z)) = Some (Some (varint_bytes z))) by (intros; reflexivity).
  destruct g as [| |k named z|named s| | | | |z| | | ns| | | | | | | | | | | | ]; try discriminate.
  - injection Hm as <-. injection Hd as <-. reflexivity.
  - cbn [denote_int] in Hd. injection Hd as <-. cbn [wf_native] in Hwf. rewrite Henc.
    destruct named, k; unfold some_bytes in *; cbn [marshal_varint marshal_bigint as_named is_signed kmin kmax] in *.
    all: split_ifs.
    all: int_hyps.
    all: ok_inv Hm.
    all: first [rewrite trim8 by lia | rewrite trim9 by lia].
    all: reflexivity.
  - cbn [marshal_varint marshal_bigint as_named denote_int] in *. destruct named; [discriminate|].
    destruct (parse_int s 64) as [n|] eqn:E; [|discriminate]. ok_inv Hm.
    apply parse_int_decimal in E; [|lia]. destruct E as [E Hr]. rewrite E in Hd. injection Hd as <-. change (2 ^ (64 - 1)) with 9223372036854775808 in Hr.
    rewrite Henc, trim8 by lia. reflexivity.
  - cbn [marshal_varint marshal_bigint as_named denote_int] in *. injection Hd as <-. ok_inv Hm.
    rewrite Henc, enc_bigint2c_minimal, trim_minimal. reflexivity.
  - cbn [marshal_varint marshal_bigint as_named denote_int is_signed] in *. injection Hd as <-. cbn [wf_native] in Hwf. ok_inv Hm.
    rewrite Henc, trim8 by lia. reflexivity.
Qed.

(* ---- bits of float32 ---------------------------------------------------------------------------------------- *)
Lemma lor_pow2 a k : 0 <= k -> Z.lor a (2 ^ k) = if Z.testbit a k then a else a + 2 ^ k.
Proof.
  intros Hk. destruct (Z.testbit a k) eqn:E.
  - apply Z.bits_inj'. intros n Hn. rewrite Z.lor_spec, Z.pow2_bits_eqb by lia.
    destruct (Z.eqb_spec k n) as [->|]; [rewrite E; reflexivity | apply orb_false_r].
  - apply lor_add_disjoint. apply Z.bits_inj'. intros n Hn. rewrite Z.land_spec, Z.pow2_bits_eqb, Z.bits_0 by lia.
    destruct (Z.eqb_spec k n) as [->|]; [rewrite E; reflexivity | apply andb_false_r].
Qed.

Lemma quiet32_spec bits : 0 <= bits -> quiet32 bits = quiet_nan32 bits.
Proof.
  intros Hb. unfold quiet32, quiet_nan32, nez.
  rewrite Z.shiftr_div_pow2 by lia.
  change 255 with (2 ^ 8 - 1) at 1. rewrite land_ones_mod by lia. change (2 ^ 8) with 256.
  change 8388607 with (2 ^ 23 - 1). rewrite land_ones_mod by lia.
  change 4194304 with (2 ^ 22). rewrite lor_pow2 by lia.
  destruct ((bits / 2 ^ 23) mod 256 =? 255); cbn [andb]; [|reflexivity].
  destruct (bits mod 2 ^ 23 =? 0); cbn [negb andb]; [reflexivity|].
  destruct (Z.testbit bits 22) eqn:E.
  - apply Z.testbit_true in E; [|lia]. rewrite E. reflexivity.
  - apply Z.testbit_false in E; [|lia]. rewrite E. reflexivity.
Qed.

Lemma signed64_id x : - 2 ^ 63 <= x < 2 ^ 63 -> signed 64 x = x.
Proof. intros H. unfold signed. pow_consts. destruct (Z.ltb_spec (x mod 18446744073709551616) 9223372036854775808); lia. Qed.

Lemma fixedu4 z : 0 <= z < 2 ^ 32 -> (if fits_unsigned 4 z then Some (be_fixed 4 z) else None) = Some (enc_int z).
Proof. intros H. unfold fits_unsigned. cbn [Z.of_nat Pos.of_succ_nat Pos.succ Z.mul Pos.mul]. rewrite enc_int_spec. destruct (Z.leb_spec 0 z); destruct (Z.ltb_spec z (2 ^ 32)); try lia; reflexivity. Qed.
Lemma fixedu8 z : 0 <= z < 2 ^ 64 -> (if fits_unsigned 8 z then Some (be_fixed 8 z) else None) = Some (enc_bigint z).
Proof. intros H. unfold fits_unsigned. cbn [Z.of_nat Pos.of_succ_nat Pos.succ Z.mul Pos.mul]. rewrite enc_bigint_spec. destruct (Z.leb_spec 0 z); destruct (Z.ltb_spec z (2 ^ 64)); try lia; reflexivity. Qed.

Lemma quiet_nan32_range bits : 0 <= bits < 2 ^ 32 -> 0 <= quiet_nan32 bits < 2 ^ 32.
Proof.
  intros H. unfold quiet_nan32. pow_consts.
  destruct ((bits / 8388608) mod 256 =? 255); cbn [andb]; [|lia].
  destruct (bits mod 8388608 =? 0); cbn [negb andb]; [lia|].
  destruct (Z.eqb_spec ((bits / 4194304) mod 2) 0); lia.
Qed.

(* ---- the other native families --------------------------------------------------------------------------------- *)
Lemma marshal_varchar_spec id g ob x : is_text id = true ->
  marshal_varchar g = Ok ob -> denote_native id g = Some x -> enc_opt_native id x = Some ob.
Proof.
  intros Hid Hm Hd. unfold denote_native in Hd. rewrite Hid in Hd.
  assert (Henc : forall b, enc_opt_native id (Some (VBytes b)) = Some (Some b)).
  { intros b. cbn [enc_opt_native encode_native]. unfold is_text in Hid. rewrite Hid. reflexivity. }
  destruct g as [| | |named s|named [b|]| | | | | | | | | | |ipb| | | | | | | | ]; cbn [marshal_varchar] in *; try discriminate;
    ok_inv Hm; try (injection Hd as <-); try discriminate; try rewrite Henc; try reflexivity.
Qed.

Lemma marshal_bool_spec g ob x :
  marshal_bool g = Ok ob -> denote_native Id.boolean g = Some x -> enc_opt_native Id.boolean x = Some ob.
Proof.
  intros Hm Hd. destruct g as [| | | | |named b| | | | | | | | | | | | | | | | | | ]; cbn in Hm, Hd; try discriminate;
    injection Hm as <-; injection Hd as <-; reflexivity.
Qed.

Lemma marshal_float_spec g ob x : wf_native g ->
  marshal_float g = Ok ob -> denote_native Id.float g = Some x -> enc_opt_native Id.float x = Some ob.
Proof.
  intros Hwf Hm Hd. destruct g as [| | | | | |named bits| | | | | | | | | | | | | | | | | ]; try discriminate.
  - injection Hm as <-. injection Hd as <-. reflexivity.
  - cbn [wf_native] in Hwf. change (denote_native Id.float (GF32 named bits)) with (Some (Some (VFloat (if named then quiet_nan32 bits else bits)))) in Hd.
    injection Hd as <-. destruct named; cbn [marshal_float] in Hm; ok_inv Hm; enc_id.
    + rewrite quiet32_spec by lia. rewrite fixedu4 by (apply quiet_nan32_range; lia). reflexivity.
    + rewrite fixedu4 by lia. reflexivity.
Qed.

Lemma marshal_double_spec g ob x : wf_native g ->
  marshal_double g = Ok ob -> denote_native Id.double g = Some x -> enc_opt_native Id.double x = Some ob.
Proof.
  intros Hwf Hm Hd. destruct g as [| | | | | | |named bits| | | | | | | | | | | | | | | | ]; try discriminate.
  - injection Hm as <-. injection Hd as <-. reflexivity.
  - cbn [wf_native] in Hwf. change (denote_native Id.double (GF64 named bits)) with (Some (Some (VFloat bits))) in Hd.
    injection Hd as <-. cbn [marshal_double] in Hm. ok_inv Hm. enc_id. rewrite fixedu8 by lia. reflexivity.
Qed.

Lemma marshal_decimal_spec g ob x : wf_native g ->
  marshal_decimal g = Ok ob -> denote_native Id.decimal g = Some x -> enc_opt_native Id.decimal x = Some ob.
Proof.
  intros Hwf Hm Hd. destruct g as [| | | | | | | | |u sc| | | | | | | | | | | | | | ]; try discriminate.
  - injection Hm as <-. injection Hd as <-. reflexivity.
  - cbn [wf_native] in Hwf. change (denote_native Id.decimal (GDec u sc)) with (Some (Some (VDecimal u sc))) in Hd.
    injection Hd as <-. cbn [marshal_decimal] in Hm. ok_inv Hm. enc_id.
    replace (fits_signed 4 sc) with true by (symmetry; apply fits_signed_iff; cbn; pow_consts; lia).
    rewrite enc_int_spec, enc_bigint2c_minimal. reflexivity.
Qed.

Lemma marshal_time_spec g ob x : wf_native g ->
  marshal_time g = Ok ob -> denote_native Id.time g = Some x -> enc_opt_native Id.time x = Some ob.
Proof.
  intros Hwf Hm Hd.
  destruct g as [| |k named z| | | | | | | | |ns| | | | | | | | | | | | ]; try discriminate.
  - injection Hm as <-. injection Hd as <-. reflexivity.
  - destruct k; try discriminate. change (denote_native Id.time (GInt I64 named z)) with (Some (Some (VInt z))) in Hd.
    injection Hd as <-. cbn [wf_native kmin kmax] in Hwf. cbn [marshal_time] in Hm. ok_inv Hm. enc_id. rewrite fixed8 by lia. reflexivity.
  - change (denote_native Id.time (GDur ns)) with (Some (Some (VInt ns))) in Hd.
    injection Hd as <-. cbn [wf_native] in Hwf. cbn [marshal_time] in Hm. ok_inv Hm. enc_id. rewrite fixed8 by (pow_consts; lia). reflexivity.
Qed.

Lemma time_millis_spec sec nsec : 0 <= nsec < 1000000000 -> - 2 ^ 63 <= sec * 1000 -> millis_of sec nsec < 2 ^ 63 ->
  time_millis sec nsec = millis_of sec nsec.
Proof.
  intros Hn Hlo Hhi. unfold time_millis, millis_of in *. rewrite (signed64_id (sec * 1000)) by (pow_consts; lia).
  apply signed64_id. pow_consts. lia.
Qed.

Lemma marshal_timestamp_spec g ob x : wf_native g -> clean_native Id.timestamp g ->
  marshal_timestamp g = Ok ob -> denote_native Id.timestamp g = Some x -> enc_opt_native Id.timestamp x = Some ob.
Proof.
  intros Hwf Hcl Hm Hd.
  destruct g as [| |k named z| | | | | | | |sec nsec|ns| | | | | | | | | | | | ]; try discriminate.
  - injection Hm as <-. injection Hd as <-. reflexivity.
  - destruct k; try discriminate. change (denote_native Id.timestamp (GInt I64 named z)) with (Some (Some (VInt z))) in Hd.
    injection Hd as <-. cbn [wf_native kmin kmax] in Hwf. cbn [marshal_timestamp] in Hm. ok_inv Hm. enc_id. rewrite fixed8 by lia. reflexivity.
  - change (denote_native Id.timestamp (GTime sec nsec)) with (if zero_time sec nsec then None else Some (Some (VInt (millis_of sec nsec)))) in Hd.
    cbn [marshal_timestamp] in Hm. change (time_is_zero sec nsec) with (zero_time sec nsec) in Hm.
    destruct (zero_time sec nsec); [discriminate|]. injection Hd as <-. ok_inv Hm.
    cbn [wf_native clean_native] in *. specialize (Hcl (or_introl eq_refl)). destruct Hcl as [Hlo Hhi].
    rewrite time_millis_spec by assumption. enc_id.
    rewrite fixed8; [reflexivity|]. unfold millis_of in *. pow_consts. lia.
Qed.

Lemma floor_days ts :
  (if Z.rem ts K.millisecondsInADay <? 0 then Z.quot ts K.millisecondsInADay - 1 else Z.quot ts K.millisecondsInADay) = ts / ms_per_day.
Proof.
  change K.millisecondsInADay with 86400000. unfold ms_per_day.
  pose proof (Z.quot_rem ts 86400000 ltac:(lia)) as Hq. pose proof (Z.rem_bound_abs ts 86400000 ltac:(lia)) as Hr.
  assert (Hs : 0 <= ts -> 0 <= Z.rem ts 86400000) by (intros; apply Z.rem_nonneg; lia).
  assert (Hs' : ts <= 0 -> Z.rem ts 86400000 <= 0) by (intros; apply Z.rem_nonpos; lia).
  set (q := Z.quot ts 86400000) in *. set (r := Z.rem ts 86400000) in *. cbn in Hr. clearbody q r.
  destruct (Z.ltb_spec r 0); lia.
Qed.

Lemma enc_date_spec ts ob : enc_date ts = Ok ob ->
  enc_opt_native Id.date (Some (VInt (ts / ms_per_day))) = Some ob.
Proof.
  unfold enc_date. cbv zeta. rewrite floor_days. unfold MinInt32, MaxInt32. intros H.
  destruct (Z.ltb_spec (ts / ms_per_day) (-2147483648)); [discriminate|]. destruct (Z.ltb_spec 2147483647 (ts / ms_per_day)); [discriminate|].
  cbn [orb] in H. ok_inv H. enc_id.
  replace (fits_signed 4 (ts / ms_per_day)) with true by (symmetry; apply fits_signed_iff; cbn; lia).
  rewrite enc_int_spec, Z.shiftl_1_l. reflexivity.
Qed.

Lemma marshal_date_spec g ob x : wf_native g -> clean_native Id.date g ->
  marshal_date g = Ok ob -> denote_native Id.date g = Some x -> enc_opt_native Id.date x = Some ob.
Proof.
  intros Hwf Hcl Hm Hd.
  destruct g as [| |k named z|named s| | | | | | |sec nsec| | | | | | | | | | | | | ]; try discriminate.
  - injection Hm as <-. injection Hd as <-. reflexivity.
  - destruct k; try discriminate. destruct named; [discriminate|].
    change (denote_native Id.date (GInt I64 false z)) with (Some (Some (VInt (z / ms_per_day)))) in Hd.
    injection Hd as <-. cbn [marshal_date] in Hm. apply enc_date_spec. exact Hm.
  - change (denote_native Id.date (GTime sec nsec)) with (if zero_time sec nsec then None else Some (Some (VInt (millis_of sec nsec / ms_per_day)))) in Hd.
    cbn [marshal_date] in Hm. change (time_is_zero sec nsec) with (zero_time sec nsec) in Hm.
    destruct (zero_time sec nsec); [discriminate|]. injection Hd as <-.
    cbn [wf_native clean_native] in *. specialize (Hcl (or_intror eq_refl)).
    destruct Hcl as [Hlo Hhi]. rewrite time_millis_spec in Hm by assumption. apply enc_date_spec. exact Hm.
Qed.

Lemma enc_vints_spec m d n : - 2 ^ 31 <= m < 2 ^ 31 -> - 2 ^ 31 <= d < 2 ^ 31 -> - 2 ^ 63 <= n < 2 ^ 63 ->
  enc_opt_native Id.duration (Some (VDuration m d n)) = Some (Some (enc_vints m d n)).
Proof.
  intros Hm Hd Hn. enc_id.
  replace (fits_signed 4 m) with true by (symmetry; apply fits_signed_iff; cbn; pow_consts; lia).
  replace (fits_signed 4 d) with true by (symmetry; apply fits_signed_iff; cbn; pow_consts; lia).
  replace (fits_signed 8 n) with true by (symmetry; apply fits_signed_iff; cbn; pow_consts; lia).
  cbn [andb]. unfold enc_vints. rewrite !enc_vint_spec by (unfold int64; pow_consts; lia). reflexivity.
Qed.

Lemma marshal_duration_spec g ob x : wf_native g -> clean_native Id.duration g ->
  marshal_duration g = Ok ob -> denote_native Id.duration g = Some x -> enc_opt_native Id.duration x = Some ob.
Proof.
  intros Hwf Hcl Hm Hd.
  destruct g as [| |k named z| | | | | | | | |ns|m d n| | | | | | | | | | | ]; try discriminate.
  - injection Hm as <-. injection Hd as <-. reflexivity.
  - destruct k; try discriminate. change (denote_native Id.duration (GInt I64 named z)) with (Some (Some (VDuration 0 0 z))) in Hd.
    injection Hd as <-.
    cbn [wf_native kmin kmax] in Hwf. cbn [marshal_duration] in Hm. ok_inv Hm. apply enc_vints_spec; pow_consts; lia.
  - change (denote_native Id.duration (GDur ns)) with (Some (Some (VDuration 0 0 ns))) in Hd.
    injection Hd as <-. cbn [wf_native] in Hwf. cbn [marshal_duration] in Hm. ok_inv Hm. apply enc_vints_spec; pow_consts; lia.
  - change (denote_native Id.duration (GCqlDur m d n)) with (Some (Some (VDuration m d n))) in Hd.
    injection Hd as <-. cbn [wf_native] in Hwf. cbn [marshal_duration] in Hm. ok_inv Hm. apply enc_vints_spec; tauto.
Qed.

Lemma marshal_uuid_spec id g ob x : id = Id.uuid \/ id = Id.timeuuid -> wf_native g ->
  marshal_uuid g = Ok ob -> denote_native id g = Some x -> enc_opt_native id x = Some ob.
Proof.
  intros Hid Hwf Hm Hd.
  assert (Henc : forall b, length b = 16%nat -> enc_opt_native id (Some (VBytes b)) = Some (Some b)).
  { intros b Hb. destruct Hid as [-> | ->]; enc_id; rewrite Hb; reflexivity. }
  assert (Hden : denote_native id g = match g with
                                     | GNil => Some None | GUnset => None
                                     | GUUID b => Some (Some (VBytes b)) | GArr16 b => Some (Some (VBytes b))
                                     | GBytes false (Some b) => if (length b =? 16)%nat then Some (Some (VBytes b)) else None
                                     | _ => None end).
  { destruct Hid as [-> | ->]; destruct g as [| | | |[] [b|]| | | | | | | | | | | | | | | | | | | ]; reflexivity. }
  rewrite Hden in Hd. clear Hden.
  destruct g as [| | |named s|named [b|]| | | | | | | | |b|b| | | | | | | | | ]; cbn [marshal_uuid] in Hm; try discriminate.
  all: try (destruct named; try discriminate).
  all: try (injection Hm as <-; injection Hd as <-; reflexivity).
  - destruct (length b =? 16)%nat eqn:E; [|discriminate]. apply Nat.eqb_eq in E.
    injection Hd as <-. ok_inv Hm. apply Henc. exact E.
  - injection Hd as <-. ok_inv Hm. apply Henc. exact Hwf.
  - injection Hd as <-. ok_inv Hm. apply Henc. exact Hwf.
Qed.

Lemma marshal_inet_spec g ob x :
  marshal_inet g = Ok ob -> denote_native Id.inet g = Some x -> enc_opt_native Id.inet x = Some ob.
Proof.
  intros Hm Hd. destruct g as [| | | | | | | | | | | | | | |b| | | | | | | | ]; try discriminate.
  - injection Hm as <-. injection Hd as <-. reflexivity.
  - change (denote_native Id.inet (GIP b)) with
      (if v4_mapped b then Some (Some (VBytes (skipn 12 b)))
       else if (length b =? 4)%nat || (length b =? 16)%nat then Some (Some (VBytes b)) else None) in Hd.
    cbn [marshal_inet] in Hm. unfold ip_to4, ip_to16, v4_mapped in *.
    destruct (length b =? 4)%nat eqn:E4.
    + (* 4 bytes *) apply Nat.eqb_eq in E4. replace (length b =? 16)%nat with false in Hd by (symmetry; apply Nat.eqb_neq; lia).
      cbn [andb orb] in Hd. injection Hd as <-. ok_inv Hm. enc_id. rewrite E4. reflexivity.
    + destruct (length b =? 16)%nat eqn:E16; cbn [andb orb] in *; [|discriminate].
      apply Nat.eqb_eq in E16.
      destruct (forallb (fun x0 : Z => x0 =? 0) (firstn 10 b) && (nth 10 b 0 =? 255) && (nth 11 b 0 =? 255)).
      * assert (Hlen : length (skipn 12 b) = 4%nat) by (rewrite skipn_length; lia).
        set (sk := skipn 12 b) in *. clearbody sk. injection Hd as <-. ok_inv Hm. enc_id. rewrite Hlen. reflexivity.
      * injection Hd as <-. ok_inv Hm. enc_id. rewrite E16. reflexivity.
Qed.

(* ---- all native columns ------------------------------------------------------------------------------------------ *)
Theorem marshal_native_spec id g ob x : wf_native g -> clean_native id g ->
  marshal_native id g = Ok ob -> denote_native id g = Some x -> enc_opt_native id x = Some ob.
Proof.
  intros Hwf Hcl Hm Hd. unfold marshal_native in Hm.
  unfold K.TypeVarchar, K.TypeAscii, K.TypeBlob, K.TypeText, K.TypeBoolean, K.TypeTinyInt, K.TypeSmallInt, K.TypeInt, K.TypeBigInt,
    K.TypeCounter, K.TypeFloat, K.TypeDouble, K.TypeDecimal, K.TypeTime, K.TypeTimestamp, K.TypeUUID, K.TypeTimeUUID, K.TypeVarint,
    K.TypeInet, K.TypeDate, K.TypeDuration in Hm.
  destruct (Z.eqb_spec id 13) as [->|]; [cbn [Z.eqb Pos.eqb orb] in Hm; exact (marshal_varchar_spec 13 g ob x eq_refl Hm Hd)|].
  destruct (Z.eqb_spec id 1) as [->|]; [cbn [Z.eqb Pos.eqb orb] in Hm; exact (marshal_varchar_spec 1 g ob x eq_refl Hm Hd)|].
  destruct (Z.eqb_spec id 3) as [->|]; [cbn [Z.eqb Pos.eqb orb] in Hm; exact (marshal_varchar_spec 3 g ob x eq_refl Hm Hd)|].
  destruct (Z.eqb_spec id 10) as [->|]; [cbn [Z.eqb Pos.eqb orb] in Hm; exact (marshal_varchar_spec 10 g ob x eq_refl Hm Hd)|].
  cbn [orb] in Hm.
  destruct (Z.eqb_spec id 4) as [->|]; [cbn [Z.eqb Pos.eqb orb] in Hm; exact (marshal_bool_spec g ob x Hm Hd)|].
  destruct (Z.eqb_spec id 20) as [->|].
  { cbn [Z.eqb Pos.eqb orb] in Hm. rewrite (denote_native_int Id.tinyint) in Hd by (cbn; tauto). exact (marshal_tinyint_spec g ob x Hwf Hcl Hm Hd). }
  destruct (Z.eqb_spec id 19) as [->|].
  { cbn [Z.eqb Pos.eqb orb] in Hm. rewrite (denote_native_int Id.smallint) in Hd by (cbn; tauto). exact (marshal_smallint_spec g ob x Hwf Hcl Hm Hd). }
  destruct (Z.eqb_spec id 9) as [->|].
  { cbn [Z.eqb Pos.eqb orb] in Hm. rewrite (denote_native_int Id.int) in Hd by (cbn; tauto). exact (marshal_int_spec g ob x Hwf Hcl Hm Hd). }
  destruct (Z.eqb_spec id 2) as [->|].
  { cbn [Z.eqb Pos.eqb orb] in Hm. rewrite (denote_native_int Id.bigint) in Hd by (cbn; tauto). exact (marshal_bigint_spec Id.bigint g ob x (or_introl eq_refl) Hwf Hcl Hm Hd). }
  destruct (Z.eqb_spec id 5) as [->|].
  { cbn [Z.eqb Pos.eqb orb] in Hm. rewrite (denote_native_int Id.counter) in Hd by (cbn; tauto). exact (marshal_bigint_spec Id.counter g ob x (or_intror eq_refl) Hwf Hcl Hm Hd). }
  cbn [orb] in Hm.
  destruct (Z.eqb_spec id 8) as [->|]; [cbn [Z.eqb Pos.eqb orb] in Hm; exact (marshal_float_spec g ob x Hwf Hm Hd)|].
  destruct (Z.eqb_spec id 7) as [->|]; [cbn [Z.eqb Pos.eqb orb] in Hm; exact (marshal_double_spec g ob x Hwf Hm Hd)|].
  destruct (Z.eqb_spec id 6) as [->|]; [cbn [Z.eqb Pos.eqb orb] in Hm; exact (marshal_decimal_spec g ob x Hwf Hm Hd)|].
  destruct (Z.eqb_spec id 18) as [->|]; [cbn [Z.eqb Pos.eqb orb] in Hm; exact (marshal_time_spec g ob x Hwf Hm Hd)|].
  destruct (Z.eqb_spec id 11) as [->|]; [cbn [Z.eqb Pos.eqb orb] in Hm; exact (marshal_timestamp_spec g ob x Hwf Hcl Hm Hd)|].
  destruct (Z.eqb_spec id 12) as [->|]; [cbn [Z.eqb Pos.eqb orb] in Hm; exact (marshal_uuid_spec Id.uuid g ob x (or_introl eq_refl) Hwf Hm Hd)|].
  destruct (Z.eqb_spec id 15) as [->|]; [cbn [Z.eqb Pos.eqb orb] in Hm; exact (marshal_uuid_spec Id.timeuuid g ob x (or_intror eq_refl) Hwf Hm Hd)|].
  cbn [orb] in Hm.
  destruct (Z.eqb_spec id 14) as [->|].
  { cbn [Z.eqb Pos.eqb orb] in Hm. rewrite (denote_native_int Id.varint) in Hd by (cbn; tauto). exact (marshal_varint_spec g ob x Hwf Hm Hd). }
  destruct (Z.eqb_spec id 16) as [->|]; [cbn [Z.eqb Pos.eqb orb] in Hm; exact (marshal_inet_spec g ob x Hm Hd)|].
  destruct (Z.eqb_spec id 17) as [->|]; [cbn [Z.eqb Pos.eqb orb] in Hm; exact (marshal_date_spec g ob x Hwf Hcl Hm Hd)|].
  destruct (Z.eqb_spec id 21) as [->|]; [cbn [Z.eqb Pos.eqb orb] in Hm; exact (marshal_duration_spec g ob x Hwf Hcl Hm Hd)|].
  discriminate.
Qed.
