(* C12/Proofs6.v -- the converse through nesting: Unmarshal of the specification's encoding of a value of
   any type tree stores a Go value that means that value (lists and sets into slices and arrays, tuples into
   []interface{} of pointers and into []interface{} of values, both collection framings; by induction over
   the type tree). *)
From GocqlV Require Import Lib.Base Lib.Bits Gen.Consts C12.Model C12.Spec C12.Proofs1 C12.Proofs2 C12.Denote C12.Proofs3
  C12.Proofs4 C12.Proofs5.

Local Open Scope Z_scope.
Set Default Timeout 300.

Fixpoint strip (t : gty) : gty := match t with YPtr e => strip e | _ => t end.
Definition is_ptr (t : gty) : bool := match t with YPtr _ => true | _ => false end.

Section Conv.
Variable pv : Z.

(* the (value, target) pairs covered: native leaves as in C12_unmarshal_native_spec; a null element /
   component needs a pointer target (into a value target it becomes the zero value, as documented) and, in
   a collection, protocol >= 3; a tuple is read either into a []interface{} of pointers to the component
   targets (top level only) or into a slice of interface{} holding goType values (no null components).
   Maps and user-defined types are not covered by this theorem. *)
Fixpoint dec_good (ty : cqlty) (x : cqlval) (t : gty) {struct ty} : Prop :=
  match ty with
  | TNative id => dec_compat id (strip t) /\ dec_clean id x (strip t)
  | TList e | TSet e =>
      match x with
      | VList xs =>
          let ok et := Forall (fun ox => match ox with
                                         | Some xi => dec_good e xi et
                                         | None => 3 <= pv /\ is_ptr et = true
                                         end) xs in
          match strip t with
          | YSlice et => ok et
          | YArray n et => n = length xs /\ ok et
          | _ => False
          end
      | _ => False
      end
  | TTuple es =>
      match x with
      | VTuple xs =>
          match t with
          | YIfaces ts =>
              (fix go (es : list cqlty) (xs : list (option cqlval)) (ts : list gty) {struct es} : Prop :=
                 match es, xs, ts with
                 | [], [], _ => True
                 | e :: es', ox :: xs', ti :: ts' =>
                     match ox with Some xi => dec_good e xi ti | None => is_ptr ti = true end /\ go es' xs' ts'
                 | _, _, _ => False
                 end) es xs ts
          | _ =>
              match strip t with
              | YSlice YIface =>
                  (fix go (es : list cqlty) (xs : list (option cqlval)) {struct es} : Prop :=
                     match es, xs with
                     | [], [] => True
                     | e :: es', Some xi :: xs' => (exists g, gotype e = Some g /\ dec_good e xi g) /\ go es' xs'
                     | _, _ => False
                     end) es xs
              | _ => False
              end
          end
      | _ => False
      end
  | TMap _ _ => False
  | TUdt _ => False
  end.

(* ---- pointers ------------------------------------------------------------------------------------------------ *)
Lemma denote_ptr ty v : denote ty (GPtr (Some v)) = denote ty v.
Proof. destruct ty; reflexivity. Qed.

Lemma ptr_wrap_some t b core g : ptr_wrap t (Some b) core = Ok g ->
  exists g0, core (strip t) = Ok g0 /\ forall ty, denote ty g = denote ty g0.
Proof.
  revert g. induction t; intros g H; cbn [ptr_wrap strip] in *; try (exists g; split; [exact H | reflexivity]).
  destruct (ptr_wrap t (Some b) core) as [v| | |] eqn:E; try discriminate. cbn in H. injection H as <-.
  destruct (IHt v eq_refl) as [g0 [H1 H2]]. exists g0. split; [exact H1|]. intros ty. rewrite denote_ptr. apply H2.
Qed.

Lemma ptr_wrap_none t core g : is_ptr t = true -> ptr_wrap t None core = Ok g -> forall ty, denote ty g = Some None.
Proof. destruct t; try discriminate. cbn. intros _ H ty. injection H as <-. destruct ty; reflexivity. Qed.

Ltac some_inv H :=
  apply (f_equal (fun o => match o with Some v => v | None => @nil Z end)) in H; cbv beta iota in H; subst.

(* ---- reading the specification's framing ---------------------------------------------------------------------- *)
Lemma read_count (n : nat) h rest : coll_count pv n = Some h -> read_size pv (h ++ rest) = Ok (Z.of_nat n, rest).
Proof.
  unfold coll_count, read_size. rewrite v3_test.
  destruct (3 <=? pv).
  - destruct (fits_signed 4 (Z.of_nat n)) eqn:Ef; [|discriminate]. intros H. some_inv H.
    replace (length (be_fixed 4 (Z.of_nat n) ++ rest) <? 4)%nat with false by (symmetry; apply Nat.ltb_ge; rewrite app_length, be_fixed_length; lia).
    rewrite firstn_app, be_fixed_length, Nat.sub_diag, firstn_O, app_nil_r, firstn_all2 by (rewrite be_fixed_length; lia).
    rewrite skipn_app, be_fixed_length, Nat.sub_diag, skipn_all2 by (rewrite be_fixed_length; lia).
    rewrite dec_int_be_fixed by exact Ef. reflexivity.
  - destruct (fits_unsigned 2 (Z.of_nat n)) eqn:Ef; [|discriminate]. intros H. some_inv H.
    replace (length (be_fixed 2 (Z.of_nat n) ++ rest) <? 2)%nat with false by (symmetry; apply Nat.ltb_ge; rewrite app_length, be_fixed_length; lia).
    rewrite !be_fixed_S, be_fixed_0. cbn [app nth skipn]. unfold fits_unsigned in Ef. cbn in Ef.
    rewrite lor_shiftl_add by (pow_consts; lia). pow_consts. change (256 ^ Z.of_nat 1) with 256. change (256 ^ Z.of_nat 0) with 1.
    do 2 f_equal. lia.
Qed.

Lemma read_frame item a rest : coll_bytes pv item = Some a -> (item = None -> 3 <= pv) ->
  read_elem pv (a ++ rest) = Ok (item, rest) /\ size_width pv <= blen a.
Proof.
  intros Hc Hn. unfold coll_bytes, int_bytes in Hc. unfold read_elem, size_width. rewrite v3_test.
  destruct (Z.leb_spec 3 pv) as [H3|H3].
  - destruct item as [b|].
    + destruct (fits_signed 4 (Z.of_nat (length b))) eqn:Ef; [|discriminate]. some_inv Hc.
      pose proof (read_count (length b) (be_fixed 4 (Z.of_nat (length b))) (b ++ rest)) as Hr.
      unfold coll_count in Hr. replace (3 <=? pv) with true in Hr by (symmetry; apply Z.leb_le; lia). rewrite Ef in Hr.
      rewrite <- app_assoc, (Hr eq_refl). cbn [rbind]. unfold blen.
      replace (0 <=? Z.of_nat (length b)) with true by (symmetry; apply Z.leb_le; lia).
      replace (Z.of_nat (length (b ++ rest)) <? Z.of_nat (length b)) with false by (symmetry; apply Z.ltb_ge; rewrite app_length; lia).
      rewrite Nat2Z.id, firstn_app, Nat.sub_diag, firstn_O, app_nil_r, firstn_all, skipn_app, Nat.sub_diag, skipn_all.
      split; [reflexivity|]. rewrite app_length, be_fixed_length. lia.
    + some_inv Hc. split; [|unfold blen; rewrite be_fixed_length; lia].
      unfold read_size. rewrite v3_test. replace (3 <=? pv) with true by (symmetry; apply Z.leb_le; lia).
      replace (length (be_fixed 4 (-1) ++ rest) <? 4)%nat with false by (symmetry; apply Nat.ltb_ge; rewrite app_length, be_fixed_length; lia).
      rewrite firstn_app, be_fixed_length, Nat.sub_diag, firstn_O, app_nil_r, firstn_all2 by (rewrite be_fixed_length; lia).
      rewrite skipn_app, be_fixed_length, Nat.sub_diag, skipn_all2 by (rewrite be_fixed_length; lia).
      rewrite dec_int_be_fixed by reflexivity. reflexivity.
  - destruct item as [b|]; [|specialize (Hn eq_refl); lia].
    destruct (fits_unsigned 2 (Z.of_nat (length b))) eqn:Ef; [|discriminate]. some_inv Hc.
    pose proof (read_count (length b) (be_fixed 2 (Z.of_nat (length b))) (b ++ rest)) as Hr.
    unfold coll_count in Hr. replace (3 <=? pv) with false in Hr by (symmetry; apply Z.leb_gt; lia). rewrite Ef in Hr.
    rewrite <- app_assoc, (Hr eq_refl). cbn [rbind]. unfold blen.
    replace (0 <=? Z.of_nat (length b)) with true by (symmetry; apply Z.leb_le; lia).
    replace (Z.of_nat (length (b ++ rest)) <? Z.of_nat (length b)) with false by (symmetry; apply Z.ltb_ge; rewrite app_length; lia).
    rewrite Nat2Z.id, firstn_app, Nat.sub_diag, firstn_O, app_nil_r, firstn_all, skipn_app, Nat.sub_diag, skipn_all.
    split; [reflexivity|]. rewrite app_length, be_fixed_length. lia.
Qed.

Lemma int_frame (ob : option bytes) a rest : int_bytes ob = Some a -> tuple_next (a ++ rest) = Ok (ob, rest).
Proof.
  unfold int_bytes. intros H. unfold tuple_next, read_bytes.
  destruct ob as [b|].
  - destruct (fits_signed 4 (Z.of_nat (length b))) eqn:Ef; [|discriminate]. some_inv H.
    replace (4 <=? length ((be_fixed 4 (Z.of_nat (length b)) ++ b) ++ rest))%nat with true by (symmetry; apply Nat.leb_le; rewrite !app_length, be_fixed_length; lia).
    rewrite <- app_assoc.
    rewrite firstn_app, be_fixed_length, Nat.sub_diag, firstn_O, app_nil_r, firstn_all2 by (rewrite be_fixed_length; lia).
    rewrite skipn_app, be_fixed_length, Nat.sub_diag, skipn_all2 by (rewrite be_fixed_length; lia). cbn [skipn app].
    rewrite dec_int_be_fixed by exact Ef. unfold blen.
    replace (Z.of_nat (length b) <? 0) with false by (symmetry; apply Z.ltb_ge; lia).
    replace (Z.of_nat (length (b ++ rest)) <? Z.of_nat (length b)) with false by (symmetry; apply Z.ltb_ge; rewrite app_length; lia).
    rewrite Nat2Z.id, firstn_app, Nat.sub_diag, firstn_O, app_nil_r, firstn_all, skipn_app, Nat.sub_diag, skipn_all. reflexivity.
  - some_inv H.
    replace (4 <=? length (be_fixed 4 (-1) ++ rest))%nat with true by (symmetry; apply Nat.leb_le; rewrite app_length, be_fixed_length; lia).
    rewrite firstn_app, be_fixed_length, Nat.sub_diag, firstn_O, app_nil_r, firstn_all2 by (rewrite be_fixed_length; lia).
    rewrite skipn_app, be_fixed_length, Nat.sub_diag, skipn_all2 by (rewrite be_fixed_length; lia). cbn [skipn app].
    rewrite dec_int_be_fixed by reflexivity. reflexivity.
Qed.

(* the statement carried by the induction, for one element type *)
Definition conv_ok (e : cqlty) : Prop := forall x b t g,
  encode_value pv e x = Some b -> dec_good e x t -> unmarshal pv e (Some b) t = Ok g -> denote e g = Some (Some x).

Definition elem_good (e : cqlty) (et : gty) (ox : option cqlval) : Prop :=
  match ox with Some xi => dec_good e xi et | None => 3 <= pv /\ is_ptr et = true end.

Lemma list_loop_conv e et : conv_ok e -> forall xs r gs rest fuel,
  concat_opt (map (framed (coll_bytes pv) (encode_value pv e)) xs) = Some r ->
  Forall (elem_good e et) xs -> (length xs <= fuel)%nat ->
  list_loop fuel pv (fun ed => ptr_wrap et ed (unmarshal_core pv e ed)) (Z.of_nat (length xs)) (r ++ rest) = Ok gs ->
  all_some (map (denote e) gs) = Some xs /\ size_width pv * Z.of_nat (length xs) <= blen r.
Proof.
  intros IH. induction xs as [|ox xs IHxs]; intros r gs rest fuel Hc Hg Hf Hl.
  - cbn in Hc. some_inv Hc. destruct fuel; cbn in Hl; injection Hl as <-; (split; [reflexivity | cbn; lia]).
  - cbn [map concat_opt] in Hc. destruct (framed (coll_bytes pv) (encode_value pv e) ox) as [a|] eqn:Ea; [|discriminate].
    destruct (concat_opt (map (framed (coll_bytes pv) (encode_value pv e)) xs)) as [r'|] eqn:Er; [|discriminate]. some_inv Hc.
    inversion Hg as [|? ? Hox Hxs]; subst. destruct fuel as [|fuel]; [cbn in Hf; lia|]. cbn [length] in *.
    unfold framed in Ea. destruct (enc_opt (encode_value pv e) ox) as [item|] eqn:Ei; [|discriminate].
    assert (Hnull : item = None -> 3 <= pv).
    { intros ->. destruct ox as [xi|]; cbn in Ei; [destruct (encode_value pv e xi); discriminate | exact (proj1 Hox)]. }
    destruct (read_frame item a (r' ++ rest) Ea Hnull) as [Hr Hw].
    cbn [list_loop] in Hl. replace (Z.of_nat (S (length xs)) <=? 0) with false in Hl by (symmetry; apply Z.leb_gt; lia).
    rewrite <- app_assoc, Hr in Hl. cbn [rbind fst snd] in Hl.
    destruct (ptr_wrap et item (unmarshal_core pv e item)) as [v| | |] eqn:Ev; try discriminate. cbn [rbind] in Hl.
    replace (Z.of_nat (S (length xs)) - 1) with (Z.of_nat (length xs)) in Hl by lia.
    destruct (list_loop fuel pv (fun ed => ptr_wrap et ed (unmarshal_core pv e ed)) (Z.of_nat (length xs)) (r' ++ rest)) as [vs| | |] eqn:El; try discriminate.
    cbn [rbind] in Hl. injection Hl as <-.
    destruct (IHxs r' vs rest fuel eq_refl Hxs ltac:(lia) El) as [IH1 IH2].
    split; [|unfold blen in *; rewrite app_length; lia].
    cbn [map all_some]. rewrite IH1.
    assert (Hv : denote e v = Some ox); [|rewrite Hv; reflexivity].
    destruct ox as [xi|]; cbn in Ei.
    + destruct (encode_value pv e xi) as [bi|] eqn:Eb; [|discriminate]. cbn in Ei. injection Ei as <-.
      exact (IH xi bi et v Eb Hox Ev).
    + injection Ei as <-. exact (ptr_wrap_none et _ v (proj2 Hox) Ev e).
Qed.

Lemma all_some_map_length {A B} (f : A -> option B) l xs : all_some (map f l) = Some xs -> length l = length xs.
Proof. intros H. apply all_some_length in H. rewrite map_length in H. lia. Qed.

Lemma frames_length e et : forall xs r,
  concat_opt (map (framed (coll_bytes pv) (encode_value pv e)) xs) = Some r -> Forall (elem_good e et) xs ->
  size_width pv * Z.of_nat (length xs) <= blen r.
Proof.
  induction xs as [|ox xs IHx]; intros r Er Hg; [cbn; unfold blen; lia|].
  cbn [map concat_opt] in Er. destruct (framed (coll_bytes pv) (encode_value pv e) ox) as [a|] eqn:Ea; [|discriminate].
  destruct (concat_opt (map (framed (coll_bytes pv) (encode_value pv e)) xs)) as [r'|] eqn:Er'; [|discriminate]. some_inv Er.
  inversion Hg as [|? ? Hox Hxs]; subst. specialize (IHx r' eq_refl Hxs).
  unfold framed in Ea. destruct (enc_opt (encode_value pv e) ox) as [item|] eqn:Ei; [|discriminate].
  assert (Hnull : item = None -> 3 <= pv).
  { intros ->. destruct ox as [xi|]; cbn in Ei; [destruct (encode_value pv e xi); discriminate | exact (proj1 Hox)]. }
  destruct (read_frame item a [] Ea Hnull) as [_ Hwa]. unfold blen in *. rewrite app_length. cbn [length]. lia.
Qed.

(* lists and sets into a slice or an array *)
Lemma list_conv e : conv_ok e -> forall xs b t0 g,
  match coll_count pv (length xs), concat_opt (map (framed (coll_bytes pv) (encode_value pv e)) xs) with
  | Some h, Some r => Some (h ++ r) | _, _ => None end = Some b ->
  match t0 with
  | YSlice et => Forall (elem_good e et) xs
  | YArray n et => n = length xs /\ Forall (elem_good e et) xs
  | _ => False
  end ->
  unmarshal_list pv (unmarshal_core pv e) (Some b) t0 = Ok g ->
  match seq_items g with
  | Some (Some l) => option_map (fun ys => Some (VList ys)) (all_some (map (denote e) l)) = Some (Some (VList xs))
  | _ => False
  end /\ g <> GNil.
Proof.
  intros IH xs b t0 g Henc Hg Hu.
  destruct (coll_count pv (length xs)) as [h|] eqn:Eh; [|discriminate].
  destruct (concat_opt (map (framed (coll_bytes pv) (encode_value pv e)) xs)) as [r|] eqn:Er; [|discriminate]. some_inv Henc.
  assert (Hw : 2 <= size_width pv) by (unfold size_width; destruct (K.protoVersion2 <? pv); lia).
  destruct t0; try contradiction; cbn [unmarshal_list] in Hu; rewrite (read_count (length xs) h r Eh) in Hu; cbn [rbind fst snd] in Hu;
    replace (Z.of_nat (length xs) <? 0) with false in Hu by (symmetry; apply Z.ltb_ge; lia).
  - destruct (blen r / size_width pv <? Z.of_nat (length xs)); [discriminate|].
    set (fuel := S (length (h ++ r))) in *.
    destruct (list_loop fuel pv (fun ed => ptr_wrap t0 ed (unmarshal_core pv e ed)) (Z.of_nat (length xs)) r) as [gs| | |] eqn:El; try discriminate.
    cbn in Hu. injection Hu as <-. rewrite <- (app_nil_r r) in El.
    assert (Hfuel : (length xs <= fuel)%nat).
    { pose proof (frames_length e t0 xs r Er Hg) as Hb. unfold blen in Hb. unfold fuel. rewrite app_length. nia. }
    destruct (list_loop_conv e t0 IH xs r gs [] _ Er Hg Hfuel El) as [H1 _].
    split; [|discriminate]. cbn [seq_items]. rewrite H1. reflexivity.
  - destruct Hg as [-> Hg]. destruct (blen r / size_width pv <? Z.of_nat (length xs)); [discriminate|].
    rewrite Z.eqb_refl in Hu. cbn [negb] in Hu.
    set (fuel := S (length (h ++ r))) in *.
    destruct (list_loop fuel pv (fun ed => ptr_wrap t0 ed (unmarshal_core pv e ed)) (Z.of_nat (length xs)) r) as [gs| | |] eqn:El; try discriminate.
    cbn in Hu. injection Hu as <-. rewrite <- (app_nil_r r) in El.
    assert (Hfuel : (length xs <= fuel)%nat).
    { pose proof (frames_length e t0 xs r Er Hg) as Hb. unfold blen in Hb. unfold fuel. rewrite app_length. nia. }
    destruct (list_loop_conv e t0 IH xs r gs [] _ Er Hg Hfuel El) as [H1 _].
    split; [|discriminate]. cbn [seq_items]. rewrite H1. reflexivity.
Qed.

(* ---- tuples ---------------------------------------------------------------------------------------------------- *)
Fixpoint tup_good_ifaces (es : list cqlty) (xs : list (option cqlval)) (ts : list gty) {struct es} : Prop :=
  match es, xs, ts with
  | [], [], _ => True
  | e :: es', ox :: xs', ti :: ts' =>
      match ox with Some xi => dec_good e xi ti | None => is_ptr ti = true end /\ tup_good_ifaces es' xs' ts'
  | _, _, _ => False
  end.
Fixpoint tup_good_values (es : list cqlty) (xs : list (option cqlval)) {struct es} : Prop :=
  match es, xs with
  | [], [] => True
  | e :: es', Some xi :: xs' => (exists g, gotype e = Some g /\ dec_good e xi g) /\ tup_good_values es' xs'
  | _, _ => False
  end.

Lemma comp_frame e ox a : framed int_bytes (encode_value pv e) ox = Some a ->
  exists ob, int_bytes ob = Some a /\ match ox with Some xi => exists bi, ob = Some bi /\ encode_value pv e xi = Some bi | None => ob = None end.
Proof.
  unfold framed. destruct ox as [xi|]; cbn.
  - destruct (encode_value pv e xi) as [bi|]; [|discriminate]. cbn. intros H. exists (Some bi). split; [exact H|]. exists bi. split; reflexivity.
  - intros H. exists None. split; [exact H | reflexivity].
Qed.

Lemma tuple_ifaces_conv : forall es xs ts bs gs, Forall conv_ok es ->
  concat_opt (spec_tuple pv es xs) = Some bs -> tup_good_ifaces es xs ts ->
  tuple_ifaces (map (unmarshal_core pv) es) ts bs = Ok gs ->
  all_some (denote_tuple es gs) = Some xs /\ length gs = length es.
Proof.
  induction es as [|e es IHes]; intros xs ts bs gs Hall Hc Hg Hu.
  - destruct xs; [|contradiction]. cbn in Hu. injection Hu as <-. split; reflexivity.
  - destruct xs as [|ox xs]; [contradiction|]. destruct ts as [|ti ts]; [contradiction|].
    cbn [tup_good_ifaces] in Hg. destruct Hg as [Hox Hrest]. inversion Hall as [|? ? He Hes]; subst.
    cbn [spec_tuple concat_opt] in Hc. destruct (framed int_bytes (encode_value pv e) ox) as [a|] eqn:Ea; [|discriminate].
    destruct (concat_opt (spec_tuple pv es xs)) as [bs'|] eqn:Eb; [|discriminate]. some_inv Hc.
    destruct (comp_frame e ox a Ea) as [ob [Hib Hob]].
    cbn [map tuple_ifaces] in Hu. rewrite (int_frame ob a bs' Hib) in Hu. cbn [rbind fst snd] in Hu.
    destruct (ptr_wrap ti ob (unmarshal_core pv e ob)) as [v| | |] eqn:Ev; try discriminate. cbn [rbind] in Hu.
    destruct (tuple_ifaces (map (unmarshal_core pv) es) ts bs') as [vs| | |] eqn:Et; try discriminate. cbn [rbind] in Hu. injection Hu as <-.
    destruct (IHes xs ts bs' vs Hes Eb Hrest Et) as [IH1 IH2]. split; [|cbn; lia].
    cbn [denote_tuple all_some]. rewrite IH1.
    assert (Hv : denote e v = Some ox); [|rewrite Hv; reflexivity].
    destruct ox as [xi|].
    + destruct Hob as [bi [-> Hbi]]. exact (He xi bi ti v Hbi Hox Ev).
    + subst ob. exact (ptr_wrap_none ti _ v Hox Ev e).
Qed.

Lemma tuple_values_conv : forall es xs bs gs, Forall conv_ok es ->
  concat_opt (spec_tuple pv es xs) = Some bs -> tup_good_values es xs ->
  tuple_fields (map (fun e => (gotype e, unmarshal_core pv e)) es) (repeat YIface (length es)) bs = Ok gs ->
  all_some (denote_tuple es gs) = Some xs /\ length gs = length es.
Proof.
  induction es as [|e es IHes]; intros xs bs gs Hall Hc Hg Hu.
  - destruct xs; [|contradiction]. cbn in Hu. injection Hu as <-. split; reflexivity.
  - destruct xs as [|[xi|] xs]; try contradiction.
    cbn [tup_good_values] in Hg. destruct Hg as [[g0 [Hgt Hox]] Hrest]. inversion Hall as [|? ? He Hes]; subst.
    cbn [spec_tuple concat_opt] in Hc. destruct (framed int_bytes (encode_value pv e) (Some xi)) as [a|] eqn:Ea; [|discriminate].
    destruct (concat_opt (spec_tuple pv es xs)) as [bs'|] eqn:Eb; [|discriminate]. some_inv Hc.
    destruct (comp_frame e (Some xi) a Ea) as [ob [Hib [bi [-> Hbi]]]].
    cbn [map length repeat tuple_fields] in Hu. rewrite (int_frame (Some bi) a bs' Hib) in Hu. cbn [rbind fst snd] in Hu.
    rewrite Hgt in Hu.
    destruct (ptr_wrap g0 (Some bi) (unmarshal_core pv e (Some bi))) as [v| | |] eqn:Ev; try discriminate. cbn [rbind] in Hu.
    destruct (tuple_fields (map (fun e0 => (gotype e0, unmarshal_core pv e0)) es) (repeat YIface (length es)) bs') as [vs| | |] eqn:Et; try discriminate.
    cbn [rbind tuple_store] in Hu. injection Hu as <-.
    destruct (IHes xs bs' vs Hes Eb Hrest Et) as [IH1 IH2]. split; [|cbn; lia].
    cbn [denote_tuple all_some]. rewrite IH1. rewrite (He xi bi g0 v Hbi Hox Ev). reflexivity.
Qed.

Lemma denote_native_ptr id p : denote_native id (GPtr p) = None.
Proof.
  unfold denote_native. repeat match goal with |- context [if ?c then _ else _] => destruct c end; reflexivity.
Qed.

(* ---- every type tree ---------------------------------------------------------------------------------------------- *)
Theorem unmarshal_is_spec : forall ty, conv_ok ty.
Proof.
  induction ty as [id|e IHe|e IHe|k e IHk IHe|es IHes|fs IHfs] using cqlty_ind'; intros x b t g Henc Hg Hu.
  - (* native *)
    cbn [dec_good encode_value] in *. destruct Hg as [Hc Hcl]. unfold unmarshal in Hu.
    destruct (ptr_wrap_some t b _ g Hu) as [g0 [Hu0 Hd]]. rewrite Hd. cbn [unmarshal_core] in Hu0.
    pose proof (unmarshal_native_spec id x b (strip t) g0 Henc Hc Hcl Hu0) as Hn.
    cbn [denote]. destruct g0; cbn [peel]; try exact Hn; try discriminate Hn.
    rewrite denote_native_ptr in Hn. discriminate Hn.
  - (* list *)
    cbn [dec_good encode_value] in *. destruct x as [| | | | | |xs| | |]; try contradiction. unfold unmarshal in Hu.
    destruct (ptr_wrap_some t b _ g Hu) as [g0 [Hu0 Hd]]. rewrite Hd. cbn [unmarshal_core] in Hu0.
    assert (Hg' : match strip t with YSlice et => Forall (elem_good e et) xs | YArray n et => n = length xs /\ Forall (elem_good e et) xs | _ => False end)
      by (destruct (strip t); exact Hg).
    destruct (list_conv e IHe xs b (strip t) g0 Henc Hg' Hu0) as [H1 H2].
    cbn [denote]. destruct g0; cbn [peel seq_items] in *; try contradiction; try (destruct l; try contradiction; exact H1); exact H1.
  - (* set *)
    cbn [dec_good encode_value] in *. destruct x as [| | | | | |xs| | |]; try contradiction. unfold unmarshal in Hu.
    destruct (ptr_wrap_some t b _ g Hu) as [g0 [Hu0 Hd]]. rewrite Hd. cbn [unmarshal_core] in Hu0.
    assert (Hg' : match strip t with YSlice et => Forall (elem_good e et) xs | YArray n et => n = length xs /\ Forall (elem_good e et) xs | _ => False end)
      by (destruct (strip t); exact Hg).
    destruct (list_conv e IHe xs b (strip t) g0 Henc Hg' Hu0) as [H1 H2].
    cbn [denote]. destruct g0; cbn [peel seq_items] in *; try contradiction; try (destruct l; try contradiction; exact H1); exact H1.
  - contradiction.
  - (* tuple *)
    cbn [dec_good encode_value] in *. destruct x as [| | | | | | | |xs|]; try contradiction.
    destruct (length xs =? length es)%nat eqn:El; [|discriminate]. apply Nat.eqb_eq in El.
    change (concat_opt (spec_tuple pv es xs) = Some b) in Henc.
    assert (Hvals : forall t0 g0, match t0 with YSlice YIface => tup_good_values es xs | _ => False end ->
              unmarshal_tuple (map (fun e => (gotype e, unmarshal_core pv e)) es) (Some b) t0 = Ok g0 ->
              denote (TTuple es) g0 = Some (Some (VTuple xs))).
    { intros t0 g0 Hg0 Hu0. destruct t0 as [| | | | | | | | | | | | | |e0| | | | | | | ]; try contradiction.
      destruct e0; try contradiction. cbn [unmarshal_tuple bytes_of] in Hu0. rewrite map_length in Hu0.
      destruct (tuple_fields (map (fun e => (gotype e, unmarshal_core pv e)) es) (repeat YIface (length es)) b) as [gs| | |] eqn:Et; try discriminate.
      cbn in Hu0. injection Hu0 as <-.
      destruct (tuple_values_conv es xs b gs IHes Henc Hg0 Et) as [H1 H2].
      cbn [denote peel tuple_items_of]. rewrite H2, Nat.eqb_refl.
      change (option_map (fun ys => Some (VTuple ys)) (all_some (denote_tuple es gs)) = Some (Some (VTuple xs))). rewrite H1. reflexivity. }
    destruct t as [| | | | | | | | | | | | | | | | |ts| | | | ].
    all: try (exfalso; exact Hg).
    all: unfold unmarshal in Hu; destruct (ptr_wrap_some _ b _ g Hu) as [g0 [Hu0 Hd]]; rewrite Hd; cbn [unmarshal_core] in Hu0; cbn [strip] in Hg, Hu0.
    + destruct t; try contradiction. apply (Hvals (YSlice YIface) g0); [exact Hg | exact Hu0].
    + (* []interface{} of pointers *)
      cbn [unmarshal_tuple bytes_of] in Hu0. rewrite map_map in Hu0. cbn [snd] in Hu0.
      destruct (tuple_ifaces (map (fun x0 => unmarshal_core pv x0) es) ts b) as [gs| | |] eqn:Et; try discriminate.
      cbn in Hu0. injection Hu0 as <-.
      destruct (tuple_ifaces_conv es xs ts b gs IHes Henc Hg Et) as [H1 H2].
      cbn [denote peel tuple_items_of]. rewrite H2, Nat.eqb_refl.
      change (option_map (fun ys => Some (VTuple ys)) (all_some (denote_tuple es gs)) = Some (Some (VTuple xs))). rewrite H1. reflexivity.
    + destruct (strip t) as [| | | | | | | | | | | | | |e1| | | | | | | ]; try contradiction. destruct e1; try contradiction.
      apply (Hvals (YSlice YIface) g0); [exact Hg | exact Hu0].
  - contradiction.
Qed.

End Conv.
